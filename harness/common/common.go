// Package common holds what every per-property correspondence runner shares:
// the single PRNG (splitmix64), the pipe to the extracted Coq model
// (`modelrun`), result/violation records and a byte-level shrinker.
package common

import (
	"bufio"
	"encoding/hex"
	"encoding/json"
	"flag"
	"fmt"
	"io"
	"os"
	"os/exec"
	"sort"
	"strings"
	"time"
)

// ---------------------------------------------------------------- PRNG

// RNG is splitmix64; every random choice of a run derives from one seed.
type RNG struct{ s uint64 }

// NewRNG scrambles the seed so that neighbouring seeds give unrelated streams
// (the splitmix64 state advances by a constant, so seeds n and n+1 must not map to
// states that differ by that constant).
func NewRNG(seed uint64) *RNG {
	z := seed + 0x6A09E667F3BCC909
	z = (z ^ (z >> 30)) * 0xBF58476D1CE4E5B9
	z = (z ^ (z >> 27)) * 0x94D049BB133111EB
	z ^= z >> 31
	return &RNG{s: z}
}

func (r *RNG) Uint64() uint64 {
	r.s += 0x9E3779B97F4A7C15
	z := r.s
	z = (z ^ (z >> 30)) * 0xBF58476D1CE4E5B9
	z = (z ^ (z >> 27)) * 0x94D049BB133111EB
	return z ^ (z >> 31)
}

// Intn returns a value in [0,n).
func (r *RNG) Intn(n int) int {
	if n <= 0 {
		return 0
	}
	return int(r.Uint64() % uint64(n))
}

func (r *RNG) Bool() bool        { return r.Uint64()&1 == 1 }
func (r *RNG) Chance(p, q int) bool { return r.Intn(q) < p }

// Pick returns one element of xs.
func Pick[T any](r *RNG, xs []T) T { return xs[r.Intn(len(xs))] }

// Fork derives an independent generator (so that sub-generators do not shift
// each other's streams when one of them is edited).
func (r *RNG) Fork() *RNG { return NewRNG(r.Uint64()) }

// ---------------------------------------------------------------- hex

func Hex(b []byte) string {
	if len(b) == 0 {
		return "-"
	}
	return hex.EncodeToString(b)
}

func UnHex(s string) []byte {
	if s == "-" || s == "" {
		return []byte{}
	}
	b, err := hex.DecodeString(s)
	if err != nil {
		panic("bad hex " + s)
	}
	return b
}

// ---------------------------------------------------------------- model pipe

// Model is a running `modelrun` process: one request line in, one answer
// line out. Requests are written in batches by Ask.
type Model struct {
	cmd *exec.Cmd
	in  io.WriteCloser
	out *bufio.Reader
}

func StartModel(path string, args ...string) (*Model, error) {
	cmd := exec.Command(path, args...)
	in, err := cmd.StdinPipe()
	if err != nil {
		return nil, err
	}
	out, err := cmd.StdoutPipe()
	if err != nil {
		return nil, err
	}
	cmd.Stderr = os.Stderr
	if err := cmd.Start(); err != nil {
		return nil, err
	}
	return &Model{cmd: cmd, in: in, out: bufio.NewReaderSize(out, 1<<20)}, nil
}

// Ask sends the request lines and returns the answer lines (same length).
func (m *Model) Ask(reqs []string) ([]string, error) {
	errc := make(chan error, 1)
	go func() {
		w := bufio.NewWriterSize(m.in, 1<<20)
		for _, r := range reqs {
			w.WriteString(r)
			w.WriteByte('\n')
		}
		w.WriteString(".\n") // flush request: the driver buffers its answers
		errc <- w.Flush()
	}()
	res := make([]string, 0, len(reqs))
	for range reqs {
		line, err := m.out.ReadString('\n')
		if err != nil {
			return res, fmt.Errorf("model died after %d answers: %v", len(res), err)
		}
		res = append(res, strings.TrimRight(line, "\n"))
	}
	if err := <-errc; err != nil {
		return res, err
	}
	return res, nil
}

// Ask1 is Ask for one request.
func (m *Model) Ask1(req string) string {
	r, err := m.Ask([]string{req})
	if err != nil {
		return "MODEL-ERROR " + err.Error()
	}
	return r[0]
}

func (m *Model) Close() {
	m.in.Close()
	m.cmd.Wait()
}

// ---------------------------------------------------------------- results

// Violation is one thing the run found. Kind is one of
//
//	impl-violation  – the property itself fails on the implementation (oracle)
//	correspondence  – model and implementation disagree on the input
//	proof           – (filled in by ./check, never by a runner)
type Violation struct {
	Kind   string            `json:"kind"`
	Oracle string            `json:"oracle,omitempty"` // which oracle / which compared function
	Input  map[string]string `json:"input"`            // named inputs, hex or text
	Model  string            `json:"model,omitempty"`
	Impl   string            `json:"impl,omitempty"`
	Detail string            `json:"detail,omitempty"`
	Key    string            `json:"key"` // canonical key used to match KNOWN_FINDINGS entries
}

// Result is what a runner writes for ./check to merge into the evidence file.
type Result struct {
	Property           string         `json:"property"`
	Tier               string         `json:"tier"`
	Seed               uint64         `json:"seed"`
	Evaluations        int            `json:"evaluations"`
	DistinctNontrivial int            `json:"distinct_nontrivial"`
	Rule               string         `json:"rule"`
	Exhaustive         bool           `json:"exhaustive"`
	Samples            []any          `json:"samples"`
	Distribution       map[string]int `json:"distribution"`
	Violations         []Violation    `json:"violations"`
	Notes              []string       `json:"notes,omitempty"`
	WallS              float64        `json:"wall_s"`

	start    time.Time
	distinct map[string]struct{}
}

func NewResult(prop, tier string, seed uint64) *Result {
	return &Result{Property: prop, Tier: tier, Seed: seed, Distribution: map[string]int{},
		start: time.Now(), distinct: map[string]struct{}{}}
}

// Count bumps a distribution bucket.
func (r *Result) Count(bucket string) { r.Distribution[bucket]++ }

// Case records one evaluation; key identifies it for distinctness and
// nontrivial says whether it reached the anchored mechanism by the runner's rule.
func (r *Result) Case(key string, nontrivial bool) {
	r.Evaluations++
	if nontrivial {
		if _, ok := r.distinct[key]; !ok {
			r.distinct[key] = struct{}{}
		}
	}
}

func (r *Result) Sample(s any) {
	if len(r.Samples) < 12 {
		r.Samples = append(r.Samples, s)
	}
}

const maxViolations = 20

func (r *Result) Violate(v Violation) {
	same := 0
	for _, o := range r.Violations {
		if o.Key == v.Key && o.Kind == v.Kind {
			return
		}
		if o.Kind == v.Kind && o.Oracle == v.Oracle {
			same++
		}
	}
	if same >= 3 { // at most three witnesses per oracle / compared function
		return
	}
	if len(r.Violations) < maxViolations {
		r.Violations = append(r.Violations, v)
	}
}

func (r *Result) Write(path string) {
	r.DistinctNontrivial = len(r.distinct)
	r.WallS = time.Since(r.start).Seconds()
	if r.Samples == nil {
		r.Samples = []any{}
	}
	if r.Violations == nil {
		r.Violations = []Violation{}
	}
	sort.SliceStable(r.Violations, func(i, j int) bool { return r.Violations[i].Kind > r.Violations[j].Kind })
	b, _ := json.MarshalIndent(r, "", " ")
	if err := os.WriteFile(path, b, 0o644); err != nil {
		fmt.Fprintln(os.Stderr, "cannot write result:", err)
		os.Exit(2)
	}
}

// ---------------------------------------------------------------- flags

// Flags are the command-line flags every runner accepts.
type Flags struct {
	Tier   string
	Seed   uint64
	Model  string // path of the modelrun binary
	Out    string // result JSON
	Replay string // replay file (JSON written by ./check) or ""
	Corpus string // corpus directory
	Work   string // scratch directory (removed by ./check)
}

func ParseFlags() *Flags {
	f := &Flags{}
	flag.StringVar(&f.Tier, "tier", "quick", "quick|thorough")
	flag.Uint64Var(&f.Seed, "seed", 1, "PRNG seed")
	flag.StringVar(&f.Model, "model", "", "path of modelrun")
	flag.StringVar(&f.Out, "out", "result.json", "result file")
	flag.StringVar(&f.Replay, "replay", "", "replay file")
	flag.StringVar(&f.Corpus, "corpus", "", "corpus dir")
	flag.StringVar(&f.Work, "work", "", "scratch dir")
	flag.Parse()
	return f
}

// Replay is the replay file format written by ./check.
type Replay struct {
	Property  string    `json:"property"`
	Kind      string    `json:"kind"`
	Seed      uint64    `json:"seed"`
	Violation Violation `json:"violation"`
	Command   string    `json:"command"`
}

func LoadReplay(path string) (*Replay, error) {
	b, err := os.ReadFile(path)
	if err != nil {
		return nil, err
	}
	var r Replay
	if err := json.Unmarshal(b, &r); err != nil {
		return nil, err
	}
	return &r, nil
}

// ---------------------------------------------------------------- shrinking

// ShrinkBytes minimises data while bad(data) stays true (delta debugging on
// chunks, then single bytes, then byte simplification).
func ShrinkBytes(data []byte, bad func([]byte) bool) []byte {
	cur := append([]byte{}, data...)
	for chunk := len(cur) / 2; chunk >= 1; {
		removed := false
		for i := 0; i+chunk <= len(cur); {
			cand := append(append([]byte{}, cur[:i]...), cur[i+chunk:]...)
			if bad(cand) {
				cur = cand
				removed = true
			} else {
				i += chunk
			}
		}
		if !removed || chunk > len(cur) {
			chunk /= 2
		}
		if chunk > len(cur) {
			chunk = len(cur)
		}
	}
	for i := range cur {
		for _, repl := range []byte{'a', ' '} {
			if cur[i] != repl && cur[i] != '\n' && cur[i] != '-' {
				old := cur[i]
				cur[i] = repl
				if bad(cur) {
					break
				}
				cur[i] = old
			}
		}
	}
	return cur
}

// ShrinkList minimises a list of items while bad stays true.
func ShrinkList[T any](xs []T, bad func([]T) bool) []T {
	cur := append([]T{}, xs...)
	for chunk := len(cur) / 2; chunk >= 1; {
		removed := false
		for i := 0; i+chunk <= len(cur); {
			cand := append(append([]T{}, cur[:i]...), cur[i+chunk:]...)
			if bad(cand) {
				cur = cand
				removed = true
			} else {
				i += chunk
			}
		}
		if !removed {
			chunk /= 2
		}
		if chunk > len(cur) {
			chunk = len(cur)
		}
	}
	return cur
}

// Safely runs f and maps a panic to the token "PANIC".
func Safely(f func() string) (out string) {
	defer func() {
		if e := recover(); e != nil {
			out = "PANIC"
		}
	}()
	return f()
}

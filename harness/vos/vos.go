// Package vos stands in for package os inside the generated copy of /repo's cache package
// (harness/gen/cachev, import "os" redirected here).  Every call the cache makes on the file
// system is one numbered, logged operation; a plan can make the k-th operation fail, make a
// write short, or stop the "process" (panic with a Crash token) before or after it or in the
// middle of a write.  In scheduler mode each registered client goroutine executes one
// operation per turn, in the order a schedule dictates (C11).
package vos

import (
	"bytes"
	"errors"
	"io"
	"io/fs"
	"os"
	"runtime"
	"strconv"
	"sync"
	"syscall"
	"time"
)

const (
	O_RDONLY = os.O_RDONLY
	O_WRONLY = os.O_WRONLY
	O_RDWR   = os.O_RDWR
	O_APPEND = os.O_APPEND
	O_CREATE = os.O_CREATE
	O_EXCL   = os.O_EXCL
	O_TRUNC  = os.O_TRUNC
)

var Stderr = os.Stderr

type FileInfo = fs.FileInfo
type FileMode = fs.FileMode

func Getenv(k string) string              { return os.Getenv(k) }
func MkdirAll(p string, m FileMode) error { return os.MkdirAll(p, m) }
func UserCacheDir() (string, error)       { return os.UserCacheDir() }
func IsNotExist(err error) bool           { return os.IsNotExist(err) }

// ---- plans, log, crash token

// Plan: at operation number K (0-based, counted from the last Reset) apply Kind.
type Plan struct {
	K    int
	Kind string // fail | short | stopbefore | stopafter | torn
	J    int    // bytes applied by short / torn
}

type OpRec struct {
	Client int    `json:"c"`
	Name   string `json:"op"`
	Path   string `json:"path"`
	Flags  string `json:"flags,omitempty"`
	Off    int64  `json:"off"`
	N      int    `json:"n"`
	Data   []byte `json:"data,omitempty"` // bytes handed to a write of an index file
	Fault  string `json:"fault,omitempty"`
}

// Crash is the panic value that stands for the process stopping.
type Crash struct{ At int }

var ErrInjected = &fs.PathError{Op: "injected", Path: "", Err: syscall.EIO}

var ctl struct {
	mu    sync.Mutex
	count int
	plan  *Plan
	dead  bool // a Crash has been raised: the "process" is gone, deferred calls must not act
	log   []OpRec
	open  map[*File]bool
	sched *sched
}

// Reset clears the log and the counter and installs plan.  After a crash the descriptors the
// stopped "process" held are closed (the kernel would have); descriptors a call that RETURNED
// left open stay open, as they would in a real process (they are a leak, and are seen as one).
func Reset(plan *Plan) {
	ctl.mu.Lock()
	defer ctl.mu.Unlock()
	if ctl.dead {
		for f := range ctl.open {
			f.f.Close()
		}
		ctl.open = map[*File]bool{}
	}
	if ctl.open == nil {
		ctl.open = map[*File]bool{}
	}
	ctl.count = 0
	ctl.dead = false
	ctl.plan = plan
	ctl.log = nil
	ctl.sched = nil
}

// Count is the number of operations performed since the last Reset.
func Count() int {
	ctl.mu.Lock()
	defer ctl.mu.Unlock()
	return ctl.count
}

func Log() []OpRec {
	ctl.mu.Lock()
	defer ctl.mu.Unlock()
	return append([]OpRec{}, ctl.log...)
}

type action struct {
	kind string
	j    int
	idx  int
}

// enter numbers and logs the operation and returns what the plan says about it; in scheduler
// mode it first waits for the client's turn.
func enter(rec OpRec) action {
	if s := ctl.sched; s != nil {
		rec.Client = s.wait()
	}
	ctl.mu.Lock()
	if ctl.dead {
		// a deferred call running while the Crash panic unwinds: a stopped process does nothing
		ctl.mu.Unlock()
		panic(Crash{-1})
	}
	idx := ctl.count
	ctl.count++
	a := action{idx: idx}
	if ctl.plan != nil && ctl.plan.K == idx {
		a.kind, a.j = ctl.plan.Kind, ctl.plan.J
		rec.Fault = a.kind
	}
	ctl.log = append(ctl.log, rec)
	ctl.mu.Unlock()
	if a.kind == "stopbefore" {
		crash(idx)
	}
	return a
}

func (a action) failing() bool { return a.kind == "fail" || a.kind == "short" }

// leave is called after the real operation (or instead of it for torn non-writes).
func (a action) leave() {
	if a.kind == "stopafter" || a.kind == "torn" {
		crash(a.idx)
	}
}

func crash(idx int) {
	ctl.mu.Lock()
	ctl.dead = true
	ctl.mu.Unlock()
	panic(Crash{idx})
}

// ---- package-level operations

func Stat(name string) (FileInfo, error) {
	a := enter(OpRec{Name: "stat", Path: name})
	if a.failing() {
		return nil, ErrInjected
	}
	if a.kind == "torn" {
		a.leave()
	}
	fi, err := os.Stat(name)
	a.leave()
	return fi, err
}

func Chtimes(name string, at, mt time.Time) error {
	a := enter(OpRec{Name: "chtimes", Path: name})
	if a.failing() {
		return ErrInjected
	}
	if a.kind == "torn" {
		a.leave()
	}
	err := os.Chtimes(name, at, mt)
	a.leave()
	return err
}

func Remove(name string) error {
	a := enter(OpRec{Name: "remove", Path: name})
	if a.failing() {
		return ErrInjected
	}
	if a.kind == "torn" {
		a.leave()
	}
	err := os.Remove(name)
	a.leave()
	return err
}

// ReadFile is one operation (a read of the whole file); short delivers the first J bytes.
func ReadFile(name string) ([]byte, error) {
	a := enter(OpRec{Name: "readall", Path: name})
	if a.kind == "fail" {
		return nil, ErrInjected
	}
	if a.kind == "torn" {
		a.leave()
	}
	b, err := os.ReadFile(name)
	if a.kind == "short" {
		if a.j < len(b) {
			b = b[:a.j]
		}
		return b, ErrInjected
	}
	a.leave()
	return b, err
}

// WriteFile is what os.WriteFile does: OpenFile(O_WRONLY|O_CREATE|O_TRUNC), one Write, Close --
// three numbered operations, each of which a plan can fail, shorten or stop at.
func WriteFile(name string, data []byte, perm FileMode) error {
	f, err := OpenFile(name, O_WRONLY|O_CREATE|O_TRUNC, perm)
	if err != nil {
		return err
	}
	_, err = f.Write(data)
	if err1 := f.Close(); err1 != nil && err == nil {
		err = err1
	}
	return err
}

// CloseLeaked closes the descriptors opened through the shim and still open (after a leak has
// been recorded, so that it does not slow down or starve the rest of the run).
func CloseLeaked() {
	ctl.mu.Lock()
	defer ctl.mu.Unlock()
	for f := range ctl.open {
		f.f.Close()
	}
	ctl.open = map[*File]bool{}
}

// OpenCount is the number of descriptors opened through the shim and not yet closed.
func OpenCount() int {
	ctl.mu.Lock()
	defer ctl.mu.Unlock()
	return len(ctl.open)
}

func flagString(flag int) string {
	s := ""
	if flag&O_CREATE != 0 {
		s += "c"
	}
	if flag&O_TRUNC != 0 {
		s += "t"
	}
	return s
}

func Open(name string) (*File, error) { return OpenFile(name, O_RDONLY, 0) }

func OpenFile(name string, flag int, perm FileMode) (*File, error) {
	a := enter(OpRec{Name: "open", Path: name, Flags: flagString(flag)})
	if a.failing() {
		return nil, ErrInjected
	}
	if a.kind == "torn" {
		a.leave()
	}
	f, err := os.OpenFile(name, flag, perm)
	var vf *File
	if err == nil {
		vf = &File{f: f, path: name}
		ctl.mu.Lock()
		if ctl.open == nil {
			ctl.open = map[*File]bool{}
		}
		ctl.open[vf] = true
		ctl.mu.Unlock()
	}
	a.leave()
	if err != nil {
		return nil, err
	}
	return vf, nil
}

// ---- files

type File struct {
	f      *os.File
	path   string
	off    int64
	closed bool
}

func (f *File) Name() string { return f.path }

func (f *File) Read(p []byte) (int, error) {
	a := enter(OpRec{Name: "read", Path: f.path, Off: f.off, N: len(p)})
	if a.kind == "fail" {
		return 0, ErrInjected
	}
	if a.kind == "torn" {
		a.leave()
	}
	if a.kind == "short" && a.j < len(p) {
		p = p[:a.j]
	}
	n, err := f.f.Read(p)
	f.off += int64(n)
	if a.kind == "short" {
		return n, ErrInjected
	}
	a.leave()
	return n, err
}

// WriteTo makes io.Copy(h, f) a single operation: the whole rest of the file is read.
func (f *File) WriteTo(w io.Writer) (int64, error) {
	a := enter(OpRec{Name: "readall", Path: f.path, Off: f.off})
	if a.kind == "fail" {
		return 0, ErrInjected
	}
	if a.kind == "torn" {
		a.leave()
	}
	b, err := io.ReadAll(f.f)
	f.off += int64(len(b))
	if a.kind == "short" {
		if a.j < len(b) {
			b = b[:a.j]
		}
		n, _ := w.Write(b)
		return int64(n), ErrInjected
	}
	n, werr := w.Write(b)
	a.leave()
	if err == nil {
		err = werr
	}
	return int64(n), err
}

func (f *File) write(b []byte) (int, error) {
	rec := OpRec{Name: "write", Path: f.path, Off: f.off, N: len(b)}
	if len(b) <= 256 {
		rec.Data = append([]byte{}, b...)
	}
	a := enter(rec)
	switch a.kind {
	case "fail":
		return 0, ErrInjected
	case "short", "torn":
		j := a.j
		if j > len(b)-1 {
			j = len(b) - 1
		}
		if j < 0 {
			j = 0
		}
		n, _ := f.f.Write(b[:j])
		f.off += int64(n)
		if a.kind == "torn" {
			a.leave()
		}
		return n, io.ErrShortWrite
	}
	n, err := f.f.Write(b)
	f.off += int64(n)
	a.leave()
	return n, err
}

func (f *File) Write(b []byte) (int, error)       { return f.write(b) }
func (f *File) WriteString(s string) (int, error) { return f.write([]byte(s)) }

func (f *File) Truncate(size int64) error {
	a := enter(OpRec{Name: "truncate", Path: f.path, N: int(size)})
	if a.failing() {
		return ErrInjected
	}
	if a.kind == "torn" {
		a.leave()
	}
	err := f.f.Truncate(size)
	a.leave()
	return err
}

func (f *File) Close() error {
	a := enter(OpRec{Name: "close", Path: f.path})
	if f.closed {
		// the deferred second Close of copyFile: no system call, an error nobody looks at
		a.leave()
		return os.ErrClosed
	}
	if a.failing() {
		// the descriptor is released all the same (as close(2) does), the error is reported
		f.closed = true
		f.f.Close()
		ctl.mu.Lock()
		delete(ctl.open, f)
		ctl.mu.Unlock()
		return ErrInjected
	}
	if a.kind == "torn" {
		a.leave()
	}
	f.closed = true
	err := f.f.Close()
	ctl.mu.Lock()
	delete(ctl.open, f)
	ctl.mu.Unlock()
	a.leave()
	return err
}

func (f *File) Readdirnames(n int) ([]string, error) { return f.f.Readdirnames(n) }
func (f *File) Stat() (FileInfo, error)              { return f.f.Stat() }
func (f *File) Seek(o int64, w int) (int64, error) {
	n, err := f.f.Seek(o, w)
	if err == nil {
		f.off = n
	}
	return n, err
}

// ---- the rest of package os a changed cache package may reach for: enough of it that such a
// tree can still be run under fault plans and schedules (operations the model does not have show
// up in the trace comparison; the direct oracles apply regardless)

const (
	O_SYNC   = os.O_SYNC
	ModePerm = fs.ModePerm
)

var (
	ErrNotExist = fs.ErrNotExist
	ErrExist    = fs.ErrExist
	ErrClosed   = fs.ErrClosed
	Args        = os.Args
)

type PathError = fs.PathError
type DirEntry = fs.DirEntry

func Getpid() int                             { return os.Getpid() }
func IsExist(err error) bool                  { return os.IsExist(err) }
func TempDir() string                         { return os.TempDir() }
func ReadDir(name string) ([]DirEntry, error) { return os.ReadDir(name) }
func Mkdir(p string, m FileMode) error        { return os.Mkdir(p, m) }
func RemoveAll(p string) error                { return os.RemoveAll(p) }
func SameFile(a, b FileInfo) bool             { return os.SameFile(a, b) }
func Readlink(name string) (string, error)    { return os.Readlink(name) }
func Create(name string) (*File, error)       { return OpenFile(name, O_RDWR|O_CREATE|O_TRUNC, 0o666) }
func Lstat(name string) (FileInfo, error) {
	a := enter(OpRec{Name: "stat", Path: name})
	if a.failing() {
		return nil, ErrInjected
	}
	if a.kind == "torn" {
		a.leave()
	}
	fi, err := os.Lstat(name)
	a.leave()
	return fi, err
}

func simpleOp(op, name string, f func() error) error {
	a := enter(OpRec{Name: op, Path: name})
	if a.failing() {
		return ErrInjected
	}
	if a.kind == "torn" {
		a.leave()
	}
	err := f()
	a.leave()
	return err
}

func Rename(oldp, newp string) error {
	return simpleOp("rename", newp, func() error { return os.Rename(oldp, newp) })
}
func Link(oldp, newp string) error {
	return simpleOp("link", newp, func() error { return os.Link(oldp, newp) })
}
func Symlink(oldp, newp string) error {
	return simpleOp("symlink", newp, func() error { return os.Symlink(oldp, newp) })
}
func Truncate(name string, size int64) error {
	return simpleOp("truncate", name, func() error { return os.Truncate(name, size) })
}
func Chmod(name string, m FileMode) error {
	return simpleOp("chmod", name, func() error { return os.Chmod(name, m) })
}

// CreateTemp is one open operation on the name it chose.
func CreateTemp(dir, pattern string) (*File, error) {
	a := enter(OpRec{Name: "open", Path: dir + "/" + pattern, Flags: "cx"})
	if a.failing() {
		return nil, ErrInjected
	}
	if a.kind == "torn" {
		a.leave()
	}
	f, err := os.CreateTemp(dir, pattern)
	var vf *File
	if err == nil {
		vf = &File{f: f, path: f.Name()}
		ctl.mu.Lock()
		if ctl.open == nil {
			ctl.open = map[*File]bool{}
		}
		ctl.open[vf] = true
		ctl.mu.Unlock()
	}
	a.leave()
	if err != nil {
		return nil, err
	}
	return vf, nil
}

func (f *File) Fd() uintptr { return f.f.Fd() }
func (f *File) Sync() error {
	return simpleOp("sync", f.path, func() error { return f.f.Sync() })
}
func (f *File) Chmod(m FileMode) error {
	return simpleOp("chmod", f.path, func() error { return f.f.Chmod(m) })
}
func (f *File) ReadAt(p []byte, off int64) (int, error) {
	a := enter(OpRec{Name: "read", Path: f.path, Off: off, N: len(p)})
	if a.kind == "fail" {
		return 0, ErrInjected
	}
	if a.kind == "torn" {
		a.leave()
	}
	if a.kind == "short" && a.j < len(p) {
		p = p[:a.j]
	}
	n, err := f.f.ReadAt(p, off)
	if a.kind == "short" {
		return n, ErrInjected
	}
	a.leave()
	return n, err
}
func (f *File) WriteAt(b []byte, off int64) (int, error) {
	rec := OpRec{Name: "write", Path: f.path, Off: off, N: len(b)}
	a := enter(rec)
	switch a.kind {
	case "fail":
		return 0, ErrInjected
	case "short", "torn":
		j := a.j
		if j > len(b)-1 {
			j = len(b) - 1
		}
		if j < 0 {
			j = 0
		}
		n, _ := f.f.WriteAt(b[:j], off)
		if a.kind == "torn" {
			a.leave()
		}
		return n, io.ErrShortWrite
	}
	n, err := f.f.WriteAt(b, off)
	a.leave()
	return n, err
}
func (f *File) ReadDir(n int) ([]DirEntry, error) { return f.f.ReadDir(n) }

// ---- cooperative scheduler (C11)

type sched struct {
	mu     sync.Mutex
	byGo   map[uint64]int
	grant  []chan struct{}
	yield  chan int // a client is parked at an operation
	done   chan int // a client has finished
	parked []bool
	alive  []bool
	pseudo []bool // the client is parked at a Yield, not at a file operation
}

func goid() uint64 {
	var buf [64]byte
	n := runtime.Stack(buf[:], false)
	f := bytes.Fields(buf[:n])
	if len(f) < 2 {
		return 0
	}
	id, _ := strconv.ParseUint(string(f[1]), 10, 64)
	return id
}

// wait parks the calling client until the scheduler grants it one operation.
func (s *sched) wait() int {
	s.mu.Lock()
	c, ok := s.byGo[goid()]
	s.mu.Unlock()
	if !ok {
		return -1 // not a managed goroutine
	}
	s.yield <- c
	<-s.grant[c]
	return c
}

// Yield is a scheduling point that is NOT a file operation: in scheduler mode the calling client
// waits for a turn and then simply goes on (nothing is numbered or logged).  The worker calls it
// between two API calls of a client, so that the START of a call is placed by the schedule also
// when the call performs no file operation at all (an answer from memory).  Such a turn appears in
// the sequence RunScheduled returns as -(client+1).
func Yield() {
	ctl.mu.Lock()
	s := ctl.sched
	ctl.mu.Unlock()
	if s == nil {
		return
	}
	s.mu.Lock()
	c, ok := s.byGo[goid()]
	if ok {
		s.pseudo[c] = true
	}
	s.mu.Unlock()
	if !ok {
		return
	}
	s.yield <- c
	<-s.grant[c]
}

// RunScheduled runs the client functions as goroutines that execute one file operation per
// turn; schedule[i] names client schedule[i] mod n (an entry naming a client that has finished
// is skipped).  When the schedule is exhausted the remaining clients run round robin.  It
// returns the sequence of clients actually chosen (-(c+1) for a turn client c spent at a Yield).
func RunScheduled(clients []func(), schedule []int) ([]int, error) {
	n := len(clients)
	s := &sched{byGo: map[uint64]int{}, grant: make([]chan struct{}, n), yield: make(chan int), done: make(chan int),
		parked: make([]bool, n), alive: make([]bool, n), pseudo: make([]bool, n)}
	for i := range s.grant {
		s.grant[i] = make(chan struct{})
		s.alive[i] = true
	}
	ctl.mu.Lock()
	ctl.sched = s
	ctl.mu.Unlock()
	defer func() {
		ctl.mu.Lock()
		ctl.sched = nil
		ctl.mu.Unlock()
	}()
	started := make(chan struct{})
	for i, fn := range clients {
		i, fn := i, fn
		go func() {
			s.mu.Lock()
			s.byGo[goid()] = i
			s.mu.Unlock()
			started <- struct{}{}
			defer func() { s.done <- i }()
			fn()
		}()
		<-started
	}
	// wait until every client is parked at its first operation or has finished
	settle := func(k int) error {
		for k > 0 {
			select {
			case c := <-s.yield:
				s.parked[c] = true
			case c := <-s.done:
				s.alive[c] = false
			case <-time.After(20 * time.Second):
				return errors.New("scheduler: a client neither reached an operation nor finished (blocked outside vos?)")
			}
			k--
		}
		return nil
	}
	if err := settle(n); err != nil {
		return nil, err
	}
	var chosen []int
	rr := 0
	for step := 0; ; step++ {
		var live []int
		for i := 0; i < n; i++ {
			if s.alive[i] {
				live = append(live, i)
			}
		}
		if len(live) == 0 {
			return chosen, nil
		}
		var c int
		if step < len(schedule) {
			pick := schedule[step]
			if pick < 0 {
				pick = -pick
			}
			c = pick % n
			if !s.alive[c] {
				continue
			}
		} else {
			c = live[rr%len(live)]
			rr++
		}
		s.mu.Lock()
		if s.pseudo[c] {
			s.pseudo[c] = false
			chosen = append(chosen, -(c + 1)) // a turn spent at a Yield: no operation
		} else {
			chosen = append(chosen, c)
		}
		s.mu.Unlock()
		s.parked[c] = false
		s.grant[c] <- struct{}{}
		if err := settle(1); err != nil {
			return chosen, err
		}
	}
}

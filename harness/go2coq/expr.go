package go2coq

import (
	"fmt"
	"go/ast"
	"go/token"
	"go/types"
	"strings"
)

// expr translates an expression into the bindings of its parts that can panic (in
// evaluation order) and a plain term.  want is the type the context gives an untyped nil.
func (ft *funcTr) expr(e ast.Expr, want types.Type) ([]pre, string) {
	t := ft.t
	if p, v, ok := ft.exprSeg(e, want); ok { // segstate.go
		return p, v
	}
	if p, v, ok := ft.exprExt(e, want); ok { // ext.go
		return p, v
	}
	if p, v, ok := ft.partialLit(e); ok { // partiallit.go
		return p, v
	}
	ft.refuseMayFailExpr(e) // segfail.go
	tv, ok := t.info.Types[e]
	if ok && tv.Value != nil {
		T := tv.Type
		if b, isB := T.(*types.Basic); isB && b.Info()&types.IsUntyped != 0 {
			if want != nil && t.kindOf(want) != kOther && t.kindOf(want) != kError {
				T = want
			} else {
				T = types.Default(T)
			}
		}
		return nil, t.constLit(e, tv.Value, T)
	}
	switch x := e.(type) {
	case *ast.ParenExpr:
		return ft.expr(x.X, want)
	case *ast.Ident:
		obj := t.info.Uses[x]
		if obj == types.Universe.Lookup("nil") {
			if want == nil {
				t.fail(e, "nil in a position where its type is not evident")
			}
			switch t.kindOf(want) {
			case kBytes, kSlice, kError:
				return nil, t.zero(e, want)
			}
			t.fail(e, "nil of type %s", want)
		}
		if v, ok := ft.isLocal(obj); ok {
			if t.kindOf(v.Type()) == kOpaque {
				t.fail(e, "variable %s of the opaque type %s used other than through its table functions", x.Name, v.Type())
			}
			return nil, ft.names[v]
		}
		if v, ok := obj.(*types.Var); ok && v.Pkg() == t.pkg && v.Parent() == t.pkg.Scope() {
			if p, v, ok := ft.inputVar(x); ok { // segfail.go
				return p, v
			}
			return nil, t.pkgVar(x, v)
		}
		t.fail(e, "identifier %s", x.Name)
	case *ast.StarExpr:
		if p, v, ok := ft.inputVar(x); ok { // segfail.go
			return p, v
		}
		return ft.deref(x) // state.go
	case *ast.UnaryExpr:
		if x.Op == token.AND && t.cfg.StatePassing {
			return ft.addrOf(x) // state.go
		}
		p, v := ft.expr(x.X, want)
		k := t.kindOf(tv.Type)
		switch {
		case x.Op == token.NOT && k == kBool:
			return p, "(negb " + v + ")"
		case x.Op == token.SUB && k == kInt:
			return p, "(- " + v + ")%Z"
		case x.Op == token.ADD && k == kInt:
			return p, v
		}
		t.fail(e, "unary operator %s on %s", x.Op, tv.Type)
	case *ast.BinaryExpr:
		return ft.binary(x)
	case *ast.CallExpr:
		return ft.call(x, want)
	case *ast.IndexExpr:
		XT := t.info.Types[x.X].Type
		switch k := t.kindOf(XT); {
		case k == kRefMap:
			return ft.refMapIndex(x)
		case k == kMap && t.cfg.AssocMaps:
			return ft.mapIndex(x)
		case k == kMap:
			// m[k] on a map that is only read: the value, or the zero value (never a panic)
			if tvx, ok := t.info.Types[e]; ok {
				if _, isTuple := tvx.Type.(*types.Tuple); isTuple {
					t.fail(e, "map index with the second result (v, ok = m[k])")
				}
			}
			p1, base := ft.expr(x.X, nil)
			p2, idx := ft.expr(x.Index, types.Unalias(XT).Underlying().(*types.Map).Key())
			return append(p1, p2...), "(" + base + " " + idx + ")"
		case isBytesLike(k) || k == kSlice:
			op := "go_index"
			if k == kSlice {
				op = "go_index_of"
			}
			p1, base := ft.expr(x.X, nil)
			p2, idx := ft.expr(x.Index, nil)
			tmp := ft.temp()
			return append(append(p1, p2...), pre{tmp, fmt.Sprintf("%s %s %s", op, base, idx)}), tmp
		}
		t.fail(e, "index expression on a value of type %s", XT)
	case *ast.SliceExpr:
		kx := t.kindOf(t.info.Types[x.X].Type)
		if x.Slice3 || !(isBytesLike(kx) || kx == kSlice) {
			t.fail(e, "slice expression (three-index, or on a value of type %s)", t.info.Types[x.X].Type)
		}
		op, ln := "go_slice", "len"
		if kx == kSlice {
			op, ln = "go_slice_of", "len_of"
		}
		pres, base := ft.expr(x.X, nil)
		lo, hi := "0%Z", "("+ln+" "+base+")"
		if x.Low != nil {
			var p []pre
			p, lo = ft.expr(x.Low, nil)
			pres = append(pres, p...)
		}
		if x.High != nil {
			var p []pre
			p, hi = ft.expr(x.High, nil)
			pres = append(pres, p...)
		}
		tmp := ft.temp()
		return append(pres, pre{tmp, fmt.Sprintf("%s %s %s %s", op, base, lo, hi)}), tmp
	case *ast.SelectorExpr:
		if term, ok := ft.extVar(x); ok {
			return nil, term // state.go
		}
		sel := t.info.Selections[x]
		if sel == nil || sel.Kind() != types.FieldVal || len(sel.Index()) != 1 {
			t.fail(e, "selector %s (only fields of the supported struct types)", x.Sel.Name)
		}
		T := sel.Recv()
		if p, ok := types.Unalias(T).Underlying().(*types.Pointer); ok {
			T = p.Elem()
		}
		st, _, ok := t.structOf(T)
		if !ok {
			t.fail(e, "field of a value of type %s", sel.Recv())
		}
		p, base := ft.expr(x.X, nil)
		return p, "(" + ft.fieldGetter(x, st, T) + " " + base + ")"
	case *ast.CompositeLit:
		return ft.composite(x)
	}
	t.fail(e, "expression of kind %T", e)
	return nil, ""
}

func (ft *funcTr) binop(n ast.Node, op token.Token, k kind, a, b string) string {
	if s, ok := ft.binopInt64(op, k, a, b); ok { // int64.go
		return s
	}
	switch k {
	case kInt:
		switch op {
		case token.ADD:
			return "(" + a + " + " + b + ")%Z"
		case token.SUB:
			return "(" + a + " - " + b + ")%Z"
		case token.MUL:
			return "(" + a + " * " + b + ")%Z"
		}
	case kString:
		if op == token.ADD {
			return "(" + a + " ++ " + b + ")"
		}
	}
	ft.t.fail(n, "operator %s on this type", op)
	return ""
}

func (ft *funcTr) isNilExpr(e ast.Expr) bool {
	id, ok := ast.Unparen(e).(*ast.Ident)
	return ok && ft.t.info.Uses[id] == types.Universe.Lookup("nil")
}

func (ft *funcTr) binary(x *ast.BinaryExpr) ([]pre, string) {
	t := ft.t
	switch x.Op {
	case token.LAND, token.LOR:
		p1, a := ft.expr(x.X, nil)
		p2, b := ft.expr(x.Y, nil)
		if len(p2) == 0 {
			if x.Op == token.LAND {
				return p1, "(" + a + " && " + b + ")"
			}
			return p1, "(" + a + " || " + b + ")"
		}
		// the right operand can panic: it is evaluated only if the left one does not decide
		if ft.hasStateCall(x.Y) {
			t.fail(x.Y, "call that changes state in the right operand of %s", x.Op) // state.go
		}
		var inner strings.Builder
		for _, p := range p2 {
			fmt.Fprintf(&inner, "%s <- %s ;; ", p.pat, p.term)
		}
		tmp := ft.temp()
		var term string
		if x.Op == token.LAND {
			term = fmt.Sprintf("(if %s then (%sOk %s) else Ok false)", a, inner.String(), b)
		} else {
			term = fmt.Sprintf("(if %s then Ok true else (%sOk %s))", a, inner.String(), b)
		}
		return append(p1, pre{tmp, term}), tmp
	case token.EQL, token.NEQ:
		neg := func(s string) string {
			if x.Op == token.NEQ {
				return "(negb " + s + ")"
			}
			return s
		}
		if p, v, ok := ft.stateCompare(x); ok {
			return p, neg(v) // state.go
		}
		// comparison with nil: only for errors
		if ft.isNilExpr(x.X) || ft.isNilExpr(x.Y) {
			other := x.X
			if ft.isNilExpr(x.X) {
				other = x.Y
			}
			if t.kindOf(t.info.Types[other].Type) != kError {
				t.fail(x, "comparison of a value of type %s with nil (nil and empty slices are not distinguished)", t.info.Types[other].Type)
			}
			p, v := ft.expr(other, nil)
			if x.Op == token.EQL {
				return p, "(negb " + v + ")"
			}
			return p, v
		}
		Tx, Ty := t.info.Types[x.X].Type, t.info.Types[x.Y].Type
		p1, a := ft.expr(x.X, Ty)
		p2, b := ft.expr(x.Y, Tx)
		pres := append(p1, p2...)
		k := t.kindOf(Tx)
		if bt, ok := Tx.(*types.Basic); ok && bt.Info()&types.IsUntyped != 0 {
			k = t.kindOf(Ty)
		}
		switch k {
		case kInt, kRune:
			return pres, neg("(" + a + " =? " + b + ")%Z")
		case kByte:
			return pres, neg("(beq " + a + " " + b + ")")
		case kString:
			return pres, neg("(bytes_eqb " + a + " " + b + ")")
		case kBool:
			return pres, neg("(Bool.eqb " + a + " " + b + ")")
		}
		t.fail(x, "comparison %s on values of type %s", x.Op, Tx)
	case token.LSS, token.LEQ, token.GTR, token.GEQ:
		Tx, Ty := t.info.Types[x.X].Type, t.info.Types[x.Y].Type
		p1, a := ft.expr(x.X, Ty)
		p2, b := ft.expr(x.Y, Tx)
		pres := append(p1, p2...)
		k := t.kindOf(Tx)
		if bt, ok := Tx.(*types.Basic); ok && bt.Info()&types.IsUntyped != 0 {
			k = t.kindOf(Ty)
		}
		switch k {
		case kInt, kRune:
			op := map[token.Token]string{token.LSS: "<?", token.LEQ: "<=?", token.GTR: ">?", token.GEQ: ">=?"}[x.Op]
			return pres, "(" + a + " " + op + " " + b + ")%Z"
		case kByte:
			switch x.Op {
			case token.LSS:
				return pres, "(byte_ltb " + a + " " + b + ")"
			case token.LEQ:
				return pres, "(byte_leb " + a + " " + b + ")"
			case token.GTR:
				return pres, "(byte_ltb " + b + " " + a + ")"
			case token.GEQ:
				return pres, "(byte_leb " + b + " " + a + ")"
			}
		}
		t.fail(x, "comparison %s on values of type %s", x.Op, Tx)
	case token.ADD, token.SUB, token.MUL:
		T := t.info.Types[x].Type
		p1, a := ft.expr(x.X, T)
		p2, b := ft.expr(x.Y, T)
		return append(p1, p2...), ft.binop(x, x.Op, t.kindOf(T), a, b)
	}
	t.fail(x, "binary operator %s", x.Op)
	return nil, ""
}

func (ft *funcTr) call(c *ast.CallExpr, want types.Type) ([]pre, string) {
	t := ft.t
	if c.Ellipsis.IsValid() && ft.builtin(c) != "append" {
		t.fail(c, "call with ... argument")
	}
	// conversion
	if ftv, ok := t.info.Types[c.Fun]; ok && ftv.IsType() {
		if len(c.Args) != 1 {
			t.fail(c, "conversion with %d arguments", len(c.Args))
		}
		from, to := t.kindOf(t.info.Types[c.Args[0]].Type), t.kindOf(ftv.Type)
		if isBytesLike(from) && isBytesLike(to) {
			// string(b), []byte(s): a copy; both are byte lists
			return ft.expr(c.Args[0], nil)
		}
		if from == to && from != kOther {
			return ft.expr(c.Args[0], ftv.Type)
		}
		t.fail(c, "conversion from %s to %s", t.info.Types[c.Args[0]].Type, ftv.Type)
	}
	switch ft.builtin(c) {
	case "len":
		p, v := ft.expr(c.Args[0], nil)
		switch t.kindOf(t.info.Types[c.Args[0]].Type) {
		case kBytes, kString:
			return p, "(len " + v + ")"
		case kSlice:
			return p, "(len_of " + v + ")"
		}
		t.fail(c, "len of a value of type %s", t.info.Types[c.Args[0]].Type)
	case "append":
		// (the form x = append(x, ...) and the ownership of x were checked by checkAliasing)
		T := t.info.Types[c].Type
		sl, ok := types.Unalias(T).Underlying().(*types.Slice)
		if !ok {
			t.fail(c, "append on a value of type %s", T)
		}
		pres, base := ft.expr(c.Args[0], T)
		if c.Ellipsis.IsValid() {
			if len(c.Args) != 2 {
				t.fail(c, "append with ... and more than two arguments")
			}
			p, v := ft.expr(c.Args[1], T)
			return append(pres, p...), "(go_append " + base + " " + v + ")"
		}
		var elems []string
		for _, a := range c.Args[1:] {
			p, v := ft.expr(a, sl.Elem())
			pres = append(pres, p...)
			elems = append(elems, v)
		}
		return pres, "(go_append " + base + " [" + strings.Join(elems, "; ") + "])"
	case "min", "max":
		return ft.minMax(c, ft.builtin(c))
	case "make":
		if p, v, ok := ft.makeExt(c); ok {
			return p, v
		}
		if len(c.Args) == 1 && t.kindOf(t.info.Types[c.Args[0]].Type) == kRefMap {
			return nil, "go_mapref_make"
		}
		if len(c.Args) != 2 || t.kindOf(t.info.Types[c.Args[0]].Type) != kBytes {
			t.fail(c, "make other than make([]byte, n)")
		}
		p, n := ft.expr(c.Args[1], nil)
		tmp := ft.temp()
		return append(p, pre{tmp, "go_make_bytes " + n}), tmp
	case "new":
		T := t.info.Types[c.Args[0]].Type
		if t.kindOf(T) != kStruct {
			t.fail(c, "new of type %s", T)
		}
		return nil, t.zero(c, T)
	case "":
	default:
		t.fail(c, "built-in function %s", ft.builtin(c))
	}
	if p, v, ok := ft.stateCall(c); ok {
		return p, v // state.go
	}
	// translated method of this package, called on the receiver (methods.go)
	if key := t.methodCallee(c); key != "" {
		if inSet(t.cfg.NoReturn, key) {
			t.fail(c, "call of the no-return function %s inside an expression", key)
		}
		return ft.methodCallExpr(c, key)
	}
	// translated function of this package
	if name := t.callee(c); name != "" {
		if t.mayFail(name) {
			t.fail(c, "call of %s, which can end in a no-return call", name)
		}
		sig := t.info.Types[c.Fun].Type.(*types.Signature)
		if sig.Variadic() || len(c.Args) != sig.Params().Len() {
			t.fail(c, "call of %s with a different number of arguments than parameters", name)
		}
		var pres []pre
		parts := []string{t.cfg.Prefix + name}
		if t.needFuel[name] {
			parts = append(parts, "fuel")
		}
		for i, a := range c.Args {
			p, v := ft.expr(a, sig.Params().At(i).Type())
			pres = append(pres, p...)
			parts = append(parts, v)
		}
		tmp := ft.temp()
		return append(pres, pre{tmp, strings.Join(parts, " ")}), tmp
	}
	// library function, or method of a library type (the receiver is the first argument)
	if sel, ok := ast.Unparen(c.Fun).(*ast.SelectorExpr); ok {
		if fn, ok := t.info.Uses[sel.Sel].(*types.Func); ok && fn.Pkg() != nil {
			key := fn.Pkg().Path() + "." + fn.Name()
			sig := fn.Type().(*types.Signature)
			if sig.Recv() != nil {
				key = fn.FullName()
			}
			lf, ok := t.cfg.Lib[key]
			if !ok {
				t.fail(c, "call of %s, which has no denotation in the table", key)
			}
			if lf.IsError && t.cfg.ErrorValues {
				t.fail(c, "%s inside a function: with error values as sentinels only package-level error variables are supported", key) // state.go
			}
			if lf.Mutates && ft.mutOK != c {
				t.fail(c, "call of %s, which changes its first argument, used other than as a statement", key)
			}
			var pres []pre
			parts := []string{lf.Coq}
			if sig.Recv() != nil {
				if lf.IsError {
					t.fail(c, "method %s as an error constructor", key)
				}
				if ov := ft.opaqueOperand(sel.X); ov != "" {
					parts = append(parts, ov)
				} else {
					p, v := ft.expr(sel.X, nil)
					pres = append(pres, p...)
					parts = append(parts, v)
				}
			}
			var rest []string // the arguments of a variadic parameter: a list
			for i, a := range c.Args {
				var pt types.Type
				variadic := sig.Variadic() && i >= sig.Params().Len()-1
				if i < sig.Params().Len() && !variadic {
					pt = sig.Params().At(i).Type()
				}
				if lf.IsError {
					// the arguments only make the error text: they must not be able to panic
					if !ft.pureExpr(a) {
						t.fail(a, "argument of %s that can panic or has an effect", key)
					}
					continue
				}
				if variadic {
					pt = sig.Params().At(sig.Params().Len() - 1).Type().(*types.Slice).Elem()
					if t.kindOf(pt) == kOther {
						if p, v, ok := ft.anyArg(a, pt); ok {
							pres = append(pres, p...)
							rest = append(rest, v)
							continue
						}
						t.fail(a, "variadic argument of type %s", pt)
					}
				}
				if fl, ok := ast.Unparen(a).(*ast.FuncLit); ok {
					parts = append(parts, ft.funcLit(fl))
					continue
				}
				if ov := ft.opaqueOperand(a); ov != "" && i == 0 {
					parts = append(parts, ov)
					continue
				}
				p, v := ft.expr(a, pt)
				pres = append(pres, p...)
				if variadic {
					rest = append(rest, v)
				} else {
					parts = append(parts, v)
				}
			}
			if lf.IsError {
				return nil, "true"
			}
			if sig.Variadic() {
				// f(a, b, c) with f(xs ...T): the list [a; b; c]  (f(s...) was refused above)
				parts = append(parts, "["+strings.Join(rest, "; ")+"]")
			}
			if lf.Monadic {
				tmp := ft.temp()
				return append(pres, pre{tmp, strings.Join(parts, " ")}), tmp
			}
			return pres, "(" + strings.Join(parts, " ") + ")"
		}
	}
	t.fail(c, "call of this kind of function")
	return nil, ""
}

// pureExpr: evaluating e cannot panic, loop or change anything (identifiers, constants,
// field reads, len, conversions and arithmetic/comparison of such).
func (ft *funcTr) pureExpr(e ast.Expr) bool {
	if tv, ok := ft.t.info.Types[e]; ok && tv.Value != nil {
		return true
	}
	switch x := e.(type) {
	case *ast.ParenExpr:
		return ft.pureExpr(x.X)
	case *ast.Ident:
		return true
	case *ast.SelectorExpr:
		sel := ft.t.info.Selections[x]
		return sel != nil && sel.Kind() == types.FieldVal && !sel.Indirect() && ft.pureExpr(x.X)
	case *ast.UnaryExpr:
		return (x.Op == token.NOT || x.Op == token.SUB || x.Op == token.ADD) && ft.pureExpr(x.X)
	case *ast.BinaryExpr:
		switch x.Op {
		case token.QUO, token.REM, token.SHL, token.SHR:
			return false
		}
		return ft.pureExpr(x.X) && ft.pureExpr(x.Y)
	case *ast.CallExpr:
		if ftv, ok := ft.t.info.Types[x.Fun]; ok && ftv.IsType() && len(x.Args) == 1 {
			return ft.pureExpr(x.Args[0])
		}
		if ft.builtin(x) == "len" {
			return ft.pureExpr(x.Args[0])
		}
	}
	return false
}

func (ft *funcTr) composite(x *ast.CompositeLit) ([]pre, string) {
	t := ft.t
	T := t.info.Types[x].Type
	switch t.kindOf(T) {
	case kStruct:
		st, gst, _ := t.structOf(T)
		vals := make([]string, len(st.Fields))
		var pres []pre
		for i, el := range x.Elts {
			idx := i
			val := el
			if kv, ok := el.(*ast.KeyValueExpr); ok {
				k, ok := kv.Key.(*ast.Ident)
				if !ok {
					t.fail(el, "struct literal key")
				}
				idx = -1
				for j := 0; j < gst.NumFields(); j++ {
					if gst.Field(j).Name() == k.Name {
						idx = j
					}
				}
				val = kv.Value
			}
			if idx < 0 || idx >= len(vals) {
				t.fail(el, "struct literal element")
			}
			p, v := ft.expr(val, gst.Field(idx).Type())
			pres = append(pres, p...)
			vals[idx] = v
		}
		parts := []string{st.Ctor}
		for i, v := range vals {
			if v == "" {
				v = t.zero(x, gst.Field(i).Type())
			}
			parts = append(parts, v)
		}
		return pres, "(" + strings.Join(parts, " ") + ")"
	case kBytes, kSlice:
		sl := types.Unalias(T).Underlying().(*types.Slice)
		var pres []pre
		var elems []string
		for _, el := range x.Elts {
			if _, ok := el.(*ast.KeyValueExpr); ok {
				t.fail(el, "keyed element in a slice literal")
			}
			p, v := ft.expr(el, sl.Elem())
			pres = append(pres, p...)
			elems = append(elems, v)
		}
		return pres, "[" + strings.Join(elems, "; ") + "]"
	}
	t.fail(x, "composite literal of type %s", T)
	return nil, ""
}

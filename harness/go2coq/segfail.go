package go2coq

// No-return calls inside segments, the message of a no-return call, and package-level
// variables whose value is an input of a segment.  Reached through hooks marked "segfail.go";
// the text generated for tables that do not use these constructs is unchanged.  Vocabulary:
// Lib/GoSemFail.v.
//
//	A Segment may contain call statements of the functions of Config.NoReturn (methods.go): the
//	segment then has the result type res (outcome V L (exit R)), Return Failed where such a call
//	is reached and Return (Done r) for a return statement of the function.  When the function
//	is a method the call must be on its receiver, as in a translated method; the receiver need
//	not be a state variable of the segment (Failed carries no state).
//
//	Config.FailMsgs: which no-return call ended the function is part of the value: the result
//	type is res (exitm R) with DoneM r for a return of r and FailedM msg where a no-return call
//	is reached, msg being the FIRST argument of the call, which must then be a constant string
//	(the format of ts.Fatalf): the verdict "refused, with this message format".  The other
//	arguments must be pure as before (they only fill the format in).  This holds for the
//	translated functions and methods of the table as well as for its segments.
//
//	Config.InputVars names package-level variables of the translated package whose value is
//	not determined by the package (a flag: var testWork = flag.Bool(...)).  Inside a Segment a
//	read of such a variable v -- or *v when it is a pointer -- is one more parameter in_<k> of the
//	segment, one per occurrence in source order, as for LibFunc.Input; not inside a loop; the
//	segment may not assign the variable or store through it.

import (
	"fmt"
	"go/ast"
	"go/constant"
	"go/token"
	"go/types"
	"strings"
)

// segFails: the statements of a segment contain a no-return call (outside function literals).
func (ft *funcTr) segFails(nodes []ast.Node) bool {
	found := false
	for _, n := range nodes {
		ast.Inspect(n, func(n ast.Node) bool {
			if _, ok := n.(*ast.FuncLit); ok {
				return false
			}
			if n != nil && (ft.t.noReturnCall(n) != "" || ft.t.mayFailCall(n) != nil) {
				found = true
			}
			return !found
		})
	}
	return found
}

// segRecvOK: inside a segment, sel.X is the receiver of the function the segment is cut from.
func (ft *funcTr) segRecvOK(sel *ast.SelectorExpr) bool {
	if !ft.inSegment() {
		return false
	}
	id, ok := ast.Unparen(sel.X).(*ast.Ident)
	if !ok {
		return false
	}
	rv := ft.t.recvVar(ft.fd)
	return rv != nil && ft.t.info.Uses[id] == types.Object(rv)
}

// failedTerm: the value of the no-return call c.
func (ft *funcTr) failedTerm(c *ast.CallExpr) string {
	t := ft.t
	if !t.cfg.FailMsgs {
		return "Failed"
	}
	if len(c.Args) == 0 {
		t.fail(c, "no-return call without arguments (Config.FailMsgs: the first argument is the message)")
	}
	tv, ok := t.info.Types[c.Args[0]]
	if !ok || tv.Value == nil || tv.Value.Kind() != constant.String {
		t.fail(c.Args[0], "first argument of a no-return call that is not a constant string (Config.FailMsgs)")
	}
	return "(FailedM " + coqBytes(constant.StringVal(tv.Value)) + ")"
}

// inputVar: e is v or *v for a variable v of Config.InputVars.
func (ft *funcTr) inputVar(e ast.Expr) ([]pre, string, bool) {
	t := ft.t
	if len(t.cfg.InputVars) == 0 {
		return nil, "", false
	}
	inner := ast.Unparen(e)
	if s, ok := inner.(*ast.StarExpr); ok {
		inner = ast.Unparen(s.X)
	}
	id, ok := inner.(*ast.Ident)
	if !ok {
		return nil, "", false
	}
	v, ok := t.info.Uses[id].(*types.Var)
	if !ok || v.Pkg() != t.pkg || v.Parent() != t.pkg.Scope() || !inSet(t.cfg.InputVars, v.Name()) {
		return nil, "", false
	}
	_, isPtr := types.Unalias(v.Type()).Underlying().(*types.Pointer)
	if _, star := ast.Unparen(e).(*ast.StarExpr); star != isPtr {
		t.fail(e, "input variable %s: a pointer is read through *%s only, any other variable by its name", v.Name(), v.Name())
	}
	if !ft.inSegment() {
		t.fail(e, "read of the input variable %s outside a Segment", v.Name())
	}
	if ft.inLoopWithin(e) {
		t.fail(e, "read of the input variable %s inside a loop", v.Name())
	}
	if name, ok := ft.ext.seenVar[id]; ok {
		return nil, name, true
	}
	T := t.info.Types[e].Type
	name := fmt.Sprintf("in_%d", len(ft.ext.inputs)+1)
	ft.ext.inputs = append(ft.ext.inputs, fmt.Sprintf("(%s : %s)", name, t.coqType(e, T)))
	if ft.ext.seenVar == nil {
		ft.ext.seenVar = map[*ast.Ident]string{}
	}
	ft.ext.seenVar[id] = name
	return nil, name, true
}

// inputVarUseOK (hook in checkAliasing, rule 3): the pointer-valued identifier e names a
// variable of Config.InputVars and is the operand of an indirection *e that is read.
func (ft *funcTr) inputVarUseOK(e ast.Expr) bool {
	id, ok := e.(*ast.Ident)
	if !ok || len(ft.t.cfg.InputVars) == 0 {
		return false
	}
	v, ok := ft.t.info.Uses[id].(*types.Var)
	if !ok || v.Pkg() != ft.t.pkg || v.Parent() != ft.t.pkg.Scope() || !inSet(ft.t.cfg.InputVars, v.Name()) {
		return false
	}
	var child ast.Node = id
	p := ft.parents[id]
	for {
		if pe, ok := p.(*ast.ParenExpr); ok {
			child, p = pe, ft.parents[pe]
			continue
		}
		break
	}
	st, ok := p.(*ast.StarExpr)
	if !ok || st.X != child {
		return false
	}
	// not the target of a store
	switch q := ft.parents[st].(type) {
	case *ast.AssignStmt:
		for _, l := range q.Lhs {
			if l == ast.Expr(st) {
				return false
			}
		}
	case *ast.IncDecStmt:
		return false
	}
	return true
}

// segNoReturnRecv: id is the receiver expression of a call statement of a no-return method.
func (ft *funcTr) segNoReturnRecv(id *ast.Ident) bool {
	sel, ok := ft.parents[id].(*ast.SelectorExpr)
	if !ok || sel.X != ast.Expr(id) {
		return false
	}
	c, ok := ft.parents[sel].(*ast.CallExpr)
	if !ok || ast.Unparen(c.Fun) != ast.Expr(sel) {
		return false
	}
	es, ok := ft.parents[c].(*ast.ExprStmt)
	return ok && ft.t.noReturnCall(es) != ""
}

// ---------------------------------------------------------------- calls that may end in a no-return call
//
//	LibFunc.MayFail (with Config.FailMsgs, inside a Segment): the table function -- a library
//	function, or a method of the translated package that is not itself translated, called on a
//	pointer to a table struct -- may return normally or end in a no-return call (ts.parse ends in
//	ts.Fatalf on an unterminated quote).  Its Coq denotation has the type res (exitm T), T the
//	tuple of its Go results (unit for none).  A call is supported as a whole statement
//	    f(args)      x, y := f(args)      x, y = f(args)
//	and becomes  bindFO (f args) (fun '(x, y) => rest)  (bindFT at the top level of a function):
//	FailedM msg ends the function with that value, exactly as a no-return call at this place
//	would; DoneM r goes on with r.  What the callee does to state is not represented (the
//	table's claim: it leaves the denoted fields alone).

// curMayFail: set while Translate runs (hasJump has no receiver).
var curMayFail func(n ast.Node) bool

func isMayFailStmt(n ast.Node) bool { return curMayFail != nil && n != nil && curMayFail(n) }

// mayFailCall: the call of a table function marked MayFail that the statement n consists of.
func (t *translator) mayFailCall(n ast.Node) *ast.CallExpr {
	var e ast.Expr
	switch s := n.(type) {
	case *ast.ExprStmt:
		e = s.X
	case *ast.AssignStmt:
		if len(s.Rhs) != 1 || (s.Tok != token.ASSIGN && s.Tok != token.DEFINE) {
			return nil
		}
		e = s.Rhs[0]
	default:
		return nil
	}
	c, ok := ast.Unparen(e).(*ast.CallExpr)
	if !ok {
		return nil
	}
	key, _, _ := t.libKey(c)
	if key == "" || !t.cfg.Lib[key].MayFail {
		return nil
	}
	return c
}

// mayFailStmt: the statement s, a call of a MayFail function, followed by rest.
func (ft *funcTr) mayFailStmt(s ast.Stmt, rest []ast.Stmt, m mode, ind string) string {
	t := ft.t
	c := t.mayFailCall(s)
	key, fn, recv := t.libKey(c)
	lf := t.cfg.Lib[key]
	if !t.cfg.FailMsgs {
		t.fail(c, "call of %s, which may end in a no-return call, without Config.FailMsgs", key)
	}
	if !ft.inSegment() || ft.inLit > 0 {
		t.fail(c, "call of %s, which may end in a no-return call, outside a Segment or inside a function literal", key)
	}
	if fn == nil || c.Ellipsis.IsValid() {
		t.fail(c, "call of %s: not a function or method, or a ... argument", key)
	}
	sig := fn.Type().(*types.Signature)
	if sig.Variadic() || len(c.Args) != sig.Params().Len() {
		t.fail(c, "call of %s with a different number of arguments than parameters", key)
	}
	var pres []pre
	parts := []string{lf.Coq}
	if recv != nil {
		p, v := ft.expr(recv, nil)
		pres = append(pres, p...)
		parts = append(parts, v)
	}
	for i, a := range c.Args {
		p, v := ft.expr(a, sig.Params().At(i).Type())
		pres = append(pres, p...)
		parts = append(parts, v)
	}
	var lhs []ast.Expr
	if as, ok := s.(*ast.AssignStmt); ok {
		lhs = as.Lhs
		if len(lhs) != sig.Results().Len() {
			t.fail(s, "call of %s: %d results assigned to %d operands", key, sig.Results().Len(), len(lhs))
		}
	}
	var pats, later []string
	for _, l := range lhs {
		if id, ok := ast.Unparen(l).(*ast.Ident); ok && id.Name == "_" {
			pats = append(pats, "_")
			continue
		}
		if _, ok := ast.Unparen(l).(*ast.IndexExpr); ok {
			t.fail(s, "element store in the assignment of the results of %s", key)
		}
		tmp := ft.temp()
		pats = append(pats, tmp)
		later = append(later, ft.store(s, l, tmp, ind+"  "))
	}
	for len(pats) < sig.Results().Len() {
		pats = append(pats, "_")
	}
	pat := "_"
	switch len(pats) {
	case 0:
	case 1:
		pat = pats[0]
	default:
		pat = "'(" + strings.Join(pats, ", ") + ")"
	}
	bindF := ""
	switch m.kind {
	case mTail:
		bindF = "bindFT"
	case mOut:
		bindF = "bindFO"
	default:
		t.fail(s, "internal: call of %s in a jump-free block", key)
	}
	var b strings.Builder
	b.WriteString(binds(pres, ind))
	fmt.Fprintf(&b, "%s%s (%s) (fun %s =>\n", ind, bindF, strings.Join(parts, " "), pat)
	for _, l := range later {
		b.WriteString(l)
	}
	b.WriteString(strings.TrimRight(ft.block(rest, m, ind+"  "), "\n"))
	b.WriteString(")\n")
	return b.String()
}

// refuseMayFailExpr: a call of a MayFail function inside an expression (mayFailStmt builds the
// term of the call that is the whole statement itself, so every call that reaches expr is nested).
func (ft *funcTr) refuseMayFailExpr(e ast.Expr) {
	c, ok := e.(*ast.CallExpr)
	if !ok {
		return
	}
	if key, _, _ := ft.t.libKey(c); key != "" && ft.t.cfg.Lib[key].MayFail {
		ft.t.fail(c, "call of %s, which may end in a no-return call, inside an expression (supported: f(args), x, y := f(args), x, y = f(args) as a whole statement)", key)
	}
}

// ---------------------------------------------------------------- local pointers as state
//
//	Segment.State may also name a local variable of the function that is a pointer to a table
//	struct (f := &xs[i]; ...; f.Data = data): inside the segment it is the struct's value, field
//	assignments rebind it, it belongs to V when the segment assigns it, and a return inside the
//	segment carries its value, exactly as for a pointer receiver.  What the pointer points INTO
//	(the slice element) is not represented: that the caller puts the value back where the
//	pointer points is part of the hand-written composition of the segments.

// segLocalState: the local variable (not a parameter) of the function with this name, when it is
// a pointer to a table struct and the only variable of that name.
func (ft *funcTr) segLocalState(name string) *types.Var {
	var found *types.Var
	n := 0
	for id, obj := range ft.t.info.Defs {
		v, ok := obj.(*types.Var)
		if !ok || v.IsField() || id.Name != name || id.Pos() < ft.fd.Pos() || id.Pos() >= ft.fd.End() {
			continue
		}
		n++
		found = v
	}
	if n != 1 || ft.t.kindOf(found.Type()) != kPtrStruct {
		return nil
	}
	ft.ext.locals = append(ft.ext.locals, found)
	return found
}

func (ft *funcTr) segLocalStateVar(v *types.Var) bool {
	if ft.ext == nil {
		return false
	}
	for _, l := range ft.ext.locals {
		if l == v {
			return true
		}
	}
	return false
}

// dropDeadJumps: what follows a call statement of a no-return function in its block is dead
// code (the table's claim, checked on the declaration: the function ends in panic and cannot
// return).  Go's compiler does not know that, so sources put a continue / break / return there
// to satisfy it; those jump statements are dropped.  Anything else after a no-return call stays
// refused as unreachable code, and so does all of it outside a Segment.
func (ft *funcTr) dropDeadJumps(s ast.Stmt, rest []ast.Stmt) []ast.Stmt {
	if len(rest) == 0 || !ft.inSegment() || !isNoReturnStmt(s) {
		return rest
	}
	for _, r := range rest {
		switch r.(type) {
		case *ast.BranchStmt, *ast.ReturnStmt:
		default:
			return rest
		}
	}
	return nil
}

// segPureFieldRead: inside a segment, e is x.f for a variable x that is a pointer to a table
// struct denoted by the struct's value (the receiver, a state variable): the read cannot panic
// (that x is not nil is the table's claim, as everywhere such a pointer is read).
func (ft *funcTr) segPureFieldRead(e ast.Expr) bool {
	if !ft.inSegment() {
		return false
	}
	sel, ok := ast.Unparen(e).(*ast.SelectorExpr)
	if !ok {
		return false
	}
	s := ft.t.info.Selections[sel]
	if s == nil || s.Kind() != types.FieldVal || len(s.Index()) != 1 {
		return false
	}
	id, ok := ast.Unparen(sel.X).(*ast.Ident)
	if !ok {
		return false
	}
	v, ok := ft.isLocal(ft.t.info.Uses[id])
	if !ok || ft.t.kindOf(v.Type()) != kPtrStruct {
		return false
	}
	return v == ft.t.recvVar(ft.fd) || ft.segStateVar(v)
}

// ---------------------------------------------------------------- written maps in fields: two more harmless uses
//
// methods.go (checkMapFields) keeps a map held in a field of a Partial struct from being copied:
// the field may only be indexed or assigned make(...).  Two more uses copy nothing: the element
// f: make(...) of a struct literal (the map is made for this struct), and len(x.f) / range x.f.

// mapFieldMadeInLiteral: the element kv of a struct literal is f: make(...).
func (t *translator) mapFieldMadeInLiteral(kv *ast.KeyValueExpr) bool {
	c, ok := ast.Unparen(kv.Value).(*ast.CallExpr)
	if !ok {
		return false
	}
	id, ok := ast.Unparen(c.Fun).(*ast.Ident)
	if !ok {
		return false
	}
	b, ok := t.info.Uses[id].(*types.Builtin)
	return ok && b.Name() == "make"
}

// mapFieldReadOnlyUse: parent is len(use) or a range statement over use.
func (t *translator) mapFieldReadOnlyUse(parent ast.Node, use ast.Expr) bool {
	switch p := parent.(type) {
	case *ast.RangeStmt:
		return ast.Unparen(p.X) == use
	case *ast.CallExpr:
		if id, ok := ast.Unparen(p.Fun).(*ast.Ident); ok && len(p.Args) == 1 && ast.Unparen(p.Args[0]) == use {
			b, ok := t.info.Uses[id].(*types.Builtin)
			return ok && b.Name() == "len"
		}
	}
	return false
}

// ---------------------------------------------------------------- v, ok := m[k] on a written map
//
//	v, ok := m[k] (or v, ok = m[k]) on a map of Config.RefMaps is go_mapref_lookup zero m k:
//	the pair (newest binding of k, true), or (zero value, false) for an absent key or the nil
//	map (vocabulary Lib/GoSemFail.v).  Inside a Segment only.

func (ft *funcTr) isCommaOkRefMap(e ast.Expr) bool {
	x, ok := ast.Unparen(e).(*ast.IndexExpr)
	if !ok || !ft.inSegment() {
		return false
	}
	tvx, ok := ft.t.info.Types[x]
	if !ok {
		return false
	}
	if _, isTuple := tvx.Type.(*types.Tuple); !isTuple {
		return false
	}
	return ft.t.kindOf(ft.t.info.Types[x.X].Type) == kRefMap
}

func (ft *funcTr) refMapLookup(x *ast.IndexExpr) ([]pre, string, bool) {
	if !ft.isCommaOkRefMap(x) {
		return nil, "", false
	}
	t := ft.t
	XT := t.info.Types[x.X].Type
	p1, base := ft.expr(x.X, nil)
	p2, idx := ft.expr(x.Index, types.Unalias(XT).Underlying().(*types.Map).Key())
	return append(p1, p2...), "(go_mapref_lookup " + t.zero(x, t.refMapElem(XT)) + " " + base + " " + idx + ")", true
}

// segPtrFieldArgOK (hook in checkAliasing, rule 3): inside a segment the pointer-valued field
// read x.f -- x a pointer to a table struct denoted by its value, f a field the table denotes
// whose type is a pointer to a table struct -- is handed directly to a table library function
// (txtar.Format(ts.archive)): the function gets the value of the struct behind the field (that
// the pointer is not nil is the table's claim, as for the chains of segstate.go).
func (ft *funcTr) segPtrFieldArgOK(e ast.Expr) bool {
	if !ft.inSegment() {
		return false
	}
	if id, isId := e.(*ast.Ident); isId {
		// the field name of such a read
		if p, ok := ft.parents[id].(*ast.SelectorExpr); ok && p.Sel == id {
			return ft.segPtrFieldArgOK(p)
		}
		return false
	}
	sel, ok := e.(*ast.SelectorExpr)
	if !ok {
		return false
	}
	s := ft.t.info.Selections[sel]
	if s == nil || s.Kind() != types.FieldVal {
		return false
	}
	if tv, ok := ft.t.info.Types[e]; !ok || ft.t.kindOf(tv.Type) != kPtrStruct {
		return false
	}
	c, ok := ft.up(sel).(*ast.CallExpr)
	if !ok {
		return false
	}
	isArg := false
	for _, a := range c.Args {
		if ast.Unparen(a) == ast.Expr(sel) {
			isArg = true
		}
	}
	if !isArg {
		return false
	}
	key, _, _ := ft.t.libKey(c)
	_, ok = ft.t.cfg.Lib[key]
	return ok
}

package go2coq_test

import (
	"fmt"
	"go/ast"
	"go/parser"
	"go/token"
	"os"
	"os/exec"
	"path/filepath"
	"strings"
	"testing"

	"verif/harness/go2coq"
	"verif/harness/go2coq/internal/synth"
)

// Tests of methods.go: methods with a pointer receiver and a partial struct, state passing,
// maps that are written, no-return calls, function literals for library functions.

const synthPkg = "verif/harness/go2coq/internal/synth"

func methodsCfg() *go2coq.Config {
	return &go2coq.Config{
		Prefix: "s_",
		Funcs: []string{"norm", "M.Get", "M.Put", "M.Reset", "M.PutAll", "M.Twice", "M.Need", "M.Must",
			"FirstAtLeast", "M.FirstUnknown", "Distinct", "M.Tell"},
		Stubs: map[string]string{"errors": "package errors\nfunc New(text string) error\n",
			"sort": "package sort\nfunc Search(n int, f func(int) bool) int\n"},
		Lib: map[string]go2coq.LibFunc{"errors.New": {IsError: true},
			"sort.Search": {Coq: "t_sort_Search", Monadic: true}},
		Structs: map[string]go2coq.Struct{synthPkg + ".M": {CoqType: "t_M", Ctor: "Build_t_M", Partial: true,
			Fields: []go2coq.Field{{Go: "Log", Getter: "m_log"}, {Go: "Tab", Getter: "m_tab"}, {Go: "N", Getter: "m_n"}},
			Owned:  []string{"Log"}}},
		RefMaps:  []string{"map[string]string"},
		NoReturn: []string{"M.Fatal"},
		Frame:    []string{"M.Note"},
	}
}

func translateMethods(t *testing.T, src string, cfg *go2coq.Config) (*go2coq.Result, error) {
	fset := token.NewFileSet()
	f, err := parser.ParseFile(fset, "methods.go", src, parser.ParseComments)
	if err != nil {
		t.Fatal(err)
	}
	return go2coq.Translate(fset, []*ast.File{f}, synthPkg, cfg)
}

func methCoqStrs(l []string) string {
	var parts []string
	for _, w := range l {
		parts = append(parts, coqBytes([]byte(w)))
	}
	return "[" + strings.Join(parts, "; ") + "]"
}

// the keys at which the map of an M is observed
var obsKeys = []string{"", "a", "b", "k", "+k", "zz"}

type mSpec struct {
	log []string
	tab [][2]string // oldest first; nil map if nilTab
	nil bool
	n   int
}

func (s mSpec) goM() *synth.M {
	m := &synth.M{Log: append([]string(nil), s.log...), N: s.n}
	if !s.nil {
		m.Tab = map[string]string{}
		for _, kv := range s.tab {
			m.Tab[kv[0]] = kv[1]
		}
	}
	return m
}

func (s mSpec) coqM() string {
	tab := "None"
	if !s.nil {
		var parts []string
		for i := len(s.tab) - 1; i >= 0; i-- {
			parts = append(parts, "("+coqBytes([]byte(s.tab[i][0]))+", "+coqBytes([]byte(s.tab[i][1]))+")")
		}
		tab = "(Some [" + strings.Join(parts, "; ") + "])"
	}
	return fmt.Sprintf("(Build_t_M %s %s %s)", methCoqStrs(s.log), tab, coqZ(s.n))
}

// what is observed of an M: the log, the values at obsKeys, whether the map is nil, N
func obsM(m *synth.M) string {
	var vals []string
	for _, k := range obsKeys {
		vals = append(vals, m.Tab[k])
	}
	return fmt.Sprintf("(%s, %s, %s, %s)", methCoqStrs(m.Log), methCoqStrs(vals), coqB(m.Tab == nil), coqZ(m.N))
}

// run f on a fresh M; a panic with synth.Stop is Ok Failed, any other panic is Panic
func resM(m *synth.M, f func() string) (out string) {
	defer func() {
		if r := recover(); r != nil {
			if r == any(synth.Stop) {
				out = "Ok Failed"
			} else {
				out = "Panic"
			}
		}
	}()
	return "Ok " + f()
}

func TestMethodsAgainstGo(t *testing.T) {
	src, err := os.ReadFile("internal/synth/methods.go")
	if err != nil {
		t.Fatal(err)
	}
	r, err := translateMethods(t, string(src), methodsCfg())
	if err != nil {
		t.Fatal(err)
	}
	var ex []string
	add := func(call, want string) { ex = append(ex, fmt.Sprintf("(%s) = %s", call, want)) }
	specs := []mSpec{
		{},
		{nil: true, n: 3},
		{log: []string{"old"}, tab: [][2]string{{"a", "1"}, {"k", "kv"}}, n: 7},
		{tab: [][2]string{{"a", "1"}, {"b", ""}, {"a", "2"}}},
	}
	lists := [][]string{nil, {"a"}, {"a=x"}, {"+k=1", "k", "a"}, {"a=1", "b=2", "a=3", "zz", "=e", "b"}, {"", "a", "b"}, {"a", "k"}}
	for _, sp := range specs {
		cm := sp.coqM()
		for _, k := range obsKeys {
			ck := coqBytes([]byte(k))
			m := sp.goM()
			add("s_M_Get "+cm+" "+ck, resM(m, func() string { return coqBytes([]byte(m.Get(k))) }))
			m = sp.goM()
			add("obs0 (s_M_Put "+cm+" "+ck+" "+coqBytes([]byte("v"+k))+")", resM(m, func() string { m.Put(k, "v"+k); return obsM(m) }))
			m = sp.goM()
			add("obsX1 (s_M_Must "+cm+" "+ck+")", resM(m, func() string { v := m.Must(k); return "(Done " + coqBytes([]byte(v)) + ")" }))
		}
		m := sp.goM()
		add("obs0 (s_M_Reset "+cm+")", resM(m, func() string { m.Reset(); return obsM(m) }))
		for _, l := range lists {
			cl := methCoqStrs(l)
			m := sp.goM()
			add("obs1 (s_M_PutAll 20 "+cm+" "+cl+")", resM(m, func() string {
				c, s := m.PutAll(l)
				return "(" + obsM(m) + ", (" + coqZ(c) + ", " + coqBytes([]byte(s)) + "))"
			}))
			m = sp.goM()
			add("obs1 (s_M_Twice 20 "+cm+" "+cl+")", resM(m, func() string { c := m.Twice(l); return "(" + obsM(m) + ", " + coqZ(c) + ")" }))
			m = sp.goM()
			add("obsX (s_M_Need 20 "+cm+" "+cl+")", resM(m, func() string { s := m.Need(l); return "(Done (" + obsM(m) + ", " + coqBytes([]byte(s)) + "))" }))
			m = sp.goM()
			add("s_M_FirstUnknown "+cm+" "+cl, resM(m, func() string { return coqZ(m.FirstUnknown(l)) }))
			for _, i := range []int{0, 1, 5} {
				m = sp.goM()
				add("obs1 (s_M_Tell "+cm+" "+cl+" "+coqZ(i)+")", resM(m, func() string { c := m.Tell(l, i); return "(" + obsM(m) + ", " + coqZ(c) + ")" }))
			}
		}
	}
	for _, l := range lists {
		add("s_Distinct "+methCoqStrs(l), res(func() string { return coqZ(synth.Distinct(l)) }))
	}
	for _, in := range []string{"", "a", "abc", "aabbccdd", "zyx"} {
		for _, n := range []int{0, 2, len(in), len(in) + 1} {
			add("s_FirstAtLeast "+coqBytes([]byte(in))+" x62 "+coqZ(n), res(func() string { return coqZ(synth.FirstAtLeast([]byte(in), 'b', n)) }))
		}
	}
	// the iteration bound is real, also through a method call
	add("obs1 (s_M_PutAll 1 "+mSpec{}.coqM()+" "+methCoqStrs([]string{"ab=c"})+")", "OutOfFuel")

	theories, _ := filepath.Abs("../../coq/theories")
	if th := os.Getenv("GO2COQ_THEORIES"); th != "" {
		theories = th
	}
	if _, err := os.Stat(filepath.Join(theories, "Lib", "GoSemState.vo")); err != nil {
		t.Skip("compiled Lib/GoSemState.vo not found under " + theories)
	}
	if _, err := exec.LookPath("coqc"); err != nil {
		t.Skip("coqc not found")
	}
	dir := t.TempDir()
	var b strings.Builder
	b.WriteString("From Coq Require Import List ZArith NArith Bool.\nFrom Coq.Strings Require Import Byte.\nImport ListNotations.\n")
	b.WriteString("From GI Require Import Lib.Bytes Lib.GoSem Lib.GoSemExt Lib.GoSemState.\nImport GoNotations.\nLocal Open Scope go_scope.\n\n")
	b.WriteString("Record t_M := { m_log : list bytes; m_tab : mapref bytes; m_n : Z }.\n")
	// sort.Search(n, f): binary search, f called at the midpoints
	b.WriteString("Fixpoint t_search (k : nat) (f : Z -> res bool) (i j : Z) : res Z :=\n  match k with O => OutOfFuel | S k =>\n    if (i <? j)%Z then let h := ((i + j) / 2)%Z in b <- f h ;; if b then t_search k f i h else t_search k f (h + 1)%Z j else Ok i end.\n")
	b.WriteString("Definition t_sort_Search (n : Z) (f : Z -> res bool) : res Z := t_search 64 f 0%Z n.\n\n")
	b.WriteString(r.Text)
	fmt.Fprintf(&b, "Definition obs_keys : list bytes := %s.\n", methCoqStrs(obsKeys))
	b.WriteString("Definition obsM (m : t_M) := (m_log m, map (go_mapref_get [] (m_tab m)) obs_keys, match m_tab m with None => true | Some _ => false end, m_n m).\n")
	b.WriteString("Definition obs0 (r : res t_M) := match r with Ok m => Ok (obsM m) | Panic => Panic | OutOfFuel => OutOfFuel end.\n")
	b.WriteString("Definition obs1 {R} (r : res (t_M * R)) := match r with Ok (m, x) => Ok (obsM m, x) | Panic => Panic | OutOfFuel => OutOfFuel end.\n")
	b.WriteString("Definition obsX {R} (r : res (exit (t_M * R))) := match r with Ok (Done (m, x)) => Ok (Done (obsM m, x)) | Ok Failed => Ok Failed | Panic => Panic | OutOfFuel => OutOfFuel end.\n")
	b.WriteString("Definition obsX1 {R} (r : res (exit R)) := r.\n")
	for i, e := range ex {
		fmt.Fprintf(&b, "Example mex%d : %s.\nProof. vm_compute. reflexivity. Qed.\n", i, e)
	}
	file := filepath.Join(dir, "SynthMethods.v")
	if err := os.WriteFile(file, []byte(b.String()), 0o644); err != nil {
		t.Fatal(err)
	}
	if keep := os.Getenv("GO2COQ_KEEP_METHODS"); keep != "" {
		os.WriteFile(keep, []byte(b.String()), 0o644)
	}
	cmd := exec.Command("timeout", "300", "coqc", "-q", "-Q", theories, "GI", file)
	cmd.Dir = dir
	out, err := cmd.CombinedOutput()
	if err != nil {
		t.Fatalf("coqc: %v\n%s", err, out)
	}
	t.Logf("%d evaluations of %d translated functions and methods agree with Go", len(ex), len(r.Funcs))
}

// What methods.go does not support is refused, with a message naming it.
func TestMethodsRejects(t *testing.T) {
	const head = "package synth\nimport (\"errors\"; \"sort\")\nvar _ = sort.Search\nvar Stop = errors.New(\"stop\")\n" +
		"type M struct { hidden chan int; Log []string; Tab map[string]string; N int; other *M }\n" +
		"func (m *M) Fatal(msg string) { m.N = -1; panic(Stop) }\n" +
		"func (m *M) Put(k, v string) { m.Tab[k] = v }\nfunc (m *M) Get(k string) string { return m.Tab[k] }\n"
	cases := []struct {
		name, body, want string
		funcs            []string
		mod              func(c *go2coq.Config)
	}{
		{"other-field", "func (m *M) F() int { return len(m.hidden) }", "not among the fields", nil, nil},
		{"value-receiver", "func (m M) F() int { return m.N }", "pointer receivers", nil, nil},
		{"not-receiver", "func (m *M) F(o *M) string { return o.Get(\"a\") }", "", nil, nil},
		{"recv-escapes", "func G(m *M) int { return 0 }\nfunc (m *M) F() int { return G(m) }", "", nil, nil},
		{"method-value", "func (m *M) F() int { f := m.Get; return len(f(\"a\")) }", "", nil, nil},
		{"mutating-in-expr", "func (m *M) Inc() int { m.N++; return m.N }\nfunc (m *M) F() int { return m.Inc() + m.N }", "changes the receiver", []string{"M.Inc", "M.F"}, nil},
		{"map-copy", "func (m *M) F() string { t := m.Tab; return t[\"a\"] }", "could be shared", nil, nil},
		{"map-copy-elsewhere", "func (m *M) F() string { return m.Tab[\"a\"] }\nfunc leak(m *M) map[string]string { return m.Tab }", "could be shared", nil, nil},
		{"map-arg", "func g(t map[string]string) int { return 0 }\nfunc (m *M) F() int { return g(m.Tab) }", "", nil, nil},
		{"map-range", "func (m *M) F() int { n := 0; for range m.Tab { n++ }; return n }", "could be shared", nil, nil},
		{"map-len", "func (m *M) F() int { return len(m.Tab) }", "", nil, nil},
		{"map-delete", "func (m *M) F() int { delete(m.Tab, \"a\"); return 0 }", "", nil, nil},
		{"map-commaok", "func (m *M) F() bool { _, ok := m.Tab[\"a\"]; return ok }", "", nil, nil},
		{"map-zero-decl", "func F() string { var t map[string]string; u := t; return u[\"a\"] }", "could be shared", nil, nil},
		{"append-unowned", "func (m *M) F() { m.Log = append(m.Log, \"x\") }", "owned", nil, func(c *go2coq.Config) {
			s := c.Structs[synthPkg+".M"]
			s.Owned = nil
			c.Structs[synthPkg+".M"] = s
		}},
		{"noreturn-returns", "func (m *M) F() int { return m.N }", "does not end in a call of panic", nil, func(c *go2coq.Config) { c.NoReturn = []string{"M.Get"} }},
		{"noreturn-has-return", "func (m *M) Bad(s string) { if s == \"\" { return }; panic(Stop) }\nfunc (m *M) F() int { m.Bad(\"x\"); return 1 }", "contains a return", nil, func(c *go2coq.Config) { c.NoReturn = []string{"M.Bad"} }},
		{"noreturn-in-expr", "func (m *M) Val(s string) int { panic(Stop) }\nfunc (m *M) F() int { return m.Val(\"x\") }", "inside an expression", nil, func(c *go2coq.Config) { c.NoReturn = []string{"M.Val"} }},
		{"noreturn-impure-arg", "func (m *M) F(l []string) int { m.Fatal(l[0]); return 1 }", "unreachable", nil, nil},
		{"noreturn-impure-arg2", "func (m *M) F(l []string) int { if len(l) > 5 { m.Fatal(l[0]) }; return 1 }", "can panic", nil, nil},
		{"call-of-failing", "func (m *M) G() int { if m.N > 0 { m.Fatal(\"x\") }; return 1 }\nfunc (m *M) F() int { return m.G() }", "no-return call", []string{"M.G", "M.F"}, nil},
		{"closure-var", "func F(n int) int { f := func(i int) bool { return i > 2 }; return sort.Search(n, f) }", "FuncLit", nil, nil},
		{"closure-assigns", "func F(n int) int { c := 0; k := sort.Search(n, func(i int) bool { c++; return i > 2 }); return k + c }", "outer variable", nil, nil},
		{"closure-mutates", "func (m *M) F(n int) int { return sort.Search(n, func(i int) bool { m.Put(\"a\", \"b\"); return true }) }", "", nil, nil},
		{"closure-loop", "func F(n int) int { return sort.Search(n, func(i int) bool { for j := 0; j < i; j++ { }; return true }) }", "loop inside a function literal", nil, nil},
		{"closure-fatal", "func (m *M) F(n int) int { return sort.Search(n, func(i int) bool { m.Fatal(\"x\"); return true }) }", "", nil, nil},
		{"frame-assigns", "func (m *M) Bad(s string) { m.N = 0 }\nfunc (m *M) F() int { m.Bad(\"x\"); return 1 }", "assigns the denoted field N", nil, func(c *go2coq.Config) { c.Frame = []string{"M.Bad"} }},
		{"frame-stores", "func (m *M) Bad(s string) { m.Tab[s] = s }\nfunc (m *M) F() int { m.Bad(\"x\"); return 1 }", "assigns the denoted field Tab", nil, func(c *go2coq.Config) { c.Frame = []string{"M.Bad"} }},
		{"frame-address", "func g(p *int) {}\nfunc (m *M) Bad(s string) { g(&m.N) }\nfunc (m *M) F() int { m.Bad(\"x\"); return 1 }", "address of the denoted field N", nil, func(c *go2coq.Config) { c.Frame = []string{"M.Bad"} }},
		{"frame-escapes", "func g(p *M) {}\nfunc (m *M) Bad(s string) { g(m) }\nfunc (m *M) F() int { m.Bad(\"x\"); return 1 }", "uses its receiver other than", nil, func(c *go2coq.Config) { c.Frame = []string{"M.Bad"} }},
		{"frame-calls", "func (m *M) Bad(s string) { m.Put(s, s) }\nfunc (m *M) F() int { m.Bad(\"x\"); return 1 }", "not a frame method", nil, func(c *go2coq.Config) { c.Frame = []string{"M.Bad"} }},
		{"frame-leaks-slice", "var keep []string\nfunc (m *M) Bad(s string) { keep = m.Log }\nfunc (m *M) F() int { m.Bad(\"x\"); return 1 }", "other than to read an element", nil, func(c *go2coq.Config) { c.Frame = []string{"M.Bad"} }},
		{"frame-in-expr", "func (m *M) Val(s string) int { return 1 }\nfunc (m *M) F() int { return m.Val(\"x\") }", "not among the translated functions", nil, func(c *go2coq.Config) { c.Frame = []string{"M.Val"} }},
		{"nil-receiver", "func (m *M) F() bool { return m == nil }", "", nil, nil},
	}
	for _, c := range cases {
		cfg := methodsCfg()
		cfg.Frame = nil // the head below has no frame method
		cfg.Funcs = []string{"M.F"}
		if strings.Contains(c.body, "func F(") {
			cfg.Funcs = []string{"F"}
		}
		if c.funcs != nil {
			cfg.Funcs = c.funcs
		}
		if c.name != "append-unowned" && c.name != "frame-calls" && !strings.Contains(c.body, "M.Put") && strings.Contains(c.body, "m.Put") {
			cfg.Funcs = append([]string{"M.Put"}, cfg.Funcs...)
		}
		if strings.Contains(c.body, "m.Get") || strings.Contains(c.body, "o.Get") {
			cfg.Funcs = append([]string{"M.Get"}, cfg.Funcs...)
		}
		if c.mod != nil {
			c.mod(cfg)
		}
		_, err := translateMethods(t, head+c.body+"\n", cfg)
		if err == nil {
			t.Errorf("%s: accepted", c.name)
			continue
		}
		if _, ok := err.(*go2coq.Unsupported); !ok || !strings.Contains(err.Error(), c.want) {
			t.Errorf("%s: error %q does not mention %q", c.name, err, c.want)
		}
	}
}

// A method's translation does not depend on comments, layout or the receiver's name beyond
// the bound name.
func TestMethodsDeterministic(t *testing.T) {
	src, _ := os.ReadFile("internal/synth/methods.go")
	a, err := translateMethods(t, string(src), methodsCfg())
	if err != nil {
		t.Fatal(err)
	}
	b, err := translateMethods(t, "// c\n"+strings.ReplaceAll(string(src), "\tm.N++\n}", "\t// more\n\n\tm.N++\n}"), methodsCfg())
	if err != nil {
		t.Fatal(err)
	}
	if a.Text != b.Text {
		t.Error("comments and layout change the generated text")
	}
}

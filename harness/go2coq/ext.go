package go2coq

// Constructs added for code that sits between file-system calls (the cache): they are
// reached through one-line hooks in kindOf / coqType / zero / expr / assigned, so that the
// text generated for sources that do not use them is unchanged.  Vocabulary: Lib/GoSemSeg.v.
//
//	int64 and named types over it (time.Duration) -> Z: constants and comparisons only (no
//	arithmetic, so no wrap-around; an operator on such a value is refused);
//	[N]byte and named types over it -> bytes (a list of exactly N bytes: arrays are values in
//	Go, so no aliasing condition is needed); zero value go_zero_array N; x[i] is the checked
//	go_index; == and != are bytes_eqb; x[:] is accepted only as the written argument of a
//	library function with LibFunc.Out (below), &x never;
//	a named library type listed in Config.Types (time.Time, fs.FileInfo) -> the Coq type given
//	there; values are only passed on (to library functions and methods, struct fields, results);
//	f(a, xs...) with a variadic parameter of interface type (fmt.Sprintf) -> the list of the
//	arguments, each wrapped by its kind: GoAnyBytes (string, []byte, [N]byte), GoAnyInt (int,
//	int64), GoAnyByte, GoAnyBool;
//	a library function with LibFunc.Out = k writes into its k-th argument, which must be x[:]
//	for a local array x (or a local made by make): the Coq function takes the old value of x
//	in that position and returns the pair (new value of x, results); the call must be the
//	whole right-hand side of an assignment, and x is rebound;
//	&T{f: e, ...} where an error is wanted and *T implements error -> true (a non-nil error;
//	the field values must be pure: they only make the error's text);
//	a local function constant  g := func(params) results { return e1, ..., en }  (assigned
//	once, a single return statement, no variable captured): a call g(args) is the let-binding
//	of the parameters followed by the tuple of the results;
//	a library function, method or func-typed struct field with LibFunc.Input (time.Now, the
//	clock field of a struct) called without arguments inside a Segment: every call site
//	becomes one more parameter in_<k> of the segment, in source order (the segment has no
//	effects, so reading the environment earlier changes nothing); not inside a loop.

import (
	"fmt"
	"go/ast"
	"go/constant"
	"go/token"
	"go/types"
	"strings"
)

func typeKey(T types.Type) string {
	if n, ok := types.Unalias(T).(*types.Named); ok && n.Obj().Pkg() != nil {
		return n.Obj().Pkg().Path() + "." + n.Obj().Name()
	}
	return ""
}

func (t *translator) kindExt(T types.Type) (kind, bool) {
	if k := typeKey(T); k != "" {
		if _, ok := t.cfg.Types[k]; ok {
			return kLibType, true
		}
	}
	switch u := T.Underlying().(type) {
	case *types.Basic:
		if u.Kind() == types.Int64 {
			return kInt64, true
		}
	case *types.Array:
		if b, ok := types.Unalias(u.Elem()).Underlying().(*types.Basic); ok && b.Kind() == types.Uint8 {
			return kArray, true
		}
	}
	return kOther, false
}

func (t *translator) coqTypeExt(n ast.Node, T types.Type) (string, bool) {
	if T == nil {
		return "", false
	}
	k, ok := t.kindExt(types.Unalias(T))
	if !ok {
		return "", false
	}
	switch k {
	case kInt64:
		return "Z", true
	case kArray:
		return "bytes", true
	case kLibType:
		return t.cfg.Types[typeKey(T)].Coq, true
	}
	return "", false
}

func (t *translator) zeroExt(n ast.Node, T types.Type) (string, bool) {
	if T == nil {
		return "", false
	}
	k, ok := t.kindExt(types.Unalias(T))
	if !ok {
		return "", false
	}
	switch k {
	case kInt64:
		return "0%Z", true
	case kArray:
		return fmt.Sprintf("(go_zero_array %d%%Z)", types.Unalias(T).Underlying().(*types.Array).Len()), true
	case kLibType:
		z := t.cfg.Types[typeKey(T)].Zero
		if z == "" {
			t.fail(n, "zero value of type %s (its table entry gives none)", T)
		}
		return z, true
	}
	return "", false
}

// libKey: the table key of what a call invokes: "importpath.Name", "(*importpath.T).Name" /
// "(importpath.T).Name" for a method, "importpath.T.field" for a func-typed struct field.
func (t *translator) libKey(c *ast.CallExpr) (key string, fn *types.Func, recv ast.Expr) {
	switch f := ast.Unparen(c.Fun).(type) {
	case *ast.Ident:
		if fn, ok := t.info.Uses[f].(*types.Func); ok && fn.Pkg() != nil {
			return fn.FullName(), fn, nil
		}
	case *ast.SelectorExpr:
		if fn, ok := t.info.Uses[f.Sel].(*types.Func); ok && fn.Pkg() != nil {
			if fn.Type().(*types.Signature).Recv() != nil {
				return fn.FullName(), fn, f.X
			}
			return fn.Pkg().Path() + "." + fn.Name(), fn, nil
		}
		if sel := t.info.Selections[f]; sel != nil && sel.Kind() == types.FieldVal {
			T := sel.Recv()
			if p, ok := types.Unalias(T).Underlying().(*types.Pointer); ok {
				T = p.Elem()
			}
			if k := typeKey(T); k != "" {
				return k + "." + f.Sel.Name, nil, f.X
			}
		}
		if x, ok := f.X.(*ast.Ident); ok {
			if pn, ok := t.info.Uses[x].(*types.PkgName); ok {
				return pn.Imported().Path() + "." + f.Sel.Name, nil, nil
			}
		}
	}
	return "", nil, nil
}

var errorIface = types.Universe.Lookup("error").Type().Underlying().(*types.Interface)

// closureOf: the function literal a local variable is bound to, if it is a local function
// constant (see the header).
func (ft *funcTr) closureOf(v *types.Var) *ast.FuncLit {
	if _, ok := v.Type().Underlying().(*types.Signature); !ok {
		return nil
	}
	var lit *ast.FuncLit
	n := 0
	ast.Inspect(ft.fd, func(x ast.Node) bool {
		switch s := x.(type) {
		case *ast.AssignStmt:
			for i, l := range s.Lhs {
				id, ok := ast.Unparen(l).(*ast.Ident)
				if !ok {
					continue
				}
				if ft.t.info.Defs[id] == types.Object(v) || ft.t.info.Uses[id] == types.Object(v) {
					n++
					if len(s.Rhs) == len(s.Lhs) {
						lit, _ = ast.Unparen(s.Rhs[i]).(*ast.FuncLit)
					}
				}
			}
		case *ast.ValueSpec:
			for _, id := range s.Names {
				if ft.t.info.Defs[id] == types.Object(v) {
					n++
				}
			}
		case *ast.UnaryExpr:
			if id, ok := ast.Unparen(s.X).(*ast.Ident); ok && s.Op == token.AND && ft.t.info.Uses[id] == types.Object(v) {
				n += 2
			}
		}
		return true
	})
	if n != 1 || lit == nil {
		return nil
	}
	return lit
}

func (ft *funcTr) inLoopWithin(n ast.Node) bool {
	for p := ft.parents[n]; p != nil; p = ft.parents[p] {
		switch p.(type) {
		case *ast.ForStmt, *ast.RangeStmt:
			return true
		}
	}
	return false
}

// exprExt translates the expressions of the header comment; ok = false hands e on to expr.
func (ft *funcTr) exprExt(e ast.Expr, want types.Type) ([]pre, string, bool) {
	t := ft.t
	tv, has := t.info.Types[e]
	if has && tv.Value != nil && tv.Type != nil {
		T := tv.Type
		if b, isB := T.(*types.Basic); isB && b.Info()&types.IsUntyped != 0 && want != nil {
			T = want
		}
		if k, ok := t.kindExt(types.Unalias(T)); ok && k == kInt64 {
			if i := constant.ToInt(tv.Value); i.Kind() == constant.Int {
				return nil, coqZ(i.ExactString()), true
			}
			t.fail(e, "constant %s of type %s is not supported", tv.Value, T)
		}
		return nil, "", false
	}
	kindOfExpr := func(x ast.Expr) kind {
		if tvx, ok := t.info.Types[x]; ok && tvx.Type != nil {
			return t.kindOf(tvx.Type)
		}
		return kOther
	}
	switch x := e.(type) {
	case *ast.BinaryExpr:
		kx, ky := kindOfExpr(x.X), kindOfExpr(x.Y)
		k := kx
		if bt, ok := t.info.Types[x.X].Type.(*types.Basic); ok && bt.Info()&types.IsUntyped != 0 {
			k = ky
		}
		if k != kInt64 && k != kArray {
			return nil, "", false
		}
		Tx, Ty := t.info.Types[x.X].Type, t.info.Types[x.Y].Type
		p1, a := ft.expr(x.X, Ty)
		p2, b := ft.expr(x.Y, Tx)
		pres := append(p1, p2...)
		switch {
		case k == kArray && x.Op == token.EQL:
			return pres, "(bytes_eqb " + a + " " + b + ")", true
		case k == kArray && x.Op == token.NEQ:
			return pres, "(negb (bytes_eqb " + a + " " + b + "))", true
		case k == kInt64 && x.Op == token.EQL:
			return pres, "(" + a + " =? " + b + ")%Z", true
		case k == kInt64 && x.Op == token.NEQ:
			return pres, "(negb (" + a + " =? " + b + ")%Z)", true
		case k == kInt64:
			if op, ok := map[token.Token]string{token.LSS: "<?", token.LEQ: "<=?", token.GTR: ">?", token.GEQ: ">=?"}[x.Op]; ok {
				return pres, "(" + a + " " + op + " " + b + ")%Z", true
			}
		}
		if k == kInt64 {
			if p, v, ok := ft.int64Binary(x, a, b); ok { // int64.go
				return append(pres, p...), v, true
			}
		}
		t.fail(x, "operator %s on values of type %s (int64: constants and comparisons only; arrays: == and !=)", x.Op, Tx)
	case *ast.UnaryExpr:
		if x.Op != token.AND {
			if k := kindOfExpr(x.X); k == kInt64 || k == kArray || k == kLibType {
				if k == kInt64 {
					if p, v, ok := ft.int64Unary(x); ok { // int64.go
						return p, v, true
					}
				}
				t.fail(x, "unary operator %s on a value of type %s", x.Op, t.info.Types[x.X].Type)
			}
			return nil, "", false
		}
		cl, ok := ast.Unparen(x.X).(*ast.CompositeLit)
		if !ok || want == nil || t.kindOf(want) != kError {
			return nil, "", false
		}
		// &T{...} used as an error
		T := t.info.Types[cl].Type
		if T == nil || !types.Implements(types.NewPointer(T), errorIface) {
			t.fail(x, "&%s used as an error, but it does not implement error", T)
		}
		for _, el := range cl.Elts {
			v := el
			if kv, ok := el.(*ast.KeyValueExpr); ok {
				v = kv.Value
			}
			if !ft.pureExpr(v) {
				t.fail(v, "field of an error value that can panic or has an effect")
			}
		}
		return nil, "true", true
	case *ast.IndexExpr:
		if kindOfExpr(x.X) != kArray {
			return nil, "", false
		}
		p1, base := ft.expr(x.X, nil)
		p2, idx := ft.expr(x.Index, nil)
		tmp := ft.temp()
		return append(append(p1, p2...), pre{tmp, fmt.Sprintf("go_index %s %s", base, idx)}), tmp, true
	case *ast.SliceExpr:
		if kindOfExpr(x.X) == kArray {
			t.fail(x, "slice of an array (only x[:] as the written argument of a library function)")
		}
	case *ast.StarExpr:
		return nil, "", false
	case *ast.CallExpr:
		return ft.callExt(x, want)
	}
	return nil, "", false
}

func (ft *funcTr) callExt(c *ast.CallExpr, want types.Type) ([]pre, string, bool) {
	t := ft.t
	// a local function constant
	if id, ok := ast.Unparen(c.Fun).(*ast.Ident); ok {
		if v, ok := ft.isLocal(t.info.Uses[id]); ok {
			lit := ft.closureOf(v)
			if lit == nil {
				t.fail(c, "call of the local variable %s (only a function literal assigned once is supported)", id.Name)
			}
			return ft.inline(c, lit)
		}
	}
	key, fn, recv := t.libKey(c)
	if key == "" {
		return nil, "", false
	}
	lf, ok := t.cfg.Lib[key]
	if !ok {
		if fn == nil && recv != nil {
			t.fail(c, "call of the func-typed field %s, which has no denotation in the table", key)
		}
		return nil, "", false
	}
	if lf.Input {
		if len(c.Args) != 0 {
			t.fail(c, "input function %s called with arguments", key)
		}
		if ft.ext == nil || !ft.ext.segment {
			t.fail(c, "call of the input function %s outside a Segment", key)
		}
		if ft.inLoopWithin(c) {
			t.fail(c, "call of the input function %s inside a loop", key)
		}
		if recv != nil && !ft.pureExpr(recv) {
			t.fail(c, "input function %s called on something other than a variable or field", key)
		}
		if name, ok := ft.ext.seen[c]; ok {
			return nil, name, true
		}
		T := t.info.Types[c].Type
		name := fmt.Sprintf("in_%d", len(ft.ext.inputs)+1)
		ft.ext.inputs = append(ft.ext.inputs, fmt.Sprintf("(%s : %s)", name, t.coqType(c, T)))
		ft.ext.seen[c] = name
		return nil, name, true
	}
	if fn == nil {
		return nil, "", false
	}
	sig := fn.Type().(*types.Signature)
	anyVariadic := false
	if sig.Variadic() {
		el := sig.Params().At(sig.Params().Len() - 1).Type().(*types.Slice).Elem()
		if _, isIface := types.Unalias(el).Underlying().(*types.Interface); isIface {
			anyVariadic = true
		}
	}
	if lf.Out == 0 && !anyVariadic {
		return nil, "", false
	}
	if lf.IsError {
		return nil, "", false
	}
	if c.Ellipsis.IsValid() {
		t.fail(c, "call with ... argument")
	}
	var pres []pre
	parts := []string{lf.Coq}
	if recv != nil {
		p, v := ft.expr(recv, nil)
		pres = append(pres, p...)
		parts = append(parts, v)
	}
	var outVar string
	if lf.Out > 0 {
		if lf.Out > len(c.Args) || anyVariadic && lf.Out >= sig.Params().Len() {
			t.fail(c, "%s: no argument %d to write into", key, lf.Out)
		}
		// the call is the whole right-hand side of an assignment
		as, ok := ft.parents[c].(*ast.AssignStmt)
		if !ok || len(as.Rhs) != 1 || as.Rhs[0] != ast.Expr(c) {
			t.fail(c, "%s writes into an argument: the call must be the whole right-hand side of an assignment", key)
		}
		v := ft.outArg(c.Args[lf.Out-1])
		if v == nil {
			t.fail(c.Args[lf.Out-1], "%s writes into this argument: it must be x[:] for a local array x, or a local slice made by make", key)
		}
		outVar = ft.names[v]
	}
	var rest []string
	for i, a := range c.Args {
		if i == lf.Out-1 {
			parts = append(parts, outVar)
			continue
		}
		variadic := sig.Variadic() && i >= sig.Params().Len()-1
		if variadic && anyVariadic {
			p, v := ft.expr(a, nil)
			pres = append(pres, p...)
			var w string
			switch t.kindOf(t.info.Types[a].Type) {
			case kString, kBytes, kArray:
				w = "GoAnyBytes"
			case kInt, kInt64:
				w = "GoAnyInt"
			case kByte:
				w = "GoAnyByte"
			case kBool:
				w = "GoAnyBool"
			default:
				t.fail(a, "argument of type %s for a parameter of interface type", t.info.Types[a].Type)
			}
			rest = append(rest, "("+w+" "+v+")")
			continue
		}
		var pt types.Type
		if variadic {
			pt = sig.Params().At(sig.Params().Len() - 1).Type().(*types.Slice).Elem()
		} else if i < sig.Params().Len() {
			pt = sig.Params().At(i).Type()
		}
		p, v := ft.expr(a, pt)
		pres = append(pres, p...)
		if variadic {
			rest = append(rest, v)
		} else {
			parts = append(parts, v)
		}
	}
	if sig.Variadic() {
		parts = append(parts, "["+strings.Join(rest, "; ")+"]")
	}
	term := strings.Join(parts, " ")
	if lf.Out > 0 {
		if !lf.Monadic {
			term = "Ok (" + term + ")"
		}
		tmp := ft.temp()
		return append(pres, pre{"'(" + outVar + ", " + tmp + ")", term}), tmp, true
	}
	if lf.Monadic {
		tmp := ft.temp()
		return append(pres, pre{tmp, term}), tmp, true
	}
	return pres, "(" + term + ")", true
}

// outArg: the local variable behind an argument that a library function writes into.
func (ft *funcTr) outArg(e ast.Expr) *types.Var {
	e = ast.Unparen(e)
	if sl, ok := e.(*ast.SliceExpr); ok && sl.Low == nil && sl.High == nil && !sl.Slice3 {
		if id, ok := ast.Unparen(sl.X).(*ast.Ident); ok {
			if v, ok := ft.isLocal(ft.t.info.Uses[id]); ok {
				if k, _ := ft.t.kindExt(types.Unalias(v.Type())); k == kArray {
					return v
				}
			}
		}
		return nil
	}
	if id, ok := e.(*ast.Ident); ok {
		if v, ok := ft.isLocal(ft.t.info.Uses[id]); ok && ft.makeVar[v] {
			return v
		}
	}
	return nil
}

// assignedExt: the variables a call assigns (the written argument of a library function).
func (ft *funcTr) assignedExt(c *ast.CallExpr, add func(*types.Var)) {
	key, _, _ := ft.t.libKey(c)
	if key == "" {
		return
	}
	if lf, ok := ft.t.cfg.Lib[key]; ok && lf.Out > 0 && lf.Out <= len(c.Args) {
		if v := ft.outArg(c.Args[lf.Out-1]); v != nil {
			add(v)
		}
	}
}

// inline: the call of a local function constant.
func (ft *funcTr) inline(c *ast.CallExpr, lit *ast.FuncLit) ([]pre, string, bool) {
	t := ft.t
	sig, _ := t.info.Types[lit].Type.(*types.Signature)
	if sig == nil || sig.Variadic() || len(c.Args) != sig.Params().Len() || c.Ellipsis.IsValid() {
		t.fail(c, "call of a function literal: variadic, or a different number of arguments than parameters")
	}
	if len(lit.Body.List) != 1 {
		t.fail(lit, "function literal whose body is not a single return statement")
	}
	ret, ok := lit.Body.List[0].(*ast.ReturnStmt)
	if !ok || len(ret.Results) != sig.Results().Len() || len(ret.Results) == 0 {
		t.fail(lit, "function literal whose body is not a single return statement with one expression per result")
	}
	// it captures nothing
	for _, v := range ft.free(lit.Pos(), lit.End(), lit.Body) {
		t.fail(lit, "function literal that captures the variable %s", v.Name())
	}
	var pres []pre
	var vals []string
	for i, a := range c.Args {
		p, v := ft.expr(a, sig.Params().At(i).Type())
		pres = append(pres, p...)
		vals = append(vals, v)
	}
	for i := range c.Args {
		pv := sig.Params().At(i)
		if pv.Name() == "" || pv.Name() == "_" {
			continue
		}
		pres = append(pres, pre{ft.names[pv], "Ok " + vals[i]})
	}
	var parts []string
	for i, r := range ret.Results {
		p, v := ft.expr(r, sig.Results().At(i).Type())
		pres = append(pres, p...)
		parts = append(parts, v)
	}
	if len(parts) == 1 {
		return pres, parts[0], true
	}
	return pres, "(" + strings.Join(parts, ", ") + ")", true
}

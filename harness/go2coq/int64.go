package go2coq

// Arithmetic on int64 and on named types over it (time.Duration), with Go's wrap-around.
// ext.go gives int64 the value semantics Z with constants and comparisons only; a table that
// sets Config.Int64Arith also gets (vocabulary Lib/GoSemInt64.v)
//
//	a + b, a - b, a * b  ->  go_i64_add / go_i64_sub / go_i64_mul a b: the integer result
//	reduced to the interval [-2^63, 2^63) (the language specification: "integer overflow" of
//	signed integers wraps, no panic);
//	a / b, a % b  ->  the computations go_i64_quo / go_i64_rem a b: Panic for b = 0 (run-time
//	panic "integer divide by zero"), otherwise truncated division (Z.quot / Z.rem), the
//	quotient wrapped (the one overflow: the most negative value divided by -1 is itself);
//	-a  ->  go_i64_neg a;   x += e, x -= e, x++ and x-- through the same operators.
//
// Every other operator on these values (shifts, &, |, ^, &^) stays refused, and so does all of
// this without the flag (the text generated for the existing tables is unchanged).  The
// operands are values of the SAME type (Go has no mixed arithmetic), so no conversion is
// involved; a conversion to or from int64 is not part of this file.
//
// Hooks: exprExt (binary and unary operators), binop (the operator of x op= e).

import (
	"go/ast"
	"go/token"
)

// int64Binary: the term (and the binding, for / and %) of a op b on int64 operands.
func (ft *funcTr) int64Binary(x *ast.BinaryExpr, a, b string) ([]pre, string, bool) {
	if !ft.t.cfg.Int64Arith {
		return nil, "", false
	}
	switch x.Op {
	case token.ADD, token.SUB, token.MUL:
		v, _ := int64Op(x.Op, a, b)
		return nil, v, true
	case token.QUO, token.REM:
		f := "go_i64_quo"
		if x.Op == token.REM {
			f = "go_i64_rem"
		}
		tmp := ft.temp()
		return []pre{{tmp, f + " " + a + " " + b}}, tmp, true
	}
	return nil, "", false
}

func int64Op(op token.Token, a, b string) (string, bool) {
	switch op {
	case token.ADD:
		return "(go_i64_add " + a + " " + b + ")", true
	case token.SUB:
		return "(go_i64_sub " + a + " " + b + ")", true
	case token.MUL:
		return "(go_i64_mul " + a + " " + b + ")", true
	}
	return "", false
}

// int64Unary: -a and +a on an int64 operand.
func (ft *funcTr) int64Unary(x *ast.UnaryExpr) ([]pre, string, bool) {
	if !ft.t.cfg.Int64Arith || (x.Op != token.SUB && x.Op != token.ADD) {
		return nil, "", false
	}
	p, a := ft.expr(x.X, nil)
	if x.Op == token.ADD {
		return p, a, true
	}
	return p, "(go_i64_neg " + a + ")", true
}

// binopInt64: the operator of x op= e / x++ on an int64 variable.
func (ft *funcTr) binopInt64(op token.Token, k kind, a, b string) (string, bool) {
	if k != kInt64 || !ft.t.cfg.Int64Arith {
		return "", false
	}
	return int64Op(op, a, b)
}

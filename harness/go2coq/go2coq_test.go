package go2coq_test

import (
	"fmt"
	"go/ast"
	"go/parser"
	"go/token"
	"os"
	"os/exec"
	"path/filepath"
	"strings"
	"testing"

	"verif/harness/go2coq"
	"verif/harness/go2coq/internal/synth"
)

func coqBytes(s []byte) string {
	var parts []string
	for _, c := range s {
		parts = append(parts, fmt.Sprintf("x%02x", c))
	}
	return "[" + strings.Join(parts, "; ") + "]"
}
func coqZ(i int) string  { return fmt.Sprintf("(%d)%%Z", i) }
func coqB(b bool) string { return fmt.Sprint(b) }

// run f; a run-time panic is the Coq value Panic
func res(f func() string) (out string) {
	defer func() {
		if recover() != nil {
			out = "Panic"
		}
	}()
	return "Ok " + f()
}

var cfg = &go2coq.Config{
	Prefix: "s_",
	Funcs:  []string{"CountAB", "Runs", "FindPair", "Swap", "MkP", "Upto", "At", "Safe", "Sum", "Shadow", "Upper", "Mixed"},
	Stubs:  map[string]string{"bytes": "package bytes\nfunc IndexByte(b []byte, c byte) int\n"},
	Lib:    map[string]go2coq.LibFunc{"bytes.IndexByte": {Coq: "go_bytes_IndexByte"}},
	Structs: map[string]go2coq.Struct{"verif/harness/go2coq/internal/synth.P": {CoqType: "(bytes * Z)%type", Ctor: "pair",
		Fields: []go2coq.Field{{Go: "Name", Getter: "fst"}, {Go: "N", Getter: "snd"}}}},
}

func translate(t *testing.T, src string) (*go2coq.Result, error) {
	fset := token.NewFileSet()
	f, err := parser.ParseFile(fset, "synth.go", src, parser.ParseComments)
	if err != nil {
		t.Fatal(err)
	}
	return go2coq.Translate(fset, []*ast.File{f}, "verif/harness/go2coq/internal/synth", cfg)
}

// The translation of internal/synth, evaluated by coqc, agrees with the functions run as Go.
func TestAgainstGo(t *testing.T) {
	src, err := os.ReadFile("internal/synth/synth.go")
	if err != nil {
		t.Fatal(err)
	}
	r, err := translate(t, string(src))
	if err != nil {
		t.Fatal(err)
	}
	inputs := []string{"", "a", "b", "ab", "abz", "aabbzab", "zzz", "xaybxxq", "hello world", "qaab", "aaa bbb  c", "abcabcabcabcabcabcabcabcabc"}
	var ex []string
	add := func(call, want string) { ex = append(ex, fmt.Sprintf("(%s) = %s", call, want)) }
	for _, in := range inputs {
		d := []byte(in)
		cd := coqBytes(d)
		add("s_CountAB 50 "+cd, res(func() string { a, b := synth.CountAB(d); return "(" + coqZ(a) + ", " + coqZ(b) + ")" }))
		add("s_Runs 50 "+cd, res(func() string { return coqZ(synth.Runs(d)) }))
		add("s_FindPair 50 "+cd+" x61 x62", res(func() string { i, ok := synth.FindPair(d, 'a', 'b'); return "(" + coqZ(i) + ", " + coqB(ok) + ")" }))
		add("s_Swap "+cd+" "+coqBytes([]byte("ab")), res(func() string { return coqBytes([]byte(synth.Swap(in, "ab"))) }))
		for _, cut := range []int{-1, 0, 2, 5} {
			add("s_MkP "+cd+" "+coqZ(cut), res(func() string { p := synth.MkP(in, cut); return "(" + coqBytes([]byte(p.Name)) + ", " + coqZ(p.N) + ")" }))
			add("s_At "+cd+" "+coqZ(cut), res(func() string { return fmt.Sprintf("x%02x", synth.At(d, cut)) }))
			add("s_Safe "+cd+" "+coqZ(cut), res(func() string { return coqB(synth.Safe(d, cut)) }))
			add("s_Mixed 50 "+cd+" "+coqZ(cut), res(func() string { n, a := synth.Mixed(d, cut); return "(" + coqZ(n) + ", " + coqBytes(a) + ")" }))
		}
		add("s_Upto "+cd+" x62", res(func() string { o, f := synth.Upto(d, 'b'); return "(" + coqBytes(o) + ", " + coqB(f) + ")" }))
		add("s_Sum 50 "+cd, res(func() string { return coqZ(synth.Sum(d)) }))
		add("s_Shadow "+cd, res(func() string { return coqZ(synth.Shadow(d)) }))
		add("s_Upper 50 "+cd, res(func() string { return coqBytes(synth.Upper(d)) }))
	}
	// the iteration bound is real
	add("s_Sum 3 "+coqBytes([]byte("aaaa")), "OutOfFuel")
	add("s_CountAB 2 "+coqBytes([]byte("aaaa")), "OutOfFuel")

	theories, _ := filepath.Abs("../../coq/theories")
	if _, err := os.Stat(filepath.Join(theories, "Lib", "GoSem.vo")); err != nil {
		t.Skip("compiled Lib/GoSem.vo not found under " + theories)
	}
	if _, err := exec.LookPath("coqc"); err != nil {
		t.Skip("coqc not found")
	}
	dir := t.TempDir()
	var b strings.Builder
	b.WriteString("From Coq Require Import List ZArith NArith Bool.\nFrom Coq.Strings Require Import Byte.\nImport ListNotations.\n")
	b.WriteString("From GI Require Import Lib.Bytes Lib.GoSem.\nImport GoNotations.\nLocal Open Scope go_scope.\n\n")
	b.WriteString(r.Text)
	for i, e := range ex {
		fmt.Fprintf(&b, "Example ex%d : %s.\nProof. vm_compute. reflexivity. Qed.\n", i, e)
	}
	file := filepath.Join(dir, "Synth.v")
	if err := os.WriteFile(file, []byte(b.String()), 0o644); err != nil {
		t.Fatal(err)
	}
	if keep := os.Getenv("GO2COQ_KEEP"); keep != "" {
		os.WriteFile(keep, []byte(b.String()), 0o644)
	}
	cmd := exec.Command("timeout", "300", "coqc", "-q", "-Q", theories, "GI", file)
	cmd.Dir = dir
	out, err := cmd.CombinedOutput()
	if err != nil {
		t.Fatalf("coqc: %v\n%s", err, out)
	}
	t.Logf("%d evaluations of %d translated functions agree with Go", len(ex), len(r.Funcs))
}

// Constructs outside the subset are refused, with a message naming them.
func TestRejects(t *testing.T) {
	cases := []struct{ name, body, want string }{
		{"goto", "func F(d []byte) int { L: for { break L }; return 0 }", "statement"},
		{"switch", "func F(d []byte) int { switch len(d) { case 0: return 1 }; return 0 }", "statement of kind *ast.SwitchStmt"},
		{"nilcmp", "func F(d []byte) bool { return d == nil }", "with nil"},
		{"alias-store", "func F(d []byte) []byte { d[0] = 1; return d }", "not made by make"},
		{"alias-make", "func F(n int) []byte { d := make([]byte, n); e := d; e[0] = 1; return d }", "alias"},
		{"append-other", "func F(d []byte) []byte { e := append(d, 1); return e }", "x = append(x"},
		{"append-param", "func F(d []byte) []byte { d = append(d, 1); return d }", "parameter"},
		{"append-shared", "func F(d []byte) []byte { var e []byte; e = d[:1]; e = append(e, 1); return e }", "share"},
		{"pointer", "func F(p *P) int { return p.N }", "pointer parameter"},
		{"address", "func F(d []byte) int { x := 1; y := &x; return *y }", ""},
		{"closure", "func F(d []byte) int { f := func() int { return 1 }; return f() }", ""},
		{"division", "func F(a, b int) int { return a / b }", "operator /"},
		{"recursion", "func F(a int) int { if a > 0 { return F(a - 1) }; return 0 }", "recursive"},
		{"rangestring", "func F(s string) int { n := 0; for range s { n++ }; return n }", "range over"},
		{"uint", "func F(a uint32) uint32 { return a + 1 }", "not supported"},
		{"libcall", "func F(d []byte) []byte { return bytes.ToUpper(d) }", "bytes.ToUpper"},
		{"defer", "func F(d []byte) int { defer func() {}(); return 0 }", ""},
		{"global-assign", "var g = []byte(\"x\")\nfunc F(d []byte) int { g = d; return 0 }", "package-level"},
		{"deadcode", "func F(d []byte) int { return 0; return 1 }", "unreachable"},
	}
	for _, c := range cases {
		saved := cfg.Funcs
		cfg.Funcs = []string{"F"}
		_, err := translate(t, "package synth\nimport \"bytes\"\nvar _ = bytes.IndexByte\ntype P struct { Name string; N int }\n"+c.body+"\n")
		cfg.Funcs = saved
		if err == nil {
			t.Errorf("%s: accepted", c.name)
			continue
		}
		if _, ok := err.(*go2coq.Unsupported); !ok || !strings.Contains(err.Error(), c.want) {
			t.Errorf("%s: error %q does not mention %q", c.name, err, c.want)
		}
	}
}

// Renaming locals, comments and layout do not change the generated text beyond bound names.
func TestDeterministic(t *testing.T) {
	src, _ := os.ReadFile("internal/synth/synth.go")
	a, err := translate(t, string(src))
	if err != nil {
		t.Fatal(err)
	}
	b, _ := translate(t, "// a comment\n\n"+strings.ReplaceAll(string(src), "\treturn a, b\n", "\t// c\n\treturn a,\n\t\tb\n"))
	if a.Text != b.Text {
		t.Error("comments and layout change the generated text")
	}
}

package go2coq_test

import (
	"fmt"
	"go/ast"
	"go/parser"
	"go/token"
	"os"
	"os/exec"
	"path/filepath"
	"strings"
	"testing"
	"unicode"

	"verif/harness/go2coq"
	"verif/harness/go2coq/internal/synth"
)

func coqBytes(s []byte) string {
	var parts []string
	for _, c := range s {
		parts = append(parts, fmt.Sprintf("x%02x", c))
	}
	return "[" + strings.Join(parts, "; ") + "]"
}
func coqZ(i int) string  { return fmt.Sprintf("(%d)%%Z", i) }
func coqB(b bool) string { return fmt.Sprint(b) }

// run f; a run-time panic is the Coq value Panic
func res(f func() string) (out string) {
	defer func() {
		if recover() != nil {
			out = "Panic"
		}
	}()
	return "Ok " + f()
}

var cfg = &go2coq.Config{
	Prefix: "s_",
	Funcs: []string{"CountAB", "Runs", "FindPair", "Swap", "MkP", "Upto", "At", "Safe", "Sum", "Shadow", "Upper", "Mixed",
		"Lookup", "Balanced", "Tri", "SumTri", "Runes", "Plain", "Words", "AllHex", "CountDown"},
	Stubs: map[string]string{"bytes": "package bytes\nfunc IndexByte(b []byte, c byte) int\n",
		"errors": "package errors\nfunc New(text string) error\n", "path": "package path\nfunc Join(elem ...string) string\n"},
	Lib: map[string]go2coq.LibFunc{"bytes.IndexByte": {Coq: "go_bytes_IndexByte"}, "errors.New": {IsError: true},
		"path.Join": {Coq: "t_path_Join"}},
	Prefixes: []go2coq.Prefix{{Func: "Store", Before: "os.Setenv"}},
	Structs: map[string]go2coq.Struct{"verif/harness/go2coq/internal/synth.P": {CoqType: "(bytes * Z)%type", Ctor: "pair",
		Fields: []go2coq.Field{{Go: "Name", Getter: "fst"}, {Go: "N", Getter: "snd"}}}},
}

func translate(t *testing.T, src string) (*go2coq.Result, error) {
	fset := token.NewFileSet()
	f, err := parser.ParseFile(fset, "synth.go", src, parser.ParseComments)
	if err != nil {
		t.Fatal(err)
	}
	return go2coq.Translate(fset, []*ast.File{f}, "verif/harness/go2coq/internal/synth", cfg)
}

// The translation of internal/synth, evaluated by coqc, agrees with the functions run as Go.
func TestAgainstGo(t *testing.T) {
	src, err := os.ReadFile("internal/synth/synth.go")
	if err != nil {
		t.Fatal(err)
	}
	r, err := translate(t, string(src))
	if err != nil {
		t.Fatal(err)
	}
	inputs := []string{"", "a", "b", "ab", "abz", "aabbzab", "zzz", "xaybxxq", "hello world", "qaab", "aaa bbb  c", "abcabcabcabcabcabcabcabcabc"}
	var ex []string
	add := func(call, want string) { ex = append(ex, fmt.Sprintf("(%s) = %s", call, want)) }
	for _, in := range inputs {
		d := []byte(in)
		cd := coqBytes(d)
		add("s_CountAB 50 "+cd, res(func() string { a, b := synth.CountAB(d); return "(" + coqZ(a) + ", " + coqZ(b) + ")" }))
		add("s_Runs 50 "+cd, res(func() string { return coqZ(synth.Runs(d)) }))
		add("s_FindPair 50 "+cd+" x61 x62", res(func() string { i, ok := synth.FindPair(d, 'a', 'b'); return "(" + coqZ(i) + ", " + coqB(ok) + ")" }))
		add("s_Swap "+cd+" "+coqBytes([]byte("ab")), res(func() string { return coqBytes([]byte(synth.Swap(in, "ab"))) }))
		for _, cut := range []int{-1, 0, 2, 5} {
			add("s_MkP "+cd+" "+coqZ(cut), res(func() string { p := synth.MkP(in, cut); return "(" + coqBytes([]byte(p.Name)) + ", " + coqZ(p.N) + ")" }))
			add("s_At "+cd+" "+coqZ(cut), res(func() string { return fmt.Sprintf("x%02x", synth.At(d, cut)) }))
			add("s_Safe "+cd+" "+coqZ(cut), res(func() string { return coqB(synth.Safe(d, cut)) }))
			add("s_Mixed 50 "+cd+" "+coqZ(cut), res(func() string { n, a := synth.Mixed(d, cut); return "(" + coqZ(n) + ", " + coqBytes(a) + ")" }))
		}
		add("s_Upto "+cd+" x62", res(func() string { o, f := synth.Upto(d, 'b'); return "(" + coqBytes(o) + ", " + coqB(f) + ")" }))
		add("s_Sum 50 "+cd, res(func() string { return coqZ(synth.Sum(d)) }))
		add("s_Shadow "+cd, res(func() string { return coqZ(synth.Shadow(d)) }))
		add("s_Upper 50 "+cd, res(func() string { return coqBytes(synth.Upper(d)) }))
	}
	// maps, recursion, range over strings / ints, slices of strings
	mGo := map[string]bool{"a": true, "x": true, "b": false, "bc": true}
	mCoq := "(fun k => bytes_eqb k [x61] || bytes_eqb k [x78] || bytes_eqb k [x62; x63])"
	nGo := map[string]int{"a": 3, "ab": 1}
	nCoq := "(fun k => if bytes_eqb k [x61] then 3%Z else if bytes_eqb k [x61; x62] then 1%Z else 0%Z)"
	texts := []string{"", "a", "x", "ab", "abc", "a,bc", "a,,b", ",", "zbc,a,xbc", "h\u00e9llo!x", "\xff\xfea\xe2\x82", "\u20acuro_\U0001F600", "09af", "09aG", "test", "\u00e9\u00e8\xc3"}
	for _, in := range texts {
		cd := coqBytes([]byte(in))
		add("s_Lookup "+cd+" "+mCoq+" "+nCoq, res(func() string { return coqZ(synth.Lookup(in, mGo, nGo)) }))
		add("s_Lookup "+cd+" (fun _ => false) (fun _ => 0%Z)", res(func() string { return coqZ(synth.Lookup(in, nil, nil)) }))
		add("s_Balanced 30 "+cd+" "+mCoq, res(func() string { return coqB(synth.Balanced(in, mGo)) }))
		add("s_Runes "+cd, res(func() string {
			a, b, c := synth.Runes(in)
			return "(" + coqZ(a) + ", " + coqZ(b) + ", " + coqZ(c) + ")"
		}))
		add("s_Plain "+cd, res(func() string { return coqB(synth.Plain(in)) }))
		add("s_AllHex "+cd, res(func() string { return coqB(synth.AllHex(in)) }))
	}
	lists := [][]string{nil, {"a"}, {"test"}, {"a", "b", "a"}, {"a", "a", "a", "test"}, {"", "x", "", "", "test", "test"}}
	for _, l := range lists {
		var parts []string
		for _, w := range l {
			parts = append(parts, coqBytes([]byte(w)))
		}
		cl := "[" + strings.Join(parts, "; ") + "]"
		for _, i := range []int{-1, 0, 2, 3} {
			add("s_Words "+cl+" "+coqZ(i), res(func() string {
				w, k := synth.Words(append([]string(nil), l...), i)
				return "(" + coqBytes([]byte(w)) + ", " + coqZ(k) + ")"
			}))
		}
	}
	for _, n := range []int{-2, 0, 1, 5} {
		add("s_Tri 10 "+coqZ(n), res(func() string { return coqZ(synth.Tri(n)) }))
		add("s_SumTri 10 "+coqZ(n), res(func() string { return coqZ(synth.SumTri(n)) }))
		add("s_CountDown "+coqZ(n), res(func() string { return coqZ(synth.CountDown(n)) }))
	}
	// the pure prefix of an effectful function: what it returns, or the variable it hands on
	for _, name := range []string{"a", "x/y", "/abs", "..", "b.txt"} {
		os.Unsetenv("GO2COQ_SYNTH_STORE")
		want := "Ok (Return true)"
		if err := synth.Store("d", name); err == nil {
			want = "Ok (Normal " + coqBytes([]byte(os.Getenv("GO2COQ_SYNTH_STORE"))) + ")"
		}
		add("s_Store_before_os_Setenv "+coqBytes([]byte("d"))+" "+coqBytes([]byte(name)), want)
	}
	// the bound on the depth of a recursion is real
	add("s_Tri 5 "+coqZ(5), "OutOfFuel")
	add("s_Tri 6 "+coqZ(5), "Ok "+coqZ(15))
	add("s_Balanced 2 "+coqBytes([]byte("a,b,c"))+" "+mCoq, "OutOfFuel")
	// the iteration bound is real
	add("s_Sum 3 "+coqBytes([]byte("aaaa")), "OutOfFuel")
	add("s_CountAB 2 "+coqBytes([]byte("aaaa")), "OutOfFuel")

	theories, _ := filepath.Abs("../../coq/theories")
	if th := os.Getenv("GO2COQ_THEORIES"); th != "" {
		theories = th
	}
	if _, err := os.Stat(filepath.Join(theories, "Lib", "GoSemExt.vo")); err != nil {
		t.Skip("compiled Lib/GoSemExt.vo not found under " + theories)
	}
	if _, err := exec.LookPath("coqc"); err != nil {
		t.Skip("coqc not found")
	}
	dir := t.TempDir()
	var b strings.Builder
	b.WriteString("From Coq Require Import List ZArith NArith Bool.\nFrom Coq.Strings Require Import Byte.\nImport ListNotations.\n")
	b.WriteString("From GI Require Import Lib.Bytes Lib.GoSem Lib.GoSemExt.\nImport GoNotations.\nLocal Open Scope go_scope.\n\n")
	// path.Join(a, b) on two non-empty clean relative elements
	b.WriteString("Definition t_path_Join (l : list bytes) : bytes := match l with [a; b] => a ++ x2f :: b | _ => [] end.\n\n")
	b.WriteString(r.Text)
	for i, e := range ex {
		fmt.Fprintf(&b, "Example ex%d : %s.\nProof. vm_compute. reflexivity. Qed.\n", i, e)
	}
	file := filepath.Join(dir, "Synth.v")
	if err := os.WriteFile(file, []byte(b.String()), 0o644); err != nil {
		t.Fatal(err)
	}
	if keep := os.Getenv("GO2COQ_KEEP"); keep != "" {
		os.WriteFile(keep, []byte(b.String()), 0o644)
	}
	cmd := exec.Command("timeout", "300", "coqc", "-q", "-Q", theories, "GI", file)
	cmd.Dir = dir
	out, err := cmd.CombinedOutput()
	if err != nil {
		t.Fatalf("coqc: %v\n%s", err, out)
	}
	t.Logf("%d evaluations of %d translated functions agree with Go", len(ex), len(r.Funcs))
}

// Constructs outside the subset are refused, with a message naming them.
func TestRejects(t *testing.T) {
	cases := []struct {
		name, body, want string
		funcs            []string
	}{
		{"goto", "func F(d []byte) int { L: for { break L }; return 0 }", "statement", nil},
		{"typeswitch", "func F(d []byte) int { var x any = d; switch x.(type) { case nil: return 1 }; return 0 }", "", nil},
		{"nilcmp", "func F(d []byte) bool { return d == nil }", "with nil", nil},
		{"alias-store", "func F(d []byte) []byte { d[0] = 1; return d }", "not made by make", nil},
		{"alias-make", "func F(n int) []byte { d := make([]byte, n); e := d; e[0] = 1; return d }", "alias", nil},
		{"append-other", "func F(d []byte) []byte { e := append(d, 1); return e }", "x = append(x", nil},
		{"append-param", "func F(d []byte) []byte { d = append(d, 1); return d }", "parameter", nil},
		{"append-shared", "func F(d []byte) []byte { var e []byte; e = d[:1]; e = append(e, 1); return e }", "share", nil},
		{"pointer", "func F(p *P) int { return p.N }", "pointer parameter", nil},
		{"address", "func F(d []byte) int { x := 1; y := &x; return *y }", "", nil},
		{"closure", "func F(d []byte) int { f := func() int { return 1 }; return f() }", "", nil},
		{"division", "func F(a, b int) int { return a / b }", "operator /", nil},
		{"mutual", "func F(a int) int { if a > 0 { return G(a - 1) }; return 0 }\nfunc G(a int) int { return F(a) }", "mutually recursive", []string{"F", "G"}},
		{"recursion-in-loop", "func F(a int) int { for i := 0; i < a; i++ { a = F(i) }; return 0 }", "inside a loop", nil},
		{"rangemap", "func F(m map[string]bool) int { n := 0; for range m { n++ }; return n }", "range over", nil},
		{"mapstore", "func F(m map[string]bool) int { m[\"a\"] = true; return 0 }", "not made by make", nil},
		{"mapcommaok", "func F(m map[string]bool) bool { v, ok := m[\"a\"]; return v && ok }", "other than a call", nil},
		{"mapcommaok-if", "func F(m map[string]bool) bool { if _, ok := m[\"a\"]; ok { return true }; return false }", "other than a call", nil},
		{"maplen", "func F(m map[string]bool) int { return len(m) }", "len of", nil},
		{"mapdelete", "func F(m map[string]bool) int { delete(m, \"a\"); return 0 }", "expression statement", nil},
		{"mapnil", "func F(m map[string]bool) bool { return m == nil }", "with nil", nil},
		{"mapmake", "func F() bool { m := make(map[string]bool); return m[\"a\"] }", "make", nil},
		{"mapintkey", "func F(m map[int]bool) bool { return m[1] }", "not supported", nil},
		{"runearith", "func F(s string) rune { var r rune; for _, c := range s { r = c + 1 }; return r }", "operator +", nil},
		{"strslice-store", "func F(l []string) int { l[0] = \"x\"; return 0 }", "not made by make", nil},
		{"method", "func F(d []byte) bool { return re.Match(d) }", "(*regexp.Regexp).Match", nil},
		{"rangeint2", "func F(n int) int { t := 0; for i, j := range n { t += i + j }; return t }", "", nil},
		{"uint", "func F(a uint32) uint32 { return a + 1 }", "not supported", nil},
		{"libcall", "func F(d []byte) []byte { return bytes.ToUpper(d) }", "bytes.ToUpper", nil},
		{"defer", "func F(d []byte) int { defer func() {}(); return 0 }", "", nil},
		{"global-assign", "var g = []byte(\"x\")\nfunc F(d []byte) int { g = d; return 0 }", "package-level", nil},
		{"deadcode", "func F(d []byte) int { return 0; return 1 }", "unreachable", nil},
		{"variadic-spread", "func F(l []string) string { return path.Join(l...) }", "... argument", nil},
	}
	for _, c := range cases {
		saved := cfg.Funcs
		cfg.Funcs = []string{"F"}
		if c.funcs != nil {
			cfg.Funcs = c.funcs
		}
		cfg.Stubs["regexp"] = "package regexp\ntype Regexp struct{}\nfunc MustCompile(s string) *Regexp\nfunc (re *Regexp) Match(b []byte) bool\n"
		_, err := translate(t, "package synth\nimport (\"bytes\"; \"regexp\"; \"path\"; \"os\"; \"errors\")\nvar _ = bytes.IndexByte\nvar _ = path.Join\nvar _ = errors.New\nfunc Store(d string) error { return os.Setenv(\"K\", d) }\nvar re = regexp.MustCompile(\"a\")\ntype P struct { Name string; N int }\n"+c.body+"\n")
		cfg.Funcs = saved
		delete(cfg.Stubs, "regexp")
		if err == nil {
			t.Errorf("%s: accepted", c.name)
			continue
		}
		if _, ok := err.(*go2coq.Unsupported); !ok || !strings.Contains(err.Error(), c.want) {
			t.Errorf("%s: error %q does not mention %q", c.name, err, c.want)
		}
	}
}

// Renaming locals, comments and layout do not change the generated text beyond bound names.
func TestDeterministic(t *testing.T) {
	src, _ := os.ReadFile("internal/synth/synth.go")
	a, err := translate(t, string(src))
	if err != nil {
		t.Fatal(err)
	}
	b, _ := translate(t, "// a comment\n\n"+strings.ReplaceAll(string(src), "\treturn a, b\n", "\t// c\n\treturn a,\n\t\tb\n"))
	if a.Text != b.Text {
		t.Error("comments and layout change the generated text")
	}
	// a renamed local changes bound names only
	c, err := translate(t, strings.ReplaceAll(string(src), "pos", "whereabouts"))
	if err != nil {
		t.Fatal(err)
	}
	if c.Text == a.Text || strings.ReplaceAll(c.Text, "v_whereabouts", "v_pos") != a.Text {
		t.Error("renaming a local changes more than the bound names")
	}
}

// A method of a library type and a package-level variable given by the table.
func TestTableVarsAndMethods(t *testing.T) {
	fset := token.NewFileSet()
	src := "package p\nimport \"regexp\"\nvar re = regexp.MustCompile(\"a+\")\nvar Known = make(map[string]bool)\nfunc init() { Known[\"a\"] = true }\n" +
		"func F(s string) bool { return Known[s] && re.MatchString(s) }\n"
	f, err := parser.ParseFile(fset, "p.go", src, 0)
	if err != nil {
		t.Fatal(err)
	}
	c := &go2coq.Config{Prefix: "p_", Funcs: []string{"F"},
		Stubs: map[string]string{"regexp": "package regexp\ntype Regexp struct{}\nfunc MustCompile(s string) *Regexp\nfunc (re *Regexp) MatchString(s string) bool\n"},
		Lib:   map[string]go2coq.LibFunc{"(*regexp.Regexp).MatchString": {Coq: "re_match"}},
		Vars:  map[string]string{"re": "the_re", "Known": "(known known_list)"}}
	r, err := go2coq.Translate(fset, []*ast.File{f}, "p", c)
	if err != nil {
		t.Fatal(err)
	}
	if !strings.Contains(r.Text, "Ok (((known known_list) v_s) && (re_match the_re v_s))") {
		t.Errorf("unexpected translation:\n%s", r.Text)
	}
	// without the table entries the variables are refused
	c.Vars = nil
	if _, err := go2coq.Translate(fset, []*ast.File{f}, "p", c); err == nil {
		t.Error("accepted a map filled by init() without a table entry")
	}
}

// The denotations of unicode.IsLetter / unicode.IsDigit (Lib/GoSemUnicode.v over the regenerated
// range tables) agree with the library at and around every boundary of the tables, on Latin-1,
// and outside the rune range.
func TestUnicodeDenotation(t *testing.T) {
	theories, _ := filepath.Abs("../../coq/theories")
	if th := os.Getenv("GO2COQ_THEORIES"); th != "" {
		theories = th
	}
	if _, err := os.Stat(filepath.Join(theories, "Lib", "GoSemUnicode.vo")); err != nil {
		t.Skip("compiled Lib/GoSemUnicode.vo not found under " + theories)
	}
	if _, err := exec.LookPath("coqc"); err != nil {
		t.Skip("coqc not found")
	}
	seen := map[int64]bool{}
	var pts []int64
	add := func(r int64) {
		if !seen[r] {
			seen[r] = true
			pts = append(pts, r)
		}
	}
	for r := int64(-2); r <= 0x2ff; r++ {
		add(r)
	}
	for _, tab := range []*unicode.RangeTable{unicode.Letter, unicode.Digit} {
		for _, x := range tab.R16 {
			for _, d := range []int64{-1, 0, 1} {
				add(int64(x.Lo) + d)
				add(int64(x.Hi) + d)
				add(int64(x.Lo) + int64(x.Stride) + d)
			}
		}
		for _, x := range tab.R32 {
			for _, d := range []int64{-1, 0, 1} {
				add(int64(x.Lo) + d)
				add(int64(x.Hi) + d)
				add(int64(x.Lo) + int64(x.Stride) + d)
			}
		}
	}
	for _, r := range []int64{0xD800, 0xDFFF, 0xFFFD, 0xFFFF, 0x10000, 0x10FFFF, 0x110000, 0x7fffffff} {
		add(r)
	}
	var in, letters, digits []string
	for _, r := range pts {
		in = append(in, fmt.Sprintf("(%d)%%Z", r))
		ok := r >= 0 && r <= 0x7fffffff
		letters = append(letters, fmt.Sprint(ok && unicode.IsLetter(rune(r))))
		digits = append(digits, fmt.Sprint(ok && unicode.IsDigit(rune(r))))
	}
	var b strings.Builder
	b.WriteString("From Coq Require Import List ZArith Bool.\nImport ListNotations.\nFrom GI Require Import Lib.GoSemUnicode.\n")
	fmt.Fprintf(&b, "Definition pts : list Z := [%s].\n", strings.Join(in, "; "))
	fmt.Fprintf(&b, "Example letters : map go_unicode_IsLetter pts = [%s].\nProof. vm_compute. reflexivity. Qed.\n", strings.Join(letters, "; "))
	fmt.Fprintf(&b, "Example digits : map go_unicode_IsDigit pts = [%s].\nProof. vm_compute. reflexivity. Qed.\n", strings.Join(digits, "; "))
	dir := t.TempDir()
	file := filepath.Join(dir, "Uni.v")
	if err := os.WriteFile(file, []byte(b.String()), 0o644); err != nil {
		t.Fatal(err)
	}
	cmd := exec.Command("timeout", "300", "coqc", "-q", "-Q", theories, "GI", file)
	cmd.Dir = dir
	if out, err := cmd.CombinedOutput(); err != nil {
		t.Fatalf("coqc: %v\n%s", err, out)
	}
	t.Logf("IsLetter / IsDigit agree with the library on %d code points", len(pts))
}

package go2coq

// World mode (world.go): expressions and calls.

import (
	"fmt"
	"go/ast"
	"go/constant"
	"go/token"
	"go/types"
	"sort"
	"strings"
)

func (fn *wfn) isNilExpr(e ast.Expr) bool {
	id, ok := ast.Unparen(e).(*ast.Ident)
	return ok && fn.info().Uses[id] == types.Universe.Lookup("nil")
}

// constLit: a constant of type T as a Coq literal.
func (fn *wfn) constLit(n ast.Node, v constant.Value, T types.Type) string {
	switch fn.t.kindOf(T) {
	case wkZ:
		if i := constant.ToInt(v); i.Kind() == constant.Int {
			return coqZ(i.ExactString())
		}
	case wkBool:
		if v.Kind() == constant.Bool {
			if constant.BoolVal(v) {
				return "true"
			}
			return "false"
		}
	case wkBytes:
		if v.Kind() == constant.String {
			return coqBytes(constant.StringVal(v))
		}
	}
	fn.t.fail(n, "constant %s of type %s is not supported", v, T)
	return ""
}

// extVar: pkg.Name given by the table (a package-level variable or constant of another package).
func (fn *wfn) extVar(e ast.Expr) (string, bool) {
	x, ok := ast.Unparen(e).(*ast.SelectorExpr)
	if !ok {
		return "", false
	}
	id, ok := x.X.(*ast.Ident)
	if !ok {
		return "", false
	}
	pn, ok := fn.info().Uses[id].(*types.PkgName)
	if !ok {
		return "", false
	}
	term, ok := fn.t.cfg.ExtVars[pn.Imported().Path()+"."+x.Sel.Name]
	return term, ok
}

// expr translates an expression into the bindings of its parts that are computations (in
// evaluation order) and a plain term.  want is the type the context gives (untyped nil,
// untyped constants, values converted to an error).
func (fn *wfn) expr(e ast.Expr, want types.Type) ([]wpre, string) {
	t := fn.t
	info := fn.info()
	if id, ok := e.(*ast.Ident); ok {
		if c, ok := fn.preCond[id]; ok {
			return nil, c
		}
	}
	// a table value where an error is wanted (an errno constant converted to the interface)
	if want != nil && t.kindOf(want) == wkErr {
		if term, ok := fn.extVar(e); ok {
			return nil, term
		}
	}
	tv, ok := info.Types[e]
	if ok && tv.Value != nil {
		T := tv.Type
		if b, isB := T.(*types.Basic); isB && b.Info()&types.IsUntyped != 0 {
			if want != nil && t.kindOf(want) != wkOther && t.kindOf(want) != wkErr && t.kindOf(want) != wkNamed {
				T = want
			} else {
				T = types.Default(T)
			}
		}
		if want != nil && t.kindOf(want) == wkErr {
			t.fail(e, "constant used as an error value without a table entry (ExtVars)")
		}
		return nil, fn.constLit(e, tv.Value, T)
	}
	switch x := e.(type) {
	case *ast.ParenExpr:
		return fn.expr(x.X, want)
	case *ast.Ident:
		obj := info.Uses[x]
		if obj == types.Universe.Lookup("nil") {
			if want == nil {
				t.fail(e, "nil in a position where its type is not evident")
			}
			switch t.kindOf(want) {
			case wkBytes, wkErr, wkPtr, wkNamed, wkList:
				return nil, t.zero(e, want)
			}
			t.fail(e, "nil of type %s", want)
		}
		if v, ok := fn.isLocal(obj); ok {
			if v == fn.recv && want != nil && t.kindOf(want) == wkPtr {
				t.fail(e, "the receiver used as a pointer value")
			}
			return nil, fn.names[v]
		}
		if term, ok := fn.pkgVar(obj); ok { // world_values.go
			return nil, term
		}
		t.fail(e, "identifier %s (only local variables; package-level variables are not supported in world mode)", x.Name)
	case *ast.UnaryExpr:
		if x.Op == token.AND {
			return fn.addrOf(x)
		}
		p, v := fn.expr(x.X, want)
		k := t.kindOf(tv.Type)
		switch {
		case x.Op == token.NOT && k == wkBool:
			return p, "(negb " + v + ")"
		case x.Op == token.SUB && fn.isInt(tv.Type):
			return p, "(- " + v + ")%Z"
		case x.Op == token.ADD && k == wkZ:
			return p, v
		}
		t.fail(e, "unary operator %s on %s", x.Op, tv.Type)
	case *ast.BinaryExpr:
		return fn.binary(x)
	case *ast.CallExpr:
		pres, vals := fn.callValues(x)
		switch len(vals) {
		case 1:
			return pres, vals[0]
		case 0:
			t.fail(e, "call without a result used as a value")
		}
		return pres, "(" + strings.Join(vals, ", ") + ")"
	case *ast.IndexExpr:
		if t.kindOf(info.Types[x.X].Type) != wkBytes {
			t.fail(e, "index expression on a value of type %s", info.Types[x.X].Type)
		}
		p1, base := fn.expr(x.X, nil)
		p2, idx := fn.expr(x.Index, nil)
		tmp := fn.temp()
		return append(append(p1, p2...), wpre{pat: tmp, term: fmt.Sprintf("go_index %s %s", base, idx)}), "(byte_Z " + tmp + ")" // world_values.go: uint8 is an integer
	case *ast.SliceExpr:
		if x.Slice3 || t.kindOf(info.Types[x.X].Type) != wkBytes {
			t.fail(e, "slice expression (three-index, or on a value of type %s)", info.Types[x.X].Type)
		}
		fn.checkArraySlice(x) // world_values.go
		pres, base := fn.expr(x.X, nil)
		lo, hi := "0%Z", "(len "+base+")"
		if x.Low != nil {
			var p []wpre
			p, lo = fn.expr(x.Low, nil)
			pres = append(pres, p...)
		}
		if x.High != nil {
			var p []wpre
			p, hi = fn.expr(x.High, nil)
			pres = append(pres, p...)
		}
		tmp := fn.temp()
		return append(pres, wpre{pat: tmp, term: fmt.Sprintf("go_slice %s %s %s", base, lo, hi)}), tmp
	case *ast.SelectorExpr:
		if term, ok := fn.extVar(x); ok {
			return nil, term
		}
		sel := info.Selections[x]
		if sel == nil || sel.Kind() != types.FieldVal {
			t.fail(e, "selector %s (only fields; values of other packages need a table entry)", x.Sel.Name)
		}
		pres, base, T := fn.structVal(x.X)
		p, term, _ := fn.walk(x, base, T, sel.Index())
		return append(pres, p...), term
	case *ast.CompositeLit:
		return fn.composite(x)
	case *ast.StarExpr:
		return fn.starExpr(x) // world_data.go
	case *ast.FuncLit:
		return fn.localClosure(x) // world_values.go
	}
	t.fail(e, "expression of kind %T", e)
	return nil, ""
}

func (fn *wfn) isInt(T types.Type) bool {
	b, ok := types.Unalias(T).Underlying().(*types.Basic)
	return ok && (b.Kind() == types.Int || b.Kind() == types.UntypedInt)
}

// structVal: the record a struct-valued or pointer-to-struct-valued expression denotes.
func (fn *wfn) structVal(e ast.Expr) ([]wpre, string, *types.Named) {
	t := fn.t
	T := fn.info().Types[e].Type
	if id, ok := ast.Unparen(e).(*ast.Ident); ok {
		if v, ok := fn.isLocal(fn.info().Uses[id]); ok {
			T = v.Type()
			if v == fn.recv {
				return nil, fn.names[v], t.structOf(types.Unalias(T).(*types.Pointer).Elem())
			}
		}
	}
	switch t.kindOf(T) {
	case wkStruct:
		p, v := fn.expr(e, nil)
		return p, v, t.structOf(T)
	case wkPtr:
		p, v := fn.expr(e, nil)
		tmp := fn.temp()
		return append(p, wpre{pat: tmp, term: "go_deref " + v}), tmp, t.structOf(types.Unalias(T).Underlying().(*types.Pointer).Elem())
	}
	t.fail(e, "field or method of a value of type %s", T)
	return nil, "", nil
}

// walk: follows field indices from the record base of struct named.  The result is the term, and
// its Go type.
func (fn *wfn) walk(n ast.Node, base string, named *types.Named, path []int) ([]wpre, string, types.Type) {
	t := fn.t
	var pres []wpre
	var T types.Type = named
	for _, i := range path {
		cur := t.structOf(T)
		if cur == nil {
			if p, ok := types.Unalias(T).Underlying().(*types.Pointer); ok && t.structOf(p.Elem()) != nil {
				t.fail(n, "field access through a pointer stored in a struct")
			}
			t.fail(n, "field of a value of type %s", T)
		}
		s := t.wstructOf(n, cur)
		base = "(" + s.getter[i] + " " + base + ")"
		T = s.st.Field(i).Type()
	}
	return pres, base, T
}

func (fn *wfn) arith(n ast.Node, op token.Token, T types.Type, a, b string) string {
	if fn.t.kindOf(T) != wkZ {
		fn.t.fail(n, "operator %s on a value of type %s", op, T)
	}
	switch op {
	case token.AND:
		return "(Z.land " + a + " " + b + ")"
	case token.OR:
		return "(Z.lor " + a + " " + b + ")"
	case token.AND_NOT:
		return "(Z.ldiff " + a + " " + b + ")"
	}
	if !fn.isInt(T) {
		fn.t.fail(n, "operator %s on the integer type %s (arithmetic is supported on int only: no wrap-around is modelled)", op, T)
	}
	switch op {
	case token.ADD:
		return "(" + a + " + " + b + ")%Z"
	case token.SUB:
		return "(" + a + " - " + b + ")%Z"
	case token.MUL:
		return "(" + a + " * " + b + ")%Z"
	}
	fn.t.fail(n, "operator %s", op)
	return ""
}

// eqTerm: a == b for values of type T.
func (fn *wfn) eqTerm(n ast.Node, T types.Type, a, b string) string {
	switch fn.t.kindOf(T) {
	case wkZ:
		return "(" + a + " =? " + b + ")%Z"
	case wkBytes:
		if _, isSlice := types.Unalias(T).Underlying().(*types.Slice); !isSlice {
			return "(bytes_eqb " + a + " " + b + ")"
		}
	case wkBool:
		return "(Bool.eqb " + a + " " + b + ")"
	}
	fn.t.fail(n, "comparison of values of type %s", T)
	return ""
}

// hasEffect: e contains a call that changes the world or a variable.
func (fn *wfn) hasEffect(e ast.Node) bool {
	found := false
	ast.Inspect(e, func(n ast.Node) bool {
		if c, ok := n.(*ast.CallExpr); ok {
			if r := fn.t.resolve(fn.p, c); r.kind == wcLib && r.lib.Kind == WWorldRO && len(r.lib.Out) == 0 { // world_values.go: a query
				return true
			}
			if fn.callTargets(c, func(*types.Var) { found = true }) {
				return false
			}
		}
		return !found
	})
	return found
}

func (fn *wfn) binary(x *ast.BinaryExpr) ([]wpre, string) {
	t := fn.t
	info := fn.info()
	switch x.Op {
	case token.LAND, token.LOR:
		p1, a := fn.expr(x.X, nil)
		p2, b := fn.expr(x.Y, nil)
		if len(p2) == 0 {
			if x.Op == token.LAND {
				return p1, "(" + a + " && " + b + ")"
			}
			return p1, "(" + a + " || " + b + ")"
		}
		if fn.hasEffect(x.Y) {
			t.fail(x.Y, "call with an effect in the right operand of %s", x.Op)
		}
		var inner strings.Builder
		for _, p := range p2 {
			if p.let {
				fmt.Fprintf(&inner, "let %s := %s in ", p.pat, p.term)
			} else {
				fmt.Fprintf(&inner, "%s <- %s ;; ", p.pat, p.term)
			}
		}
		tmp := fn.temp()
		var term string
		if x.Op == token.LAND {
			term = fmt.Sprintf("(if %s then (%sOk %s) else Ok false)", a, inner.String(), b)
		} else {
			term = fmt.Sprintf("(if %s then Ok true else (%sOk %s))", a, inner.String(), b)
		}
		return append(p1, wpre{pat: tmp, term: term}), tmp
	case token.EQL, token.NEQ:
		neg := func(s string) string {
			if x.Op == token.NEQ {
				return "(negb " + s + ")"
			}
			return s
		}
		Tx, Ty := info.Types[x.X].Type, info.Types[x.Y].Type
		nx, ny := fn.isNilExpr(x.X), fn.isNilExpr(x.Y)
		if nx && ny {
			t.fail(x, "nil == nil")
		}
		if nx || ny {
			other, T := x.X, Tx
			if nx {
				other, T = x.Y, Ty
			}
			p, v := fn.expr(other, nil)
			switch t.kindOf(T) {
			case wkErr:
				return p, neg("(werr_is_nil " + v + ")")
			case wkPtr:
				if id, ok := ast.Unparen(other).(*ast.Ident); ok && fn.info().Uses[id] == types.Object(fn.recv) {
					t.fail(x, "comparison of the receiver with nil (it is assumed not to be nil)")
				}
				return p, neg("(go_is_nil " + v + ")")
			}
			t.fail(x, "comparison of a value of type %s with nil", T)
		}
		kx, ky := t.kindOf(Tx), t.kindOf(Ty)
		if kx == wkErr || ky == wkErr {
			// one side must be a named value of the table
			_, okx := fn.extVar(x.X)
			_, oky := fn.extVar(x.Y)
			if !okx && !oky {
				t.fail(x, "comparison of two error values (supported: against nil and against a value the table names)")
			}
			errT := Tx
			if kx != wkErr {
				errT = Ty
			}
			p1, a := fn.expr(x.X, errT)
			p2, b := fn.expr(x.Y, errT)
			return append(p1, p2...), neg("(werr_eqb " + a + " " + b + ")")
		}
		p1, a := fn.expr(x.X, Ty)
		p2, b := fn.expr(x.Y, Tx)
		T := Tx
		if bt, ok := Tx.(*types.Basic); ok && bt.Info()&types.IsUntyped != 0 {
			T = Ty
		}
		return append(p1, p2...), neg(fn.eqTerm(x, T, a, b))
	case token.LSS, token.LEQ, token.GTR, token.GEQ:
		Tx, Ty := info.Types[x.X].Type, info.Types[x.Y].Type
		p1, a := fn.expr(x.X, Ty)
		p2, b := fn.expr(x.Y, Tx)
		T := Tx
		if bt, ok := Tx.(*types.Basic); ok && bt.Info()&types.IsUntyped != 0 {
			T = Ty
		}
		if t.kindOf(T) != wkZ {
			t.fail(x, "comparison %s on values of type %s", x.Op, T)
		}
		op := map[token.Token]string{token.LSS: "<?", token.LEQ: "<=?", token.GTR: ">?", token.GEQ: ">=?"}[x.Op]
		return append(p1, p2...), "(" + a + " " + op + " " + b + ")%Z"
	case token.ADD, token.SUB, token.MUL, token.AND, token.OR, token.AND_NOT:
		T := info.Types[x].Type
		if t.kindOf(T) == wkBytes && x.Op == token.ADD {
			p1, a := fn.expr(x.X, T)
			p2, b := fn.expr(x.Y, T)
			return append(p1, p2...), "(" + a + " ++ " + b + ")"
		}
		p1, a := fn.expr(x.X, T)
		p2, b := fn.expr(x.Y, T)
		return append(p1, p2...), fn.arith(x, x.Op, T, a, b)
	}
	t.fail(x, "binary operator %s", x.Op)
	return nil, ""
}

// addrOf: &T{...}: a struct literal of a translated package (Some record) or of a library error
// type of the table (WMade).
func (fn *wfn) addrOf(x *ast.UnaryExpr) ([]wpre, string) {
	t := fn.t
	cl, ok := ast.Unparen(x.X).(*ast.CompositeLit)
	if !ok {
		t.fail(x, "address of something other than a struct literal")
	}
	T := fn.info().Types[cl].Type
	isErr := false // world_values.go: an error struct of the table, also of a translated package
	if nm, ok := types.Unalias(T).(*types.Named); ok && nm.Obj().Pkg() != nil {
		_, isErr = t.cfg.ErrStructs[nm.Obj().Pkg().Path()+"."+nm.Obj().Name()]
	}
	if !isErr && t.structOf(T) != nil {
		p, v := fn.composite(cl)
		return p, "(Some " + v + ")"
	}
	named, ok := types.Unalias(T).(*types.Named)
	if !ok || named.Obj().Pkg() == nil {
		t.fail(x, "address of a literal of type %s", T)
	}
	key := named.Obj().Pkg().Path() + "." + named.Obj().Name()
	fields, ok := t.cfg.ErrStructs[key]
	if !ok {
		t.fail(x, "address of a literal of type %s, which is not an error struct of the table", T)
	}
	st, ok := named.Underlying().(*types.Struct)
	if !ok {
		t.fail(x, "%s is not a struct", T)
	}
	vals := map[string]string{}
	var pres []wpre
	for i, el := range cl.Elts {
		name, val := "", el
		if kv, ok := el.(*ast.KeyValueExpr); ok {
			k, ok := kv.Key.(*ast.Ident)
			if !ok {
				t.fail(el, "struct literal key")
			}
			name, val = k.Name, kv.Value
		} else if i < st.NumFields() {
			name = st.Field(i).Name()
		}
		var ft types.Type
		for j := 0; j < st.NumFields(); j++ {
			if st.Field(j).Name() == name {
				ft = st.Field(j).Type()
			}
		}
		if ft == nil || !inSet(fields, name) {
			t.fail(el, "field %s of %s is not in the table", name, key)
		}
		p, v := fn.expr(val, ft)
		pres = append(pres, p...)
		vals[name] = v
	}
	var strs []string
	inner := "WNil"
	nerr := 0
	for _, f := range fields {
		var ft types.Type
		for j := 0; j < st.NumFields(); j++ {
			if st.Field(j).Name() == f {
				ft = st.Field(j).Type()
			}
		}
		if ft == nil {
			t.fail(x, "the table names the field %s, which %s does not have", f, key)
		}
		switch t.kindOf(ft) {
		case wkBytes:
			v, ok := vals[f]
			if !ok {
				v = "[]"
			}
			strs = append(strs, v)
		case wkErr:
			nerr++
			if v, ok := vals[f]; ok {
				inner = v
			}
		default:
			t.fail(x, "field %s of %s has type %s (only strings and one error are supported)", f, key, ft)
		}
	}
	if nerr > 1 {
		t.fail(x, "%s has more than one error field", key)
	}
	return pres, fmt.Sprintf("(WMade %s [%s] %s)", coqBytes(key), strings.Join(strs, "; "), inner)
}

func (fn *wfn) composite(x *ast.CompositeLit) ([]wpre, string) {
	t := fn.t
	T := fn.info().Types[x].Type
	named := t.structOf(T)
	if named == nil {
		if z, ok := t.arrayZero(T); ok && len(x.Elts) == 0 { // world_values.go
			return nil, z
		}
		if t.kindOf(T) == wkBytes {
			var pres []wpre
			var elems []string
			for _, el := range x.Elts {
				if _, ok := el.(*ast.KeyValueExpr); ok {
					t.fail(el, "keyed element in a slice literal")
				}
				p, v := fn.expr(el, types.Typ[types.Uint8])
				pres = append(pres, p...)
				elems = append(elems, v)
			}
			_ = pres
			t.fail(x, "[]byte literal with elements (bytes are not supported as values in world mode)")
		}
		t.fail(x, "composite literal of type %s", T)
	}
	s := t.wstructOf(x, named)
	vals := make([]string, s.st.NumFields())
	var pres []wpre
	for i, el := range x.Elts {
		idx, val := i, el
		if kv, ok := el.(*ast.KeyValueExpr); ok {
			k, ok := kv.Key.(*ast.Ident)
			if !ok {
				t.fail(el, "struct literal key")
			}
			idx = -1
			for j := 0; j < s.st.NumFields(); j++ {
				if s.st.Field(j).Name() == k.Name {
					idx = j
				}
			}
			val = kv.Value
		}
		if idx < 0 || idx >= len(vals) {
			t.fail(el, "struct literal element")
		}
		p, v := fn.expr(val, s.st.Field(idx).Type())
		pres = append(pres, p...)
		vals[idx] = v
	}
	parts := []string{s.ctor}
	for i, v := range vals {
		if v == "" {
			v = t.zero(x, s.st.Field(i).Type())
		}
		parts = append(parts, v)
	}
	return pres, "(" + strings.Join(parts, " ") + ")"
}

// ---------------------------------------------------------------- calls

// checkOrder: a call changes v by state passing: the statement that contains the call does not
// mention v elsewhere (Go does not fix the order between the change and such a read).
func (fn *wfn) checkOrder(c *ast.CallExpr, recv ast.Expr, v *types.Var) {
	var n ast.Node = c
	for n != nil {
		if _, ok := n.(ast.Stmt); ok {
			break
		}
		n = fn.parents[n]
	}
	if n == nil {
		return // a synthetic statement (a deferred call): it consists of the call alone
	}
	var exprs []ast.Expr
	switch s := n.(type) {
	case *ast.IfStmt:
		exprs = []ast.Expr{s.Cond}
	case *ast.ForStmt:
		if s.Cond != nil {
			exprs = []ast.Expr{s.Cond}
		}
	case *ast.SwitchStmt:
		if s.Tag != nil {
			exprs = []ast.Expr{s.Tag}
		}
	default:
		exprs = stmtExprs(n.(ast.Stmt))
		if as, ok := n.(*ast.AssignStmt); ok {
			exprs = append(exprs, as.Lhs...)
		}
	}
	rootId := rootIdent(recv)
	for _, e := range exprs {
		ast.Inspect(e, func(m ast.Node) bool {
			if id, ok := m.(*ast.Ident); ok && id != rootId && fn.info().Uses[id] == types.Object(v) {
				fn.t.fail(id, "%s is mentioned in the same statement in which a call changes it (Go does not fix the order)", v.Name())
			}
			return true
		})
	}
}

// ifaceArg: a pointer to a translated struct handed to a library function where an interface is
// expected: the embedded library value that promotes the interface's methods.
func (fn *wfn) ifaceArg(a ast.Expr, param types.Type) ([]wpre, string, bool) {
	t := fn.t
	AT := fn.info().Types[a].Type
	if AT == nil || t.kindOf(AT) != wkPtr {
		return nil, "", false
	}
	it, ok := types.Unalias(param).Underlying().(*types.Interface)
	if !ok {
		t.fail(a, "a pointer to a translated struct passed as a value of type %s", param)
	}
	if it.NumMethods() == 0 {
		t.fail(a, "a pointer to a translated struct passed as an empty interface")
	}
	var prefix []int
	for i := 0; i < it.NumMethods(); i++ {
		m := it.Method(i)
		obj, idx, _ := types.LookupFieldOrMethod(AT, true, m.Pkg(), m.Name())
		mf, ok := obj.(*types.Func)
		if !ok || len(idx) < 2 {
			t.fail(a, "method %s of %s is not promoted from an embedded field of %s", m.Name(), param, AT)
		}
		if mf.Pkg() != nil && t.byPath[mf.Pkg().Path()] != nil {
			t.fail(a, "method %s of %s is declared in a translated package", m.Name(), param)
		}
		pf := idx[:len(idx)-1]
		if i == 0 {
			prefix = pf
		} else if fmt.Sprint(prefix) != fmt.Sprint(pf) {
			t.fail(a, "the methods of %s are promoted from different embedded fields of %s", param, AT)
		}
	}
	pres, base, named := fn.structVal(a)
	p, term, _ := fn.walk(a, base, named, prefix)
	return append(pres, p...), term, true
}

// callValues translates a call: the bindings (the call itself included when it is a computation or
// has an effect) and the terms of its results.
func (fn *wfn) callValues(c *ast.CallExpr) ([]wpre, []string) {
	t := fn.t
	info := fn.info()
	if c.Ellipsis.IsValid() && !fn.isAppendCall(c) {
		t.fail(c, "call with ... argument")
	}
	r := t.resolve(fn.p, c)
	switch r.kind {
	case wcConv:
		if len(c.Args) != 1 {
			t.fail(c, "conversion with %d arguments", len(c.Args))
		}
		to := info.Types[c.Fun].Type
		from := info.Types[c.Args[0]].Type
		kf, kt := t.kindOf(from), t.kindOf(to)
		switch {
		case kf == wkBytes && kt == wkBytes:
			p, v := fn.expr(c.Args[0], nil)
			return p, []string{v}
		case kf == wkZ && kt == wkZ:
			if !t.intConvOK(from, to) {
				t.fail(c, "conversion from %s to %s can change the value (and the table does not vouch for it)", from, to)
			}
			p, v := fn.expr(c.Args[0], nil)
			return p, []string{v}
		case kf == kt && kf == wkBool:
			p, v := fn.expr(c.Args[0], nil)
			return p, []string{v}
		}
		t.fail(c, "conversion from %s to %s", from, to)
	case wcBuiltin:
		switch r.builtin {
		case "len":
			if t.kindOf(info.Types[c.Args[0]].Type) == wkList { // world_data.go
				p, v := fn.expr(c.Args[0], nil)
				return p, []string{"(len_of " + v + ")"}
			}
			if t.kindOf(info.Types[c.Args[0]].Type) != wkBytes {
				t.fail(c, "len of a value of type %s", info.Types[c.Args[0]].Type)
			}
			p, v := fn.expr(c.Args[0], nil)
			return p, []string{"(len " + v + ")"}
		case "new":
			T := info.Types[c.Args[0]].Type
			if t.structOf(T) == nil {
				t.fail(c, "new of type %s", T)
			}
			return nil, []string{"(Some " + t.zero(c, T) + ")"}
		case "append":
			return fn.appendCall(c) // world_data.go
		case "make": // world_values.go
			if len(c.Args) != 2 || t.kindOf(info.Types[c.Args[0]].Type) != wkBytes {
				t.fail(c, "make other than make([]byte, n)")
			}
			p, v := fn.expr(c.Args[1], types.Typ[types.Int])
			tmp := fn.temp()
			return append(p, wpre{pat: tmp, term: "go_make_bytes " + v}), []string{tmp}
		}
		t.fail(c, "built-in function %s", r.builtin)
	case wcFuncVar:
		if len(c.Args) != r.sig.Params().Len() {
			t.fail(c, "call with a different number of arguments than parameters")
		}
		var pres []wpre
		parts := []string{fn.names[r.v]}
		for i, a := range c.Args {
			p, v := fn.expr(a, r.sig.Params().At(i).Type())
			pres = append(pres, p...)
			parts = append(parts, v)
		}
		if len(c.Args) == 0 {
			parts = append(parts, "tt")
		}
		return fn.bindResults(pres, strings.Join(parts, " "), true, r.sig.Results().Len(), nil)
	case wcTranslated:
		return fn.translatedCall(c, r)
	case wcLib:
		return fn.libCall(c, r)
	case wcLitCall:
		t.fail(c, "call of a function literal other than in a defer statement")
	}
	t.fail(c, "call of this kind of function")
	return nil, nil
}

// bindResults: binds the results of a call term; front: patterns bound in front of the results
// (the world, the receiver).
func (fn *wfn) bindResults(pres []wpre, term string, let bool, nres int, front []string) ([]wpre, []string) {
	var vals []string
	pats := append([]string{}, front...)
	for i := 0; i < nres; i++ {
		tmp := fn.temp()
		pats = append(pats, tmp)
		vals = append(vals, tmp)
	}
	pat := "_"
	switch len(pats) {
	case 0:
	case 1:
		pat = pats[0]
	default:
		pat = "'(" + strings.Join(pats, ", ") + ")"
	}
	return append(pres, wpre{pat: pat, term: term, let: let}), vals
}

func (fn *wfn) translatedCall(c *ast.CallExpr, r wcall) ([]wpre, []string) {
	t := fn.t
	g := r.fn
	if len(c.Args) != r.sig.Params().Len() {
		t.fail(c, "call of %s with a different number of arguments than parameters", g.key)
	}
	var pres []wpre
	parts := []string{g.coq}
	if g.needFuel {
		parts = append(parts, "fuel")
	}
	var front []string
	if g.worldly {
		if fn.world == nil {
			t.fail(c, "internal: call of %s, which has effects, from a function without", g.key)
		}
		parts = append(parts, fn.names[fn.world])
		front = append(front, fn.names[fn.world])
	}
	var post []wpre
	if r.sig.Recv() != nil {
		if g.recvPtr {
			if len(r.path) != 0 {
				t.fail(c, "call of the pointer method %s on an embedded field", g.key)
			}
			id, ok := ast.Unparen(r.recv).(*ast.Ident)
			if !ok {
				t.fail(c, "call of the pointer method %s on something other than a variable", g.key)
			}
			v, ok := fn.isLocal(fn.info().Uses[id])
			if !ok {
				t.fail(c, "call of the pointer method %s on something other than a local variable", g.key)
			}
			if t.recvMutated(g) { // world_values.go: a method that leaves its receiver as it was
				fn.checkOrder(c, r.recv, v)
			}
			switch {
			case v == fn.recv:
				parts = append(parts, fn.names[v])
				front = append(front, fn.names[v])
			case t.kindOf(v.Type()) == wkPtr:
				tmp := fn.temp()
				pres = append(pres, wpre{pat: tmp, term: "go_deref " + fn.names[v]})
				parts = append(parts, tmp)
				tmp2 := fn.temp()
				front = append(front, tmp2)
				post = append(post, wpre{pat: fn.names[v], term: "Some " + tmp2, let: true})
			default:
				t.fail(c, "call of the pointer method %s on a variable of type %s", g.key, v.Type())
			}
		} else {
			pr, base := fn.recvValue(c, r)
			pres = append(pres, pr...)
			parts = append(parts, base)
		}
	}
	for i, a := range c.Args {
		p, v := fn.expr(a, r.sig.Params().At(i).Type())
		pres = append(pres, p...)
		parts = append(parts, v)
	}
	pres, vals := fn.bindResults(pres, strings.Join(parts, " "), false, r.sig.Results().Len(), front)
	return append(pres, post...), vals
}

// recvValue: the value of the receiver of a method call (value receivers, library methods),
// through the embedded fields that promote the method.
func (fn *wfn) recvValue(c *ast.CallExpr, r wcall) ([]wpre, string) {
	if len(r.path) == 0 {
		return fn.expr(r.recv, nil)
	}
	pres, base, named := fn.structVal(r.recv)
	p, term, _ := fn.walk(c, base, named, r.path)
	return append(pres, p...), term
}

func (fn *wfn) libCall(c *ast.CallExpr, r wcall) ([]wpre, []string) {
	t := fn.t
	lf := r.lib
	if len(lf.Out) > 0 { // world_values.go
		return fn.outCall(c, r)
	}
	if r.sig.Variadic() && lf.Kind != WUpdate && lf.Kind != WDrop {
		return fn.variadicLibCall(c, r) // world_data.go
	}
	if r.sig.Variadic() || len(c.Args) != r.sig.Params().Len() {
		t.fail(c, "call of %s with a different number of arguments than parameters (or variadic)", r.key)
	}
	var pres []wpre
	parts := []string{lf.Coq}
	switch lf.Kind {
	case WDrop:
		t.fail(c, "call of %s, which the table drops, used other than as a statement", r.key)
	case WWorld, WWorldRO:
		if fn.world == nil {
			t.fail(c, "internal: call of %s, which has effects, from a function without", r.key)
		}
		parts = append(parts, fn.names[fn.world])
	}
	if lf.Kind == WUpdate {
		if r.sig.Recv() == nil || r.sig.Results().Len() != 0 {
			t.fail(c, "%s: an update method has a receiver and no results", r.key)
		}
		root := fn.rootVar(r.recv)
		fn.checkOrder(c, r.recv, root)
		p, cur := fn.expr(r.recv, nil)
		pres = append(pres, p...)
		parts = append(parts, cur)
		for i, a := range c.Args {
			p, v := fn.expr(a, r.sig.Params().At(i).Type())
			pres = append(pres, p...)
			parts = append(parts, v)
		}
		tmp := fn.temp()
		pres = append(pres, wpre{pat: tmp, term: strings.Join(parts, " ")})
		pres = append(pres, fn.storePres(c, r.recv, tmp)...)
		return pres, nil
	}
	if r.sig.Recv() != nil {
		p, base := fn.recvValue(c, r)
		pres = append(pres, p...)
		parts = append(parts, base)
	}
	for i, a := range c.Args {
		pt := r.sig.Params().At(i).Type()
		if p, v, ok := fn.ifaceArg(a, pt); ok {
			pres = append(pres, p...)
			parts = append(parts, v)
			continue
		}
		p, v := fn.expr(a, pt)
		pres = append(pres, p...)
		parts = append(parts, v)
	}
	term := strings.Join(parts, " ")
	n := r.sig.Results().Len()
	switch lf.Kind {
	case WPure:
		if n == 1 {
			return pres, []string{"(" + term + ")"}
		}
		return fn.bindResults(pres, term, true, n, nil)
	case WMonadic:
		return fn.bindResults(pres, term, false, n, nil)
	case WWorld:
		return fn.bindResults(pres, term, true, n, []string{fn.names[fn.world]})
	case WWorldRO:
		return fn.bindResults(pres, term, true, n, nil)
	}
	t.fail(c, "call of %s", r.key)
	return nil, nil
}

// ---------------------------------------------------------------- returned function literals

// findReturnedLit: the function literal the function returns, if any; what it captures.
func (fn *wfn) findReturnedLit() {
	t := fn.t
	var lits []*ast.FuncLit
	ast.Inspect(fn.f.fd.Body, func(n ast.Node) bool {
		if rs, ok := n.(*ast.ReturnStmt); ok {
			for _, e := range rs.Results {
				if fl, ok := ast.Unparen(e).(*ast.FuncLit); ok {
					lits = append(lits, fl)
				}
			}
		}
		return true
	})
	if len(lits) == 0 {
		return
	}
	if len(lits) > 1 {
		t.fail(lits[1], "more than one returned function literal")
	}
	fl := lits[0]
	if fl.Type.Params.NumFields() != 0 || (fl.Type.Results != nil && fl.Type.Results.NumFields() != 0) {
		t.fail(fl, "returned function literal with parameters or results")
	}
	ast.Inspect(fl.Body, func(n ast.Node) bool {
		switch x := n.(type) {
		case *ast.ReturnStmt, *ast.DeferStmt, *ast.FuncLit:
			if n != ast.Node(fl) {
				t.fail(x, "return, defer or function literal inside a returned function literal")
			}
		}
		return true
	})
	l := &wlit{lit: fl, coq: fn.f.coq + "_lit"}
	set := map[*types.Var]bool{}
	recv := fn.f.obj.Type().(*types.Signature).Recv()
	ast.Inspect(fl.Body, func(n ast.Node) bool {
		id, ok := n.(*ast.Ident)
		if !ok {
			return true
		}
		v, ok := fn.info().Uses[id].(*types.Var)
		if !ok || v.IsField() || !(v.Pos() >= fn.lo && v.Pos() < fn.hi) || (v.Pos() >= fl.Pos() && v.Pos() < fl.End()) {
			return true
		}
		if v == recv {
			if !fn.f.recvPtr {
				t.fail(id, "a returned function literal mentions the value receiver")
			}
			l.usesRecv = true
			return true
		}
		set[v] = true
		return true
	})
	for v := range set {
		l.owned = append(l.owned, v)
	}
	sort.Slice(l.owned, func(i, j int) bool { return l.owned[i].Pos() < l.owned[j].Pos() })
	// the captured locals are not used after the literal, and the literal is the last thing the
	// function does with them: it stands in a return statement
	for _, v := range l.owned {
		ast.Inspect(fn.f.fd.Body, func(n ast.Node) bool {
			if id, ok := n.(*ast.Ident); ok && fn.info().Uses[id] == types.Object(v) && id.Pos() > fl.End() {
				// a later mention is fine only on a path that does not pass the literal; keep it simple
				t.fail(id, "variable %s is captured by the returned function literal and mentioned after it", v.Name())
			}
			return true
		})
	}
	fn.f.lit = l
}

// closureValue: the value of the returned literal: Some (captured values).
func (fn *wfn) closureValue(fl *ast.FuncLit) string {
	if fn.f.lit == nil || fn.f.lit.lit != fl {
		fn.t.fail(fl, "function literal")
	}
	return "(Some " + fn.tuple(fn.f.lit.owned) + ")"
}

// literal: the definition of the returned literal.
func (fn *wfn) literal() string {
	t := fn.t
	l := fn.f.lit
	lf := &wfn{t: t, p: fn.p, f: fn.f, name: fn.f.key + " (returned literal)", sig: fn.sig, lo: fn.lo, hi: fn.hi,
		names: map[types.Object]string{}, used: map[string]bool{}, parents: fn.parents, isLit: true, litVars: l.owned}
	for o, n := range fn.names {
		lf.names[o] = n
		lf.used[n] = true
	}
	worldly, needFuel := false, false
	ast.Inspect(l.lit.Body, func(n ast.Node) bool {
		if _, ok := n.(*ast.ForStmt); ok {
			t.fail(n, "loop inside a returned function literal")
		}
		if c, ok := n.(*ast.CallExpr); ok {
			r := t.resolve(fn.p, c)
			if r.kind == wcTranslated && r.fn.worldly || r.kind == wcLib && (r.lib.Kind == WWorld || r.lib.Kind == WWorldRO) {
				worldly = true
			}
			if r.kind == wcTranslated && r.fn.needFuel {
				needFuel = true
			}
		}
		return true
	})
	var params []string
	l.needFuel = needFuel
	if needFuel {
		params = append(params, "(fuel : nat)")
	}
	if worldly {
		lf.world = fn.world
		if lf.world == nil {
			lf.world = types.NewVar(token.NoPos, fn.p.pkg, t.wname, nil)
		}
		lf.names[lf.world] = t.wname
		params = append(params, fmt.Sprintf("(%s : %s)", t.wname, t.cfg.WorldType))
	}
	if l.usesRecv {
		lf.recv = fn.sig.Recv()
		params = append(params, fmt.Sprintf("(%s : %s)", lf.names[lf.recv], lf.varType(lf.recv)))
	}
	for _, v := range l.owned {
		params = append(params, fmt.Sprintf("(%s : %s)", lf.names[v], lf.varType(v)))
	}
	body := lf.block(l.lit.Body.List, wmode{kind: wmTail}, "  ")
	var out strings.Builder
	fmt.Fprintf(&out, "(* func %s: the function literal it returns, as a function of what it captures *)\nDefinition %s %s\n  : res %s :=\n%s.\n\n",
		fn.f.key, l.coq, strings.Join(params, " "), lf.resultType(), strings.TrimRight(body, "\n"))
	return out.String()
}

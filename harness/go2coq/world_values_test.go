package go2coq_test

import (
	"fmt"
	"go/ast"
	"go/parser"
	"go/token"
	"os"
	"os/exec"
	"path/filepath"
	"strings"
	"testing"

	"verif/harness/go2coq"
	"verif/harness/go2coq/internal/synthwv"
	"verif/harness/go2coq/internal/synthwv/wv"
)

const wvPath = "verif/harness/go2coq/internal/synthwv/wv"
const synthwvPath = "verif/harness/go2coq/internal/synthwv"

const wvStub = `package wv
var ErrBad error
type Dev struct{ _ int }
func Open(name string) (*Dev, error)
func (d *Dev) Fill(buf []byte) (int, error)
func Decode(dst, src []byte) int
type Acc interface { Add(b []byte); Sum(b []byte) []byte }
func NewAcc() Acc
func Size(x any) int
func Errf(format string, a ...any) error
func Tag(format string, a ...any) int
`

func worldValuesCfg() *go2coq.WorldConfig {
	return &go2coq.WorldConfig{
		Stubs: map[string]string{wvPath: wvStub, "errors": "package errors\nfunc New(text string) error\n"},
		Lib: map[string]go2coq.WLib{
			wvPath + ".Open":                      {Coq: "w_open", Kind: go2coq.WWorld},
			"(*" + wvPath + ".Dev).Fill":          {Coq: "w_fill", Kind: go2coq.WWorld, Out: []int{1}},
			wvPath + ".Decode":                    {Coq: "w_decode", Kind: go2coq.WPure, Out: []int{1}},
			wvPath + ".NewAcc":                    {Coq: "acc_new", Kind: go2coq.WPure},
			"(" + wvPath + ".Acc).Add":            {Coq: "acc_add", Kind: go2coq.WPure, Out: []int{0}},
			"(" + wvPath + ".Acc).Sum":            {Coq: "acc_sum", Kind: go2coq.WPure, Out: []int{1}},
			wvPath + ".Size(string)":              {Coq: "len", Kind: go2coq.WPure},
			wvPath + ".Size(*" + wvPath + ".Dev)": {Coq: "w_size", Kind: go2coq.WWorld},
			wvPath + ".Errf":                      {Coq: "d_errf", Kind: go2coq.WPure, AnyArgs: true},
			wvPath + ".Tag":                       {Coq: "d_tag", Kind: go2coq.WPure, AnyArgs: true},
			synthwvPath + ".Box.clock":            {Coq: "w_clock", Kind: go2coq.WWorldRO},
		},
		Types: map[string]go2coq.WType{
			"*" + wvPath + ".Dev": {Coq: "Z", Zero: "(-7)%Z"},
			wvPath + ".Acc":       {Coq: "(Z * Z)%type"},
		},
		ExtVars:    map[string]string{wvPath + ".ErrBad": "EBAD"},
		ErrStructs: map[string][]string{synthwvPath + ".MissErr": {"Err"}},
		PkgVars:    map[string]string{synthwvPath + ".Strict": "strict", synthwvPath + ".ErrStrict": "ESTRICT"},
		WorldType:  "W",
		WorldVar:   "w",
	}
}

// the operations of wv in Coq: the world is (script, trace)
const wvCoq = `
Definition W : Type := (list Z * list Z)%type.
Definition EBAD : werr := WVal [x62].
Definition ESTRICT : werr := WVal [x73].
Definition nxt (w : W) : Z * W := match fst w with [] => (0%Z, w) | v :: r => (v, (r, snd w)) end.
Definition tr (w : W) (l : list Z) : W := (fst w, snd w ++ l).
Definition zb (z : Z) : byte := Z_byte (z mod 256).
Definition w_open (w : W) (name : bytes) : W * Z * werr :=
  let '(v, w1) := nxt w in let w2 := tr w1 [1%Z; len name; v] in
  if (v <? 0)%Z then (w2, (-7)%Z, EBAD) else (w2, 1%Z, WNil).
Definition fill_bytes (n : nat) : bytes := map (fun i => zb (97 + Z.of_nat i mod 26)) (seq 0 n).
Definition w_fill (w : W) (d : Z) (x : bytes) (lo hi : Z) : W * bytes * Z * werr :=
  let '(v, w1) := nxt w in let w2 := tr w1 [2%Z; (hi - lo)%Z; v] in
  if (v <? 0)%Z then (w2, x, 0%Z, EBAD)
  else let n := Z.min v (hi - lo) in (w2, splice x lo (lo + n) (fill_bytes (Z.to_nat n)), n, WNil).
Definition w_decode (x : bytes) (lo hi : Z) (src : bytes) : bytes * Z :=
  let n := Z.min (hi - lo) (len src) in (splice x lo (lo + n) (firstn (Z.to_nat n) src), n).
Definition acc_new : (Z * Z)%type := (0%Z, 0%Z).
Definition acc_add (a : Z * Z) (b : bytes) : (Z * Z)%type :=
  (fold_left (fun s c => (s + byte_Z c)%Z) b (fst a), (snd a + len b)%Z).
Definition acc_sum (a : Z * Z) (x : bytes) (lo hi : Z) : bytes * bytes :=
  let two := [zb (fst a); zb (snd a)] in
  let old := firstn (Z.to_nat (hi - lo)) (skipn (Z.to_nat lo) x) in
  if (hi + 2 <=? len x)%Z then (splice x hi (hi + 2) two, old ++ two) else (x, old ++ two).
Definition w_size (w : W) (d : Z) : W * Z := let '(v, w1) := nxt w in (tr w1 [3%Z; v], v).
Definition w_clock (w : W) : Z := len_of (snd w).
Fixpoint kinds (l : list wany) : list Z :=
  match l with
  | [] => []
  | WAnyV (GoAnyBytes b) :: r => 1%Z :: len b :: kinds r
  | WAnyV (GoAnyInt z) :: r => 2%Z :: z :: kinds r
  | WAnyV (GoAnyByte c) :: r => 3%Z :: byte_Z c :: kinds r
  | WAnyV (GoAnyBool b) :: r => 4%Z :: (if b then 1%Z else 0%Z) :: kinds r
  | WAnyE _ :: r => 5%Z :: 0%Z :: kinds r
  end.
Fixpoint first_e (l : list wany) : werr :=
  match l with [] => WNil | WAnyE e :: _ => e | _ :: r => first_e r end.
Definition d_errf (format : bytes) (args : list wany) : werr := WMade [x66] [format; map zb (kinds args)] (first_e args).
Definition d_tag (format : bytes) (args : list wany) : Z := fold_left Z.add (kinds args) (len format).
`

func coqErrV(e error) string {
	switch e {
	case nil:
		return "WNil"
	case wv.ErrBad:
		return "EBAD"
	case synthwv.ErrStrict:
		return "ESTRICT"
	}
	switch x := e.(type) {
	case *synthwv.MissErr:
		return fmt.Sprintf("(WMade %s [] %s)", coqBytes([]byte(synthwvPath+".MissErr")), coqErrV(x.Err))
	case *wv.FmtErr:
		var ks []byte
		for _, v := range x.Args {
			ks = append(ks, byte(((v%256)+256)%256))
		}
		return fmt.Sprintf("(WMade [x66] [%s; %s] %s)", coqBytes([]byte(x.Format)), coqBytes(ks), coqErrV(x.Inner))
	}
	return "UNKNOWN"
}

// Values in effectful code (world_values.go): byte arrays (zero value, T{}, ==, x[i] as an integer,
// slices of them as arguments), make and a buffer that a library method fills (Out), a table value
// changed by its methods (Out 0) that writes through a slice of a local array, a call of a
// function-valued field, a read-only package variable, f := func(...) ... { return ... }, a
// function with an interface parameter at two types (instance keys), variadic arguments by kind
// (AnyArgs), an error struct of the translated package, panic with a computed argument, and a
// pointer method that leaves its receiver alone called with the receiver mentioned in the
// arguments: the translation of internal/synthwv, evaluated by coqc over the Coq rendering of
// internal/synthwv/wv, agrees with the function run as Go.
func TestWorldValuesAgainstGo(t *testing.T) {
	src, err := os.ReadFile("internal/synthwv/synthwv.go")
	if err != nil {
		t.Fatal(err)
	}
	fset := token.NewFileSet()
	f, err := parser.ParseFile(fset, "synthwv.go", string(src), 0)
	if err != nil {
		t.Fatal(err)
	}
	r, err := go2coq.TranslateWorld(fset, []go2coq.WorldPkg{{Path: synthwvPath, Prefix: "s_", Files: []*ast.File{f},
		Funcs: []string{"Box.label", "Box.Probe"}}}, worldValuesCfg())
	if err != nil {
		t.Fatal(err)
	}
	var ex []string
	ids := []synthwv.ID{{}, {'b', 'c', 'd', 'e'}, {1, 2, 3, 255}}
	scripts := [][]int{{}, {-1}, {1, -1}, {1, 3}, {1, 5, 7}, {1, 6, 2}, {1, 9, -3}, {2, 6, 300, 1}}
	names := []string{"x", "", "dev"}
	for _, strict := range []bool{false, true} {
		for _, name := range names {
			for _, sc := range scripts {
				for _, id := range ids {
					for _, want := range ids[:2] {
						synthwv.Strict = strict
						wv.Script, wv.Trace = append([]int(nil), sc...), nil
						if name == "dev" {
							wv.Trace = []int{9, 9, 9, 9, 9, 9} // the clock reads the trace: makes it late
						}
						w0 := fmt.Sprintf("(%s, %s)", coqZs(wv.Script), coqZs(wv.Trace))
						box := fmt.Sprintf("(s_mk_Box %s (fun _ => 0%%Z))", coqBytes([]byte(name)))
						out := res(func() string {
							got, n, err := synthwv.NewBox(name).Probe(id, want)
							return fmt.Sprintf("((%s, %s), %s, %s, %s, %s)", coqZs(wv.Script), coqZs(wv.Trace), box, coqBytes(got[:]), coqZ(n), coqErrV(err))
						})
						ex = append(ex, fmt.Sprintf("(s_Box_Probe %s %s %s %s %s) = %s", coqB(strict), w0, box, coqBytes(id[:]), coqBytes(want[:]), out))
					}
				}
			}
		}
	}
	synthwv.Strict = false
	theories, _ := filepath.Abs("../../coq/theories")
	if th := os.Getenv("GO2COQ_THEORIES"); th != "" {
		theories = th
	}
	if _, err := os.Stat(filepath.Join(theories, "Lib", "GoSemWorldVal.vo")); err != nil {
		t.Skip("compiled Lib/GoSemWorldVal.vo not found under " + theories)
	}
	if _, err := exec.LookPath("coqc"); err != nil {
		t.Skip("coqc not found")
	}
	dir := t.TempDir()
	var b strings.Builder
	b.WriteString("From Coq Require Import List ZArith NArith Bool.\nFrom Coq.Strings Require Import Byte.\nImport ListNotations.\n")
	b.WriteString("From GI Require Import Lib.Bytes Lib.GoSem Lib.GoSemSeg Lib.GoSemWorld Lib.GoSemWorldVal.\nImport GoNotations.\nLocal Open Scope go_scope.\n")
	b.WriteString(wvCoq)
	b.WriteString("Section S.\nVariable strict : bool.\n")
	b.WriteString(r.Text)
	b.WriteString("End S.\n")
	for i, e := range ex {
		fmt.Fprintf(&b, "Example ex%d : %s.\nProof. vm_compute. reflexivity. Qed.\n", i, e)
	}
	file := filepath.Join(dir, "SynthWV.v")
	if err := os.WriteFile(file, []byte(b.String()), 0o644); err != nil {
		t.Fatal(err)
	}
	if keep := os.Getenv("GO2COQ_KEEP_WORLD_VALUES"); keep != "" {
		os.WriteFile(keep, []byte(b.String()), 0o644)
	}
	cmd := exec.Command("timeout", "300", "coqc", "-q", "-Q", theories, "GI", file)
	cmd.Dir = dir
	out, err := cmd.CombinedOutput()
	if err != nil {
		t.Fatalf("coqc: %v\n%s", err, out)
	}
	t.Logf("%d evaluations of %d translated functions agree with Go", len(ex), len(r.Funcs))
}

// What the value part of the world mode does not cover is refused, with a message naming it.
func TestWorldValuesRejects(t *testing.T) {
	head := "package synthwv\nimport \"" + wvPath + "\"\ntype ID [4]byte\ntype Box struct { name string; clock func() int; other func() int }\nvar Strict = false\nvar Loose = false\n"
	cases := []struct{ name, body, want string }{
		{"array-slice-stored", "func F(id ID) int { s := id[:]; return len(s) }", "slice of an array"},
		{"out-not-made", "func F(d *wv.Dev, buf []byte) int { n, _ := d.Fill(buf); return n }", "not made by make"},
		{"out-mentioned-between", "func F(d *wv.Dev) int { buf := make([]byte, 3); s := buf; n, _ := d.Fill(buf); return n + len(s) }", "mentioned between"},
		{"out-same-statement", "func F(d *wv.Dev) int { a := wv.NewAcc(); var o [2]byte; return len(a.Sum(o[:0])) + int(o[0]) }", "same statement"},
		{"field-func-not-in-table", "func (b *Box) F() int { return b.other() }", "function-valued field"},
		{"pkg-var-not-in-table", "func F() bool { return Loose }", "package-level variables"},
		{"closure-captures", "func F(n int) int { f := func(k int) int { return k + n }; return f(1) }", "mentions the variable"},
		{"closure-body", "func F() int { f := func(k int) int { k++; return k }; return f(1) }", "single return"},
		{"make-other", "func F() int { s := make([]int, 3); return len(s) }", "make"},
	}
	for _, c := range cases {
		fset := token.NewFileSet()
		f, err := parser.ParseFile(fset, "synthwv.go", head+c.body+"\n", 0)
		if err != nil {
			t.Fatal(err)
		}
		key := "F"
		if strings.Contains(c.body, "func (b *Box) F") {
			key = "Box.F"
		}
		_, err = go2coq.TranslateWorld(fset, []go2coq.WorldPkg{{Path: synthwvPath, Prefix: "s_", Files: []*ast.File{f}, Funcs: []string{key}}}, worldValuesCfg())
		if err == nil {
			t.Errorf("%s: accepted", c.name)
			continue
		}
		if _, ok := err.(*go2coq.Unsupported); !ok || !strings.Contains(err.Error(), c.want) {
			t.Errorf("%s: error %q does not mention %q", c.name, err, c.want)
		}
	}
}

package go2coq

// Literals of structs with a Partial table entry, inside segments.  Reached through hooks
// marked "partiallit.go"; the text generated for tables without such literals is unchanged.
//
//	x := &T{k1: e1, ..., kn: en}  (or x := T{...}) where T has a Partial entry in Config.Structs
//	(a record of the fields the table denotes): the value is the record built from the
//	elements whose key is a denoted field (a denoted field without an element has its zero
//	value).  The elements of the other fields are not part of the value; each of them must be
//	inert -- a pure expression, a function literal, make(...) without a size, or a literal of a
//	map or slice without elements -- so that leaving it out cannot hide a panic or an effect;
//	they are taken out of the tree while the segment is translated (the variables they mention
//	are not parameters of the segment).
//	Only keyed elements.  With & the literal must be the single right-hand side of the
//	definition of a local variable (x := &T{...}): the variable is a pointer to a table struct
//	and is denoted, as everywhere, by the struct's value; that the segment is the only holder
//	of the pointer while it runs is evident (it has just been made).  Only inside a Segment.

import (
	"go/ast"
	"go/token"
	"go/types"
	"strings"
)

// partialLitOf: the composite literal behind e (T{...} or &T{...}) when T is a Partial struct.
func (ft *funcTr) partialLitOf(e ast.Expr) (*ast.CompositeLit, bool) {
	if !ft.inSegment() {
		return nil, false
	}
	amp := false
	x := ast.Unparen(e)
	if u, ok := x.(*ast.UnaryExpr); ok && u.Op == token.AND {
		x, amp = ast.Unparen(u.X), true
	}
	cl, ok := x.(*ast.CompositeLit)
	if !ok {
		return nil, false
	}
	tv, ok := ft.t.info.Types[cl]
	if !ok || tv.Type == nil {
		return nil, false
	}
	n, ok := types.Unalias(tv.Type).(*types.Named)
	if !ok || n.Obj().Pkg() == nil {
		return nil, false
	}
	s, ok := ft.t.cfg.Structs[n.Obj().Pkg().Path()+"."+n.Obj().Name()]
	if !ok || !s.Partial {
		return nil, false
	}
	return cl, amp
}

// partialLitAddrOK (hook in checkAliasing, rule 3): &T{...} of a Partial struct as the single
// right-hand side of x := ...
func (ft *funcTr) partialLitAddrOK(e ast.Expr) bool {
	u, ok := e.(*ast.UnaryExpr)
	if !ok || u.Op != token.AND {
		return false
	}
	if cl, amp := ft.partialLitOf(e); cl == nil || !amp {
		return false
	}
	as, ok := ft.parents[e].(*ast.AssignStmt)
	if !ok || as.Tok != token.DEFINE || len(as.Lhs) != 1 || len(as.Rhs) != 1 || as.Rhs[0] != e {
		ft.t.fail(e, "&T{...} of a struct with a partial table entry other than as x := &T{...}")
	}
	if _, ok := as.Lhs[0].(*ast.Ident); !ok {
		ft.t.fail(e, "&T{...} of a struct with a partial table entry other than as x := &T{...}")
	}
	return true
}

// inertExpr: leaving e out cannot hide a panic or an effect.
func (ft *funcTr) inertExpr(e ast.Expr) bool {
	e = ast.Unparen(e)
	if ft.pureExpr(e) {
		return true
	}
	switch x := e.(type) {
	case *ast.FuncLit:
		return true
	case *ast.CallExpr:
		return ft.builtin(x) == "make" && len(x.Args) == 1
	case *ast.CompositeLit:
		if len(x.Elts) != 0 {
			return false
		}
		switch types.Unalias(ft.t.info.Types[x].Type).Underlying().(type) {
		case *types.Map, *types.Slice:
			return true
		}
	}
	return false
}

// partialLit translates T{...} / &T{...} of a Partial struct.
func (ft *funcTr) partialLit(e ast.Expr) ([]pre, string, bool) {
	cl, _ := ft.partialLitOf(e)
	if cl == nil {
		return nil, "", false
	}
	t := ft.t
	T := t.info.Types[cl].Type
	st, gst, ok := t.structOf(T)
	if !ok {
		return nil, "", false
	}
	vals := make([]string, len(st.Fields))
	var pres []pre
	for _, el := range cl.Elts {
		kv, ok := el.(*ast.KeyValueExpr)
		if !ok {
			t.fail(el, "element without a key in a literal of the struct %s, which has a partial table entry", T)
		}
		k, ok := kv.Key.(*ast.Ident)
		if !ok {
			t.fail(el, "struct literal key")
		}
		idx := -1
		for j, f := range st.Fields {
			if f.Go == k.Name {
				idx = j
			}
		}
		if idx < 0 {
			if !ft.inertExpr(kv.Value) {
				t.fail(kv.Value, "value of the field %s, which the table does not denote, that can panic or has an effect", k.Name)
			}
			continue
		}
		p, v := ft.expr(kv.Value, gst.Field(idx).Type())
		pres = append(pres, p...)
		vals[idx] = v
	}
	parts := []string{st.Ctor}
	for i, v := range vals {
		if v == "" {
			v = t.zero(cl, gst.Field(i).Type())
		}
		parts = append(parts, v)
	}
	return pres, "(" + strings.Join(parts, " ") + ")", true
}

// droppedElement: e is the value of an element of a literal of a Partial struct whose key is a
// field the table does not denote (it is not part of the value, see partialLit).
func (ft *funcTr) droppedElement(e ast.Expr) bool {
	kv, ok := ft.up(e).(*ast.KeyValueExpr)
	if !ok || ast.Unparen(kv.Value) != ast.Unparen(e) {
		return false
	}
	cl, ok := ft.parents[kv].(*ast.CompositeLit)
	if !ok {
		return false
	}
	if c, _ := ft.partialLitOf(cl); c == nil {
		return false
	}
	k, ok := kv.Key.(*ast.Ident)
	if !ok {
		return false
	}
	st, _, ok := ft.t.structOf(ft.t.info.Types[cl].Type)
	if !ok {
		return false
	}
	for _, f := range st.Fields {
		if f.Go == k.Name {
			return false
		}
	}
	return true
}

// pruneDropped: the elements of the Partial-struct literals under root whose key is a field the
// table does not denote are checked to be inert and taken out of the tree while the segment is
// translated.  The result puts them back.
func (ft *funcTr) pruneDropped(root ast.Node) func() {
	type saved struct {
		cl   *ast.CompositeLit
		elts []ast.Expr
	}
	var all []saved
	ast.Inspect(root, func(n ast.Node) bool {
		cl, ok := n.(*ast.CompositeLit)
		if !ok {
			return true
		}
		if c, _ := ft.partialLitOf(cl); c == nil {
			return true
		}
		var keep []ast.Expr
		for _, el := range cl.Elts {
			kv, ok := el.(*ast.KeyValueExpr)
			if ok && ft.droppedElement(kv.Value) {
				if !ft.inertExpr(kv.Value) {
					ft.t.fail(kv.Value, "value of the field %s, which the table does not denote, that can panic or has an effect", kv.Key.(*ast.Ident).Name)
				}
				segPruned = append(segPruned, [2]token.Pos{kv.Pos(), kv.End()})
				continue
			}
			keep = append(keep, el)
		}
		all = append(all, saved{cl, cl.Elts})
		cl.Elts = keep
		return true
	})
	return func() {
		for _, s := range all {
			s.cl.Elts = s.elts
		}
	}
}

package go2coq

// World mode (world.go): statements.

import (
	"fmt"
	"go/ast"
	"go/token"
	"go/types"
	"strings"
)

type wmodeKind int

const (
	wmTail  wmodeKind = iota // function level: the term has type res R
	wmOut                    // block with jumps: res (outcome S L R), ends in Ok (Normal vars)
	wmPlain                  // block without jumps: res S, ends in Ok vars
)

type wmode struct {
	kind   wmodeKind
	vars   []*types.Var
	inLoop bool
	loop   []*types.Var
}

// finish: control reaches the end of the statement list.
func (fn *wfn) finish(m wmode, ind string) string {
	switch m.kind {
	case wmTail:
		if fn.inDefer > 0 || fn.isLit {
			// the end of a deferred call (of a returned literal): the outcome as it stands
			return ind + "Ok " + fn.retVal(fn.outNames()) + "\n"
		}
		if fn.sig.Results().Len() == 0 {
			return ind + "Ok " + fn.retVal(nil) + "\n"
		}
		return ind + "unreachable\n"
	case wmOut:
		return ind + "Ok (Normal " + fn.tuple(m.vars) + ")\n"
	}
	return ind + "Ok " + fn.tuple(m.vars) + "\n"
}

// outNames: the names that hold the Go results after a defer statement's rest has run (or the
// owned captures of a returned literal).
func (fn *wfn) outNames() []string {
	var out []string
	vars := fn.outVars
	if fn.isLit {
		vars = fn.litVars
	}
	for _, v := range vars {
		out = append(out, fn.names[v])
	}
	return out
}

func (fn *wfn) block(list []ast.Stmt, m wmode, ind string) string {
	t := fn.t
	if len(list) == 0 {
		return fn.finish(m, ind)
	}
	s, rest := list[0], list[1:]
	if !wfallsThrough([]ast.Stmt{s}) && len(rest) > 0 {
		switch s.(type) {
		case *ast.IfStmt, *ast.SwitchStmt:
		default:
			t.fail(rest[0], "unreachable code")
		}
	}
	switch s := s.(type) {
	case *ast.BlockStmt:
		return fn.block(append(append([]ast.Stmt{}, s.List...), rest...), m, ind)
	case *ast.EmptyStmt:
		return fn.block(rest, m, ind)
	case *ast.ReturnStmt:
		return fn.returnStmt(s, m, ind)
	case *ast.BranchStmt:
		if s.Label != nil || (s.Tok != token.BREAK && s.Tok != token.CONTINUE) {
			t.fail(s, "%s statement (goto, fallthrough and labels are not supported)", s.Tok)
		}
		if m.kind != wmOut || !m.inLoop {
			t.fail(s, "%s outside a loop body", s.Tok)
		}
		c := "Break"
		if s.Tok == token.CONTINUE {
			c = "Continue"
		}
		return ind + "Ok (" + c + " " + fn.tuple(m.loop) + ")\n"
	case *ast.IfStmt:
		var b strings.Builder
		if s.Init != nil {
			b.WriteString(fn.simple(s.Init, ind))
		}
		pres, c := fn.expr(s.Cond, nil)
		b.WriteString(wbinds(pres, ind))
		var elseL []ast.Stmt
		if s.Else != nil {
			elseL = []ast.Stmt{s.Else}
		}
		b.WriteString(fn.cond(s, c, s.Body.List, elseL, rest, m, ind))
		return b.String()
	case *ast.SwitchStmt:
		return fn.switchStmt(s, rest, m, ind)
	case *ast.ForStmt:
		return fn.forStmt(s, rest, m, ind)
	case *ast.RangeStmt:
		return fn.rangeStmt(s, rest, m, ind) // world_data.go
	case *ast.DeferStmt:
		return fn.deferStmt(s, rest, m, ind)
	case *ast.AssignStmt, *ast.DeclStmt, *ast.IncDecStmt, *ast.ExprStmt:
		if wisPanic(s) {
			return fn.panicStmt(s, ind)
		}
		return fn.simple(s, ind) + fn.block(rest, m, ind)
	}
	t.fail(s, "statement of kind %T", s)
	return ""
}

func wisPanic(s ast.Stmt) bool {
	es, ok := s.(*ast.ExprStmt)
	if !ok {
		return false
	}
	c, ok := ast.Unparen(es.X).(*ast.CallExpr)
	if !ok {
		return false
	}
	id, ok := ast.Unparen(c.Fun).(*ast.Ident)
	return ok && id.Name == "panic"
}

func (fn *wfn) panicStmt(s ast.Stmt, ind string) string {
	c := ast.Unparen(s.(*ast.ExprStmt).X).(*ast.CallExpr)
	if r := fn.t.resolve(fn.p, c); r.kind != wcBuiltin || r.builtin != "panic" || len(c.Args) != 1 {
		fn.t.fail(s, "call of a function named panic that is not the built-in")
	}
	if tv, ok := fn.info().Types[c.Args[0]]; !ok || tv.Value == nil {
		return fn.panicValue(c, ind) // world_values.go
	}
	return ind + "Panic\n"
}

// wfallsThrough: control can reach the end of the statement list.
func wfallsThrough(list []ast.Stmt) bool {
	if len(list) == 0 {
		return true
	}
	switch s := list[len(list)-1].(type) {
	case *ast.ReturnStmt, *ast.BranchStmt:
		return false
	case *ast.ExprStmt:
		return !wisPanic(s)
	case *ast.BlockStmt:
		return wfallsThrough(s.List)
	case *ast.IfStmt:
		if s.Else == nil {
			return true
		}
		return wfallsThrough(s.Body.List) || wfallsThrough([]ast.Stmt{s.Else})
	case *ast.SwitchStmt:
		hasDefault := false
		for _, st := range s.Body.List {
			cc := st.(*ast.CaseClause)
			if cc.List == nil {
				hasDefault = true
			}
			if wfallsThrough(cc.Body) {
				return true
			}
		}
		return !hasDefault
	case *ast.ForStmt:
		return s.Cond != nil || hasBreak(s.Body)
	}
	return true
}

// whasJump: the statements contain return, break, continue or a loop.
func whasJump(lists ...[]ast.Stmt) bool {
	found := false
	for _, l := range lists {
		for _, n := range l {
			ast.Inspect(n, func(n ast.Node) bool {
				switch n.(type) {
				case *ast.ReturnStmt, *ast.BranchStmt, *ast.ForStmt, *ast.RangeStmt:
					found = true
				case *ast.FuncLit:
					return false
				}
				return !found
			})
		}
	}
	return found
}

func stmtNodes(lists ...[]ast.Stmt) []ast.Node {
	var out []ast.Node
	for _, l := range lists {
		for _, s := range l {
			out = append(out, s)
		}
	}
	return out
}

// cond: if c { thenL } else { elseL }; rest   (c already translated).
func (fn *wfn) cond(at ast.Node, c string, thenL, elseL, rest []ast.Stmt, m wmode, ind string) string {
	var b strings.Builder
	thenF, elseF := wfallsThrough(thenL), wfallsThrough(elseL)
	in := ind + "  "
	switch {
	case !thenF && !elseF:
		if len(rest) > 0 {
			fn.t.fail(rest[0], "unreachable code")
		}
		fmt.Fprintf(&b, "%sif %s then\n%s%selse\n%s", ind, c, fn.block(thenL, m, in), ind, fn.block(elseL, m, in))
		return b.String()
	case !thenF:
		fmt.Fprintf(&b, "%sif %s then\n%s%selse\n%s", ind, c, fn.block(thenL, m, in), ind,
			fn.block(append(append([]ast.Stmt{}, elseL...), rest...), m, ind))
		return b.String()
	case !elseF:
		fmt.Fprintf(&b, "%sif %s then\n%s%selse\n%s", ind, c,
			fn.block(append(append([]ast.Stmt{}, thenL...), rest...), m, in), ind, fn.block(elseL, m, in))
		return b.String()
	}
	vars := fn.assigned(at.Pos(), at.End(), stmtNodes(thenL, elseL)...)
	if !whasJump(thenL, elseL) {
		inner := wmode{kind: wmPlain, vars: vars}
		fmt.Fprintf(&b, "%s%s <- (if %s then\n%s%selse\n%s%s) ;;\n", ind, fn.pattern(vars), c,
			fn.block(thenL, inner, in), ind, fn.block(elseL, inner, in), ind)
		b.WriteString(fn.block(rest, m, ind))
		return b.String()
	}
	inner := wmode{kind: wmOut, vars: vars, inLoop: m.inLoop, loop: m.loop}
	comb := "bindO"
	switch m.kind {
	case wmTail:
		comb = "bindT"
	case wmPlain:
		fn.t.fail(at, "internal: jump inside a jump-free block")
	}
	fmt.Fprintf(&b, "%s%s (if %s then\n%s%selse\n%s%s) (fun %s =>\n", ind, comb, c,
		fn.block(thenL, inner, in), ind, fn.block(elseL, inner, in), ind, fn.pattern(vars))
	b.WriteString(strings.TrimRight(fn.block(rest, m, ind), "\n") + ")\n")
	return b.String()
}

// switchStmt: switch init; tag { case a, b: A  case c: C  default: D }: the tag is evaluated
// once; the case expressions must be pure (constants, variables); cases are tried in order,
// default last wherever it stands; no fallthrough, no break out of the switch.
func (fn *wfn) switchStmt(s *ast.SwitchStmt, rest []ast.Stmt, m wmode, ind string) string {
	t := fn.t
	var b strings.Builder
	if s.Init != nil {
		b.WriteString(fn.simple(s.Init, ind))
	}
	ast.Inspect(s.Body, func(n ast.Node) bool {
		switch x := n.(type) {
		case *ast.ForStmt, *ast.FuncLit:
			return false
		case *ast.BranchStmt:
			if x.Tok == token.BREAK || x.Tok == token.FALLTHROUGH {
				t.fail(x, "%s inside a switch", x.Tok)
			}
		}
		return true
	})
	tag := ""
	var tagT types.Type
	if s.Tag != nil {
		tagT = fn.info().Types[s.Tag].Type
		if bt, ok := tagT.(*types.Basic); ok && bt.Info()&types.IsUntyped != 0 {
			tagT = types.Default(tagT)
		}
		pres, v := fn.expr(s.Tag, nil)
		b.WriteString(wbinds(pres, ind))
		tag = fn.temp()
		fmt.Fprintf(&b, "%slet %s := %s in\n", ind, tag, v)
	}
	type clause struct {
		cond string
		body []ast.Stmt
		at   ast.Node
	}
	var clauses []clause
	var deflt []ast.Stmt
	hasDefault := false
	for _, st := range s.Body.List {
		cc := st.(*ast.CaseClause)
		if cc.List == nil {
			deflt, hasDefault = cc.Body, true
			continue
		}
		var conds []string
		for _, e := range cc.List {
			pres, v := fn.expr(e, tagT)
			if len(pres) > 0 {
				t.fail(e, "case expression that can panic or has an effect")
			}
			if s.Tag != nil {
				v = fn.eqTerm(e, tagT, tag, v)
			}
			conds = append(conds, v)
		}
		c := conds[0]
		if len(conds) > 1 {
			c = "(" + strings.Join(conds, " || ") + ")"
		}
		clauses = append(clauses, clause{c, cc.Body, cc})
	}
	var els ast.Stmt
	if hasDefault {
		els = &ast.BlockStmt{Lbrace: s.Body.Lbrace, List: deflt, Rbrace: s.Body.Rbrace}
	}
	for i := len(clauses) - 1; i >= 0; i-- {
		id := &ast.Ident{NamePos: clauses[i].at.Pos(), Name: "_switch_case_"}
		fn.setPreCond(id, clauses[i].cond)
		ifs := &ast.IfStmt{If: clauses[i].at.Pos(), Cond: id,
			Body: &ast.BlockStmt{Lbrace: clauses[i].at.Pos(), List: clauses[i].body, Rbrace: s.Body.Rbrace}}
		if els != nil {
			ifs.Else = els
		}
		els = ifs
	}
	var list []ast.Stmt
	if els != nil {
		list = append(list, els)
	}
	b.WriteString(fn.block(append(list, rest...), m, ind))
	return b.String()
}

func (fn *wfn) setPreCond(id *ast.Ident, term string) {
	if fn.preCond == nil {
		fn.preCond = map[*ast.Ident]string{}
	}
	fn.preCond[id] = term
}

func (fn *wfn) forStmt(s *ast.ForStmt, rest []ast.Stmt, m wmode, ind string) string {
	var b strings.Builder
	if s.Init != nil {
		b.WriteString(fn.simple(s.Init, ind))
	}
	fn.nloop++
	name := fmt.Sprintf("%s_loop%d", fn.f.coq, fn.nloop)
	lo, hi := s.Body.Pos(), s.Body.End()
	var postN, condN ast.Node
	if s.Post != nil {
		postN = s.Post
	}
	if s.Cond != nil {
		condN = s.Cond
	}
	vars := fn.assigned(lo, hi, s.Body, postN, condN)
	ro := minus(fn.free(lo, hi, condN, s.Body, postN), vars)
	S := fn.tupleType(vars)
	in := "    "
	var f strings.Builder
	fmt.Fprintf(&f, "(* func %s: for-loop %d *)\n", fn.name, fn.nloop)
	fmt.Fprintf(&f, "Fixpoint %s {L : Type} %s {struct n}\n  : res (outcome %s L %s) :=\n", name,
		join("(fuel n : nat)", fn.binders(ro), fn.binders(vars)), S, fn.resultType())
	f.WriteString("  match n with\n  | O => OutOfFuel\n  | S n' =>\n")
	bodyMode := wmode{kind: wmOut, vars: vars, inLoop: true, loop: vars}
	body := fn.block(s.Body.List, bodyMode, in+"    ")
	var post string
	if s.Post != nil {
		post = fn.simple(s.Post, in+"  ")
	}
	iter := fmt.Sprintf("%s  bindL (\n%s%s  ) (fun %s =>\n%s%s  %s)\n", in, body, in, fn.pattern(vars), post, in,
		join(name, "fuel n'", fn.args(ro), fn.args(vars)))
	if s.Cond != nil {
		pres, c := fn.expr(s.Cond, nil)
		f.WriteString(wbinds(pres, in))
		fmt.Fprintf(&f, "%sif %s then\n%s%selse\n%s  Ok (Normal %s)\n", in, c, iter, in, in, fn.tuple(vars))
	} else {
		f.WriteString(iter)
	}
	f.WriteString("  end.\n\n")
	fn.loops = append(fn.loops, f.String())
	comb := "bindO"
	switch m.kind {
	case wmTail:
		comb = "bindT"
	case wmPlain:
		fn.t.fail(s, "internal: loop inside a jump-free block")
	}
	fmt.Fprintf(&b, "%s%s (%s) (fun %s =>\n%s)\n", ind, comb, join(name, "fuel fuel", fn.args(ro), fn.args(vars)), fn.pattern(vars),
		strings.TrimRight(fn.block(rest, m, ind), "\n"))
	return b.String()
}

func (fn *wfn) returnStmt(s *ast.ReturnStmt, m wmode, ind string) string {
	t := fn.t
	if fn.inDefer > 0 || fn.isLit {
		t.fail(s, "return inside a deferred function literal or a returned function literal")
	}
	var pres []wpre
	var vals []string
	res := fn.sig.Results()
	switch {
	case len(s.Results) == 0 && res.Len() == 0:
	case len(s.Results) == 0:
		if fn.results == nil {
			t.fail(s, "bare return without named results")
		}
		for _, r := range fn.results {
			vals = append(vals, fn.names[r])
		}
	case len(s.Results) == res.Len():
		for i, e := range s.Results {
			var p []wpre
			var v string
			if fl, ok := ast.Unparen(e).(*ast.FuncLit); ok {
				v = fn.closureValue(fl)
			} else if fn.t.kindOf(res.At(i).Type()) == wkFunc {
				if !fn.isNilExpr(e) {
					t.fail(e, "a func result that is neither nil nor a function literal")
				}
				v = "None"
			} else {
				p, v = fn.expr(e, res.At(i).Type())
			}
			pres = append(pres, p...)
			vals = append(vals, v)
		}
	case len(s.Results) == 1:
		// return f(x) with several results
		c, ok := ast.Unparen(s.Results[0]).(*ast.CallExpr)
		if !ok {
			t.fail(s, "return with a wrong number of results")
		}
		p, vs := fn.callValues(c)
		pres, vals = p, vs
	default:
		t.fail(s, "return with a wrong number of results")
	}
	val := fn.retVal(vals)
	switch m.kind {
	case wmTail:
		return wbinds(pres, ind) + ind + "Ok " + val + "\n"
	case wmOut:
		return wbinds(pres, ind) + ind + "Ok (Return " + val + ")\n"
	}
	t.fail(s, "internal: return in a jump-free block")
	return ""
}

// deferStmt: defer call; rest  -- at the top level of the function body only.
func (fn *wfn) deferStmt(s *ast.DeferStmt, rest []ast.Stmt, m wmode, ind string) string {
	t := fn.t
	if m.kind != wmTail || fn.inDefer > 0 || fn.isLit {
		t.fail(s, "defer other than at the top level of a function body")
	}
	if blk, ok := fn.parents[s].(*ast.BlockStmt); !ok || blk != fn.f.fd.Body {
		t.fail(s, "defer other than at the top level of a function body")
	}
	// the deferred statements
	var dstmts []ast.Stmt
	if fl, ok := ast.Unparen(s.Call.Fun).(*ast.FuncLit); ok {
		if len(s.Call.Args) != 0 || fl.Type.Params.NumFields() != 0 || (fl.Type.Results != nil && fl.Type.Results.NumFields() != 0) {
			t.fail(s, "deferred function literal with parameters or results")
		}
		ast.Inspect(fl.Body, func(n ast.Node) bool {
			switch x := n.(type) {
			case *ast.ReturnStmt, *ast.DeferStmt:
				t.fail(x, "return or defer inside a deferred function literal")
			case *ast.CallExpr:
				if r := t.resolve(fn.p, x); r.kind == wcBuiltin && r.builtin == "recover" {
					t.fail(x, "recover")
				}
			}
			return true
		})
		dstmts = fl.Body.List
	} else {
		// defer x.m(args): the arguments are evaluated at the defer statement: constants or
		// variables that are not assigned afterwards (checked below with the other mentions)
		for _, a := range s.Call.Args {
			if pres, _ := fn.expr(a, nil); len(pres) > 0 {
				t.fail(a, "argument of a deferred call that can panic or has an effect")
			}
		}
		dstmts = []ast.Stmt{&ast.ExprStmt{X: s.Call}}
	}
	// variables the deferred call mentions are not assigned in the rest
	restN := stmtNodes(rest)
	asg := map[*types.Var]bool{}
	for _, v := range fn.assigned(token.NoPos, token.NoPos, restN...) {
		asg[v] = true
	}
	named := map[*types.Var]bool{}
	for _, r := range fn.results {
		named[r] = true
	}
	for _, v := range fn.free(token.NoPos, token.NoPos, s.Call) {
		if v == fn.world || v == fn.recv || named[v] {
			continue
		}
		if v.Pos() >= s.Pos() && v.Pos() < s.End() {
			continue // declared inside the deferred literal
		}
		if asg[v] {
			t.fail(s, "variable %s is mentioned by the deferred call and assigned after the defer statement", v.Name())
		}
	}
	// the outcome of the rest: named results are the variables themselves
	var out []*types.Var
	res := fn.sig.Results()
	if fn.results != nil {
		out = fn.results
	} else {
		for i := 0; i < res.Len(); i++ {
			v := types.NewVar(s.Pos(), fn.p.pkg, fmt.Sprintf("r%d", i+1), res.At(i).Type())
			fn.names[v] = fn.temp()
			out = append(out, v)
		}
	}
	var b strings.Builder
	in := ind + "  "
	var pats []string
	if fn.world != nil {
		pats = append(pats, fn.names[fn.world])
	}
	if fn.recv != nil {
		pats = append(pats, fn.names[fn.recv])
	}
	for _, v := range out {
		pats = append(pats, fn.names[v])
	}
	pat := "_"
	switch len(pats) {
	case 0:
	case 1:
		pat = pats[0]
	default:
		pat = "'(" + strings.Join(pats, ", ") + ")"
	}
	fmt.Fprintf(&b, "%s%s <- (\n%s%s) ;;\n", ind, pat, fn.block(rest, wmode{kind: wmTail}, in), ind)
	saved := fn.outVars
	fn.outVars = out
	fn.inDefer++
	b.WriteString(fn.block(dstmts, wmode{kind: wmTail}, ind))
	fn.inDefer--
	fn.outVars = saved
	return b.String()
}

// ---------------------------------------------------------------- simple statements

func (fn *wfn) simple(s ast.Stmt, ind string) string {
	t := fn.t
	switch s := s.(type) {
	case *ast.ExprStmt:
		c, ok := ast.Unparen(s.X).(*ast.CallExpr)
		if !ok {
			t.fail(s, "expression statement that is not a call")
		}
		r := t.resolve(fn.p, c)
		if r.kind == wcLib && r.lib.Kind == WDrop {
			return fmt.Sprintf("%s(* %s(...): no effect on the denoted state (table) *)\n", ind, strings.ReplaceAll(strings.ReplaceAll(r.key, "(*", "( *"), "*)", "* )"))
		}
		pres, _ := fn.callValues(c)
		return wbinds(pres, ind)
	case *ast.IncDecStmt:
		op := token.ADD
		if s.Tok == token.DEC {
			op = token.SUB
		}
		T := fn.info().Types[s.X].Type
		pl, cur := fn.expr(s.X, nil)
		return wbinds(pl, ind) + fn.store(s, s.X, fn.arith(s, op, T, cur, "1%Z"), ind)
	case *ast.DeclStmt:
		gd, ok := s.Decl.(*ast.GenDecl)
		if ok && gd.Tok == token.CONST {
			return ""
		}
		if !ok || gd.Tok != token.VAR {
			t.fail(s, "local declaration other than var")
		}
		var b strings.Builder
		for _, sp := range gd.Specs {
			vs := sp.(*ast.ValueSpec)
			if len(vs.Values) == 0 {
				for _, id := range vs.Names {
					if id.Name == "_" {
						continue
					}
					v := fn.info().Defs[id].(*types.Var)
					fmt.Fprintf(&b, "%slet %s : %s := %s in\n", ind, fn.names[v], t.coqType(id, v.Type()), t.zero(id, v.Type()))
				}
				continue
			}
			lhs := make([]ast.Expr, len(vs.Names))
			for i, id := range vs.Names {
				lhs[i] = id
			}
			b.WriteString(fn.assign(s, lhs, vs.Values, ind))
		}
		return b.String()
	case *ast.AssignStmt:
		switch s.Tok {
		case token.ASSIGN, token.DEFINE:
			return fn.assign(s, s.Lhs, s.Rhs, ind)
		case token.ADD_ASSIGN, token.SUB_ASSIGN, token.AND_ASSIGN, token.OR_ASSIGN, token.AND_NOT_ASSIGN:
			op := map[token.Token]token.Token{token.ADD_ASSIGN: token.ADD, token.SUB_ASSIGN: token.SUB, token.AND_ASSIGN: token.AND,
				token.OR_ASSIGN: token.OR, token.AND_NOT_ASSIGN: token.AND_NOT}[s.Tok]
			T := fn.info().Types[s.Lhs[0]].Type
			pl, cur := fn.expr(s.Lhs[0], nil)
			pr, rhs := fn.expr(s.Rhs[0], T)
			return wbinds(append(pl, pr...), ind) + fn.store(s, s.Lhs[0], fn.arith(s, op, T, cur, rhs), ind)
		}
		t.fail(s, "assignment operator %s", s.Tok)
	}
	t.fail(s, "statement of kind %T in this position", s)
	return ""
}

func (fn *wfn) lhsType(e ast.Expr) types.Type {
	if id, ok := ast.Unparen(e).(*ast.Ident); ok {
		if id.Name == "_" {
			return nil
		}
		if o := fn.info().Defs[id]; o != nil {
			return o.Type()
		}
		if o := fn.info().Uses[id]; o != nil {
			return o.Type()
		}
	}
	if tv, ok := fn.info().Types[e]; ok {
		return tv.Type
	}
	return nil
}

func (fn *wfn) assign(n ast.Node, lhs, rhs []ast.Expr, ind string) string {
	t := fn.t
	var b strings.Builder
	if len(lhs) == len(rhs) {
		var pres []wpre
		var vals []string
		for i, r := range rhs {
			p, v := fn.expr(r, fn.lhsType(lhs[i]))
			pres = append(pres, p...)
			vals = append(vals, v)
		}
		b.WriteString(wbinds(pres, ind))
		if len(lhs) == 1 {
			b.WriteString(fn.store(n, lhs[0], vals[0], ind))
			return b.String()
		}
		var tmps []string
		for range lhs {
			tmps = append(tmps, fn.temp())
		}
		fmt.Fprintf(&b, "%slet '(%s) := (%s) in\n", ind, strings.Join(tmps, ", "), strings.Join(vals, ", "))
		for i, l := range lhs {
			b.WriteString(fn.store(n, l, tmps[i], ind))
		}
		return b.String()
	}
	if len(rhs) != 1 {
		t.fail(n, "assignment with %d left and %d right operands", len(lhs), len(rhs))
	}
	c, ok := ast.Unparen(rhs[0]).(*ast.CallExpr)
	if !ok {
		t.fail(n, "tuple assignment from something other than a call")
	}
	pres, vals := fn.callValues(c)
	if len(vals) != len(lhs) {
		t.fail(n, "assignment of %d results to %d targets", len(vals), len(lhs))
	}
	b.WriteString(wbinds(pres, ind))
	for i, l := range lhs {
		b.WriteString(fn.store(n, l, vals[i], ind))
	}
	return b.String()
}

// fieldPath: the root variable of x.f.g and the field indices from its struct down.
func (fn *wfn) fieldPath(e ast.Expr) (*ast.Ident, []int) {
	switch x := ast.Unparen(e).(type) {
	case *ast.Ident:
		return x, nil
	case *ast.SelectorExpr:
		sel := fn.info().Selections[x]
		if sel == nil || sel.Kind() != types.FieldVal {
			fn.t.fail(e, "assignment to something that is not a field")
		}
		root, path := fn.fieldPath(x.X)
		return root, append(path, sel.Index()...)
	}
	fn.t.fail(e, "assignment to this kind of expression")
	return nil, nil
}

// updateTerm: the record base (of struct s) with the field at path replaced by val.
func (fn *wfn) updateTerm(n ast.Node, base string, s *wstruct, path []int, val string) string {
	parts := []string{s.ctor}
	for i := range s.getter {
		cur := "(" + s.getter[i] + " " + base + ")"
		if i != path[0] {
			parts = append(parts, cur)
			continue
		}
		if len(path) == 1 {
			parts = append(parts, val)
			continue
		}
		inner := fn.t.structOf(s.st.Field(i).Type())
		if inner == nil {
			fn.t.fail(n, "assignment through the field %s, which is not a struct of a translated package", s.st.Field(i).Name())
		}
		parts = append(parts, fn.updateTerm(n, cur, fn.t.wstructOf(n, inner), path[1:], val))
	}
	return "(" + strings.Join(parts, " ") + ")"
}

// store: lines that make the assignable expression lhs hold the term val.
func (fn *wfn) store(n ast.Node, lhs ast.Expr, val string, ind string) string {
	return wbinds(fn.storePres(n, lhs, val), ind)
}

func (fn *wfn) storePres(n ast.Node, lhs ast.Expr, val string) []wpre {
	t := fn.t
	root, path := fn.fieldPath(lhs)
	if root.Name == "_" {
		return nil
	}
	v := fn.rootVar(root)
	if len(path) == 0 {
		return []wpre{{pat: fn.names[v] + " : " + fn.varTypeOrFunc(v), term: val, let: true}}
	}
	switch {
	case v == fn.recv:
		s := t.wstructOf(n, t.structOf(types.Unalias(v.Type()).(*types.Pointer).Elem()))
		return []wpre{{pat: fn.names[v] + " : " + s.coq, term: fn.updateTerm(n, fn.names[v], s, path, val), let: true}}
	case t.kindOf(v.Type()) == wkPtr:
		s := t.wstructOf(n, t.structOf(types.Unalias(v.Type()).Underlying().(*types.Pointer).Elem()))
		tmp := fn.temp()
		return []wpre{{pat: tmp, term: "go_deref " + fn.names[v]},
			{pat: fn.names[v] + " : option " + s.coq, term: "Some " + fn.updateTerm(n, tmp, s, path, val), let: true}}
	case t.kindOf(v.Type()) == wkStruct:
		s := t.wstructOf(n, t.structOf(v.Type()))
		return []wpre{{pat: fn.names[v] + " : " + s.coq, term: fn.updateTerm(n, fn.names[v], s, path, val), let: true}}
	}
	t.fail(lhs, "assignment to a field of a value of type %s", v.Type())
	return nil
}

func (fn *wfn) varTypeOrFunc(v *types.Var) string {
	if fn.t.kindOf(v.Type()) == wkFunc {
		for _, r := range fn.results {
			if r == v {
				return fn.resultCoqType(v.Type())
			}
		}
	}
	return fn.varType(v)
}

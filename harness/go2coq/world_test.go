package go2coq_test

import (
	"fmt"
	"go/ast"
	"go/parser"
	"go/token"
	"os"
	"os/exec"
	"path/filepath"
	"strings"
	"testing"

	"verif/harness/go2coq"
	"verif/harness/go2coq/internal/synthw"
	"verif/harness/go2coq/internal/synthw/wos"
)

const wosPath = "verif/harness/go2coq/internal/synthw/wos"
const synthwPath = "verif/harness/go2coq/internal/synthw"

const wosStub = `package wos
var ErrAgain error
var ErrBad error
type OpErr struct { Op string; Err error }
func (e *OpErr) Error() string
type Dev struct{ _ int }
func Open(name string, mode int) (*Dev, error)
func (d *Dev) Put(b []byte) (int, error)
func (d *Dev) Get() ([]byte, error)
func (d *Dev) Shut() error
func (d *Dev) Kind() (int, error)
func (d *Dev) Name() string
type Putter interface { Put(b []byte) (int, error) }
func Drain(p Putter, b []byte) (int, error)
func Note(x any, f any)
type Gate struct{ _ int }
func (g *Gate) Enter()
func (g *Gate) Leave()
`

func worldCfg() *go2coq.WorldConfig {
	return &go2coq.WorldConfig{
		Stubs: map[string]string{wosPath: wosStub},
		Lib: map[string]go2coq.WLib{
			wosPath + ".Open":               {Coq: "w_open", Kind: go2coq.WWorld},
			"(*" + wosPath + ".Dev).Put":    {Coq: "w_put", Kind: go2coq.WWorld},
			"(*" + wosPath + ".Dev).Get":    {Coq: "w_get", Kind: go2coq.WWorld},
			"(*" + wosPath + ".Dev).Shut":   {Coq: "w_shut", Kind: go2coq.WWorld},
			"(*" + wosPath + ".Dev).Kind":   {Coq: "w_kind", Kind: go2coq.WWorldRO},
			wosPath + ".Drain":              {Coq: "w_drain", Kind: go2coq.WWorld},
			wosPath + ".Note":               {Kind: go2coq.WDrop},
			"(*" + wosPath + ".Gate).Enter": {Coq: "g_enter", Kind: go2coq.WUpdate},
			"(*" + wosPath + ".Gate).Leave": {Coq: "g_leave", Kind: go2coq.WUpdate},
		},
		Types: map[string]go2coq.WType{
			"*" + wosPath + ".Dev": {Coq: "Z", Zero: "(-7)%Z"},
			wosPath + ".Gate":      {Coq: "Z", Zero: "0%Z"},
		},
		ExtVars:    map[string]string{wosPath + ".ErrAgain": "EAGAIN", wosPath + ".ErrBad": "EBAD"},
		ErrStructs: map[string][]string{wosPath + ".OpErr": {"Op", "Err"}},
		IntConv:    []string{"int->int16"},
		WorldType:  "W",
		WorldVar:   "w",
	}
}

func translateWorld(t *testing.T, src string, cfg *go2coq.WorldConfig, funcs ...string) (*go2coq.Result, error) {
	fset := token.NewFileSet()
	f, err := parser.ParseFile(fset, "synthw.go", src, parser.ParseComments)
	if err != nil {
		t.Fatal(err)
	}
	return go2coq.TranslateWorld(fset, []go2coq.WorldPkg{{Path: synthwPath, Prefix: "s_", Files: []*ast.File{f}, Funcs: funcs}}, cfg)
}

// the operations of wos in Coq: the world is (script, trace)
const wosCoq = `
Definition W : Type := (list Z * list Z)%type.
Definition EAGAIN : werr := WVal [x61].
Definition EBAD : werr := WVal [x62].
Definition nxt (w : W) : Z * W := match fst w with [] => (0%Z, w) | v :: r => (v, (r, snd w)) end.
Definition err_of (v : Z) : werr := if (v =? -1)%Z then EAGAIN else if (v <? 0)%Z then EBAD else WNil.
Definition tr (w : W) (l : list Z) : W := (fst w, snd w ++ l).
Definition w_open (w : W) (name : bytes) (mode : Z) : W * Z * werr :=
  let '(v, w1) := nxt w in let w2 := tr w1 [1%Z; len name; mode; v] in
  if (v <? 0)%Z then (w2, (-7)%Z, err_of v) else (w2, v, WNil).
Definition w_put (w : W) (d : Z) (b : bytes) : W * Z * werr :=
  let '(v, w1) := nxt w in let w2 := tr w1 [2%Z; d; len b; v] in
  if (v <? 0)%Z then (w2, 0%Z, err_of v) else if (v <? len b)%Z then (w2, v, EBAD) else (w2, len b, WNil).
Definition w_get (w : W) (d : Z) : W * bytes * werr :=
  let '(v, w1) := nxt w in let w2 := tr w1 [3%Z; d; v] in
  if (v <? 0)%Z then (w2, [], err_of v) else (w2, repeat x78 (Z.to_nat v), WNil).
Definition w_shut (w : W) (d : Z) : W * werr :=
  let '(v, w1) := nxt w in (tr w1 [4%Z; d; v], err_of v).
Definition w_kind (w : W) (d : Z) : Z * werr :=
  match fst w with [] => (0%Z, WNil) | v :: _ => (v, err_of v) end.
Fixpoint drain (n : nat) (w : W) (d : Z) (b : bytes) (acc : Z) : W * Z * werr :=
  match n with
  | O => (w, acc, WNil)
  | S n' =>
      match b with
      | [] => (w, acc, WNil)
      | _ => let '(w', m, e) := w_put w d (firstn 2 b) in
             if werr_is_nil e then drain n' w' d (skipn 2 b) (acc + m)%Z else (w', (acc + m)%Z, e)
      end
  end.
Definition w_drain (w : W) (d : Z) (b : bytes) : W * Z * werr := drain (S (length b)) w d b 0%Z.
Definition g_enter (g : Z) : res Z := if (g >? 2)%Z then Panic else Ok (g + 1)%Z.
Definition g_leave (g : Z) : res Z := if (g =? 0)%Z then Panic else Ok (g - 1)%Z.
`

func coqErr(e error) string {
	switch e {
	case nil:
		return "WNil"
	case wos.ErrAgain:
		return "EAGAIN"
	case wos.ErrBad:
		return "EBAD"
	}
	if oe, ok := e.(*wos.OpErr); ok {
		return fmt.Sprintf("(WMade %s [%s] %s)", coqBytes([]byte(wosPath+".OpErr")), coqBytes([]byte(oe.Op)), coqErr(oe.Err))
	}
	return "UNKNOWN"
}

func coqWorld() string { return fmt.Sprintf("(%s, %s)", coqZs(wos.Script), coqZs(wos.Trace)) }

// Effectful code over an abstract world: loops that retry, defer (a method call, a literal that
// reads and assigns named results), returns before and after a defer statement, pointer receivers
// passed by state, embedded structs and promoted methods, a pointer passed as an interface, a
// query, a dropped call, a function parameter, a returned literal that owns one variable and
// borrows the receiver: the translation of internal/synthw, evaluated by coqc over the Coq
// rendering of internal/synthw/wos, agrees with the functions run as Go.
func TestWorldAgainstGo(t *testing.T) {
	src, err := os.ReadFile("internal/synthw/synthw.go")
	if err != nil {
		t.Fatal(err)
	}
	r, err := translateWorld(t, string(src), worldCfg(), "mode.String", "open", "Dial", "Conn.Close", "Fetch", "Store", "Update", "Keeper.Hold")
	if err != nil {
		t.Fatal(err)
	}
	var ex []string
	add := func(call, want string) { ex = append(ex, fmt.Sprintf("(%s) = %s", call, want)) }
	scripts := [][]int{{}, {3, 0, 0, 0, 0, 0}, {-1, -1, 4, 2, 0, 9, 9}, {-2}, {-1, -2}, {1, -2, 0}, {1, 3, -2}, {2, 5, 0, -2}, {2, 1, 1, -2, 0, 0, 0},
		{5, 4, 9, -3, 9, 9}, {5, 4, 9, 9, -3, 9}, {0, 2, 0, 0, 0, 0, 0}, {0, 2, -3, 0, 0}, {7, 1, 2, 2, 1, 0}, {7, 0, 0, 0, -4}, {1, -1, 6, 0}, {1, -2, 9, 0}, {1, -2, 2, 0}}
	run := func(script []int, f func() string) (string, string) {
		wos.Script, wos.Trace = append([]int(nil), script...), nil
		out := res(func() string { v := f(); return "(" + coqWorld() + v + ")" })
		return fmt.Sprintf("(%s, [])", coqZs(script)), out
	}
	grow := func(b []byte) ([]byte, error) { return append(append([]byte{}, b...), 'y', 'z'), nil }
	shrink := func(b []byte) ([]byte, error) {
		if len(b) < 2 {
			return nil, wos.ErrBad
		}
		return b[:len(b)-2], nil
	}
	same := func(b []byte) ([]byte, error) { return b, nil }
	for _, sc := range scripts {
		w0, want := run(sc, func() string { d, err := synthw.Fetch("ab"); return ", " + coqBytes(d) + ", " + coqErr(err) })
		add("s_Fetch 5 "+w0+" "+coqBytes([]byte("ab")), want)
		for _, data := range []string{"", "q", "hello"} {
			w0, want = run(sc, func() string { err := synthw.Store("abc", []byte(data)); return ", " + coqErr(err) })
			add("s_Store 5 "+w0+" "+coqBytes([]byte("abc"))+" "+coqBytes([]byte(data)), want)
		}
		for _, f := range []struct {
			coq string
			fn  func([]byte) ([]byte, error)
		}{{"(fun b => (b ++ [x79; x7a], WNil))", grow},
			{"(fun b => if (len b <? 2)%Z then ([], EBAD) else (firstn (length b - 2) b, WNil))", shrink},
			{"(fun b => (b, WNil))", same}} {
			w0, want = run(sc, func() string { n, err := synthw.Update("u", f.fn); return ", " + coqZ(n) + ", " + coqErr(err) })
			add("s_Update 5 "+w0+" "+coqBytes([]byte("u"))+" "+f.coq, want)
		}
		// Hold, then the returned literal once and twice
		for _, twice := range []bool{false, true} {
			k := &synthw.Keeper{Name: "kk"}
			wos.Script, wos.Trace = append([]int(nil), sc...), nil
			ok := synthw.Cycle(k, twice)
			w0 = fmt.Sprintf("(%s, [])", coqZs(sc))
			call := "x <- s_Keeper_Hold 5 " + w0 + " (s_mk_Keeper " + coqBytes([]byte("kk")) + " 0%Z) ;; match x with (w1, k1, Some c, _) => y <- s_Keeper_Hold_lit w1 k1 c ;; "
			if twice {
				call += "match y with (w2, k2, c2) => z <- s_Keeper_Hold_lit w2 k2 c2 ;; match z with (w3, k3, _) => Ok (w3, s_Keeper_gate k3, true) end end"
			} else {
				call += "match y with (w2, k2, _) => Ok (w2, s_Keeper_gate k2, true) end"
			}
			call += " | (w1, k1, None, _) => Ok (w1, s_Keeper_gate k1, false) end"
			switch {
			case twice && !ok && k.In() == 0 && len(wos.Trace) > 0 && wos.Trace[len(wos.Trace)-3] == 4:
				// the second call of the literal panicked in Go (the gate is empty): Panic in Coq
				add(call, "Panic")
			default:
				add(call, fmt.Sprintf("Ok (%s, %s, %s)", coqWorld(), coqZ(k.In()), coqB(ok)))
			}
		}
	}
	// the iteration bound is real; an empty name panics
	add("s_Fetch 2 ("+coqZs([]int{-1, -1, -1, 3})+", []) []", "OutOfFuel")
	add("s_Keeper_Hold 5 ([], []) (s_mk_Keeper [] 0%Z)", "Panic")

	theories, _ := filepath.Abs("../../coq/theories")
	if th := os.Getenv("GO2COQ_THEORIES"); th != "" {
		theories = th
	}
	extra := os.Getenv("GO2COQ_THEORIES_EXTRA")
	if _, err := os.Stat(filepath.Join(theories, "Lib", "GoSemWorld.vo")); err != nil {
		if _, err := os.Stat(filepath.Join(extra, "Lib", "GoSemWorld.vo")); extra == "" || err != nil {
			t.Skip("compiled Lib/GoSemWorld.vo not found under " + theories)
		}
	}
	if _, err := exec.LookPath("coqc"); err != nil {
		t.Skip("coqc not found")
	}
	dir := t.TempDir()
	var b strings.Builder
	b.WriteString("From Coq Require Import List ZArith NArith Bool.\nFrom Coq.Strings Require Import Byte.\nImport ListNotations.\n")
	b.WriteString("From GI Require Import Lib.Bytes Lib.GoSem Lib.GoSemWorld.\nImport GoNotations.\nLocal Open Scope go_scope.\n")
	b.WriteString(wosCoq)
	b.WriteString(r.Text)
	for i, e := range ex {
		fmt.Fprintf(&b, "Example ex%d : %s.\nProof. vm_compute. reflexivity. Qed.\n", i, e)
	}
	file := filepath.Join(dir, "SynthW.v")
	if err := os.WriteFile(file, []byte(b.String()), 0o644); err != nil {
		t.Fatal(err)
	}
	if keep := os.Getenv("GO2COQ_KEEP_WORLD"); keep != "" {
		os.WriteFile(keep, []byte(b.String()), 0o644)
	}
	args := []string{"300", "coqc", "-q", "-Q", theories, "GI"}
	if extra != "" {
		args = append(args, "-Q", extra, "GI")
	}
	cmd := exec.Command("timeout", append(args, file)...)
	cmd.Dir = dir
	out, err := cmd.CombinedOutput()
	if err != nil {
		t.Fatalf("coqc: %v\n%s", err, out)
	}
	t.Logf("%d evaluations of %d translated functions agree with Go", len(ex), len(r.Funcs))
}

// What the world mode does not cover is refused, with a message naming it.
func TestWorldRejects(t *testing.T) {
	head := "package synthw\nimport \"" + wosPath + "\"\ntype dev struct { *wos.Dev }\ntype Conn struct { dev; closed bool }\n" +
		"func (c *Conn) Close() error { c.closed = true; return c.dev.Dev.Shut() }\n" +
		"func Dial() (*Conn, error) { c := new(Conn); var err error; c.dev.Dev, err = wos.Open(\"x\", 0); return c, err }\n"
	cases := []struct {
		name, body, want string
		funcs            []string
		cfg              func(*go2coq.WorldConfig)
	}{
		{"copy-pointer", "func F() error { c, _ := Dial(); d := c; return d.Close() }", "may copy it", []string{"Conn.Close", "Dial", "F"}, nil},
		{"pointer-param", "func F(c *Conn) error { return c.Close() }", "pointer parameter", []string{"Conn.Close", "F"}, nil},
		{"defer-in-if", "func F(a bool) error { c, _ := Dial(); if a { defer c.Close() }; return nil }", "top level", []string{"Conn.Close", "Dial", "F"}, nil},
		{"defer-assigned-later", "func F() (n int) { c, _ := Dial(); k := 1; defer func() { n = k }(); k = 2; c.Close(); return 0 }", "assigned after the defer", []string{"Conn.Close", "Dial", "F"}, nil},
		{"defer-return", "func F() (n int) { defer func() { if n > 0 { return }; n = 1 }(); return 0 }", "return or defer inside", []string{"F"}, nil},
		{"recover", "func F() (n int) { defer func() { if recover() != nil { n = 1 } }(); return 0 }", "recover", []string{"F"}, nil},
		{"order", "func G(c *Conn) bool { return c.closed }\nfunc F() bool { c, _ := Dial(); return c.Close() == nil && c.closed }", "does not fix the order", []string{"Conn.Close", "Dial", "F"}, nil},
		{"effect-right-of-and", "func F(a bool) bool { c, _ := Dial(); return a && c.Close() == nil }", "right operand", []string{"Conn.Close", "Dial", "F"}, nil},
		{"compare-errors", "func F(a, b error) bool { return a == b }", "comparison of two error values", []string{"F"}, nil},
		{"narrowing", "func F(a int) int16 { return int16(a) }", "can change the value", []string{"F"}, func(c *go2coq.WorldConfig) { c.IntConv = nil }},
		{"arith-int16", "func F(a int16) int16 { return a + 1 }", "arithmetic is supported on int only", []string{"F"}, nil},
		{"untranslated", "func G() int { return 1 }\nfunc F() int { return G() }", "not among the translated functions", []string{"F"}, nil},
		{"no-table-entry", "func F(d *wos.Dev) string { return d.Name() }", "no denotation in the table", []string{"F"}, nil},
		{"recursion", "func F(a int) int { if a > 0 { return F(a - 1) }; return 0 }", "recursive call", []string{"F"}, nil},
		{"goroutine", "func F() { go Dial() }", "GoStmt", []string{"Dial", "F"}, nil},
		{"range", "func F(b []byte) int { n := 0; for range b { n++ }; return n }", "RangeStmt", []string{"F"}, nil},
		{"package-var", "var g int\nfunc F() int { return g }", "package-level variables", []string{"F"}, nil},
		{"two-literals", "func F(a bool) func() { if a { return func() {} }; return func() {} }", "more than one returned function literal", []string{"F"}, nil},
		{"captured-used-later", "func F() (func(), int) { n := 1; return func() { n = 2 }, n }", "mentioned after it", []string{"F"}, nil},
		{"pointer-in-struct", "type Box struct { c *Conn }\nfunc F() *Box { b := new(Box); return b }", "stored in a struct", []string{"F"}, nil},
		{"drop-as-value", "func Note2() int { return 0 }\nfunc F() { wos.Note(1, 2) }\nfunc G() int { x := wos.Open; _ = x; return 0 }", "", []string{"G"}, nil},
		{"nil-named-without-zero", "func F() *wos.Dev { return nil }", "the table does not give", []string{"F"}, func(c *go2coq.WorldConfig) {
			c.Types["*"+wosPath+".Dev"] = go2coq.WType{Coq: "Z"}
		}},
	}
	for _, c := range cases {
		cfg := worldCfg()
		if c.cfg != nil {
			c.cfg(cfg)
		}
		_, err := translateWorld(t, head+c.body+"\n", cfg, c.funcs...)
		if err == nil {
			t.Errorf("%s: accepted", c.name)
			continue
		}
		if _, ok := err.(*go2coq.Unsupported); !ok || !strings.Contains(err.Error(), c.want) {
			t.Errorf("%s: error %q does not mention %q", c.name, err, c.want)
		}
	}
}

// Package go2coq is a syntax-directed translator from a small subset of Go to Gallina.
//
// It is pointed at a package (parsed files), a list of top-level functions and a small
// table (Config) that names the supported library calls and struct types with their Coq
// denotations; the vocabulary of the generated text is coq/theories/Lib/GoSem.v.  The
// translation is generic: nothing in this package knows the functions it is applied to.
// Anything outside the supported subset is an *Unsupported error naming the construct
// and its position; nothing is skipped or approximated silently.
//
// Denotation (see GoSem.v for the Coq side):
//
//	int -> Z; byte -> byte; bool -> bool; string, []byte -> bytes; error -> bool ("is
//	not nil"); struct types -> the Coq type of Config.Structs; *T (only as the result of
//	new(T) held in one local) -> T; several results -> a tuple; rune (int32) -> Z
//	(constants and comparisons only, no arithmetic); []T -> list T; map[string]T that is
//	only read (m[k], passed on) -> the total function bytes -> T (absent key = zero
//	value); package-level variables named in Config.Vars -> the Coq term given there.
//
//	A function f becomes  Definition <prefix>f [fuel] params : res R.  Expressions that
//	cannot panic become plain terms; index and slice expressions, calls of translated
//	functions and of monadic library functions are bound first, left to right
//	(x <- e ;; ...).  && and || with an operand that can panic evaluate it conditionally.
//
//	Mutable locals are handled functionally: a statement sequence is a chain of lets in
//	which an assignment rebinds the variable's Coq name.  An if statement that can fall
//	through yields the tuple of the outer variables its branches may assign; when it
//	contains return/break/continue (or a loop) the tuple is wrapped in GoSem.outcome
//	(Normal / Break / Continue / Return) and sequenced with bindT (function level) or
//	bindO (inside a block).  An if whose branch cannot fall through becomes
//	if c then branch else rest, without a tuple.
//
//	for-loops become  Fixpoint <prefix>f_loopK {L} (fuel n : nat) <read-only vars>
//	<assigned vars> {struct n} : res (outcome S L R): n is the iteration bound of this
//	loop execution (OutOfFuel at 0), fuel the bound handed unchanged to every loop and
//	call inside; the function starts each of its loops with n = fuel.  range loops over
//	a slice become structural recursion on the list (no iteration bound needed); range
//	over a string is range over the list of its (byte offset, rune) pairs (GoSemExt.go_runes,
//	Go's UTF-8 decoding), range over an int n over the list 0 .. n-1.
//
//	A function that calls itself becomes  Fixpoint <prefix>f (fuel : nat) params
//	{struct fuel}: OutOfFuel at 0, otherwise the body with fuel-1 for everything inside
//	(the recursive calls included), so fuel bounds the depth of the recursion.  Mutual
//	recursion and a recursive call inside a loop are not supported.
//
//	Data built and changed in place (data.go, vocabulary Lib/GoSemData.v): make([]T, n) and
//	element stores for every supported T, owned results of library functions marked Fresh,
//	append targets that are cut back (x = x[:0]), maps that are written (Config.AssocMaps:
//	association lists), function literals handed to library functions, opaque library types
//	such as bytes.Buffer with calls that change them (LibFunc.Mutates), ...any operands of
//	fmt, min/max, local constants; the conditions are stated at the top of data.go.
//
//	Methods with a pointer receiver (Config.Funcs "T.m"; the receiver is a record of the
//	fields the table names, Struct.Partial; state passing for the fields that are assigned),
//	calls that do not return (Config.NoReturn: the result type becomes an exit), maps held
//	across calls that are written and may be nil (Config.RefMaps), appends to owned fields
//	of the receiver (Struct.Owned): methods.go, vocabulary Lib/GoSemState.v.
//
//	State passing in full (Config.StatePassing): calls that change the receiver anywhere in an
//	expression, methods called on a local pointer variable, pointer parameters *[]T, library
//	types used as linear state (Config.StateTypes, LibFunc.State), error values that can be
//	compared (Config.ErrorValues, Config.ExtVars), expression switches, panic(constant):
//	state.go, vocabulary Lib/GoSemIO.v; the conditions are stated at the top of state.go.
//
//	Pure segments of functions and methods that do I/O before and after (Config.Segments: a run
//	of statements of one block delimited by named calls, or the condition of the if statement
//	that guards a named call; a function of the locals it reads -- the receiver included, a
//	pointer to a struct read-only as the struct -- with the value res (outcome V L R)):
//	segment.go.  Inside them and elsewhere (ext.go, vocabulary Lib/GoSemSeg.v): int64 and
//	named types over it (constants and comparisons only), [N]byte as a value (index, ==, and
//	x[:] only as the argument a library function writes into, LibFunc.Out), named library
//	types that are only passed on (Config.Types), ...any operands wrapped by kind (go_any),
//	&T{...} as a non-nil error, local function constants inlined at their calls, reads of the
//	clock as parameters of a segment (LibFunc.Input); the conditions are stated at the top of
//	ext.go and segment.go.
//
//	Segments of request handlers (segstate.go, vocabulary Lib/GoSemHandler.v): state that a
//	return inside a segment carries (Segment.State: the receiver whose fields are assigned, a
//	parameter of an opaque type such as http.ResponseWriter), pointers that may be nil as
//	options (Config.Nullable), calls on the receiver that the Lib table denotes (an oracle
//	carried by the receiver's value), effectful calls whose value is a parameter of the segment
//	(LibFunc.Oracle, also under a type assertion; the arguments, function literals included, are
//	not translated), dropped log calls (LibFunc.Discard), err.Error(), local type declarations,
//	segments inside function literals, the arguments of an effectful call as a segment
//	(Segment.Args), the selectors "key#n" (n-th call), "var:name" (a declaration) and
//	Segment.Up; the conditions are stated at the top of segstate.go.
//
//	Arithmetic on int64 and named types over it (Config.Int64Arith; int64.go, vocabulary
//	Lib/GoSemInt64.v): + - * and unary - wrap around, / and % panic on a zero divisor.
//	No-return calls inside segments, the message of a no-return call as part of the value
//	(Config.FailMsgs: exitm / FailedM msg / DoneM r instead of exit / Failed / Done),
//	package-level variables that are inputs of a segment (Config.InputVars: a flag read through
//	*v): segfail.go, vocabulary Lib/GoSemFail.v.  Literals T{...} / x := &T{...} of structs with
//	a Partial table entry inside segments, the elements of undenoted fields being checked inert
//	and left out: partiallit.go.  Also in segfail.go: calls of table functions that may end in a
//	no-return call (LibFunc.MayFail: bindFO / bindFT), Segment.State naming a local pointer to a
//	table struct, state together with no-return calls (exitm of the state tuple), v, ok := m[k]
//	on a written map (go_mapref_lookup), a pointer-valued field handed to a table function, jump
//	statements after a no-return call dropped as dead code, f: make(...) / len / range as
//	harmless uses of a written map held in a field.  Tests: segfail_test.go, internal/synthfail,
//	internal/synthaux.
//
//	EFFECTFUL functions -- sequences of operating-system / library calls with control flow in
//	between -- have an entry point of their own, TranslateWorld (world.go, world_stmt.go,
//	world_expr.go; table WorldConfig; vocabulary Lib/GoSemWorld.v): every library call the
//	table marks as an effect is an uninterpreted operation on an abstract world that is passed
//	through the translated functions (res (World * results)); several packages in one run,
//	records generated from struct declarations, pointers to them as options, pointer
//	receivers by state passing, embedded fields and promoted methods, error values as terms
//	(werr), defer at the top level of a function (also of a literal that reads and assigns
//	named results), a returned function literal as a definition of its own, function-typed
//	parameters.  The subset and its conditions are stated at the top of world.go.
//	Data carried through such code (world_data.go; tests world_data_test.go, internal/synthwd):
//	library struct types with a table record (WorldConfig.Structs) and slices of structs as
//	lists, range over such a slice as structural recursion, read-only pointer parameters,
//	variadic library functions (string arguments as one list), append as concatenation under
//	checked freshness conditions, *p of a package-level pointer variable of the table
//	(WorldConfig.DerefVars), and a function literal handed to a library function translated as
//	a definition of its own over the captured variables it assigns (WorldPkg.Lits).
//
// Soundness conditions of the value semantics of slices, checked per function: element
// stores and copy only into a local made by make and used linearly; append only as
// x = append(x, ...) on a local (or a field of a local struct made by new/zero/literal)
// that starts empty; pointers only from new(T), held in one local, used for field access
// and returned; no comparison of a slice with nil; package-level variables read by the
// translated functions are referenced nowhere else in the package.
package go2coq

import (
	"fmt"
	"go/ast"
	"go/constant"
	"go/parser"
	"go/token"
	"go/types"
	"sort"
	"strings"
)

// LibFunc is the denotation of a library function "importpath.Name" or of a method
// "(*importpath.T).Name" / "(importpath.T).Name" (the receiver is the first argument).
type LibFunc struct {
	Coq     string // Coq function applied to the translated arguments, in Go's order
	Monadic bool   // the Coq function returns res T (it can panic)
	IsError bool   // the call constructs a non-nil error: it denotes true (arguments must be pure)
	Fresh   bool   // the result is a newly allocated slice that shares no memory with anything else (data.go)
	Mutates bool   // a call statement that replaces the value of its first argument x / &x, a local of an opaque type (data.go)
	// State: a method that changes its receiver, a value of a type of Config.StateTypes: the Coq
	// function takes the receiver's value first and returns the tuple (receiver afterwards,
	// results...); Volatile: a slice result is valid only until the next call on the receiver (state.go)
	State    bool
	Volatile bool
	// ext.go: Out: the function writes into its Out-th argument (1-based; 0 = none), x[:] of a local
	// array; Input: the call only reads the environment (a clock): inside a Segment its value is a
	// parameter of the segment
	Out   int
	Input bool
	// segstate.go: Discard: a call statement whose effect lies outside the denoted state (a log):
	// pure arguments, the statement is dropped; Oracle: inside a Segment the value of the call
	// is a parameter of the segment and its arguments are not translated
	Discard bool
	Oracle  bool
	// segfail.go: MayFail: the function may end in a no-return call: its Coq denotation returns
	// res (exitm T); only as a whole statement inside a Segment
	MayFail bool
}

// Field maps one struct field to the Coq projection.
type Field struct{ Go, Getter string }

// Struct is the denotation of a named struct type "importpath.Name".
type Struct struct {
	CoqType string  // Coq type
	Ctor    string  // constructor, applied to the fields in declaration order
	Fields  []Field // in declaration order
	// Partial: Fields lists only the fields the translated methods touch (any order); the
	// access of any other field is Unsupported.  Owned: slice fields of a receiver to which
	// x.f = append(x.f, ...) is allowed (see methods.go)
	Partial bool
	Owned   []string
}

// Config is the source-specific table.
type Config struct {
	Prefix  string             // prefix of every generated name
	Funcs   []string           // top-level functions to translate
	Stubs   map[string]string  // import path -> Go source declaring exactly the supported API of that package
	Lib     map[string]LibFunc // "importpath.Name" -> denotation
	Structs map[string]Struct  // "importpath.Name" -> denotation
	// Vars: package-level variables of the translated package whose value is given by the
	// table instead of by translating an initialiser (a map filled by init(), a compiled
	// regexp): name -> Coq term.  That the term is the variable's value whenever a
	// translated function runs is part of the table's claim.
	Vars map[string]string
	// Prefixes: pure prefixes of functions that go on with effects (see Prefix).
	Prefixes []Prefix
	// AssocMaps: every map[string]T is the association list gomap T (needed for maps that are
	// written) instead of the total function bytes -> T; Opaque: library types "importpath.Name"
	// used only through table functions (see data.go).
	AssocMaps bool
	Opaque    map[string]Opaque
	// NoReturn: functions / methods ("f", "T.m") of the translated package that never return;
	// RefMaps: map types (types.TypeString) that are read and written and may be nil (see
	// methods.go).  Methods are named "T.m" in Funcs.
	NoReturn []string
	RefMaps  []string
	// Frame: methods "T.m" that leave the denoted fields of their receiver alone; a call
	// statement evaluates the arguments and is dropped (see methods.go)
	Frame []string
	// state.go: StatePassing: full state passing for pointer receivers and pointer parameters;
	// StateTypes: library types whose values are state used linearly, types.TypeString of the type
	// ("*bufio.Reader", "io.Reader") -> Coq type; ErrorValues: error values are GoSemIO.goerr (nil,
	// or the sentinel a package-level variable holds) instead of the bool "is not nil"; ExtVars:
	// package-level variables of other packages, "importpath.Name" -> Coq term.
	StatePassing bool
	StateTypes   map[string]string
	ErrorValues  bool
	ExtVars      map[string]string
	// Segments: pure segments of functions and methods that go on with effects (segment.go).
	// Types: named library types with a table denotation whose values are only passed on
	// (ext.go): "importpath.Name" -> denotation.
	Segments []Segment
	Types    map[string]LibType
	// Nullable: pointer types (types.TypeString) to table structs whose values may be nil: option
	// of the struct's type (segstate.go)
	Nullable []string
	// Int64Arith: + - * / % and unary - on int64 values, with wrap-around (int64.go)
	Int64Arith bool
	// segfail.go: FailMsgs: a no-return call is FailedM of its message (the exit type is exitm);
	// InputVars: package-level variables whose value is an input of a segment
	FailMsgs  bool
	InputVars []string
}

// Prefix asks for the translation of the pure beginning of a block of an otherwise
// untranslatable function: the statements of the innermost block of Func that contains the
// first call (in source order) of the library function Before ("importpath.Name"), up to
// and not including the statement with that call.  The result is the definition
// <prefix><Func>_before_<pkg>_<Name>, a function of the local variables the statements
// read, with the value res (outcome V unit R): Return r if they return r, else Normal of
// the tuple V of the variables they assign or declare that are visible afterwards.  Every
// one of those statements must be in the supported subset; what follows them is not looked at.
type Prefix struct{ Func, Before string }

// Unsupported reports a construct outside the supported subset.
type Unsupported struct {
	Pos token.Position
	Msg string
}

func (u *Unsupported) Error() string {
	if u.Pos.IsValid() {
		return fmt.Sprintf("%s:%d:%d: %s", shortFile(u.Pos.Filename), u.Pos.Line, u.Pos.Column, u.Msg)
	}
	return u.Msg
}

func shortFile(f string) string {
	parts := strings.Split(f, "/")
	if len(parts) > 2 {
		parts = parts[len(parts)-2:]
	}
	return strings.Join(parts, "/")
}

// Result is the generated text plus what a caller may want to list.
type Result struct {
	Text     string   // Coq definitions (no header)
	Funcs    []string // generated function names, in emission order
	NeedFuel map[string]bool
}

type translator struct {
	cfg       *Config
	fset      *token.FileSet
	files     []*ast.File
	pkg       *types.Package
	info      *types.Info
	terrs     []types.Error
	decls     map[string]*ast.FuncDecl
	order     []string
	needFuel  map[string]bool
	recursive map[string]bool
	pkgVars   map[types.Object]string
	pkgVarTx  []string
	out       strings.Builder

	// methods.go: does a method change its receiver; the partial struct types
	mutates map[string]int
	partial map[*types.Named]*types.Struct
}

type stubImporter struct {
	fset  *token.FileSet
	cfg   *Config
	cache map[string]*types.Package
}

func (im *stubImporter) Import(path string) (*types.Package, error) {
	if p, ok := im.cache[path]; ok {
		return p, nil
	}
	src, ok := im.cfg.Stubs[path]
	if !ok {
		// a package of which nothing is supported: every use is a type error, which is
		// reported if (and only if) it lies inside a translated function
		name := path
		if i := strings.LastIndex(path, "/"); i >= 0 {
			name = path[i+1:]
		}
		p := types.NewPackage(path, name)
		p.MarkComplete()
		im.cache[path] = p
		return p, nil
	}
	f, err := parser.ParseFile(im.fset, "stub:"+path, src, 0)
	if err != nil {
		return nil, err
	}
	conf := types.Config{Importer: im}
	p, err := conf.Check(path, im.fset, []*ast.File{f}, nil)
	if err != nil {
		return nil, err
	}
	im.cache[path] = p
	return p, nil
}

// Translate translates cfg.Funcs of the package made of files.
func Translate(fset *token.FileSet, files []*ast.File, pkgPath string, cfg *Config) (res *Result, err error) {
	t := &translator{cfg: cfg, fset: fset, files: files, decls: map[string]*ast.FuncDecl{},
		needFuel: map[string]bool{}, recursive: map[string]bool{}, pkgVars: map[types.Object]string{}}
	cfg = normaliseFuncs(cfg) // methods.go: "T.m" -> "T_m"
	t.cfg = cfg
	curNoReturn = func(n ast.Node) bool { return t.noReturnCall(n) != "" }
	defer func() { curNoReturn = nil }()
	curMayFail = func(n ast.Node) bool { return t.mayFailCall(n) != nil } // segfail.go
	defer func() { curMayFail = nil }()
	defer func() {
		if r := recover(); r != nil {
			if u, ok := r.(*Unsupported); ok {
				res, err = nil, u
				return
			}
			panic(r)
		}
	}()
	t.info = &types.Info{Types: map[ast.Expr]types.TypeAndValue{}, Defs: map[*ast.Ident]types.Object{},
		Uses: map[*ast.Ident]types.Object{}, Selections: map[*ast.SelectorExpr]*types.Selection{}}
	conf := types.Config{Importer: &stubImporter{fset: fset, cfg: cfg, cache: map[string]*types.Package{}},
		Error: func(e error) {
			if te, ok := e.(types.Error); ok {
				t.terrs = append(t.terrs, te)
			}
		}}
	t.pkg, _ = conf.Check(pkgPath, fset, files, t.info)
	if t.pkg == nil {
		return nil, &Unsupported{Msg: "package does not type-check at all"}
	}
	for _, f := range files {
		for _, d := range f.Decls {
			if fd, ok := d.(*ast.FuncDecl); ok && fd.Recv == nil {
				t.decls[fd.Name.Name] = fd
			}
		}
	}
	for _, f := range files {
		for _, d := range f.Decls {
			if fd, ok := d.(*ast.FuncDecl); ok && fd.Recv != nil {
				t.addMethod(fd)
			}
		}
	}
	t.checkNoReturn()
	t.checkFrame()
	for _, name := range cfg.Funcs {
		fd := t.decls[name]
		if fd == nil || fd.Body == nil {
			return nil, &Unsupported{Msg: "function " + name + " not found (or has no body)"}
		}
	}
	// a type error inside a translated function: a library function or construct that the
	// stub packages do not declare
	for _, te := range t.terrs {
		for _, name := range cfg.Funcs {
			fd := t.decls[name]
			if te.Pos >= fd.Pos() && te.Pos < fd.End() {
				return nil, &Unsupported{Pos: fset.Position(te.Pos), Msg: "in " + name + ": not in the supported subset (type checker: " + te.Msg + ")"}
			}
		}
	}
	t.callOrder()
	var body strings.Builder
	var names []string
	for _, name := range t.order {
		body.WriteString(t.function(t.decls[name]))
		names = append(names, cfg.Prefix+name)
	}
	for _, p := range cfg.Prefixes {
		tx, name := t.prefix(p)
		body.WriteString(tx)
		names = append(names, name)
	}
	for _, sg := range cfg.Segments { // segment.go
		tx, name := t.segment(sg)
		body.WriteString(tx)
		names = append(names, name)
	}
	for _, tx := range t.pkgVarTx {
		t.out.WriteString(tx)
	}
	t.out.WriteString(body.String())
	nf := map[string]bool{}
	for k, v := range t.needFuel {
		nf[cfg.Prefix+k] = v
	}
	return &Result{Text: t.out.String(), Funcs: names, NeedFuel: nf}, nil
}

func (t *translator) fail(n ast.Node, format string, a ...any) {
	var pos token.Position
	if n != nil {
		pos = t.fset.Position(n.Pos())
	}
	panic(&Unsupported{Pos: pos, Msg: fmt.Sprintf(format, a...)})
}

func inSet(xs []string, x string) bool {
	for _, y := range xs {
		if x == y {
			return true
		}
	}
	return false
}

// callee returns the name of the translated function a call invokes, "" if none.
func (t *translator) callee(call *ast.CallExpr) string {
	if key := t.methodCallee(call); key != "" && inSet(t.cfg.Funcs, key) {
		return key
	}
	id, ok := ast.Unparen(call.Fun).(*ast.Ident)
	if !ok {
		return ""
	}
	fn, ok := t.info.Uses[id].(*types.Func)
	if !ok || fn.Pkg() != t.pkg {
		return ""
	}
	return fn.Name()
}

// callOrder: callees first, in the order of cfg.Funcs.  A function may call itself (it then
// becomes a Fixpoint on fuel); mutual recursion is unsupported.  Also decides which
// functions take a fuel argument (a for-loop, a call of itself, or a call of such a function).
func (t *translator) callOrder() {
	state := map[string]int{}
	var visit func(name string, from ast.Node)
	visit = func(name string, from ast.Node) {
		switch state[name] {
		case 1:
			t.fail(from, "mutually recursive call of %s", name)
		case 2:
			return
		}
		state[name] = 1
		fd := t.decls[name]
		var loops []ast.Node
		var walk func(n ast.Node) bool
		walk = func(n ast.Node) bool {
			switch n := n.(type) {
			case *ast.ForStmt:
				t.needFuel[name] = true
				loops = append(loops, n)
				ast.Inspect(n.Body, walk)
				if n.Init != nil {
					ast.Inspect(n.Init, walk)
				}
				if n.Cond != nil {
					ast.Inspect(n.Cond, walk)
				}
				if n.Post != nil {
					ast.Inspect(n.Post, walk)
				}
				loops = loops[:len(loops)-1]
				return false
			case *ast.RangeStmt:
				ast.Inspect(n.X, walk)
				loops = append(loops, n)
				ast.Inspect(n.Body, walk)
				loops = loops[:len(loops)-1]
				return false
			case *ast.CallExpr:
				if c := t.callee(n); c != "" {
					if !inSet(t.cfg.Funcs, c) {
						t.fail(n, "call of %s, which is not among the translated functions", c)
					}
					if c == name {
						if len(loops) > 0 {
							t.fail(n, "recursive call of %s inside a loop", name)
						}
						t.recursive[name] = true
						t.needFuel[name] = true
						return true
					}
					visit(c, n)
					if t.needFuel[c] {
						t.needFuel[name] = true
					}
				}
			}
			return true
		}
		ast.Inspect(fd.Body, walk)
		state[name] = 2
		t.order = append(t.order, name)
	}
	for _, name := range t.cfg.Funcs {
		visit(name, t.decls[name])
	}
}

// ---------------------------------------------------------------- types

type kind int

const (
	kOther kind = iota
	kInt
	kByte
	kBool
	kString
	kBytes
	kError
	kStruct
	kPtrStruct
	kSlice
	kTuple
	kRune
	kMap
	kRefMap // a map that is read and written and may be nil (methods.go)
)

func (t *translator) structOf(T types.Type) (Struct, *types.Struct, bool) {
	T = types.Unalias(T)
	n, ok := T.(*types.Named)
	if !ok || n.Obj().Pkg() == nil {
		return Struct{}, nil, false
	}
	st, ok := n.Underlying().(*types.Struct)
	if !ok {
		return Struct{}, nil, false
	}
	s, ok := t.cfg.Structs[n.Obj().Pkg().Path()+"."+n.Obj().Name()]
	if ok && s.Partial {
		return t.partialStruct(s, n, st)
	}
	if !ok || len(s.Fields) != st.NumFields() {
		return Struct{}, nil, false
	}
	for i, f := range s.Fields {
		if st.Field(i).Name() != f.Go {
			return Struct{}, nil, false
		}
	}
	return s, st, true
}

func (t *translator) kindOf(T types.Type) kind {
	if T == nil {
		return kOther
	}
	T = types.Unalias(T)
	if k, ok := t.kindExt(T); ok { // ext.go
		return k
	}
	if t.isStateType(T) {
		return kState // state.go
	}
	if n, ok := T.(*types.Named); ok && n.Obj().Pkg() == nil && n.Obj().Name() == "error" {
		return kError
	}
	if _, _, ok := t.structOf(T); ok {
		return kStruct
	}
	if _, ok := t.opaqueOf(T); ok {
		return kOpaque
	}
	switch u := T.Underlying().(type) {
	case *types.Basic:
		switch u.Kind() {
		case types.Int, types.UntypedInt:
			return kInt
		case types.Uint8:
			return kByte
		case types.Int32, types.UntypedRune:
			return kRune
		case types.Bool, types.UntypedBool:
			return kBool
		case types.String, types.UntypedString:
			return kString
		}
	case *types.Slice:
		if t.kindOf(u.Elem()) == kByte {
			return kBytes
		}
		if t.kindOf(u.Elem()) != kOther {
			return kSlice
		}
	case *types.Pointer:
		if _, _, ok := t.structOf(u.Elem()); ok {
			return kPtrStruct
		}
		if k := t.kindOf(u.Elem()); t.cfg.StatePassing && (k == kSlice || k == kBytes) {
			return kPtrVal // state.go
		}
	case *types.Map:
		if t.isRefMap(u) && t.kindOf(u.Key()) == kString && t.kindOf(u.Elem()) != kOther {
			return kRefMap
		}
		// a map with string keys whose values have a zero value here; only read (see expr)
		if t.kindOf(u.Key()) == kString {
			switch t.kindOf(u.Elem()) {
			case kInt, kByte, kBool, kString, kBytes, kRune, kSlice:
				return kMap
			}
		}
	case *types.Tuple:
		return kTuple
	}
	return kOther
}

func (t *translator) coqType(n ast.Node, T types.Type) string {
	if s, ok := t.coqTypeSeg(n, T); ok { // segstate.go
		return s
	}
	if s, ok := t.coqTypeExt(n, T); ok { // ext.go
		return s
	}
	if t.cfg.ErrorValues && t.kindOf(T) == kError {
		return "goerr" // state.go
	}
	switch t.kindOf(T) {
	case kState:
		return t.cfg.StateTypes[types.TypeString(types.Unalias(T), nil)]
	case kPtrVal:
		return "(option " + t.coqType(n, types.Unalias(T).Underlying().(*types.Pointer).Elem()) + ")"
	case kInt, kRune:
		return "Z"
	case kMap:
		if t.cfg.AssocMaps {
			return "(gomap " + t.coqType(n, types.Unalias(T).Underlying().(*types.Map).Elem()) + ")"
		}
		return "(bytes -> " + t.coqType(n, types.Unalias(T).Underlying().(*types.Map).Elem()) + ")"
	case kOpaque:
		o, _ := t.opaqueOf(T)
		return o.CoqType
	case kRefMap:
		return "(mapref " + t.coqType(n, t.refMapElem(T)) + ")"
	case kByte:
		return "byte"
	case kBool, kError:
		return "bool"
	case kString, kBytes:
		return "bytes"
	case kStruct:
		s, _, _ := t.structOf(T)
		return s.CoqType
	case kPtrStruct:
		s, _, _ := t.structOf(types.Unalias(T).Underlying().(*types.Pointer).Elem())
		return s.CoqType
	case kSlice:
		return "(list " + t.coqType(n, types.Unalias(T).Underlying().(*types.Slice).Elem()) + ")"
	case kTuple:
		tu := T.(*types.Tuple)
		if tu.Len() == 0 {
			return "unit"
		}
		var parts []string
		for i := 0; i < tu.Len(); i++ {
			parts = append(parts, t.coqType(n, tu.At(i).Type()))
		}
		if len(parts) == 1 {
			return parts[0]
		}
		return "(" + strings.Join(parts, " * ") + ")%type"
	}
	t.fail(n, "type %s is not supported", T)
	return ""
}

func (t *translator) zero(n ast.Node, T types.Type) string {
	if s, ok := t.zeroSeg(T); ok { // segstate.go
		return s
	}
	if s, ok := t.zeroExt(n, T); ok { // ext.go
		return s
	}
	if t.cfg.ErrorValues && t.kindOf(T) == kError {
		return "ErrNil" // state.go
	}
	switch t.kindOf(T) {
	case kInt, kRune:
		return "0%Z"
	case kMap:
		// a nil map reads as the zero value everywhere
		if t.cfg.AssocMaps {
			return "go_map_empty"
		}
		return "(fun _ => " + t.zero(n, types.Unalias(T).Underlying().(*types.Map).Elem()) + ")"
	case kByte:
		return "x00"
	case kBool, kError:
		return "false"
	case kString, kBytes, kSlice:
		return "[]"
	case kOpaque:
		o, _ := t.opaqueOf(T)
		return o.Zero
	case kRefMap:
		return "go_mapref_nil"
	case kStruct:
		s, st, _ := t.structOf(T)
		parts := []string{s.Ctor}
		for i := 0; i < st.NumFields(); i++ {
			parts = append(parts, t.zero(n, st.Field(i).Type()))
		}
		return "(" + strings.Join(parts, " ") + ")"
	}
	t.fail(n, "zero value of type %s is not supported", T)
	return ""
}

func coqBytes(s string) string {
	var parts []string
	for i := 0; i < len(s); i++ {
		parts = append(parts, fmt.Sprintf("x%02x", s[i]))
	}
	return "[" + strings.Join(parts, "; ") + "]"
}

func coqZ(v string) string {
	if strings.HasPrefix(v, "-") {
		return "(" + v + ")%Z"
	}
	return v + "%Z"
}

// constant value of type T as a Coq literal
func (t *translator) constLit(n ast.Node, v constant.Value, T types.Type) string {
	switch t.kindOf(T) {
	case kInt, kRune:
		if i := constant.ToInt(v); i.Kind() == constant.Int {
			return coqZ(i.ExactString())
		}
	case kByte:
		if i, ok := constant.Int64Val(constant.ToInt(v)); ok && i >= 0 && i < 256 {
			return fmt.Sprintf("x%02x", i)
		}
	case kBool:
		if v.Kind() == constant.Bool {
			if constant.BoolVal(v) {
				return "true"
			}
			return "false"
		}
	case kString:
		if v.Kind() == constant.String {
			return coqBytes(constant.StringVal(v))
		}
	}
	t.fail(n, "constant %s of type %s is not supported", v, T)
	return ""
}

// ---------------------------------------------------------------- package-level variables

func (t *translator) pkgVar(id *ast.Ident, obj *types.Var) string {
	if name, ok := t.pkgVars[obj]; ok {
		return name
	}
	if term, ok := t.cfg.Vars[obj.Name()]; ok {
		// the table gives the value; the translated functions never assign it (rootVar)
		t.pkgVars[obj] = term
		return term
	}
	// referenced only inside translated functions (so that nothing else can store to it
	// or through it), never assigned
	for _, f := range t.files {
		ast.Inspect(f, func(n ast.Node) bool {
			if fd, ok := n.(*ast.FuncDecl); ok {
				if fd.Recv == nil && inSet(t.cfg.Funcs, fd.Name.Name) {
					return false
				}
				if fd.Recv != nil && inSet(t.cfg.Funcs, funcKey(fd)) && t.decls[funcKey(fd)] == fd {
					return false // a translated method
				}
			}
			if x, ok := n.(*ast.Ident); ok && t.info.Uses[x] == obj {
				t.fail(x, "package-level variable %s is also referenced outside the translated functions", obj.Name())
			}
			return true
		})
	}
	var init ast.Expr
	for _, f := range t.files {
		for _, d := range f.Decls {
			gd, ok := d.(*ast.GenDecl)
			if !ok || gd.Tok != token.VAR {
				continue
			}
			for _, sp := range gd.Specs {
				vs := sp.(*ast.ValueSpec)
				for i, x := range vs.Names {
					if t.info.Defs[x] == obj {
						if len(vs.Values) != len(vs.Names) {
							t.fail(vs, "package-level variable %s has no initialiser of its own", obj.Name())
						}
						init = vs.Values[i]
					}
				}
			}
		}
	}
	if init == nil {
		t.fail(id, "package-level variable %s: declaration not found", obj.Name())
	}
	if name, ok := t.sentinelVar(obj, init); ok {
		return name // state.go
	}
	ft := &funcTr{t: t, name: "var " + obj.Name(), names: map[types.Object]string{}}
	pres, term := ft.expr(init, obj.Type())
	if len(pres) > 0 {
		t.fail(init, "initialiser of package-level variable %s can panic", obj.Name())
	}
	name := t.cfg.Prefix + obj.Name()
	t.pkgVars[obj] = name
	t.pkgVarTx = append(t.pkgVarTx, fmt.Sprintf("(* var %s *)\nDefinition %s : %s := %s.\n\n", obj.Name(), name, t.coqType(init, obj.Type()), term))
	return name
}

// ---------------------------------------------------------------- functions

type modeKind int

const (
	mTail  modeKind = iota // function level: the term has type res R
	mOut                   // block with jumps: res (outcome S L R), ends in Ok (Normal vars)
	mPlain                 // block without jumps: res S, ends in Ok vars
)

type mode struct {
	kind   modeKind
	vars   []*types.Var // the variables the block yields
	inLoop bool
	loop   []*types.Var // the variables of the innermost enclosing loop
}

type pre struct{ pat, term string }

type funcTr struct {
	t       *translator
	fd      *ast.FuncDecl
	name    string
	sig     *types.Signature
	names   map[types.Object]string
	used    map[string]bool
	ntemp   int
	nloop   int
	loops   []string
	results []*types.Var // named results, nil if unnamed
	makeVar map[types.Object]bool
	parents map[ast.Node]ast.Node
	root    ast.Node // what the aliasing conditions are checked on: the body, or a prefix of a block
	mapVar  map[types.Object]bool // locals made by make(map[string]T) (data.go)
	mutOK   *ast.CallExpr         // the Mutates call being translated as a statement (data.go)

	// methods.go: the receiver of a translated method; the method changes it (its state is part of
	// the result); the body contains a no-return call (the result is an exit); inside a literal
	recv  *types.Var
	mut   bool
	fails bool
	inLit int

	// state.go (Config.StatePassing): the pointer receiver and the pointer parameters: passed in
	// as values, their final values are returned in front of the results
	stateVars []*types.Var

	// ext.go / segment.go: the state of their constructs (nil outside a Segment)
	ext *funcExt
}

func sanitize(s string) string {
	var b strings.Builder
	for _, r := range s {
		if r < 128 && (r == '_' || r >= '0' && r <= '9' || r >= 'a' && r <= 'z' || r >= 'A' && r <= 'Z') {
			b.WriteRune(r)
		} else {
			fmt.Fprintf(&b, "u%x", r)
		}
	}
	return b.String()
}

func (ft *funcTr) declare(obj types.Object) string {
	if n, ok := ft.names[obj]; ok {
		return n
	}
	base := "v_" + sanitize(obj.Name())
	name := base
	for k := 1; ft.used[name]; k++ {
		name = fmt.Sprintf("%s_%d", base, k)
	}
	ft.used[name] = true
	ft.names[obj] = name
	return name
}

func (ft *funcTr) temp() string {
	ft.ntemp++
	return fmt.Sprintf("t%d", ft.ntemp)
}

func (ft *funcTr) resultType() string {
	if ft.segState() && ft.inLit == 0 && ft.fails && ft.t.cfg.FailMsgs {
		return "(exitm " + ft.stateResultType() + ")" // segfail.go: state and no-return calls
	}
	if ft.segState() && ft.inLit == 0 {
		return ft.stateResultType() // segstate.go
	}
	if ft.t.cfg.StatePassing && ft.inLit == 0 {
		return ft.stateResultType() // state.go
	}
	return ft.wrapType(ft.t.coqType(ft.fd, ft.sig.Results()))
}

func (t *translator) function(fd *ast.FuncDecl) string {
	fn := t.info.Defs[fd.Name].(*types.Func)
	sig := fn.Type().(*types.Signature)
	ft := &funcTr{t: t, fd: fd, name: fd.Name.Name, sig: sig, names: map[types.Object]string{}, used: map[string]bool{},
		makeVar: map[types.Object]bool{}, parents: map[ast.Node]ast.Node{}, root: fd.Body}
	if sig.Variadic() || sig.TypeParams() != nil || fd.Type.TypeParams != nil {
		t.fail(fd, "variadic or generic function %s", ft.name)
	}
	// every local variable gets its Coq name now, in source order
	var defs []*ast.Ident
	for id, obj := range t.info.Defs {
		if v, ok := obj.(*types.Var); ok && !v.IsField() && id.Pos() >= fd.Pos() && id.Pos() < fd.End() {
			defs = append(defs, id)
		}
	}
	sort.Slice(defs, func(i, j int) bool { return defs[i].Pos() < defs[j].Pos() })
	for _, id := range defs {
		if id.Name != "_" {
			ft.declare(t.info.Defs[id])
		}
	}
	var stack []ast.Node
	ast.Inspect(fd, func(n ast.Node) bool {
		if n == nil {
			stack = stack[:len(stack)-1]
			return true
		}
		if len(stack) > 0 {
			ft.parents[n] = stack[len(stack)-1]
		}
		stack = append(stack, n)
		return true
	})
	ft.setupMethod()
	ft.setupState()
	ft.checkAliasing()

	var params []string
	if t.needFuel[ft.name] {
		params = append(params, "(fuel : nat)")
	}
	if rb := ft.recvBinder(); rb != "" {
		params = append(params, rb)
	}
	for i := 0; i < sig.Params().Len(); i++ {
		p := sig.Params().At(i)
		if t.kindOf(p.Type()) == kPtrStruct {
			t.fail(fd, "pointer parameter %s of %s", p.Name(), ft.name)
		}
		name := "_"
		if p.Name() != "" && p.Name() != "_" {
			name = ft.declare(p)
		}
		params = append(params, fmt.Sprintf("(%s : %s)", name, t.coqType(fd, p.Type())))
	}
	ind := "  "
	var b strings.Builder
	named := sig.Results().Len() > 0 && sig.Results().At(0).Name() != ""
	if named {
		for i := 0; i < sig.Results().Len(); i++ {
			r := sig.Results().At(i)
			if r.Name() == "_" {
				t.fail(fd, "blank named result in %s", ft.name)
			}
			ft.results = append(ft.results, r)
			fmt.Fprintf(&b, "%slet %s : %s := %s in\n", ind, ft.declare(r), t.coqType(fd, r.Type()), t.zero(fd, r.Type()))
		}
	}
	b.WriteString(ft.block(fd.Body.List, mode{kind: mTail}, ind))
	var out strings.Builder
	for _, l := range ft.loops {
		out.WriteString(l)
	}
	if t.recursive[ft.name] {
		// the function calls itself: fuel bounds the depth of the recursion; inside the body
		// the name fuel is the predecessor
		fmt.Fprintf(&out, "(* func %s (recursive) *)\nFixpoint %s%s %s {struct fuel}\n  : res %s :=\n  match fuel with\n  | O => OutOfFuel\n  | S fuel =>\n%s\n  end.\n\n",
			ft.name, t.cfg.Prefix, ft.name, strings.Join(params, " "), ft.resultType(), strings.TrimRight(b.String(), "\n"))
		return out.String()
	}
	fmt.Fprintf(&out, "(* func %s *)\nDefinition %s%s %s\n  : res %s :=\n%s.\n\n", ft.name, t.cfg.Prefix, ft.name,
		strings.Join(params, " "), ft.resultType(), strings.TrimRight(b.String(), "\n"))
	return out.String()
}

// prefix translates the statements in front of the first call of p.Before (see Prefix).
func (t *translator) prefix(p Prefix) (string, string) {
	fd := t.decls[p.Func]
	if fd == nil || fd.Body == nil {
		t.fail(nil, "prefix: function %s not found (or has no body)", p.Func)
	}
	dot := strings.LastIndex(p.Before, ".")
	if dot < 0 {
		t.fail(fd, "prefix: %q is not of the form importpath.Name", p.Before)
	}
	bpath, bname := p.Before[:dot], p.Before[dot+1:]
	// the first call of Before, with its ancestors
	var stack, found []ast.Node
	ast.Inspect(fd.Body, func(n ast.Node) bool {
		if n == nil {
			stack = stack[:len(stack)-1]
			return true
		}
		stack = append(stack, n)
		if found != nil {
			return true
		}
		if c, ok := n.(*ast.CallExpr); ok {
			if sel, ok := ast.Unparen(c.Fun).(*ast.SelectorExpr); ok && sel.Sel.Name == bname {
				if x, ok := sel.X.(*ast.Ident); ok {
					if pn, ok := t.info.Uses[x].(*types.PkgName); ok && pn.Imported().Path() == bpath {
						found = append([]ast.Node{}, stack...)
					}
				}
			}
		}
		return true
	})
	if found == nil {
		t.fail(fd, "prefix: no call of %s in %s", p.Before, p.Func)
	}
	// the innermost statement list that contains it
	var list []ast.Stmt
	var at ast.Node
	for i := len(found) - 1; i >= 0 && list == nil; i-- {
		switch b := found[i].(type) {
		case *ast.BlockStmt:
			list, at = b.List, found[i+1]
		case *ast.CaseClause:
			list, at = b.Body, found[i+1]
		case *ast.CommClause:
			list, at = b.Body, found[i+1]
		}
	}
	k := -1
	for i, st := range list {
		if ast.Node(st) == at {
			k = i
		}
	}
	if k < 0 {
		t.fail(fd, "prefix: the call of %s in %s is not inside a statement list", p.Before, p.Func)
	}
	pre, rest := list[:k], list[k:]
	key := p.Func + "_before_" + sanitize(strings.ReplaceAll(bpath, "/", "_")) + "_" + bname
	var lo, hi token.Pos
	if k > 0 {
		lo, hi = pre[0].Pos(), pre[k-1].End()
	} else {
		lo, hi = rest[0].Pos(), rest[0].Pos()
	}
	for _, te := range t.terrs {
		if te.Pos >= lo && te.Pos < hi {
			t.fail(nil, "%s: in %s before %s: not in the supported subset (type checker: %s)", t.fset.Position(te.Pos), p.Func, p.Before, te.Msg)
		}
	}
	fn := t.info.Defs[fd.Name].(*types.Func)
	ft := &funcTr{t: t, fd: fd, name: key, sig: fn.Type().(*types.Signature), names: map[types.Object]string{}, used: map[string]bool{},
		makeVar: map[types.Object]bool{}, parents: map[ast.Node]ast.Node{}, root: &ast.BlockStmt{List: pre}}
	var defs []*ast.Ident
	for id, obj := range t.info.Defs {
		if v, ok := obj.(*types.Var); ok && !v.IsField() && id.Pos() >= fd.Pos() && id.Pos() < fd.End() {
			defs = append(defs, id)
		}
	}
	sort.Slice(defs, func(i, j int) bool { return defs[i].Pos() < defs[j].Pos() })
	for _, id := range defs {
		if id.Name != "_" {
			ft.declare(t.info.Defs[id])
		}
	}
	var pstack []ast.Node
	ast.Inspect(fd, func(n ast.Node) bool {
		if n == nil {
			pstack = pstack[:len(pstack)-1]
			return true
		}
		if len(pstack) > 0 {
			ft.parents[n] = pstack[len(pstack)-1]
		}
		pstack = append(pstack, n)
		return true
	})
	var preN, restN []ast.Node
	for _, st := range pre {
		preN = append(preN, st)
	}
	for _, st := range rest {
		restN = append(restN, st)
	}
	// calls of translated functions and loops inside the prefix: the bound
	for _, st := range pre {
		ast.Inspect(st, func(n ast.Node) bool {
			switch n := n.(type) {
			case *ast.ForStmt:
				t.needFuel[key] = true
			case *ast.CallExpr:
				if c := t.callee(n); c != "" {
					if !inSet(t.cfg.Funcs, c) {
						t.fail(n, "call of %s, which is not among the translated functions", c)
					}
					if t.needFuel[c] {
						t.needFuel[key] = true
					}
				}
			}
			return true
		})
	}
	ft.checkAliasing()
	// V: what the statements assign (declared before them) or declare for what follows
	set := map[*types.Var]bool{}
	for _, v := range ft.assigned(lo, hi, preN...) {
		set[v] = true
	}
	later := map[*types.Var]bool{}
	for _, v := range ft.free(token.NoPos, token.NoPos, restN...) {
		later[v] = true
	}
	for _, id := range defs {
		v := t.info.Defs[id].(*types.Var)
		if id.Pos() >= lo && id.Pos() < hi && later[v] && id.Name != "_" {
			set[v] = true
		}
	}
	vars := sortVars(set)
	var params []string
	if t.needFuel[key] {
		params = append(params, "(fuel : nat)")
	}
	for _, v := range ft.free(lo, hi, preN...) {
		if t.kindOf(v.Type()) == kPtrStruct {
			t.fail(fd, "prefix: pointer variable %s is read", v.Name())
		}
		params = append(params, fmt.Sprintf("(%s : %s)", ft.names[v], t.coqType(fd, v.Type())))
	}
	body := ft.block(pre, mode{kind: mOut, vars: vars}, "  ")
	var out strings.Builder
	for _, l := range ft.loops {
		out.WriteString(l)
	}
	fmt.Fprintf(&out, "(* func %s: the %d statement(s) of their block in front of the statement with the first call of %s *)\nDefinition %s%s %s\n  : res (outcome %s unit %s) :=\n%s.\n\n",
		p.Func, len(pre), p.Before, t.cfg.Prefix, key, strings.Join(params, " "), ft.tupleType(vars), ft.resultType(), strings.TrimRight(body, "\n"))
	return out.String(), t.cfg.Prefix + key
}

// ---------------------------------------------------------------- analyses

func (ft *funcTr) isLocal(obj types.Object) (*types.Var, bool) {
	v, ok := obj.(*types.Var)
	if !ok || v.IsField() {
		return nil, false
	}
	if v.Pos() >= ft.fd.Pos() && v.Pos() < ft.fd.End() {
		return v, true
	}
	return nil, false
}

// rootVar: the variable an assignable expression x, x.f, x[i] stores into.
func (ft *funcTr) rootVar(e ast.Expr) *types.Var {
	for {
		switch x := e.(type) {
		case *ast.ParenExpr:
			e = x.X
		case *ast.SelectorExpr:
			e = x.X
		case *ast.IndexExpr:
			e = x.X
		case *ast.StarExpr:
			e = x.X
		case *ast.Ident:
			if x.Name == "_" {
				return nil
			}
			obj := ft.t.info.Uses[x]
			if obj == nil {
				obj = ft.t.info.Defs[x]
			}
			if v, ok := ft.isLocal(obj); ok {
				return v
			}
			if _, ok := obj.(*types.Var); ok {
				ft.t.fail(x, "assignment to package-level variable %s", x.Name)
			}
			ft.t.fail(x, "assignment to %s", x.Name)
		default:
			ft.t.fail(e, "assignment to this kind of expression")
		}
	}
}

func sortVars(m map[*types.Var]bool) []*types.Var {
	var vs []*types.Var
	for v := range m {
		vs = append(vs, v)
	}
	sort.Slice(vs, func(i, j int) bool { return vs[i].Pos() < vs[j].Pos() })
	return vs
}

// assigned: the variables declared outside [lo, hi) that the nodes may assign.
func (ft *funcTr) assigned(lo, hi token.Pos, nodes ...ast.Node) []*types.Var {
	set := map[*types.Var]bool{}
	add := func(e ast.Expr) {
		if v := ft.rootVar(e); v != nil && !(v.Pos() >= lo && v.Pos() < hi) {
			set[v] = true
		}
	}
	for _, n := range nodes {
		if n == nil || isNilNode(n) {
			continue
		}
		ast.Inspect(n, func(n ast.Node) bool {
			switch s := n.(type) {
			case *ast.AssignStmt:
				for _, l := range s.Lhs {
					add(l)
				}
			case *ast.IncDecStmt:
				add(s.X)
			case *ast.RangeStmt:
				if s.Tok == token.ASSIGN {
					ft.t.fail(s, "range with = (assignment to existing variables)")
				}
			case *ast.ExprStmt:
				if c, ok := s.X.(*ast.CallExpr); ok && ft.builtin(c) == "copy" && len(c.Args) == 2 {
					add(c.Args[0])
				}
				if id := ft.mutTarget(s.X); id != nil {
					add(id)
				}
			case *ast.FuncLit:
				// a literal handed to a library function assigns nothing outside itself (funcLit)
				if c, ok := ft.up(s).(*ast.CallExpr); ok {
					if _, _, isLib := ft.libOf(c); isLib {
						return false
					}
				}
				if ft.droppedElement(s) {
					return false // partiallit.go
				}
				ft.t.fail(s, "function literal")
			case *ast.CallExpr:
				// a translated method that changes the receiver assigns it (methods.go)
				if r := ft.assignedByCall(s); r != nil {
					add(r)
				}
				ft.stateTargets(s, add) // state.go
				ft.assignedExt(s, func(v *types.Var) { // ext.go
					if !(v.Pos() >= lo && v.Pos() < hi) {
						set[v] = true
					}
				})
			}
			return true
		})
	}
	return sortVars(set)
}

func isNilNode(n ast.Node) bool {
	switch x := n.(type) {
	case *ast.BlockStmt:
		return x == nil
	case ast.Stmt:
		return x == nil
	case ast.Expr:
		return x == nil
	}
	return false
}

// free: the local variables declared outside [lo, hi) that the nodes mention.
func (ft *funcTr) free(lo, hi token.Pos, nodes ...ast.Node) []*types.Var {
	set := map[*types.Var]bool{}
	for _, n := range nodes {
		if n == nil || isNilNode(n) {
			continue
		}
		ast.Inspect(n, func(n ast.Node) bool {
			if id, ok := n.(*ast.Ident); ok {
				if v, ok := ft.isLocal(ft.t.info.Uses[id]); ok && !(v.Pos() >= lo && v.Pos() < hi) {
					set[v] = true
				}
			}
			return true
		})
	}
	return sortVars(set)
}

func (ft *funcTr) builtin(c *ast.CallExpr) string {
	if id, ok := ast.Unparen(c.Fun).(*ast.Ident); ok {
		if b, ok := ft.t.info.Uses[id].(*types.Builtin); ok {
			return b.Name()
		}
	}
	return ""
}

// hasJump: the statements contain return, break, continue, goto or a loop.
func hasJump(nodes ...ast.Node) bool {
	found := false
	for _, n := range nodes {
		if n == nil || isNilNode(n) {
			continue
		}
		ast.Inspect(n, func(n ast.Node) bool {
			switch n.(type) {
			case *ast.ReturnStmt, *ast.BranchStmt, *ast.ForStmt, *ast.RangeStmt:
				found = true
			case *ast.ExprStmt:
				if isNoReturnStmt(n) { // methods.go
					found = true
				}
				if isMayFailStmt(n) { // segfail.go
					found = true
				}
			case *ast.AssignStmt:
				if isMayFailStmt(n) { // segfail.go
					found = true
				}
			}
			return !found
		})
	}
	return found
}

// hasBreak: a break that leaves this loop (not one of a nested loop).
func hasBreak(body *ast.BlockStmt) bool {
	found := false
	var walk func(n ast.Node)
	walk = func(n ast.Node) {
		ast.Inspect(n, func(n ast.Node) bool {
			switch s := n.(type) {
			case *ast.ForStmt, *ast.RangeStmt, *ast.FuncLit:
				return false
			case *ast.BranchStmt:
				if s.Tok == token.BREAK {
					found = true
				}
			}
			return true
		})
	}
	for _, s := range body.List {
		walk(s)
	}
	return found
}

// fallsThrough: control can reach the end of the statement list (Go's terminating-
// statement rule, restricted to the supported statements).
func fallsThrough(list []ast.Stmt) bool {
	if len(list) == 0 {
		return true
	}
	switch s := list[len(list)-1].(type) {
	case *ast.ReturnStmt, *ast.BranchStmt:
		return false
	case *ast.ExprStmt:
		return !isNoReturnStmt(s) && !isPanicStmt(s) // methods.go, state.go
	case *ast.BlockStmt:
		return fallsThrough(s.List)
	case *ast.IfStmt:
		if s.Else == nil {
			return true
		}
		return fallsThrough(s.Body.List) || fallsThrough([]ast.Stmt{s.Else})
	case *ast.ForStmt:
		return s.Cond != nil || hasBreak(s.Body)
	}
	return true
}

// checkAliasing enforces the conditions under which slices may be treated as values.
func (ft *funcTr) checkAliasing() {
	t := ft.t
	info := t.info
	obj := func(e ast.Expr) types.Object {
		if id, ok := ast.Unparen(e).(*ast.Ident); ok {
			if o := info.Uses[id]; o != nil {
				return o
			}
			return info.Defs[id]
		}
		return nil
	}
	isCall := func(e ast.Expr, name string) *ast.CallExpr {
		if c, ok := ast.Unparen(e).(*ast.CallExpr); ok && ft.builtin(c) == name {
			return c
		}
		return nil
	}
	// lvalue key: "x" or "x.f"
	key := func(e ast.Expr) string {
		switch x := ast.Unparen(e).(type) {
		case *ast.Ident:
			if o := obj(x); o != nil {
				return fmt.Sprintf("%p", o)
			}
		case *ast.SelectorExpr:
			if o := obj(x.X); o != nil {
				return fmt.Sprintf("%p.%s", o, x.Sel.Name)
			}
		case *ast.StarExpr:
			if o := obj(x.X); o != nil {
				return fmt.Sprintf("%p.*", o)
			}
		}
		return ""
	}
	// all assignments of the function: (lhs expression, rhs expression or nil when it comes from a tuple call)
	type asg struct {
		lhs, rhs ast.Expr
		node     ast.Node
	}
	var asgs []asg
	zeroDecl := map[types.Object]bool{}
	ast.Inspect(ft.root, func(n ast.Node) bool {
		switch s := n.(type) {
		case *ast.AssignStmt:
			for i, l := range s.Lhs {
				var r ast.Expr
				if len(s.Rhs) == len(s.Lhs) && (s.Tok == token.ASSIGN || s.Tok == token.DEFINE) {
					r = s.Rhs[i]
				}
				asgs = append(asgs, asg{l, r, s})
			}
		case *ast.IncDecStmt:
			asgs = append(asgs, asg{s.X, nil, s})
		case *ast.DeclStmt:
			gd := s.Decl.(*ast.GenDecl)
			for _, sp := range gd.Specs {
				if vs, ok := sp.(*ast.ValueSpec); ok {
					for i, id := range vs.Names {
						if len(vs.Values) == 0 {
							zeroDecl[info.Defs[id]] = true
						} else if len(vs.Values) == len(vs.Names) {
							asgs = append(asgs, asg{id, vs.Values[i], s})
						} else {
							asgs = append(asgs, asg{id, nil, s})
						}
					}
				}
			}
		}
		return true
	})
	for i := 0; i < ft.sig.Results().Len(); i++ {
		if r := ft.sig.Results().At(i); r.Name() != "" {
			zeroDecl[r] = true // a named result starts as the zero value
		}
	}
	// 1. make'd slices: the only targets of stores and copy, used linearly
	ft.mapVar = map[types.Object]bool{}
	for _, a := range asgs {
		if a.rhs != nil && ft.isRefMapExpr(a.rhs) {
			continue // make of a map of Config.RefMaps (methods.go)
		}
		if a.rhs != nil && (isCall(a.rhs, "make") != nil || ft.freshCall(a.rhs)) {
			o := obj(a.lhs)
			if _, ok := ft.isLocal(o); !ok || (ft.freshCall(a.rhs) && !ft.storedInto(o)) {
				if ft.freshCall(a.rhs) {
					continue // the result is not stored into: an ordinary value
				}
				t.fail(a.node, "make: the result must be assigned to a local variable")
			}
			if c := isCall(a.rhs, "make"); c != nil && len(c.Args) > 0 && t.kindOf(info.Types[c.Args[0]].Type) == kMap {
				ft.mapVar[o] = true
				continue
			}
			ft.makeVar[o] = true
		}
	}
	for o := range ft.makeVar {
		n := 0
		for _, a := range asgs {
			if obj(a.lhs) == o && !ft.selfSlice(a.lhs, a.rhs) {
				n++
			}
		}
		if n != 1 {
			t.fail(ft.fd, "variable %s made by make is assigned more than once", o.Name())
		}
	}
	ast.Inspect(ft.root, func(n ast.Node) bool {
		id, ok := n.(*ast.Ident)
		if !ok {
			return true
		}
		o := info.Uses[id]
		if o == nil || !ft.makeVar[o] {
			return true
		}
		p := ft.parents[id]
		for {
			if pe, ok := p.(*ast.ParenExpr); ok {
				p = ft.parents[pe]
			} else {
				break
			}
		}
		switch p := p.(type) {
		case *ast.IndexExpr:
			if ast.Unparen(p.X) == ast.Expr(id) {
				return true
			}
		case *ast.CallExpr:
			if b := ft.builtin(p); b == "len" || (b == "copy" && ast.Unparen(p.Args[0]) == ast.Expr(id)) {
				return true
			}
		case *ast.ReturnStmt:
			return true
		}
		if ft.ownedUse(id) {
			return true
		}
		t.fail(id, "slice %s made by make is used in a way that may create an alias (allowed: %s[i], %s[i] = v, len, copy(%s, ...), return)", id.Name, id.Name, id.Name, id.Name)
		return true
	})
	ast.Inspect(ft.root, func(n ast.Node) bool {
		switch s := n.(type) {
		case *ast.AssignStmt:
			for _, l := range s.Lhs {
				if ix, ok := ast.Unparen(l).(*ast.IndexExpr); ok {
					if ft.isRefMapExpr(ix.X) {
						continue // methods.go
					}
					if o := obj(ix.X); o == nil || !(ft.makeVar[o] || ft.mapVar[o]) {
						t.fail(l, "element store into a slice that was not made by make in this function")
					}
				}
			}
		case *ast.IncDecStmt:
			if _, ok := ast.Unparen(s.X).(*ast.IndexExpr); ok {
				t.fail(s, "element store by ++/--")
			}
		case *ast.CallExpr:
			if ft.builtin(s) == "copy" {
				if o := obj(s.Args[0]); o == nil || !ft.makeVar[o] {
					t.fail(s, "copy into a slice that was not made by make in this function")
				}
				if _, ok := ft.parents[s].(*ast.ExprStmt); !ok {
					t.fail(s, "copy used as an expression")
				}
			}
		}
		return true
	})
	// 2. append only as x = append(x, ...) on an owned target that starts empty
	cutBack := map[types.Object]bool{} // append targets that are also cut back (data.go)
	appendTargets := map[string]ast.Expr{}
	ast.Inspect(ft.root, func(n ast.Node) bool {
		c, ok := n.(*ast.CallExpr)
		if !ok || ft.builtin(c) != "append" {
			return true
		}
		as, ok := ft.parents[c].(*ast.AssignStmt)
		if !ok || len(as.Lhs) != 1 || len(as.Rhs) != 1 || as.Tok != token.ASSIGN || len(c.Args) == 0 ||
			key(as.Lhs[0]) == "" || key(as.Lhs[0]) != key(c.Args[0]) {
			t.fail(c, "append is supported only in the form x = append(x, ...) (x a local variable or a field of one)")
		}
		appendTargets[key(as.Lhs[0])] = as.Lhs[0]
		return true
	})
	isEmptyInit := func(e ast.Expr) bool {
		if e == nil {
			return false
		}
		e = ast.Unparen(e)
		if id, ok := e.(*ast.Ident); ok && id.Name == "nil" && info.Uses[id] == types.Universe.Lookup("nil") {
			return true
		}
		if c := isCall(e, "make"); c != nil {
			return true
		}
		return false
	}
	var keys []string
	for k := range appendTargets {
		keys = append(keys, k)
	}
	sort.Strings(keys)
	for _, k := range keys {
		target := appendTargets[k]
		root := ft.rootVar(target)
		_, isDeref := ast.Unparen(target).(*ast.StarExpr) // *p = append(*p, ...): the pointee is the caller's (state.go: checkState)
		for i := 0; i < ft.sig.Params().Len() && !isDeref; i++ {
			if ft.sig.Params().At(i) == root {
				t.fail(target, "append to (a field of) parameter %s", root.Name())
			}
		}
		_, isField := ast.Unparen(target).(*ast.SelectorExpr)
		ft.checkOwnedAppend(target, root) // methods.go
		for _, a := range asgs {
			if key(a.lhs) == k {
				if a.rhs != nil && (isCall(a.rhs, "append") != nil || isEmptyInit(a.rhs)) {
					continue
				}
				if !isField && ft.selfSlice(a.lhs, a.rhs) {
					// x = x[a:b] on an append target that does not escape
					ft.noEscape(types.Object(root), a.node)
					cutBack[types.Object(root)] = true
					continue
				}
				t.fail(a.node, "the append target is also assigned something that may share its backing array")
			}
			if isField && obj(a.lhs) == types.Object(root) {
				// whole-struct assignment of the root: new(T), or a literal whose field is empty
				if a.rhs != nil && isCall(a.rhs, "new") != nil {
					continue
				}
				if cl, ok := ast.Unparen(a.rhs).(*ast.CompositeLit); ok && ft.literalFieldEmpty(cl, ast.Unparen(target).(*ast.SelectorExpr).Sel.Name) {
					continue
				}
				t.fail(a.node, "the struct whose field is an append target is assigned a value whose field may share a backing array")
			}
		}
		if !isField && !isDeref && !zeroDecl[root] {
			ok := false
			for _, a := range asgs {
				if key(a.lhs) == k && isEmptyInit(a.rhs) {
					ok = true
				}
			}
			if !ok {
				t.fail(target, "append target %s does not start as an empty slice", root.Name())
			}
		}
	}
	// 3. pointers: only p := new(T); p.f; return p
	ast.Inspect(ft.root, func(n ast.Node) bool {
		e, ok := n.(ast.Expr)
		if !ok {
			return true
		}
		tv, ok := info.Types[e]
		if !ok || tv.IsType() {
			if id, isId := e.(*ast.Ident); !isId || info.Uses[id] == nil {
				return true
			}
		}
		var T types.Type
		if ok {
			T = tv.Type
		}
		if id, isId := e.(*ast.Ident); isId {
			if o, ok := info.Uses[id].(*types.Var); ok {
				T = o.Type()
			}
		}
		if T == nil {
			return true
		}
		if _, isPtr := types.Unalias(T).Underlying().(*types.Pointer); !isPtr {
			return true
		}
		p := ft.parents[e]
		if ft.ptrAllowed(e, p, T) {
			return true // state.go
		}
		if id, isId := e.(*ast.Ident); isId && ft.segPtrUseOK(id) || ft.segPtrChainOK(e) || ft.nullableUseOK(e, T) {
			return true // segstate.go
		}
		if ft.inputVarUseOK(e) {
			return true // segfail.go
		}
		if ft.partialLitAddrOK(e) {
			return true // partiallit.go
		}
		if ft.segPtrFieldArgOK(e) {
			return true // segfail.go
		}
		if u, isAddr := e.(*ast.UnaryExpr); isAddr && u.Op == token.AND && ft.opaqueVar(e) != nil {
			if _, isArg := ft.up(e).(*ast.CallExpr); isArg {
				return true // &x handed to a table function (data.go)
			}
		}
		switch x := e.(type) {
		case *ast.ParenExpr:
			return true
		case *ast.CallExpr:
			if ft.builtin(x) == "new" {
				if as, ok := p.(*ast.AssignStmt); ok && len(as.Lhs) == 1 && len(as.Rhs) == 1 {
					if _, ok := as.Lhs[0].(*ast.Ident); ok {
						return true
					}
				}
			}
			t.fail(e, "pointer-valued expression (only p := new(T) is supported)")
		case *ast.Ident:
			if x.Name == "nil" {
				t.fail(e, "nil pointer")
			}
			switch p := p.(type) {
			case *ast.SelectorExpr:
				if p.X == e {
					return true
				}
			case *ast.ReturnStmt:
				return true
			case *ast.AssignStmt:
				for _, l := range p.Lhs {
					if l == e && len(p.Rhs) == 1 {
						if c, ok := p.Rhs[0].(*ast.CallExpr); ok && ft.builtin(c) == "new" {
							return true
						}
					}
				}
			}
			t.fail(e, "pointer variable %s is used other than for field access and return", x.Name)
		default:
			t.fail(e, "pointer-valued expression")
		}
		return true
	})
	for _, a := range asgs {
		if id, ok := ast.Unparen(a.lhs).(*ast.Ident); ok {
			if o := obj(id); o != nil {
				if _, isPtr := types.Unalias(o.Type()).Underlying().(*types.Pointer); isPtr {
					n := 0
					for _, b := range asgs {
						if obj(b.lhs) == o {
							n++
						}
					}
					if n != 1 {
						t.fail(a.node, "pointer variable %s is assigned more than once", id.Name)
					}
				}
			}
		}
	}
	ft.checkData(cutBack)
	ft.checkMapUses() // methods.go
	ft.checkState()   // state.go
}

// literalFieldEmpty: in the struct literal cl the field is omitted or nil.
func (ft *funcTr) literalFieldEmpty(cl *ast.CompositeLit, field string) bool {
	tv, ok := ft.t.info.Types[cl]
	if !ok {
		return false
	}
	_, st, ok := ft.t.structOf(tv.Type)
	if !ok {
		return false
	}
	isNil := func(e ast.Expr) bool {
		id, ok := ast.Unparen(e).(*ast.Ident)
		return ok && id.Name == "nil" && ft.t.info.Uses[id] == types.Universe.Lookup("nil")
	}
	for i, el := range cl.Elts {
		if kv, ok := el.(*ast.KeyValueExpr); ok {
			if k, ok := kv.Key.(*ast.Ident); ok && k.Name == field {
				return isNil(kv.Value)
			}
			continue
		}
		if i < st.NumFields() && st.Field(i).Name() == field {
			return isNil(el)
		}
	}
	return true
}

package go2coq_test

import (
	"fmt"
	"go/ast"
	"go/parser"
	"go/token"
	"os"
	"os/exec"
	"path/filepath"
	"strings"
	"testing"

	"verif/harness/go2coq"
	"verif/harness/go2coq/internal/synthhandler"
)

const hPkg = "verif/harness/go2coq/internal/synthhandler"

var hStubs = map[string]string{
	"errors":  "package errors\nfunc New(text string) error\n",
	"io":      "package io\ntype Writer interface {\n\tWrite(p []byte) (n int, err error)\n}\n",
	"fmt":     "package fmt\nimport \"io\"\nfunc Fprintf(w io.Writer, format string, a ...any) (n int, err error)\n",
	"os":      "package os\nfunc Getenv(key string) string\nfunc Setenv(key, value string) error\n",
	"strings": "package strings\ntype Builder struct{}\nfunc (b *Builder) WriteString(s string) (int, error)\nfunc (b *Builder) String() string\nfunc HasPrefix(s, prefix string) bool\nfunc HasSuffix(s, suffix string) bool\nfunc TrimPrefix(s, prefix string) string\n",
}

func hCfg() *go2coq.Config {
	lookup := "(*" + hPkg + ".Srv).lookup"
	return &go2coq.Config{
		Prefix: "h_",
		Stubs:  hStubs,
		Lib: map[string]go2coq.LibFunc{
			"errors.New":                     {IsError: true},
			"fmt.Fprintf":                    {Coq: "t_Fprintf", Mutates: true, Monadic: true},
			"strings.HasPrefix":              {Coq: "go_bytes_HasPrefix"},
			"strings.HasSuffix":              {Coq: "go_bytes_HasSuffix"},
			"strings.TrimPrefix":             {Coq: "go_bytes_TrimPrefix", Monadic: true},
			"error.Error":                    {Coq: "t_errtext"},
			hPkg + ".Srv.logf":               {Discard: true},
			"(*" + hPkg + ".Srv).mark":       {Coq: "t_mark"},
			lookup:                           {Oracle: true},
			"(*" + hPkg + ".Srv).do":         {Oracle: true},
			"(*strings.Builder).WriteString": {Coq: "unused"},
		},
		Structs: map[string]go2coq.Struct{
			hPkg + ".Srv": {CoqType: "t_srv", Ctor: "t_mkSrv", Partial: true, Owned: []string{"seen"},
				Fields: []go2coq.Field{{Go: "dir", Getter: "t_dir"}, {Go: "seen", Getter: "t_seen"}, {Go: "docs", Getter: "t_docs"}}},
			hPkg + ".Req":    {CoqType: "bytes", Ctor: "t_id", Fields: []go2coq.Field{{Go: "U", Getter: "t_id"}}},
			hPkg + ".Loc":    {CoqType: "bytes", Ctor: "t_id", Fields: []go2coq.Field{{Go: "Path", Getter: "t_id"}}},
			hPkg + ".Doc":    {CoqType: "(bytes * list bytes)%type", Ctor: "pair", Fields: []go2coq.Field{{Go: "Name", Getter: "fst"}, {Go: "Lines", Getter: "snd"}}},
			hPkg + ".packed": {CoqType: "(bytes * bool)%type", Ctor: "pair", Fields: []go2coq.Field{{Go: "text", Getter: "fst"}, {Go: "err", Getter: "snd"}}},
		},
		Opaque:   map[string]go2coq.Opaque{"io.Writer": {CoqType: "bytes"}},
		Nullable: []string{"*" + hPkg + ".Doc"},
		Segments: []go2coq.Segment{
			{Func: "Srv.Scan", Name: "item", In: "strings.HasPrefix", State: []string{"s"}},
			{Func: "Srv.Handle", Name: "front", Before: lookup, State: []string{"w"}},
			{Func: "Srv.Handle", Name: "front2", In: "fmt.Fprintf#2", Up: 1, Before: lookup, State: []string{"w"}},
			{Func: "Srv.Handle", Name: "empty", In: "fmt.Fprintf#2", State: []string{"w"}},
			{Func: "Srv.Handle", Name: "nodoc", Cond: "fmt.Fprintf#3"},
			{Func: "Srv.Handle", Name: "back", After: lookup, State: []string{"w"}},
			{Func: "Srv.Handle", Name: "skip", In: "(*strings.Builder).WriteString", Before: "(*strings.Builder).WriteString"},
			{Func: "Srv.Handle", Name: "piece", Args: "(*strings.Builder).WriteString"},
			{Func: "Srv.Find", Name: "key", Before: "os.Getenv"},
			{Func: "Srv.Pick", Name: "line", After: "os.Getenv", Before: "var:tmp"},
		},
	}
}

const hPreamble = `From Coq Require Import List ZArith NArith Bool.
From Coq.Strings Require Import Byte.
Import ListNotations.
From GI Require Import Lib.Bytes Lib.GoSem Lib.GoSemData Lib.GoSemHandler.
Import GoNotations.
Local Open Scope go_scope.
Local Open Scope Z_scope.

(* the server: directory, seen, and (in the place of docs) what mark returns *)
Record t_srv := t_mkSrv { t_dir : bytes; t_seen : list bytes; t_docs : bytes -> bytes }.
Definition t_mark (s : t_srv) (n : bytes) : bytes := t_docs s n.
Definition t_id (b : bytes) : bytes := b.
Definition t_errtext (e : bool) : bytes := [x65].
Definition t_Fprintf (w f : bytes) (args : list fmt_arg) : res bytes :=
  t <- go_fmt_Sprintf f args ;; Ok (w ++ t).
Definition unused (b : bytes) (s : bytes) : Z * bool := (0, false).

`

func TestHandlerSegmentsAgainstGo(t *testing.T) {
	src, err := os.ReadFile("internal/synthhandler/synthhandler.go")
	if err != nil {
		t.Fatal(err)
	}
	fset := token.NewFileSet()
	f, err := parser.ParseFile(fset, "synthhandler.go", src, parser.ParseComments)
	if err != nil {
		t.Fatal(err)
	}
	r, err := go2coq.Translate(fset, []*ast.File{f}, hPkg, hCfg())
	if err != nil {
		t.Fatal(err)
	}
	var ex []string
	add := func(call, want string) { ex = append(ex, fmt.Sprintf("(%s) = %s", call, want)) }
	cb := func(s string) string { return coqBytes([]byte(s)) }
	cl := func(xs []string) string {
		var p []string
		for _, x := range xs {
			p = append(p, cb(x))
		}
		return "[" + strings.Join(p, "; ") + "]"
	}
	docs := map[string]*synthhandler.Doc{
		"a":     {Name: "A", Lines: []string{"one", "#two", "three"}},
		"b":     {Name: "B", Lines: nil},
		"dir/k": {Name: "K", Lines: []string{"a", "x"}},
		"dir/a": {Name: "DA", Lines: []string{"a"}},
	}
	// t_docs as a Coq function: what mark returns
	var markCases []string
	for k, d := range docs {
		if len(d.Lines) > 0 {
			markCases = append(markCases, fmt.Sprintf("if bytes_eqb n %s then %s else", cb(k), cb(d.Lines[0])))
		}
	}
	markFn := "(fun n : bytes => " + strings.Join(markCases, " ") + " [])"
	srvTerm := func(s *synthhandler.Srv) string {
		return fmt.Sprintf("(t_mkSrv %s %s %s)", cb("dir"), cl(s.Seen()), markFn)
	}
	docTerm := func(d *synthhandler.Doc) string {
		if d == nil {
			return "None"
		}
		return fmt.Sprintf("(Some (%s, %s))", cb(d.Name), cl(d.Lines))
	}
	// Scan: the loop body, item by item
	for _, names := range [][]string{{"x", "", "y"}, {"k", "!z", "w"}, {}} {
		s := synthhandler.New("dir", docs)
		for _, n := range names {
			before := srvTerm(s)
			old := len(s.Seen())
			err := s.Scan([]string{n})
			switch {
			case err != nil:
				add("h_Srv_Scan_item "+before+" "+cb(n), "Ok (Return ("+before+", true))")
			case len(s.Seen()) == old:
				add("h_Srv_Scan_item "+before+" "+cb(n), "Ok (Continue "+before+")")
			default:
				add("h_Srv_Scan_item "+before+" "+cb(n), "Ok (Normal "+srvTerm(s)+")")
			}
		}
	}
	// Handle: front, then (with the looked-up document and the cached value) back
	for _, seen := range [][]string{nil, {"dir/k", "dir/a", "zz"}} {
		for _, path := range []string{"/x", "/d/", "/d/a", "/d/b", "/d/none", "/d/dir/k"} {
			s := synthhandler.New("dir", docs)
			s.SetSeen(seen)
			var w strings.Builder
			w.WriteString("pre>")
			s.Handle(&w, &synthhandler.Req{U: &synthhandler.Loc{Path: path}})
			got := w.String()
			args := srvTerm(s) + " " + cb("pre>") + " " + cb(path)
			name := strings.TrimPrefix(path, "/d/")
			if !strings.HasPrefix(path, "/d/") || name == "" {
				add("h_Srv_Handle_front "+args, "Ok (Return "+cb(got)+")")
				add("h_Srv_Handle_front2 "+args, "Ok (Return "+cb(got)+")")
				if name == "" && strings.HasPrefix(path, "/d/") {
					add("h_Srv_Handle_empty "+srvTerm(s)+" "+cb("pre>"), "Ok (Return "+cb(got)+")")
				}
				continue
			}
			best := ""
			for _, c := range seen {
				if s.Mark(c) == name {
					best = c
				}
			}
			add("h_Srv_Handle_front "+args, "Ok (Normal ("+cb("pre>")+", "+cb(name)+", "+cb(best)+"))")
			add("h_Srv_Handle_front2 "+args, "Ok (Normal ("+cb("pre>")+", "+cb(name)+", "+cb(best)+"))")
			d := docs[name]
			add("h_Srv_Handle_nodoc "+docTerm(d), "Ok "+coqB(d == nil))
			// the cached value: computed here as the closure computes it
			text := ""
			if d != nil {
				for _, l := range d.Lines {
					add("h_Srv_Handle_skip "+cb(l), map[bool]string{true: "Ok (Continue tt)", false: "Ok (Normal tt)"}[strings.HasPrefix(l, "#")])
					if !strings.HasPrefix(l, "#") {
						add("h_Srv_Handle_piece "+docTerm(d)+" "+cb(l), "Ok "+cb(d.Name+":"+l+";"))
						text += d.Name + ":" + l + ";"
					}
				}
			}
			add(fmt.Sprintf("h_Srv_Handle_back %s %s %s %s (%s, false)", srvTerm(s), cb("pre>"), cb(best), docTerm(d), cb(text)),
				map[bool]string{true: "Ok (Return " + cb(got) + ")", false: "Ok (Normal " + cb(got) + ")"}[d == nil])
			if d != nil {
				add(fmt.Sprintf("h_Srv_Handle_back %s %s %s %s ([], true)", srvTerm(s), cb("pre>"), cb(best), docTerm(d)), "Ok (Return "+cb("pre>E:e\n")+")")
			}
		}
	}
	// a nil document reaching a field read is Go's nil dereference
	add("h_Srv_Handle_piece None "+cb("x"), "Panic")
	s := synthhandler.New("dir", docs)
	for _, n := range []string{"", "k", "zz"} {
		if n == "" {
			if s.Find(n) != nil {
				t.Fatal("Find(\"\")")
			}
			add("h_Srv_Find_key "+srvTerm(s)+" "+cb(n), "Ok (Return None)")
		} else {
			add("h_Srv_Find_key "+srvTerm(s)+" "+cb(n), "Ok (Normal "+cb("dir/"+n)+")")
		}
	}
	for _, d := range []*synthhandler.Doc{nil, docs["a"], docs["b"]} {
		for _, want := range []string{"e", "o", "zz", ""} {
			got := s.Pick(d, want)
			if d == nil {
				add("h_Srv_Pick_line "+docTerm(d)+" "+cb(want), "Ok (Return "+cb(got)+")")
			} else {
				add("h_Srv_Pick_line "+docTerm(d)+" "+cb(want), "Ok (Normal "+cb(got)+")")
			}
		}
	}

	theories, _ := filepath.Abs("../../coq/theories")
	if th := os.Getenv("GO2COQ_THEORIES"); th != "" {
		theories = th
	}
	if _, err := os.Stat(filepath.Join(theories, "Lib", "GoSemHandler.vo")); err != nil {
		t.Skip("compiled Lib/GoSemHandler.vo not found under " + theories)
	}
	if _, err := exec.LookPath("coqc"); err != nil {
		t.Skip("coqc not found")
	}
	dir := t.TempDir()
	var b strings.Builder
	b.WriteString(hPreamble)
	b.WriteString(r.Text)
	for i, e := range ex {
		fmt.Fprintf(&b, "Example ex%d : %s.\nProof. vm_compute. reflexivity. Qed.\n", i, e)
	}
	file := filepath.Join(dir, "SynthHandler.v")
	if err := os.WriteFile(file, []byte(b.String()), 0o644); err != nil {
		t.Fatal(err)
	}
	if keep := os.Getenv("GO2COQ_KEEP"); keep != "" {
		os.WriteFile(keep+".handler", []byte(b.String()), 0o644)
	}
	cmd := exec.Command("timeout", "300", "coqc", "-q", "-Q", theories, "GI", file)
	cmd.Dir = dir
	out, err := cmd.CombinedOutput()
	if err != nil {
		t.Fatalf("coqc: %v\n%s", err, out)
	}
	t.Logf("%d evaluations of %d translated segments agree with Go", len(ex), len(r.Funcs))
}

// What lies outside the conditions of segstate.go is refused, with a message naming it.
func TestHandlerSegmentRejects(t *testing.T) {
	head := "package synthhandler\nimport (\"errors\"; \"fmt\"; \"io\"; \"os\"; \"strings\")\n" +
		"var _ = errors.New\nvar _ = fmt.Fprintf\nvar _ = strings.HasPrefix\nvar _ io.Writer\n" +
		"type Loc struct{ Path string }\ntype Req struct{ U *Loc }\ntype Doc struct { Name string; Lines []string }\n" +
		"type Srv struct { dir string; seen []string; logf func(string, ...any); docs map[string]*Doc }\n" +
		"func (s *Srv) lookup(name string) *Doc { return nil }\nfunc (s *Srv) mark(name string) string { return \"\" }\nfunc (s *Srv) do(key any, f func() any) any { return f() }\n"
	seg := func(sg go2coq.Segment) []go2coq.Segment { sg.Func, sg.Name = "Srv.F", "s"; return []go2coq.Segment{sg} }
	lookup := "(*" + hPkg + ".Srv).lookup"
	cases := []struct {
		name, body, want string
		segs             []go2coq.Segment
		owned            bool
	}{
		{"state-unknown", "func (s *Srv) F(w io.Writer) { os.Getenv(\"A\"); fmt.Fprintf(w, \"x\"); os.Setenv(\"B\", \"\") }", "neither the receiver nor a parameter",
			seg(go2coq.Segment{After: "os.Getenv", Before: "os.Setenv", State: []string{"v"}}), true},
		{"state-type", "func (s *Srv) F(n string) { os.Getenv(\"A\"); n = n + n; os.Setenv(\"B\", n) }", "only a pointer receiver",
			seg(go2coq.Segment{After: "os.Getenv", Before: "os.Setenv", State: []string{"n"}}), true},
		{"opaque-not-state", "func (s *Srv) F(w io.Writer) { os.Getenv(\"A\"); fmt.Fprintf(w, \"x\"); os.Setenv(\"B\", \"\") }", "parameter w of the opaque type",
			seg(go2coq.Segment{After: "os.Getenv", Before: "os.Setenv"}), true},
		{"append-not-owned", "func (s *Srv) F(n string) { os.Getenv(\"A\"); s.seen = append(s.seen, n); os.Setenv(\"B\", \"\") }", "does not list as owned",
			seg(go2coq.Segment{After: "os.Getenv", Before: "os.Setenv", State: []string{"s"}}), false},
		{"store-without-state", "func (s *Srv) F(n string) { os.Getenv(\"A\"); s.dir = n; os.Setenv(\"B\", \"\") }", "assignment through the pointer",
			seg(go2coq.Segment{After: "os.Getenv", Before: "os.Setenv"}), true},
		{"nullable-store", "func (s *Srv) F(d *Doc) { os.Getenv(\"A\"); d.Name = \"x\"; os.Setenv(\"B\", \"\") }", "store through the pointer d",
			seg(go2coq.Segment{After: "os.Getenv", Before: "os.Setenv"}), true},
		{"nullable-new", "func (s *Srv) F() *Doc { os.Getenv(\"A\"); d := new(Doc); os.Setenv(\"B\", \"\"); return d }", "new(T) of the pointer type",
			seg(go2coq.Segment{After: "os.Getenv", Before: "os.Setenv"}), true},
		{"discard-impure", "func (s *Srv) F(x []string) { os.Getenv(\"A\"); s.logf(\"%s\", x[0]); os.Setenv(\"B\", \"\") }", "whose call is dropped",
			seg(go2coq.Segment{After: "os.Getenv", Before: "os.Setenv"}), true},
		{"oracle-in-loop", "func (s *Srv) F(x []string) int { os.Getenv(\"A\"); n := 0; for _, k := range x { if s.lookup(k) == nil { n++ } }; os.Setenv(\"B\", \"\"); return n }", "inside a loop",
			seg(go2coq.Segment{After: "os.Getenv", Before: "os.Setenv"}), true},
		{"return-in-literal", "func (s *Srv) F(x string) { s.do(x, func() any { os.Getenv(\"A\"); if x == \"\" { return 1 }; os.Setenv(\"B\", \"\"); return 2 }) }", "contains a return statement",
			seg(go2coq.Segment{After: "os.Getenv", Before: "os.Setenv"}), true},
		{"args-and-cond", "func (s *Srv) F(x string) { os.Setenv(\"B\", x+x) }", "Args excludes",
			seg(go2coq.Segment{Args: "os.Setenv", Before: "os.Setenv"}), true},
		{"nth-missing", "func (s *Srv) F(x string) { os.Getenv(\"A\"); x = x + x; os.Setenv(\"B\", x) }", "no call of os.Getenv#2",
			seg(go2coq.Segment{After: "os.Getenv#2", Before: "os.Setenv"}), true},
		{"var-missing", "func (s *Srv) F(x string) { os.Getenv(\"A\"); x = x + x; os.Setenv(\"B\", x) }", "calls var:tmp",
			seg(go2coq.Segment{After: "os.Getenv", Before: "var:tmp"}), true},
		{"error-text", "func (s *Srv) F(w io.Writer, e error) { os.Getenv(\"A\"); fmt.Fprintf(w, \"%s\", e.Error()); os.Setenv(\"B\", \"\") }", "error.Error",
			seg(go2coq.Segment{After: "os.Getenv", Before: "os.Setenv", State: []string{"w"}}), true},
	}
	for _, c := range cases {
		cfg := hCfg()
		cfg.Segments = c.segs
		if !c.owned {
			st := cfg.Structs[hPkg+".Srv"]
			st.Owned = nil
			cfg.Structs[hPkg+".Srv"] = st
		}
		if c.name == "error-text" {
			delete(cfg.Lib, "error.Error")
		}
		fset := token.NewFileSet()
		f, err := parser.ParseFile(fset, "x.go", head+c.body+"\n", 0)
		if err != nil {
			t.Fatalf("%s: %v", c.name, err)
		}
		_, err = go2coq.Translate(fset, []*ast.File{f}, hPkg, cfg)
		if err == nil {
			t.Errorf("%s: accepted", c.name)
			continue
		}
		if _, ok := err.(*go2coq.Unsupported); !ok || !strings.Contains(err.Error(), c.want) {
			t.Errorf("%s: error %q does not mention %q", c.name, err, c.want)
		}
	}
	_ = lookup
	// an oracle call outside a segment
	cfg := hCfg()
	cfg.Segments = nil
	cfg.Funcs = []string{"G"}
	fset := token.NewFileSet()
	f, _ := parser.ParseFile(fset, "x.go", head+"func G(s *Srv) bool { return s.lookup(\"a\") == nil }\n", 0)
	if _, err := go2coq.Translate(fset, []*ast.File{f}, hPkg, cfg); err == nil {
		t.Errorf("oracle call outside a segment: accepted")
	}
}

// Statements added before or after a segment, comments and layout change nothing; a renamed
// local changes bound names only.
func TestHandlerSegmentStable(t *testing.T) {
	src, _ := os.ReadFile("internal/synthhandler/synthhandler.go")
	tr := func(s string) string {
		fset := token.NewFileSet()
		f, err := parser.ParseFile(fset, "synthhandler.go", s, parser.ParseComments)
		if err != nil {
			t.Fatal(err)
		}
		r, err := go2coq.Translate(fset, []*ast.File{f}, hPkg, hCfg())
		if err != nil {
			t.Fatal(err)
		}
		return r.Text
	}
	a := tr(string(src))
	if b := tr(strings.ReplaceAll(string(src), "\td := s.lookup(name)\n", "\t// c\n\td := s.lookup(\n\t\tname)\n")); a != b {
		t.Error("a comment or a changed layout at the delimiting call changes the generated text")
	}
	c := tr(strings.ReplaceAll(string(src), "best", "top"))
	if c == a || strings.ReplaceAll(c, "v_top", "v_best") != a {
		t.Error("renaming a local changes more than the bound names")
	}
	// a change inside the closure whose value is an oracle does not reach the segment around it,
	// but does reach the segments taken from inside the closure
	d := tr(strings.ReplaceAll(string(src), "\"#\"", "\"%\""))
	if d == a || !strings.Contains(d, "x25") {
		t.Error("a change of the filter inside the closure is not visible in the generated text")
	}
}

package go2coq

// World mode (world.go): VALUES that effectful code moves between its library calls, beyond
// world_data.go -- what a function needs that reads a record from a file, checks it and hands
// buffers to library functions that fill them.  Vocabulary: Lib/GoSemWorldVal.v on top of
// Lib/GoSem.v, Lib/GoSemSeg.v, Lib/GoSemWorld.v.  Hooks (one-liners marked "world_values.go")
// are in world.go, world_expr.go, world_stmt.go and world_data.go.
//
//	[N]byte, and a named type over it -> bytes (exactly N bytes).  Arrays are values in Go
//	  (assignment, parameter passing, struct fields and comparison copy / compare the
//	  elements), so the value semantics is exact; the zero value is go_zero_array N; T{} of
//	  such a type is the zero value.  The one way to alias an array, a slice expression x[a:b]
//	  on it, is accepted only as an argument of a call (it is not stored anywhere by the
//	  translated code; that the library function does not keep it is the table's claim).
//	x[i] on a string / []byte / [N]byte: the element as an integer (byte_Z of the byte), uint8
//	  being an integer type like the others.
//	make([]byte, n) -> go_make_bytes n (panics for n < 0).
//	WLib.Out: the (1-based) indices of the arguments -- 0: the receiver -- that the library
//	  function CHANGES: a local variable of a table type (the Coq function takes its value
//	  there and returns the value afterwards), or a local variable x / a slice expression
//	  x[a:b] of kind bytes (the Coq function takes THREE terms there: the whole value of x and
//	  the bounds a, b -- 0 and len x for a plain x -- and returns the whole value of x
//	  afterwards: a function that writes through the slice it is given can write to
//	  x[a:cap]).  The values afterwards stand, in the order of Out, behind the world and in
//	  front of the Go results.  Condition checked: a []byte variable handed over like this is
//	  made by make and not mentioned between its definition and the call (nothing else shares
//	  its backing array).
//	A call of a FUNCTION-VALUED FIELD of a struct of a translated package, x.f(args), when the
//	  table has the key "importpath.T.f": the table function applied to the arguments (the
//	  table claims what the field holds; x itself is not evaluated: it is a variable or a
//	  field path).
//	WorldConfig.PkgVars: "importpath.name" -> Coq term for a package-level variable of a
//	  translated package that the functions only READ (the table claims that nothing assigns
//	  it while they run).
//	f := func(params) results { return e1, ..., en } with pure result expressions (no call
//	  that can panic, no effect) that mention nothing but the parameters: a Coq function;
//	  calls of f are applications (as for parameters of function type).
//	WLib.AnyArgs: the arguments of the variadic parameter are wrapped by their static kind in
//	  wany (Lib/GoSemWorldVal.v): strings / []byte / [N]byte, integers, uint8, bool, errors.
//	INSTANCE KEYS: for a table function that takes interface parameters, the key followed by
//	  the static types of the arguments, "io.Copy(hash.Hash,*os.File)", is looked up before
//	  the plain key: one Go function, several denotations by the types it is used at.
//	panic(e) with a non-constant e: e is evaluated (it may panic itself), then Panic.
//	&T{...} for T in WorldConfig.ErrStructs also when T is a type of a translated package.

import (
	"fmt"
	"go/ast"
	"go/token"
	"go/types"
	"strings"
)

// isByteArray: T is [N]byte or a named type over it.
func isByteArray(T types.Type) (int64, bool) {
	if T == nil {
		return 0, false
	}
	a, ok := types.Unalias(T).Underlying().(*types.Array)
	if !ok {
		return 0, false
	}
	b, ok := a.Elem().Underlying().(*types.Basic)
	if !ok || b.Kind() != types.Uint8 {
		return 0, false
	}
	return a.Len(), true
}

// arrayZero: the zero value of a byte array type.
func (t *wtr) arrayZero(T types.Type) (string, bool) {
	if _, named := t.cfg.Types[wTypeKey(T)]; named {
		return "", false
	}
	n, ok := isByteArray(T)
	if !ok {
		return "", false
	}
	return fmt.Sprintf("(go_zero_array %d%%Z)", n), true
}

// checkArraySlice: a slice expression on an array stands as an argument of a call.
func (fn *wfn) checkArraySlice(x *ast.SliceExpr) {
	if _, ok := isByteArray(fn.info().Types[x.X].Type); !ok {
		return
	}
	var p ast.Node = fn.parents[x]
	for {
		if pe, ok := p.(*ast.ParenExpr); ok {
			p = fn.parents[pe]
			continue
		}
		break
	}
	if c, ok := p.(*ast.CallExpr); ok {
		for _, a := range c.Args {
			if ast.Unparen(a) == ast.Expr(x) {
				return
			}
		}
	}
	fn.t.fail(x, "slice of an array other than as an argument of a call (it would alias the array)")
}

// fieldFuncCall: x.f(args) for a function-valued field f with a table entry.
func (t *wtr) fieldFuncCall(c *ast.CallExpr, x *ast.SelectorExpr, sel *types.Selection) (wcall, bool) {
	if sel.Kind() != types.FieldVal {
		return wcall{}, false
	}
	sig, ok := sel.Obj().Type().Underlying().(*types.Signature)
	if !ok {
		return wcall{}, false
	}
	R := sel.Recv()
	if p, ok := types.Unalias(R).Underlying().(*types.Pointer); ok {
		R = p.Elem()
	}
	n, ok := types.Unalias(R).(*types.Named)
	if !ok || n.Obj().Pkg() == nil || len(sel.Index()) != 1 {
		return wcall{}, false
	}
	key := n.Obj().Pkg().Path() + "." + n.Obj().Name() + "." + sel.Obj().Name()
	lf, ok := t.cfg.Lib[key]
	if !ok {
		return wcall{}, false
	}
	switch ast.Unparen(x.X).(type) {
	case *ast.Ident, *ast.SelectorExpr:
	default:
		t.fail(c, "call of the function-valued field %s on something other than a variable or a field path", key)
	}
	return wcall{kind: wcLib, lib: lf, key: key, sig: sig}, true
}

// instanceKey: the key followed by the static types of the arguments, when the table has it.
func (t *wtr) instanceKey(c *ast.CallExpr, key string) string {
	if t.cur == nil || c == nil {
		return key
	}
	var parts []string
	for _, a := range c.Args {
		tv, ok := t.cur.info.Types[a]
		if !ok || tv.Type == nil {
			return key
		}
		parts = append(parts, types.TypeString(types.Unalias(tv.Type), nil))
	}
	k := key + "(" + strings.Join(parts, ",") + ")"
	if _, ok := t.cfg.Lib[k]; ok {
		return k
	}
	return key
}

// pkgVar: a package-level variable of a translated package the table gives a value for.
func (fn *wfn) pkgVar(obj types.Object) (string, bool) {
	v, ok := obj.(*types.Var)
	if !ok || v.IsField() || v.Pkg() == nil || v.Parent() != v.Pkg().Scope() {
		return "", false
	}
	term, ok := fn.t.cfg.PkgVars[v.Pkg().Path()+"."+v.Name()]
	return term, ok
}

// localClosure: func(params) results { return e1, ..., en } as a Coq function.
func (fn *wfn) localClosure(fl *ast.FuncLit) ([]wpre, string) {
	t := fn.t
	as, ok := fn.parents[fl].(*ast.AssignStmt)
	if !ok || as.Tok != token.DEFINE || len(as.Lhs) != 1 || len(as.Rhs) != 1 {
		t.fail(fl, "function literal (supported: deferred, returned, handed to a library function, or f := func(...) ... { return e })")
	}
	if len(fl.Body.List) != 1 {
		t.fail(fl, "local function literal whose body is not a single return statement")
	}
	rs, ok := fl.Body.List[0].(*ast.ReturnStmt)
	if !ok {
		t.fail(fl, "local function literal whose body is not a single return statement")
	}
	sig := fn.info().Types[fl].Type.(*types.Signature)
	if sig.Variadic() || len(rs.Results) != sig.Results().Len() || sig.Results().Len() == 0 {
		t.fail(fl, "local function literal: variadic, or a return that does not list the results")
	}
	// mentions only its parameters
	ast.Inspect(fl.Body, func(n ast.Node) bool {
		id, ok := n.(*ast.Ident)
		if !ok {
			return true
		}
		if v, ok := fn.isLocal(fn.info().Uses[id]); ok && !(v.Pos() >= fl.Pos() && v.Pos() < fl.End()) {
			t.fail(id, "local function literal mentions the variable %s of the enclosing function", id.Name)
		}
		return true
	})
	var binders []string
	for i := 0; i < sig.Params().Len(); i++ {
		p := sig.Params().At(i)
		name := "_"
		if p.Name() != "" && p.Name() != "_" {
			name = fn.declare(p)
		}
		binders = append(binders, fmt.Sprintf("(%s : %s)", name, t.coqType(fl, p.Type())))
	}
	if len(binders) == 0 {
		binders = append(binders, "(_ : unit)")
	}
	var vals []string
	for i, e := range rs.Results {
		p, v := fn.expr(e, sig.Results().At(i).Type())
		if len(p) > 0 {
			t.fail(e, "result of a local function literal that can panic or has an effect")
		}
		vals = append(vals, v)
	}
	body := vals[0]
	if len(vals) > 1 {
		body = "(" + strings.Join(vals, ", ") + ")"
	}
	return nil, "(fun " + strings.Join(binders, " ") + " => " + body + ")"
}

// anyArg: one argument of a variadic parameter wrapped by its static kind.
func (fn *wfn) anyArg(a ast.Expr, key string) ([]wpre, string) {
	t := fn.t
	AT := fn.info().Types[a].Type
	if AT == nil {
		t.fail(a, "argument of the variadic parameter of %s without a type", key)
	}
	if b, ok := AT.(*types.Basic); ok && b.Info()&types.IsUntyped != 0 {
		AT = types.Default(AT)
	}
	p, v := fn.expr(a, AT)
	switch t.kindOf(AT) {
	case wkBytes:
		return p, "(WAnyV (GoAnyBytes " + v + "))"
	case wkBool:
		return p, "(WAnyV (GoAnyBool " + v + "))"
	case wkErr:
		return p, "(WAnyE " + v + ")"
	case wkZ:
		if b, ok := types.Unalias(AT).Underlying().(*types.Basic); ok && b.Kind() == types.Uint8 {
			return p, "(WAnyV (GoAnyByte (Z_byte " + v + ")))"
		}
		return p, "(WAnyV (GoAnyInt " + v + "))"
	}
	t.fail(a, "argument of type %s of the variadic parameter of %s", AT, key)
	return nil, ""
}

// outArg: an argument the library function changes: the terms handed over, the variable that
// takes the value afterwards.
func (fn *wfn) outArg(c *ast.CallExpr, a ast.Expr, key string) (pres []wpre, terms []string, v *types.Var) {
	t := fn.t
	a = ast.Unparen(a)
	local := func(e ast.Expr) *types.Var {
		id, ok := ast.Unparen(e).(*ast.Ident)
		if !ok {
			t.fail(a, "%s changes this argument: it must be a local variable (or a slice expression of one)", key)
		}
		lv, ok := fn.isLocal(fn.info().Uses[id])
		if !ok || lv == fn.recv || lv == fn.world {
			t.fail(a, "%s changes this argument: it must be a local variable (or a slice expression of one)", key)
		}
		return lv
	}
	if se, ok := a.(*ast.SliceExpr); ok {
		if se.Slice3 {
			t.fail(a, "three-index slice")
		}
		v = local(se.X)
		if t.kindOf(v.Type()) != wkBytes {
			t.fail(a, "slice of a value of type %s handed to %s", v.Type(), key)
		}
		base := fn.names[v]
		lo, hi := "0%Z", "(len "+base+")"
		if se.Low != nil {
			var p []wpre
			p, lo = fn.expr(se.Low, nil)
			pres = append(pres, p...)
		}
		if se.High != nil {
			var p []wpre
			p, hi = fn.expr(se.High, nil)
			pres = append(pres, p...)
		}
		fn.checkOutSlice(c, v, key)
		return pres, []string{base, lo, hi}, v
	}
	v = local(a)
	switch t.kindOf(v.Type()) {
	case wkBytes:
		fn.checkOutSlice(c, v, key)
		return nil, []string{fn.names[v], "0%Z", "(len " + fn.names[v] + ")"}, v
	case wkNamed:
		return nil, []string{fn.names[v]}, v
	}
	t.fail(a, "%s changes an argument of type %s (supported: table types, strings of bytes)", key, v.Type())
	return nil, nil, nil
}

// checkOutSlice: a []byte variable written through by a library function shares its backing
// array with nothing: it is made by make, and not mentioned between there and the call.
func (fn *wfn) checkOutSlice(c *ast.CallExpr, v *types.Var, key string) {
	if _, isArr := isByteArray(v.Type()); isArr {
		return
	}
	t := fn.t
	var def ast.Expr
	ast.Inspect(fn.f.fd.Body, func(n ast.Node) bool {
		as, ok := n.(*ast.AssignStmt)
		if !ok {
			return true
		}
		for i, l := range as.Lhs {
			// the defining assignment; later ones come after the call (nothing may mention the
			// variable in between) and give it a new value
			if id, ok := ast.Unparen(l).(*ast.Ident); ok && fn.info().Defs[id] == types.Object(v) && len(as.Lhs) == len(as.Rhs) {
				def = as.Rhs[i]
			}
		}
		return true
	})
	mk, ok := def.(*ast.CallExpr)
	if !ok {
		t.fail(c, "%s, which %s writes through, is not made by make", v.Name(), key)
	}
	if r := t.resolve(fn.p, mk); r.kind != wcBuiltin || r.builtin != "make" {
		t.fail(c, "%s, which %s writes through, is not made by make", v.Name(), key)
	}
	ast.Inspect(fn.f.fd.Body, func(n ast.Node) bool {
		id, ok := n.(*ast.Ident)
		if ok && fn.info().Uses[id] == types.Object(v) && id.Pos() > mk.End() && id.Pos() < c.Pos() {
			t.fail(id, "%s is mentioned between its make and the call of %s that writes through it", v.Name(), key)
		}
		return true
	})
}

// outCall: a call of a library function with Out arguments.
func (fn *wfn) outCall(c *ast.CallExpr, r wcall) ([]wpre, []string) {
	t := fn.t
	lf := r.lib
	if r.sig.Variadic() || len(c.Args) != r.sig.Params().Len() {
		t.fail(c, "call of %s with a different number of arguments than parameters (or variadic)", r.key)
	}
	isOut := map[int]bool{}
	for _, i := range lf.Out {
		if i < 0 || i > len(c.Args) || (i == 0 && r.sig.Recv() == nil && r.recv == nil) || isOut[i] {
			t.fail(c, "table entry of %s: Out index %d", r.key, i)
		}
		isOut[i] = true
	}
	var pres []wpre
	parts := []string{lf.Coq}
	switch lf.Kind {
	case WPure, WMonadic:
	case WWorld:
		if fn.world == nil {
			t.fail(c, "internal: call of %s, which has effects, from a function without", r.key)
		}
		parts = append(parts, fn.names[fn.world])
	default:
		t.fail(c, "table entry of %s: Out arguments with this kind", r.key)
	}
	outVar := map[int]*types.Var{}
	seen := map[*types.Var]bool{}
	add := func(i int, a ast.Expr) {
		p, terms, v := fn.outArg(c, a, r.key)
		if seen[v] {
			t.fail(a, "%s changes the variable %s through two arguments", r.key, v.Name())
		}
		seen[v] = true
		root := ast.Unparen(a)
		if se, ok := root.(*ast.SliceExpr); ok {
			root = se.X
		}
		fn.checkOrder(c, root, v)
		pres = append(pres, p...)
		parts = append(parts, terms...)
		outVar[i] = v
	}
	if r.recv != nil {
		if isOut[0] {
			if len(r.path) != 0 {
				t.fail(c, "%s changes its receiver, which is an embedded field", r.key)
			}
			add(0, r.recv)
		} else {
			p, base := fn.recvValue(c, r)
			pres = append(pres, p...)
			parts = append(parts, base)
		}
	}
	for i, a := range c.Args {
		if isOut[i+1] {
			add(i+1, a)
			continue
		}
		pt := r.sig.Params().At(i).Type()
		if p, v, ok := fn.ifaceArg(a, pt); ok {
			pres = append(pres, p...)
			parts = append(parts, v)
			continue
		}
		p, v := fn.expr(a, pt)
		pres = append(pres, p...)
		parts = append(parts, v)
	}
	var front []string
	if lf.Kind == WWorld {
		front = append(front, fn.names[fn.world])
	}
	var post []wpre
	for _, i := range lf.Out {
		tmp := fn.temp()
		front = append(front, tmp)
		v := outVar[i]
		post = append(post, wpre{pat: fn.names[v] + " : " + fn.varType(v), term: tmp, let: true})
	}
	pres, vals := fn.bindResults(pres, strings.Join(parts, " "), lf.Kind != WMonadic, r.sig.Results().Len(), front)
	return append(pres, post...), vals
}

// outTargets: the variables a call with Out arguments changes (for the analyses of world.go).
func (fn *wfn) outTargets(c *ast.CallExpr, r wcall, add func(*types.Var)) {
	for _, i := range r.lib.Out {
		var a ast.Expr
		switch {
		case i == 0:
			a = r.recv
		case i <= len(c.Args):
			a = c.Args[i-1]
		}
		if a == nil {
			continue
		}
		a = ast.Unparen(a)
		if se, ok := a.(*ast.SliceExpr); ok {
			a = ast.Unparen(se.X)
		}
		if id, ok := a.(*ast.Ident); ok {
			if v, ok := fn.isLocal(fn.info().Uses[id]); ok {
				add(v)
			}
		}
	}
}

// panicValue: panic(e) with a non-constant e.
func (fn *wfn) panicValue(c *ast.CallExpr, ind string) string {
	pres, _ := fn.expr(c.Args[0], nil)
	return wbinds(pres, ind) + ind + "Panic\n"
}

// recvMutated: the translated pointer method g may change the struct its receiver points to: it
// assigns a field of it, hands it to an update / Out call, or calls such a method on it.  (A
// method that does not leaves the receiver as it was: a caller may mention the receiver elsewhere
// in the statement of the call.)
func (t *wtr) recvMutated(g *wfunc) bool {
	return t.recvMutated1(g, map[*wfunc]bool{})
}

func (t *wtr) recvMutated1(g *wfunc, seen map[*wfunc]bool) bool {
	if seen[g] {
		return false
	}
	seen[g] = true
	if g.fd.Recv == nil || len(g.fd.Recv.List) != 1 || len(g.fd.Recv.List[0].Names) != 1 {
		return true
	}
	recv := g.p.info.Defs[g.fd.Recv.List[0].Names[0]]
	if recv == nil {
		return true
	}
	rooted := func(e ast.Expr) bool {
		for {
			switch x := ast.Unparen(e).(type) {
			case *ast.SelectorExpr:
				e = x.X
				continue
			case *ast.SliceExpr:
				e = x.X
				continue
			case *ast.IndexExpr:
				e = x.X
				continue
			case *ast.Ident:
				return g.p.info.Uses[x] == recv
			}
			return false
		}
	}
	mut := false
	ast.Inspect(g.fd.Body, func(n ast.Node) bool {
		switch s := n.(type) {
		case *ast.AssignStmt:
			for _, l := range s.Lhs {
				if rooted(l) {
					mut = true
				}
			}
		case *ast.IncDecStmt:
			if rooted(s.X) {
				mut = true
			}
		case *ast.UnaryExpr:
			if s.Op == token.AND && rooted(s.X) {
				mut = true
			}
		case *ast.CallExpr:
			r := t.resolve(g.p, s)
			switch r.kind {
			case wcTranslated:
				if r.fn.recvPtr && r.recv != nil && rooted(r.recv) && t.recvMutated1(r.fn, seen) {
					mut = true
				}
			case wcLib:
				if r.lib.Kind == WUpdate && r.recv != nil && rooted(r.recv) {
					mut = true
				}
				for _, i := range r.lib.Out {
					if i == 0 && r.recv != nil && rooted(r.recv) || i > 0 && i <= len(s.Args) && rooted(s.Args[i-1]) {
						mut = true
					}
				}
			}
		}
		return !mut
	})
	return mut
}

package go2coq

// State passing in full (Config.StatePassing; vocabulary: coq/theories/Lib/GoSemIO.v), on top of
// methods.go (which names methods "T.m", finds them and binds the receiver):
//
//	A method with a pointer receiver returns the value of its receiver in front of its results,
//	whether it changes it or not; a parameter of type *[]T (kPtrVal) is [option (list T)] (None =
//	nil), passed in and returned like a receiver, after it; the pointee is only ever extended
//	(*p = append(*p, ...)) and tested (p != nil).  The result type is res (S1 * ... * R1 * ...).
//	A call x.m(args) / f(args, p) may stand anywhere in an expression: it is bound in
//	evaluation order and rebinds x (and p).  x is the receiver of the calling method or a local
//	variable that holds the fresh pointer a translated function returned (&T{...}, new(T)).
//	Go does not fix the order between such a call and a read of x in the same expression: the
//	statement that contains the call may mention x only as the target of such calls, or in the
//	right operand of an && / || that has the call in its left operand; a call in the right
//	operand of && / || is refused.
//
//	Library types named in Config.StateTypes (types.TypeString: "*bufio.Reader", "io.Reader")
//	are state used linearly, denoted by the Coq type given there (a reader: the bytes not yet
//	read).  A value of such a type is a parameter, a local or a field of a receiver; it is
//	used as the receiver of library methods marked LibFunc.State -- the Coq function takes the
//	value and returns the tuple (value afterwards, results...), and the call rebinds the
//	variable or field -- or it is handed on once (passed to a table function, stored in the
//	struct literal that is returned).  A LibFunc also marked Volatile returns a slice that is
//	valid only until the next call on the receiver: accepted only as
//	if v, err := x.M(...); cond(v) { ... } with v used in cond alone.
//
//	Config.ErrorValues: error values are GoSemIO.goerr -- nil, or the value of a package-level
//	variable  var e = errors.New("...")  (each such variable holds a value of its own) or of a
//	variable of another package named in Config.ExtVars (io.EOF) -- so that e1 == e2 has a
//	meaning.  Error values made inside functions are refused in this mode.
//
//	switch init; tag { case a, b: A  default: D }  is the chain of ifs on the tag evaluated once
//	(no fallthrough, no break out of the switch); panic(constant) is Panic.
//
// Everything here is reached through hooks in go2coq.go / stmt.go / expr.go / methods.go marked
// "state.go".

import (
	"fmt"
	"go/ast"
	"go/token"
	"go/types"
	"strings"
)

const (
	kState  kind = 101 // a type of Config.StateTypes
	kPtrVal kind = 102 // pointer to a slice: a parameter passed by state
)

func (t *translator) isStateType(T types.Type) bool {
	if t.cfg.StateTypes == nil || T == nil {
		return false
	}
	_, ok := t.cfg.StateTypes[types.TypeString(T, nil)]
	return ok
}

// ---------------------------------------------------------------- signatures with state

// stateSig: what a translated function takes and gives back besides its Go parameters and
// results: the receiver (a pointer to a table struct) and the parameters of kind kPtrVal.
type stateSig struct {
	recv bool
	ptr  map[int]bool // parameter indices
}

func (s stateSig) any() bool { return s.recv || len(s.ptr) > 0 }

func (t *translator) stateSigOf(fd *ast.FuncDecl) stateSig {
	fn, ok := t.info.Defs[fd.Name].(*types.Func)
	if !ok {
		return stateSig{}
	}
	sig := fn.Type().(*types.Signature)
	ss := stateSig{ptr: map[int]bool{}}
	if !t.cfg.StatePassing {
		return ss
	}
	if sig.Recv() != nil && t.kindOf(sig.Recv().Type()) == kPtrStruct {
		ss.recv = true
	}
	for i := 0; i < sig.Params().Len(); i++ {
		if t.kindOf(sig.Params().At(i).Type()) == kPtrVal {
			ss.ptr[i] = true
		}
	}
	return ss
}

// setupState (Config.StatePassing): the receiver (methods.go has bound it) and the pointer
// parameters are the state the function returns.
func (ft *funcTr) setupState() {
	t := ft.t
	if !t.cfg.StatePassing {
		return
	}
	if ft.fails {
		t.fail(ft.fd, "%s: a no-return call in a function translated with full state passing", ft.name)
	}
	if ft.recv != nil {
		ft.stateVars = append(ft.stateVars, ft.recv)
	}
	for i := 0; i < ft.sig.Params().Len(); i++ {
		p := ft.sig.Params().At(i)
		if t.kindOf(p.Type()) == kPtrVal {
			if p.Name() == "" || p.Name() == "_" {
				t.fail(ft.fd, "unnamed pointer parameter of %s", ft.name)
			}
			ft.stateVars = append(ft.stateVars, p)
		}
	}
}

// stateResultType: R of a function with state: the state variables, then the Go results.
func (ft *funcTr) stateResultType() string {
	var parts []string
	for _, v := range ft.stateVars {
		parts = append(parts, ft.t.coqType(ft.fd, v.Type()))
	}
	res := ft.sig.Results()
	for i := 0; i < res.Len(); i++ {
		parts = append(parts, ft.t.coqType(ft.fd, res.At(i).Type()))
	}
	switch len(parts) {
	case 0:
		return "unit"
	case 1:
		return parts[0]
	}
	return "(" + strings.Join(parts, " * ") + ")%type"
}

// stateReturn: the value a return statement yields in a function with state; val is the
// value of the Go results (a tuple "(a, b)" when there are several).
func (ft *funcTr) stateReturn(val string) string {
	if len(ft.stateVars) == 0 {
		return val
	}
	n := ft.sig.Results().Len()
	var parts []string
	for _, v := range ft.stateVars {
		parts = append(parts, ft.names[v])
	}
	switch {
	case n == 0:
	case n == 1:
		parts = append(parts, val)
	case !strings.HasPrefix(val, "("):
		ft.t.fail(ft.fd, "%s: return f(...) with several results in a function with a pointer receiver or pointer parameters", ft.name)
	default:
		parts = append(parts, strings.TrimSuffix(strings.TrimPrefix(val, "("), ")"))
	}
	if len(parts) == 1 {
		return parts[0]
	}
	return "(" + strings.Join(parts, ", ") + ")"
}

// ---------------------------------------------------------------- calls

// stateLib: the denotation of x.M(...) when M is a library method that changes its receiver.
func (ft *funcTr) stateLib(c *ast.CallExpr) (LibFunc, *ast.SelectorExpr, *types.Func, bool) {
	sel, ok := ast.Unparen(c.Fun).(*ast.SelectorExpr)
	if !ok {
		return LibFunc{}, nil, nil, false
	}
	fn, ok := ft.t.info.Uses[sel.Sel].(*types.Func)
	if !ok || fn.Pkg() == nil || fn.Pkg() == ft.t.pkg {
		return LibFunc{}, nil, nil, false
	}
	sig, ok := fn.Type().(*types.Signature)
	if !ok || sig.Recv() == nil {
		return LibFunc{}, nil, nil, false
	}
	lf, ok := ft.t.cfg.Lib[fn.FullName()]
	if !ok || !lf.State {
		return LibFunc{}, nil, nil, false
	}
	return lf, sel, fn, true
}

// stateTargets: the variables a call changes by state passing (for the assigned-variables analysis).
func (ft *funcTr) stateTargets(c *ast.CallExpr, add func(ast.Expr)) {
	t := ft.t
	if _, sel, _, ok := ft.stateLib(c); ok {
		add(sel.X)
		return
	}
	name := t.callee(c)
	if name == "" {
		return
	}
	fd := t.decls[name]
	if fd == nil {
		return
	}
	ss := t.stateSigOf(fd)
	if ss.recv {
		if sel, ok := ast.Unparen(c.Fun).(*ast.SelectorExpr); ok {
			if _, isId := ast.Unparen(sel.X).(*ast.Ident); isId {
				add(sel.X)
			}
		}
	}
	for i, a := range c.Args {
		if ss.ptr[i] {
			if _, isId := ast.Unparen(a).(*ast.Ident); isId {
				add(a)
			}
		}
	}
}

// hasStateCall: e contains a call that changes a variable by state passing.
func (ft *funcTr) hasStateCall(e ast.Node) bool {
	found := false
	ast.Inspect(e, func(n ast.Node) bool {
		if c, ok := n.(*ast.CallExpr); ok {
			ft.stateTargets(c, func(ast.Expr) { found = true })
		}
		return !found
	})
	return found
}

// stmtExprs: the expressions a statement evaluates itself (not those of nested statements).
func stmtExprs(s ast.Stmt) []ast.Expr {
	switch s := s.(type) {
	case *ast.ExprStmt:
		return []ast.Expr{s.X}
	case *ast.AssignStmt:
		out := append([]ast.Expr{}, s.Rhs...)
		for _, l := range s.Lhs {
			if ix, ok := ast.Unparen(l).(*ast.IndexExpr); ok {
				out = append(out, ix.Index)
			}
		}
		return out
	case *ast.ReturnStmt:
		return s.Results
	case *ast.IfStmt:
		return []ast.Expr{s.Cond}
	case *ast.ForStmt:
		if s.Cond != nil {
			return []ast.Expr{s.Cond}
		}
	case *ast.SwitchStmt:
		if s.Tag != nil {
			return []ast.Expr{s.Tag}
		}
	case *ast.RangeStmt:
		return []ast.Expr{s.X}
	case *ast.DeclStmt:
		var out []ast.Expr
		if gd, ok := s.Decl.(*ast.GenDecl); ok {
			for _, sp := range gd.Specs {
				if vs, ok := sp.(*ast.ValueSpec); ok {
					out = append(out, vs.Values...)
				}
			}
		}
		return out
	case *ast.IncDecStmt:
		return []ast.Expr{s.X}
	}
	return nil
}

// checkStateOrder: Go leaves the order between a call that changes v and a read of v in the
// same expression unspecified: in the statement that contains the call c, v may be mentioned
// only as the target of such calls, or in the right operand of an && / || that has c on its left.
func (ft *funcTr) checkStateOrder(c *ast.CallExpr, v *types.Var) {
	t := ft.t
	var n ast.Node = c
	for n != nil {
		if _, ok := n.(ast.Stmt); ok {
			break
		}
		n = ft.parents[n]
	}
	st, ok := n.(ast.Stmt)
	if !ok {
		t.fail(c, "call that changes %s outside a statement", v.Name())
	}
	allowed := map[*ast.Ident]bool{}
	// the right operand of && / || is evaluated after the left one
	for child, up := ast.Node(c), ft.parents[c]; up != nil && up != n; child, up = up, ft.parents[up] {
		if b, ok := up.(*ast.BinaryExpr); ok && (b.Op == token.LAND || b.Op == token.LOR) && ast.Node(b.X) == child {
			ast.Inspect(b.Y, func(n ast.Node) bool {
				if id, ok := n.(*ast.Ident); ok {
					allowed[id] = true
				}
				return true
			})
		}
	}
	for _, e := range stmtExprs(st) {
		ast.Inspect(e, func(n ast.Node) bool {
			if call, ok := n.(*ast.CallExpr); ok {
				ft.stateTargets(call, func(x ast.Expr) {
					for {
						switch y := ast.Unparen(x).(type) {
						case *ast.SelectorExpr:
							x = y.X
							continue
						case *ast.Ident:
							allowed[y] = true
						}
						break
					}
				})
			}
			return true
		})
	}
	for _, e := range stmtExprs(st) {
		ast.Inspect(e, func(n ast.Node) bool {
			if id, ok := n.(*ast.Ident); ok && t.info.Uses[id] == types.Object(v) && !allowed[id] {
				t.fail(id, "%s is read in the same statement in which a call changes it (Go does not fix the order)", v.Name())
			}
			return true
		})
	}
}

// fieldUpdate: the struct value of v with the field x.Sel replaced by val (x = v.f).
func (ft *funcTr) fieldUpdate(x *ast.SelectorExpr, val string) (*types.Var, string) {
	t := ft.t
	base, ok := ast.Unparen(x.X).(*ast.Ident)
	if !ok {
		t.fail(x, "a field of something other than a variable")
	}
	v := ft.rootVar(base)
	T := v.Type()
	if p, ok := types.Unalias(T).Underlying().(*types.Pointer); ok {
		T = p.Elem()
	}
	st, gst, ok := t.structOf(T)
	if !ok {
		t.fail(x, "a field of a value of type %s", v.Type())
	}
	parts := []string{st.Ctor}
	found := false
	for i, f := range st.Fields {
		if gst.Field(i).Name() == x.Sel.Name {
			parts = append(parts, val)
			found = true
		} else {
			parts = append(parts, "("+f.Getter+" "+ft.names[v]+")")
		}
	}
	if !found {
		t.fail(x, "unknown field %s", x.Sel.Name)
	}
	return v, strings.Join(parts, " ")
}

func tuplePat(pats []string) string {
	if len(pats) == 1 {
		return pats[0]
	}
	return "'(" + strings.Join(pats, ", ") + ")"
}

func tupleVal(vals []string) string {
	switch len(vals) {
	case 0:
		return "tt"
	case 1:
		return vals[0]
	}
	return "(" + strings.Join(vals, ", ") + ")"
}

// stateCall translates a call that changes variables by state passing: a method of this package
// with a pointer receiver, a function of this package with pointer parameters, a library method
// marked State.  The changed variables are rebound by the binding of the call.
func (ft *funcTr) stateCall(c *ast.CallExpr) ([]pre, string, bool) {
	t := ft.t
	if lf, sel, fn, ok := ft.stateLib(c); ok {
		sig := fn.Type().(*types.Signature)
		if sig.Variadic() || len(c.Args) != sig.Params().Len() {
			t.fail(c, "call of %s with a different number of arguments than parameters", fn.FullName())
		}
		if !t.isStateType(t.info.Types[sel.X].Type) {
			t.fail(c, "%s on a value of type %s, which is not in the table of state types", fn.FullName(), t.info.Types[sel.X].Type)
		}
		root := ft.rootVar(sel.X)
		ft.checkStateOrder(c, root)
		var pres []pre
		parts := []string{lf.Coq}
		var pats []string
		var after *pre
		switch x := ast.Unparen(sel.X).(type) {
		case *ast.Ident:
			parts = append(parts, ft.names[root])
			pats = append(pats, ft.names[root])
		case *ast.SelectorExpr:
			p, cur := ft.expr(x, nil)
			if len(p) > 0 {
				t.fail(x, "receiver of %s", fn.FullName())
			}
			parts = append(parts, cur)
			tmp := ft.temp()
			pats = append(pats, tmp)
			v, term := ft.fieldUpdate(x, tmp)
			after = &pre{ft.names[v], "Ok (" + term + ")"}
		default:
			t.fail(sel.X, "receiver of %s (only a variable or a field of a variable)", fn.FullName())
		}
		for i, a := range c.Args {
			p, v := ft.expr(a, sig.Params().At(i).Type())
			pres = append(pres, p...)
			parts = append(parts, v)
		}
		var vals []string
		for i := 0; i < sig.Results().Len(); i++ {
			tmp := ft.temp()
			pats = append(pats, tmp)
			vals = append(vals, tmp)
		}
		term := strings.Join(parts, " ")
		if !lf.Monadic {
			term = "Ok (" + term + ")"
		}
		pres = append(pres, pre{tuplePat(pats), term})
		if after != nil {
			pres = append(pres, *after)
		}
		return pres, tupleVal(vals), true
	}
	name := t.callee(c)
	if name == "" || t.decls[name] == nil {
		return nil, "", false
	}
	ss := t.stateSigOf(t.decls[name])
	if !ss.any() {
		return nil, "", false
	}
	fn := t.info.Defs[t.decls[name].Name].(*types.Func)
	sig := fn.Type().(*types.Signature)
	if sig.Variadic() || len(c.Args) != sig.Params().Len() {
		t.fail(c, "call of %s with a different number of arguments than parameters", name)
	}
	var pres []pre
	var args, pats []string
	seen := map[*types.Var]bool{}
	target := func(e ast.Expr, k kind, what string) {
		id, ok := ast.Unparen(e).(*ast.Ident)
		if !ok {
			t.fail(e, "%s of %s must be a variable", what, name)
		}
		v, ok := ft.isLocal(t.info.Uses[id])
		if !ok || t.kindOf(v.Type()) != k {
			t.fail(e, "%s of %s must be a local pointer variable", what, name)
		}
		if seen[v] {
			t.fail(e, "%s is passed twice to %s", v.Name(), name)
		}
		seen[v] = true
		ft.checkStateOrder(c, v)
		pats = append(pats, ft.names[v])
	}
	if ss.recv {
		sel, ok := ast.Unparen(c.Fun).(*ast.SelectorExpr)
		if !ok {
			t.fail(c, "call of the method %s", name)
		}
		if s := t.info.Selections[sel]; s == nil || len(s.Index()) != 1 {
			t.fail(c, "call of the promoted method %s", name)
		}
		target(sel.X, kPtrStruct, "the receiver")
	}
	for i, a := range c.Args {
		if ss.ptr[i] {
			target(a, kPtrVal, "the pointer argument")
			args = append(args, "")
			continue
		}
		p, v := ft.expr(a, sig.Params().At(i).Type())
		pres = append(pres, p...)
		args = append(args, v)
	}
	parts := []string{t.cfg.Prefix + name}
	if t.needFuel[name] {
		parts = append(parts, "fuel")
	}
	k := 0
	if ss.recv {
		parts = append(parts, pats[0])
		k = 1
	}
	for i := range c.Args {
		if ss.ptr[i] {
			parts = append(parts, pats[k])
			k++
		} else {
			parts = append(parts, args[i])
		}
	}
	var vals []string
	for i := 0; i < sig.Results().Len(); i++ {
		tmp := ft.temp()
		pats = append(pats, tmp)
		vals = append(vals, tmp)
	}
	pres = append(pres, pre{tuplePat(pats), strings.Join(parts, " ")})
	return pres, tupleVal(vals), true
}

// stateCallStmt (Config.StatePassing): a call used as a statement (its results are dropped): a
// call of a translated function or method, or of a library method that changes its receiver.
func (ft *funcTr) stateCallStmt(s *ast.ExprStmt, ind string) (string, bool) {
	c, ok := ast.Unparen(s.X).(*ast.CallExpr)
	if !ok || !ft.t.cfg.StatePassing {
		return "", false
	}
	if _, _, _, isLib := ft.stateLib(c); !isLib && ft.t.callee(c) == "" {
		return "", false
	}
	pres, _ := ft.expr(c, nil)
	return binds(pres, ind), true
}

// ---------------------------------------------------------------- panic

func isPanicStmt(s ast.Stmt) bool {
	es, ok := s.(*ast.ExprStmt)
	if !ok {
		return false
	}
	c, ok := ast.Unparen(es.X).(*ast.CallExpr)
	if !ok {
		return false
	}
	id, ok := ast.Unparen(c.Fun).(*ast.Ident)
	return ok && id.Name == "panic"
}

// panicStmt: panic(constant) is the computation Panic.
func (ft *funcTr) panicStmt(s ast.Stmt, ind string) string {
	c := ast.Unparen(s.(*ast.ExprStmt).X).(*ast.CallExpr)
	if ft.builtin(c) != "panic" || len(c.Args) != 1 {
		ft.t.fail(s, "call of a function named panic that is not the built-in")
	}
	if tv, ok := ft.t.info.Types[c.Args[0]]; !ok || tv.Value == nil {
		ft.t.fail(s, "panic with an argument that is not a constant")
	}
	return ind + "Panic\n"
}

// ---------------------------------------------------------------- switch

// desugarSwitch: switch init; tag { case a, b: A  case c: C  default: D }  is
// init; tmp := tag; if tmp == a || tmp == b { A } else if tmp == c { C } else { D }
// (the tag is evaluated once; cases are tried in order, default last wherever it stands).
// No fallthrough; a break that would leave the switch is refused.
func (ft *funcTr) desugarSwitch(s *ast.SwitchStmt) []ast.Stmt {
	t := ft.t
	var out []ast.Stmt
	if s.Init != nil {
		out = append(out, s.Init)
	}
	ast.Inspect(s, func(n ast.Node) bool {
		switch b := n.(type) {
		case *ast.ForStmt, *ast.RangeStmt, *ast.FuncLit, *ast.SelectStmt:
			return false
		case *ast.SwitchStmt, *ast.TypeSwitchStmt:
			return n == ast.Node(s)
		case *ast.BranchStmt:
			if b.Tok == token.BREAK || b.Tok == token.FALLTHROUGH {
				t.fail(b, "%s inside a switch", b.Tok)
			}
		}
		return true
	})
	boolT := types.Typ[types.Bool]
	var tagOf func() ast.Expr
	if s.Tag != nil {
		T := t.info.Types[s.Tag].Type
		if T == nil {
			t.fail(s.Tag, "switch tag without a type")
		}
		if b, ok := T.(*types.Basic); ok && b.Info()&types.IsUntyped != 0 {
			T = types.Default(T)
		}
		if id, ok := ast.Unparen(s.Tag).(*ast.Ident); ok {
			if _, isLocal := ft.isLocal(t.info.Uses[id]); isLocal {
				tagOf = func() ast.Expr { return id }
			}
		}
		if tagOf == nil {
			v := types.NewVar(s.Tag.Pos(), t.pkg, "tag", T)
			def := &ast.Ident{NamePos: s.Tag.Pos(), Name: "tag"}
			t.info.Defs[def] = v
			ft.declare(v)
			as := &ast.AssignStmt{Lhs: []ast.Expr{def}, TokPos: s.Tag.Pos(), Tok: token.DEFINE, Rhs: []ast.Expr{s.Tag}}
			out = append(out, as)
			tagOf = func() ast.Expr {
				id := &ast.Ident{NamePos: s.Tag.Pos(), Name: "tag"}
				t.info.Uses[id] = v
				t.info.Types[id] = types.TypeAndValue{Type: T}
				return id
			}
		}
	}
	var clauses []*ast.CaseClause
	var deflt *ast.CaseClause
	for _, st := range s.Body.List {
		cc := st.(*ast.CaseClause)
		if cc.List == nil {
			deflt = cc
		} else {
			clauses = append(clauses, cc)
		}
	}
	var els ast.Stmt
	if deflt != nil {
		els = &ast.BlockStmt{Lbrace: deflt.Colon, List: deflt.Body, Rbrace: s.Body.Rbrace}
	}
	for i := len(clauses) - 1; i >= 0; i-- {
		cc := clauses[i]
		var cond ast.Expr
		for _, e := range cc.List {
			var one ast.Expr = e
			if tagOf != nil {
				b := &ast.BinaryExpr{X: tagOf(), OpPos: e.Pos(), Op: token.EQL, Y: e}
				t.info.Types[b] = types.TypeAndValue{Type: boolT}
				one = b
			}
			if cond == nil {
				cond = one
			} else {
				b := &ast.BinaryExpr{X: cond, OpPos: e.Pos(), Op: token.LOR, Y: one}
				t.info.Types[b] = types.TypeAndValue{Type: boolT}
				cond = b
			}
		}
		ifs := &ast.IfStmt{If: cc.Pos(), Cond: cond,
			Body: &ast.BlockStmt{Lbrace: cc.Colon, List: cc.Body, Rbrace: s.Body.Rbrace}}
		if els != nil {
			ifs.Else = els
		}
		els = ifs
	}
	if els != nil {
		out = append(out, els)
	}
	return out
}

// ---------------------------------------------------------------- expressions

// addrOf: &T{...} is the struct value (the pointer is held in one local or returned at once:
// checkAliasing).
func (ft *funcTr) addrOf(x *ast.UnaryExpr) ([]pre, string) {
	cl, ok := ast.Unparen(x.X).(*ast.CompositeLit)
	if !ok || ft.t.kindOf(ft.t.info.Types[cl].Type) != kStruct {
		ft.t.fail(x, "address of something other than a struct literal of the table")
	}
	return ft.composite(cl)
}

// extVar: pkg.Name, a package-level variable of another package given by Config.ExtVars.
func (ft *funcTr) extVar(x *ast.SelectorExpr) (string, bool) {
	id, ok := x.X.(*ast.Ident)
	if !ok {
		return "", false
	}
	pn, ok := ft.t.info.Uses[id].(*types.PkgName)
	if !ok {
		return "", false
	}
	term, ok := ft.t.cfg.ExtVars[pn.Imported().Path()+"."+x.Sel.Name]
	if !ok {
		ft.t.fail(x, "%s.%s, which has no denotation in the table", pn.Imported().Path(), x.Sel.Name)
	}
	return term, true
}

// deref: *p for a pointer parameter p.
func (ft *funcTr) deref(x *ast.StarExpr) ([]pre, string) {
	id, ok := ast.Unparen(x.X).(*ast.Ident)
	if !ok {
		ft.t.fail(x, "indirection of something other than a pointer parameter")
	}
	v, ok := ft.isLocal(ft.t.info.Uses[id])
	if !ok || ft.t.kindOf(v.Type()) != kPtrVal {
		ft.t.fail(x, "indirection of something other than a pointer parameter")
	}
	tmp := ft.temp()
	return []pre{{tmp, "go_ptr_load " + ft.names[v]}}, tmp
}

// stateCompare: x == y on error values (Config.ErrorValues) and p == nil on a pointer parameter.
func (ft *funcTr) stateCompare(x *ast.BinaryExpr) ([]pre, string, bool) {
	t := ft.t
	nx, ny := ft.isNilExpr(x.X), ft.isNilExpr(x.Y)
	Tx, Ty := t.info.Types[x.X].Type, t.info.Types[x.Y].Type
	if nx != ny {
		other, T := x.X, Tx
		if nx {
			other, T = x.Y, Ty
		}
		if t.kindOf(T) == kPtrVal {
			p, v := ft.expr(other, nil)
			return p, "(go_ptr_is_nil " + v + ")", true
		}
	}
	if !t.cfg.ErrorValues || nx && ny {
		return nil, "", false
	}
	kx, ky := t.kindOf(Tx), t.kindOf(Ty)
	if !(kx == kError && (ky == kError || ny) || ky == kError && nx) {
		return nil, "", false
	}
	want := Tx
	if nx {
		want = Ty
	}
	p1, a := ft.expr(x.X, want)
	p2, b := ft.expr(x.Y, want)
	return append(p1, p2...), "(goerr_eqb " + a + " " + b + ")", true
}

// sentinelVar: with Config.ErrorValues, a package-level  var e = errors.New("...")  (any call of
// a library function marked IsError, with constant arguments) is the sentinel named after the
// variable: two such variables are different error values, and different from nil.
func (t *translator) sentinelVar(obj *types.Var, init ast.Expr) (string, bool) {
	if !t.cfg.ErrorValues || t.kindOf(obj.Type()) != kError {
		return "", false
	}
	bad := func() {
		t.fail(init, "initialiser of the error variable %s is not a call of an error constructor", obj.Name())
	}
	c, ok := ast.Unparen(init).(*ast.CallExpr)
	if !ok {
		bad()
	}
	sel, ok := ast.Unparen(c.Fun).(*ast.SelectorExpr)
	if !ok {
		bad()
	}
	fn, ok := t.info.Uses[sel.Sel].(*types.Func)
	if !ok || fn.Pkg() == nil || !t.cfg.Lib[fn.Pkg().Path()+"."+fn.Name()].IsError {
		bad()
	}
	for _, a := range c.Args {
		if tv, ok := t.info.Types[a]; !ok || tv.Value == nil {
			t.fail(a, "argument of the error constructor of %s is not a constant", obj.Name())
		}
	}
	name := t.cfg.Prefix + obj.Name()
	t.pkgVars[obj] = name
	t.pkgVarTx = append(t.pkgVarTx, fmt.Sprintf("(* var %s: an error value of its own *)\nDefinition %s : goerr := ErrVal %s.\n\n",
		obj.Name(), name, coqBytes(obj.Pkg().Path()+"."+obj.Name())))
	return name, true
}

// ---------------------------------------------------------------- checks

// ptrAllowed: pointer-valued expressions beyond p := new(T); p.f; return p that state passing
// gives a meaning to (hook in checkAliasing, rule 3).
func (ft *funcTr) ptrAllowed(e ast.Expr, parent ast.Node, T types.Type) bool {
	t := ft.t
	if !t.cfg.StatePassing {
		return false
	}
	if t.isStateType(T) {
		return true // linear use is checked by checkState
	}
	for {
		if pe, ok := parent.(*ast.ParenExpr); ok {
			parent = ft.parents[pe]
		} else {
			break
		}
	}
	nilCompare := func(b *ast.BinaryExpr) bool {
		if b.Op != token.EQL && b.Op != token.NEQ {
			return false
		}
		other := b.X
		if ast.Unparen(b.X) == e {
			other = b.Y
		}
		if ft.isNilExpr(e) {
			return t.kindOf(t.info.Types[other].Type) == kPtrVal
		}
		return ft.isNilExpr(other)
	}
	switch x := e.(type) {
	case *ast.Ident:
		if x.Name == "nil" && ft.isNilExpr(x) {
			if b, ok := parent.(*ast.BinaryExpr); ok {
				return nilCompare(b)
			}
			return false
		}
		if t.kindOf(T) != kPtrVal {
			return false
		}
		switch p := parent.(type) {
		case *ast.StarExpr:
			return true
		case *ast.BinaryExpr:
			return nilCompare(p)
		case *ast.CallExpr:
			name := t.callee(p)
			if name == "" || t.decls[name] == nil {
				return false
			}
			ss := t.stateSigOf(t.decls[name])
			for i, a := range p.Args {
				if ast.Unparen(a) == e {
					return ss.ptr[i]
				}
			}
		}
	case *ast.UnaryExpr:
		if x.Op != token.AND {
			return false
		}
		if _, ok := ast.Unparen(x.X).(*ast.CompositeLit); !ok {
			return false
		}
		return ft.freshPtrContext(parent)
	case *ast.CallExpr:
		name := t.callee(x)
		if name == "" || t.decls[name] == nil || t.kindOf(T) != kPtrStruct {
			return false
		}
		return ft.freshPtrContext(parent)
	}
	return false
}

// freshPtrContext: a fresh pointer (&T{...}, the result of a translated function) is returned
// at once or becomes the one value of a local variable.
func (ft *funcTr) freshPtrContext(parent ast.Node) bool {
	switch p := parent.(type) {
	case *ast.ReturnStmt:
		return true
	case *ast.AssignStmt:
		if len(p.Lhs) == 1 && len(p.Rhs) == 1 && (p.Tok == token.DEFINE || p.Tok == token.ASSIGN) {
			_, ok := ast.Unparen(p.Lhs[0]).(*ast.Ident)
			return ok
		}
	}
	return false
}

// checkState enforces the conditions under which pointers and state types may be passed as values.
func (ft *funcTr) checkState() {
	t := ft.t
	info := t.info
	if !t.cfg.StatePassing {
		return
	}
	isParam := func(v *types.Var) bool {
		if ft.sig.Recv() == v {
			return true
		}
		for i := 0; i < ft.sig.Params().Len(); i++ {
			if ft.sig.Params().At(i) == v {
				return true
			}
		}
		return false
	}
	inLoop := func(n ast.Node) bool {
		for p := ft.parents[n]; p != nil; p = ft.parents[p] {
			switch p.(type) {
			case *ast.ForStmt, *ast.RangeStmt:
				return true
			}
		}
		return false
	}
	inReturn := func(n ast.Node) bool {
		for p := ft.parents[n]; p != nil; p = ft.parents[p] {
			if _, ok := p.(*ast.ReturnStmt); ok {
				return true
			}
		}
		return false
	}
	unparenParent := func(n ast.Node) ast.Node {
		p := ft.parents[n]
		for {
			if pe, ok := p.(*ast.ParenExpr); ok {
				p = ft.parents[pe]
			} else {
				return p
			}
		}
	}
	uses := map[*types.Var][]*ast.Ident{}
	var order []*types.Var
	ast.Inspect(ft.root, func(n ast.Node) bool {
		switch x := n.(type) {
		case *ast.Ident:
			if v, ok := ft.isLocal(info.Uses[x]); ok {
				if uses[v] == nil {
					order = append(order, v)
				}
				uses[v] = append(uses[v], x)
			}
		case *ast.AssignStmt:
			// a pointer that came in from the caller is never redirected
			for _, l := range x.Lhs {
				if id, ok := ast.Unparen(l).(*ast.Ident); ok {
					if v, ok := ft.isLocal(info.Uses[id]); ok && isParam(v) {
						switch t.kindOf(v.Type()) {
						case kPtrStruct, kPtrVal, kState:
							t.fail(l, "assignment to the pointer (or state) parameter %s", v.Name())
						}
					}
				}
			}
		case *ast.ReturnStmt:
			// only fresh pointers are returned
			for _, r := range x.Results {
				if id, ok := ast.Unparen(r).(*ast.Ident); ok {
					if v, ok := ft.isLocal(info.Uses[id]); ok && isParam(v) {
						switch t.kindOf(v.Type()) {
						case kPtrStruct, kPtrVal:
							t.fail(r, "the pointer parameter %s is returned (it would alias the caller's)", v.Name())
						}
					}
				}
			}
		case *ast.StarExpr:
			// *p only in  *p = append(*p, ...)
			if tv, ok := info.Types[x]; ok && tv.IsType() {
				return true
			}
			okUse := false
			switch p := unparenParent(x).(type) {
			case *ast.AssignStmt:
				if len(p.Lhs) == 1 && ast.Unparen(p.Lhs[0]) == ast.Expr(x) && len(p.Rhs) == 1 {
					if c, ok := ast.Unparen(p.Rhs[0]).(*ast.CallExpr); ok && ft.builtin(c) == "append" {
						okUse = true
					}
				}
			case *ast.CallExpr:
				if ft.builtin(p) == "append" && len(p.Args) > 0 && ast.Unparen(p.Args[0]) == ast.Expr(x) {
					if as, ok := ft.parents[p].(*ast.AssignStmt); ok && len(as.Lhs) == 1 {
						if _, ok := ast.Unparen(as.Lhs[0]).(*ast.StarExpr); ok {
							okUse = true
						}
					}
				}
			}
			if !okUse {
				t.fail(x, "indirection of a pointer other than in *p = append(*p, ...)")
			}
		}
		return true
	})
	// state types: a value is used as the receiver of state methods, or handed on (moved) once
	for _, v := range order {
		ids := uses[v]
		if t.kindOf(v.Type()) != kState {
			continue
		}
		for _, id := range ids {
			p := unparenParent(id)
			if sel, ok := p.(*ast.SelectorExpr); ok && ast.Unparen(sel.X) == ast.Expr(id) {
				if c, ok := ft.parents[sel].(*ast.CallExpr); ok && ast.Unparen(c.Fun) == ast.Expr(sel) {
					if _, _, _, isState := ft.stateLib(c); isState {
						continue
					}
				}
				t.fail(id, "use of the state value %s other than by a method of the table that changes it", v.Name())
			}
			if as, ok := p.(*ast.AssignStmt); ok {
				isLhs := false
				for _, l := range as.Lhs {
					if ast.Unparen(l) == ast.Expr(id) {
						isLhs = true
					}
				}
				if isLhs {
					continue
				}
			}
			// a move
			if inReturn(id) || (len(ids) == 1 && !inLoop(id)) {
				continue
			}
			t.fail(id, "the state value %s is handed on here and used elsewhere too", v.Name())
		}
	}
	// fields of a state type: only as receivers of state methods; volatile results
	ast.Inspect(ft.root, func(n ast.Node) bool {
		switch x := n.(type) {
		case *ast.SelectorExpr:
			tv, ok := info.Types[x]
			if !ok || !t.isStateType(tv.Type) {
				return true
			}
			if s := info.Selections[x]; s == nil || s.Kind() != types.FieldVal {
				return true
			}
			p := ft.parents[x]
			if sel, ok := p.(*ast.SelectorExpr); ok && sel.X == ast.Expr(x) {
				if c, ok := ft.parents[sel].(*ast.CallExpr); ok && ast.Unparen(c.Fun) == ast.Expr(sel) {
					if _, _, _, isState := ft.stateLib(c); isState {
						return true
					}
				}
			}
			t.fail(x, "use of the state field %s other than by a method of the table that changes it", x.Sel.Name)
		case *ast.CallExpr:
			lf, _, fn, ok := ft.stateLib(x)
			if !ok || !lf.Volatile {
				return true
			}
			// the result is valid until the next call on the receiver: it is bound by the init
			// statement of an if and used in the condition of that if only
			as, ok := ft.parents[x].(*ast.AssignStmt)
			var ifs *ast.IfStmt
			if ok {
				ifs, _ = ft.parents[as].(*ast.IfStmt)
			}
			if ifs == nil || ifs.Init != ast.Stmt(as) || as.Tok != token.DEFINE {
				t.fail(x, "%s: the result is valid only until the next call on the receiver; supported only as  if v, err := x.%s(...); cond(v) { ... }", fn.FullName(), fn.Name())
			}
			if ft.hasStateCall(ifs.Cond) {
				t.fail(ifs.Cond, "%s: a call that changes state in the condition that uses the result", fn.FullName())
			}
			for _, l := range as.Lhs {
				id, ok := l.(*ast.Ident)
				if !ok || id.Name == "_" {
					continue
				}
				v := info.Defs[id]
				if v == nil {
					continue
				}
				if k := t.kindOf(v.Type()); k != kBytes && k != kSlice {
					continue
				}
				check := func(n ast.Node) {
					ast.Inspect(n, func(n ast.Node) bool {
						if u, ok := n.(*ast.Ident); ok && info.Uses[u] == v {
							t.fail(u, "%s: the result %s is used after the condition of the if that binds it", fn.FullName(), u.Name)
						}
						return true
					})
				}
				check(ifs.Body)
				if ifs.Else != nil {
					check(ifs.Else)
				}
			}
		}
		return true
	})
}

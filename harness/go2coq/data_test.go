package go2coq_test

import (
	"fmt"
	"go/ast"
	"go/parser"
	"go/token"
	"os"
	"os/exec"
	"path/filepath"
	"strings"
	"testing"

	"verif/harness/go2coq"
	"verif/harness/go2coq/internal/synthdata"
)

// the table for internal/synthdata (the constructs of data.go)
func dataCfg() *go2coq.Config {
	return &go2coq.Config{
		Prefix: "d_",
		Funcs:  []string{"Squares", "Pairs", "Fix", "Count", "Search", "Report"},
		Stubs: map[string]string{
			"bytes": "package bytes\ntype Buffer struct{ _ int }\nfunc (b *Buffer) Write(p []byte) (n int, err error)\n" +
				"func (b *Buffer) WriteString(s string) (n int, err error)\nfunc (b *Buffer) Bytes() []byte\n",
			"io":      "package io\ntype Writer interface { Write(p []byte) (n int, err error) }\n",
			"fmt":     "package fmt\nimport \"io\"\nfunc Fprintf(w io.Writer, format string, a ...any) (n int, err error)\n",
			"sort":    "package sort\nfunc Search(n int, f func(int) bool) int\n",
			"strings": "package strings\nfunc SplitAfter(s, sep string) []string\n",
		},
		Lib: map[string]go2coq.LibFunc{
			"sort.Search":                 {Coq: "go_sort_Search", Monadic: true},
			"fmt.Fprintf":                 {Coq: "go_fmt_Fprintf_buffer", Monadic: true, Mutates: true},
			"(*bytes.Buffer).WriteString": {Coq: "go_buffer_WriteString", Mutates: true},
			"(*bytes.Buffer).Bytes":       {Coq: "go_buffer_Bytes"},
			"strings.SplitAfter":          {Coq: "t_split_after", Monadic: true, Fresh: true},
		},
		Structs: map[string]go2coq.Struct{"verif/harness/go2coq/internal/synthdata.P": {CoqType: "(Z * Z)%type", Ctor: "pair",
			Fields: []go2coq.Field{{Go: "A", Getter: "fst"}, {Go: "B", Getter: "snd"}}}},
		AssocMaps: true,
		Opaque:    map[string]go2coq.Opaque{"bytes.Buffer": {CoqType: "bytes", Zero: "go_buffer_empty"}},
	}
}

func translateData(t *testing.T, src string, c *go2coq.Config) (*go2coq.Result, error) {
	fset := token.NewFileSet()
	f, err := parser.ParseFile(fset, "synthdata.go", src, parser.ParseComments)
	if err != nil {
		t.Fatal(err)
	}
	return go2coq.Translate(fset, []*ast.File{f}, "verif/harness/go2coq/internal/synthdata", c)
}

func coqZs(l []int) string {
	var parts []string
	for _, v := range l {
		parts = append(parts, coqZ(v))
	}
	return "[" + strings.Join(parts, "; ") + "]"
}

func coqStrs(l []string) string {
	var parts []string
	for _, v := range l {
		parts = append(parts, coqBytes([]byte(v)))
	}
	return "[" + strings.Join(parts, "; ") + "]"
}

// The translation of internal/synthdata, evaluated by coqc, agrees with the functions run as
// Go: made and stored slices of ints and of structs, an owned library result with an element
// update and a cut, a written map (values, presence, insertion), a panicking function literal
// under sort.Search, bytes.Buffer with Fprintf (%s %d %%) and WriteString, an append target
// that is cut back, min / max / a local constant.
func TestDataAgainstGo(t *testing.T) {
	src, err := os.ReadFile("internal/synthdata/synthdata.go")
	if err != nil {
		t.Fatal(err)
	}
	r, err := translateData(t, string(src), dataCfg())
	if err != nil {
		t.Fatal(err)
	}
	var ex []string
	add := func(call, want string) { ex = append(ex, fmt.Sprintf("(%s) = %s", call, want)) }
	for _, n := range []int{-1, 0, 1, 2, 5} {
		add("d_Squares "+coqZ(n), res(func() string { s, l := synthdata.Squares(n); return "(" + coqZ(s) + ", " + coqZs(l) + ")" }))
		for _, at := range []int{-1, 0, 1, 4, 5} {
			add("d_Pairs "+coqZ(n)+" "+coqZ(at), res(func() string {
				var parts []string
				for _, p := range synthdata.Pairs(n, at) {
					parts = append(parts, "("+coqZ(p.A)+", "+coqZ(p.B)+")")
				}
				return "[" + strings.Join(parts, "; ") + "]"
			}))
		}
	}
	for _, s := range []string{"", ",", "a", "a,", "a,b", ",,x", "ab,cd,,"} {
		add("d_Fix "+coqBytes([]byte(s)), res(func() string { return coqStrs(synthdata.Fix(s)) }))
	}
	words := [][]string{nil, {"a"}, {"a", "b", "a"}, {"x", "y", "z", "y", "", "q", "x", "x"}, {"p", "p", "p", "p"}}
	for _, w := range words {
		for _, probe := range []string{"a", "y", "q", "", "nope", "p"} {
			add("d_Count "+coqStrs(w)+" "+coqBytes([]byte(probe)), res(func() string {
				v, ok, n := synthdata.Count(w, probe)
				return "(" + coqZ(v) + ", " + coqB(ok) + ", " + coqZ(n) + ")"
			}))
		}
	}
	for _, xs := range [][]int{nil, {1}, {1, 3, 3, 7, 9}, {2, 2, 2, 2}, {-5, 0, 5, 10, 15, 20, 25}} {
		for _, v := range []int{-9, 0, 2, 3, 8, 30} {
			for _, n := range []int{-1, 0, len(xs), len(xs) + 1, len(xs) + 3} {
				add("d_Search "+coqZs(xs)+" "+coqZ(v)+" "+coqZ(n), res(func() string { return coqZ(synthdata.Search(xs, v, n)) }))
			}
		}
	}
	for _, ls := range [][]string{nil, {"a\n"}, {"a\n", "%d\n", "c\n", "dd\n", "e\n"}, {"1", "2", "3", "4", "5", "6", "7"}} {
		for _, w := range []int{-3, 0, 1, 2, 3, 12345} {
			add("d_Report "+coqBytes([]byte("n%s"))+" "+coqStrs(ls)+" "+coqZ(w), res(func() string { return coqBytes(synthdata.Report("n%s", ls, w)) }))
		}
	}
	// formats outside the modelled verbs are Panic, never a guess
	for _, f := range []string{"%x", "%5d", "%", "%s"} {
		add("go_fmt_Sprintf "+coqBytes([]byte(f))+" [FmtInt 1%Z]", "Panic")
	}
	add("go_fmt_Sprintf "+coqBytes([]byte("a"))+" [FmtInt 1%Z]", "Panic")
	add("go_fmt_Sprintf "+coqBytes([]byte("%d%d"))+" [FmtInt 1%Z]", "Panic")
	add("go_fmt_Sprintf "+coqBytes([]byte("%d%%%s"))+" [FmtInt (-120)%Z; FmtStr [x25; x64]]", "Ok "+coqBytes([]byte(fmt.Sprintf("%d%%%s", -120, "%d"))))

	theories, _ := filepath.Abs("../../coq/theories")
	if th := os.Getenv("GO2COQ_THEORIES"); th != "" {
		theories = th
	}
	lib := theories
	if extra := os.Getenv("GO2COQ_THEORIES_EXTRA"); extra != "" {
		lib = extra
	}
	if _, err := os.Stat(filepath.Join(lib, "Lib", "GoSemData.vo")); err != nil {
		t.Skip("compiled Lib/GoSemData.vo not found under " + lib)
	}
	if _, err := exec.LookPath("coqc"); err != nil {
		t.Skip("coqc not found")
	}
	dir := t.TempDir()
	var b strings.Builder
	b.WriteString("From Coq Require Import List ZArith NArith Bool.\nFrom Coq.Strings Require Import Byte.\nImport ListNotations.\n")
	b.WriteString("From GI Require Import Lib.Bytes Lib.GoSem Lib.GoSemExt Lib.GoSemData.\nImport GoNotations.\nLocal Open Scope go_scope.\n\n")
	// strings.SplitAfter with a one-byte separator
	b.WriteString("Fixpoint t_sa (c : byte) (d : bytes) : list bytes :=\n  match d with\n  | [] => [[]]\n  | b :: r => if beq b c then [b] :: t_sa c r else match t_sa c r with l :: ls => (b :: l) :: ls | [] => [[b]] end\n  end.\n")
	b.WriteString("Definition t_split_after (s sep : bytes) : res (list bytes) := match sep with [c] => Ok (t_sa c s) | _ => Panic end.\n\n")
	b.WriteString(r.Text)
	for i, e := range ex {
		fmt.Fprintf(&b, "Example ex%d : %s.\nProof. vm_compute. reflexivity. Qed.\n", i, e)
	}
	file := filepath.Join(dir, "SynthData.v")
	if err := os.WriteFile(file, []byte(b.String()), 0o644); err != nil {
		t.Fatal(err)
	}
	if keep := os.Getenv("GO2COQ_KEEP"); keep != "" {
		os.WriteFile(keep, []byte(b.String()), 0o644)
	}
	args := []string{"300", "coqc", "-q", "-Q", theories, "GI"}
	if extra := os.Getenv("GO2COQ_THEORIES_EXTRA"); extra != "" {
		args = append(args, "-Q", extra, "GI")
	}
	cmd := exec.Command("timeout", append(args, file)...)
	cmd.Dir = dir
	out, err := cmd.CombinedOutput()
	if err != nil {
		t.Fatalf("coqc: %v\n%s", err, out)
	}
	t.Logf("%d evaluations of %d translated functions agree with Go", len(ex), len(r.Funcs))
}

// What data.go must refuse: aliases of owned slices, escaping maps, literals with effects,
// opaque values used as data, Mutates calls as expressions, unmodelled operand types.
func TestDataRejects(t *testing.T) {
	cases := []struct{ name, body, want string }{
		{"owned-alias", "func F(n int) []int { s := make([]int, n); t := s; t[0] = 1; return s }", "alias"},
		{"owned-pass", "func F(n int) int { s := make([]int, n); s[0] = 1; return sort.Search(len(s), func(k int) bool { return s[k] > 0 }) + G(s) }", ""},
		{"fresh-alias", "func F(x string) []string { l := strings.SplitAfter(x, \",\"); m := l; l[0] = \"a\"; return m }", "alias"},
		{"fresh-other-slice", "func F(x string, o []string) []string { l := strings.SplitAfter(x, \",\"); l[0] = \"a\"; l = o[:1]; return l }", "more than once"},
		{"param-store", "func F(l []int) int { l[0] = 1; return 0 }", "not made by make"},
		{"cutback-escape", "func F(l []string) []string { var c []string; for _, s := range l { c = append(c, s) }; d := c; c = c[:0]; c = append(c, \"x\"); return d }", "alias"},
		{"cutback-return", "func F(l []string) []string { var c []string; for _, s := range l { c = append(c, s) }; c = c[:0]; return c }", "alias"},
		{"range-changes", "func F(n int) int { s := make([]int, n); t := 0; for i, v := range s { s[n-1-i] = 1; t += v }; return t }", "which its body changes"},
		{"map-param-store", "func F(m map[string]int) int { m[\"a\"] = 1; return 0 }", "not made by make"},
		{"map-return", "func F() map[string]int { m := make(map[string]int); m[\"a\"] = 1; return m }", "other than as m[k]"},
		{"map-alias", "func F() int { m := make(map[string]int); n := m; n[\"a\"] = 1; return m[\"a\"] }", ""},
		{"map-range", "func F() int { m := make(map[string]int); m[\"a\"] = 1; t := 0; for range m { t++ }; return t }", ""},
		{"map-len", "func F() int { m := make(map[string]int); return len(m) }", ""},
		{"map-delete", "func F() int { m := make(map[string]int); delete(m, \"a\"); return 0 }", ""},
		{"lit-assigns", "func F(n int) int { c := 0; return sort.Search(n, func(k int) bool { c++; return k > 3 }) + c }", "assigns the outer variable c"},
		{"lit-loop", "func F(n int) int { return sort.Search(n, func(k int) bool { for k > 0 { k-- }; return true }) }", "loop inside a function literal"},
		{"lit-writes-buffer", "func F(n int) []byte { var b bytes.Buffer; sort.Search(n, func(k int) bool { b.WriteString(\"x\"); return true }); return b.Bytes() }", ""},
		{"lit-variable", "func F(n int) int { f := func(k int) bool { return k > 3 }; return sort.Search(n, f) }", "FuncLit"},
		{"buffer-copy", "func F() []byte { var b bytes.Buffer; c := b; c.WriteString(\"x\"); return b.Bytes() }", "opaque"},
		{"buffer-pointer", "func F() []byte { var b bytes.Buffer; p := &b; p.WriteString(\"x\"); return b.Bytes() }", ""},
		{"buffer-param", "func F(b bytes.Buffer) []byte { return b.Bytes() }", ""},
		{"mutates-expr", "func F() int { var b bytes.Buffer; n, _ := b.WriteString(\"x\"); return n }", "other than as a statement"},
		{"fprintf-other-writer", "func F(w io.Writer) int { fmt.Fprintf(w, \"x\"); return 0 }", ""},
		{"any-operand", "func F(x []byte) []byte { var b bytes.Buffer; fmt.Fprintf(&b, \"%s\", x); return b.Bytes() }", "only string and int"},
		{"min-bytes", "func F(a, b byte) byte { return min(a, b) }", "built-in function min"},
		{"make-cap", "func F(n int) []int { s := make([]int, 0, n); return s }", "make"},
	}
	for _, c := range cases {
		cf := dataCfg()
		cf.Funcs = []string{"F"}
		_, err := translateData(t, "package synthdata\nimport (\"bytes\"; \"fmt\"; \"io\"; \"sort\"; \"strings\")\nvar _ = strings.SplitAfter\nvar _ = sort.Search\nvar _ io.Writer\nvar _ = fmt.Fprintf\nvar _ bytes.Buffer\ntype P struct{ A, B int }\nfunc G(l []int) int { return len(l) }\n"+c.body+"\n", cf)
		if err == nil {
			t.Errorf("%s: accepted", c.name)
			continue
		}
		if _, ok := err.(*go2coq.Unsupported); !ok || !strings.Contains(err.Error(), c.want) {
			t.Errorf("%s: error %q does not mention %q", c.name, err, c.want)
		}
	}
	// without AssocMaps a written map stays outside the subset; with it a map parameter is read
	cf := dataCfg()
	cf.Funcs = []string{"F"}
	cf.AssocMaps = false
	if _, err := translateData(t, "package synthdata\nfunc F() int { m := make(map[string]int); m[\"a\"] = 1; return m[\"a\"] }\n", cf); err == nil {
		t.Error("written map accepted without AssocMaps")
	}
	cf.AssocMaps = true
	r, err := translateData(t, "package synthdata\nfunc F(m map[string]int) int { return m[\"a\"] }\n", cf)
	if err != nil || !strings.Contains(r.Text, "(v_m : (gomap Z))") || !strings.Contains(r.Text, "go_map_get 0%Z v_m [x61]") {
		t.Errorf("map parameter under AssocMaps: %v\n%v", err, r)
	}
}

package go2coq_test

import (
	"fmt"
	"go/ast"
	"go/parser"
	"go/token"
	"math"
	"os"
	"os/exec"
	"path/filepath"
	"strings"
	"testing"
	"time"

	"verif/harness/go2coq"
	"verif/harness/go2coq/internal/synthfail"
)

const failPkg = "verif/harness/go2coq/internal/synthfail"
const auxPkg = "verif/harness/go2coq/internal/synthaux"

func failCfg(msgs bool) *go2coq.Config {
	return &go2coq.Config{
		Prefix: "f_",
		Stubs: map[string]string{
			"errors": "package errors\nfunc New(text string) error\n",
			"flag":   "package flag\nfunc Bool(name string, value bool, usage string) *bool\n",
			"os":     "package os\nfunc Getenv(key string) string\nfunc Setenv(key, value string) error\n",
			"time":   "package time\ntype Duration int64\n",
		},
		Lib: map[string]go2coq.LibFunc{"errors.New": {IsError: true},
			"(*" + failPkg + ".M).Lookup": {Coq: "t_Lookup", MayFail: true},
			"(*" + failPkg + ".M).Must":   {Coq: "t_Must", MayFail: true}},
		Int64Arith: true,
		FailMsgs:   msgs,
		InputVars:  []string{"Loud"},
		NoReturn:   []string{"M.Fatalf"},
		Funcs:      []string{"Grace", "Arith", "Div", "Steps", "M.Check"},
		Structs: map[string]go2coq.Struct{
			failPkg + ".Opts": {CoqType: "(bool * Z)%type", Ctor: "pair", Partial: true,
				Fields: []go2coq.Field{{Go: "Keep", Getter: "fst"}, {Go: "Limit", Getter: "snd"}}},
			failPkg + ".M": {CoqType: "((bool * Z) * Z * bytes)%type", Ctor: "t_mkM", Partial: true,
				Fields: []go2coq.Field{{Go: "opts", Getter: "t_opts"}, {Go: "grace", Getter: "t_grace"}, {Go: "name", Getter: "t_name"}}},
		},
		Segments: []go2coq.Segment{
			{Func: "M.Run", Name: "mid", After: "os.Getenv", Before: "os.Setenv"},
			{Func: "Make", Name: "lit", After: "os.Getenv", Before: "os.Setenv"},
			{Func: "M.Walk", Name: "all", After: "os.Getenv", Before: "os.Setenv"},
		},
	}
}

const failPreamble = `From Coq Require Import List ZArith NArith Bool.
From Coq.Strings Require Import Byte.
Import ListNotations.
From GI Require Import Lib.Bytes Lib.GoSem Lib.GoSemExt Lib.GoSemSeg Lib.GoSemState Lib.GoSemInt64 Lib.GoSemFail.
Import GoNotations.
Local Open Scope go_scope.
Local Open Scope Z_scope.

Definition t_mkM (o : bool * Z) (g : Z) (n : bytes) : (bool * Z) * Z * bytes := (o, g, n).
Definition t_opts (m : (bool * Z) * Z * bytes) := fst (fst m).
Definition t_grace (m : (bool * Z) * Z * bytes) := snd (fst m).
Definition t_name (m : (bool * Z) * Z * bytes) := snd m.
(* the methods Lookup and Must of M, as the Go functions of internal/synthfail compute *)
Definition t_Lookup (m : (bool * Z) * Z * bytes) (k : bytes) : res (exitm (Z * bool)) :=
  match k with
  | [] => Ok (DoneM (0, false))
  | c :: _ => if beq c x21 then Ok (FailedM [x62; x61; x64; x20; x6b; x65; x79; x20; x25; x71]) else Ok (DoneM (len k, true))
  end.
Definition t_Must (m : (bool * Z) * Z * bytes) (k : bytes) : res (exitm unit) :=
  match k with [] => Ok (FailedM [x65; x6d; x70; x74; x79; x20; x6b; x65; x79]) | _ => Ok (DoneM tt) end.

`

func coqZ64(v int64) string { return fmt.Sprintf("(%d)%%Z", v) }

func parseFail(t *testing.T, src string) (*token.FileSet, *ast.File) {
	fset := token.NewFileSet()
	f, err := parser.ParseFile(fset, "synthfail.go", src, parser.ParseComments)
	if err != nil {
		t.Fatal(err)
	}
	return fset, f
}

func TestInt64FailAgainstGo(t *testing.T) {
	src, err := os.ReadFile("internal/synthfail/synthfail.go")
	if err != nil {
		t.Fatal(err)
	}
	fset, f := parseFail(t, string(src))
	r, err := go2coq.Translate(fset, []*ast.File{f}, failPkg, failCfg(true))
	if err != nil {
		t.Fatal(err)
	}
	fset2, f2 := parseFail(t, string(src))
	pcfg := failCfg(false)
	pcfg.Segments = pcfg.Segments[:2]
	plain, err := go2coq.Translate(fset2, []*ast.File{f2}, failPkg, pcfg)
	if err != nil {
		t.Fatal(err)
	}
	var ex []string
	add := func(call, want string) { ex = append(ex, fmt.Sprintf("(%s) = %s", call, want)) }
	vals := []int64{0, 1, -1, 2, 19, 20, 21, -20, -21, 1999999999, 100000000, 2000000001, math.MaxInt64, math.MinInt64,
		math.MaxInt64 - 1, math.MinInt64 + 1, math.MinInt64 + 199999999, math.MinInt64 + 200000000, 1 << 62, -(1 << 62), 3037000500}
	for _, a := range vals {
		g, to := synthfail.Grace(time.Duration(a), 100*time.Millisecond)
		add("f_Grace "+coqZ64(a)+" 100000000", fmt.Sprintf("Ok (%s, %s)", coqZ64(int64(g)), coqZ64(int64(to))))
		add("f_Steps "+coqZ64(a), "Ok "+coqZ64(synthfail.Steps(a)))
		for _, b := range vals {
			s, d, p, n := synthfail.Arith(a, b)
			add("f_Arith "+coqZ64(a)+" "+coqZ64(b), fmt.Sprintf("Ok (%s, %s, %s, %s)", coqZ64(s), coqZ64(d), coqZ64(p), coqZ64(n)))
			add("f_Div "+coqZ64(a)+" "+coqZ64(b), res(func() string {
				q, m := synthfail.Div(a, b)
				return fmt.Sprintf("(%s, %s)", coqZ64(q), coqZ64(m))
			}))
		}
	}
	mval := func(keep bool, limit int64) string {
		return fmt.Sprintf("(t_mkM (%v, %s) 0 [])", keep, coqZ64(limit))
	}
	for _, n := range []int{-3, -1, 0, 5, 9, 10, 77} {
		m := synthfail.NewM(false, 0)
		var got int
		failed := synthfail.Caught(func() { got = m.Check(n) })
		want := fmt.Sprintf("Ok (DoneM %s)", coqZ(got))
		switch {
		case failed && n < 0:
			want = "Ok (FailedM " + coqBytes([]byte("negative: %d")) + ")"
		case failed:
			want = "Ok (FailedM " + coqBytes([]byte("too large")) + ")"
		}
		add("f_M_Check "+mval(false, 0)+" "+coqZ(n), want)
	}
	for _, loud := range []bool{false, true} {
		*synthfail.Loud = loud
		for _, keep := range []bool{false, true} {
			for _, n := range []int32{0, 1, -1} {
				for _, budget := range []int64{-1, 0, 1, 7, 8, 100, 101, math.MinInt64, math.MaxInt64} {
					m := synthfail.NewM(keep, 100)
					os.Unsetenv("SYNTHFAIL_B")
					var got time.Duration
					failed := synthfail.Caught(func() { got = m.Run(n, time.Duration(budget)) })
					_, after := os.LookupEnv("SYNTHFAIL_B")
					if failed == after {
						t.Fatalf("Run(%d, %d): failed = %v but the effect after the segment ran = %v", n, budget, failed, after)
					}
					call := fmt.Sprintf("f_M_Run_mid %s %s %s %v", mval(keep, 100), coqZ(int(n)), coqZ64(budget), loud)
					switch {
					case failed && budget < 0:
						add(call, "Ok (Return (FailedM "+coqBytes([]byte("negative budget %v"))+"))")
					case failed:
						add(call, "Ok (Return (FailedM "+coqBytes([]byte("over the limit"))+"))")
					default:
						add(call, fmt.Sprintf("Ok (Normal %s)", coqZ64(int64(got))))
					}
				}
			}
		}
	}
	*synthfail.Loud = false
	for _, g := range []int64{0, 5, 6, math.MaxInt64} {
		m := synthfail.Make("nm", time.Duration(g), func() {})
		add("f_Make_lit "+coqBytes([]byte("nm"))+" "+coqZ64(g),
			fmt.Sprintf("Ok (Normal (t_mkM (%v, 0) %s %s))", m.Keep(), coqZ64(int64(m.Grace())), coqBytes([]byte(m.Name()))))
	}
	for _, keys := range [][]string{{}, {"a"}, {"ab", "c"}, {"ab", "", "c"}, {"a", "!x", "b"}, {"!"}, {"abc", ""}, {"", ""}} {
		m := synthfail.NewM(false, 0)
		os.Unsetenv("SYNTHFAIL_B")
		var got int
		failed := synthfail.Caught(func() { got = m.Walk(keys) })
		_, after := os.LookupEnv("SYNTHFAIL_B")
		if failed == after {
			t.Fatalf("Walk(%q): failed = %v but the effect after the segment ran = %v", keys, failed, after)
		}
		var parts []string
		for _, k := range keys {
			parts = append(parts, coqBytes([]byte(k)))
		}
		call := fmt.Sprintf("f_M_Walk_all 10 %s [%s]", mval(false, 0), strings.Join(parts, "; "))
		if failed {
			ex = append(ex, fmt.Sprintf("(match %s with Ok (Return (FailedM _)) => true | _ => false end) = true", call))
		} else {
			ex = append(ex, fmt.Sprintf("(match %s with Ok (Normal (_, t)) => Some t | _ => None end) = Some %s", call, coqZ(got)))
		}
	}
	add("f_M_Walk_all 1 "+mval(false, 0)+" ["+coqBytes([]byte("a"))+"; "+coqBytes([]byte("b"))+"]", "OutOfFuel")
	if !strings.Contains(plain.Text, "Ok (Return Failed)") || strings.Contains(plain.Text, "FailedM") {
		t.Error("without FailMsgs a no-return call inside a segment is not Return Failed")
	}
	if !strings.Contains(plain.Text, "(exit Z)") {
		t.Errorf("without FailMsgs the segment with a no-return call does not have the result type exit:\n%s", plain.Text)
	}

	theories, _ := filepath.Abs("../../coq/theories")
	if th := os.Getenv("GO2COQ_THEORIES"); th != "" {
		theories = th
	}
	if _, err := os.Stat(filepath.Join(theories, "Lib", "GoSemFail.vo")); err != nil {
		t.Skip("compiled Lib/GoSemFail.vo not found under " + theories)
	}
	if _, err := os.Stat(filepath.Join(theories, "Lib", "GoSemInt64.vo")); err != nil {
		t.Skip("compiled Lib/GoSemInt64.vo not found under " + theories)
	}
	if _, err := exec.LookPath("coqc"); err != nil {
		t.Skip("coqc not found")
	}
	dir := t.TempDir()
	var b strings.Builder
	b.WriteString(failPreamble)
	b.WriteString(r.Text)
	for i, e := range ex {
		fmt.Fprintf(&b, "Example ex%d : %s.\nProof. vm_compute. reflexivity. Qed.\n", i, e)
	}
	b.WriteString("Module Plain.\n" + plain.Text + "End Plain.\n")
	file := filepath.Join(dir, "SynthFail.v")
	if err := os.WriteFile(file, []byte(b.String()), 0o644); err != nil {
		t.Fatal(err)
	}
	if keep := os.Getenv("GO2COQ_KEEP"); keep != "" {
		os.WriteFile(keep+".fail", []byte(b.String()), 0o644)
	}
	args := []string{"300", "coqc", "-q", "-Q", theories, "GI"}
	if extra := os.Getenv("GO2COQ_THEORIES_EXTRA"); extra != "" {
		args = append(args, "-Q", extra, "GI")
	}
	cmd := exec.Command("timeout", append(args, file)...)
	cmd.Dir = dir
	out, err := cmd.CombinedOutput()
	if err != nil {
		t.Fatalf("coqc: %v\n%s", err, out)
	}
	t.Logf("%d evaluations of %d translated functions and segments agree with Go", len(ex), len(r.Funcs))
}

// What lies outside the constructs of int64.go / segfail.go / partiallit.go is refused.
func TestInt64FailRejects(t *testing.T) {
	head := "package synthfail\nimport (\"errors\"; \"flag\"; \"os\"; \"time\")\nvar _ = errors.New\nvar _ time.Duration\n" +
		"var Loud = flag.Bool(\"l\", false, \"\")\nvar Count int\n" +
		"type Opts struct { Keep bool; Limit time.Duration; Hook func() }\n" +
		"type M struct { opts Opts; grace time.Duration; name string; hook func(); seen map[string]bool }\n" +
		"func (m *M) Fatalf(format string, args ...any) { panic(\"x\") }\n"
	seg := []go2coq.Segment{{Func: "M.F", Name: "s", After: "os.Getenv", Before: "os.Setenv"}}
	cases := []struct {
		name, body, want string
		mod              func(*go2coq.Config)
	}{
		{"no-flag", "func (m *M) F(a, c int64) int64 { os.Getenv(\"A\"); d := a + c; os.Setenv(\"B\", \"\"); return d }", "operator +", func(c *go2coq.Config) { c.Int64Arith = false }},
		{"shift", "func (m *M) F(a int64) int64 { os.Getenv(\"A\"); d := a << 2; os.Setenv(\"B\", \"\"); return d }", "operator <<", nil},
		{"and", "func (m *M) F(a, c int64) int64 { os.Getenv(\"A\"); d := a & c; os.Setenv(\"B\", \"\"); return d }", "operator &", nil},
		{"message", "func (m *M) F(s string) { os.Getenv(\"A\"); if s == \"\" { m.Fatalf(s) }; os.Setenv(\"B\", \"\") }", "not a constant string", nil},
		{"other-recv", "func (m *M) F(o *M) { os.Getenv(\"A\"); if o.name == \"\" { o.Fatalf(\"x\") }; os.Setenv(\"B\", \"\") }", "other than the receiver", nil},
		{"input-outside", "func G() bool { return *Loud }", "outside a Segment", func(c *go2coq.Config) { c.Funcs = []string{"G"}; c.Segments = nil }},
		{"input-loop", "func (m *M) F(n int) int { os.Getenv(\"A\"); k := 0; for i := 0; i < n; i++ { if *Loud { k++ } }; os.Setenv(\"B\", \"\"); return k }", "inside a loop", nil},
		{"input-store", "func (m *M) F() { os.Getenv(\"A\"); *Loud = true; os.Setenv(\"B\", \"\") }", "", nil},
		{"input-not-listed", "func (m *M) F() int { os.Getenv(\"A\"); k := Count; os.Setenv(\"B\", \"\"); return k }", "", nil},
		{"lit-effect", "func (m *M) F(f func() map[string]bool) *M { os.Getenv(\"A\"); x := &M{name: \"a\", seen: f()}; os.Setenv(\"B\", \"\"); return x }", "does not denote", nil},
		{"lit-unkeyed", "func (m *M) F() Opts { os.Getenv(\"A\"); x := Opts{true, 1, nil}; os.Setenv(\"B\", \"\"); return x }", "without a key", nil},
		{"mayfail-noflag", "func (m *M) Lookup(k string) (int, bool) { return 0, false }\nfunc (m *M) F() int { os.Getenv(\"A\"); v, _ := m.Lookup(\"a\"); w := v + 1; os.Setenv(\"B\", \"\"); return w }", "without Config.FailMsgs", func(c *go2coq.Config) { c.FailMsgs = false }},
		{"mayfail-nested", "func (m *M) One(k string) int { return 1 }\nfunc (m *M) F() int { os.Getenv(\"A\"); w := m.One(\"a\") + 1; os.Setenv(\"B\", \"\"); return w }", "inside an expression", func(c *go2coq.Config) { c.Lib["(*"+failPkg+".M).One"] = go2coq.LibFunc{Coq: "t_One", MayFail: true} }},
		{"lit-escape", "func (m *M) F(g func(*M)) { os.Getenv(\"A\"); g(&M{name: \"a\"}); os.Setenv(\"B\", \"\") }", "", nil},
	}
	for _, c := range cases {
		cfg := failCfg(true)
		cfg.Funcs = nil
		cfg.Segments = seg
		if c.mod != nil {
			c.mod(cfg)
		}
		fset := token.NewFileSet()
		f, err := parser.ParseFile(fset, "x.go", head+c.body+"\n", 0)
		if err != nil {
			t.Fatalf("%s: %v", c.name, err)
		}
		_, err = go2coq.Translate(fset, []*ast.File{f}, failPkg, cfg)
		if err == nil {
			t.Errorf("%s: accepted", c.name)
			continue
		}
		if _, ok := err.(*go2coq.Unsupported); !ok || !strings.Contains(err.Error(), c.want) {
			t.Errorf("%s: error %q does not mention %q", c.name, err, c.want)
		}
	}
}

// A renamed local or a comment changes bound names only; the dropped elements of a partial
// literal may change freely as long as they stay inert.
func TestInt64FailStable(t *testing.T) {
	src, _ := os.ReadFile("internal/synthfail/synthfail.go")
	tr := func(s string) string {
		fset, f := parseFail(t, s)
		r, err := go2coq.Translate(fset, []*ast.File{f}, failPkg, failCfg(true))
		if err != nil {
			t.Fatal(err)
		}
		return r.Text
	}
	a := tr(string(src))
	if b := tr(strings.ReplaceAll(string(src), "hook:  func() { f() },", "hook:  f, // changed")); a != b {
		t.Error("changing an element of a partial literal that the table does not denote changes the generated text")
	}
	c := tr(strings.ReplaceAll(string(src), "half", "part"))
	if c == a || strings.ReplaceAll(c, "v_part", "v_half") != a {
		t.Error("renaming a local changes more than the bound names")
	}
	if d := tr(strings.ReplaceAll(string(src), "half := budget / 2", "half := budget / 3")); d == a {
		t.Error("changing a constant of the arithmetic does not change the generated text")
	}
}

func failCfgN() *go2coq.Config {
	cfg := failCfg(true)
	cfg.Funcs = nil
	cfg.Stubs["strconv"] = "package strconv\nfunc Itoa(i int) string\n"
	cfg.Stubs[auxPkg] = "package synthaux\ntype Item struct {\n\tName string\n\tData []byte\n}\ntype Bag struct {\n\tComment []byte\n\tItems []Item\n}\nfunc Size(b *Bag) int\n"
	cfg.Lib[auxPkg+".Size"] = go2coq.LibFunc{Coq: "t_Size"}
	cfg.Lib["strconv.Itoa"] = go2coq.LibFunc{Coq: "go_fmt_int"}
	cfg.NoReturn = []string{"M.Fatalf", "N.Fatalf"}
	cfg.RefMaps = []string{"map[string]string"}
	cfg.Structs[auxPkg+".Item"] = go2coq.Struct{CoqType: "(bytes * bytes)%type", Ctor: "pair",
		Fields: []go2coq.Field{{Go: "Name", Getter: "fst"}, {Go: "Data", Getter: "snd"}}}
	cfg.Structs[auxPkg+".Bag"] = go2coq.Struct{CoqType: "(bytes * list (bytes * bytes))%type", Ctor: "pair",
		Fields: []go2coq.Field{{Go: "Comment", Getter: "fst"}, {Go: "Items", Getter: "snd"}}}
	cfg.Structs[failPkg+".N"] = go2coq.Struct{CoqType: "t_N", Ctor: "t_mkN", Partial: true,
		Fields: []go2coq.Field{{Go: "index", Getter: "t_nidx"}, {Go: "bag", Getter: "t_nbag"}, {Go: "label", Getter: "t_nlabel"}}}
	cfg.Segments = []go2coq.Segment{
		{Func: "N.Note", Name: "all", After: "os.Getenv", Before: "os.Setenv", State: []string{"n"}},
		{Func: "N.Fill", Name: "item", After: "var:it", State: []string{"it"}},
		{Func: "N.Total", Name: "args", Args: "os.Setenv"},
	}
	return cfg
}

const failPreambleN = `From Coq Require Import List ZArith NArith Bool.
From Coq.Strings Require Import Byte.
Import ListNotations.
From GI Require Import Lib.Bytes Lib.GoSem Lib.GoSemExt Lib.GoSemSeg Lib.GoSemState Lib.GoSemData Lib.GoSemInt64 Lib.GoSemFail.
Import GoNotations.
Local Open Scope go_scope.
Local Open Scope Z_scope.

Definition t_N : Type := (mapref bytes * (bytes * list (bytes * bytes)) * bytes)%type.
Definition t_mkN (i : mapref bytes) (b : bytes * list (bytes * bytes)) (l : bytes) : t_N := (i, b, l).
Definition t_nidx (n : t_N) := fst (fst n).
Definition t_nbag (n : t_N) := snd (fst n).
Definition t_nlabel (n : t_N) := snd n.
Definition t_Size (b : bytes * list (bytes * bytes)) : Z := len (fst b) + len_of (snd b).

`

// State that is a local pointer, state together with no-return calls, v, ok := m[k] on a written
// map in a field, a pointer-valued field handed to a table function, dead jumps after a
// no-return call.
func TestSegStateFailAgainstGo(t *testing.T) {
	src, err := os.ReadFile("internal/synthfail/synthfail.go")
	if err != nil {
		t.Fatal(err)
	}
	fset, f := parseFail(t, string(src))
	r, err := go2coq.Translate(fset, []*ast.File{f}, failPkg, failCfgN())
	if err != nil {
		t.Fatal(err)
	}
	var ex []string
	add := func(call, want string) { ex = append(ex, fmt.Sprintf("(%s) = %s", call, want)) }
	type kv struct{ k, v string }
	mapVal := func(h []kv) string {
		var parts []string
		for i := len(h) - 1; i >= 0; i-- {
			parts = append(parts, "("+coqBytes([]byte(h[i].k))+", "+coqBytes([]byte(h[i].v))+")")
		}
		return "(Some [" + strings.Join(parts, "; ") + "])"
	}
	nval := func(h []kv) string { return "(t_mkN " + mapVal(h) + " ([], []) [])" }
	n := synthfail.NewN()
	var hist []kv
	for _, c := range []kv{{"a", "1"}, {"a", "1"}, {"a", "2"}, {"b", "1"}, {"", "x"}, {"b", "1"}, {"a", "1"}, {"a", "1"}} {
		os.Unsetenv("SYNTHFAIL_B")
		var got bool
		failed := synthfail.Caught(func() { got = n.Note(c.k, c.v) })
		call := fmt.Sprintf("f_N_Note_all %s %s %s", nval(hist), coqBytes([]byte(c.k)), coqBytes([]byte(c.v)))
		switch {
		case failed:
			add(call, "Ok (Return (FailedM "+coqBytes([]byte("empty key for %q"))+"))")
		case !got:
			add(call, "Ok (Return (DoneM ("+nval(hist)+", false)))")
		default:
			hist = append(hist, c)
			add(call, "Ok (Normal "+nval(hist)+")")
			if v, ok := n.Index(c.k); !ok || v != c.v {
				t.Fatalf("Note(%q, %q) did not store", c.k, c.v)
			}
		}
	}
	for _, name := range []string{"x", "y"} {
		for _, content := range []string{"", "new"} {
			for _, found0 := range []bool{false, true} {
				n := synthfail.NewN(synthfail.Item{Name: "x", Data: []byte("old")})
				var found bool
				failed := synthfail.Caught(func() { found = n.Fill(name, content) })
				it := "(" + coqBytes([]byte("x")) + ", " + coqBytes([]byte("old")) + ")"
				call := fmt.Sprintf("f_N_Fill_item %s %s %v %s", coqBytes([]byte(name)), coqBytes([]byte(content)), found0, it)
				switch {
				case failed:
					add(call, "Ok (Return (FailedM "+coqBytes([]byte("no content for %q"))+"))")
				case !found:
					add(call, fmt.Sprintf("Ok (Continue (%v, %s))", found0, it))
				default:
					add(call, fmt.Sprintf("Ok (Normal (true, (%s, %s)))", coqBytes([]byte("x")), coqBytes(n.Items()[0].Data)))
				}
			}
		}
	}
	n2 := synthfail.NewN(synthfail.Item{Name: "p"}, synthfail.Item{Name: "q"}, synthfail.Item{Name: "r"})
	n2.SetLabel("SYNTHFAIL_T")
	n2.Total()
	add("f_N_Total_args (t_mkN None ([], [([x70], []); ([x71], []); ([x72], [])]) "+coqBytes([]byte("SYNTHFAIL_T"))+")",
		"Ok ("+coqBytes([]byte("SYNTHFAIL_T"))+", "+coqBytes([]byte(os.Getenv("SYNTHFAIL_T")))+")")
	if n2.Len() != 0 {
		t.Fatal("Len")
	}

	theories, _ := filepath.Abs("../../coq/theories")
	if th := os.Getenv("GO2COQ_THEORIES"); th != "" {
		theories = th
	}
	if _, err := os.Stat(filepath.Join(theories, "Lib", "GoSemFail.vo")); err != nil {
		t.Skip("compiled Lib/GoSemFail.vo not found under " + theories)
	}
	if _, err := exec.LookPath("coqc"); err != nil {
		t.Skip("coqc not found")
	}
	dir := t.TempDir()
	var b strings.Builder
	b.WriteString(failPreambleN)
	b.WriteString(r.Text)
	for i, e := range ex {
		fmt.Fprintf(&b, "Example ex%d : %s.\nProof. vm_compute. reflexivity. Qed.\n", i, e)
	}
	file := filepath.Join(dir, "SynthFailN.v")
	if err := os.WriteFile(file, []byte(b.String()), 0o644); err != nil {
		t.Fatal(err)
	}
	if keep := os.Getenv("GO2COQ_KEEP"); keep != "" {
		os.WriteFile(keep+".failn", []byte(b.String()), 0o644)
	}
	cmd := exec.Command("timeout", "300", "coqc", "-q", "-Q", theories, "GI", file)
	cmd.Dir = dir
	out, err := cmd.CombinedOutput()
	if err != nil {
		t.Fatalf("coqc: %v\n%s", err, out)
	}
	t.Logf("%d evaluations of %d translated segments agree with Go", len(ex), len(r.Funcs))
}

// The conditions of these constructs.
func TestSegStateFailRejects(t *testing.T) {
	head := "package synthfail\nimport (\"errors\"; \"flag\"; \"os\"; \"time\"; \"" + auxPkg + "\")\nvar _ = errors.New\nvar _ time.Duration\nvar _ = flag.Bool\nvar _ = synthaux.Size\n" +
		"type Opts struct { Keep bool; Limit time.Duration; Hook func() }\n" +
		"type M struct { opts Opts; grace time.Duration; name string; hook func(); seen map[string]bool }\n" +
		"func (m *M) Fatalf(format string, args ...any) { panic(\"x\") }\n" +
		"type Item = synthaux.Item\ntype Bag = synthaux.Bag\n" +
		"type N struct { index map[string]string; bag *Bag; label string }\nfunc (n *N) Fatalf(format string, args ...any) { panic(\"x\") }\n"
	cases := []struct {
		name, body, want string
		segs             []go2coq.Segment
	}{
		{"dead-code", "func (n *N) F(k string) { os.Getenv(\"A\"); if k == \"\" { n.Fatalf(\"x\"); k = \"y\" }; os.Setenv(k, \"\") }", "unreachable code",
			[]go2coq.Segment{{Func: "N.F", Name: "s", After: "os.Getenv", Before: "os.Setenv"}}},
		{"map-copied", "func (n *N) F(k string) { os.Getenv(\"A\"); m := n.index; m[k] = k; os.Setenv(k, \"\") }", "could be shared",
			[]go2coq.Segment{{Func: "N.F", Name: "s", After: "os.Getenv", Before: "os.Setenv", State: []string{"n"}}}},
		{"map-literal", "func mk(m map[string]string) *N { return &N{index: m} }\nfunc (n *N) F(k string) { os.Getenv(\"A\"); n.index[k] = k; os.Setenv(k, \"\") }", "set in a struct literal",
			[]go2coq.Segment{{Func: "N.F", Name: "s", After: "os.Getenv", Before: "os.Setenv", State: []string{"n"}}}},
		{"state-not-pointer", "func (n *N) F(k string) { os.Getenv(\"A\"); c := 1; c++; os.Setenv(k, \"\") }", "state variable c",
			[]go2coq.Segment{{Func: "N.F", Name: "s", After: "os.Getenv", Before: "os.Setenv", State: []string{"c"}}}},
		{"ptr-field-escapes", "func keep(b *Bag) {}\nfunc (n *N) F(k string) { os.Getenv(\"A\"); keep(n.bag); os.Setenv(k, \"\") }", "",
			[]go2coq.Segment{{Func: "N.F", Name: "s", After: "os.Getenv", Before: "os.Setenv"}}},
	}
	for _, c := range cases {
		cfg := failCfgN()
		cfg.Segments = c.segs
		fset := token.NewFileSet()
		f, err := parser.ParseFile(fset, "x.go", head+c.body+"\n", 0)
		if err != nil {
			t.Fatalf("%s: %v", c.name, err)
		}
		_, err = go2coq.Translate(fset, []*ast.File{f}, failPkg, cfg)
		if err == nil {
			t.Errorf("%s: accepted", c.name)
			continue
		}
		if _, ok := err.(*go2coq.Unsupported); !ok || !strings.Contains(err.Error(), c.want) {
			t.Errorf("%s: error %q does not mention %q", c.name, err, c.want)
		}
	}
}

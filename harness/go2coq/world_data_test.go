package go2coq_test

import (
	"fmt"
	"go/ast"
	"go/parser"
	"go/token"
	"os"
	"os/exec"
	"path/filepath"
	"strings"
	"testing"

	"verif/harness/go2coq"
	"verif/harness/go2coq/internal/synthwd"
	"verif/harness/go2coq/internal/synthwd/wd"
)

const wdPath = "verif/harness/go2coq/internal/synthwd/wd"
const synthwdPath = "verif/harness/go2coq/internal/synthwd"

const wdStub = `package wd
var ErrBad error
var ErrSkip error
type Item struct { Name string; Data []byte }
type Pack struct { Note []byte; Items []Item }
func Put(name string, b []byte) (int, error)
func Get(name string) ([]byte, error)
func Errf(format string, a ...any) error
func Cat(parts ...string) string
func Log(format string, a ...any)
func Each(items []Item, fn func(it Item, err error) error) error
`

func worldDataCfg() *go2coq.WorldConfig {
	return &go2coq.WorldConfig{
		Stubs: map[string]string{wdPath: wdStub},
		Lib: map[string]go2coq.WLib{
			wdPath + ".Put":  {Coq: "d_put", Kind: go2coq.WWorld},
			wdPath + ".Get":  {Coq: "d_get", Kind: go2coq.WWorld, Fresh: true},
			wdPath + ".Errf": {Coq: "d_errf", Kind: go2coq.WPure},
			wdPath + ".Cat":  {Coq: "d_cat", Kind: go2coq.WPure},
			wdPath + ".Log":  {Kind: go2coq.WDrop},
		},
		Structs: map[string]go2coq.Struct{
			wdPath + ".Item": {CoqType: "(bytes * bytes)%type", Ctor: "pair", Fields: []go2coq.Field{{Go: "Name", Getter: "fst"}, {Go: "Data", Getter: "snd"}}},
			wdPath + ".Pack": {CoqType: "pack", Ctor: "mk_pack", Fields: []go2coq.Field{{Go: "Items", Getter: "items"}, {Go: "Note", Getter: "note"}}},
		},
		ExtVars:   map[string]string{wdPath + ".ErrBad": "EBAD", wdPath + ".ErrSkip": "ESKIP"},
		DerefVars: map[string]string{synthwdPath + ".Verbose": "verbose"},
		WorldType: "W",
		WorldVar:  "w",
	}
}

func translateWorldData(t *testing.T, src string, cfg *go2coq.WorldConfig, lits []go2coq.WorldLit, funcs ...string) (*go2coq.Result, error) {
	fset := token.NewFileSet()
	f, err := parser.ParseFile(fset, "synthwd.go", src, parser.ParseComments)
	if err != nil {
		t.Fatal(err)
	}
	return go2coq.TranslateWorld(fset, []go2coq.WorldPkg{{Path: synthwdPath, Prefix: "s_", Files: []*ast.File{f}, Funcs: funcs, Lits: lits}}, cfg)
}

// the operations of wd in Coq: the world is (script, trace)
const wdCoq = `
Definition W : Type := (list Z * list Z)%type.
Record pack := mk_pack { note : bytes; items : list (bytes * bytes) }.
Definition EBAD : werr := WVal [x62].
Definition ESKIP : werr := WVal [x73].
Definition nxt (w : W) : Z * W := match fst w with [] => (0%Z, w) | v :: r => (v, (r, snd w)) end.
Definition tr (w : W) (l : list Z) : W := (fst w, snd w ++ l).
Definition d_put (w : W) (name b : bytes) : W * Z * werr :=
  let '(v, w1) := nxt w in let w2 := tr w1 [1%Z; len name; len b; v] in
  if (v <? 0)%Z then (w2, 0%Z, EBAD) else (w2, (len b + v)%Z, WNil).
Definition d_get (w : W) (name : bytes) : W * bytes * werr :=
  let '(v, w1) := nxt w in let w2 := tr w1 [2%Z; len name; v] in
  if (v <? 0)%Z then (w2, [], EBAD) else (w2, repeat x78 (Z.to_nat v), WNil).
Definition d_errf (format : bytes) (args : list bytes) : werr := WMade [x66] (format :: args) WNil.
Fixpoint d_cat (parts : list bytes) : bytes :=
  match parts with [] => [] | [p] => p | p :: r => p ++ x2f :: d_cat r end.
`

// wd.Each in Coq, over the translated literal
const wdEach = `
Fixpoint each (verbose : bool) (its : list (bytes * bytes)) (skip : bool) (w : W) (p : option pack) (tag : bytes) : res (W * option pack * werr) :=
  match its with
  | [] => Ok (w, p, WNil)
  | it :: r =>
      if skip then each verbose r false w p tag
      else
        x <- s_Collect_each verbose w p tag it (if bytes_eqb (fst it) [x62; x72; x6f; x6b; x65; x6e] then EBAD else WNil) ;;
        let '(w1, p1, e) := x in
        if werr_is_nil e then each verbose r false w1 p1 tag
        else if werr_eqb e ESKIP then each verbose r true w1 p1 tag
        else Ok (w1, p1, e)
  end.
`

func coqErrD(e error) string {
	switch e {
	case nil:
		return "WNil"
	case wd.ErrBad:
		return "EBAD"
	case wd.ErrSkip:
		return "ESKIP"
	}
	if fe, ok := e.(*wd.FmtErr); ok {
		return fmt.Sprintf("(WMade [x66] %s WNil)", coqStrs(append([]string{fe.Format}, fe.Args...)))
	}
	return "UNKNOWN"
}

func coqItems(items []wd.Item) string {
	var parts []string
	for _, it := range items {
		parts = append(parts, fmt.Sprintf("(%s, %s)", coqBytes([]byte(it.Name)), coqBytes(it.Data)))
	}
	return "[" + strings.Join(parts, "; ") + "]"
}

func coqPack(p *wd.Pack) string {
	if p == nil {
		return "None"
	}
	return fmt.Sprintf("(Some (mk_pack %s %s))", coqBytes(p.Note), coqItems(p.Items))
}

func coqWorldD() string { return fmt.Sprintf("(%s, %s)", coqZs(wd.Script), coqZs(wd.Trace)) }

// Data in effectful code: a read-only pointer parameter to a struct of the table, range over a
// slice of structs (continue / break / return inside; a range without variables), variadic
// library functions (pure, and a dropped call statement), new of a table struct and stores
// through the pointer, append of struct values, of constant bytes and of a slice, a struct
// literal of the table, nil slices, *p of a package-level pointer variable, and a function
// literal handed to a library function, translated as a definition of its own with the captured
// pointer as state: the translation of internal/synthwd, evaluated by coqc over the Coq rendering
// of internal/synthwd/wd, agrees with the functions run as Go.
func TestWorldDataAgainstGo(t *testing.T) {
	src, err := os.ReadFile("internal/synthwd/synthwd.go")
	if err != nil {
		t.Fatal(err)
	}
	r, err := translateWorldData(t, string(src), worldDataCfg(),
		[]go2coq.WorldLit{{Func: "Collect", Arg: wdPath + ".Each", Name: "each"}}, "Store", "Load")
	if err != nil {
		t.Fatal(err)
	}
	var ex []string
	add := func(call, want string) { ex = append(ex, fmt.Sprintf("(%s) = %s", call, want)) }
	packs := []*wd.Pack{
		nil,
		{},
		{Note: []byte("nn"), Items: []wd.Item{{Name: "a", Data: []byte("12")}}},
		{Items: []wd.Item{{Name: "a", Data: []byte("1")}, {Name: "", Data: []byte("zz")}, {Name: "bc", Data: nil}, {Name: "stop"}, {Name: "d", Data: []byte("4")}}},
		{Note: []byte("x"), Items: []wd.Item{{Name: "a", Data: []byte("1")}, {Name: "bad"}, {Name: "c"}}},
		{Items: []wd.Item{{Name: "broken", Data: []byte("q")}, {Name: "t", Data: []byte("r")}, {Name: "u", Data: []byte("s")}, {Name: "v"}}},
		{Items: []wd.Item{{Name: "t", Data: []byte("r")}, {Name: "u", Data: []byte("s")}, {Name: "broken", Data: []byte("q")}, {Name: "v"}}},
	}
	scripts := [][]int{{}, {3, 0, 5}, {1, -1, 2}, {-1}, {0, 0, -2, 4}, {4, 4, 4, 4, 4}}
	run := func(script []int, f func() string) (string, string) {
		wd.Script, wd.Trace = append([]int(nil), script...), nil
		out := res(func() string { v := f(); return "(" + coqWorldD() + v + ")" })
		return fmt.Sprintf("(%s, [])", coqZs(script)), out
	}
	for _, p := range packs {
		for _, sc := range scripts {
			w0, want := run(sc, func() string { n, err := synthwd.Store(p, "pre"); return ", " + coqZ(n) + ", " + coqErrD(err) })
			add("s_Store "+w0+" "+coqPack(p)+" "+coqBytes([]byte("pre")), want)
			w0, want = run(sc, func() string { q, err := synthwd.Load(p); return ", " + coqPack(q) + ", " + coqErrD(err) })
			add("s_Load "+w0+" "+coqPack(p), want)
			if p == nil {
				continue
			}
			for _, verbose := range []bool{false, true} {
				*synthwd.Verbose = verbose
				w0, want = run(sc, func() string { q, err := synthwd.Collect(p.Items, "t"); return ", " + coqPack(q) + ", " + coqErrD(err) })
				add("each "+coqB(verbose)+" "+coqItems(p.Items)+" false "+w0+" (Some (mk_pack [] [])) "+coqBytes([]byte("t")), want)
			}
			*synthwd.Verbose = false
		}
	}
	theories, _ := filepath.Abs("../../coq/theories")
	if th := os.Getenv("GO2COQ_THEORIES"); th != "" {
		theories = th
	}
	if _, err := os.Stat(filepath.Join(theories, "Lib", "GoSemWorld.vo")); err != nil {
		t.Skip("compiled Lib/GoSemWorld.vo not found under " + theories)
	}
	if _, err := exec.LookPath("coqc"); err != nil {
		t.Skip("coqc not found")
	}
	dir := t.TempDir()
	var b strings.Builder
	b.WriteString("From Coq Require Import List ZArith NArith Bool.\nFrom Coq.Strings Require Import Byte.\nImport ListNotations.\n")
	b.WriteString("From GI Require Import Lib.Bytes Lib.GoSem Lib.GoSemWorld.\nImport GoNotations.\nLocal Open Scope go_scope.\n")
	b.WriteString(wdCoq)
	b.WriteString("Section S.\nVariable verbose : bool.\n")
	b.WriteString(r.Text)
	b.WriteString("End S.\n")
	b.WriteString(wdEach)
	for i, e := range ex {
		fmt.Fprintf(&b, "Example ex%d : %s.\nProof. vm_compute. reflexivity. Qed.\n", i, e)
	}
	file := filepath.Join(dir, "SynthWD.v")
	if err := os.WriteFile(file, []byte(b.String()), 0o644); err != nil {
		t.Fatal(err)
	}
	if keep := os.Getenv("GO2COQ_KEEP_WORLD_DATA"); keep != "" {
		os.WriteFile(keep, []byte(b.String()), 0o644)
	}
	cmd := exec.Command("timeout", "300", "coqc", "-q", "-Q", theories, "GI", file)
	cmd.Dir = dir
	out, err := cmd.CombinedOutput()
	if err != nil {
		t.Fatalf("coqc: %v\n%s", err, out)
	}
	t.Logf("%d evaluations of %d translated functions agree with Go", len(ex), len(r.Funcs))
}

// What the data part of the world mode does not cover is refused, with a message naming it.
func TestWorldDataRejects(t *testing.T) {
	head := "package synthwd\nimport \"" + wdPath + "\"\nvar Verbose = new(bool)\nvar Other = new(bool)\n"
	cases := []struct {
		name, body, want string
		funcs            []string
		lits             []go2coq.WorldLit
	}{
		{"range-index", "func F(p *wd.Pack) int { n := 0; for i := range p.Items { n = n + i }; return n }", "index variable", []string{"F"}, nil},
		{"range-bytes", "func F(b []byte) int { n := 0; for range b { n++ }; return n }", "RangeStmt", []string{"F"}, nil},
		{"range-assign", "func F(p *wd.Pack) string { var it wd.Item; for _, it = range p.Items { }; return it.Name }", "existing variable", []string{"F"}, nil},
		{"pointer-param-store", "func F(p *wd.Pack) { p.Note = nil }", "pointer parameter", []string{"F"}, nil},
		{"pointer-param-copied", "func F(p *wd.Pack) *wd.Pack { return p }", "pointer parameter", []string{"F"}, nil},
		{"append-other-target", "func F(a, b []byte) []byte { b = append(a, '1'); return b }", "x = append(x, ...)", []string{"F"}, nil},
		{"append-as-value", "func F(a []byte) int { return len(append(a, '1')) }", "x = append(x, ...)", []string{"F"}, nil},
		{"append-not-fresh", "func F(a, b []byte) []byte { a = b; a = append(a, '1'); return a }", "not fresh", []string{"F"}, nil},
		{"append-not-fresh-struct", "func F(q wd.Pack) wd.Pack { var p wd.Pack; p = q; p.Note = append(p.Note, '1'); return p }", "not fresh", []string{"F"}, nil},
		{"append-byte-var", "func F(a []byte, c byte) []byte { a = append(a, c); return a }", "not a constant", []string{"F"}, nil},
		{"variadic-int", "func F(n int) error { return wd.Errf(\"x\", n) }", "variadic parameter", []string{"F"}, nil},
		{"deref-not-in-table", "func F() bool { return *Other }", "DerefVars", []string{"F"}, nil},
		{"deref-local", "func F(p *bool) bool { return *p }", "is not supported", []string{"F"}, nil},
		{"lit-defer", "func F(items []wd.Item) { wd.Each(items, func(it wd.Item, err error) error { defer wd.Log(\"x\"); return nil }) }", "DeferStmt",
			nil, []go2coq.WorldLit{{Func: "F", Arg: wdPath + ".Each", Name: "each"}}},
		{"lit-missing", "func F(items []wd.Item) { }", "no call of", nil, []go2coq.WorldLit{{Func: "F", Arg: wdPath + ".Each", Name: "each"}}},
		{"table-struct-field-missing", "func F(p *wd.Pack) int { return len(p.Note) }", "must give all", []string{"F"}, nil},
	}
	for _, c := range cases {
		cfg := worldDataCfg()
		if c.name == "table-struct-field-missing" {
			cfg.Structs[wdPath+".Pack"] = go2coq.Struct{CoqType: "pack", Ctor: "mk_pack", Fields: []go2coq.Field{{Go: "Note", Getter: "note"}}}
		}
		_, err := translateWorldData(t, head+c.body+"\n", cfg, c.lits, c.funcs...)
		if err == nil {
			t.Errorf("%s: accepted", c.name)
			continue
		}
		if _, ok := err.(*go2coq.Unsupported); !ok || !strings.Contains(err.Error(), c.want) {
			t.Errorf("%s: error %q does not mention %q", c.name, err, c.want)
		}
	}
}

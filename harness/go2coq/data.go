package go2coq

// Data that a function builds and changes in place (vocabulary: coq/theories/Lib/GoSemData.v).
//
//	owned slices: a local slice variable x is OWNED when it is assigned the result of make
//	or of a library function marked Fresh (its result shares no memory with anything else)
//	and otherwise only slice expressions of itself (x = x[a:b]); it may be used only as
//	x[i], x[i] = v, x[i] op= v, len(x), copy(x, ...), range x, range x[a:b], return x.  No
//	other live slice can then share its backing array, so an element store is the list with
//	the element replaced (go_store / go_store_of).  make([]T, n) is go_make_of zero n.
//
//	append targets may in addition be cut back (x = x[a:b], typically x = x[:0]) when x does
//	not escape: it then occurs only as x = append(x, ...), x = x[a:b], len(x), x[i], range x,
//	range x[a:b].
//
//	A range loop with a value variable over (a slice expression of) a variable that is
//	stored into or cut back must not assign that variable in its body (Go reads the elements
//	from the live array, the translation from the list as it was when the loop started).
//
//	written maps (Config.AssocMaps): every map[string]T is the association list gomap T;
//	m[k] is go_map_get zero m k, v, ok := m[k] is go_map_lookup zero m k, m[k] = v is
//	go_map_set m k v.  Stores are accepted only into a local made by make(map[string]T) that
//	occurs nowhere but in m[k], so that Go's reference semantics cannot be observed.
//
//	function literals are accepted as arguments of library functions: they must not assign
//	or change any variable declared outside them and contain no loop; the literal becomes
//	(fun params => body) of type params -> res T.
//
//	opaque library types (Config.Opaque, e.g. bytes.Buffer -> bytes): a local declared by
//	var x T, used only as the receiver of table methods and as &x / x in the first argument
//	of table functions.  A LibFunc marked Mutates is a call statement that replaces the value
//	of that variable by the Coq function's result.
//
//	a variadic parameter of type ...any (fmt): each operand is wrapped by its static type,
//	FmtStr for a string, FmtInt for an int; the Coq function receives the list.
//
//	min, max on ints are Z.min, Z.max; a local const declaration emits nothing (its uses are
//	constants).

import (
	"fmt"
	"go/ast"
	"go/token"
	"go/types"
	"strings"
)

// Opaque is the denotation of a library type used only through table functions.
type Opaque struct {
	CoqType string // Coq type of the value
	Zero    string // value of  var x T
}

const kOpaque kind = 100

func (t *translator) opaqueOf(T types.Type) (Opaque, bool) {
	if T == nil || t.cfg.Opaque == nil {
		return Opaque{}, false
	}
	n, ok := types.Unalias(T).(*types.Named)
	if !ok || n.Obj().Pkg() == nil {
		return Opaque{}, false
	}
	o, ok := t.cfg.Opaque[n.Obj().Pkg().Path()+"."+n.Obj().Name()]
	return o, ok
}

// opaqueOperand: e is x or &x for a local variable x of an opaque type; the Coq name of x.
func (ft *funcTr) opaqueOperand(e ast.Expr) string {
	if v := ft.opaqueVar(e); v != nil {
		return ft.names[v]
	}
	return ""
}

func (ft *funcTr) opaqueVar(e ast.Expr) *types.Var {
	e = ast.Unparen(e)
	if u, ok := e.(*ast.UnaryExpr); ok && u.Op == token.AND {
		e = ast.Unparen(u.X)
	}
	id, ok := e.(*ast.Ident)
	if !ok {
		return nil
	}
	v, ok := ft.isLocal(ft.t.info.Uses[id])
	if !ok {
		return nil
	}
	if _, ok := ft.t.opaqueOf(v.Type()); !ok {
		return nil
	}
	return v
}

// libOf: the table entry of the library function or method a call invokes.
func (ft *funcTr) libOf(c *ast.CallExpr) (LibFunc, *types.Func, bool) {
	sel, ok := ast.Unparen(c.Fun).(*ast.SelectorExpr)
	if !ok {
		return LibFunc{}, nil, false
	}
	fn, ok := ft.t.info.Uses[sel.Sel].(*types.Func)
	if !ok || fn.Pkg() == nil {
		return LibFunc{}, nil, false
	}
	key := fn.Pkg().Path() + "." + fn.Name()
	if fn.Type().(*types.Signature).Recv() != nil {
		key = fn.FullName()
	}
	lf, ok := ft.t.cfg.Lib[key]
	return lf, fn, ok
}

// mutTarget: e is a call of a library function marked Mutates; the variable it changes.
func (ft *funcTr) mutTarget(e ast.Expr) *ast.Ident {
	c, ok := ast.Unparen(e).(*ast.CallExpr)
	if !ok {
		return nil
	}
	lf, fn, ok := ft.libOf(c)
	if !ok || !lf.Mutates {
		return nil
	}
	var op ast.Expr
	if fn.Type().(*types.Signature).Recv() != nil {
		op = ast.Unparen(c.Fun).(*ast.SelectorExpr).X
	} else if len(c.Args) > 0 {
		op = c.Args[0]
	}
	if op == nil || ft.opaqueVar(op) == nil {
		ft.t.fail(c, "call of a function that changes its first argument on something other than a local variable of an opaque type")
	}
	op = ast.Unparen(op)
	if u, ok := op.(*ast.UnaryExpr); ok {
		op = ast.Unparen(u.X)
	}
	return op.(*ast.Ident)
}

// mutStmt: the statement f(&x, ...) / x.m(...) for a Mutates function: x gets the result.
func (ft *funcTr) mutStmt(c *ast.CallExpr, ind string) string {
	id := ft.mutTarget(c)
	v := ft.rootVar(id)
	lf, _, _ := ft.libOf(c)
	ft.mutOK = c
	pres, val := ft.call(c, nil)
	ft.mutOK = nil
	name := ft.names[v]
	if lf.Monadic {
		// the call is the last binding: bind the variable directly
		pres[len(pres)-1].pat = name
		return binds(pres, ind)
	}
	return binds(pres, ind) + fmt.Sprintf("%slet %s : %s := %s in\n", ind, name, ft.t.coqType(c, v.Type()), val)
}

// anyArg: an operand of a ...any parameter, wrapped by its static type.
func (ft *funcTr) anyArg(a ast.Expr, pt types.Type) ([]pre, string, bool) {
	if it, ok := types.Unalias(pt).Underlying().(*types.Interface); !ok || it.NumMethods() != 0 {
		return nil, "", false
	}
	T := ft.t.info.Types[a].Type
	if b, ok := T.(*types.Basic); ok && b.Info()&types.IsUntyped != 0 {
		T = types.Default(T)
	}
	var ctor string
	switch ft.t.kindOf(T) {
	case kString:
		ctor = "FmtStr"
	case kInt:
		ctor = "FmtInt"
	default:
		ft.t.fail(a, "operand of type %s for a ...any parameter (only string and int)", T)
	}
	p, v := ft.expr(a, T)
	return p, "(" + ctor + " " + v + ")", true
}

// funcLit: a function literal handed to a library function.
func (ft *funcTr) funcLit(fl *ast.FuncLit) string {
	t := ft.t
	sig, ok := t.info.Types[fl].Type.(*types.Signature)
	if !ok || sig.Variadic() {
		t.fail(fl, "function literal of this type")
	}
	if vs := ft.assigned(fl.Pos(), fl.End(), fl.Body); len(vs) > 0 {
		t.fail(fl, "function literal assigns the outer variable %s", vs[0].Name())
	}
	ast.Inspect(fl.Body, func(n ast.Node) bool {
		switch n := n.(type) {
		case *ast.ForStmt, *ast.RangeStmt:
			t.fail(n, "loop inside a function literal")
		case *ast.FuncLit:
			t.fail(n, "function literal inside a function literal")
		case *ast.CallExpr:
			if c := t.callee(n); c != "" && !ft.litCallOK(n, c) { // methods.go
				t.fail(n, "call of the translated function %s inside a function literal", c)
			}
		}
		return true
	})
	var params []string
	for i := 0; i < sig.Params().Len(); i++ {
		p := sig.Params().At(i)
		name := "_"
		if p.Name() != "" && p.Name() != "_" {
			name = ft.declare(p)
		}
		params = append(params, fmt.Sprintf("(%s : %s)", name, t.coqType(fl, p.Type())))
	}
	if sig.Results().Len() > 0 && sig.Results().At(0).Name() != "" {
		t.fail(fl, "function literal with named results")
	}
	if len(params) == 0 {
		params = []string{"(_ : unit)"}
	}
	savedSig, savedRes := ft.sig, ft.results
	ft.sig, ft.results = sig, nil
	ft.inLit++ // methods.go: the literal's returns are its own
	body := ft.block(fl.Body.List, mode{kind: mTail}, "        ")
	ft.inLit--
	ft.sig, ft.results = savedSig, savedRes
	return "(fun " + strings.Join(params, " ") + " =>\n" + strings.TrimRight(body, "\n") + ")"
}

// makeExt: make([]T, n) for T other than byte, make(map[string]T).
func (ft *funcTr) makeExt(c *ast.CallExpr) ([]pre, string, bool) {
	t := ft.t
	if len(c.Args) == 0 {
		return nil, "", false
	}
	T := t.info.Types[c.Args[0]].Type
	switch t.kindOf(T) {
	case kSlice:
		if len(c.Args) != 2 {
			return nil, "", false
		}
		p, n := ft.expr(c.Args[1], nil)
		tmp := ft.temp()
		z := t.zero(c, types.Unalias(T).Underlying().(*types.Slice).Elem())
		return append(p, pre{tmp, "go_make_of " + z + " " + n}), tmp, true
	case kMap:
		if !t.cfg.AssocMaps {
			return nil, "", false
		}
		if len(c.Args) == 2 && !ft.pureExpr(c.Args[1]) || len(c.Args) > 2 {
			t.fail(c, "make of a map with a size that can panic")
		}
		return nil, "go_map_empty", true
	}
	return nil, "", false
}

// minMax: the built-in functions min and max on ints.
func (ft *funcTr) minMax(c *ast.CallExpr, name string) ([]pre, string) {
	t := ft.t
	T := t.info.Types[c].Type
	if t.kindOf(T) != kInt || len(c.Args) == 0 {
		t.fail(c, "built-in function %s on values of type %s", name, T)
	}
	op := "Z.min"
	if name == "max" {
		op = "Z.max"
	}
	pres, acc := ft.expr(c.Args[0], T)
	for _, a := range c.Args[1:] {
		p, v := ft.expr(a, T)
		pres = append(pres, p...)
		acc = "(" + op + " " + acc + " " + v + ")"
	}
	return pres, acc
}

// mapIndex: m[k] and (v, ok = m[k]) on an association-list map.
func (ft *funcTr) mapIndex(x *ast.IndexExpr) ([]pre, string) {
	t := ft.t
	XT := t.info.Types[x.X].Type
	mt := types.Unalias(XT).Underlying().(*types.Map)
	op := "go_map_get"
	if tvx, ok := t.info.Types[x]; ok {
		if _, isTuple := tvx.Type.(*types.Tuple); isTuple {
			op = "go_map_lookup"
		}
	}
	p1, base := ft.expr(x.X, nil)
	p2, idx := ft.expr(x.Index, mt.Key())
	return append(p1, p2...), "(" + op + " " + t.zero(x, mt.Elem()) + " " + base + " " + idx + ")"
}

// isCommaOkMap: e is m[k] used for its two results on an association-list map.
func (ft *funcTr) isCommaOkMap(e ast.Expr) bool {
	if ft.isCommaOkRefMap(e) { // segfail.go
		return true
	}
	x, ok := ast.Unparen(e).(*ast.IndexExpr)
	if !ok || !ft.t.cfg.AssocMaps {
		return false
	}
	return ft.t.kindOf(ft.t.info.Types[x.X].Type) == kMap
}

// storeExt: x[i] = v for an owned []T, m[k] = v for a local map.
func (ft *funcTr) storeExt(x *ast.IndexExpr, val string, ind string) (string, bool) {
	t := ft.t
	if _, ok := ast.Unparen(x.X).(*ast.Ident); !ok {
		return "", false
	}
	v := ft.rootVar(x.X)
	switch t.kindOf(v.Type()) {
	case kSlice:
		pres, idx := ft.expr(x.Index, nil)
		return binds(pres, ind) + fmt.Sprintf("%s%s <- go_store_of %s %s %s ;;\n", ind, ft.names[v], ft.names[v], idx, val), true
	case kMap:
		if !t.cfg.AssocMaps {
			return "", false
		}
		mt := types.Unalias(v.Type()).Underlying().(*types.Map)
		pres, idx := ft.expr(x.Index, mt.Key())
		return binds(pres, ind) + fmt.Sprintf("%slet %s : %s := go_map_set %s %s %s in\n", ind, ft.names[v], t.coqType(x, v.Type()), ft.names[v], idx, val), true
	}
	return "", false
}

// ---------------------------------------------------------------- ownership

// selfSlice: the assignment lhs = rhs is x = x[a:b] for a local variable x.
func (ft *funcTr) selfSlice(lhs, rhs ast.Expr) bool {
	if rhs == nil {
		return false
	}
	l, ok := ast.Unparen(lhs).(*ast.Ident)
	if !ok {
		return false
	}
	s, ok := ast.Unparen(rhs).(*ast.SliceExpr)
	if !ok || s.Slice3 {
		return false
	}
	r, ok := ast.Unparen(s.X).(*ast.Ident)
	if !ok {
		return false
	}
	lo := ft.t.info.Uses[l]
	if lo == nil {
		lo = ft.t.info.Defs[l]
	}
	_, isLocal := ft.isLocal(lo)
	return isLocal && lo == ft.t.info.Uses[r]
}

// freshCall: e is a call of a library function whose result is newly allocated.
func (ft *funcTr) freshCall(e ast.Expr) bool {
	if e == nil {
		return false
	}
	c, ok := ast.Unparen(e).(*ast.CallExpr)
	if !ok {
		return false
	}
	lf, _, ok := ft.libOf(c)
	return ok && lf.Fresh
}

// storedInto: some statement of the function stores into an element of the variable o.
func (ft *funcTr) storedInto(o types.Object) bool {
	found := false
	is := func(e ast.Expr) bool {
		id, ok := ast.Unparen(e).(*ast.Ident)
		return ok && ft.t.info.Uses[id] == o
	}
	ast.Inspect(ft.root, func(n ast.Node) bool {
		var lhs []ast.Expr
		switch s := n.(type) {
		case *ast.AssignStmt:
			lhs = s.Lhs
		case *ast.IncDecStmt:
			lhs = []ast.Expr{s.X}
		case *ast.CallExpr:
			if ft.builtin(s) == "copy" && len(s.Args) == 2 && is(s.Args[0]) {
				found = true
			}
		}
		for _, l := range lhs {
			if ix, ok := ast.Unparen(l).(*ast.IndexExpr); ok && is(ix.X) {
				found = true
			}
		}
		return !found
	})
	return found
}

// up: the parent of n, parentheses skipped.
func (ft *funcTr) up(n ast.Node) ast.Node {
	p := ft.parents[n]
	for {
		if pe, ok := p.(*ast.ParenExpr); ok {
			p = ft.parents[pe]
		} else {
			return p
		}
	}
}

// ownedUse: the occurrence id of an owned slice variable is  range x,  range x[a:b]  or the
// right-hand side of  x = x[a:b]  (the uses allowed beyond x[i], len, copy, return).
func (ft *funcTr) ownedUse(id *ast.Ident) bool {
	switch p := ft.up(id).(type) {
	case *ast.RangeStmt:
		return ast.Unparen(p.X) == ast.Expr(id)
	case *ast.AssignStmt:
		// the left-hand side of x = x[a:b]
		return len(p.Lhs) == 1 && len(p.Rhs) == 1 && ast.Unparen(p.Lhs[0]) == ast.Expr(id) && ft.selfSlice(p.Lhs[0], p.Rhs[0])
	case *ast.SliceExpr:
		if ast.Unparen(p.X) != ast.Expr(id) || p.Slice3 {
			return false
		}
		switch q := ft.up(p).(type) {
		case *ast.RangeStmt:
			return ast.Unparen(q.X) == ast.Expr(p)
		case *ast.AssignStmt:
			return len(q.Lhs) == 1 && len(q.Rhs) == 1 && q.Tok == token.ASSIGN && ft.selfSlice(q.Lhs[0], q.Rhs[0])
		}
	}
	return false
}

// noEscape: every occurrence of the append target o is one of x = append(x, ...), x = x[a:b],
// len(x), x[i], range x, range x[a:b].
func (ft *funcTr) noEscape(o types.Object, at ast.Node) {
	ast.Inspect(ft.root, func(n ast.Node) bool {
		id, ok := n.(*ast.Ident)
		if !ok || ft.t.info.Uses[id] != o {
			return true
		}
		switch p := ft.up(id).(type) {
		case *ast.IndexExpr:
			if ast.Unparen(p.X) == ast.Expr(id) {
				return true
			}
		case *ast.CallExpr:
			if b := ft.builtin(p); b == "len" || (b == "append" && ast.Unparen(p.Args[0]) == ast.Expr(id)) {
				return true
			}
		case *ast.AssignStmt:
			for _, l := range p.Lhs {
				if ast.Unparen(l) == ast.Expr(id) {
					return true
				}
			}
		}
		if ft.ownedUse(id) {
			return true
		}
		ft.t.fail(id, "slice %s is appended to and cut back (%s = %s[a:b]) and is used in a way that may create an alias", id.Name, id.Name, id.Name)
		return true
	})
}

// checkData: maps, opaque variables, range loops over variables that change in place.
func (ft *funcTr) checkData(cutBack map[types.Object]bool) {
	t := ft.t
	info := t.info
	// opaque values are locals declared by var x T
	for i := 0; i < ft.sig.Params().Len(); i++ {
		if ft.segOpaqueParamOK(ft.sig.Params().At(i)) {
			continue // segstate.go: a state variable of a segment, or a parameter it does not mention
		}
		if p := ft.sig.Params().At(i); t.kindOf(p.Type()) == kOpaque {
			t.fail(ft.fd, "parameter %s of the opaque type %s", p.Name(), p.Type())
		}
	}
	// maps made here occur only as m[k]
	ast.Inspect(ft.root, func(n ast.Node) bool {
		id, ok := n.(*ast.Ident)
		if !ok {
			return true
		}
		o := info.Uses[id]
		if o == nil || !ft.mapVar[o] {
			return true
		}
		if p, ok := ft.up(id).(*ast.IndexExpr); ok && ast.Unparen(p.X) == ast.Expr(id) {
			return true
		}
		t.fail(id, "map %s made by make is used other than as %s[k]", id.Name, id.Name)
		return true
	})
	for o := range ft.mapVar {
		n := 0
		ast.Inspect(ft.root, func(nd ast.Node) bool {
			switch s := nd.(type) {
			case *ast.AssignStmt:
				for _, l := range s.Lhs {
					if id, ok := ast.Unparen(l).(*ast.Ident); ok && (info.Defs[id] == o || info.Uses[id] == o) {
						n++
					}
				}
			case *ast.ValueSpec:
				for _, id := range s.Names {
					if info.Defs[id] == o {
						n++
					}
				}
			}
			return true
		})
		if n != 1 {
			t.fail(ft.fd, "map %s made by make is assigned more than once", o.Name())
		}
	}
	// a range loop with a value variable over a variable that changes in place
	changes := map[types.Object]bool{}
	for o := range cutBack {
		changes[o] = true
	}
	ast.Inspect(ft.root, func(n ast.Node) bool {
		var lhs []ast.Expr
		switch s := n.(type) {
		case *ast.AssignStmt:
			lhs = s.Lhs
		case *ast.IncDecStmt:
			lhs = []ast.Expr{s.X}
		}
		for _, l := range lhs {
			if ix, ok := ast.Unparen(l).(*ast.IndexExpr); ok {
				if id, ok := ast.Unparen(ix.X).(*ast.Ident); ok && info.Uses[id] != nil {
					changes[info.Uses[id]] = true
				}
			}
		}
		if c, ok := n.(*ast.CallExpr); ok && ft.builtin(c) == "copy" && len(c.Args) == 2 {
			if id, ok := ast.Unparen(c.Args[0]).(*ast.Ident); ok && info.Uses[id] != nil {
				changes[info.Uses[id]] = true
			}
		}
		return true
	})
	ast.Inspect(ft.root, func(n ast.Node) bool {
		rs, ok := n.(*ast.RangeStmt)
		if !ok || rs.Value == nil {
			return true
		}
		if id, ok := rs.Value.(*ast.Ident); ok && id.Name == "_" {
			return true
		}
		x := ast.Unparen(rs.X)
		if se, ok := x.(*ast.SliceExpr); ok {
			x = ast.Unparen(se.X)
		}
		id, ok := x.(*ast.Ident)
		if !ok || info.Uses[id] == nil || !changes[info.Uses[id]] {
			return true
		}
		for _, v := range ft.assigned(token.NoPos, token.NoPos, rs.Body) {
			if types.Object(v) == info.Uses[id] {
				t.fail(rs, "range loop with a value variable over %s, which its body changes", id.Name)
			}
		}
		return true
	})
}

package go2coq

// Segments of handlers: state that outlives a return, calls on the receiver that the table
// denotes, segments inside function literals, the arguments of an effectful call, the n-th
// call of a function.  Reached through hooks marked "segstate.go"; the text generated for
// tables that do not use these constructs is unchanged.  Vocabulary: Lib/GoSemSeg.v (nothing
// new: the constructs are denoted by tuples).
//
//	Segment.State names variables of the function (the receiver, parameters) whose value is
//	state that the caller of the function observes after it returns: a pointer receiver whose
//	fields the segment assigns (x.f = e, x.f = append(x.f, ...) with Struct.Owned as in
//	methods.go), a parameter of an opaque library type that table functions marked Mutates
//	change (an http.ResponseWriter denoted by the response written so far).  Such a variable
//	is a parameter of the segment by value; besides belonging to V when the segment assigns
//	it, its value when a return statement inside the segment is executed is part of R, in
//	front of the function's results (Return (x, w, results)): a return ends the function, and
//	what the caller then observes is exactly that state.  A state variable of an opaque type
//	must, as every opaque variable, be used only through table functions (so no second name
//	for it exists inside the segment).
//
//	A pointer to a table struct (the receiver srv, a request r) may, inside a segment, also be
//	(a) the receiver of a method of the translated package that the Lib table denotes
//	(srv.findHash(m) -> the Coq function applied to the struct value: an oracle carried by the
//	value), (b) an argument of a table library function (http.NotFound(w, r)), (c) the base of
//	a chain of field reads through pointer-valued fields (r.URL.Path; a nil link panics in Go:
//	that the links are not nil is the table's claim).
//
//	LibFunc.Discard: a call statement of a function, method or func-typed field whose effect
//	lies outside the denoted state (a log line): its arguments must be pure; the statement is
//	dropped.
//
//	A call name in a Segment may carry "#n" (n >= 1): the n-th call of that function in source
//	order instead of the first.
//
//	Segment.Up = k widens the block: instead of the innermost statement list that contains the
//	selecting call, the k-th statement list outside it.
//
//	Segment.Args names a call: the segment is the tuple of the argument expressions of the
//	first call of it, as a function of the variables they read, with the value res (T1 * ... * Tn)
//	(the arguments of an effectful call are evaluated before the effect).
//
//	A segment may lie inside a function literal when it contains no return statement (a return
//	there would leave the literal, not the function): the literal's parameters and the variables
//	it captures are ordinary parameters of the segment.

import (
	"go/ast"
	"go/token"
	"go/types"
	"strconv"
	"strings"
)

// splitNth: "key#n" -> key, n (1 when absent).
func splitNth(key string) (string, int) {
	if i := strings.LastIndex(key, "#"); i >= 0 {
		if n, err := strconv.Atoi(key[i+1:]); err == nil && n >= 1 {
			return key[:i], n
		}
	}
	return key, 1
}

// inSegment: ft translates a Segment.
func (ft *funcTr) inSegment() bool { return ft.ext != nil && ft.ext.segment }

// segStateVar: v is a state variable of the segment being translated.
func (ft *funcTr) segStateVar(v *types.Var) bool {
	if !ft.inSegment() || v == nil {
		return false
	}
	for _, s := range ft.stateVars {
		if s == v {
			return true
		}
	}
	return false
}

// segOpaqueParamOK: a parameter of an opaque type is a state variable of the segment, or the
// segment does not mention it.
func (ft *funcTr) segOpaqueParamOK(p *types.Var) bool {
	if !ft.inSegment() {
		return false
	}
	if ft.segStateVar(p) {
		return true
	}
	used := false
	ast.Inspect(ft.root, func(n ast.Node) bool {
		if id, ok := n.(*ast.Ident); ok && ft.t.info.Uses[id] == types.Object(p) {
			used = true
		}
		return !used
	})
	return !used
}

// segState: the segment has state variables (its returns carry them).
func (ft *funcTr) segState() bool { return ft.inSegment() && len(ft.stateVars) > 0 }

// setupSegState resolves Segment.State.
func (ft *funcTr) setupSegState(sg Segment) {
	t := ft.t
	for _, name := range sg.State {
		var found *types.Var
		if rv := t.recvVar(ft.fd); rv != nil && rv.Name() == name {
			found = rv
		}
		for i := 0; i < ft.sig.Params().Len() && found == nil; i++ {
			if p := ft.sig.Params().At(i); p.Name() == name {
				found = p
			}
		}
		if found == nil {
			found = ft.segLocalState(name) // segfail.go: a local pointer to a table struct
		}
		if found == nil {
			t.fail(ft.fd, "segment %s of %s: state variable %s is neither the receiver nor a parameter", sg.Name, sg.Func, name)
		}
		switch t.kindOf(found.Type()) {
		case kPtrStruct:
			if ft.segLocalStateVar(found) { // segfail.go
				break
			}
			if found != t.recvVar(ft.fd) {
				t.fail(ft.fd, "segment %s of %s: state variable %s is a pointer to a struct but not the receiver", sg.Name, sg.Func, name)
			}
			ft.recv = found // appends to its fields need Struct.Owned (methods.go: checkOwnedAppend)
		case kOpaque:
		default:
			t.fail(ft.fd, "segment %s of %s: state variable %s of type %s (only a pointer receiver with a table entry or a parameter of an opaque type)", sg.Name, sg.Func, name, found.Type())
		}
		ft.stateVars = append(ft.stateVars, found)
	}
}

// segPtrUseOK: inside a segment the pointer variable id (to a table struct) is the receiver of
// a table-denoted method or an argument of a table library function.
func (ft *funcTr) segPtrUseOK(id *ast.Ident) bool {
	if !ft.inSegment() {
		return false
	}
	switch p := ft.parents[id].(type) {
	case *ast.SelectorExpr:
		if p.X != ast.Expr(id) {
			return false
		}
		c, ok := ft.parents[p].(*ast.CallExpr)
		if !ok || ast.Unparen(c.Fun) != ast.Expr(p) {
			return false
		}
		key, fn, _ := ft.t.libKey(c)
		if fn == nil {
			return false
		}
		_, ok = ft.t.cfg.Lib[key]
		return ok
	case *ast.CallExpr:
		for _, a := range p.Args {
			if a == ast.Expr(id) {
				key, _, _ := ft.t.libKey(p)
				_, ok := ft.t.cfg.Lib[key]
				return ok
			}
		}
	}
	return false
}

// segPtrChainOK: e is a pointer-valued field read x.f that is only the base of a further
// field read (x.f.g), inside a segment.
func (ft *funcTr) segPtrChainOK(e ast.Expr) bool {
	if !ft.inSegment() {
		return false
	}
	if id, isId := e.(*ast.Ident); isId {
		// the field name of such a read
		if p, ok := ft.parents[id].(*ast.SelectorExpr); ok && p.Sel == id {
			return ft.segPtrChainOK(p)
		}
		return false
	}
	x, ok := e.(*ast.SelectorExpr)
	if !ok {
		return false
	}
	if s := ft.t.info.Selections[x]; s == nil || s.Kind() != types.FieldVal {
		return false
	}
	p, ok := ft.parents[e].(*ast.SelectorExpr)
	if !ok || p.X != e {
		return false
	}
	s := ft.t.info.Selections[p]
	return s != nil && s.Kind() == types.FieldVal
}

// discardStmt: a call statement of a table function marked Discard.
func (ft *funcTr) discardStmt(s *ast.ExprStmt) bool {
	c, ok := s.X.(*ast.CallExpr)
	if !ok {
		return false
	}
	key, _, _ := ft.t.libKey(c)
	if key == "" {
		return false
	}
	lf, ok := ft.t.cfg.Lib[key]
	if !ok || !lf.Discard {
		return false
	}
	for _, a := range c.Args {
		if !ft.pureExpr(a) {
			ft.t.fail(a, "argument of %s, whose call is dropped, that can panic or has an effect", key)
		}
	}
	return true
}

// ---------------------------------------------------------------- selectors "key#n" and "var:name"

// segBody: the body of the function whose segment is being selected (selectors are resolved
// against it, whatever subtree is searched).
var segBody ast.Node

// selTarget: the node an extended selector names: the n-th call of key in the function body
// ("key#n"), or the statement that declares the local variable name ("var:name"); ok = false
// for a plain selector.
func (t *translator) selTarget(sel string) (ast.Node, bool) {
	if segBody == nil {
		return nil, false
	}
	if name, isVar := strings.CutPrefix(sel, "var:"); isVar {
		var found ast.Node
		ast.Inspect(segBody, func(n ast.Node) bool {
			if found != nil {
				return false
			}
			switch s := n.(type) {
			case *ast.AssignStmt:
				for _, l := range s.Lhs {
					if id, ok := l.(*ast.Ident); ok && id.Name == name && t.info.Defs[id] != nil {
						found = s
					}
				}
			case *ast.DeclStmt:
				if gd, ok := s.Decl.(*ast.GenDecl); ok {
					for _, sp := range gd.Specs {
						if vs, ok := sp.(*ast.ValueSpec); ok {
							for _, id := range vs.Names {
								if id.Name == name {
									found = s
								}
							}
						}
					}
				}
			}
			return true
		})
		return found, true
	}
	key, n := splitNth(sel)
	if key == sel {
		return nil, false
	}
	var found ast.Node
	ast.Inspect(segBody, func(x ast.Node) bool {
		if c, ok := x.(*ast.CallExpr); ok && found == nil {
			if k, _, _ := t.libKey(c); k == key {
				n--
				if n == 0 {
					found = c
				}
			}
		}
		return true
	})
	return found, true
}

// pathToSel: the ancestors, inside root, of the node an extended selector names (nil if root
// does not contain it); ok = false for a plain selector.
func (t *translator) pathToSel(root ast.Node, sel string) ([]ast.Node, bool) {
	target, ext := t.selTarget(sel)
	if !ext {
		return nil, false
	}
	if target == nil {
		return nil, true
	}
	var stack, found []ast.Node
	ast.Inspect(root, func(n ast.Node) bool {
		if n == nil {
			stack = stack[:len(stack)-1]
			return true
		}
		stack = append(stack, n)
		if found == nil && n == target {
			found = append([]ast.Node{}, stack...)
		}
		return true
	})
	return found, true
}

// ---------------------------------------------------------------- oracle calls

// pruneOracles: the arguments of the calls of table functions marked Oracle are not part of
// the translated text (the value of the call is a parameter of the segment): they are taken
// out of the tree while the segment is translated.  The result puts them back.
func (t *translator) pruneOracles(root ast.Node) func() {
	type saved struct {
		c    *ast.CallExpr
		args []ast.Expr
	}
	var all []saved
	ast.Inspect(root, func(n ast.Node) bool {
		if c, ok := n.(*ast.CallExpr); ok {
			if key, _, _ := t.libKey(c); key != "" && t.cfg.Lib[key].Oracle {
				all = append(all, saved{c, c.Args})
				c.Args = nil
				return false
			}
		}
		return true
	})
	for _, s := range all {
		if len(s.args) > 0 {
			segPruned = append(segPruned, [2]token.Pos{s.args[0].Pos(), s.args[len(s.args)-1].End()})
		}
	}
	return func() {
		for _, s := range all {
			s.c.Args = s.args
		}
		segPruned = nil
	}
}

// segPruned: the source ranges of the arguments taken out by pruneOracles.
var segPruned [][2]token.Pos

func inPruned(p token.Pos) bool {
	for _, r := range segPruned {
		if p >= r[0] && p < r[1] {
			return true
		}
	}
	return false
}

// oracleCall: e is a call of a table function marked Oracle, or such a call under a type
// assertion x.(T); its value is one more parameter of the segment, of the type of e.
func (ft *funcTr) oracleCall(e ast.Expr) ([]pre, string, bool) {
	t := ft.t
	c, ok := ast.Unparen(e).(*ast.CallExpr)
	if ta, isTA := ast.Unparen(e).(*ast.TypeAssertExpr); isTA && ta.Type != nil {
		c, ok = ast.Unparen(ta.X).(*ast.CallExpr)
	}
	if !ok {
		return nil, "", false
	}
	key, _, _ := t.libKey(c)
	if key == "" || !t.cfg.Lib[key].Oracle {
		return nil, "", false
	}
	if !ft.inSegment() {
		t.fail(c, "call of the oracle function %s outside a Segment", key)
	}
	if ft.inLoopWithin(c) {
		t.fail(c, "call of the oracle function %s inside a loop", key)
	}
	if name, ok := ft.ext.seen[c]; ok {
		return nil, name, true
	}
	T := t.info.Types[e].Type
	if tu, isTuple := T.(*types.Tuple); isTuple || T == nil {
		_ = tu
		t.fail(c, "oracle function %s with several results", key)
	}
	name := "in_" + strconv.Itoa(len(ft.ext.inputs)+1)
	ft.ext.inputs = append(ft.ext.inputs, "("+name+" : "+t.coqType(c, T)+")")
	ft.ext.seen[c] = name
	return nil, name, true
}

// ---------------------------------------------------------------- pointers that may be nil

func (t *translator) isNullable(T types.Type) bool {
	if T == nil || len(t.cfg.Nullable) == 0 {
		return false
	}
	if _, ok := types.Unalias(T).Underlying().(*types.Pointer); !ok {
		return false
	}
	return inSet(t.cfg.Nullable, types.TypeString(types.Unalias(T), nil))
}

// coqTypeSeg: a nullable pointer type is option of the struct's type.
func (t *translator) coqTypeSeg(n ast.Node, T types.Type) (string, bool) {
	if !t.isNullable(T) {
		return "", false
	}
	s, _, ok := t.structOf(types.Unalias(T).Underlying().(*types.Pointer).Elem())
	if !ok {
		t.fail(n, "nullable pointer type %s: its element type has no entry in the table of struct types", T)
	}
	return "(option " + s.CoqType + ")", true
}

// nullableUseOK (hook in checkAliasing, rule 3): a value of a nullable pointer type is an
// immutable value (None, or Some of the struct): it may be compared with nil, read through,
// passed on and returned, but nothing may be stored through it, and it is made by nothing but
// nil (new, & are refused).
func (ft *funcTr) nullableUseOK(e ast.Expr, T types.Type) bool {
	if !ft.t.isNullable(T) {
		return false
	}
	switch x := e.(type) {
	case *ast.Ident:
		// a store through it?
		var child ast.Node = x
		for p := ft.parents[x]; p != nil; child, p = p, ft.parents[p] {
			switch p := p.(type) {
			case *ast.SelectorExpr, *ast.IndexExpr, *ast.ParenExpr:
				continue
			case *ast.AssignStmt:
				for _, l := range p.Lhs {
					if l == child && child != ast.Node(x) {
						ft.t.fail(p, "store through the pointer %s, which may be nil and is passed as a value", x.Name)
					}
				}
			case *ast.IncDecStmt:
				if child != ast.Node(x) {
					ft.t.fail(p, "store through the pointer %s, which may be nil and is passed as a value", x.Name)
				}
			}
			break
		}
		return true
	case *ast.ParenExpr:
		return true
	case *ast.CallExpr:
		if ft.builtin(x) == "new" {
			ft.t.fail(x, "new(T) of the pointer type %s, whose values may be nil and are passed as values", T)
		}
		if key, _, _ := ft.t.libKey(x); key != "" {
			if _, ok := ft.t.cfg.Lib[key]; ok {
				return true
			}
		}
	case *ast.TypeAssertExpr:
		return true
	}
	return false
}

// exprSeg translates the expressions of this file; ok = false hands e on.
func (ft *funcTr) exprSeg(e ast.Expr, want types.Type) ([]pre, string, bool) {
	t := ft.t
	if p, v, ok := ft.oracleCall(e); ok {
		return p, v, true
	}
	switch x := e.(type) {
	case *ast.Ident:
		if ft.isNilExpr(x) && want != nil && t.isNullable(want) {
			return nil, "None", true
		}
	case *ast.BinaryExpr:
		if x.Op != token.EQL && x.Op != token.NEQ {
			return nil, "", false
		}
		other := x.X
		switch {
		case ft.isNilExpr(x.X):
			other = x.Y
		case ft.isNilExpr(x.Y):
		default:
			return nil, "", false
		}
		if tv, ok := t.info.Types[other]; !ok || !t.isNullable(tv.Type) {
			return nil, "", false
		}
		p, v := ft.expr(other, nil)
		if x.Op == token.EQL {
			return p, "(go_is_nil " + v + ")", true
		}
		return p, "(negb (go_is_nil " + v + "))", true
	case *ast.SelectorExpr:
		sel := t.info.Selections[x]
		if sel == nil || sel.Kind() != types.FieldVal || len(sel.Index()) != 1 || !t.isNullable(sel.Recv()) {
			return nil, "", false
		}
		T := types.Unalias(sel.Recv()).Underlying().(*types.Pointer).Elem()
		st, _, ok := t.structOf(T)
		if !ok {
			return nil, "", false
		}
		p, base := ft.expr(x.X, nil)
		tmp := ft.temp()
		return append(p, pre{tmp, "go_deref " + base}), "(" + ft.fieldGetter(x, st, T) + " " + tmp + ")", true
	case *ast.CallExpr:
		// err.Error(): the text of an error is not observable (errors are bools); the table gives
		// what stands for it
		if s, ok := ast.Unparen(x.Fun).(*ast.SelectorExpr); ok && s.Sel.Name == "Error" && len(x.Args) == 0 {
			if tv, ok := t.info.Types[s.X]; ok && t.kindOf(tv.Type) == kError {
				lf, ok := t.cfg.Lib["error.Error"]
				if !ok {
					t.fail(x, "call of error.Error, which has no denotation in the table")
				}
				p, v := ft.expr(s.X, nil)
				return p, "(" + lf.Coq + " " + v + ")", true
			}
		}
	}
	return nil, "", false
}

// zeroSeg: the zero value of a nullable pointer type.
func (t *translator) zeroSeg(T types.Type) (string, bool) {
	if t.isNullable(T) {
		return "None", true
	}
	return "", false
}

// ---------------------------------------------------------------- the arguments of a call

// segmentArgs: Segment.Args.
func (t *translator) segmentArgs(sg Segment, ft *funcTr, key string, params func(nodes ...ast.Node) []string, fuelOf func(nodes ...ast.Node), checkErrs func(lo, hi token.Pos)) (string, string) {
	path := t.pathTo(ft.fd.Body, sg.Args)
	if path == nil {
		t.fail(ft.fd, "segment %s: no call of %s in %s", sg.Name, sg.Args, sg.Func)
	}
	c := path[len(path)-1].(*ast.CallExpr)
	if len(c.Args) == 0 || c.Ellipsis.IsValid() {
		t.fail(c, "segment %s: the call of %s has no arguments (or a ... argument)", sg.Name, sg.Args)
	}
	sig, _ := t.info.Types[c.Fun].Type.(*types.Signature)
	var nodes []ast.Node
	for _, a := range c.Args {
		defer t.pruneOracles(a)()
		checkErrs(a.Pos(), a.End())
		nodes = append(nodes, a)
	}
	ft.root = &ast.BlockStmt{}
	for _, a := range c.Args {
		ft.root.(*ast.BlockStmt).List = append(ft.root.(*ast.BlockStmt).List, &ast.ExprStmt{X: a})
	}
	fuelOf(nodes...)
	ft.checkAliasing()
	var pres []pre
	var vals, tys []string
	for i, a := range c.Args {
		var pt types.Type
		if sig != nil && i < sig.Params().Len() && !(sig.Variadic() && i >= sig.Params().Len()-1) {
			pt = sig.Params().At(i).Type()
		}
		p, v := ft.expr(a, pt)
		pres = append(pres, p...)
		vals = append(vals, v)
		T := t.info.Types[a].Type
		if b, ok := T.(*types.Basic); ok && b.Info()&types.IsUntyped != 0 {
			if pt != nil {
				T = pt
			} else {
				T = types.Default(T)
			}
		}
		tys = append(tys, t.coqType(a, T))
	}
	ps := append(params(nodes...), ft.ext.inputs...)
	ty, val := tys[0], vals[0]
	if len(vals) > 1 {
		ty, val = "("+strings.Join(tys, " * ")+")%type", "("+strings.Join(vals, ", ")+")"
	}
	var out strings.Builder
	out.WriteString("(* func " + sg.Func + ": the arguments of the first call of " + strings.ReplaceAll(sg.Args, "(*", "( *") + " *)\nDefinition " + t.cfg.Prefix + key + " " + strings.Join(ps, " ") + "\n  : res " + ty + " :=\n" + binds(pres, "  ") + "  Ok " + val + ".\n\n")
	return out.String(), t.cfg.Prefix + key
}

// noReturnIn: a segment inside a function literal contains no return statement of its own.
func (t *translator) noReturnIn(sg Segment, seg []ast.Stmt) {
	for _, st := range seg {
		ast.Inspect(st, func(n ast.Node) bool {
			switch n := n.(type) {
			case *ast.FuncLit:
				return false
			case *ast.ReturnStmt:
				t.fail(n, "segment %s of %s lies inside a function literal and contains a return statement", sg.Name, sg.Func)
			}
			return true
		})
	}
}

package go2coq

import (
	"fmt"
	"go/ast"
	"go/token"
	"go/types"
	"sort"
	"strings"
)

// methodDecl finds "f" or "T.f".
func (t *translator) methodDecl(name string) *ast.FuncDecl {
	recv := ""
	if i := strings.Index(name, "."); i >= 0 {
		recv, name = name[:i], name[i+1:]
	}
	if recv == "" {
		return t.decls[name]
	}
	for _, f := range t.files {
		for _, d := range f.Decls {
			fd, ok := d.(*ast.FuncDecl)
			if !ok || fd.Name.Name != name || fd.Recv == nil || len(fd.Recv.List) != 1 {
				continue
			}
			T := fd.Recv.List[0].Type
			if s, ok := T.(*ast.StarExpr); ok {
				T = s.X
			}
			if id, ok := T.(*ast.Ident); ok && id.Name == recv {
				return fd
			}
		}
	}
	return nil
}

// callsOf: does n contain a call of key; pathTo: the ancestors of the first such call.
func (t *translator) pathTo(root ast.Node, key string) []ast.Node {
	if p, ext := t.pathToSel(root, key); ext { // segstate.go: "key#n", "var:name"
		return p
	}
	var stack, found []ast.Node
	ast.Inspect(root, func(n ast.Node) bool {
		if n == nil {
			stack = stack[:len(stack)-1]
			return true
		}
		stack = append(stack, n)
		if found != nil {
			return true
		}
		if c, ok := n.(*ast.CallExpr); ok {
			if k, _, _ := t.libKey(c); k == key {
				found = append([]ast.Node{}, stack...)
			}
		}
		return true
	})
	return found
}

func stmtList(n ast.Node) ([]ast.Stmt, bool) {
	switch b := n.(type) {
	case *ast.BlockStmt:
		return b.List, true
	case *ast.CaseClause:
		return b.Body, true
	case *ast.CommClause:
		return b.Body, true
	}
	return nil, false
}

func (t *translator) segment(sg Segment) (string, string) {
	fd := t.methodDecl(sg.Func)
	if fd == nil || fd.Body == nil {
		t.fail(nil, "segment: function %s not found (or has no body)", sg.Func)
	}
	if sg.Name == "" {
		t.fail(fd, "segment of %s without a name", sg.Func)
	}
	if sg.After != "" && sg.From != "" || sg.Before != "" && sg.Through != "" {
		t.fail(fd, "segment %s of %s: After and From (Before and Through) exclude each other", sg.Name, sg.Func)
	}
	key := strings.ReplaceAll(sg.Func, ".", "_") + "_" + sanitize(sg.Name)
	fn := t.info.Defs[fd.Name].(*types.Func)
	ft := &funcTr{t: t, fd: fd, name: key, sig: fn.Type().(*types.Signature), names: map[types.Object]string{}, used: map[string]bool{},
		makeVar: map[types.Object]bool{}, parents: map[ast.Node]ast.Node{}, ext: &funcExt{segment: true, seen: map[*ast.CallExpr]string{}}}
	var defs []*ast.Ident
	for id, obj := range t.info.Defs {
		if v, ok := obj.(*types.Var); ok && !v.IsField() && id.Pos() >= fd.Pos() && id.Pos() < fd.End() {
			defs = append(defs, id)
		}
	}
	sort.Slice(defs, func(i, j int) bool { return defs[i].Pos() < defs[j].Pos() })
	for _, id := range defs {
		if id.Name != "_" {
			ft.declare(t.info.Defs[id])
		}
	}
	ft.setupSegState(sg) // segstate.go
	segBody = fd.Body
	defer func() { segBody = nil }()
	var pstack []ast.Node
	ast.Inspect(fd, func(n ast.Node) bool {
		if n == nil {
			pstack = pstack[:len(pstack)-1]
			return true
		}
		if len(pstack) > 0 {
			ft.parents[n] = pstack[len(pstack)-1]
		}
		pstack = append(pstack, n)
		return true
	})
	checkErrs := func(lo, hi token.Pos) {
		for _, te := range t.terrs {
			if te.Pos >= lo && te.Pos < hi && !inPruned(te.Pos) {
				t.fail(nil, "%s: in segment %s of %s: not in the supported subset (type checker: %s)", t.fset.Position(te.Pos), sg.Name, sg.Func, te.Msg)
			}
		}
	}
	params := func(lo, hi token.Pos, nodes ...ast.Node) []string {
		var ps []string
		if t.needFuel[key] {
			ps = append(ps, "(fuel : nat)")
		}
		for _, v := range ft.free(lo, hi, nodes...) {
			if ft.closureOf(v) != nil {
				continue // a local function constant: inlined at its calls
			}
			if _, isPtr := types.Unalias(v.Type()).Underlying().(*types.Pointer); isPtr && !ft.segStateVar(v) && !t.isNullable(v.Type()) { // segstate.go: a state variable is passed by value
				if ft.readOnlyPointer(v, nodes...) == 0 {
					continue // only the base of input calls (c.now()): not read
				}
			}
			ps = append(ps, fmt.Sprintf("(%s : %s)", ft.names[v], t.coqType(fd, v.Type())))
		}
		return ps
	}
	fuelOf := func(nodes ...ast.Node) {
		for _, n := range nodes {
			ast.Inspect(n, func(n ast.Node) bool {
				switch n := n.(type) {
				case *ast.ForStmt:
					t.needFuel[key] = true
				case *ast.CallExpr:
					if c := t.callee(n); c != "" {
						if !inSet(t.cfg.Funcs, c) {
							t.fail(n, "call of %s, which is not among the translated functions", c)
						}
						if t.needFuel[c] {
							t.needFuel[key] = true
						}
					}
				}
				return true
			})
		}
	}

	if sg.Args != "" { // segstate.go
		if sg.Cond != "" || sg.In != "" || sg.After != "" || sg.From != "" || sg.Before != "" || sg.Through != "" {
			t.fail(fd, "segment %s of %s: Args excludes the other selectors", sg.Name, sg.Func)
		}
		return t.segmentArgs(sg, ft, key, func(nodes ...ast.Node) []string { return params(token.NoPos, token.NoPos, nodes...) }, fuelOf, checkErrs)
	}
	if sg.Cond != "" {
		if sg.In != "" || sg.After != "" || sg.From != "" || sg.Before != "" || sg.Through != "" {
			t.fail(fd, "segment %s of %s: Cond excludes the other selectors", sg.Name, sg.Func)
		}
		path := t.pathTo(fd.Body, sg.Cond)
		if path == nil {
			t.fail(fd, "segment %s: no call of %s in %s", sg.Name, sg.Cond, sg.Func)
		}
		var ifs *ast.IfStmt
		for i := len(path) - 2; i >= 0 && ifs == nil; i-- {
			if s, ok := path[i].(*ast.IfStmt); ok && (path[i+1] == ast.Node(s.Body) || s.Else != nil && path[i+1] == ast.Node(s.Else)) {
				ifs = s
			}
		}
		if ifs == nil {
			t.fail(fd, "segment %s: the call of %s in %s is not in a branch of an if statement", sg.Name, sg.Cond, sg.Func)
		}
		defer t.pruneOracles(ifs.Cond)() // segstate.go
		checkErrs(ifs.Cond.Pos(), ifs.Cond.End())
		ft.root = &ast.ExprStmt{X: ifs.Cond}
		fuelOf(ifs.Cond)
		ft.checkAliasing()
		pres, c := ft.expr(ifs.Cond, nil)
		ps := append(params(token.NoPos, token.NoPos, ifs.Cond), ft.ext.inputs...)
		var out strings.Builder
		fmt.Fprintf(&out, "(* func %s: the condition of the if statement with the first call of %s in a branch *)\nDefinition %s%s %s\n  : res bool :=\n%s  Ok %s.\n\n",
			sg.Func, strings.ReplaceAll(sg.Cond, "(*", "( *"), t.cfg.Prefix, key, strings.Join(ps, " "), binds(pres, "  "), c)
		return out.String(), t.cfg.Prefix + key
	}

	// the block
	blockOf := ""
	for _, k := range []string{sg.In, sg.After, sg.From, sg.Before, sg.Through} {
		if k != "" {
			blockOf = k
			break
		}
	}
	list := fd.Body.List
	inLoop, inLit := false, false
	if blockOf != "" {
		path := t.pathTo(fd.Body, blockOf)
		if path == nil {
			t.fail(fd, "segment %s: no call of %s in %s", sg.Name, blockOf, sg.Func)
		}
		found := false
		up := sg.Up // segstate.go
	scan:
		for i := len(path) - 1; i >= 0; i-- {
			if !found {
				if l, ok := stmtList(path[i]); ok && i+1 < len(path) {
					if _, isStmt := path[i+1].(ast.Stmt); isStmt {
						if up > 0 {
							up--
							continue
						}
						list, found = l, true
					}
				}
				continue
			}
			switch path[i].(type) {
			case *ast.ForStmt, *ast.RangeStmt:
				inLoop = true
			case *ast.FuncLit:
				inLit = true // segstate.go: allowed when the segment contains no return statement
				break scan
			}
		}
		if !found {
			t.fail(fd, "segment %s: the call of %s in %s is not inside a statement list", sg.Name, blockOf, sg.Func)
		}
	}
	has := func(st ast.Stmt, k string) bool { return t.pathTo(st, k) != nil }
	start := 0
	if k := sg.After + sg.From; k != "" {
		start = -1
		for i, st := range list {
			if has(st, k) {
				start = i
				break
			}
		}
		if start < 0 {
			t.fail(fd, "segment %s: no statement of the block calls %s", sg.Name, k)
		}
		if sg.After != "" {
			start++
		}
	}
	end := len(list)
	if k := sg.Before + sg.Through; k != "" {
		end = -1
		for i := start; i < len(list); i++ {
			if has(list[i], k) {
				end = i
				break
			}
		}
		if end < 0 {
			t.fail(fd, "segment %s: no statement of the block at or after its start calls %s", sg.Name, k)
		}
		if sg.Through != "" {
			end++
		}
	}
	seg, rest := list[start:end], list[end:]
	if len(seg) == 0 {
		t.fail(fd, "segment %s of %s is empty", sg.Name, sg.Func)
	}
	if inLit {
		t.noReturnIn(sg, seg) // segstate.go
	}
	lo, hi := seg[0].Pos(), seg[len(seg)-1].End()
	for _, st := range seg {
		defer t.pruneOracles(st)() // segstate.go
	}
	for _, st := range seg {
		defer ft.pruneDropped(st)() // partiallit.go
	}
	checkErrs(lo, hi)
	ft.root = &ast.BlockStmt{List: seg}
	var segN, restN []ast.Node
	for _, st := range seg {
		segN = append(segN, st)
	}
	for _, st := range rest {
		restN = append(restN, st)
	}
	fuelOf(segN...)
	ft.checkAliasing()
	// V: what the statements assign (declared before them) or declare for what follows
	set := map[*types.Var]bool{}
	outer := ft.assigned(lo, hi, segN...) // break and continue leave the block: they carry these only
	for _, v := range outer {
		set[v] = true
	}
	later := map[*types.Var]bool{}
	for _, v := range ft.free(token.NoPos, token.NoPos, restN...) {
		later[v] = true
	}
	for _, id := range defs {
		v := t.info.Defs[id].(*types.Var)
		if id.Pos() >= lo && id.Pos() < hi && later[v] && id.Name != "_" && ft.closureOf(v) == nil {
			// declared at the level of the block (not inside a nested statement)?  A variable
			// of a nested scope is not visible afterwards: later[] cannot contain it
			set[v] = true
		}
	}
	vars := sortVars(set)
	m := mode{kind: mOut, vars: vars}
	L := "unit"
	if inLoop {
		m.inLoop, m.loop = true, outer
		L = ft.tupleType(outer)
	}
	ft.fails = ft.segFails(segN) // segfail.go
	body := ft.block(seg, m, "  ")
	ps := append(params(lo, hi, segN...), ft.ext.inputs...)
	var out strings.Builder
	for _, l := range ft.loops {
		out.WriteString(l)
	}
	fmt.Fprintf(&out, "(* func %s: segment %s, %d statement(s) *)\nDefinition %s%s %s\n  : res (outcome %s %s %s) :=\n%s.\n\n",
		sg.Func, sg.Name, len(seg), t.cfg.Prefix, key, strings.Join(ps, " "), ft.tupleType(vars), L, ft.resultType(), strings.TrimRight(body, "\n"))
	return out.String(), t.cfg.Prefix + key
}

// readOnlyPointer: every use of the pointer variable v in the nodes is the base of a field
// selection (v.f read, or v.f() for a func-typed field).
func (ft *funcTr) readOnlyPointer(v *types.Var, nodes ...ast.Node) (reads int) {
	for _, n := range nodes {
		ast.Inspect(n, func(n ast.Node) bool {
			id, ok := n.(*ast.Ident)
			if !ok || ft.t.info.Uses[id] != types.Object(v) {
				return true
			}
			if ft.segPtrUseOK(id) {
				reads++ // segstate.go
				return true
			}
			if ft.segNoReturnRecv(id) {
				return true // segfail.go: the receiver of a no-return call is not read
			}
			if sel, ok := ft.parents[id].(*ast.SelectorExpr); ok && sel.X == ast.Expr(id) {
				if s := ft.t.info.Selections[sel]; s != nil && s.Kind() == types.FieldVal {
					// not the target of an assignment
					if as, ok := ft.parents[sel].(*ast.AssignStmt); ok {
						for _, l := range as.Lhs {
							if l == ast.Expr(sel) {
								ft.t.fail(sel, "assignment through the pointer variable %s", v.Name())
							}
						}
					}
					if _, ok := ft.parents[sel].(*ast.IncDecStmt); ok {
						ft.t.fail(sel, "assignment through the pointer variable %s", v.Name())
					}
					if c, ok := ft.parents[sel].(*ast.CallExpr); ok && ast.Unparen(c.Fun) == ast.Expr(sel) {
						if k, _, _ := ft.t.libKey(c); ft.t.cfg.Lib[k].Input {
							return true
						}
					}
					reads++
					return true
				}
			}
			ft.t.fail(id, "pointer variable %s is used other than for reading a field", v.Name())
			return true
		})
	}
	return reads
}

package go2coq

// World mode: translation of EFFECTFUL code -- functions that are a sequence of library /
// operating-system calls with control flow in between -- into state-passing Gallina over an
// abstract world (entry point TranslateWorld; vocabulary coq/theories/Lib/GoSemWorld.v on top
// of Lib/GoSem.v; the conventions of the denotation are stated at the top of GoSemWorld.v).
// Like the rest of this package it is generic: the table (WorldConfig) names the library calls
// and types with their Coq denotations, nothing here knows the functions it is applied to, and
// anything outside the subset is an *Unsupported error naming construct and position.
//
// What the table gives
//
//	WorldConfig.Lib: "importpath.Name", "(*importpath.T).Name", "(importpath.I).Name" -> WLib:
//	  WPure     the Coq function applied to the (receiver and) arguments is the value
//	  WMonadic  ... is a computation res V (it can panic)
//	  WWorld    ... takes the world first and returns (world', results...): an effect
//	  WWorldRO  ... takes the world first and returns the results: a query that changes nothing
//	  WUpdate   a method that changes its receiver, an addressable variable or field of a type
//	            of WorldConfig.Types: the Coq function takes the receiver's value and returns
//	            res of the value afterwards (no Go results)
//	  WDrop     a call statement that has no effect on the denoted state (runtime.SetFinalizer):
//	            dropped, with a comment in the generated text; its arguments are not looked at
//	WorldConfig.Types: types.TypeString of a library (or interface) type -> Coq type and the
//	  term of its zero / nil value ("" = has none here).  Values of such types are only
//	  passed on and used as receivers / arguments of table functions.  Assigning a value to a
//	  variable of another table type (a concrete type to an interface) is the identity: that
//	  the Coq types agree is checked by Coq when the generated file is compiled.
//	WorldConfig.ExtVars: "importpath.Name" -> Coq term, for package-level variables and
//	  non-numeric uses of constants of other packages (error sentinels, errnos).
//	WorldConfig.ErrStructs: "importpath.T" -> field names: &T{...} is the error
//	  WMade "importpath.T" [string fields in this order] (the error-typed field, WNil if none).
//	WorldConfig.IntConv: "from->to" (types.TypeString of basic types): non-constant integer
//	  conversions the table vouches for (the value is in range of the target type) beyond
//	  those that can never change the value.
//
// What is translated (per package, in the order given; a later package may import an earlier one
// and call its translated functions)
//
//	Types: integers of every type -> Z; bool; string, []byte -> bytes; error -> werr; struct
//	types of the translated packages -> a Record generated from the declaration (fields in
//	order, embedded fields under the name of their type); pointers to them -> option of the
//	record (the pointer receiver of the method being translated: the record itself); table
//	types; function-typed parameters -> Coq functions (pure, total).
//	Statements: := = (also several targets from one call, fields through pointers and embedded
//	structs), var, call statements, if / else with init, expression switch with constant or
//	pure cases (no fallthrough), for with optional condition (init / post: simple statements)
//	with break / continue -> Fixpoint on fuel, return, panic(constant) -> Panic, and defer at
//	the top level of the function body of  x.m(...) / f(...)  or of  func() { ... }()  whose
//	body has no return statement (see GoSemWorld.v).  Variables the deferred call mentions must
//	not be assigned after the defer statement (named results, the world and the receiver
//	excepted: their values at return are what the deferred call sees).
//	Expressions: constants, locals, field reads (through pointers: go_deref), == != < <= > >=,
//	&& || ! (a call with an effect in the right operand of && / || is refused), & | &^, + - *
//	on int, len, s[a:b], s[i], new(T), &T{...}, calls of translated functions and methods
//	(promoted methods: the path through embedded fields is made explicit), of table functions,
//	and of function-typed parameters.  Calls are bound in Go's evaluation order (left to right,
//	arguments before the call); a statement in which a call changes a variable by state passing
//	(a pointer receiver) may not mention that variable elsewhere.
//	A pointer to a translated struct handed to a library function where an interface is
//	expected stands for the embedded library value that promotes the interface's methods
//	(io.ReadAll(f) with f a pointer to struct{ osFile{ *os.File } } acts on that *os.File): all
//	methods of the interface must be promoted through one and the same chain of embedded
//	fields from a type outside the translated packages.
//	A function literal that is RETURNED (at most one per function, no parameters or results)
//	becomes a definition of its own, <f>_lit: a function of the world, of the receiver of the
//	enclosing method if it mentions it (borrowed: its value is handed in and back) and of the
//	local variables it captures (owned: the function's result in the place of the func value
//	is  Some (captured values)  -- None for a nil func -- and <f>_lit returns their values
//	afterwards).  Captured locals must not be used by the function after the literal.
//
// Soundness conditions checked per function: pointers to translated structs are not copied
// (a pointer-typed variable or field occurs only as the operand of a selector, a method
// receiver, an argument of a table function, in a comparison with nil, in a return statement,
// or as the target of its single defining assignment from new / & / a call); no goroutines,
// channels, select, goto, labels, closures other than the two forms above, recover.
//
// Data carried through effectful code -- library struct types with a table record, slices of
// structs, range over them, read-only pointer parameters, variadic library functions, append,
// *p of a package-level pointer variable, a function literal handed to a library function as a
// definition of its own -- is added by world_data.go; its conditions are stated at the top of
// that file.
//
// Values moved between the calls -- [N]byte arrays, x[i] as an integer, make([]byte, n), library
// functions that write through an argument (WLib.Out), calls of function-valued fields, read-only
// package-level variables (WorldConfig.PkgVars), f := func(...) ... { return e }, a ...any
// arguments by kind (WLib.AnyArgs), instance keys, panic(e) -- are added by world_values.go; its
// conditions are stated at the top of that file.

import (
	"fmt"
	"go/ast"
	"go/token"
	"go/types"
	"sort"
	"strings"
)

// WKind: how a library function acts (see the header).
type WKind int

const (
	WPure WKind = iota
	WMonadic
	WWorld
	WWorldRO
	WUpdate
	WDrop
)

// WLib is the denotation of a library function or method in world mode.
type WLib struct {
	Coq  string
	Kind WKind
	// Fresh: a slice result shares no backing array with anything else (world_data.go: append)
	Fresh bool
	// world_values.go: Out: the arguments (1-based; 0: the receiver) the function changes; AnyArgs: the
	// arguments of the variadic parameter are wrapped by their static kind
	Out     []int
	AnyArgs bool
}

// WType is the denotation of a library type in world mode.
type WType struct {
	Coq  string // Coq type
	Zero string // term of the zero / nil value, "" if there is none
}

// WorldPkg is one package to translate.
type WorldPkg struct {
	Path   string      // import path
	Prefix string      // prefix of every generated name of this package
	Files  []*ast.File // parsed files
	Funcs  []string    // functions "f" and methods "T.m" to translate
	Lits   []WorldLit  // function literals handed to library functions, translated as definitions of their own (world_data.go)
}

// WorldConfig is the table of the world mode.
type WorldConfig struct {
	Stubs      map[string]string   // import path -> Go source declaring the supported API of that package
	Lib        map[string]WLib     // library functions and methods
	Types      map[string]WType    // library types
	ExtVars    map[string]string   // package-level variables / constants of other packages
	ErrStructs map[string][]string // library error struct types: field names
	IntConv    []string            // integer conversions vouched for: "uintptr->int"
	WorldType  string              // Coq type of the world
	WorldVar   string              // Coq name of the world variable (default "w")
	// world_data.go: Structs: library struct types "importpath.Name" with the record the table gives;
	// DerefVars: "importpath.name" of package-level pointer variables -> the Coq term of *name
	Structs   map[string]Struct
	DerefVars map[string]string
	// world_values.go: PkgVars: "importpath.name" of package-level variables of translated packages that are only read
	PkgVars map[string]string
}

type wpkg struct {
	WorldPkg
	pkg   *types.Package
	info  *types.Info
	terrs []types.Error
}

type wfunc struct {
	p        *wpkg
	fd       *ast.FuncDecl
	obj      *types.Func
	key      string // "f" or "T.m"
	coq      string
	worldly  bool
	needFuel bool
	recvPtr  bool // pointer receiver to a struct of a translated package
	state    int  // call-order visit state
	// the returned function literal, if any (set while translating)
	lit *wlit
}

// wlit: a function literal that a translated function returns.
type wlit struct {
	lit      *ast.FuncLit
	coq      string
	owned    []*types.Var // captured locals, in declaration order
	usesRecv bool
	needFuel bool
}

type wstruct struct {
	named  *types.Named
	st     *types.Struct
	coq    string
	ctor   string
	getter []string
}

type wtr struct {
	cfg     *WorldConfig
	fset    *token.FileSet
	pkgs    []*wpkg
	byPath  map[string]*wpkg
	funcs   map[*types.Func]*wfunc
	order   []*wfunc
	structs map[*types.Named]*wstruct
	decls   strings.Builder // Records, in dependency order
	wname   string
	cur     *wpkg // world_values.go: the package of the call being resolved (instance keys)
}

func (t *wtr) fail(n ast.Node, format string, a ...any) {
	var pos token.Position
	if n != nil {
		pos = t.fset.Position(n.Pos())
	}
	panic(&Unsupported{Pos: pos, Msg: fmt.Sprintf(format, a...)})
}

// TranslateWorld translates the functions named in pkgs, in order.
func TranslateWorld(fset *token.FileSet, pkgs []WorldPkg, cfg *WorldConfig) (res *Result, err error) {
	t := &wtr{cfg: cfg, fset: fset, byPath: map[string]*wpkg{}, funcs: map[*types.Func]*wfunc{},
		structs: map[*types.Named]*wstruct{}, wname: cfg.WorldVar}
	if t.wname == "" {
		t.wname = "w"
	}
	defer func() {
		if r := recover(); r != nil {
			if u, ok := r.(*Unsupported); ok {
				res, err = nil, u
				return
			}
			panic(r)
		}
	}()
	imp := &stubImporter{fset: fset, cfg: &Config{Stubs: cfg.Stubs}, cache: map[string]*types.Package{}}
	for i := range pkgs {
		p := &wpkg{WorldPkg: pkgs[i]}
		p.info = &types.Info{Types: map[ast.Expr]types.TypeAndValue{}, Defs: map[*ast.Ident]types.Object{},
			Uses: map[*ast.Ident]types.Object{}, Selections: map[*ast.SelectorExpr]*types.Selection{},
			Implicits: map[ast.Node]types.Object{}}
		conf := types.Config{Importer: imp, Error: func(e error) {
			if te, ok := e.(types.Error); ok {
				p.terrs = append(p.terrs, te)
			}
		}}
		p.pkg, _ = conf.Check(p.Path, fset, p.Files, p.info)
		if p.pkg == nil {
			return nil, &Unsupported{Msg: "package " + p.Path + " does not type-check at all"}
		}
		imp.cache[p.Path] = p.pkg
		t.pkgs = append(t.pkgs, p)
		t.byPath[p.Path] = p
		for _, key := range p.Funcs {
			fd := p.findDecl(key)
			if fd == nil || fd.Body == nil {
				return nil, &Unsupported{Msg: "function " + key + " of " + p.Path + " not found (or has no body)"}
			}
			obj, _ := p.info.Defs[fd.Name].(*types.Func)
			if obj == nil {
				return nil, &Unsupported{Msg: "function " + key + " of " + p.Path + ": no type information"}
			}
			f := &wfunc{p: p, fd: fd, obj: obj, key: key, coq: p.Prefix + strings.Replace(key, ".", "_", 1)}
			t.funcs[obj] = f
			for _, te := range p.terrs {
				if te.Pos >= fd.Pos() && te.Pos < fd.End() {
					return nil, &Unsupported{Pos: fset.Position(te.Pos), Msg: "in " + key + ": not in the supported subset (type checker: " + te.Msg + ")"}
				}
			}
		}
	}
	t.analyse()
	var body strings.Builder
	var names []string
	nf := map[string]bool{}
	for _, f := range t.order {
		body.WriteString(t.function(f))
		names = append(names, f.coq)
		nf[f.coq] = f.needFuel
		if f.lit != nil {
			names = append(names, f.lit.coq)
			nf[f.lit.coq] = f.lit.needFuel
		}
	}
	for _, p := range t.pkgs {
		for _, l := range p.Lits {
			text, name, needFuel := t.argLiteral(p, l) // world_data.go
			body.WriteString(text)
			names = append(names, name)
			nf[name] = needFuel
		}
	}
	return &Result{Text: t.decls.String() + body.String(), Funcs: names, NeedFuel: nf}, nil
}

func (p *wpkg) findDecl(key string) *ast.FuncDecl {
	recv, name := "", key
	if i := strings.Index(key, "."); i >= 0 {
		recv, name = key[:i], key[i+1:]
	}
	for _, f := range p.Files {
		for _, d := range f.Decls {
			fd, ok := d.(*ast.FuncDecl)
			if !ok || fd.Name.Name != name {
				continue
			}
			if recv == "" && fd.Recv == nil {
				return fd
			}
			if recv != "" && fd.Recv != nil {
				if r, _ := recvTypeName(fd); r == recv {
					return fd
				}
			}
		}
	}
	return nil
}

// ---------------------------------------------------------------- calls

type wcallKind int

const (
	wcNone wcallKind = iota
	wcTranslated
	wcLib
	wcFuncVar // a parameter of function type
	wcConv
	wcBuiltin
	wcLitCall // func() { ... }(): only as the call of a defer statement
)

type wcall struct {
	kind    wcallKind
	fn      *wfunc
	lib     WLib
	key     string
	obj     *types.Func
	sig     *types.Signature
	recv    ast.Expr // the receiver expression of a method call
	path    []int    // embedded fields between the receiver expression and the method
	v       *types.Var
	builtin string
}

func (t *wtr) resolve(p *wpkg, c *ast.CallExpr) wcall {
	fun := ast.Unparen(c.Fun)
	t.cur = p // world_values.go
	if tv, ok := p.info.Types[fun]; ok && tv.IsType() {
		return wcall{kind: wcConv}
	}
	switch x := fun.(type) {
	case *ast.FuncLit:
		return wcall{kind: wcLitCall}
	case *ast.Ident:
		switch o := p.info.Uses[x].(type) {
		case *types.Builtin:
			return wcall{kind: wcBuiltin, builtin: o.Name()}
		case *types.Var:
			if sig, ok := o.Type().Underlying().(*types.Signature); ok {
				return wcall{kind: wcFuncVar, v: o, sig: sig}
			}
		case *types.Func:
			return t.resolveFunc(c, o, nil, nil)
		}
	case *ast.SelectorExpr:
		if sel := p.info.Selections[x]; sel != nil {
			if r, ok := t.fieldFuncCall(c, x, sel); ok { // world_values.go
				return r
			}
			if sel.Kind() != types.MethodVal {
				t.fail(c, "call of a function-valued field or method expression")
			}
			o := sel.Obj().(*types.Func)
			idx := sel.Index()
			return t.resolveFunc(c, o, x.X, idx[:len(idx)-1])
		}
		if o, ok := p.info.Uses[x.Sel].(*types.Func); ok {
			return t.resolveFunc(c, o, nil, nil)
		}
	}
	t.fail(c, "call of this kind of function")
	return wcall{}
}

func (t *wtr) resolveFunc(c *ast.CallExpr, o *types.Func, recv ast.Expr, path []int) wcall {
	sig := o.Type().(*types.Signature)
	if f, ok := t.funcs[o]; ok {
		return wcall{kind: wcTranslated, fn: f, obj: o, sig: sig, recv: recv, path: path}
	}
	key := t.instanceKey(c, o.FullName()) // world_values.go
	if o.Pkg() != nil && t.byPath[o.Pkg().Path()] != nil {
		// a function of a translated package that is not among the translated functions -- unless
		// it is an interface method given by the table
		if _, ok := t.cfg.Lib[key]; !ok {
			t.fail(c, "call of %s, which is not among the translated functions", key)
		}
	}
	lf, ok := t.cfg.Lib[key]
	if !ok {
		t.fail(c, "call of %s, which has no denotation in the table", key)
	}
	return wcall{kind: wcLib, lib: lf, key: key, obj: o, sig: sig, recv: recv, path: path}
}

// analyse: which functions have effects, which need fuel, and the emission order (callees first).
func (t *wtr) analyse() {
	var all []*wfunc
	for _, p := range t.pkgs {
		for _, key := range p.Funcs {
			fd := p.findDecl(key)
			all = append(all, t.funcs[p.info.Defs[fd.Name].(*types.Func)])
		}
	}
	for _, f := range all {
		sig := f.obj.Type().(*types.Signature)
		if sig.Variadic() || sig.TypeParams() != nil || sig.RecvTypeParams() != nil {
			t.fail(f.fd, "variadic or generic function %s", f.key)
		}
		if r := sig.Recv(); r != nil {
			if ptr, ok := types.Unalias(r.Type()).(*types.Pointer); ok {
				if t.structOf(ptr.Elem()) == nil {
					t.fail(f.fd, "method %s: pointer receiver to something other than a struct of a translated package", f.key)
				}
				f.recvPtr = true
			}
		}
		ast.Inspect(f.fd.Body, func(n ast.Node) bool {
			switch n.(type) {
			case *ast.ForStmt:
				f.needFuel = true
			case *ast.GoStmt, *ast.SelectStmt, *ast.SendStmt, *ast.LabeledStmt, *ast.TypeSwitchStmt:
				t.fail(n, "statement of kind %T", n)
			}
			return true
		})
	}
	// direct calls
	calls := map[*wfunc][]*wfunc{}
	for _, f := range all {
		f := f
		ast.Inspect(f.fd.Body, func(n ast.Node) bool {
			c, ok := n.(*ast.CallExpr)
			if !ok {
				return true
			}
			r := t.resolve(f.p, c)
			switch r.kind {
			case wcTranslated:
				calls[f] = append(calls[f], r.fn)
			case wcLib:
				if r.lib.Kind == WWorld || r.lib.Kind == WWorldRO {
					f.worldly = true
				}
				if r.lib.Kind == WDrop {
					return false // the arguments are not looked at
				}
			}
			return true
		})
	}
	for changed := true; changed; {
		changed = false
		for _, f := range all {
			for _, g := range calls[f] {
				if g.worldly && !f.worldly {
					f.worldly, changed = true, true
				}
				if g.needFuel && !f.needFuel {
					f.needFuel, changed = true, true
				}
			}
		}
	}
	var visit func(f *wfunc)
	visit = func(f *wfunc) {
		switch f.state {
		case 1:
			t.fail(f.fd, "recursive call of %s (not supported in world mode)", f.key)
		case 2:
			return
		}
		f.state = 1
		for _, g := range calls[f] {
			visit(g)
		}
		f.state = 2
		t.order = append(t.order, f)
	}
	for _, f := range all {
		visit(f)
	}
}

// ---------------------------------------------------------------- types

type wkind int

const (
	wkOther wkind = iota
	wkZ
	wkBool
	wkBytes
	wkErr
	wkNamed // a type of the table
	wkStruct
	wkPtr
	wkFunc
	wkTuple
	wkList // a slice of structs (world_data.go)
)

func wTypeKey(T types.Type) string { return types.TypeString(types.Unalias(T), nil) }

func (t *wtr) structOf(T types.Type) *types.Named {
	n, ok := types.Unalias(T).(*types.Named)
	if !ok || n.Obj().Pkg() == nil {
		return nil
	}
	if t.byPath[n.Obj().Pkg().Path()] == nil {
		return t.tableStruct(n) // world_data.go: a library struct type with a table record
	}
	if _, ok := n.Underlying().(*types.Struct); !ok {
		return nil
	}
	if _, ok := t.cfg.Types[wTypeKey(n)]; ok {
		return nil
	}
	return n
}

func (t *wtr) kindOf(T types.Type) wkind {
	if T == nil {
		return wkOther
	}
	T = types.Unalias(T)
	if _, ok := t.cfg.Types[wTypeKey(T)]; ok {
		return wkNamed
	}
	if n, ok := T.(*types.Named); ok && n.Obj().Pkg() == nil && n.Obj().Name() == "error" {
		return wkErr
	}
	if t.structOf(T) != nil {
		return wkStruct
	}
	switch u := T.Underlying().(type) {
	case *types.Basic:
		switch {
		case u.Info()&types.IsInteger != 0:
			return wkZ
		case u.Info()&types.IsBoolean != 0:
			return wkBool
		case u.Info()&types.IsString != 0:
			return wkBytes
		}
	case *types.Slice:
		if b, ok := u.Elem().Underlying().(*types.Basic); ok && b.Kind() == types.Uint8 {
			return wkBytes
		}
		if t.structOf(u.Elem()) != nil {
			return wkList
		}
	case *types.Array: // world_values.go
		if _, ok := isByteArray(T); ok {
			return wkBytes
		}
	case *types.Pointer:
		if t.structOf(u.Elem()) != nil {
			return wkPtr
		}
	case *types.Signature:
		return wkFunc
	case *types.Tuple:
		return wkTuple
	}
	return wkOther
}

func (t *wtr) wstructOf(n ast.Node, named *types.Named) *wstruct {
	if s, ok := t.structs[named]; ok {
		if s == nil {
			t.fail(n, "struct type %s contains itself", named.Obj().Name())
		}
		return s
	}
	if s := t.tableWstruct(n, named); s != nil { // world_data.go
		t.structs[named] = s
		return s
	}
	t.structs[named] = nil
	p := t.byPath[named.Obj().Pkg().Path()]
	st := named.Underlying().(*types.Struct)
	name := p.Prefix + named.Obj().Name()
	s := &wstruct{named: named, st: st, coq: name, ctor: p.Prefix + "mk_" + named.Obj().Name()}
	var fields []string
	for i := 0; i < st.NumFields(); i++ {
		fl := st.Field(i)
		if fl.Name() == "_" {
			t.fail(n, "blank field in struct %s", named.Obj().Name())
		}
		g := name + "_" + sanitize(fl.Name())
		s.getter = append(s.getter, g)
		if t.kindOf(fl.Type()) == wkPtr {
			t.fail(n, "field %s of %s: a pointer to a translated struct stored in a struct", fl.Name(), named.Obj().Name())
		}
		fields = append(fields, fmt.Sprintf("%s : %s", g, t.coqType(n, fl.Type())))
	}
	fmt.Fprintf(&t.decls, "(* type %s struct *)\nRecord %s : Type := %s { %s }.\n\n", named.Obj().Name(), name, s.ctor, strings.Join(fields, "; "))
	t.structs[named] = s
	return s
}

func (t *wtr) coqType(n ast.Node, T types.Type) string {
	T = types.Unalias(T)
	switch t.kindOf(T) {
	case wkNamed:
		return t.cfg.Types[wTypeKey(T)].Coq
	case wkZ:
		return "Z"
	case wkBool:
		return "bool"
	case wkBytes:
		return "bytes"
	case wkErr:
		return "werr"
	case wkStruct:
		return t.wstructOf(n, t.structOf(T)).coq
	case wkPtr:
		return "(option " + t.wstructOf(n, t.structOf(T.Underlying().(*types.Pointer).Elem())).coq + ")"
	case wkList:
		return "(list " + t.coqType(n, T.Underlying().(*types.Slice).Elem()) + ")"
	case wkFunc:
		sig := T.Underlying().(*types.Signature)
		if sig.Variadic() {
			t.fail(n, "variadic function type")
		}
		var parts []string
		for i := 0; i < sig.Params().Len(); i++ {
			if t.kindOf(sig.Params().At(i).Type()) == wkFunc {
				t.fail(n, "function type with a function parameter")
			}
			parts = append(parts, t.coqType(n, sig.Params().At(i).Type()))
		}
		if len(parts) == 0 {
			parts = append(parts, "unit")
		}
		parts = append(parts, t.coqType(n, sig.Results()))
		return "(" + strings.Join(parts, " -> ") + ")"
	case wkTuple:
		tu := T.(*types.Tuple)
		if tu.Len() == 0 {
			return "unit"
		}
		var parts []string
		for i := 0; i < tu.Len(); i++ {
			parts = append(parts, t.coqType(n, tu.At(i).Type()))
		}
		if len(parts) == 1 {
			return parts[0]
		}
		return "(" + strings.Join(parts, " * ") + ")%type"
	}
	t.fail(n, "type %s is not supported", T)
	return ""
}

func (t *wtr) zero(n ast.Node, T types.Type) string {
	T = types.Unalias(T)
	if z, ok := t.arrayZero(T); ok { // world_values.go
		return z
	}
	switch t.kindOf(T) {
	case wkNamed:
		z := t.cfg.Types[wTypeKey(T)].Zero
		if z == "" {
			t.fail(n, "zero / nil value of type %s, which the table does not give", T)
		}
		return z
	case wkZ:
		return "0%Z"
	case wkBool:
		return "false"
	case wkBytes, wkList:
		return "[]"
	case wkErr:
		return "WNil"
	case wkPtr:
		return "None"
	case wkStruct:
		s := t.wstructOf(n, t.structOf(T))
		parts := []string{s.ctor}
		for i := 0; i < s.st.NumFields(); i++ {
			parts = append(parts, t.zero(n, s.st.Field(i).Type()))
		}
		return "(" + strings.Join(parts, " ") + ")"
	}
	t.fail(n, "zero value of type %s is not supported", T)
	return ""
}

// intRange: the values of a basic integer type on the platform modelled (64-bit).
func intRange(b *types.Basic) (bits int, signed bool, ok bool) {
	switch b.Kind() {
	case types.Int8:
		return 8, true, true
	case types.Int16:
		return 16, true, true
	case types.Int32:
		return 32, true, true
	case types.Int64, types.Int:
		return 64, true, true
	case types.Uint8:
		return 8, false, true
	case types.Uint16:
		return 16, false, true
	case types.Uint32:
		return 32, false, true
	case types.Uint64, types.Uint, types.Uintptr:
		return 64, false, true
	}
	return 0, false, false
}

// intConvOK: T(x) for integer types cannot change the value, or the table vouches for it.
func (t *wtr) intConvOK(from, to types.Type) bool {
	fb, ok1 := from.Underlying().(*types.Basic)
	tb, ok2 := to.Underlying().(*types.Basic)
	if !ok1 || !ok2 {
		return false
	}
	fbits, fs, ok1 := intRange(fb)
	tbits, ts, ok2 := intRange(tb)
	if !ok1 || !ok2 {
		return false
	}
	if fs == ts && fbits <= tbits || !fs && ts && fbits < tbits {
		return true
	}
	return inSet(t.cfg.IntConv, fb.Name()+"->"+tb.Name())
}

// ---------------------------------------------------------------- functions

type wpre struct {
	pat, term string
	let       bool
}

func wbinds(pres []wpre, ind string) string {
	var b strings.Builder
	for _, p := range pres {
		if p.let {
			fmt.Fprintf(&b, "%slet %s := %s in\n", ind, p.pat, p.term)
		} else {
			fmt.Fprintf(&b, "%s%s <- %s ;;\n", ind, p.pat, p.term)
		}
	}
	return b.String()
}

type wfn struct {
	t       *wtr
	p       *wpkg
	f       *wfunc
	name    string // for messages and loop names
	sig     *types.Signature
	lo, hi  token.Pos // the source range whose variables are local
	names   map[types.Object]string
	used    map[string]bool
	ntemp   int
	nloop   int
	loops   []string
	world   *types.Var // the world, when the function has effects
	recv    *types.Var // the pointer receiver (its value is a record, passed by state)
	results []*types.Var
	parents map[ast.Node]ast.Node
	// outcome: what the function hands back: the world, the receiver, the results (named: the
	// variables; unnamed: fresh names used after a defer)
	outVars []*types.Var
	inDefer int
	litVars []*types.Var          // when translating a returned literal: the owned captures it returns
	preCond map[*ast.Ident]string // synthetic condition identifiers (switch) -> translated term
	isLit   bool
	// world_data.go: a literal handed to a library function: the captured variables it assigns
	state  []*types.Var
	argLit bool
}

func (fn *wfn) info() *types.Info { return fn.p.info }

func (fn *wfn) declare(obj types.Object) string {
	if n, ok := fn.names[obj]; ok {
		return n
	}
	base := "v_" + sanitize(obj.Name())
	name := base
	for k := 1; fn.used[name]; k++ {
		name = fmt.Sprintf("%s_%d", base, k)
	}
	fn.used[name] = true
	fn.names[obj] = name
	return name
}

func (fn *wfn) temp() string {
	fn.ntemp++
	return fmt.Sprintf("t%d", fn.ntemp)
}

func (fn *wfn) isLocal(obj types.Object) (*types.Var, bool) {
	v, ok := obj.(*types.Var)
	if !ok || v.IsField() {
		return nil, false
	}
	if v == fn.world {
		return v, true
	}
	if v.Pos() >= fn.lo && v.Pos() < fn.hi {
		return v, true
	}
	return nil, false
}

func (fn *wfn) varType(v *types.Var) string {
	if v == fn.world {
		return fn.t.cfg.WorldType
	}
	if v == fn.recv {
		return fn.t.wstructOf(fn.f.fd, fn.t.structOf(types.Unalias(v.Type()).(*types.Pointer).Elem())).coq
	}
	return fn.t.coqType(fn.f.fd, v.Type())
}

func (fn *wfn) tuple(vars []*types.Var) string {
	switch len(vars) {
	case 0:
		return "tt"
	case 1:
		return fn.names[vars[0]]
	}
	var parts []string
	for _, v := range vars {
		parts = append(parts, fn.names[v])
	}
	return "(" + strings.Join(parts, ", ") + ")"
}

func (fn *wfn) pattern(vars []*types.Var) string {
	switch len(vars) {
	case 0:
		return "_"
	case 1:
		return fn.names[vars[0]]
	}
	return "'" + fn.tuple(vars)
}

func (fn *wfn) tupleType(vars []*types.Var) string {
	switch len(vars) {
	case 0:
		return "unit"
	case 1:
		return fn.varType(vars[0])
	}
	var parts []string
	for _, v := range vars {
		parts = append(parts, fn.varType(v))
	}
	return "(" + strings.Join(parts, " * ") + ")%type"
}

func (fn *wfn) binders(vars []*types.Var) string {
	var parts []string
	for _, v := range vars {
		parts = append(parts, fmt.Sprintf("(%s : %s)", fn.names[v], fn.varType(v)))
	}
	return strings.Join(parts, " ")
}

func (fn *wfn) args(vars []*types.Var) string {
	var parts []string
	for _, v := range vars {
		parts = append(parts, fn.names[v])
	}
	return strings.Join(parts, " ")
}

// resultType: the Coq type R of res R.
func (fn *wfn) resultType() string {
	var parts []string
	if fn.world != nil {
		parts = append(parts, fn.t.cfg.WorldType)
	}
	if fn.recv != nil {
		parts = append(parts, fn.varType(fn.recv))
	}
	parts = append(parts, fn.stateTypes()...)
	if fn.isLit {
		for _, v := range fn.litVars {
			parts = append(parts, fn.varType(v))
		}
	} else {
		res := fn.sig.Results()
		for i := 0; i < res.Len(); i++ {
			parts = append(parts, fn.resultCoqType(res.At(i).Type()))
		}
	}
	switch len(parts) {
	case 0:
		return "unit"
	case 1:
		return parts[0]
	}
	return "(" + strings.Join(parts, " * ") + ")%type"
}

// resultCoqType: a result of function type is the closure of the returned literal.
func (fn *wfn) resultCoqType(T types.Type) string {
	if fn.t.kindOf(T) == wkFunc {
		if fn.f.lit == nil {
			fn.t.fail(fn.f.fd, "%s: a result of function type without a returned function literal", fn.name)
		}
		return "(option " + fn.tupleType(fn.f.lit.owned) + ")"
	}
	return fn.t.coqType(fn.f.fd, T)
}

// retVal: the value a return hands back: the state in front of the Go results.
func (fn *wfn) retVal(vals []string) string {
	var parts []string
	if fn.world != nil {
		parts = append(parts, fn.names[fn.world])
	}
	if fn.recv != nil {
		parts = append(parts, fn.names[fn.recv])
	}
	parts = append(parts, fn.stateNames()...)
	parts = append(parts, vals...)
	switch len(parts) {
	case 0:
		return "tt"
	case 1:
		return parts[0]
	}
	return "(" + strings.Join(parts, ", ") + ")"
}

func (t *wtr) newFn(f *wfunc, name string, lo, hi token.Pos) *wfn {
	fn := &wfn{t: t, p: f.p, f: f, name: name, sig: f.obj.Type().(*types.Signature), lo: lo, hi: hi,
		names: map[types.Object]string{}, used: map[string]bool{}, parents: map[ast.Node]ast.Node{}}
	if f.worldly {
		fn.world = types.NewVar(token.NoPos, f.p.pkg, t.wname, nil)
		fn.names[fn.world] = t.wname
		fn.used[t.wname] = true
	}
	var defs []*ast.Ident
	for id, obj := range f.p.info.Defs {
		if v, ok := obj.(*types.Var); ok && !v.IsField() && id.Pos() >= f.fd.Pos() && id.Pos() < f.fd.End() {
			defs = append(defs, id)
		}
	}
	sort.Slice(defs, func(i, j int) bool { return defs[i].Pos() < defs[j].Pos() })
	for _, id := range defs {
		if id.Name != "_" {
			fn.declare(f.p.info.Defs[id])
		}
	}
	var stack []ast.Node
	ast.Inspect(f.fd, func(n ast.Node) bool {
		if n == nil {
			stack = stack[:len(stack)-1]
			return true
		}
		if len(stack) > 0 {
			fn.parents[n] = stack[len(stack)-1]
		}
		stack = append(stack, n)
		return true
	})
	return fn
}

func (t *wtr) function(f *wfunc) string {
	fn := t.newFn(f, f.key, f.fd.Pos(), f.fd.End())
	sig := fn.sig
	fn.findReturnedLit()
	var params []string
	if f.needFuel {
		params = append(params, "(fuel : nat)")
	}
	if fn.world != nil {
		params = append(params, fmt.Sprintf("(%s : %s)", t.wname, t.cfg.WorldType))
	}
	if r := sig.Recv(); r != nil {
		if r.Name() == "" || r.Name() == "_" {
			t.fail(f.fd, "unnamed receiver of %s", f.key)
		}
		if f.recvPtr {
			fn.recv = r
		}
		params = append(params, fmt.Sprintf("(%s : %s)", fn.declare(r), fn.varType(r)))
	}
	for i := 0; i < sig.Params().Len(); i++ {
		p := sig.Params().At(i)
		if t.kindOf(p.Type()) == wkPtr && !fn.readOnlyPtr(p, f.fd.Body) {
			t.fail(f.fd, "pointer parameter %s of %s (only receivers are passed by state; other pointer parameters must be read-only)", p.Name(), f.key)
		}
		name := "_"
		if p.Name() != "" && p.Name() != "_" {
			name = fn.declare(p)
		}
		params = append(params, fmt.Sprintf("(%s : %s)", name, t.coqType(f.fd, p.Type())))
	}
	fn.checkPointers(f.fd.Body)
	fn.checkAppends(f.fd.Body)
	ind := "  "
	var b strings.Builder
	if sig.Results().Len() > 0 && sig.Results().At(0).Name() != "" {
		for i := 0; i < sig.Results().Len(); i++ {
			r := sig.Results().At(i)
			if r.Name() == "_" {
				t.fail(f.fd, "blank named result in %s", f.key)
			}
			fn.results = append(fn.results, r)
			z := "None"
			if t.kindOf(r.Type()) != wkFunc {
				z = t.zero(f.fd, r.Type())
			}
			fmt.Fprintf(&b, "%slet %s : %s := %s in\n", ind, fn.declare(r), fn.resultCoqType(r.Type()), z)
		}
	}
	b.WriteString(fn.block(f.fd.Body.List, wmode{kind: wmTail}, ind))
	rt := fn.resultType()
	var out strings.Builder
	if f.lit != nil {
		out.WriteString(fn.literal())
	}
	for _, l := range fn.loops {
		out.WriteString(l)
	}
	fmt.Fprintf(&out, "(* func %s *)\nDefinition %s %s\n  : res %s :=\n%s.\n\n", f.key, f.coq, strings.Join(params, " "),
		rt, strings.TrimRight(b.String(), "\n"))
	return out.String()
}

// ---------------------------------------------------------------- analyses

// rootVar: the variable an assignable expression x, x.f.g stores into.
func (fn *wfn) rootVar(e ast.Expr) *types.Var {
	for {
		switch x := e.(type) {
		case *ast.ParenExpr:
			e = x.X
		case *ast.SelectorExpr:
			e = x.X
		case *ast.Ident:
			if x.Name == "_" {
				return nil
			}
			obj := fn.info().Uses[x]
			if obj == nil {
				obj = fn.info().Defs[x]
			}
			if v, ok := fn.isLocal(obj); ok {
				return v
			}
			fn.t.fail(x, "assignment to %s, which is not a local variable", x.Name)
		default:
			fn.t.fail(e, "assignment to this kind of expression")
		}
	}
}

// callTargets: the variables a call changes: the world, the receiver of a translated pointer
// method, the root of the receiver of a WUpdate method.
func (fn *wfn) callTargets(c *ast.CallExpr, add func(*types.Var)) (drop bool) {
	r := fn.t.resolve(fn.p, c)
	switch r.kind {
	case wcTranslated:
		if r.fn.worldly && fn.world != nil {
			add(fn.world)
		}
		if r.fn.recvPtr {
			if v := fn.rootVar(r.recv); v != nil {
				add(v)
			}
		}
	case wcLib:
		fn.outTargets(c, r, add) // world_values.go
		switch r.lib.Kind {
		case WWorld, WWorldRO:
			if fn.world != nil {
				add(fn.world)
			}
		case WUpdate:
			if v := fn.rootVar(r.recv); v != nil {
				add(v)
			}
		case WDrop:
			return true
		}
	}
	return false
}

// assigned: the variables declared outside [lo, hi) that the nodes may assign (the world included).
func (fn *wfn) assigned(lo, hi token.Pos, nodes ...ast.Node) []*types.Var {
	set := map[*types.Var]bool{}
	addV := func(v *types.Var) {
		if v != nil && (v == fn.world || !(v.Pos() >= lo && v.Pos() < hi)) {
			set[v] = true
		}
	}
	for _, n := range nodes {
		if n == nil || isNilNode(n) {
			continue
		}
		ast.Inspect(n, func(n ast.Node) bool {
			switch s := n.(type) {
			case *ast.AssignStmt:
				for _, l := range s.Lhs {
					addV(fn.rootVar(l))
				}
			case *ast.IncDecStmt:
				addV(fn.rootVar(s.X))
			case *ast.FuncLit:
				// a literal that is called on the spot (deferred) runs in this function
				if c, ok := fn.parents[s].(*ast.CallExpr); !ok || ast.Unparen(c.Fun) != ast.Expr(s) {
					return false
				}
			case *ast.CallExpr:
				if fn.callTargets(s, addV) {
					return false
				}
			}
			return true
		})
	}
	return fn.sortVars(set)
}

func (fn *wfn) sortVars(m map[*types.Var]bool) []*types.Var {
	var vs []*types.Var
	for v := range m {
		vs = append(vs, v)
	}
	sort.Slice(vs, func(i, j int) bool {
		if vs[i] == fn.world || vs[j] == fn.world {
			return vs[i] == fn.world && vs[j] != fn.world
		}
		return vs[i].Pos() < vs[j].Pos()
	})
	return vs
}

// free: the local variables declared outside [lo, hi) that the nodes mention (the world when a
// call with an effect or a query occurs).
func (fn *wfn) free(lo, hi token.Pos, nodes ...ast.Node) []*types.Var {
	set := map[*types.Var]bool{}
	for _, n := range nodes {
		if n == nil || isNilNode(n) {
			continue
		}
		ast.Inspect(n, func(n ast.Node) bool {
			switch x := n.(type) {
			case *ast.Ident:
				if v, ok := fn.isLocal(fn.info().Uses[x]); ok && !(v.Pos() >= lo && v.Pos() < hi) {
					set[v] = true
				}
			case *ast.CallExpr:
				if fn.callTargets(x, func(v *types.Var) {
					if v == fn.world {
						set[v] = true
					}
				}) {
					return false
				}
			}
			return true
		})
	}
	return fn.sortVars(set)
}

// checkPointers: pointers to translated structs are not copied (see the header).
func (fn *wfn) checkPointers(root ast.Node) {
	t := fn.t
	info := fn.info()
	ast.Inspect(root, func(n ast.Node) bool {
		if c, ok := n.(*ast.CallExpr); ok {
			if r := t.resolve(fn.p, c); r.kind == wcLib && r.lib.Kind == WDrop {
				return false
			}
		}
		e, ok := n.(ast.Expr)
		if !ok {
			return true
		}
		tv, ok := info.Types[e]
		if !ok || tv.IsType() || tv.Type == nil || t.kindOf(tv.Type) != wkPtr {
			return true
		}
		if id, ok := e.(*ast.Ident); ok && id.Name == "nil" {
			return true
		}
		p := fn.parents[e]
		for {
			if pe, ok := p.(*ast.ParenExpr); ok {
				p = fn.parents[pe]
			} else {
				break
			}
		}
		switch p := p.(type) {
		case *ast.SelectorExpr:
			if ast.Unparen(p.X) == e {
				return true
			}
		case *ast.ReturnStmt:
			return true
		case *ast.BinaryExpr:
			if p.Op == token.EQL || p.Op == token.NEQ {
				return true
			}
		case *ast.CallExpr:
			// an argument of a table function (the embedded library value is what is passed)
			if r := t.resolve(fn.p, p); r.kind == wcLib {
				return true
			}
		case *ast.AssignStmt:
			for _, l := range p.Lhs {
				if ast.Unparen(l) == e {
					if _, isId := ast.Unparen(l).(*ast.Ident); !isId {
						t.fail(e, "a pointer to a translated struct stored in a field")
					}
					return true
				}
			}
			// on the right: new(T), &T{...}, or a call (a fresh pointer)
			switch x := ast.Unparen(e).(type) {
			case *ast.CallExpr:
				return true
			case *ast.UnaryExpr:
				if x.Op == token.AND {
					return true
				}
			}
		case *ast.ValueSpec:
			switch x := ast.Unparen(e).(type) {
			case *ast.CallExpr:
				return true
			case *ast.UnaryExpr:
				if x.Op == token.AND {
					return true
				}
			case *ast.Ident:
				for _, nm := range p.Names {
					if nm == x {
						return true
					}
				}
			}
		case *ast.UnaryExpr:
			// &T{...}: the composite literal inside has struct type, not pointer type
		}
		if id, ok := e.(*ast.Ident); ok {
			if _, isDef := info.Defs[id]; isDef {
				return true
			}
		}
		t.fail(e, "pointer to a translated struct used in a way that may copy it (allowed: selectors, method calls, arguments of table functions, == nil, return, one defining assignment)")
		return true
	})
	// a pointer variable has one defining assignment
	count := map[types.Object]int{}
	ast.Inspect(root, func(n ast.Node) bool {
		as, ok := n.(*ast.AssignStmt)
		if !ok {
			return true
		}
		for _, l := range as.Lhs {
			if id, ok := ast.Unparen(l).(*ast.Ident); ok && id.Name != "_" {
				o := info.Defs[id]
				if o == nil {
					o = info.Uses[id]
				}
				if o != nil && t.kindOf(o.Type()) == wkPtr {
					count[o]++
					if count[o] > 1 {
						t.fail(l, "pointer variable %s is assigned more than once", id.Name)
					}
				}
			}
		}
		return true
	})
}

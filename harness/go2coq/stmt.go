package go2coq

import (
	"fmt"
	"go/ast"
	"go/token"
	"go/types"
	"strings"
)

// ---------------------------------------------------------------- tuples of variables

func (ft *funcTr) tuple(vars []*types.Var) string {
	switch len(vars) {
	case 0:
		return "tt"
	case 1:
		return ft.names[vars[0]]
	}
	var parts []string
	for _, v := range vars {
		parts = append(parts, ft.names[v])
	}
	return "(" + strings.Join(parts, ", ") + ")"
}

// pattern binding the tuple (after fun, or in front of <-)
func (ft *funcTr) pattern(vars []*types.Var) string {
	switch len(vars) {
	case 0:
		return "_"
	case 1:
		return ft.names[vars[0]]
	}
	return "'" + ft.tuple(vars)
}

func (ft *funcTr) tupleType(vars []*types.Var) string {
	switch len(vars) {
	case 0:
		return "unit"
	case 1:
		return ft.t.coqType(ft.fd, vars[0].Type())
	}
	var parts []string
	for _, v := range vars {
		parts = append(parts, ft.t.coqType(ft.fd, v.Type()))
	}
	return "(" + strings.Join(parts, " * ") + ")%type"
}

func binds(pres []pre, ind string) string {
	var b strings.Builder
	for _, p := range pres {
		fmt.Fprintf(&b, "%s%s <- %s ;;\n", ind, p.pat, p.term)
	}
	return b.String()
}

// ---------------------------------------------------------------- blocks

func (ft *funcTr) finish(m mode, ind string) string {
	switch m.kind {
	case mTail:
		if ft.sig.Results().Len() == 0 {
			return ind + "Ok " + ft.wrapRet("tt") + "\n"
		}
		return ind + "unreachable\n"
	case mOut:
		return ind + "Ok (Normal " + ft.tuple(m.vars) + ")\n"
	}
	return ind + "Ok " + ft.tuple(m.vars) + "\n"
}

// block translates a statement list; the result is a term (lines indented by ind).
func (ft *funcTr) block(list []ast.Stmt, m mode, ind string) string {
	if len(list) == 0 {
		return ft.finish(m, ind)
	}
	s, rest := list[0], list[1:]
	rest = ft.dropDeadJumps(s, rest) // segfail.go
	if !fallsThrough([]ast.Stmt{s}) && len(rest) > 0 {
		if _, isIf := s.(*ast.IfStmt); !isIf {
			ft.t.fail(rest[0], "unreachable code")
		}
	}
	switch s := s.(type) {
	case *ast.BlockStmt:
		// { A }; rest: the block's own declarations have unique Coq names, so it can be inlined
		return ft.block(append(append([]ast.Stmt{}, s.List...), rest...), m, ind)
	case *ast.EmptyStmt:
		return ft.block(rest, m, ind)
	case *ast.ReturnStmt:
		return ft.returnStmt(s, m, ind)
	case *ast.BranchStmt:
		if s.Label != nil || (s.Tok != token.BREAK && s.Tok != token.CONTINUE) {
			ft.t.fail(s, "%s statement (goto, fallthrough and labels are not supported)", s.Tok)
		}
		if m.kind != mOut || !m.inLoop {
			ft.t.fail(s, "%s outside a loop body", s.Tok)
		}
		c := "Break"
		if s.Tok == token.CONTINUE {
			c = "Continue"
		}
		return ind + "Ok (" + c + " " + ft.tuple(m.loop) + ")\n"
	case *ast.IfStmt:
		return ft.ifStmt(s, rest, m, ind)
	case *ast.ForStmt:
		return ft.forStmt(s, rest, m, ind)
	case *ast.RangeStmt:
		return ft.rangeStmt(s, rest, m, ind)
	case *ast.SwitchStmt:
		return ft.block(append(ft.desugarSwitch(s), rest...), m, ind) // state.go
	case *ast.AssignStmt, *ast.DeclStmt, *ast.IncDecStmt, *ast.ExprStmt:
		if isNoReturnStmt(s) {
			return ft.failStmt(s, m, ind) // methods.go
		}
		if isPanicStmt(s) {
			return ft.panicStmt(s, ind) // state.go
		}
		if isMayFailStmt(s) {
			return ft.mayFailStmt(s, rest, m, ind) // segfail.go
		}
		return ft.simple(s, ind) + ft.block(rest, m, ind)
	}
	ft.t.fail(s, "statement of kind %T", s)
	return ""
}

func (ft *funcTr) returnStmt(s *ast.ReturnStmt, m mode, ind string) string {
	var pres []pre
	var val string
	res := ft.sig.Results()
	switch {
	case len(s.Results) == 0 && res.Len() == 0:
		val = "tt"
	case len(s.Results) == 0:
		if ft.results == nil {
			ft.t.fail(s, "bare return without named results")
		}
		val = ft.tuple(ft.results)
	case len(s.Results) == res.Len():
		var parts []string
		for i, e := range s.Results {
			p, v := ft.expr(e, res.At(i).Type())
			pres = append(pres, p...)
			parts = append(parts, v)
		}
		if len(parts) == 1 {
			val = parts[0]
		} else {
			val = "(" + strings.Join(parts, ", ") + ")"
		}
	case len(s.Results) == 1:
		// return f(x) with several results
		p, v := ft.expr(s.Results[0], nil)
		pres, val = p, v
	default:
		ft.t.fail(s, "return with a wrong number of results")
	}
	val = ft.wrapRet(val) // methods.go
	switch m.kind {
	case mTail:
		return binds(pres, ind) + ind + "Ok " + val + "\n"
	case mOut:
		return binds(pres, ind) + ind + "Ok (Return " + val + ")\n"
	}
	ft.t.fail(s, "internal: return in a jump-free block")
	return ""
}

func (ft *funcTr) ifStmt(s *ast.IfStmt, rest []ast.Stmt, m mode, ind string) string {
	var b strings.Builder
	if s.Init != nil {
		b.WriteString(ft.simple(s.Init, ind))
	}
	pres, c := ft.expr(s.Cond, nil)
	b.WriteString(binds(pres, ind))
	thenL := s.Body.List
	var elseL []ast.Stmt
	if s.Else != nil {
		elseL = []ast.Stmt{s.Else}
	}
	thenF, elseF := fallsThrough(thenL), fallsThrough(elseL)
	in := ind + "  "
	switch {
	case !thenF && !elseF:
		if len(rest) > 0 {
			ft.t.fail(rest[0], "unreachable code")
		}
		fmt.Fprintf(&b, "%sif %s then\n%s%selse\n%s", ind, c, ft.block(thenL, m, in), ind, ft.block(elseL, m, in))
		return b.String()
	case !thenF:
		// if c { ...; return/break/continue }; rest   ==>   if c then ... else rest
		fmt.Fprintf(&b, "%sif %s then\n%s%selse\n%s", ind, c, ft.block(thenL, m, in), ind,
			ft.block(append(append([]ast.Stmt{}, elseL...), rest...), m, ind))
		return b.String()
	case !elseF:
		fmt.Fprintf(&b, "%sif %s then\n%s%selse\n%s", ind, c,
			ft.block(append(append([]ast.Stmt{}, thenL...), rest...), m, in), ind, ft.block(elseL, m, in))
		return b.String()
	}
	// both branches can fall through: they yield the outer variables they may assign
	var elseN ast.Node
	if s.Else != nil {
		elseN = s.Else
	}
	vars := ft.assigned(s.Pos(), s.End(), s.Body, elseN)
	if !hasJump(s.Body, elseN) {
		inner := mode{kind: mPlain, vars: vars}
		fmt.Fprintf(&b, "%s%s <- (if %s then\n%s%selse\n%s%s) ;;\n", ind, ft.pattern(vars), c,
			ft.block(thenL, inner, in), ind, ft.block(elseL, inner, in), ind)
		b.WriteString(ft.block(rest, m, ind))
		return b.String()
	}
	inner := mode{kind: mOut, vars: vars, inLoop: m.inLoop, loop: m.loop}
	comb := "bindO"
	switch m.kind {
	case mTail:
		comb = "bindT"
	case mPlain:
		ft.t.fail(s, "internal: jump inside a jump-free block")
	}
	fmt.Fprintf(&b, "%s%s (if %s then\n%s%selse\n%s%s) (fun %s =>\n", ind, comb, c,
		ft.block(thenL, inner, in), ind, ft.block(elseL, inner, in), ind, ft.pattern(vars))
	b.WriteString(strings.TrimRight(ft.block(rest, m, ind), "\n") + ")\n")
	return b.String()
}

// params of a loop function: (name : type) for each variable
func (ft *funcTr) binders(vars []*types.Var) string {
	var parts []string
	for _, v := range vars {
		parts = append(parts, fmt.Sprintf("(%s : %s)", ft.names[v], ft.t.coqType(ft.fd, v.Type())))
	}
	return strings.Join(parts, " ")
}

func (ft *funcTr) args(vars []*types.Var) string {
	var parts []string
	for _, v := range vars {
		parts = append(parts, ft.names[v])
	}
	return strings.Join(parts, " ")
}

func join(parts ...string) string {
	var out []string
	for _, p := range parts {
		if p != "" {
			out = append(out, p)
		}
	}
	return strings.Join(out, " ")
}

func minus(a, b []*types.Var) []*types.Var {
	var out []*types.Var
	for _, x := range a {
		found := false
		for _, y := range b {
			if x == y {
				found = true
			}
		}
		if !found {
			out = append(out, x)
		}
	}
	return out
}

func (ft *funcTr) loopCall(name, call string, vars []*types.Var, rest []ast.Stmt, m mode, ind string) string {
	comb := "bindO"
	switch m.kind {
	case mTail:
		comb = "bindT"
	case mPlain:
		ft.t.fail(ft.fd, "internal: loop inside a jump-free block")
	}
	return fmt.Sprintf("%s%s (%s) (fun %s =>\n%s)\n", ind, comb, call, ft.pattern(vars),
		strings.TrimRight(ft.block(rest, m, ind), "\n"))
}

func (ft *funcTr) forStmt(s *ast.ForStmt, rest []ast.Stmt, m mode, ind string) string {
	var b strings.Builder
	if s.Init != nil {
		b.WriteString(ft.simple(s.Init, ind))
	}
	ft.nloop++
	name := fmt.Sprintf("%s%s_loop%d", ft.t.cfg.Prefix, ft.name, ft.nloop)
	lo, hi := s.Body.Pos(), s.Body.End()
	var postN, condN ast.Node
	if s.Post != nil {
		postN = s.Post
	}
	if s.Cond != nil {
		condN = s.Cond
	}
	vars := ft.assigned(lo, hi, s.Body, postN, condN)
	ro := minus(ft.free(lo, hi, condN, s.Body, postN), vars)
	S := ft.tupleType(vars)
	in := "    "
	var f strings.Builder
	fmt.Fprintf(&f, "(* func %s: for-loop %d *)\n", ft.name, ft.nloop)
	fmt.Fprintf(&f, "Fixpoint %s {L : Type} %s {struct n}\n  : res (outcome %s L %s) :=\n", name,
		join("(fuel n : nat)", ft.binders(ro), ft.binders(vars)), S, ft.resultType())
	f.WriteString("  match n with\n  | O => OutOfFuel\n  | S n' =>\n")
	bodyMode := mode{kind: mOut, vars: vars, inLoop: true, loop: vars}
	body := ft.block(s.Body.List, bodyMode, in+"    ")
	var post string
	if s.Post != nil {
		post = ft.simple(s.Post, in+"  ")
	}
	iter := fmt.Sprintf("%s  bindL (\n%s%s  ) (fun %s =>\n%s%s  %s)\n", in, body, in, ft.pattern(vars), post, in,
		join(name, "fuel n'", ft.args(ro), ft.args(vars)))
	if s.Cond != nil {
		pres, c := ft.expr(s.Cond, nil)
		f.WriteString(binds(pres, in))
		fmt.Fprintf(&f, "%sif %s then\n%s%selse\n%s  Ok (Normal %s)\n", in, c, iter, in, in, ft.tuple(vars))
	} else {
		f.WriteString(iter)
	}
	f.WriteString("  end.\n\n")
	ft.loops = append(ft.loops, f.String())
	b.WriteString(ft.loopCall(name, join(name, "fuel fuel", ft.args(ro), ft.args(vars)), vars, rest, m, ind))
	return b.String()
}

func (ft *funcTr) rangeStmt(s *ast.RangeStmt, rest []ast.Stmt, m mode, ind string) string {
	t := ft.t
	if s.Tok != token.DEFINE && (s.Key != nil || s.Value != nil) {
		t.fail(s, "range with = (assignment to existing variables)")
	}
	tv := t.info.Types[s.X]
	xkind := t.kindOf(tv.Type)
	switch xkind {
	case kBytes, kSlice, kString, kInt:
	default:
		t.fail(s.X, "range over a value of type %s (only slices, strings and ints are supported)", tv.Type)
	}
	varOf := func(e ast.Expr) *types.Var {
		if e == nil {
			return nil
		}
		id, ok := e.(*ast.Ident)
		if !ok {
			t.fail(e, "range variable that is not an identifier")
		}
		if id.Name == "_" {
			return nil
		}
		return t.info.Defs[id].(*types.Var)
	}
	keyV, valV := varOf(s.Key), varOf(s.Value)
	var b strings.Builder
	pres, x := ft.expr(s.X, nil)
	b.WriteString(binds(pres, ind))
	ft.nloop++
	name := fmt.Sprintf("%s%s_loop%d", t.cfg.Prefix, ft.name, ft.nloop)
	lo, hi := s.Pos(), s.End() // the key and value variables are declared inside
	vars := ft.assigned(lo, hi, s.Body)
	for _, v := range ft.assigned(token.NoPos, token.NoPos, s.Body) {
		if v == keyV || v == valV {
			t.fail(s, "the loop body assigns the range variable %s", v.Name())
		}
	}
	ro := minus(ft.free(lo, hi, s.Body), vars)
	S := ft.tupleType(vars)
	fuelB, fuelA := "", ""
	if t.needFuel[ft.name] {
		fuelB, fuelA = "(fuel : nat)", "fuel"
	}
	nameOr := func(v *types.Var) string {
		if v == nil {
			return "_"
		}
		return ft.names[v]
	}
	// the list the loop runs over, the pattern of one element, and (slices) the index counter
	var listT, elemP string
	keyB, keyNext, keyStart := "", "", ""
	switch xkind {
	case kBytes, kSlice:
		// for i, v := range x: the elements in order, i counted from 0
		listT = "list " + t.coqType(s, types.Unalias(tv.Type).Underlying().(*types.Slice).Elem())
		elemP = nameOr(valV)
		if keyV != nil {
			keyB = fmt.Sprintf("(%s : Z)", ft.names[keyV])
			keyNext = fmt.Sprintf("(%s + 1)%%Z", ft.names[keyV])
			keyStart = "0%Z"
		}
	case kString:
		// for i, c := range s: the (byte offset, rune) pairs of Go's UTF-8 decoding of s
		listT = "list (Z * Z)"
		elemP = "(" + nameOr(keyV) + ", " + nameOr(valV) + ")"
		x = "(go_runes " + x + ")"
	case kInt:
		// for i := range n: 0 .. n-1 (n evaluated once)
		if s.Value != nil {
			t.fail(s, "range over an int with two variables")
		}
		listT = "list Z"
		elemP = nameOr(keyV)
		x = "(go_int_range " + x + ")"
	}
	in := "    "
	var f strings.Builder
	fmt.Fprintf(&f, "(* func %s: range loop %d *)\n", ft.name, ft.nloop)
	fmt.Fprintf(&f, "Fixpoint %s {L : Type} %s {struct l}\n  : res (outcome %s L %s) :=\n", name,
		join(fuelB, ft.binders(ro), "(l : "+listT+")", keyB, ft.binders(vars)), S, ft.resultType())
	fmt.Fprintf(&f, "  match l with\n  | [] => Ok (Normal %s)\n  | %s :: l' =>\n", ft.tuple(vars), elemP)
	bodyMode := mode{kind: mOut, vars: vars, inLoop: true, loop: vars}
	body := ft.block(s.Body.List, bodyMode, in+"  ")
	fmt.Fprintf(&f, "%sbindL (\n%s%s) (fun %s =>\n%s%s)\n", in, body, in, ft.pattern(vars), in,
		join(name, fuelA, ft.args(ro), "l'", keyNext, ft.args(vars)))
	f.WriteString("  end.\n\n")
	ft.loops = append(ft.loops, f.String())
	b.WriteString(ft.loopCall(name, join(name, fuelA, ft.args(ro), x, keyStart, ft.args(vars)), vars, rest, m, ind))
	return b.String()
}

// ---------------------------------------------------------------- simple statements

// simple translates a statement without control flow into let / bind lines.
func (ft *funcTr) simple(s ast.Stmt, ind string) string {
	t := ft.t
	switch s := s.(type) {
	case *ast.ExprStmt:
		if out, ok := ft.stateCallStmt(s, ind); ok {
			return out // state.go
		}
		if out, ok := ft.callStmt(s, ind); ok {
			return out // methods.go
		}
		if ft.discardStmt(s) {
			return "" // segstate.go
		}
		if c, ok := s.X.(*ast.CallExpr); ok && ft.builtin(c) == "copy" && len(c.Args) == 2 {
			dst := ft.rootVar(c.Args[0])
			pres, src := ft.expr(c.Args[1], nil)
			if t.kindOf(dst.Type()) != kBytes || !isBytesLike(t.kindOf(t.info.Types[c.Args[1]].Type)) {
				t.fail(s, "copy on slices other than []byte")
			}
			return binds(pres, ind) + fmt.Sprintf("%slet %s : bytes := go_copy %s %s in\n", ind, ft.names[dst], ft.names[dst], src)
		}
		if c, ok := s.X.(*ast.CallExpr); ok && ft.mutTarget(c) != nil {
			return ft.mutStmt(c, ind)
		}
		t.fail(s, "expression statement (only copy(dst, src) is supported)")
	case *ast.IncDecStmt:
		op := token.ADD
		if s.Tok == token.DEC {
			op = token.SUB
		}
		one := &ast.BasicLit{Kind: token.INT, Value: "1"}
		return ft.assignOp(s, s.X, op, one, "1%Z", ind)
	case *ast.DeclStmt:
		gd, ok := s.Decl.(*ast.GenDecl)
		if ok && gd.Tok == token.CONST {
			return "" // a local constant: its uses are constants (data.go)
		}
		if ok && gd.Tok == token.TYPE {
			return "" // a local type declaration has no run-time effect (segstate.go)
		}
		if !ok || gd.Tok != token.VAR {
			t.fail(s, "local declaration other than var")
		}
		var b strings.Builder
		for _, sp := range gd.Specs {
			vs := sp.(*ast.ValueSpec)
			if len(vs.Values) == 0 {
				for _, id := range vs.Names {
					if id.Name == "_" {
						continue
					}
					v := t.info.Defs[id].(*types.Var)
					fmt.Fprintf(&b, "%slet %s : %s := %s in\n", ind, ft.names[v], t.coqType(id, v.Type()), t.zero(id, v.Type()))
				}
				continue
			}
			lhs := make([]ast.Expr, len(vs.Names))
			for i, id := range vs.Names {
				lhs[i] = id
			}
			b.WriteString(ft.assign(s, lhs, vs.Values, ind))
		}
		return b.String()
	case *ast.AssignStmt:
		switch s.Tok {
		case token.ASSIGN, token.DEFINE:
			return ft.assign(s, s.Lhs, s.Rhs, ind)
		case token.ADD_ASSIGN:
			return ft.assignOp(s, s.Lhs[0], token.ADD, s.Rhs[0], "", ind)
		case token.SUB_ASSIGN:
			return ft.assignOp(s, s.Lhs[0], token.SUB, s.Rhs[0], "", ind)
		}
		t.fail(s, "assignment operator %s", s.Tok)
	}
	t.fail(s, "statement of kind %T in this position", s)
	return ""
}

func isBytesLike(k kind) bool { return k == kBytes || k == kString }

// x op= e  /  x++
func (ft *funcTr) assignOp(s ast.Stmt, lhs ast.Expr, op token.Token, rhs ast.Expr, rhsTerm string, ind string) string {
	t := ft.t
	T := t.info.Types[lhs].Type
	pl, cur := ft.expr(lhs, nil)
	pres := pl
	if rhsTerm == "" {
		var pr []pre
		pr, rhsTerm = ft.expr(rhs, T)
		pres = append(pres, pr...)
	}
	val := ft.binop(s, op, t.kindOf(T), cur, rhsTerm)
	return binds(pres, ind) + ft.store(s, lhs, val, ind)
}

// store: lines that make the assignable expression lhs hold the term val.
func (ft *funcTr) store(n ast.Node, lhs ast.Expr, val string, ind string) string {
	t := ft.t
	switch x := ast.Unparen(lhs).(type) {
	case *ast.Ident:
		if x.Name == "_" {
			return ""
		}
		v := ft.rootVar(x)
		return fmt.Sprintf("%slet %s : %s := %s in\n", ind, ft.names[v], t.coqType(x, v.Type()), val)
	case *ast.SelectorExpr:
		base, ok := ast.Unparen(x.X).(*ast.Ident)
		if !ok {
			t.fail(lhs, "assignment to a field of something other than a variable")
		}
		v := ft.rootVar(base)
		T := v.Type()
		if p, ok := types.Unalias(T).Underlying().(*types.Pointer); ok {
			T = p.Elem()
		}
		st, gst, ok := t.structOf(T)
		if !ok {
			t.fail(lhs, "assignment to a field of a value of type %s", v.Type())
		}
		parts := []string{st.Ctor}
		found := false
		for i, f := range st.Fields {
			if gst.Field(i).Name() == x.Sel.Name {
				parts = append(parts, val)
				found = true
			} else {
				parts = append(parts, "("+f.Getter+" "+ft.names[v]+")")
			}
		}
		if !found {
			t.fail(lhs, "unknown field %s", x.Sel.Name)
		}
		return fmt.Sprintf("%slet %s : %s := %s in\n", ind, ft.names[v], t.coqType(x, v.Type()), strings.Join(parts, " "))
	case *ast.IndexExpr:
		if ft.isRefMapExpr(x.X) {
			return ft.refMapStore(n, x, val, ind) // methods.go
		}
		if tx, ok := ft.storeExt(x, val, ind); ok {
			return tx
		}
		v := ft.rootVar(x.X)
		if _, ok := ast.Unparen(x.X).(*ast.Ident); !ok || t.kindOf(v.Type()) != kBytes {
			t.fail(lhs, "element store other than into a []byte variable")
		}
		pres, idx := ft.expr(x.Index, nil)
		return binds(pres, ind) + fmt.Sprintf("%s%s <- go_store %s %s %s ;;\n", ind, ft.names[v], ft.names[v], idx, val)
	case *ast.StarExpr:
		// *p = v for a pointer parameter p (state.go)
		v := ft.rootVar(x.X)
		if _, ok := ast.Unparen(x.X).(*ast.Ident); !ok || t.kindOf(v.Type()) != kPtrVal {
			t.fail(lhs, "store through something other than a pointer parameter")
		}
		return fmt.Sprintf("%s%s <- go_ptr_store %s %s ;;\n", ind, ft.names[v], ft.names[v], val)
	}
	t.fail(lhs, "assignment to this kind of expression")
	return ""
}

func (ft *funcTr) lhsType(e ast.Expr) types.Type {
	if id, ok := ast.Unparen(e).(*ast.Ident); ok {
		if id.Name == "_" {
			return nil
		}
		if o := ft.t.info.Defs[id]; o != nil {
			return o.Type()
		}
		if o := ft.t.info.Uses[id]; o != nil {
			return o.Type()
		}
	}
	if tv, ok := ft.t.info.Types[e]; ok {
		return tv.Type
	}
	return nil
}

// assign: lhs1, ..., lhsn = rhs1, ..., rhsn   or   lhs1, ..., lhsn = f(...)
func (ft *funcTr) assign(n ast.Node, lhs, rhs []ast.Expr, ind string) string {
	t := ft.t
	var b strings.Builder
	if out, ok := ft.assignFromMutating(n, lhs, rhs, ind); ok {
		return out // methods.go
	}
	if len(lhs) == len(rhs) {
		var pres []pre
		var vals []string
		for i, r := range rhs {
			p, v := ft.expr(r, ft.lhsType(lhs[i]))
			pres = append(pres, p...)
			vals = append(vals, v)
		}
		// index expressions on the left are evaluated after the right-hand sides here; they
		// cannot interfere (only int and byte operands) but their panics could be reordered
		// with respect to OutOfFuel: keep to one store per statement
		nstore := 0
		for _, l := range lhs {
			if _, ok := ast.Unparen(l).(*ast.IndexExpr); ok {
				nstore++
			}
		}
		if nstore > 0 && len(lhs) > 1 {
			t.fail(n, "element store in a tuple assignment")
		}
		b.WriteString(binds(pres, ind))
		if len(lhs) == 1 {
			b.WriteString(ft.store(n, lhs[0], vals[0], ind))
			return b.String()
		}
		// simultaneous: all right-hand sides are evaluated before any variable changes
		var pats, later []string
		for i, l := range lhs {
			if id, ok := ast.Unparen(l).(*ast.Ident); ok {
				if id.Name == "_" {
					pats = append(pats, "_")
				} else {
					pats = append(pats, ft.names[ft.rootVar(id)])
				}
				continue
			}
			tmp := ft.temp()
			pats = append(pats, tmp)
			later = append(later, ft.store(n, lhs[i], tmp, ind))
		}
		fmt.Fprintf(&b, "%slet '(%s) := (%s) in\n", ind, strings.Join(pats, ", "), strings.Join(vals, ", "))
		for _, l := range later {
			b.WriteString(l)
		}
		return b.String()
	}
	if len(rhs) != 1 {
		t.fail(n, "assignment with %d left and %d right operands", len(lhs), len(rhs))
	}
	var call ast.Expr
	call, ok := ast.Unparen(rhs[0]).(*ast.CallExpr)
	if !ok {
		if !ft.isCommaOkMap(rhs[0]) {
			t.fail(n, "tuple assignment from something other than a call")
		}
		call = ast.Unparen(rhs[0]) // v, ok := m[k] on an association-list map (data.go)
	}
	pres, val := ft.expr(call, nil)
	var pats, later []string
	for i, l := range lhs {
		if id, ok := ast.Unparen(l).(*ast.Ident); ok && id.Name == "_" {
			pats = append(pats, "_")
			continue
		}
		if _, ok := ast.Unparen(l).(*ast.IndexExpr); ok {
			t.fail(n, "element store in a tuple assignment")
		}
		tmp := ft.temp()
		pats = append(pats, tmp)
		later = append(later, ft.store(n, lhs[i], tmp, ind))
	}
	if k := len(pres) - 1; k >= 0 && pres[k].pat == val {
		// the call is itself a computation: bind its results directly
		pres[k].pat = "'(" + strings.Join(pats, ", ") + ")"
		b.WriteString(binds(pres, ind))
	} else {
		b.WriteString(binds(pres, ind))
		fmt.Fprintf(&b, "%slet '(%s) := %s in\n", ind, strings.Join(pats, ", "), val)
	}
	for _, l := range later {
		b.WriteString(l)
	}
	return b.String()
}

package go2coq_test

import (
	"fmt"
	"go/ast"
	"go/parser"
	"go/token"
	"os"
	"os/exec"
	"path/filepath"
	"strings"
	"testing"
	"time"

	"verif/harness/go2coq"
	"verif/harness/go2coq/internal/synthseg"
)

const segPkg = "verif/harness/go2coq/internal/synthseg"

var segStubs = map[string]string{
	"encoding/hex": "package hex\nfunc Decode(dst, src []byte) (int, error)\n",
	"errors":       "package errors\nfunc New(text string) error\n",
	"fmt":          "package fmt\nfunc Errorf(format string, a ...any) error\nfunc Sprintf(format string, a ...any) string\n",
	"os":           "package os\nfunc Getenv(key string) string\nfunc Setenv(key, value string) error\nfunc Unsetenv(key string) error\n",
	"strconv":      "package strconv\nfunc ParseInt(s string, base int, bitSize int) (i int64, err error)\nfunc FormatInt(i int64, base int) string\n",
	"time": "package time\ntype Time struct{}\ntype Duration int64\nconst (\n\tNanosecond Duration = 1\n\tSecond = 1000000000 * Nanosecond\n\tHour = 3600 * Second\n)\n" +
		"func Now() Time\nfunc (t Time) UnixNano() int64\n",
}

func segCfg() *go2coq.Config {
	return &go2coq.Config{
		Prefix: "g_",
		Stubs:  segStubs,
		Lib: map[string]go2coq.LibFunc{
			"encoding/hex.Decode":  {Coq: "t_hex_Decode", Monadic: true, Out: 1},
			"errors.New":           {IsError: true},
			"fmt.Errorf":           {IsError: true},
			"fmt.Sprintf":          {Coq: "t_Sprintf"},
			"strconv.ParseInt":     {Coq: "t_ParseInt", Monadic: true},
			"strconv.FormatInt":    {Coq: "t_FormatInt"},
			"(time.Time).UnixNano": {Coq: "t_UnixNano"},
			"time.Now":             {Input: true},
			segPkg + ".Box.now":    {Input: true},
		},
		Structs: map[string]go2coq.Struct{
			segPkg + ".Rec": {CoqType: "(bytes * Z * Z)%type", Ctor: "t_mkRec",
				Fields: []go2coq.Field{{Go: "ID", Getter: "t_id"}, {Go: "N", Getter: "t_n"}, {Go: "At", Getter: "t_at"}}},
			segPkg + ".Box": {CoqType: "bytes", Ctor: "t_mkBox",
				Fields: []go2coq.Field{{Go: "dir", Getter: "t_dir"}, {Go: "now", Getter: "t_now"}}},
		},
		Types: map[string]go2coq.LibType{"time.Time": {Coq: "Z", Zero: "0%Z"}},
		Segments: []go2coq.Segment{
			{Func: "Box.Parse", Name: "mid", After: "os.Getenv", Before: "os.Setenv"},
			{Func: "Box.Parse", Name: "res", After: "os.Setenv"},
			{Func: "Box.Sweep", Name: "pick", In: "os.Setenv", Before: "os.Setenv"},
			{Func: "Box.Sweep", Name: "old", Cond: "os.Unsetenv"},
			{Func: "Box.Path", Name: "body"},
			{Func: "Stamp", Name: "line", From: "time.Now", Through: "time.Now"},
		},
	}
}

const segPreamble = `From Coq Require Import List ZArith NArith Bool.
From Coq.Strings Require Import Byte.
Import ListNotations.
From GI Require Import Lib.Bytes Lib.GoSem Lib.GoSemSeg.
Import GoNotations.
Local Open Scope go_scope.
Local Open Scope Z_scope.

Definition t_mkRec (a : bytes) (b c : Z) : bytes * Z * Z := (a, b, c).
Definition t_id (r : bytes * Z * Z) := fst (fst r).
Definition t_n (r : bytes * Z * Z) := snd (fst r).
Definition t_at (r : bytes * Z * Z) := snd r.
Definition t_mkBox (d : bytes) (_ : unit) : bytes := d.
Definition t_dir (b : bytes) : bytes := b.
Definition t_now (b : bytes) : unit := tt.
Definition t_UnixNano (t : Z) : Z := t.
Definition t_byte (z : Z) : byte := match Byte.of_N (Z.to_N z) with Some b => b | None => x00 end.
Definition t_hexval (c : byte) : option Z :=
  let v := Z.of_N (Byte.to_N c) in
  if (48 <=? v) && (v <=? 57) then Some (v - 48) else if (97 <=? v) && (v <=? 102) then Some (v - 87)
  else if (65 <=? v) && (v <=? 70) then Some (v - 55) else None.
Fixpoint t_hex_into (dst src : bytes) (i : nat) : res (bytes * (Z * bool)) :=
  match src with
  | [] => Ok (dst, (Z.of_nat i, false))
  | [_] => Ok (dst, (Z.of_nat i, true))
  | p :: q :: r =>
      match t_hexval p, t_hexval q with
      | Some a, Some b => d <- go_store dst (Z.of_nat i) (t_byte (a * 16 + b)) ;; t_hex_into d r (S i)
      | _, _ => Ok (dst, (Z.of_nat i, true))
      end
  end.
Definition t_hex_Decode (dst src : bytes) := t_hex_into dst src 0.
Fixpoint t_digits (acc : Z) (s : bytes) : option Z :=
  match s with
  | [] => Some acc
  | c :: r => let v := Z.of_N (Byte.to_N c) - 48 in if (0 <=? v) && (v <=? 9) then t_digits (acc * 10 + v) r else None
  end.
(* strconv.ParseInt on short strings of an optional '-' and digits *)
Definition t_ParseInt (s : bytes) (base bits : Z) : res (Z * bool) :=
  match s with
  | [] => Ok (0, true)
  | c :: r =>
      if beq c x2d then
        match r with [] => Ok (0, true) | _ => match t_digits 0 r with Some v => Ok (- v, false) | None => Ok (0, true) end end
      else match t_digits 0 s with Some v => Ok (v, false) | None => Ok (0, true) end
  end.
(* fmt.Sprintf("%s|%c|%v|%c", string, byte, bool, int64 below 128) *)
Definition t_Sprintf (f : bytes) (args : list go_any) : bytes :=
  match args with
  | [GoAnyBytes s; GoAnyByte b; GoAnyBool q; GoAnyInt n] =>
      s ++ [x7c; b; x7c] ++ (if q then [x74; x72; x75; x65] else [x66; x61; x6c; x73; x65]) ++ [x7c; t_byte n]
  | _ => []
  end.
(* strconv.FormatInt(i, 10) for one-digit i *)
Definition t_FormatInt (i base : Z) : bytes := [t_byte (48 + i)].

`

func TestSegmentsAgainstGo(t *testing.T) {
	src, err := os.ReadFile("internal/synthseg/synthseg.go")
	if err != nil {
		t.Fatal(err)
	}
	fset := token.NewFileSet()
	f, err := parser.ParseFile(fset, "synthseg.go", src, parser.ParseComments)
	if err != nil {
		t.Fatal(err)
	}
	r, err := go2coq.Translate(fset, []*ast.File{f}, segPkg, segCfg())
	if err != nil {
		t.Fatal(err)
	}
	var ex []string
	add := func(call, want string) { ex = append(ex, fmt.Sprintf("(%s) = %s", call, want)) }
	clock := time.Unix(0, 7)
	box := synthseg.NewBox("dir", func() time.Time { return clock })
	ids := [][4]byte{{0x6b, 0xcd, 0x01, 0x02}, {0, 0, 0, 0}}
	lines := []string{"6bcd0102 17", "6bcd0102    999", "6bcd0102 1000", "6bcd0102 -1", "6bcd0102 ", "6bcd0102   ", "6BCD0102 5",
		"6bcd010  7", "6bcg0102 7", "6bcd0102x7", "00000000 0", "6bcd0102 7x", "short", "", "6bcd0102 12 ", "6bcd0102 00012"}
	for _, id := range ids {
		for _, line := range lines {
			os.Unsetenv("SEG_AFTER")
			rec, err := box.Parse(id, []byte(line))
			cid, cl := coqBytes(id[:]), coqBytes([]byte(line))
			if err != nil {
				add("g_Box_Parse_mid 40 "+cid+" "+cl, "Ok (Return (t_mkRec (go_zero_array 4) 0 0, true))")
				if os.Getenv("SEG_AFTER") != "" {
					t.Fatalf("Parse(%q) failed after the second effect", line)
				}
				continue
			}
			add("g_Box_Parse_mid 40 "+cid+" "+cl, fmt.Sprintf("Ok (Normal (%s, %s))", coqBytes(rec.ID[:]), coqZ(int(rec.N))))
			add(fmt.Sprintf("g_Box_Parse_res %s %s %s", coqBytes(rec.ID[:]), coqZ(int(rec.N)), coqZ(7)),
				fmt.Sprintf("Ok (Return (t_mkRec %s %s %s, false))", coqBytes(rec.ID[:]), coqZ(int(rec.N)), coqZ(int(rec.At.UnixNano()))))
		}
	}
	// the iteration bound of the loop inside the segment is real
	add("g_Box_Parse_mid 2 "+coqBytes(ids[0][:])+" "+coqBytes([]byte("6bcd0102    999")), "OutOfFuel")
	for _, name := range []string{"ab", "a", "", ".x", "xyz", "q."} {
		for _, tag := range []int64{65, 122} {
			for _, ages := range [][2]time.Duration{{time.Hour, time.Hour}, {time.Hour, time.Hour + 1}, {0, 2 * time.Hour}, {-5, 2*time.Hour - 1}} {
				os.Unsetenv("SEG_LABEL")
				os.Setenv("SEG_PROBE", "1")
				k := box.Sweep([]string{name}, tag, ages[0], ages[1])
				label, set := os.LookupEnv("SEG_LABEL")
				cn := coqBytes([]byte(name))
				old := ages[1] > ages[0] && ages[1] < 2*time.Hour
				add(fmt.Sprintf("g_Box_Sweep_old %s %s false", coqZ(int(ages[0])), coqZ(int(ages[1]))), "Ok "+coqB(old))
				if k == 0 {
					add("g_Box_Sweep_pick "+coqZ(int(tag))+" 0%Z "+cn, "Ok (Continue 0%Z)")
					continue
				}
				if set == old {
					t.Fatalf("Sweep(%q): the guarded effect does not follow the condition", name)
				}
				if set {
					add("g_Box_Sweep_pick "+coqZ(int(tag))+" 0%Z "+cn, "Ok (Normal (1%Z, "+coqBytes([]byte(label))+"))")
				}
			}
		}
		// a later iteration: the outer variable comes in with its value
		add("g_Box_Sweep_pick 65%Z 4%Z "+coqBytes([]byte("ab")), "Ok (Normal (5%Z, "+coqBytes([]byte("ab|b|true|A"))+"))")
		for _, id := range ids {
			add("g_Box_Path_body "+coqBytes([]byte("dir"))+" "+coqBytes(id[:])+" "+coqBytes([]byte(name)),
				"Ok (Return "+coqBytes([]byte(box.Path(id, name)))+")")
		}
	}
	add("g_Stamp_line "+coqBytes([]byte("n"))+" 7%Z", "Ok (Normal "+coqBytes([]byte("n:7"))+")")

	theories, _ := filepath.Abs("../../coq/theories")
	if th := os.Getenv("GO2COQ_THEORIES"); th != "" {
		theories = th
	}
	if _, err := os.Stat(filepath.Join(theories, "Lib", "GoSemSeg.vo")); err != nil {
		t.Skip("compiled Lib/GoSemSeg.vo not found under " + theories)
	}
	if _, err := exec.LookPath("coqc"); err != nil {
		t.Skip("coqc not found")
	}
	dir := t.TempDir()
	var b strings.Builder
	b.WriteString(segPreamble)
	b.WriteString(r.Text)
	for i, e := range ex {
		fmt.Fprintf(&b, "Example ex%d : %s.\nProof. vm_compute. reflexivity. Qed.\n", i, e)
	}
	file := filepath.Join(dir, "SynthSeg.v")
	if err := os.WriteFile(file, []byte(b.String()), 0o644); err != nil {
		t.Fatal(err)
	}
	if keep := os.Getenv("GO2COQ_KEEP"); keep != "" {
		os.WriteFile(keep+".seg", []byte(b.String()), 0o644)
	}
	cmd := exec.Command("timeout", "300", "coqc", "-q", "-Q", theories, "GI", file)
	cmd.Dir = dir
	out, err := cmd.CombinedOutput()
	if err != nil {
		t.Fatalf("coqc: %v\n%s", err, out)
	}
	t.Logf("%d evaluations of %d translated segments agree with Go", len(ex), len(r.Funcs))
}

// What lies outside the constructs of ext.go / segment.go is refused, with a message naming it.
func TestSegmentRejects(t *testing.T) {
	head := "package synthseg\nimport (\"encoding/hex\"; \"errors\"; \"fmt\"; \"os\"; \"strconv\"; \"time\")\n" +
		"var _ = hex.Decode\nvar _ = errors.New\nvar _ = fmt.Sprintf\nvar _ = strconv.ParseInt\nvar _ time.Duration\n" +
		"type Box struct { dir string; now func() time.Time }\nfunc (b *Box) helper() int { return 1 }\ntype notErr struct{ N int }\n"
	seg := []go2coq.Segment{{Func: "Box.F", Name: "s", After: "os.Getenv", Before: "os.Setenv"}}
	cases := []struct {
		name, body, want string
		segs             []go2coq.Segment
		funcs            []string
	}{
		{"int64-arith", "func (b *Box) F(a, c int64) { os.Getenv(\"A\"); d := a + c; if d > 0 { return }; os.Setenv(\"B\", \"\") }", "operator +", seg, nil},
		{"int64-neg", "func (b *Box) F(a int64) { os.Getenv(\"A\"); d := -a; if d > 0 { return }; os.Setenv(\"B\", \"\") }", "unary operator", seg, nil},
		{"array-slice", "func (b *Box) F(a [4]byte) { os.Getenv(\"A\"); d := a[1:]; if len(d) > 0 { return }; os.Setenv(\"B\", \"\") }", "slice of an array", seg, nil},
		{"out-param", "func (b *Box) F(dst, s []byte) { os.Getenv(\"A\"); _, err := hex.Decode(dst, s); if err != nil { return }; os.Setenv(\"B\", \"\") }", "writes into this argument", seg, nil},
		{"out-stmt", "func (b *Box) F(s []byte) { os.Getenv(\"A\"); var x [2]byte; hex.Decode(x[:], s); os.Setenv(\"B\", \"\") }", "expression statement", seg, nil},
		{"closure-capture", "func (b *Box) F(s []byte) int { k := 1; g := func(a int) int { return a + k }; os.Getenv(\"A\"); r := g(2); os.Setenv(\"B\", \"\"); return r }", "captures", seg, nil},
		{"closure-body", "func (b *Box) F(s []byte) int { g := func(a int) int { a++; return a }; os.Getenv(\"A\"); r := g(2); os.Setenv(\"B\", \"\"); return r }", "single return", seg, nil},
		{"closure-twice", "func (b *Box) F(s []byte) int { g := func(a int) int { return a }; g = func(a int) int { return a + 1 }; os.Getenv(\"A\"); r := g(2); os.Setenv(\"B\", \"\"); return r }", "assigned once", seg, nil},
		{"input-in-loop", "func (b *Box) F(n int) int64 { os.Getenv(\"A\"); var t int64; for i := 0; i < n; i++ { t = b.now().UnixNano() }; os.Setenv(\"B\", \"\"); return t }", "inside a loop", seg, nil},
		{"input-outside", "func G() int64 { return time.Now().UnixNano() }", "outside a Segment", nil, []string{"G"}},
		{"pointer-method", "func (b *Box) F() int { os.Getenv(\"A\"); r := b.helper(); os.Setenv(\"B\", \"\"); return r }", "", seg, nil},
		{"pointer-store", "func (b *Box) F() { os.Getenv(\"A\"); b.dir = \"x\"; os.Setenv(\"B\", \"\") }", "", seg, nil},
		{"not-an-error", "func (b *Box) F() error { os.Getenv(\"A\"); if b.dir == \"\" { return &notErr{N: 1} }; os.Setenv(\"B\", \"\"); return nil }", "", seg, nil},
		{"effect-inside", "func (b *Box) F() { os.Getenv(\"A\"); os.Unsetenv(\"C\"); os.Setenv(\"B\", \"\") }", "expression statement", seg, nil},
		{"no-such-call", "func (b *Box) F() { os.Getenv(\"A\") }", "no statement of the block", seg, nil},
		{"no-such-func", "func (b *Box) G() { os.Getenv(\"A\") }", "not found", seg, nil},
		{"empty", "func (b *Box) F() { os.Getenv(\"A\"); os.Setenv(\"B\", \"\") }", "is empty", seg, nil},
		{"cond-no-if", "func (b *Box) F() { os.Unsetenv(\"A\") }", "not in a branch", []go2coq.Segment{{Func: "Box.F", Name: "c", Cond: "os.Unsetenv"}}, nil},
		{"untyped-stub", "func (b *Box) F(s string) { os.Getenv(\"A\"); n := strconv.Itoa(3); if n == s { return }; os.Setenv(\"B\", \"\") }", "type checker", seg, nil},
	}
	for _, c := range cases {
		cfg := segCfg()
		cfg.Segments = c.segs
		cfg.Funcs = c.funcs
		fset := token.NewFileSet()
		f, err := parser.ParseFile(fset, "x.go", head+c.body+"\n", 0)
		if err != nil {
			t.Fatalf("%s: %v", c.name, err)
		}
		_, err = go2coq.Translate(fset, []*ast.File{f}, segPkg, cfg)
		if err == nil {
			t.Errorf("%s: accepted", c.name)
			continue
		}
		if _, ok := err.(*go2coq.Unsupported); !ok || !strings.Contains(err.Error(), c.want) {
			t.Errorf("%s: error %q does not mention %q", c.name, err, c.want)
		}
	}
}

// A renamed local, a comment or a changed layout inside a segment changes bound names only;
// statements added before or after it change nothing.
func TestSegmentStable(t *testing.T) {
	src, _ := os.ReadFile("internal/synthseg/synthseg.go")
	tr := func(s string) string {
		fset := token.NewFileSet()
		f, err := parser.ParseFile(fset, "synthseg.go", s, parser.ParseComments)
		if err != nil {
			t.Fatal(err)
		}
		r, err := go2coq.Translate(fset, []*ast.File{f}, segPkg, segCfg())
		if err != nil {
			t.Fatal(err)
		}
		return r.Text
	}
	a := tr(string(src))
	if b := tr(strings.ReplaceAll(string(src), "\tos.Getenv(\"SEG_BEFORE\")\n", "\tos.Unsetenv(\"X\")\n\t// c\n\tos.Getenv(\n\t\t\"SEG_BEFORE\")\n")); a != b {
		t.Error("a comment, a changed layout or an added effect in front of the segment changes the generated text")
	}
	c := tr(strings.ReplaceAll(string(src), "hexid", "theid"))
	if c == a || strings.ReplaceAll(c, "v_theid", "v_hexid") != a {
		t.Error("renaming a local changes more than the bound names")
	}
}

// Package synthst holds synthetic functions for the tests of the state-passing part of the
// translator (harness/go2coq/state.go): methods with a pointer receiver, a pointer parameter,
// a library reader used as linear state, error sentinels, switch and panic.
package synthst

import (
	"bufio"
	"errors"
	"io"
)

// Lexer splits its input into words.
type Lexer struct {
	rd   *bufio.Reader
	tok  []byte
	last byte
	err  error
	n    int
}

var (
	ErrBad  = errors.New("bad")
	errLong = errors.New("long")
)

func NewLexer(rd *bufio.Reader) *Lexer {
	if p, err := rd.Peek(2); err == nil && string(p) == "#!" {
		rd.Discard(2)
	}
	return &Lexer{rd: rd}
}

func (l *Lexer) fail(e error) {
	if l.err == nil {
		l.err = e
	}
}

func (l *Lexer) next() byte {
	c, err := l.rd.ReadByte()
	if err == io.EOF {
		l.last = 0
		return 0
	}
	l.n++
	if l.n > 40 {
		panic("too long")
	}
	l.last = c
	return c
}

// word reads the next word: 0 at the end of the input (or after '!'), 2 for a separator
// (collected in l.tok), 1 for a word (appended to *out unless out is nil).
func (l *Lexer) word(out *[]string) int {
	var w []byte
	c := l.next()
	for c == ' ' {
		c = l.next()
	}
	switch c {
	case 0:
		return 0
	case ',', ';':
		l.tok = append(l.tok, c)
		return 2
	case '!':
		l.fail(ErrBad)
		return 0
	}
	for c != 0 && c != ' ' {
		w = append(w, c)
		c = l.next()
	}
	if len(w) > 5 {
		l.fail(errLong)
	}
	if out != nil {
		*out = append(*out, string(w))
	}
	return 1
}

// Words counts the items of the input up to the first error.
func Words(rd io.Reader, out *[]string) (int, int, []byte, error) {
	l := NewLexer(bufio.NewReader(rd))
	k := 0
	for l.word(out) != 0 && l.err == nil {
		k++
	}
	l.next()
	if l.err == ErrBad {
		return k, l.n, l.tok, nil
	}
	return k, l.n, l.tok, l.err
}

// Class uses a switch with an init statement, a tag that is not a variable and a default
// clause that does not come last.
func Class(d []byte, i int) int {
	switch n := len(d); i - n {
	default:
		return -1
	case 0, 1:
		return n
	case -1:
		switch {
		case n > 3:
			return 100
		case n > 1:
			return 10
		}
	}
	return 7
}

// Package wd is the "library" of the synthetic package synthwd (the test of the data part of
// go2coq's world mode, world_data_test.go): a world made of a script of answers and a trace of
// what was asked, struct types the table denotes by Coq records, variadic functions, and a
// function that calls a function literal.  world_data_test.go gives the same in Coq.
package wd

import (
	"errors"
	"fmt"
	"strings"
)

var (
	Script []int // answers still to give
	Trace  []int // what has been asked so far
)

var ErrBad = errors.New("bad")
var ErrSkip = errors.New("skip")

// Item and Pack: struct types whose Coq records the table gives.
type Item struct {
	Name string
	Data []byte
}

type Pack struct {
	Note  []byte
	Items []Item
}

// FmtErr is the error Errf makes.
type FmtErr struct {
	Format string
	Args   []string
}

func (e *FmtErr) Error() string { return e.Format + strings.Join(e.Args, ",") }

func next() int {
	if len(Script) == 0 {
		return 0
	}
	v := Script[0]
	Script = Script[1:]
	return v
}

// Put: answer v >= 0: len(b) bytes stored; negative: ErrBad.
func Put(name string, b []byte) (int, error) {
	v := next()
	Trace = append(Trace, 1, len(name), len(b), v)
	if v < 0 {
		return 0, ErrBad
	}
	return len(b) + v, nil
}

// Get: answer v >= 0: v bytes 'x' (a fresh slice); negative: ErrBad.
func Get(name string) ([]byte, error) {
	v := next()
	Trace = append(Trace, 2, len(name), v)
	if v < 0 {
		return nil, ErrBad
	}
	out := make([]byte, v, v+8)
	for i := range out {
		out[i] = 'x'
	}
	return out, nil
}

// Errf makes an error determined by its format and arguments.
func Errf(format string, a ...any) error {
	e := &FmtErr{Format: format}
	for _, x := range a {
		e.Args = append(e.Args, fmt.Sprint(x))
	}
	return e
}

// Cat joins its arguments with "/".
func Cat(parts ...string) string { return strings.Join(parts, "/") }

// Log has no effect on the world.
func Log(format string, a ...any) {}

// Each calls fn for every item in order; ErrSkip skips the item after it; any other error stops.
func Each(items []Item, fn func(it Item, err error) error) error {
	skip := false
	for _, it := range items {
		if skip {
			skip = false
			continue
		}
		var in error
		if it.Name == "broken" {
			in = ErrBad
		}
		if err := fn(it, in); err != nil {
			if err == ErrSkip {
				skip = true
				continue
			}
			return err
		}
	}
	return nil
}

// Package synthwd is the synthetic source of the test of the data part of go2coq's world mode
// (world_data.go, world_data_test.go): Store and Load are translated whole, the literal Collect
// hands to wd.Each is translated as a definition of its own; all are evaluated by coqc over the
// Coq rendering of wd and compared with what they do as Go.
package synthwd

import (
	"verif/harness/go2coq/internal/synthwd/wd"
)

var Verbose = new(bool)

// Store: a read-only pointer parameter to a struct of the table, range over its slice of structs
// with continue, break and return inside, variadic library functions, field reads of the element.
func Store(p *wd.Pack, prefix string) (int, error) {
	n := 0
	for _, it := range p.Items {
		if it.Name == "" {
			continue
		}
		if it.Name == "stop" {
			break
		}
		if it.Name == "bad" {
			return n, wd.Errf("bad %q in %q", it.Name, prefix)
		}
		k, err := wd.Put(wd.Cat(prefix, it.Name), it.Data)
		if err != nil {
			return n, err
		}
		n += k
	}
	for range p.Items {
		n = n + 1
	}
	if p == nil {
		return -1, nil
	}
	return n + len(p.Note), nil
}

// Load: a pointer to a struct of the table made by new, stores through it, appends of struct
// values and of bytes, a struct literal of the table, nil slices.
func Load(names *wd.Pack) (*wd.Pack, error) {
	out := new(wd.Pack)
	var seen []wd.Item
	for _, it := range names.Items {
		data, err := wd.Get(it.Name)
		if err != nil {
			return nil, err
		}
		if len(data) > 2 {
			data = append(data, '!', '?')
		}
		out.Items = append(out.Items, wd.Item{Name: it.Name, Data: data})
		out.Note = append(out.Note, it.Data...)
		seen = append(seen, it)
	}
	if len(seen) == 0 {
		out.Items = nil
	}
	return out, nil
}

// Collect hands a literal to wd.Each: it captures p (assigned through: state), tag (read), and
// reads the package-level pointer variable Verbose.
func Collect(items []wd.Item, tag string) (*wd.Pack, error) {
	p := new(wd.Pack)
	err := wd.Each(items, func(it wd.Item, err error) error {
		if err != nil {
			return err
		}
		if it.Name == tag && !*Verbose {
			return wd.ErrSkip
		}
		data, err := wd.Get(it.Name)
		if err != nil {
			wd.Log("%s: %v", it.Name, err)
			return wd.Errf("get %s", it.Name)
		}
		if len(data) > 0 {
			data = append(data, '\n')
		}
		p.Note = append(p.Note, []byte(tag+it.Name+";")...)
		p.Items = append(p.Items, wd.Item{Name: wd.Cat(tag, it.Name), Data: data})
		return nil
	})
	return p, err
}

// Package synthwv is the synthetic source of the test of the value part of go2coq's world mode
// (world_values.go, world_values_test.go): Probe is translated whole, evaluated by coqc over the
// Coq rendering of wv and compared with what it does as Go.
package synthwv

import (
	"errors"

	"verif/harness/go2coq/internal/synthwv/wv"
)

type ID [4]byte

type Box struct {
	name  string
	clock func() int
}

func NewBox(name string) *Box { return &Box{name: name, clock: func() int { return len(wv.Trace) }} }

type MissErr struct{ Err error }

func (e *MissErr) Error() string { return "miss" }

var Strict = false
var ErrStrict = errors.New("strict")

func (b *Box) label(id ID) int {
	return wv.Tag("l%v", id, id[1], len(b.name), b.name == "x")
}

// Probe: byte arrays (zero value, T{}, ==, x[i] as an integer, slices of them as arguments), a
// local function literal, a read-only package variable, make and a buffer a library method
// fills, a table value changed by its methods, a call of a function-valued field, a function
// with an interface parameter at two types, variadic arguments by kind, an error struct of the
// translated package, panic with a computed argument; and a pointer method that leaves its
// receiver alone called with the receiver mentioned in the argument.
func (b *Box) Probe(id ID, want ID) (ID, int, error) {
	miss := func(reason error) (ID, int, error) { return ID{}, -1, &MissErr{Err: reason} }
	if Strict {
		return miss(ErrStrict)
	}
	d, err := wv.Open(b.name)
	if err != nil {
		return miss(err)
	}
	buf := make([]byte, 6)
	n, err := d.Fill(buf)
	if err != nil {
		return miss(wv.Errf("fill %v %v", err, n))
	}
	if n < 5 || buf[0] != 'a' {
		return miss(wv.Errf("short", n, buf, buf[0]))
	}
	var got ID
	wv.Decode(got[:], buf[1:5])
	if got == id && got != want {
		return got, 0, nil
	}
	a := wv.NewAcc()
	a.Add(buf)
	a.Add(id[:])
	var out [2]byte
	a.Sum(out[:0])
	t := b.clock()
	if t > 8 {
		panic(wv.Tag("late", t))
	}
	return got, int(out[0]) + int(out[1]) + t + wv.Size(d) + wv.Size(b.name) + b.label(got), nil
}

// Package wv is the "library" of the synthetic package synthwv (the test of the value part of
// go2coq's world mode, world_values_test.go): a world made of a script of answers and a trace of
// what was asked, a device that fills a buffer, an accumulator that is changed by its methods
// and writes its sum through the slice it is handed, a function with an interface parameter
// used at two types, and variadic functions with arguments of several kinds.
// world_values_test.go gives the same in Coq.
package wv

import (
	"errors"
	"fmt"
	"reflect"
)

var (
	Script []int // answers still to give
	Trace  []int // what has been asked so far
)

var ErrBad = errors.New("bad")

func next() int {
	if len(Script) == 0 {
		return 0
	}
	v := Script[0]
	Script = Script[1:]
	return v
}

type Dev struct{ name string }

// Open: the next answer < 0 is an error.
func Open(name string) (*Dev, error) {
	v := next()
	Trace = append(Trace, 1, len(name), v)
	if v < 0 {
		return nil, ErrBad
	}
	return &Dev{name}, nil
}

// Fill writes min(answer, len(buf)) bytes 'a', 'b', ... into buf.
func (d *Dev) Fill(buf []byte) (int, error) {
	v := next()
	Trace = append(Trace, 2, len(buf), v)
	if v < 0 {
		return 0, ErrBad
	}
	n := min(v, len(buf))
	for i := 0; i < n; i++ {
		buf[i] = byte('a' + i%26)
	}
	return n, nil
}

// Decode copies src into dst (as many bytes as fit) and returns the count.
func Decode(dst, src []byte) int { return copy(dst, src) }

// Acc: the sum and the number of the bytes added.
type Acc interface {
	Add(b []byte)
	Sum(b []byte) []byte
}

type acc struct{ sum, n int }

func NewAcc() Acc { return &acc{} }
func (a *acc) Add(b []byte) {
	for _, c := range b {
		a.sum += int(c)
	}
	a.n += len(b)
}

// Sum appends the two bytes byte(sum), byte(n) to b.
func (a *acc) Sum(b []byte) []byte { return append(b, byte(a.sum), byte(a.n)) }

// Size: the length of a string; for a device the next answer.
func Size(x any) int {
	switch x := x.(type) {
	case string:
		return len(x)
	case *Dev:
		v := next()
		Trace = append(Trace, 3, v)
		return v
	}
	return -1
}

// FmtErr is the error Errf makes: the kinds and values of the arguments.
type FmtErr struct {
	Format string
	Args   []int
	Inner  error
}

func (e *FmtErr) Error() string { return e.Format }

func kinds(a []any) (out []int, inner error) {
	for _, x := range a {
		switch x := x.(type) {
		case string:
			out = append(out, 1, len(x))
		case []byte:
			out = append(out, 1, len(x))
		case int:
			out = append(out, 2, x)
		case byte:
			out = append(out, 3, int(x))
		case bool:
			if x {
				out = append(out, 4, 1)
			} else {
				out = append(out, 4, 0)
			}
		case error:
			out = append(out, 5, 0)
			if inner == nil {
				inner = x
			}
		default:
			if v := reflect.ValueOf(x); v.Kind() == reflect.Array {
				out = append(out, 1, v.Len())
				continue
			}
			panic(fmt.Sprintf("kind %T", x))
		}
	}
	return
}

func Errf(format string, a ...any) error {
	k, in := kinds(a)
	return &FmtErr{format, k, in}
}

// Tag: the length of the format plus the kind codes and values of the arguments.
func Tag(format string, a ...any) int {
	k, _ := kinds(a)
	n := len(format)
	for _, v := range k {
		n += v
	}
	return n
}

// Package synthhandler holds a synthetic request handler whose pure segments exercise
// go2coq/segstate.go; segstate_test.go runs it as Go and evaluates its translation in coqc.
package synthhandler

import (
	"errors"
	"fmt"
	"io"
	"os"
	"strings"
)

type Loc struct{ Path string }

type Req struct{ U *Loc }

type Doc struct {
	Name  string
	Lines []string
}

type Srv struct {
	dir  string
	seen []string
	logf func(string, ...any)
	docs map[string]*Doc
}

func New(dir string, docs map[string]*Doc) *Srv {
	return &Srv{dir: dir, docs: docs, logf: func(string, ...any) {}}
}

func (s *Srv) Seen() []string     { return s.seen }
func (s *Srv) SetSeen(x []string) { s.seen = x }

// lookup, mark and do stand for functions that do I/O (os.Getenv stands for the I/O).
func (s *Srv) lookup(name string) *Doc {
	os.Getenv("SYNTH")
	return s.docs[name]
}

// Mark is what mark returns: the first line of the stored document.
func (s *Srv) Mark(name string) string { return s.mark(name) }

func (s *Srv) mark(name string) string {
	os.Getenv("SYNTH")
	if d := s.docs[name]; d != nil && len(d.Lines) > 0 {
		return d.Lines[0]
	}
	return ""
}

func (s *Srv) do(key any, f func() any) any { return f() }

// Scan: a loop body that appends to a field of the receiver and returns from inside the loop.
func (s *Srv) Scan(names []string) error {
	os.Getenv("SYNTH")
	for _, n := range names {
		if n == "" {
			continue
		}
		if strings.HasPrefix(n, "!") {
			return errors.New("bad name")
		}
		s.seen = append(s.seen, s.dir+"/"+n)
	}
	return nil
}

// Handle: effects on the writer interleaved with decisions, a dropped log call, a call on the
// receiver that the table denotes, an effectful lookup, a pointer that may be nil, a cached
// computation given as a function literal under a type assertion, a local type declaration.
func (s *Srv) Handle(w io.Writer, r *Req) {
	if !strings.HasPrefix(r.U.Path, "/d/") {
		fmt.Fprintf(w, "E:%s\n", "prefix")
		return
	}
	name := strings.TrimPrefix(r.U.Path, "/d/")
	if name == "" {
		s.logf("empty name after %s", "/d/")
		fmt.Fprintf(w, "E:%s\n", "empty")
		return
	}
	best := ""
	for _, c := range s.seen {
		if s.mark(c) == name {
			best = c
		}
	}
	d := s.lookup(name)
	if d == nil {
		fmt.Fprintf(w, "E:%s\n", "nodoc")
		return
	}
	type packed struct {
		text string
		err  error
	}
	p := s.do(d, func() any {
		var b strings.Builder
		for _, l := range d.Lines {
			if strings.HasPrefix(l, "#") {
				continue
			}
			if _, err := b.WriteString(d.Name + ":" + l + ";"); err != nil {
				return packed{"", err}
			}
		}
		return packed{b.String(), nil}
	}).(packed)
	if p.err != nil {
		fmt.Fprintf(w, "E:%s\n", p.err.Error())
		return
	}
	fmt.Fprintf(w, "%s|%s", best, p.text)
}

// Find: a result of a pointer type that may be nil.
func (s *Srv) Find(name string) *Doc {
	if name == "" {
		return nil
	}
	key := s.dir + "/" + name
	os.Getenv(key)
	return s.docs[key]
}

// Pick: a segment that ends in front of a declaration.
func (s *Srv) Pick(d *Doc, want string) string {
	os.Getenv("SYNTH")
	if d == nil {
		return "-"
	}
	var got string
	for _, l := range d.Lines {
		if strings.HasSuffix(l, want) {
			got = l
			break
		}
	}
	var tmp struct{ X string }
	tmp.X = got
	os.Setenv("SYNTH_PICK", tmp.X)
	return tmp.X
}

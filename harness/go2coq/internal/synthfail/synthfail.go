// Package synthfail holds synthetic functions that exercise go2coq/int64.go (int64 arithmetic
// with wrap-around), go2coq/segfail.go (no-return calls inside segments, the message of a
// no-return call, package-level input variables) and go2coq/partiallit.go (literals of structs
// with a partial table entry); segfail_test.go runs them as Go and evaluates their translation
// in coqc.
package synthfail

import (
	"errors"
	"flag"
	"os"
	"strconv"
	"time"

	"verif/harness/go2coq/internal/synthaux"
)

var Loud = flag.Bool("synthfail_loud", false, "")

var failNow = errors.New("fail now")

type Opts struct {
	Keep  bool
	Limit time.Duration
	Hook  func()
}

type M struct {
	opts  Opts
	grace time.Duration
	name  string
	hook  func()
	seen  map[string]bool
}

// Fatalf never returns.
func (m *M) Fatalf(format string, args ...any) {
	panic(failNow)
}

// Caught runs f and reports the panic of Fatalf.
func Caught(f func()) (failed bool) {
	defer func() {
		if e := recover(); e != nil {
			if e != failNow {
				panic(e)
			}
			failed = true
		}
	}()
	f()
	return false
}

// Grace: the shape of a deadline computation: division, comparison, op-assignment.
func Grace(timeout, floor time.Duration) (time.Duration, time.Duration) {
	g := floor
	if gp := timeout / 20; gp > g {
		g = gp
	}
	timeout -= 2 * g
	return g, timeout
}

// Arith: + - * and unary minus wrap around.
func Arith(a, b int64) (int64, int64, int64, int64) {
	return a + b, a - b, a * b, -a
}

// Div: / and % panic on zero; the lowest value divided by -1 is itself.
func Div(a, b int64) (int64, int64) {
	return a / b, a % b
}

// Steps: ++, --, += on an int64.
func Steps(a int64) int64 {
	a++
	a += 5
	a--
	return a
}

// Check is a translated method that can fail in two ways.
func (m *M) Check(n int) int {
	if n < 0 {
		m.Fatalf("negative: %d", n)
	}
	if n > 9 {
		m.Fatalf("too large")
	}
	return n + 1
}

// Run: an effect, a segment with an input variable, two no-return calls and int64 arithmetic, an effect.
func (m *M) Run(n int32, budget time.Duration) time.Duration {
	os.Getenv("SYNTHFAIL_A")
	quiet := n == 0 && !(m.opts.Keep || *Loud)
	if budget < 0 {
		m.Fatalf("negative budget %v", budget)
	}
	if budget > m.opts.Limit {
		m.Fatalf("over the limit")
	}
	half := budget / 2
	if quiet {
		half = -half
	}
	os.Setenv("SYNTHFAIL_B", "")
	return half
}

// Make: a literal of a partially denoted struct between two effects.
func Make(name string, g time.Duration, f func()) *M {
	os.Getenv("SYNTHFAIL_A")
	m := &M{
		name:  name,
		grace: g + 1,
		hook:  func() { f() },
		seen:  make(map[string]bool),
		opts:  Opts{Keep: g > 5, Hook: f},
	}
	os.Setenv("SYNTHFAIL_B", "")
	return m
}

func (m *M) Grace() time.Duration { return m.grace }
func (m *M) Name() string         { return m.name }
func (m *M) Keep() bool           { return m.opts.Keep }
func NewM(keep bool, limit time.Duration) *M {
	return &M{opts: Opts{Keep: keep, Limit: limit}}
}

// Lookup is not translated: the table denotes it (LibFunc.MayFail).  It ends in Fatalf for a
// key that starts with '!'.
func (m *M) Lookup(k string) (int, bool) {
	if len(k) > 0 && k[0] == '!' {
		m.Fatalf("bad key %q", k)
	}
	if len(k) == 0 {
		return 0, false
	}
	return len(k), true
}

// Must ends in Fatalf for the empty key and has no results.
func (m *M) Must(k string) {
	if k == "" {
		m.Fatalf("empty key")
	}
}

// Walk: calls that may fail, in each of the supported statement forms, inside and after a loop.
func (m *M) Walk(keys []string) int {
	os.Getenv("SYNTHFAIL_A")
	total := 0
	for len(keys) > 0 {
		v, ok := m.Lookup(keys[0])
		if !ok {
			break
		}
		total += v
		keys = keys[1:]
	}
	var last int
	var found bool
	last, found = m.Lookup("tail")
	if found {
		total += last
	}
	if len(keys) > 0 {
		m.Must(keys[0])
	}
	os.Setenv("SYNTHFAIL_B", "")
	return total
}

// ---- a second receiver: a written map in a field, element pointers, a pointer-valued field

type Item = synthaux.Item
type Bag = synthaux.Bag

type N struct {
	index map[string]string
	bag   *Bag
	label string
}

func NewN(items ...Item) *N {
	return &N{index: make(map[string]string), bag: &Bag{Items: items}}
}

func (n *N) Fatalf(format string, args ...any) {
	panic(failNow)
}

// Len uses the map in the two ways that copy nothing.
func (n *N) Len() int {
	c := 0
	for range n.index {
		c++
	}
	return c + len(n.index)
}

func (n *N) Index(k string) (string, bool) { v, ok := n.index[k]; return v, ok }
func (n *N) Items() []Item                 { return n.bag.Items }

// Note: v, ok := m[k] on a written map held in a field, a store into it, a no-return call, and
// returns that carry the receiver (Segment.State).
func (n *N) Note(k, v string) bool {
	os.Getenv("SYNTHFAIL_A")
	if k == "" {
		n.Fatalf("empty key for %q", v)
	}
	if old, ok := n.index[k]; ok {
		if old == v {
			return false
		}
	}
	n.index[k] = v
	os.Setenv("SYNTHFAIL_B", "")
	return true
}

// Fill: a loop over the elements through a pointer; the segment is the body after the pointer
// is taken (a local pointer as state), with a jump after a no-return call.
func (n *N) Fill(name, content string) bool {
	found := false
	for i := range n.bag.Items {
		it := &n.bag.Items[i]
		if it.Name != name {
			continue
		}
		if content == "" {
			n.Fatalf("no content for %q", it.Name)
			continue
		}
		it.Data = []byte(content)
		found = true
	}
	return found
}

// Total: a pointer-valued field handed to a table function, in the arguments of an effect.
func (n *N) Total() {
	os.Setenv(n.label, strconv.Itoa(synthaux.Size(n.bag)))
}

func (n *N) SetLabel(l string) { n.label = l }

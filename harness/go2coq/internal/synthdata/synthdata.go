// Package synthdata holds synthetic functions for the constructs of go2coq/data.go: slices of
// any element type made by make and stored into, owned results of library functions, append
// targets that are cut back, written maps, function literals handed to a library function,
// bytes.Buffer with fmt.Fprintf, struct values with field updates, min/max, local constants.
// go2coq/data_test.go translates them, evaluates the translation with coqc and compares
// with the functions run as Go.
package synthdata

import (
	"bytes"
	"fmt"
	"sort"
	"strings"
)

type P struct{ A, B int }

// Squares: make([]int, n), element stores, range over the made slice (key only, then values).
func Squares(n int) (int, []int) {
	s := make([]int, n)
	for i := range s {
		s[i] = i * i
	}
	t := 0
	for _, v := range s {
		t += v
	}
	return t, s
}

// Pairs: make([]P, n), stores of struct values, field updates x.f++ / x.f--, whole-struct assignment.
func Pairs(n, at int) []P {
	ps := make([]P, n)
	cur := P{1, 2}
	for i := range n {
		cur.A++
		cur.B--
		ps[i] = cur
	}
	var z P
	ps[at] = z
	z = cur
	z.A = 7
	ps[0] = z
	return ps
}

// Fix: the owned result of a library function: element update with +=, cut by a slice of itself.
func Fix(s string) []string {
	l := strings.SplitAfter(s, ",")
	if l[len(l)-1] == "" {
		l = l[:len(l)-1]
	} else {
		l[len(l)-1] += "!"
	}
	return l
}

// Count: a written map: m[k], m[k] = v, v, ok := m[k]; values go negative.
func Count(words []string, probe string) (int, bool, int) {
	m := make(map[string]int)
	for _, w := range words {
		if c := m[w]; c > -2 {
			m[w] = c - 1
		}
	}
	n := 0
	for i, w := range words {
		if m[w] == -1 {
			m[w] = i
			n++
		}
	}
	v, ok := m[probe]
	return v, ok, n
}

// Search: a function literal closing over locals, handed to sort.Search; it can panic.
func Search(xs []int, v, n int) int {
	return sort.Search(n, func(k int) bool {
		return xs[k] >= v
	})
}

// Report: bytes.Buffer, fmt.Fprintf with %s %d %%, WriteString, Bytes; an append target that is
// cut back with x = x[:0]; min, max and a local constant.
func Report(name string, lines []string, w int) []byte {
	const K = 2
	var out bytes.Buffer
	fmt.Fprintf(&out, "# %s %d%%\n", name, w)
	var pend []string
	n := 0
	for i, l := range lines {
		pend = append(pend, "> "+l)
		n++
		if len(pend) >= min(w, K+1) || i == len(lines)-1 {
			fmt.Fprintf(&out, "@%d,%d\n", i-n+1, max(n, -1))
			for _, p := range pend {
				out.WriteString(p)
			}
			pend = pend[:0]
			n = 0
		}
	}
	return out.Bytes()
}

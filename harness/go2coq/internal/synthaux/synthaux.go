// Package synthaux plays the library in the tests of go2coq/segfail.go: types with a table
// entry and a function denoted by the table that takes a pointer to one of them.
package synthaux

type Item struct {
	Name string
	Data []byte
}

type Bag struct {
	Comment []byte
	Items   []Item
}

// Size is denoted by the table.
func Size(b *Bag) int { return len(b.Comment) + len(b.Items) }

// Package synthw is the synthetic source of the test of go2coq's world mode (world_test.go): the
// functions below are translated, evaluated by coqc over the Coq rendering of wos, and compared
// with what they do as Go.
package synthw

import (
	"verif/harness/go2coq/internal/synthw/wos"
)

type mode int16

const (
	modeRead  mode = 1
	modeWrite mode = 2
)

func (m mode) String() string {
	switch m {
	case modeRead:
		return "read"
	case modeWrite:
		return "write"
	default:
		return "none"
	}
}

type dev struct {
	*wos.Dev
}

type Conn struct {
	dev
	closed bool
	uses   int
}

// open retries while the OS says "again" and strips a flag.
func open(name string, flags int) (d *wos.Dev, err error) {
	for {
		d, err = wos.Open(name, flags&^4)
		if err != wos.ErrAgain {
			break
		}
	}
	if err != nil {
		return nil, &wos.OpErr{Op: mode(flags & 3).String(), Err: err}
	}
	return d, nil
}

func Dial(name string, flags int) (*Conn, error) {
	var (
		c   = new(Conn)
		err error
	)
	c.dev.Dev, err = open(name, flags)
	if err != nil {
		return nil, err
	}
	switch flags & (1 | 2) {
	case 1, 2:
		c.uses = 1
	default:
		c.uses = 0
	}
	if flags&8 == 8 {
		if _, err := c.Put(nil); err != nil {
			if k, kerr := c.Kind(); kerr != nil || k > 5 {
				c.dev.Dev.Shut()
				return nil, err
			}
		}
	}
	wos.Note(c, func(c *Conn) { panic("never") })
	return c, nil
}

func (c *Conn) Close() error {
	if c.closed {
		return &wos.OpErr{Op: "close", Err: wos.ErrBad}
	}
	c.closed = true
	err := c.dev.Dev.Shut()
	wos.Note(c, nil)
	return err
}

// Fetch: a deferred method call, a result passed through.
func Fetch(name string) ([]byte, error) {
	c, err := Dial(name, 1)
	if err != nil {
		return nil, err
	}
	defer c.Close()
	return c.Get()
}

// Store: the error of Close is handed back when nothing else failed.
func Store(name string, b []byte) (err error) {
	c, err := Dial(name, 2|8)
	if err != nil {
		return err
	}
	_, err = wos.Drain(c, b)
	if cerr := c.Close(); err == nil {
		err = cerr
	}
	return err
}

// Update: two defers, the second a literal that reads the named result; slices; a function
// parameter; returns before and after the second defer.
func Update(name string, f func([]byte) ([]byte, error)) (n int, err error) {
	c, err := Dial(name, 2)
	if err != nil {
		return -1, err
	}
	defer c.Close()
	old, err := c.Get()
	if err != nil {
		return 0, err
	}
	nw, err := f(old)
	if err != nil {
		return 1, err
	}
	if len(nw) > len(old) {
		if _, err := c.Put(nw[len(old):]); err != nil {
			return 2, err
		}
	}
	defer func() {
		if err != nil {
			if _, err := c.Put(old); err == nil {
				n = n + 100
			}
		}
	}()
	if len(nw) >= len(old) {
		if _, err := c.Put(nw[:len(old)]); err != nil {
			return 3, err
		}
	} else {
		if _, err := c.Put(nw); err != nil {
			return 4, err
		}
	}
	return 5, nil
}

type Keeper struct {
	Name string
	gate wos.Gate
}

// Hold returns a function literal that owns c and borrows k.
func (k *Keeper) Hold() (release func(), err error) {
	if k.Name == "" {
		panic("no name")
	}
	c, err := Dial(k.Name, 2)
	if err != nil {
		return nil, err
	}
	k.gate.Enter()
	return func() {
		k.gate.Leave()
		c.Close()
	}, nil
}

// Cycle (not translated): what a caller does with Hold.
func Cycle(k *Keeper, twice bool) (ok bool) {
	rel, err := k.Hold()
	if err != nil {
		return false
	}
	rel()
	if twice {
		defer func() {
			if recover() != nil {
				ok = false
			}
		}()
		rel()
	}
	return true
}

func (k *Keeper) In() int { return k.gate.In() }

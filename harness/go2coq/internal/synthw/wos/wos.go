// Package wos is the "operating system" of the synthetic package synthw (the test of go2coq's
// world mode): every call consumes the next answer of a script and appends what it was asked to a
// trace.  Script and trace together are the world; world_test.go gives the same operations in Coq.
package wos

import "errors"

var (
	Script []int // answers still to give
	Trace  []int // what has been asked so far
)

var ErrAgain = errors.New("again")
var ErrBad = errors.New("bad")

// OpErr is an error made by the code under test.
type OpErr struct {
	Op  string
	Err error
}

func (e *OpErr) Error() string { return e.Op + ": " + e.Err.Error() }

type Dev struct{ id int }

func next() int {
	if len(Script) == 0 {
		return 0
	}
	v := Script[0]
	Script = Script[1:]
	return v
}

func errOf(v int) error {
	switch {
	case v == -1:
		return ErrAgain
	case v < 0:
		return ErrBad
	}
	return nil
}

// Open: answer v >= 0: the device v; -1: ErrAgain; other negative: ErrBad.
func Open(name string, mode int) (*Dev, error) {
	v := next()
	Trace = append(Trace, 1, len(name), mode, v)
	if v < 0 {
		return nil, errOf(v)
	}
	return &Dev{v}, nil
}

func id(d *Dev) int {
	if d == nil {
		return -7
	}
	return d.id
}

// Put: answer v >= 0: stores min(v, len(b)) bytes, an error if that is less than len(b).
func (d *Dev) Put(b []byte) (int, error) {
	v := next()
	Trace = append(Trace, 2, id(d), len(b), v)
	if v < 0 {
		return 0, errOf(v)
	}
	if v < len(b) {
		return v, ErrBad
	}
	return len(b), nil
}

// Get: answer v >= 0: v bytes 'x'; negative: an error.
func (d *Dev) Get() ([]byte, error) {
	v := next()
	Trace = append(Trace, 3, id(d), v)
	if v < 0 {
		return nil, errOf(v)
	}
	out := make([]byte, v)
	for i := range out {
		out[i] = 'x'
	}
	return out, nil
}

func (d *Dev) Shut() error {
	v := next()
	Trace = append(Trace, 4, id(d), v)
	return errOf(v)
}

// Kind is a query: it looks at the next answer without consuming it and leaves no trace.
func (d *Dev) Kind() (int, error) {
	if len(Script) == 0 {
		return 0, nil
	}
	return Script[0], errOf(Script[0])
}

func (d *Dev) Name() string { return "dev" }

type Putter interface {
	Put(b []byte) (int, error)
}

// Drain puts b in pieces of at most two bytes; it stops at the first error.
func Drain(p Putter, b []byte) (int, error) {
	n := 0
	for len(b) > 0 {
		k := 2
		if len(b) < k {
			k = len(b)
		}
		m, err := p.Put(b[:k])
		n += m
		if err != nil {
			return n, err
		}
		b = b[k:]
	}
	return n, nil
}

// Note has no effect on the world.
func Note(x any, f any) {}

// Gate is a value that is changed in place.
type Gate struct{ in int }

func (g *Gate) Enter() {
	if g.in > 2 {
		panic("gate full")
	}
	g.in++
}
func (g *Gate) Leave() {
	if g.in == 0 {
		panic("gate empty")
	}
	g.in--
}
func (g *Gate) In() int { return g.in }

// Package synthseg holds synthetic functions with effects whose pure segments exercise
// go2coq/segment.go and go2coq/ext.go; segment_test.go runs them as Go and evaluates their
// translation in coqc.
package synthseg

import (
	"encoding/hex"
	"errors"
	"fmt"
	"os"
	"strconv"
	"time"
)

type Box struct {
	dir string
	now func() time.Time
}

func NewBox(dir string, now func() time.Time) *Box { return &Box{dir: dir, now: now} }

type Rec struct {
	ID [4]byte
	N  int64
	At time.Time
}

type myErr struct{ Err error }

func (e *myErr) Error() string { return "myErr" }

// Parse: an effect, a pure segment (checked index and slice expressions, an array written by
// hex.Decode through buf[:], array comparison, a loop, strconv.ParseInt into an int64, int64
// comparisons, a local function constant that builds the failure result with &myErr{...}), an
// effect, and the construction of the result with a clock read.
func (b *Box) Parse(id [4]byte, line []byte) (Rec, error) {
	bad := func(reason error) (Rec, error) {
		return Rec{}, &myErr{Err: reason}
	}
	os.Getenv("SEG_BEFORE")
	if len(line) < 12 || line[8] != ' ' {
		return bad(errors.New("short"))
	}
	hexid, rest := line[:8], line[9:]
	var buf [4]byte
	if _, err := hex.Decode(buf[:], hexid); err != nil {
		return bad(fmt.Errorf("id: %v", err))
	} else if buf != id {
		return bad(errors.New("mismatch"))
	}
	i := 0
	for i < len(rest) && rest[i] == ' ' {
		i++
	}
	n, err := strconv.ParseInt(string(rest[i:]), 10, 64)
	if err != nil {
		return bad(err)
	} else if n < 0 || n >= 1000 {
		return bad(errors.New("range"))
	}
	os.Setenv("SEG_AFTER", b.dir)
	return Rec{buf, n, b.now()}, nil
}

// Sweep: a segment at the start of a loop body (continue, an outer variable assigned, a
// variable declared for what follows, fmt.Sprintf with arguments of four kinds) and the
// condition of the if statement that guards an effect (durations compared with constants).
func (b *Box) Sweep(names []string, tag int64, limit, age time.Duration) int {
	k := 0
	for _, name := range names {
		if len(name) < 2 || name[0] == '.' {
			continue
		}
		k++
		label := fmt.Sprintf("%s|%c|%v|%c", name, name[1], k > 1, tag)
		err := os.Setenv("SEG_LABEL", label)
		if err == nil && age > limit && age < 2*time.Hour {
			os.Unsetenv("SEG_LABEL")
		}
	}
	return k
}

// Path: a whole method as a segment (receiver read through the pointer).
func (b *Box) Path(id [4]byte, key string) string {
	return b.dir + "/" + fmt.Sprintf("%s|%c|%v|%c", key, id[0], len(key) > 1, int64(65))
}

// Stamp: a one-statement segment selected by From/Through, with the package clock as input.
func Stamp(name string) error {
	line := name + ":" + strconv.FormatInt(time.Now().UnixNano(), 10)
	return os.Setenv("SEG_STAMP", line)
}

// Package synth is test input for the translator: small functions that exercise the
// constructs of the supported subset.  go2coq_test.go runs them as Go and, translated,
// as Gallina, and compares the results.
package synth

import (
	"bytes"
	"errors"
	"os"
	"path"
)

// P is a struct with a table entry.
type P struct {
	Name string
	N    int
}

// three-clause loop, else-if chain, continue, break, ++, +=, --
func CountAB(data []byte) (int, int) {
	a, b := 0, 0
	for i := 0; i < len(data); i++ {
		if data[i] == 'a' {
			a++
			continue
		} else if data[i] == 'b' {
			b += 2
		} else {
			if data[i] == 'z' {
				break
			}
		}
		b--
	}
	return a, b
}

// range with index, nested while-style loop with a condition that can panic
func Runs(data []byte) int {
	n := 0
	for i, c := range data {
		j := i
		for j > 0 && data[j-1] == c {
			j--
		}
		if j == i {
			n++
		}
	}
	return n
}

// return from a nested if inside a loop; the body changes the loop variable
func FindPair(data []byte, x, y byte) (int, bool) {
	for i := 0; i+1 < len(data); i++ {
		if data[i] == x {
			if data[i+1] == y {
				return i, true
			}
			i++
		}
	}
	return -1, false
}

// parallel assignment, string comparison and concatenation
func Swap(a, b string) string {
	a, b = b, a
	if a == b {
		return a
	}
	return a + "-" + b
}

// struct literal with keys, field assignment, slice expression that can panic
func MkP(s string, cut int) P {
	p := P{Name: s}
	p.N = len(s)
	if p.N > cut {
		p.Name = s[:cut]
	}
	return p
}

// named results, bare return, break out of a range loop, append
func Upto(data []byte, stop byte) (out []byte, found bool) {
	for _, c := range data {
		if c == stop {
			found = true
			break
		}
		out = append(out, c)
	}
	return
}

// index out of range
func At(data []byte, i int) byte { return data[i] }

// && whose right operands can panic
func Safe(data []byte, i int) bool { return i >= 0 && i < len(data) && data[i] == 'x' }

// a loop that needs more iterations than a small bound; calls another function with a loop
func Sum(data []byte) int {
	s := 0
	i := 0
	for i < len(data) {
		a, _ := CountAB(data[i:])
		s += a
		i++
	}
	return s
}

// if/else both assigning, an inner block, shadowing
func Shadow(data []byte) int {
	x := 1
	if len(data) > 2 {
		x := 10
		{
			x := x + 5
			_ = x
		}
		x++
		_ = x
	} else {
		x = 7
	}
	if i := bytes.IndexByte(data, 'q'); i >= 0 {
		x += i
	} else if i < -5 {
		x = 0
	} else {
		x -= 1
	}
	return x
}

// make, copy, element stores in a loop, byte comparison
func Upper(data []byte) []byte {
	d := make([]byte, len(data))
	copy(d, data)
	for i := 0; i < len(d); i++ {
		if 'a' <= d[i] && d[i] <= 'z' {
			d[i] = 'A'
		}
	}
	return d
}

// continue in a range loop, a loop inside an if, and code after the loops
func Mixed(data []byte, k int) (int, []byte) {
	var acc []byte
	n := 0
	if k > 0 {
		for _, c := range data {
			if c == ' ' {
				continue
			}
			acc = append(acc, c)
			if len(acc) >= k {
				return n, acc
			}
		}
		n = 100
	}
	for j := 0; j < 3; j++ {
		n += j
	}
	return n + len(acc), acc
}

// maps that are only read: present, absent and literal keys, two value types
func Lookup(k string, m map[string]bool, n map[string]int) int {
	r := 0
	if m[k] {
		r += 1
	}
	if m["x"] && !m[k+"x"] {
		r += 2
	}
	if n[k] > 1 {
		r += n[k]
	}
	return r
}

// a function that calls itself twice on shorter strings; || and && whose operands can panic
func Balanced(s string, m map[string]bool) bool {
	if s == "" {
		return false
	}
	if i := bytes.IndexByte([]byte(s), ','); i >= 0 {
		a := Balanced(s[:i], m)
		b := Balanced(s[i+1:], m)
		return a && b
	}
	return len(s) > 1 && m[s[1:]] || m[s]
}

// recursion on an int: the depth is the argument
func Tri(n int) int {
	if n <= 0 {
		return 0
	}
	return n + Tri(n-1)
}

// a loop that calls a recursive function
func SumTri(n int) int {
	s := 0
	for i := 0; i < n; i++ {
		s += Tri(i)
	}
	return s
}

// range over a string: byte offsets and runes, invalid UTF-8, continue and break
func Runes(s string) (int, int, int) {
	n, pos, bad := 0, 0, 0
	for i, c := range s {
		if c == 0xFFFD {
			bad++
			continue
		}
		if c == '!' {
			break
		}
		if c >= 0x80 && c != 'é' {
			pos += i
		}
		n++
	}
	return n, pos, bad
}

// range over a string with the rune only, early return
func Plain(s string) bool {
	for _, c := range s {
		if c != '_' && (c < 'a' || c > 'z') {
			return false
		}
	}
	return true
}

// slices of strings: len, index, slice, range with index, comparison of elements
func Words(l []string, i int) (string, int) {
	if n := len(l); n > 0 && l[n-1] == "test" {
		l = l[:n-1]
	}
	k := 0
	for j, w := range l[1:] {
		if w == l[0] {
			k += j + 1
		}
	}
	return l[i], k
}

// range over an int, with and without the variable
func AllHex(s string) bool {
	for i := range len(s) {
		c := s[i]
		if '0' <= c && c <= '9' || 'a' <= c && c <= 'f' {
			continue
		}
		return false
	}
	return true
}

func CountDown(n int) int {
	t := 0
	for i := range n {
		t += i
	}
	for range 3 {
		t++
	}
	return t
}

// a function that goes on with effects: the statements in front of the first effect are
// translated on their own (Config.Prefixes); a variadic library call; an error constructor
func Store(dir, name string) error {
	fp := name
	if len(fp) > 0 && fp[0] == '/' || fp == ".." {
		return errors.New("outside: " + name)
	}
	fp = path.Join(dir, fp)
	if err := os.Setenv("GO2COQ_SYNTH_STORE", fp); err != nil {
		return err
	}
	return nil
}

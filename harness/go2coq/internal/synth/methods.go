package synth

// Test input for harness/go2coq/methods.go: methods with a pointer receiver of which only
// some fields are denoted, state passing, a map that is read and written, a call that does not
// return, function literals handed to a library function.  methods_test.go runs them as Go
// and, translated, as Gallina, and compares what can be observed.

import (
	"errors"
	"sort"
)

// M: the table denotes Log, Tab and N only.
type M struct {
	hidden chan int
	Log    []string
	Tab    map[string]string
	N      int
	other  *M
}

// Stop is what Fatal panics with.
var Stop = errors.New("stop")

func norm(k string) string {
	if len(k) > 0 && k[0] == '+' {
		return k[1:]
	}
	return k
}

// a method that only reads the receiver: a map index through a function of the package
func (m *M) Get(k string) string { return m.Tab[norm(k)] }

// a method that changes the receiver: append to an owned field, map store, ++ on a field
func (m *M) Put(k, v string) {
	m.Log = append(m.Log, k+"="+v)
	m.Tab[norm(k)] = v
	m.N++
}

// make of a map, assignment of nil to the append target
func (m *M) Reset() {
	m.Tab = make(map[string]string)
	m.Log = nil
	m.N = 0
}

// a changing method called as a statement inside a range loop and an if; results and state
func (m *M) PutAll(kvs []string) (int, string) {
	c := 0
	last := ""
	for _, kv := range kvs {
		i := -1
		for j := 0; j < len(kv); j++ {
			if kv[j] == '=' {
				i = j
				break
			}
		}
		if i < 0 {
			last = m.Get(kv)
			continue
		}
		m.Put(kv[:i], kv[i+1:])
		c++
	}
	return c, last
}

// a changing method with results called as the right-hand side of an assignment
func (m *M) Twice(kvs []string) int {
	a, _ := m.PutAll(kvs)
	b, s := m.PutAll(kvs)
	if s != "" {
		m.N += 100
	}
	return a + b
}

// Fatal does not return.
func (m *M) Fatal(msg string) {
	m.N = -1
	panic(Stop)
}

// a no-return call inside an if inside a loop; a normal return after it
func (m *M) Need(keys []string) string {
	out := ""
	for i := 0; i < len(keys); i++ {
		v := m.Get(keys[i])
		if v == "" {
			m.Fatal("missing after " + out)
		}
		out += v
		m.N++
	}
	return out
}

// a no-return call in a function without receiver changes, at the top level of the body
func (m *M) Must(k string) string {
	if m.Tab[k] == "" {
		m.Fatal("missing")
	}
	return m.Tab[k]
}

// a function literal that captures a parameter and can panic, handed to a library function
func FirstAtLeast(xs []byte, c byte, n int) int {
	return sort.Search(n, func(i int) bool { return xs[i] >= c })
}

// a function literal that reads the receiver through a method, with an if and two returns
func (m *M) FirstUnknown(keys []string) int {
	k := sort.Search(len(keys), func(i int) bool {
		if w := keys[i]; w != "" {
			return m.Get(w) == ""
		}
		return true
	})
	return k + m.N
}

// a local map that is read and written
func Distinct(ws []string) int {
	seen := make(map[string]string)
	n := 0
	for _, w := range ws {
		if seen[w] == "" {
			seen[w] = "x"
			n++
		}
	}
	return n
}

// Note leaves the denoted fields alone (it writes to a field the table does not name).
func (m *M) Note(format string, args ...any) {
	m.hidden = nil
	if m.other != nil {
		m.other.Note(format)
	}
}

// calls of a frame method: the arguments are evaluated (they can panic), nothing else happens
func (m *M) Tell(keys []string, i int) int {
	m.Note("first %s", keys[i])
	if m.Get(keys[i]) == "" {
		m.Note("%s=%s", keys[i], m.Tab[keys[i]])
		return 0
	}
	m.Put(keys[i], "seen")
	m.Note("done")
	return len(keys)
}

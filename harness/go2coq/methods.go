package go2coq

// Methods with a pointer receiver, maps that are written, calls that do not return, and
// function literals handed to library functions.  Vocabulary: coq/theories/Lib/GoSemState.v.
//
// Denotation
//
//	A method  func (x *T) m(params) R  of a struct type T with a table entry (Config.Structs,
//	possibly Partial: a record of exactly the fields the translated methods touch; any other
//	field access is Unsupported) is named "T.m" in Config.Funcs and becomes
//	  Definition <prefix>T_m [fuel] (v_x : CoqT) params : res R'
//	where v_x is the value of *x when the method is entered (x is assumed not to be nil: a nil
//	receiver would make the first field access panic).  If the method, or a translated method
//	it calls on x, assigns a field of x, the state is passed on: R' = CoqT (no results) or
//	(CoqT * R), the value of *x when the method returns, then its results.  Inside the body x
//	is an ordinary assigned variable of type CoqT: x.f = e rebinds it, loops and ifs carry it.
//	A call x.m(args) of a translated method on the receiver itself is the call of its
//	Definition with the current value of x as first argument; of a method that changes x only
//	as a statement  x.m(args)  or as the single right-hand side  a, b := x.m(args)  (so that
//	no other operand can observe the order of the change), and it rebinds x.
//
//	Config.NoReturn names functions / methods ("f", "T.m") that never return normally (they
//	panic with a sentinel that a caller further up recovers).  Checked here: the declaration
//	ends in a call of the built-in panic and contains no return statement and no recover.
//	A call statement of such a function ends the translated function like a return of the
//	distinguished value Failed: the result type of a function that contains one is
//	res (exit R') with  Done r  for a normal return of r  (GoSemState.exit).  Failed is not
//	Go's run-time panic (res.Panic): it is the callee's orderly "this cannot go on".  The
//	arguments of the call must be pure (they only make the message).  What the no-return
//	function did to the receiver before it left is not represented (Failed carries no state).
//	A translated function that can fail may not be called by another translated function.
//
//	A map type listed in Config.RefMaps (types.TypeString of the type, string keys) is read
//	AND written and may be nil: it is  mapref V = option (list (bytes * V))  -- None the nil
//	map, Some l the bindings, newest first.  m[k] is go_mapref_get zero m k (absent key or
//	nil map: the zero value), m[k] = v is go_mapref_set m k v (Panic on the nil map, as in
//	Go), make(map[string]V) is go_mapref_make.  (data.go has the lighter denotation gomap for
//	a local map that a function makes itself; RefMaps is for maps that live in the receiver
//	across calls, where "was it made?" matters, and takes precedence for the listed types.)
//	Go's maps are references; the value semantics is sound because such a map is never
//	copied: checked per translated function (a map-valued expression occurs only as the
//	operand of an index expression, or as make(...) assigned to the variable or field), and
//	for a map held in a field of a Partial struct, checked on every file of the package (the
//	field is selected only to be indexed or to be assigned make(...)).  In  m[f(a)] = g(b)
//	the operands of g are bound before those of f: both orders fail if either fails, but
//	which of Panic / OutOfFuel is reported may differ from Go's order.
//
//	Config.Frame names methods ("T.m") that leave the denoted fields of the receiver alone and
//	whose results are not used: a call statement x.m(args) on the receiver evaluates its
//	arguments (they may panic) and is otherwise dropped -- what the method does elsewhere (a
//	log, a file) is outside the denoted state.  Checked here on the method's declaration: it
//	assigns no denoted field of its receiver, takes the address of none, does not hand the
//	receiver itself to anything, and calls on it only methods that are Frame themselves.
//
//	Function literals handed to library functions are data.go's (funcLit).  Added here: inside
//	a literal a translated function or method may be called if it neither changes the
//	receiver nor can end in a no-return call; a no-return call inside a literal is refused.
//
//	Config.Structs[...].Owned lists slice fields of a receiver to which  x.f = append(x.f, ...)
//	is allowed although the field does not start empty in the method: the new value of the
//	field is exact; that no other live slice shares the spare capacity of its backing array
//	(so that nobody can observe the store) is the table's claim.  Without the entry such an
//	append is Unsupported.

import (
	"fmt"
	"go/ast"
	"go/token"
	"go/types"
	"strings"
)

// methodKey: the name under which a method is kept in decls / Funcs / needFuel: T_m.
func methodKey(recv, name string) string { return recv + "_" + name }

// normaliseName: "T.m" of the table -> "T_m".
func normaliseName(n string) string { return strings.Replace(n, ".", "_", 1) }

// normaliseFuncs returns a copy of cfg in which method names have their internal form.
func normaliseFuncs(cfg *Config) *Config {
	c := *cfg
	c.Funcs = nil
	for _, n := range cfg.Funcs {
		c.Funcs = append(c.Funcs, normaliseName(n))
	}
	c.NoReturn = nil
	for _, n := range cfg.NoReturn {
		c.NoReturn = append(c.NoReturn, normaliseName(n))
	}
	c.Frame = nil
	for _, n := range cfg.Frame {
		c.Frame = append(c.Frame, normaliseName(n))
	}
	return &c
}

// recvTypeName: the name of the receiver's base type, and whether the receiver is a pointer.
func recvTypeName(fd *ast.FuncDecl) (string, bool) {
	if fd.Recv == nil || len(fd.Recv.List) != 1 {
		return "", false
	}
	e := fd.Recv.List[0].Type
	ptr := false
	if s, ok := e.(*ast.StarExpr); ok {
		e, ptr = s.X, true
	}
	if id, ok := e.(*ast.Ident); ok {
		return id.Name, ptr
	}
	return "", false
}

// addMethod registers a method declaration that the table names (translated or no-return).
func (t *translator) addMethod(fd *ast.FuncDecl) {
	tn, _ := recvTypeName(fd)
	if tn == "" {
		return
	}
	key := methodKey(tn, fd.Name.Name)
	if !inSet(t.cfg.Funcs, key) && !inSet(t.cfg.NoReturn, key) && !inSet(t.cfg.Frame, key) {
		return
	}
	if _, dup := t.decls[key]; dup {
		t.fail(fd, "method %s.%s and a function %s both exist", tn, fd.Name.Name, key)
	}
	t.decls[key] = fd
}

// methodCallee: the key of the method of this package that a call x.m(...) invokes, "" if
// the call is not of that form or the method is not in decls.
func (t *translator) methodCallee(call *ast.CallExpr) string {
	sel, ok := ast.Unparen(call.Fun).(*ast.SelectorExpr)
	if !ok {
		return ""
	}
	fn, ok := t.info.Uses[sel.Sel].(*types.Func)
	if !ok || fn.Pkg() != t.pkg {
		return ""
	}
	sig, ok := fn.Type().(*types.Signature)
	if !ok || sig.Recv() == nil {
		return ""
	}
	T := sig.Recv().Type()
	if p, ok := types.Unalias(T).(*types.Pointer); ok {
		T = p.Elem()
	}
	n, ok := types.Unalias(T).(*types.Named)
	if !ok {
		return ""
	}
	key := methodKey(n.Obj().Name(), fn.Name())
	if fd := t.decls[key]; fd != nil && fd.Recv != nil {
		return key
	}
	return ""
}

// funcKey: the key of a declared function or method.
func funcKey(fd *ast.FuncDecl) string {
	if fd.Recv == nil {
		return fd.Name.Name
	}
	tn, _ := recvTypeName(fd)
	return methodKey(tn, fd.Name.Name)
}

// recvVar: the receiver variable of a method declaration (nil: none, or unnamed).
func (t *translator) recvVar(fd *ast.FuncDecl) *types.Var {
	if fd.Recv == nil || len(fd.Recv.List) != 1 || len(fd.Recv.List[0].Names) != 1 {
		return nil
	}
	v, _ := t.info.Defs[fd.Recv.List[0].Names[0]].(*types.Var)
	return v
}

// rootIdent: the identifier an assignable expression x, x.f, x[i], x.f[i] stores into.
func rootIdent(e ast.Expr) *ast.Ident {
	for {
		switch x := e.(type) {
		case *ast.ParenExpr:
			e = x.X
		case *ast.SelectorExpr:
			e = x.X
		case *ast.IndexExpr:
			e = x.X
		case *ast.Ident:
			return x
		default:
			return nil
		}
	}
}

// mutatesRecv: the method named key assigns a field of its receiver, directly or through a
// translated method it calls on it.
func (t *translator) mutatesRecv(key string) bool {
	if t.mutates == nil {
		t.mutates = map[string]int{}
	}
	switch t.mutates[key] {
	case 1:
		return true
	case 2, 3: // 3: being computed (a recursive call adds nothing)
		return false
	}
	if inSet(t.cfg.Frame, key) {
		return false // checked by checkFrame
	}
	t.mutates[key] = 3
	fd := t.decls[key]
	res := false
	if fd != nil && fd.Recv != nil && fd.Body != nil {
		rv := t.recvVar(fd)
		isRecv := func(e ast.Expr) bool {
			id := rootIdent(e)
			return id != nil && rv != nil && t.info.Uses[id] == types.Object(rv)
		}
		ast.Inspect(fd.Body, func(n ast.Node) bool {
			switch s := n.(type) {
			case *ast.AssignStmt:
				for _, l := range s.Lhs {
					if isRecv(l) {
						res = true
					}
				}
			case *ast.IncDecStmt:
				if isRecv(s.X) {
					res = true
				}
			case *ast.CallExpr:
				if c := t.methodCallee(s); c != "" && c != key && !inSet(t.cfg.NoReturn, c) {
					if sel, ok := ast.Unparen(s.Fun).(*ast.SelectorExpr); ok && isRecv(sel.X) && t.mutatesRecv(c) {
						res = true
					}
				}
			}
			return !res
		})
	}
	if res {
		t.mutates[key] = 1
	} else {
		t.mutates[key] = 2
	}
	return res
}

// ---------------------------------------------------------------- calls that do not return

// curNoReturn is set while a translation runs: does this node (a statement) call a function
// of Config.NoReturn?  (hasJump and fallsThrough are plain functions.)
var curNoReturn func(n ast.Node) bool

func isNoReturnStmt(n ast.Node) bool { return curNoReturn != nil && curNoReturn(n) }

// noReturnCall: the key of the no-return function an expression statement calls, "".
func (t *translator) noReturnCall(n ast.Node) string {
	es, ok := n.(*ast.ExprStmt)
	if !ok {
		return ""
	}
	c, ok := ast.Unparen(es.X).(*ast.CallExpr)
	if !ok {
		return ""
	}
	key := t.methodCallee(c)
	if key == "" {
		if id, ok := ast.Unparen(c.Fun).(*ast.Ident); ok {
			if fn, ok := t.info.Uses[id].(*types.Func); ok && fn.Pkg() == t.pkg {
				key = fn.Name()
			}
		}
	}
	if key != "" && inSet(t.cfg.NoReturn, key) {
		return key
	}
	return ""
}

// checkNoReturn: every function of Config.NoReturn ends in panic(...) and cannot return.
func (t *translator) checkNoReturn() {
	for _, key := range t.cfg.NoReturn {
		fd := t.decls[key]
		if fd == nil || fd.Body == nil {
			t.fail(nil, "no-return function %s not found (or has no body)", key)
		}
		if inSet(t.cfg.Funcs, key) {
			t.fail(fd, "%s is both translated and declared no-return", key)
		}
		isBuiltin := func(e ast.Expr, name string) bool {
			c, ok := ast.Unparen(e).(*ast.CallExpr)
			if !ok {
				return false
			}
			id, ok := ast.Unparen(c.Fun).(*ast.Ident)
			if !ok {
				return false
			}
			b, ok := t.info.Uses[id].(*types.Builtin)
			return ok && b.Name() == name
		}
		n := len(fd.Body.List)
		last, ok := (ast.Stmt)(nil), false
		if n > 0 {
			last = fd.Body.List[n-1]
		}
		if es, isES := last.(*ast.ExprStmt); isES && isBuiltin(es.X, "panic") {
			ok = true
		}
		if !ok {
			t.fail(fd, "no-return function %s does not end in a call of panic", key)
		}
		ast.Inspect(fd.Body, func(n ast.Node) bool {
			switch x := n.(type) {
			case *ast.FuncLit:
				return false
			case *ast.ReturnStmt:
				t.fail(x, "no-return function %s contains a return statement", key)
			case *ast.CallExpr:
				if isBuiltin(x, "recover") {
					t.fail(x, "no-return function %s calls recover", key)
				}
			case *ast.BranchStmt:
				if x.Tok == token.GOTO {
					t.fail(x, "no-return function %s contains goto", key)
				}
			}
			return true
		})
	}
}

// checkFrame: every method of Config.Frame leaves the denoted fields of its receiver alone.
func (t *translator) checkFrame() {
	for _, key := range t.cfg.Frame {
		fd := t.decls[key]
		if fd == nil || fd.Body == nil || fd.Recv == nil {
			t.fail(nil, "frame method %s not found (or has no body)", key)
		}
		if inSet(t.cfg.Funcs, key) || inSet(t.cfg.NoReturn, key) {
			t.fail(fd, "%s is named twice in the table", key)
		}
		rv := t.recvVar(fd)
		if rv == nil {
			continue // an unnamed receiver cannot be used
		}
		T := rv.Type()
		if p, ok := types.Unalias(T).Underlying().(*types.Pointer); ok {
			T = p.Elem()
		}
		st, _, ok := t.structOf(T)
		if !ok {
			t.fail(fd, "frame method %s: the receiver type has no entry in the table of struct types", key)
		}
		denoted := func(name string) bool {
			for _, f := range st.Fields {
				if f.Go == name {
					return true
				}
			}
			return false
		}
		isRecv := func(e ast.Expr) bool {
			id, ok := ast.Unparen(e).(*ast.Ident)
			return ok && t.info.Uses[id] == types.Object(rv)
		}
		// the field of the receiver an expression x.f, x.f[i], x.f.g ... starts with
		var recvField func(e ast.Expr) string
		recvField = func(e ast.Expr) string {
			switch x := ast.Unparen(e).(type) {
			case *ast.SelectorExpr:
				if isRecv(x.X) {
					return x.Sel.Name
				}
				return recvField(x.X)
			case *ast.IndexExpr:
				return recvField(x.X)
			case *ast.StarExpr:
				return recvField(x.X)
			}
			return ""
		}
		var stack []ast.Node
		ast.Inspect(fd.Body, func(n ast.Node) bool {
			if n == nil {
				stack = stack[:len(stack)-1]
				return true
			}
			stack = append(stack, n)
			switch x := n.(type) {
			case *ast.AssignStmt:
				for _, l := range x.Lhs {
					if isRecv(l) {
						t.fail(l, "frame method %s assigns its receiver", key)
					}
					if f := recvField(l); f != "" && denoted(f) {
						t.fail(l, "frame method %s assigns the denoted field %s", key, f)
					}
				}
			case *ast.IncDecStmt:
				if f := recvField(x.X); f != "" && denoted(f) {
					t.fail(x, "frame method %s assigns the denoted field %s", key, f)
				}
			case *ast.UnaryExpr:
				if x.Op == token.AND {
					if f := recvField(x.X); f != "" && denoted(f) {
						t.fail(x, "frame method %s takes the address of the denoted field %s", key, f)
					}
				}
			case *ast.Ident:
				if t.info.Uses[x] != types.Object(rv) {
					return true
				}
				// the receiver itself: only as x.f or as the receiver of a frame method
				p := ast.Node(nil)
				for k := len(stack) - 2; k >= 0; k-- {
					if _, ok := stack[k].(*ast.ParenExpr); !ok {
						p = stack[k]
						break
					}
				}
				sel, ok := p.(*ast.SelectorExpr)
				if !ok || ast.Unparen(sel.X) != ast.Expr(x) {
					t.fail(x, "frame method %s uses its receiver other than to select a field or call a method", key)
				}
				if s := t.info.Selections[sel]; s != nil && s.Kind() == types.MethodVal {
					callee := methodKey(types.Unalias(T).(*types.Named).Obj().Name(), sel.Sel.Name)
					if !inSet(t.cfg.Frame, callee) {
						t.fail(sel, "frame method %s calls %s on its receiver, which is not a frame method", key, sel.Sel.Name)
					}
				} else if denoted(sel.Sel.Name) {
					// a denoted field may be read; a slice or map held there must not be handed on
					T2 := t.info.Types[sel].Type
					switch t.kindOf(T2) {
					case kInt, kByte, kBool, kString, kRune:
					default:
						q := ast.Node(nil)
						for k := len(stack) - 3; k >= 0; k-- {
							if _, ok := stack[k].(*ast.ParenExpr); !ok {
								q = stack[k]
								break
							}
						}
						if ix, ok := q.(*ast.IndexExpr); !ok || ast.Unparen(ix.X) != ast.Expr(sel) {
							t.fail(sel, "frame method %s uses the denoted field %s other than to read an element", key, sel.Sel.Name)
						}
					}
				}
			}
			return true
		})
	}
}

// mayFail: the body of the function named key contains a no-return call (outside literals).
func (t *translator) mayFail(key string) bool {
	fd := t.decls[key]
	if fd == nil || fd.Body == nil {
		return false
	}
	found := false
	ast.Inspect(fd.Body, func(n ast.Node) bool {
		if _, ok := n.(*ast.FuncLit); ok {
			return false
		}
		if n != nil && t.noReturnCall(n) != "" {
			found = true
		}
		return !found
	})
	return found
}

// failStmt: the statement s calls a no-return function.
func (ft *funcTr) failStmt(s ast.Stmt, m mode, ind string) string {
	t := ft.t
	if ft.inLit > 0 {
		t.fail(s, "call of a no-return function inside a function literal")
	}
	c := ast.Unparen(s.(*ast.ExprStmt).X).(*ast.CallExpr)
	for _, a := range c.Args {
		if ft.segPureFieldRead(a) { // segfail.go
			continue
		}
		if !ft.pureExpr(a) {
			t.fail(a, "argument of the no-return function %s that can panic or has an effect", t.noReturnCall(s))
		}
	}
	if sel, ok := ast.Unparen(c.Fun).(*ast.SelectorExpr); ok {
		ft.checkOnRecv(sel)
	}
	if t.cfg.FailMsgs { // segfail.go
		switch m.kind {
		case mTail:
			return ind + "Ok " + ft.failedTerm(c) + "\n"
		case mOut:
			return ind + "Ok (Return " + ft.failedTerm(c) + ")\n"
		}
	}
	switch m.kind {
	case mTail:
		return ind + "Ok Failed\n"
	case mOut:
		return ind + "Ok (Return Failed)\n"
	}
	t.fail(s, "internal: no-return call in a jump-free block")
	return ""
}

// ---------------------------------------------------------------- receivers and results

// checkOnRecv: the method call sel.X.m(...) is on the receiver variable of this function.
func (ft *funcTr) checkOnRecv(sel *ast.SelectorExpr) {
	if ft.segRecvOK(sel) { // segfail.go
		return
	}
	id, ok := ast.Unparen(sel.X).(*ast.Ident)
	if !ok || ft.recv == nil || ft.t.info.Uses[id] != types.Object(ft.recv) {
		ft.t.fail(sel, "call of method %s on something other than the receiver of the translated method", sel.Sel.Name)
	}
}

// setupMethod is called by function() once ft exists: the receiver, what the function
// returns besides its results.
func (ft *funcTr) setupMethod() {
	t := ft.t
	fd := ft.fd
	key := funcKey(fd)
	ft.fails = t.mayFail(key)
	if fd.Recv == nil {
		return
	}
	ft.name = key
	_, ptr := recvTypeName(fd)
	rv := t.recvVar(fd)
	if !ptr || rv == nil {
		t.fail(fd, "method %s: only named pointer receivers are supported", fd.Name.Name)
	}
	if t.kindOf(rv.Type()) != kPtrStruct {
		t.fail(fd, "method %s: the receiver type %s has no entry in the table of struct types", fd.Name.Name, rv.Type())
	}
	ft.recv = rv
	ft.mut = t.mutatesRecv(key)
}

// recvBinder: the binder of the receiver, "" for a function.
func (ft *funcTr) recvBinder() string {
	if ft.recv == nil {
		return ""
	}
	return fmt.Sprintf("(%s : %s)", ft.declare(ft.recv), ft.t.coqType(ft.fd, ft.recv.Type()))
}

// wrapType: the Coq result type, given the type R of the Go results.
func (ft *funcTr) wrapType(R string) string {
	if ft.inLit > 0 {
		return R
	}
	if ft.mut {
		T := ft.t.coqType(ft.fd, ft.recv.Type())
		if ft.sig.Results().Len() == 0 {
			R = T
		} else {
			R = "(" + T + " * " + R + ")%type"
		}
	}
	if ft.fails && ft.t.cfg.FailMsgs { // segfail.go
		return "(exitm " + R + ")"
	}
	if ft.fails {
		R = "(exit " + R + ")"
	}
	return R
}

// wrapRet: the value a return statement yields, given the term val of the Go results.
func (ft *funcTr) wrapRet(val string) string {
	if ft.inLit > 0 {
		return val
	}
	if ft.t.cfg.StatePassing {
		return ft.stateReturn(val) // state.go
	}
	if ft.segState() && ft.fails && ft.t.cfg.FailMsgs {
		return "(DoneM " + ft.stateReturn(val) + ")" // segfail.go: state and no-return calls
	}
	if ft.segState() {
		return ft.stateReturn(val) // segstate.go
	}
	if ft.mut {
		if ft.sig.Results().Len() == 0 {
			val = ft.names[ft.recv]
		} else {
			val = "(" + ft.names[ft.recv] + ", " + val + ")"
		}
	}
	if ft.fails && ft.t.cfg.FailMsgs { // segfail.go
		return "(DoneM " + val + ")"
	}
	if ft.fails {
		val = "(Done " + val + ")"
	}
	return val
}

// methodCallTerm: the call c of the translated method key (on the receiver) as a term, with
// the bindings of its arguments.
func (ft *funcTr) methodCallTerm(c *ast.CallExpr, key string) ([]pre, string) {
	t := ft.t
	sel := ast.Unparen(c.Fun).(*ast.SelectorExpr)
	ft.checkOnRecv(sel)
	if !inSet(t.cfg.Funcs, key) {
		t.fail(c, "call of %s, which is not among the translated functions", key)
	}
	if t.mayFail(key) {
		t.fail(c, "call of %s, which can end in a no-return call", key)
	}
	sig := t.info.Types[c.Fun].Type.(*types.Signature)
	if sig.Variadic() || len(c.Args) != sig.Params().Len() {
		t.fail(c, "call of %s with a different number of arguments than parameters", key)
	}
	var pres []pre
	parts := []string{t.cfg.Prefix + key}
	if t.needFuel[key] {
		parts = append(parts, "fuel")
	}
	parts = append(parts, ft.names[ft.recv])
	for i, a := range c.Args {
		p, v := ft.expr(a, sig.Params().At(i).Type())
		pres = append(pres, p...)
		parts = append(parts, v)
	}
	return pres, strings.Join(parts, " ")
}

// methodCallExpr: a call of a translated method in expression position.
func (ft *funcTr) methodCallExpr(c *ast.CallExpr, key string) ([]pre, string) {
	if ft.t.mutatesRecv(key) {
		ft.t.fail(c, "call of %s, which changes the receiver, inside an expression (supported: as a statement, or as the only right-hand side of an assignment)", key)
	}
	pres, term := ft.methodCallTerm(c, key)
	tmp := ft.temp()
	return append(pres, pre{tmp, term}), tmp
}

// mutatingCall: e is a call of a translated method that changes the receiver.
func (ft *funcTr) mutatingCall(e ast.Expr) (*ast.CallExpr, string) {
	c, ok := ast.Unparen(e).(*ast.CallExpr)
	if !ok {
		return nil, ""
	}
	if key := ft.t.methodCallee(c); key != "" && inSet(ft.t.cfg.Funcs, key) && ft.t.mutatesRecv(key) {
		return c, key
	}
	return nil, ""
}

// callStmt: the expression statement s, if it is a call of a translated method.
func (ft *funcTr) callStmt(s *ast.ExprStmt, ind string) (string, bool) {
	t := ft.t
	c, ok := ast.Unparen(s.X).(*ast.CallExpr)
	if !ok {
		return "", false
	}
	key := t.methodCallee(c)
	if key != "" && inSet(t.cfg.Frame, key) {
		// the method leaves the denoted state alone: only its arguments are evaluated
		ft.checkOnRecv(ast.Unparen(c.Fun).(*ast.SelectorExpr))
		if c.Ellipsis.IsValid() {
			t.fail(c, "call of %s with ... argument", key)
		}
		var pres []pre
		for _, a := range c.Args {
			p, _ := ft.expr(a, nil)
			pres = append(pres, p...)
		}
		return binds(pres, ind), true
	}
	if key == "" || !inSet(t.cfg.Funcs, key) {
		return "", false
	}
	if ft.inLit > 0 && t.mutatesRecv(key) {
		t.fail(c, "call of %s, which changes the receiver, inside a function literal", key)
	}
	pres, term := ft.methodCallTerm(c, key)
	sig := t.info.Types[c.Fun].Type.(*types.Signature)
	pat := "_"
	if t.mutatesRecv(key) {
		pat = ft.names[ft.recv]
		if sig.Results().Len() > 0 {
			pat = "'(" + pat + ", _)"
		}
	}
	return binds(pres, ind) + fmt.Sprintf("%s%s <- %s ;;\n", ind, pat, term), true
}

// assignFromMutating: lhs... = x.m(args) where m changes the receiver.
func (ft *funcTr) assignFromMutating(n ast.Node, lhs, rhs []ast.Expr, ind string) (string, bool) {
	t := ft.t
	if len(rhs) != 1 || t.cfg.StatePassing { // state.go: the call is bound like any other
		return "", false
	}
	c, key := ft.mutatingCall(rhs[0])
	if c == nil {
		return "", false
	}
	if ft.inLit > 0 {
		t.fail(c, "call of %s, which changes the receiver, inside a function literal", key)
	}
	sig := t.info.Types[c.Fun].Type.(*types.Signature)
	if sig.Results().Len() != len(lhs) {
		t.fail(n, "assignment from %s with a different number of left operands than results", key)
	}
	pres, term := ft.methodCallTerm(c, key)
	var pats, later []string
	for i, l := range lhs {
		if id, ok := ast.Unparen(l).(*ast.Ident); ok && id.Name == "_" {
			pats = append(pats, "_")
			continue
		}
		if _, ok := ast.Unparen(l).(*ast.IndexExpr); ok {
			t.fail(n, "element store in an assignment from a method call")
		}
		if id := rootIdent(l); id != nil && t.info.Uses[id] == types.Object(ft.recv) {
			t.fail(n, "assignment of the result of %s to a field of the receiver it changes", key)
		}
		tmp := ft.temp()
		pats = append(pats, tmp)
		later = append(later, ft.store(n, lhs[i], tmp, ind))
	}
	var b strings.Builder
	b.WriteString(binds(pres, ind))
	pat := strings.Join(pats, ", ")
	if len(pats) > 1 {
		pat = "(" + pat + ")" // the results of the method are the second component
	}
	fmt.Fprintf(&b, "%s'(%s, %s) <- %s ;;\n", ind, ft.names[ft.recv], pat, term)
	for _, l := range later {
		b.WriteString(l)
	}
	return b.String(), true
}

// assignedByCalls: receiver variables that calls inside n change (for the analysis assigned).
func (ft *funcTr) assignedByCall(c *ast.CallExpr) ast.Expr {
	key := ft.t.methodCallee(c)
	if key == "" || !inSet(ft.t.cfg.Funcs, key) || !ft.t.mutatesRecv(key) {
		return nil
	}
	sel := ast.Unparen(c.Fun).(*ast.SelectorExpr)
	if id, ok := ast.Unparen(sel.X).(*ast.Ident); ok {
		return id
	}
	return nil
}

// ---------------------------------------------------------------- partial structs

// partialStruct: the table entry s lists a subset of the fields of st; the result is a
// struct type of exactly those fields, in the order of the table.
func (t *translator) partialStruct(s Struct, named *types.Named, st *types.Struct) (Struct, *types.Struct, bool) {
	if t.partial == nil {
		t.partial = map[*types.Named]*types.Struct{}
	}
	if ps, ok := t.partial[named]; ok {
		return s, ps, true
	}
	var vars []*types.Var
	for _, f := range s.Fields {
		var fv *types.Var
		for i := 0; i < st.NumFields(); i++ {
			if st.Field(i).Name() == f.Go {
				fv = st.Field(i)
			}
		}
		if fv == nil {
			t.fail(nil, "struct %s has no field %s (named in the table)", named.Obj().Name(), f.Go)
		}
		vars = append(vars, fv)
	}
	ps := types.NewStruct(vars, nil)
	t.partial[named] = ps
	t.checkMapFields(s, named, ps)
	return s, ps, true
}

// fieldGetter: the projection of the field a selector names.
func (ft *funcTr) fieldGetter(x *ast.SelectorExpr, st Struct, T types.Type) string {
	for _, f := range st.Fields {
		if f.Go == x.Sel.Name {
			return f.Getter
		}
	}
	ft.t.fail(x, "field %s of %s is not among the fields the table denotes", x.Sel.Name, T)
	return ""
}

// ---------------------------------------------------------------- maps that are written

func (t *translator) isRefMap(T types.Type) bool {
	if T == nil || len(t.cfg.RefMaps) == 0 {
		return false
	}
	m, ok := types.Unalias(T).Underlying().(*types.Map)
	if !ok {
		return false
	}
	return inSet(t.cfg.RefMaps, types.TypeString(m, nil))
}

func (ft *funcTr) isRefMapExpr(e ast.Expr) bool {
	tv, ok := ft.t.info.Types[e]
	return ok && ft.t.isRefMap(tv.Type)
}

func (t *translator) refMapElem(T types.Type) types.Type {
	return types.Unalias(T).Underlying().(*types.Map).Elem()
}

// mapIndex: m[k] on a map that is written.
func (ft *funcTr) refMapIndex(x *ast.IndexExpr) ([]pre, string) {
	t := ft.t
	XT := t.info.Types[x.X].Type
	if p, v, ok := ft.refMapLookup(x); ok { // segfail.go: v, ok := m[k]
		return p, v
	}
	if tvx, ok := t.info.Types[x]; ok {
		if _, isTuple := tvx.Type.(*types.Tuple); isTuple {
			t.fail(x, "map index with the second result (v, ok = m[k])")
		}
	}
	p1, base := ft.expr(x.X, nil)
	p2, idx := ft.expr(x.Index, types.Unalias(XT).Underlying().(*types.Map).Key())
	return append(p1, p2...), "(go_mapref_get " + t.zero(x, t.refMapElem(XT)) + " " + base + " " + idx + ")"
}

// mapStore: x.X[x.Index] = val on a map that is written.
func (ft *funcTr) refMapStore(n ast.Node, x *ast.IndexExpr, val string, ind string) string {
	t := ft.t
	XT := t.info.Types[x.X].Type
	switch ast.Unparen(x.X).(type) {
	case *ast.Ident, *ast.SelectorExpr:
	default:
		t.fail(x, "store into a map that is not a variable or a field of one")
	}
	p1, base := ft.expr(x.X, nil)
	p2, idx := ft.expr(x.Index, types.Unalias(XT).Underlying().(*types.Map).Key())
	tmp := ft.temp()
	return binds(append(p1, p2...), ind) + fmt.Sprintf("%s%s <- go_mapref_set %s %s %s ;;\n", ind, tmp, base, idx, val) +
		ft.store(n, x.X, tmp, ind)
}

// checkMapUses: inside root, a map that is written is never copied: every expression of such
// a type is the operand of an index expression, the left-hand side of an assignment from
// make(...), that make(...) itself, or a declaration  var m = make(...) / m := make(...).
func (ft *funcTr) checkMapUses() {
	t := ft.t
	if len(t.cfg.RefMaps) == 0 {
		return
	}
	isMake := func(e ast.Expr) bool {
		c, ok := ast.Unparen(e).(*ast.CallExpr)
		return ok && ft.builtin(c) == "make"
	}
	ast.Inspect(ft.root, func(n ast.Node) bool {
		e, ok := n.(ast.Expr)
		if !ok {
			return true
		}
		var T types.Type
		if tv, ok := t.info.Types[e]; ok && !tv.IsType() {
			T = tv.Type
		} else if id, ok := e.(*ast.Ident); ok {
			if o := t.info.Defs[id]; o != nil {
				T = o.Type()
			}
		}
		if !t.isRefMap(T) {
			return true
		}
		p := ft.parents[e]
		for {
			if pe, ok := p.(*ast.ParenExpr); ok {
				p = ft.parents[pe]
			} else {
				break
			}
		}
		if _, ok := e.(*ast.ParenExpr); ok {
			return true
		}
		switch p := p.(type) {
		case *ast.IndexExpr:
			if ast.Unparen(p.X) == ast.Unparen(e) {
				return true
			}
		case *ast.AssignStmt:
			for i, l := range p.Lhs {
				if ast.Unparen(l) == ast.Unparen(e) && len(p.Lhs) == len(p.Rhs) && isMake(p.Rhs[i]) {
					return true
				}
			}
			for _, r := range p.Rhs {
				if ast.Unparen(r) == ast.Unparen(e) && isMake(e) {
					return true
				}
			}
		case *ast.ValueSpec:
			for i, id := range p.Names {
				if ast.Expr(id) == e && len(p.Values) == len(p.Names) && isMake(p.Values[i]) {
					return true
				}
			}
			for _, r := range p.Values {
				if r == e && isMake(e) {
					return true
				}
			}
		}
		t.fail(e, "a map that is written (%s) is used other than by m[k], m[k] = v and m = make(...): it could be shared", T)
		return true
	})
}

// checkMapFields: a field of a partial struct that holds a written map is, in every file of
// the package, selected only to be indexed or to be assigned make(...).
func (t *translator) checkMapFields(s Struct, named *types.Named, ps *types.Struct) {
	fields := map[*types.Var]bool{}
	for i := 0; i < ps.NumFields(); i++ {
		if t.isRefMap(ps.Field(i).Type()) {
			fields[ps.Field(i)] = true
		}
	}
	if len(fields) == 0 {
		return
	}
	for _, f := range t.files {
		var stack []ast.Node
		ast.Inspect(f, func(n ast.Node) bool {
			if n == nil {
				stack = stack[:len(stack)-1]
				return true
			}
			stack = append(stack, n)
			var use ast.Expr
			switch x := n.(type) {
			case *ast.SelectorExpr:
				if v, ok := t.info.Uses[x.Sel].(*types.Var); ok && fields[v] {
					use = x
				}
			case *ast.KeyValueExpr:
				if id, ok := x.Key.(*ast.Ident); ok {
					if v, ok := t.info.Uses[id].(*types.Var); ok && fields[v] {
						if t.mapFieldMadeInLiteral(x) { // segfail.go: f: make(...)
							return true
						}
						t.fail(x, "field %s (a map that is written) is set in a struct literal", id.Name)
					}
				}
			}
			if use == nil {
				return true
			}
			k := len(stack) - 2
			for k >= 0 {
				if _, ok := stack[k].(*ast.ParenExpr); ok {
					k--
				} else {
					break
				}
			}
			if k >= 0 {
				switch p := stack[k].(type) {
				case *ast.IndexExpr:
					if ast.Unparen(p.X) == use {
						return true
					}
				case *ast.AssignStmt:
					for i, l := range p.Lhs {
						if ast.Unparen(l) == use && len(p.Lhs) == len(p.Rhs) {
							if c, ok := ast.Unparen(p.Rhs[i]).(*ast.CallExpr); ok {
								if id, ok := ast.Unparen(c.Fun).(*ast.Ident); ok {
									if b, ok := t.info.Uses[id].(*types.Builtin); ok && b.Name() == "make" {
										return true
									}
								}
							}
						}
					}
				}
			}
			if k >= 0 && t.mapFieldReadOnlyUse(stack[k], use) { // segfail.go: len(x.f), range x.f
				return true
			}
			t.fail(use, "field %s of %s holds a map that is written; here it is used other than by x.f[k], x.f[k] = v and x.f = make(...): it could be shared",
				use.(*ast.SelectorExpr).Sel.Name, named.Obj().Name())
			return true
		})
	}
}

// ---------------------------------------------------------------- appends to receiver fields

// checkOwnedAppend: x.f = append(x.f, ...) on the receiver needs the table's Owned entry.
func (ft *funcTr) checkOwnedAppend(target ast.Expr, root *types.Var) {
	if ft.recv == nil || root != ft.recv {
		return
	}
	sel, ok := ast.Unparen(target).(*ast.SelectorExpr)
	if !ok {
		ft.t.fail(target, "append to the receiver")
	}
	T := ft.recv.Type()
	if p, ok := types.Unalias(T).Underlying().(*types.Pointer); ok {
		T = p.Elem()
	}
	st, _, ok := ft.t.structOf(T)
	if !ok || !inSet(st.Owned, sel.Sel.Name) {
		ft.t.fail(target, "append to field %s of the receiver, which the table does not list as owned (no other live slice shares its backing array)", sel.Sel.Name)
	}
}

// ---------------------------------------------------------------- function literals (data.go: funcLit)

// litCallOK: inside a function literal handed to a library function, the call of the
// translated function or method c is allowed when it neither changes the receiver nor can end
// in a no-return call (the literal denotes a function into res T: it can pass on a panic or
// the exhaustion of the bound, nothing else).
func (ft *funcTr) litCallOK(call *ast.CallExpr, c string) bool {
	t := ft.t
	if t.mayFail(c) {
		return false
	}
	if fd := t.decls[c]; fd != nil && fd.Recv != nil && t.mutatesRecv(c) {
		return false
	}
	return true
}

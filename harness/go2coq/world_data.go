package go2coq

// World mode (world.go): DATA carried through effectful code -- what functions need that walk
// over and build values of library struct types between their operating-system calls.  Added to
// the subset of world.go (vocabulary unchanged: Lib/GoSem.v, Lib/GoSemWorld.v):
//
//	WorldConfig.Structs: library struct types "importpath.Name" whose Coq type, constructor and
//	  projections the table gives (as Config.Structs of the pure mode; all fields, in any order).
//	  Values of such a type are records like those of the translated packages: field reads, field
//	  stores, T{...}, new(T), zero values; a pointer to one is an option, nil = None.
//	[]T for a struct type T (of the table or of a translated package) -> list T: nil, passed on,
//	  range, append.
//	for _, x := range xs { ... } / for range xs { ... } over such a slice -> a Fixpoint by
//	  structural recursion on the list (no iteration bound); break / continue / return as in a for
//	  loop.  The operand is evaluated once.  (No index variable; := only.  Elements cannot be
//	  stored into -- world mode has no element stores -- so the elements seen are those at entry.)
//	Pointer PARAMETERS that are read-only in the function: every use is the operand of a field
//	  read or a comparison with nil; the parameter is the value (an option) at the call.
//	Variadic library functions: the arguments of the variadic parameter must be strings / []byte;
//	  they are handed to the Coq function as one list of bytes.
//	append(x, e1, ...) with constant bytes (x a []byte) or struct values (x a slice of structs),
//	  and append(x, y...): x ++ [e1; ...], x ++ y.  Conditions, checked per function
//	  (checkAppends): an append stands as  x = append(x, ...)  with the same variable or field
//	  path x on both sides; every other assignment to x (or, for a field path, to the struct that
//	  holds it) assigns a fresh value: nil, a literal, a conversion, new(T), or the result of a
//	  library function the table marks Fresh.  Hence no two append targets share a backing array,
//	  and what an append writes behind len(x) is visible to nobody: the value semantics is exact.
//	  The INITIAL value of an append target that is a parameter or a captured variable (or a field
//	  behind one) is the caller's: that nobody else appends to a slice sharing its backing array
//	  is part of the table's claim.
//	*p for a package-level pointer variable p of WorldConfig.DerefVars: the Coq term given there
//	  (the table claims p is not nil and names the value it points to while the function runs).
//	WorldPkg.Lits: a function literal handed to a library function as an argument is translated as
//	  a definition of its own, <prefix><Func>_<Name>: a function of the world, of the captured
//	  variables it assigns (state: handed in and handed back in front of the results), of the
//	  captured variables it only reads, and of its parameters.  The literal may return; it must
//	  not defer, nor contain further literals.  What the library function does with the literal
//	  (how often and with what arguments it is called) is not translated.

import (
	"fmt"
	"go/ast"
	"go/constant"
	"go/token"
	"go/types"
	"strings"
)

// WorldLit names a function literal to translate: the first function literal among the arguments
// of the first call (in source order) of the library function Arg inside Func.
type WorldLit struct {
	Func string // "f" or "T.m": the enclosing function (need not be among Funcs)
	Arg  string // "importpath.Name" of the library function the literal is handed to
	Name string // the definition is <prefix><Func>_<Name>
}

// ---------------------------------------------------------------- table structs

func (t *wtr) tableStructKey(n *types.Named) string {
	return n.Obj().Pkg().Path() + "." + n.Obj().Name()
}

// tableStruct: n if it is a struct type of another package that WorldConfig.Structs denotes.
func (t *wtr) tableStruct(n *types.Named) *types.Named {
	if _, ok := t.cfg.Structs[t.tableStructKey(n)]; !ok {
		return nil
	}
	if _, ok := n.Underlying().(*types.Struct); !ok {
		return nil
	}
	return n
}

// tableWstruct: the record of a struct type of the table (nil if named is not one).
func (t *wtr) tableWstruct(n ast.Node, named *types.Named) *wstruct {
	if named.Obj().Pkg() == nil || t.byPath[named.Obj().Pkg().Path()] != nil {
		return nil
	}
	ts, ok := t.cfg.Structs[t.tableStructKey(named)]
	if !ok {
		return nil
	}
	st := named.Underlying().(*types.Struct)
	if ts.Partial || len(ts.Fields) != st.NumFields() {
		t.fail(n, "struct %s: the table must give all %d fields (partial records are not supported in world mode)", t.tableStructKey(named), st.NumFields())
	}
	s := &wstruct{named: named, st: st, coq: ts.CoqType, ctor: ts.Ctor}
	for i := 0; i < st.NumFields(); i++ {
		g := ""
		for _, f := range ts.Fields {
			if f.Go == st.Field(i).Name() {
				g = f.Getter
			}
		}
		if g == "" {
			t.fail(n, "struct %s: the table does not give the field %s", t.tableStructKey(named), st.Field(i).Name())
		}
		s.getter = append(s.getter, g)
	}
	return s
}

// ---------------------------------------------------------------- read-only pointer parameters

// readOnlyPtr: every use of the pointer variable v inside root is the operand of a field read
// (not the target of an assignment, not a method call) or of a comparison with nil.
func (fn *wfn) readOnlyPtr(v *types.Var, root ast.Node) bool {
	ok := true
	ast.Inspect(root, func(n ast.Node) bool {
		id, isId := n.(*ast.Ident)
		if !isId || fn.info().Uses[id] != types.Object(v) {
			return true
		}
		var cur ast.Node = id
		for {
			p := fn.parents[cur]
			switch x := p.(type) {
			case *ast.ParenExpr:
				cur = x
				continue
			case *ast.SelectorExpr:
				if ast.Node(x.X) == cur {
					if s := fn.info().Selections[x]; s != nil && s.Kind() == types.FieldVal {
						cur = x
						continue
					}
				}
				ok = false
				return false
			case *ast.BinaryExpr:
				if cur == ast.Node(id) && (x.Op == token.EQL || x.Op == token.NEQ) && (fn.isNilExpr(x.X) || fn.isNilExpr(x.Y)) {
					return true
				}
				if cur == ast.Node(id) {
					ok = false
				}
				return true
			case *ast.AssignStmt:
				for _, l := range x.Lhs {
					if l == cur {
						ok = false
					}
				}
				if cur == ast.Node(id) {
					ok = false // the pointer itself copied
				}
				return true
			case *ast.IncDecStmt:
				ok = false
				return true
			case *ast.UnaryExpr:
				if x.Op == token.AND {
					ok = false
				}
				if cur == ast.Node(id) {
					ok = false
				}
				return true
			default:
				if cur == ast.Node(id) {
					ok = false // handed on, returned, ...
				}
				return true
			}
		}
	})
	return ok
}

// ---------------------------------------------------------------- range over a slice of structs

func isBlankExpr(e ast.Expr) bool {
	id, ok := ast.Unparen(e).(*ast.Ident)
	return ok && id.Name == "_"
}

func (fn *wfn) rangeStmt(s *ast.RangeStmt, rest []ast.Stmt, m wmode, ind string) string {
	t := fn.t
	XT := fn.info().Types[s.X].Type
	if XT == nil || t.kindOf(XT) != wkList {
		t.fail(s, "statement of kind *ast.RangeStmt over a value of type %s (supported: a slice of structs)", XT)
	}
	if s.Key != nil && !isBlankExpr(s.Key) {
		t.fail(s.Key, "range with an index variable")
	}
	elemT := types.Unalias(XT).Underlying().(*types.Slice).Elem()
	elem := "_"
	if s.Value != nil && !isBlankExpr(s.Value) {
		id, ok := s.Value.(*ast.Ident)
		if !ok || s.Tok != token.DEFINE {
			t.fail(s.Value, "range that assigns to an existing variable")
		}
		v, ok := fn.info().Defs[id].(*types.Var)
		if !ok {
			t.fail(s.Value, "range that assigns to an existing variable")
		}
		elem = fn.names[v]
	}
	var b strings.Builder
	pres, lst := fn.expr(s.X, nil)
	b.WriteString(wbinds(pres, ind))
	fn.nloop++
	name := fmt.Sprintf("%s_loop%d", fn.f.coq, fn.nloop)
	lo, hi := s.Pos(), s.End()
	vars := fn.assigned(lo, hi, s.Body)
	ro := minus(fn.free(lo, hi, s.Body), vars)
	S := fn.tupleType(vars)
	fuelP, fuelA := "", ""
	if fn.f.needFuel {
		fuelP, fuelA = "(fuel : nat)", "fuel"
	}
	in := "    "
	var f strings.Builder
	fmt.Fprintf(&f, "(* func %s: range loop %d *)\n", fn.name, fn.nloop)
	fmt.Fprintf(&f, "Fixpoint %s {L : Type} %s {struct l}\n  : res (outcome %s L %s) :=\n", name,
		join(fuelP, fn.binders(ro), "(l : list "+t.coqType(s, elemT)+")", fn.binders(vars)), S, fn.resultType())
	fmt.Fprintf(&f, "  match l with\n  | [] => Ok (Normal %s)\n  | %s :: l' =>\n", fn.tuple(vars), elem)
	bodyMode := wmode{kind: wmOut, vars: vars, inLoop: true, loop: vars}
	body := fn.block(s.Body.List, bodyMode, in+"    ")
	fmt.Fprintf(&f, "%s  bindL (\n%s%s  ) (fun %s =>\n%s  %s)\n", in, body, in, fn.pattern(vars), in,
		join(name, fuelA, fn.args(ro), "l'", fn.args(vars)))
	f.WriteString("  end.\n\n")
	fn.loops = append(fn.loops, f.String())
	comb := "bindO"
	switch m.kind {
	case wmTail:
		comb = "bindT"
	case wmPlain:
		t.fail(s, "internal: loop inside a jump-free block")
	}
	fmt.Fprintf(&b, "%s%s (%s) (fun %s =>\n%s)\n", ind, comb, join(name, fuelA, fn.args(ro), lst, fn.args(vars)), fn.pattern(vars),
		strings.TrimRight(fn.block(rest, m, ind), "\n"))
	return b.String()
}

// ---------------------------------------------------------------- variadic library functions

func (fn *wfn) variadicLibCall(c *ast.CallExpr, r wcall) ([]wpre, []string) {
	t := fn.t
	lf := r.lib
	nfix := r.sig.Params().Len() - 1
	if len(c.Args) < nfix {
		t.fail(c, "call of %s with fewer arguments than fixed parameters", r.key)
	}
	var pres []wpre
	parts := []string{lf.Coq}
	switch lf.Kind {
	case WPure, WMonadic:
	case WWorld, WWorldRO:
		if fn.world == nil {
			t.fail(c, "internal: call of %s, which has effects, from a function without", r.key)
		}
		parts = append(parts, fn.names[fn.world])
	default:
		t.fail(c, "variadic call of %s: only pure, monadic and world functions (or dropped call statements)", r.key)
	}
	if r.sig.Recv() != nil {
		p, base := fn.recvValue(c, r)
		pres = append(pres, p...)
		parts = append(parts, base)
	}
	var elems []string
	for i, a := range c.Args {
		if i < nfix {
			pt := r.sig.Params().At(i).Type()
			if p, v, ok := fn.ifaceArg(a, pt); ok {
				pres = append(pres, p...)
				parts = append(parts, v)
				continue
			}
			p, v := fn.expr(a, pt)
			pres = append(pres, p...)
			parts = append(parts, v)
			continue
		}
		if lf.AnyArgs { // world_values.go
			p, v := fn.anyArg(a, r.key)
			pres = append(pres, p...)
			elems = append(elems, v)
			continue
		}
		AT := fn.info().Types[a].Type
		if AT == nil || t.kindOf(AT) != wkBytes {
			t.fail(a, "argument of type %s of the variadic parameter of %s (supported: strings and []byte, handed over as one list)", AT, r.key)
		}
		p, v := fn.expr(a, AT)
		pres = append(pres, p...)
		elems = append(elems, v)
	}
	parts = append(parts, "["+strings.Join(elems, "; ")+"]")
	term := strings.Join(parts, " ")
	n := r.sig.Results().Len()
	switch lf.Kind {
	case WPure:
		if n == 1 {
			return pres, []string{"(" + term + ")"}
		}
		return fn.bindResults(pres, term, true, n, nil)
	case WMonadic:
		return fn.bindResults(pres, term, false, n, nil)
	case WWorld:
		return fn.bindResults(pres, term, true, n, []string{fn.names[fn.world]})
	}
	return fn.bindResults(pres, term, true, n, nil) // WWorldRO
}

// ---------------------------------------------------------------- append

func (fn *wfn) isAppendCall(c *ast.CallExpr) bool {
	id, ok := ast.Unparen(c.Fun).(*ast.Ident)
	if !ok {
		return false
	}
	b, ok := fn.info().Uses[id].(*types.Builtin)
	return ok && b.Name() == "append"
}

// pathKey: the variable and field names of x, x.f.g ("" if e is something else).
func (fn *wfn) pathKey(e ast.Expr) (*types.Var, string) {
	switch x := ast.Unparen(e).(type) {
	case *ast.Ident:
		obj := fn.info().Uses[x]
		if obj == nil {
			obj = fn.info().Defs[x]
		}
		if v, ok := fn.isLocal(obj); ok {
			return v, ""
		}
	case *ast.SelectorExpr:
		sel := fn.info().Selections[x]
		if sel == nil || sel.Kind() != types.FieldVal {
			return nil, ""
		}
		v, k := fn.pathKey(x.X)
		if v == nil {
			return nil, ""
		}
		return v, k + "." + x.Sel.Name
	}
	return nil, ""
}

// freshValue: e denotes a value that shares no backing array with anything else.
func (fn *wfn) freshValue(e ast.Expr) bool {
	t := fn.t
	e = ast.Unparen(e)
	if fn.isNilExpr(e) {
		return true
	}
	if tv, ok := fn.info().Types[e]; ok && tv.Value != nil {
		return true
	}
	switch x := e.(type) {
	case *ast.CompositeLit:
		return true
	case *ast.UnaryExpr:
		_, isLit := ast.Unparen(x.X).(*ast.CompositeLit)
		return x.Op == token.AND && isLit
	case *ast.CallExpr:
		r := t.resolve(fn.p, x)
		switch r.kind {
		case wcConv:
			// []byte(s) copies; T(x) between slice types does not
			from := fn.info().Types[x.Args[0]].Type
			_, fromSlice := types.Unalias(from).Underlying().(*types.Slice)
			return !fromSlice
		case wcBuiltin:
			return r.builtin == "new"
		case wcLib:
			return r.lib.Fresh
		}
	}
	return false
}

// checkAppends: the conditions under which append is concatenation (see the header).
func (fn *wfn) checkAppends(root ast.Node) {
	t := fn.t
	type target struct {
		v   *types.Var
		key string
	}
	targets := map[target]bool{}
	own := map[ast.Node]bool{} // the assignments that are the appends themselves
	ast.Inspect(root, func(n ast.Node) bool {
		c, ok := n.(*ast.CallExpr)
		if !ok || !fn.isAppendCall(c) {
			return true
		}
		var p ast.Node = fn.parents[c]
		for {
			if pe, ok := p.(*ast.ParenExpr); ok {
				p = fn.parents[pe]
				continue
			}
			break
		}
		as, ok := p.(*ast.AssignStmt)
		if !ok || as.Tok != token.ASSIGN || len(as.Lhs) != 1 || len(as.Rhs) != 1 || len(c.Args) == 0 {
			t.fail(c, "append other than as  x = append(x, ...)")
		}
		lv, lk := fn.pathKey(as.Lhs[0])
		av, ak := fn.pathKey(c.Args[0])
		if lv == nil || lv != av || lk != ak {
			t.fail(c, "append other than as  x = append(x, ...)  with the same variable or field path on both sides")
		}
		targets[target{lv, lk}] = true
		own[as] = true
		return true
	})
	if len(targets) == 0 {
		return
	}
	hits := func(v *types.Var, key string) bool {
		// an assignment to v.key changes the target tg if key is a prefix of tg's path (the struct
		// that holds it, or the target itself)
		for tg := range targets {
			if tg.v == v && (tg.key == key || strings.HasPrefix(tg.key, key+".")) {
				return true
			}
		}
		return false
	}
	ast.Inspect(root, func(n ast.Node) bool {
		switch s := n.(type) {
		case *ast.AssignStmt:
			if own[s] {
				return true
			}
			for i, l := range s.Lhs {
				v, k := fn.pathKey(l)
				if v == nil || !hits(v, k) {
					continue
				}
				var rhs ast.Expr
				if len(s.Rhs) == len(s.Lhs) {
					rhs = s.Rhs[i]
				} else {
					rhs = s.Rhs[0] // a call with several results
				}
				if !fn.freshValue(rhs) {
					t.fail(l, "%s%s is appended to, and is assigned here a value that is not fresh (nil, a literal, a conversion, new, or a library function the table marks Fresh)", v.Name(), k)
				}
			}
		case *ast.ValueSpec:
			for i, id := range s.Names {
				v, _ := fn.info().Defs[id].(*types.Var)
				if v == nil || !hits(v, "") || len(s.Values) == 0 {
					continue
				}
				rhs := s.Values[0]
				if len(s.Values) == len(s.Names) {
					rhs = s.Values[i]
				}
				if !fn.freshValue(rhs) {
					t.fail(id, "%s is appended to, and is declared with a value that is not fresh", v.Name())
				}
			}
		case *ast.RangeStmt:
			for _, e := range []ast.Expr{s.Key, s.Value} {
				if e == nil {
					continue
				}
				if v, k := fn.pathKey(e); v != nil && hits(v, k) {
					t.fail(e, "%s is appended to, and is the variable of a range statement", v.Name())
				}
			}
		}
		return true
	})
}

func (fn *wfn) appendCall(c *ast.CallExpr) ([]wpre, []string) {
	t := fn.t
	info := fn.info()
	if len(c.Args) == 0 {
		t.fail(c, "append without arguments")
	}
	T := info.Types[c.Args[0]].Type
	sl, isSlice := types.Unalias(T).Underlying().(*types.Slice)
	k := t.kindOf(T)
	if !isSlice || (k != wkBytes && k != wkList) {
		t.fail(c, "append to a value of type %s", T)
	}
	pres, base := fn.expr(c.Args[0], nil)
	if c.Ellipsis.IsValid() {
		if len(c.Args) != 2 {
			t.fail(c, "append with ... and %d arguments", len(c.Args))
		}
		AT := info.Types[c.Args[1]].Type
		if t.kindOf(AT) != k {
			t.fail(c.Args[1], "append of a value of type %s to a value of type %s", AT, T)
		}
		p, v := fn.expr(c.Args[1], AT)
		return append(pres, p...), []string{"(" + base + " ++ " + v + ")"}
	}
	var elems []string
	for _, a := range c.Args[1:] {
		if k == wkBytes {
			tv := info.Types[a]
			if tv.Value == nil {
				t.fail(a, "append of a byte that is not a constant (bytes are not values in world mode)")
			}
			i, ok := constant.Int64Val(constant.ToInt(tv.Value))
			if !ok || i < 0 || i > 255 {
				t.fail(a, "append of the constant %s as a byte", tv.Value)
			}
			elems = append(elems, fmt.Sprintf("x%02x", i))
			continue
		}
		p, v := fn.expr(a, sl.Elem())
		pres = append(pres, p...)
		elems = append(elems, v)
	}
	if len(elems) == 0 {
		return pres, []string{base}
	}
	return pres, []string{"(" + base + " ++ [" + strings.Join(elems, "; ") + "])"}
}

// ---------------------------------------------------------------- *p for a package-level pointer variable

func (fn *wfn) starExpr(x *ast.StarExpr) ([]wpre, string) {
	t := fn.t
	id, ok := ast.Unparen(x.X).(*ast.Ident)
	if ok {
		if v, isVar := fn.info().Uses[id].(*types.Var); isVar && !v.IsField() && v.Pkg() != nil && v.Parent() == v.Pkg().Scope() {
			if term, ok := t.cfg.DerefVars[v.Pkg().Path()+"."+v.Name()]; ok {
				return nil, term
			}
			t.fail(x, "*%s: the package-level pointer variable %s has no entry in the table (DerefVars)", id.Name, id.Name)
		}
	}
	t.fail(x, "pointer dereference (supported: *p for a package-level pointer variable of the table)")
	return nil, ""
}

// ---------------------------------------------------------------- function literals handed to library functions

// stateParts: the captured variables a literal assigns, handed back behind the world.
func (fn *wfn) stateNames() []string {
	var out []string
	for _, v := range fn.state {
		out = append(out, fn.names[v])
	}
	return out
}

func (fn *wfn) stateTypes() []string {
	var out []string
	for _, v := range fn.state {
		out = append(out, fn.varType(v))
	}
	return out
}

func (t *wtr) findArgLit(p *wpkg, l WorldLit) (*ast.FuncDecl, *ast.FuncLit) {
	fd := p.findDecl(l.Func)
	if fd == nil || fd.Body == nil {
		t.fail(nil, "literal %s: function %s of %s not found (or has no body)", l.Name, l.Func, p.Path)
	}
	var lit *ast.FuncLit
	ast.Inspect(fd.Body, func(n ast.Node) bool {
		if lit != nil {
			return false
		}
		c, ok := n.(*ast.CallExpr)
		if !ok {
			return true
		}
		key := ""
		switch f := ast.Unparen(c.Fun).(type) {
		case *ast.SelectorExpr:
			if o, ok := p.info.Uses[f.Sel].(*types.Func); ok {
				key = o.FullName()
			}
		case *ast.Ident:
			if o, ok := p.info.Uses[f].(*types.Func); ok {
				key = o.FullName()
			}
		}
		if key != l.Arg {
			return true
		}
		for _, a := range c.Args {
			if fl, ok := ast.Unparen(a).(*ast.FuncLit); ok {
				lit = fl
				return false
			}
		}
		return true
	})
	if lit == nil {
		t.fail(fd, "literal %s: no call of %s with a function literal among its arguments in %s", l.Name, l.Arg, l.Func)
	}
	return fd, lit
}

// argLiteral translates the literal l names.
func (t *wtr) argLiteral(p *wpkg, l WorldLit) (text, name string, needFuel bool) {
	if l.Name == "" {
		t.fail(nil, "literal of %s without a name", l.Func)
	}
	fd, lit := t.findArgLit(p, l)
	for _, te := range p.terrs {
		if te.Pos >= lit.Pos() && te.Pos < lit.End() {
			t.fail(nil, "%s: in the literal %s of %s: not in the supported subset (type checker: %s)", t.fset.Position(te.Pos), l.Name, l.Func, te.Msg)
		}
	}
	obj, _ := p.info.Defs[fd.Name].(*types.Func)
	sig, _ := p.info.Types[lit].Type.(*types.Signature)
	if obj == nil || sig == nil {
		t.fail(lit, "literal %s of %s: no type information", l.Name, l.Func)
	}
	if sig.Variadic() {
		t.fail(lit, "variadic function literal")
	}
	f := &wfunc{p: p, fd: fd, obj: obj, key: l.Func + " (the literal handed to " + l.Arg + ")",
		coq: p.Prefix + strings.Replace(l.Func, ".", "_", 1) + "_" + sanitize(l.Name)}
	ast.Inspect(lit.Body, func(n ast.Node) bool {
		switch x := n.(type) {
		case *ast.ForStmt:
			f.needFuel = true
		case *ast.GoStmt, *ast.SelectStmt, *ast.SendStmt, *ast.LabeledStmt, *ast.TypeSwitchStmt, *ast.DeferStmt:
			t.fail(n, "statement of kind %T inside a function literal handed to a library function", n)
		case *ast.FuncLit:
			t.fail(n, "function literal inside a function literal handed to a library function")
		case *ast.CallExpr:
			r := t.resolve(p, x)
			switch r.kind {
			case wcTranslated:
				if r.fn.worldly {
					f.worldly = true
				}
				if r.fn.needFuel {
					f.needFuel = true
				}
			case wcLib:
				if r.lib.Kind == WWorld || r.lib.Kind == WWorldRO {
					f.worldly = true
				}
				if r.lib.Kind == WDrop {
					return false
				}
			}
		}
		return true
	})
	fn := t.newFn(f, f.key, fd.Pos(), fd.End())
	fn.sig = sig
	fn.argLit = true
	if rcv := obj.Type().(*types.Signature).Recv(); rcv != nil {
		ast.Inspect(lit.Body, func(n ast.Node) bool {
			if id, ok := n.(*ast.Ident); ok && fn.info().Uses[id] == types.Object(rcv) {
				t.fail(id, "a function literal handed to a library function mentions the receiver of the enclosing method")
			}
			return true
		})
	}
	// what it captures: assigned -> state, otherwise read-only
	inLit := func(v *types.Var) bool { return v.Pos() >= lit.Pos() && v.Pos() < lit.End() }
	for _, v := range fn.assigned(lit.Pos(), lit.End(), lit.Body) {
		if v != fn.world && !inLit(v) {
			fn.state = append(fn.state, v)
		}
	}
	var ro []*types.Var
	for _, v := range minus(fn.free(lit.Pos(), lit.End(), lit.Body), fn.state) {
		if v != fn.world && !inLit(v) {
			ro = append(ro, v)
		}
	}
	var params []string
	if f.needFuel {
		params = append(params, "(fuel : nat)")
	}
	if fn.world != nil {
		params = append(params, fmt.Sprintf("(%s : %s)", t.wname, t.cfg.WorldType))
	}
	for _, v := range fn.state {
		params = append(params, fmt.Sprintf("(%s : %s)", fn.names[v], fn.varType(v)))
	}
	for _, v := range ro {
		if t.kindOf(v.Type()) == wkPtr && !fn.readOnlyPtr(v, lit.Body) {
			t.fail(lit, "the captured pointer %s is used other than for reading fields", v.Name())
		}
		params = append(params, fmt.Sprintf("(%s : %s)", fn.names[v], fn.varType(v)))
	}
	for i := 0; i < sig.Params().Len(); i++ {
		pv := sig.Params().At(i)
		if t.kindOf(pv.Type()) == wkPtr && !fn.readOnlyPtr(pv, lit.Body) {
			t.fail(lit, "pointer parameter %s of the literal (only read-only pointer parameters)", pv.Name())
		}
		pn := "_"
		if pv.Name() != "" && pv.Name() != "_" {
			pn = fn.names[pv]
		}
		params = append(params, fmt.Sprintf("(%s : %s)", pn, t.coqType(lit, pv.Type())))
	}
	if sig.Results().Len() > 0 && sig.Results().At(0).Name() != "" {
		t.fail(lit, "function literal with named results")
	}
	fn.checkPointers(lit.Body)
	fn.checkAppends(lit.Body)
	body := fn.block(lit.Body.List, wmode{kind: wmTail}, "  ")
	var out strings.Builder
	for _, lp := range fn.loops {
		out.WriteString(lp)
	}
	fmt.Fprintf(&out, "(* func %s: the function literal handed to %s, as a function of what it captures *)\nDefinition %s %s\n  : res %s :=\n%s.\n\n",
		l.Func, l.Arg, f.coq, strings.Join(params, " "), fn.resultType(), strings.TrimRight(body, "\n"))
	return out.String(), f.coq, f.needFuel
}

package go2coq

// The types of ext.go and segment.go (kept apart so that the declarations they add to Config,
// LibFunc and funcTr compile on their own).

import (
	"go/ast"
	"go/types"
)

const (
	kInt64 kind = 200 + iota
	kArray
	kLibType
)

// LibType is the denotation of a named library type "importpath.Name".
type LibType struct {
	Coq  string // Coq type
	Zero string // zero value ("" = a zero value of this type is refused)
}

type funcExt struct {
	segment bool
	inputs  []string // binders of the input parameters, in the order of their call sites
	seen    map[*ast.CallExpr]string
	seenVar map[*ast.Ident]string // segfail.go: the reads of input variables
	locals  []*types.Var          // segfail.go: state variables that are local pointers to table structs
}

// Segment asks for the translation of a pure run of statements in the middle of a function
// or method that is otherwise outside the subset (it does file I/O before and after).  It
// generalises Prefix.
//
// Calls are named as in the Lib table: "importpath.Name", "(*importpath.T).Name" or
// "(importpath.T).Name" for a method, "importpath.T.field" for a func-typed struct field.
//
// The block is the innermost statement list of Func that contains the first call (in source
// order) of In; without In, of After or From; without those, of Before or Through; without
// any, the function body.  Of that block the segment starts after the first statement that
// contains a call of After (From: with that statement; neither: with the first statement of
// the block) and ends in front of the first statement, not before the start, that contains a
// call of Before (Through: with that statement; neither: with the last statement of the block).
//
// The result is the definition <prefix><Func>_<Name> (a method T.f is written T_f), a function
// of the local variables the statements read (parameters, the receiver and results included;
// a pointer to a struct that is only used for reading fields is the struct) followed by the
// input parameters (LibFunc.Input), with the value res (outcome V L R): Return r if the
// statements return r, else Normal of the tuple V of the variables they assign (declared
// before them) or declare for what follows in the block; if the block lies inside a loop,
// break and continue carry the tuple L of the assigned variables declared before the
// segment (what the block declares does not outlive it); otherwise L is unit.  Every statement of the segment
// must be in the supported subset; what precedes and follows is not looked at.
//
// With Cond instead, the segment is the condition of the innermost if statement that has the
// first call of Cond in its body or else branch: a function of the variables the condition
// reads with the value res bool.
type Segment struct {
	Func, Name                   string
	In                           string
	After, From, Before, Through string
	Cond                         string
	// segstate.go: State: variables whose value a return inside the segment carries; Up: take the
	// Up-th statement list outside the innermost one; Args: the arguments of the first call
	State []string
	Up    int
	Args  string
}

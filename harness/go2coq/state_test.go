package go2coq_test

import (
	"fmt"
	"go/ast"
	"go/parser"
	"go/token"
	"os"
	"os/exec"
	"path/filepath"
	"strings"
	"testing"

	"verif/harness/go2coq"
	"verif/harness/go2coq/internal/synthst"
)

const ioStub = "package io\ntype Reader interface{ Read(p []byte) (n int, err error) }\nvar EOF error\n"
const bufioStub = "package bufio\nimport \"io\"\ntype Reader struct{}\nfunc NewReader(rd io.Reader) *Reader\n" +
	"func (b *Reader) ReadByte() (byte, error)\nfunc (b *Reader) Peek(n int) ([]byte, error)\nfunc (b *Reader) Discard(n int) (discarded int, err error)\n"

func stateCfg(funcs ...string) *go2coq.Config {
	return &go2coq.Config{
		Prefix: "s_",
		Funcs:  funcs,
		Stubs:  map[string]string{"io": ioStub, "bufio": bufioStub, "errors": "package errors\nfunc New(text string) error\n"},
		Lib: map[string]go2coq.LibFunc{"errors.New": {IsError: true}, "bufio.NewReader": {Coq: "go_bufio_NewReader"},
			"(*bufio.Reader).ReadByte": {Coq: "go_bufio_ReadByte", State: true},
			"(*bufio.Reader).Peek":     {Coq: "go_bufio_Peek", State: true, Monadic: true, Volatile: true},
			"(*bufio.Reader).Discard":  {Coq: "go_bufio_Discard", State: true, Monadic: true}},
		Structs: map[string]go2coq.Struct{"verif/harness/go2coq/internal/synthst.Lexer": {CoqType: "lexer", Ctor: "mk_lexer",
			Fields: []go2coq.Field{{Go: "rd", Getter: "lx_rd"}, {Go: "tok", Getter: "lx_tok"}, {Go: "last", Getter: "lx_last"},
				{Go: "err", Getter: "lx_err"}, {Go: "n", Getter: "lx_n"}}, Owned: []string{"tok"}}},
		StatePassing: true,
		StateTypes:   map[string]string{"*bufio.Reader": "bytes", "io.Reader": "bytes"},
		ErrorValues:  true,
		ExtVars:      map[string]string{"io.EOF": "go_io_EOF"},
	}
}

func translateState(t *testing.T, src string, funcs ...string) (*go2coq.Result, error) {
	fset := token.NewFileSet()
	f, err := parser.ParseFile(fset, "synthst.go", src, parser.ParseComments)
	if err != nil {
		t.Fatal(err)
	}
	return go2coq.Translate(fset, []*ast.File{f}, "verif/harness/go2coq/internal/synthst", stateCfg(funcs...))
}

// Methods with a pointer receiver, a pointer parameter, a reader as linear state, error
// sentinels, switch and panic: the translation of internal/synthst, evaluated by coqc, agrees
// with the functions run as Go.
func TestStateAgainstGo(t *testing.T) {
	src, err := os.ReadFile("internal/synthst/synthst.go")
	if err != nil {
		t.Fatal(err)
	}
	r, err := translateState(t, string(src), "NewLexer", "Lexer.fail", "Lexer.next", "Lexer.word", "Words", "Class")
	if err != nil {
		t.Fatal(err)
	}
	var ex []string
	add := func(call, want string) { ex = append(ex, fmt.Sprintf("(%s) = %s", call, want)) }
	coqList := func(l []string) string {
		var parts []string
		for _, w := range l {
			parts = append(parts, coqBytes([]byte(w)))
		}
		return "[" + strings.Join(parts, "; ") + "]"
	}
	coqErr := func(e error) string {
		switch e {
		case nil:
			return "ErrNil"
		case synthst.ErrBad:
			return "s_ErrBad"
		}
		return "s_errLong" // the only other error Words can return
	}
	inputs := []string{"", "a", "ab cd", "#!ab cd", "#", "#!", "  a , b;c  ", "abcdef gh", "abcdefg", "a ! b", "!", "a,b", ", ;",
		"one two three four five six seven eight", "x                                         y", "\x00a b", "a\x00b c"}
	for _, in := range inputs {
		cd := coqBytes([]byte(in))
		for _, start := range [][]string{nil, {"w0"}} {
			out := append([]string(nil), start...)
			add("s_Words 50 "+cd+" (Some "+coqList(start)+")", res(func() string {
				k, n, tok, err := synthst.Words(strings.NewReader(in), &out)
				return fmt.Sprintf("(Some %s, %s, %s, %s, %s)", coqList(out), coqZ(k), coqZ(n), coqBytes(tok), coqErr(err))
			}))
		}
		add("s_Words 50 "+cd+" None", res(func() string {
			k, n, tok, err := synthst.Words(strings.NewReader(in), nil)
			return fmt.Sprintf("(None, %s, %s, %s, %s)", coqZ(k), coqZ(n), coqBytes(tok), coqErr(err))
		}))
		for _, i := range []int{-1, 0, 1, 2, 4, 5, 9} {
			add("s_Class "+cd+" "+coqZ(i), res(func() string { return coqZ(synthst.Class([]byte(in), i)) }))
		}
	}
	// the iteration bound is real
	add("s_Words 3 "+coqBytes([]byte("a b c d e f"))+" None", "OutOfFuel")

	theories, _ := filepath.Abs("../../coq/theories")
	if th := os.Getenv("GO2COQ_THEORIES"); th != "" {
		theories = th
	}
	extra := os.Getenv("GO2COQ_THEORIES_EXTRA") // a second root for the logical name GI (scratch development)
	if _, err := os.Stat(filepath.Join(theories, "Lib", "GoSemIO.vo")); err != nil {
		if _, err := os.Stat(filepath.Join(extra, "Lib", "GoSemIO.vo")); extra == "" || err != nil {
			t.Skip("compiled Lib/GoSemIO.vo not found under " + theories)
		}
	}
	if _, err := exec.LookPath("coqc"); err != nil {
		t.Skip("coqc not found")
	}
	dir := t.TempDir()
	var b strings.Builder
	b.WriteString("From Coq Require Import List ZArith NArith Bool.\nFrom Coq.Strings Require Import Byte.\nImport ListNotations.\n")
	b.WriteString("From GI Require Import Lib.Bytes Lib.GoSem Lib.GoSemExt Lib.GoSemIO.\nImport GoNotations.\nLocal Open Scope go_scope.\n\n")
	b.WriteString("Record lexer : Type := mk_lexer { lx_rd : bytes; lx_tok : bytes; lx_last : byte; lx_err : goerr; lx_n : Z }.\n\n")
	b.WriteString(r.Text)
	for i, e := range ex {
		fmt.Fprintf(&b, "Example ex%d : %s.\nProof. vm_compute. reflexivity. Qed.\n", i, e)
	}
	file := filepath.Join(dir, "SynthSt.v")
	if err := os.WriteFile(file, []byte(b.String()), 0o644); err != nil {
		t.Fatal(err)
	}
	if keep := os.Getenv("GO2COQ_KEEP_STATE"); keep != "" {
		os.WriteFile(keep, []byte(b.String()), 0o644)
	}
	args := []string{"300", "coqc", "-q", "-Q", theories, "GI"}
	if extra != "" {
		args = append(args, "-Q", extra, "GI")
	}
	cmd := exec.Command("timeout", append(args, file)...)
	cmd.Dir = dir
	out, err := cmd.CombinedOutput()
	if err != nil {
		t.Fatalf("coqc: %v\n%s", err, out)
	}
	t.Logf("%d evaluations of %d translated functions agree with Go", len(ex), len(r.Funcs))
}

// What the discipline of state passing does not cover is refused, with a message naming it.
func TestStateRejects(t *testing.T) {
	head := "package synthst\nimport (\"bufio\"; \"errors\"; \"io\")\nvar _ = io.EOF\nvar ErrBad = errors.New(\"bad\")\n" +
		"type Lexer struct { rd *bufio.Reader; tok []byte; last byte; err error; n int }\n" +
		"func (l *Lexer) next() byte { c, err := l.rd.ReadByte(); if err != nil { return 0 }; l.n++; return c }\n"
	cases := []struct {
		name, body, want string
		funcs            []string
	}{
		{"value-receiver", "func (l Lexer) F() int { return l.n }", "pointer receiver", []string{"Lexer.F"}},
		{"return-receiver", "func (l *Lexer) F() *Lexer { return l }", "is returned", []string{"Lexer.F"}},
		{"copy-pointer", "func (l *Lexer) F() int { m := l; return m.n }", "pointer", []string{"Lexer.F"}},
		{"assign-receiver", "func (l *Lexer) F(rd *bufio.Reader) int { l = &Lexer{rd: rd}; return l.n }", "pointer", []string{"Lexer.F"}},
		{"pointer-arg", "func G(l *Lexer) int { return l.n }\nfunc (l *Lexer) F() int { return G(l) }", "pointer", []string{"G", "Lexer.F"}},
		{"read-and-call", "func (l *Lexer) F() int { if l.last == l.next() { return 1 }; return 0 }", "does not fix the order", []string{"Lexer.next", "Lexer.F"}},
		{"call-right-of-and", "func (l *Lexer) F(a bool) bool { return a && l.next() != 0 }", "right operand", []string{"Lexer.next", "Lexer.F"}},
		{"untranslated-method", "func (l *Lexer) F() byte { return l.next() }", "", []string{"Lexer.F"}},
		{"method-value", "func (l *Lexer) F() byte { f := l.next; return f() }", "", []string{"Lexer.next", "Lexer.F"}},
		{"switch-break", "func F(a int) int { for { switch a { case 1: break }; return a } }", "break inside a switch", []string{"F"}},
		{"switch-fallthrough", "func F(a int) int { switch a { case 1: a = 2; fallthrough; case 2: a = 3 }; return a }", "fallthrough inside a switch", []string{"F"}},
		{"type-switch", "func F(e error) int { switch e.(type) { case nil: return 0 }; return 1 }", "", []string{"F"}},
		{"deref-read", "func F(out *[]string) int { return len(*out) }", "indirection", []string{"F"}},
		{"deref-store", "func F(out *[]string) { *out = nil }", "indirection", []string{"F"}},
		{"pointer-twice", "func G(a, b *[]string) { *a = append(*a, \"x\"); *b = append(*b, \"y\") }\nfunc F(a *[]string) { G(a, a) }", "passed twice", []string{"G", "F"}},
		{"peek-kept", "func F(rd *bufio.Reader) byte { if p, err := rd.Peek(1); err == nil { rd.Discard(1); return p[0] }; return 0 }", "after the condition", []string{"F"}},
		{"peek-loose", "func F(rd *bufio.Reader) int { p, _ := rd.Peek(1); return len(p) }", "valid only until", []string{"F"}},
		{"reader-twice", "func F(rd io.Reader) (byte, byte) { a := bufio.NewReader(rd); b := bufio.NewReader(rd); x, _ := a.ReadByte(); y, _ := b.ReadByte(); return x, y }", "handed on", []string{"F"}},
		{"reader-field-copy", "func (l *Lexer) F() *bufio.Reader { return l.rd }", "state field", []string{"Lexer.F"}},
		{"error-made-inside", "func F(a int) error { if a > 0 { return errors.New(\"x\") }; return nil }", "sentinels", []string{"F"}},
		{"panic-value", "func F(e error) int { panic(e) }", "not a constant", []string{"F"}},
		{"panic-shadowed", "func panic(s string) {}\nfunc F(a int) int { panic(\"x\"); return a }", "", []string{"F"}},
		{"unknown-extvar", "func F(e error) bool { return e == io.ErrUnexpectedEOF }", "", []string{"F"}},
	}
	for _, c := range cases {
		_, err := translateState(t, head+c.body+"\n", c.funcs...)
		if err == nil {
			t.Errorf("%s: accepted", c.name)
			continue
		}
		if _, ok := err.(*go2coq.Unsupported); !ok || !strings.Contains(err.Error(), c.want) {
			t.Errorf("%s: error %q does not mention %q", c.name, err, c.want)
		}
	}
}

package main

// The TRANSLATED functions run next to the implementation: coq/theories/Gen/DiffSrc.v is
// diff/diff.go translated to Gallina by harness/go2coq on every run; its extraction
// (Extract/DiffSrcExtract.v, ocaml/diffsrc/driver.ml -> bin/model_diffsrc) answers the same
// "diff" request as the hand-written model, with the iteration bound of the C08_source_*
// theorems (length old + 1).  Every generated case small enough is given to it and its answer
// is compared with the bytes diff.Diff returned: a test of the translator and of the semantic
// libraries Lib/GoSem*.v.  The binary is built only when the current source could be
// translated and the translation compiled; otherwise this comparison is recorded as not run.

import (
	"fmt"
	"os"
	"path/filepath"
	"strings"

	"verif/harness/common"
)

var srcMax = 16 << 10 // bytes of old+new up to which a case is also given to the translated function (thorough: 64 KiB)

func (rn *runner) startSrc() {
	if rn.f.Tier == "thorough" {
		srcMax = 64 << 10
	}
	path := filepath.Join(filepath.Dir(rn.f.Model), "model_diffsrc")
	if _, err := os.Stat(path); err != nil {
		rn.res.Notes = append(rn.res.Notes, "translated source not run: bin/model_diffsrc was not built (the source could not be translated or the translation did not compile)")
		rn.res.Count("translated-source:not-run")
		return
	}
	m, err := common.StartModel(path)
	if err != nil {
		rn.res.Notes = append(rn.res.Notes, "translated source not run: "+err.Error())
		rn.res.Count("translated-source:not-run")
		return
	}
	rn.ms = m
}

func (rn *runner) closeSrc() {
	if rn.ms != nil {
		rn.ms.Close()
	}
}

// flushSrc: the batch about to be compared with the hand-written model, also through the translation.
func (rn *runner) flushSrc() {
	if rn.ms == nil {
		return
	}
	var reqs []string
	var idx []int
	for i, c := range rn.batch {
		if len(c.old)+len(c.new) <= srcMax {
			reqs = append(reqs, c.req())
			idx = append(idx, i)
		}
	}
	if len(reqs) == 0 {
		return
	}
	ans, err := rn.ms.Ask(reqs)
	if err != nil {
		rn.res.Notes = append(rn.res.Notes, "translated-source process error: "+err.Error())
		rn.res.Violate(common.Violation{Kind: "correspondence", Oracle: "translated-source-process", Key: "srcmodel-died", Detail: err.Error(), Input: map[string]string{}})
		rn.ms = nil
		return
	}
	for j, i := range idx {
		if ans[j] == rn.impl[i] {
			rn.res.Count("translated-source:agrees")
			continue
		}
		rn.srcMismatch(rn.batch[i], ans[j])
	}
}

func (rn *runner) srcMismatch(c tcase, model string) {
	rn.res.Count("translated-source:DIFFERS")
	if rn.nshr["s"]++; rn.nshr["s"] > 4 {
		return
	}
	bad := func(d tcase) bool { return rn.ms.Ask1(d.req()) != showImpl(implRaw(d)) }
	if bad(c) {
		c = shrinkCase(c, bad)
		model = rn.ms.Ask1(c.req())
	}
	out, p := implRaw(c)
	in := c.input()
	in["impl_text"] = fmt.Sprintf("%q", out)
	if strings.HasPrefix(model, "ok ") {
		in["translated_text"] = fmt.Sprintf("%q", common.UnHex(model[3:]))
	}
	rn.res.Violate(common.Violation{Kind: "correspondence", Oracle: "translated-source", Input: in,
		Model: model, Impl: showImpl(out, p), Key: "srcdiff:" + c.key(),
		Detail: "bytes of diff.Diff differ from what the translation of diff.go (Gen/DiffSrc.v, extracted) computes with fuel = len(old)+1: the translator or its semantic library misreads the source"})
}

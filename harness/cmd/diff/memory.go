// The memory dimension of the C08 runner.
//
// The property quantifies over all pairs of TEXTS; diff.Diff receives them as byte slices,
// and a byte slice is a view (address, length, capacity) of memory the caller owns.  The
// Gallina model is over immutable lists, so everything that depends on WHERE the texts live
// is a run-time dimension that only the runner can exercise:
//
//	(a) layouts: every generated pair of texts is handed to Diff not only as two private
//	    allocations but also as two views of ONE buffer — apart with and without spare
//	    capacity behind them, adjacent in both orders (old's capacity then covers new), and,
//	    whenever the values allow it, starting at the same address with different lengths,
//	    overlapping, or one inside the other.  All oracles of main.go run on the result;
//	(b) inputs-unchanged: the whole buffer (the two texts AND the bytes behind them within
//	    capacity) must be byte-for-byte what it was before the call;
//	(c) result-independent-of-input-memory: overwriting the buffer after the call must not
//	    change the result; result-stable-across-calls: a window of the last results is kept
//	    alive exactly as returned and re-verified after every later call, regularly also after
//	    calls made by a second goroutine, and in a concurrent section where several goroutines
//	    call Diff at the same time and compare everything they were given at the very end.
//
// A result that differs from the one for private copies but passes every oracle is not a
// violation of the property; it is reported as a correspondence finding (the model, a function
// of the two texts alone, no longer describes the code).
package main

import (
	"bytes"
	"fmt"
	"hash/fnv"
	"sync"

	"github.com/rogpeppe/go-internal/diff"

	"verif/harness/common"
)

const guard = "~G\n~" // live data of the caller behind a text

type layout struct {
	kind       string
	buf        []byte // the caller's buffer
	old, new   []byte // views of buf
	oOff, nOff int    // where they start in buf
}

// layoutKinds in the order they are tried.  "private" (two exact allocations) is the baseline of main.go.
var layoutKinds = []string{
	"apart-tight",            // old ~ new ~ in one buffer, capacity == length
	"apart-spare",            // the same, capacity reaches over the guard bytes behind each text
	"adjacent-old-new",       // new directly behind old: old's capacity covers new, new's covers the guard
	"adjacent-old-new-tight", // the same with capacity == length
	"adjacent-new-old",       // old directly behind new
	"same-start",             // one text is a prefix of the other: both views start at the same address
	"same-start-tight",
	"overlap-old-new", // a proper suffix of old is a prefix of new: the views share those bytes
	"overlap-new-old",
	"new-inside-old", // new occurs inside old (not at its start): a view into the middle of old
	"old-inside-new",
	"nil-for-empty", // an empty text passed as a nil slice
}

func cat(parts ...[]byte) []byte {
	var b []byte
	for _, p := range parts {
		b = append(b, p...)
	}
	return b
}

// largest k, 1 <= k < len(a), k <= len(b), with a[len(a)-k:] == b[:k]; 0 if none
func overlapLen(a, b []byte) int {
	k := len(a) - 1
	if len(b) < k {
		k = len(b)
	}
	for ; k >= 1; k-- {
		if bytes.Equal(a[len(a)-k:], b[:k]) {
			return k
		}
	}
	return 0
}

// offset p >= 1 at which inner can be viewed inside outer (len(inner) < len(outer)); -1 if none
func insideAt(outer, inner []byte) int {
	if len(inner) >= len(outer) {
		return -1
	}
	if len(inner) == 0 {
		return (len(outer) + 1) / 2
	}
	if p := bytes.LastIndex(outer, inner); p >= 1 {
		return p
	}
	return -1
}

func buildLayout(kind string, old, new []byte) (layout, bool) {
	lo, ln, g := len(old), len(new), len(guard)
	l := layout{kind: kind}
	switch kind {
	case "apart-tight", "apart-spare":
		l.buf = cat(old, []byte(guard), new, []byte(guard))
		l.nOff = lo + g
		if kind == "apart-tight" {
			l.old, l.new = l.buf[0:lo:lo], l.buf[lo+g:lo+g+ln:lo+g+ln]
		} else {
			l.old, l.new = l.buf[0:lo:lo+g], l.buf[lo+g:lo+g+ln:lo+g+ln+g]
		}
	case "adjacent-old-new", "adjacent-old-new-tight":
		l.buf = cat(old, new, []byte(guard))
		l.nOff = lo
		if kind == "adjacent-old-new" {
			l.old, l.new = l.buf[0:lo], l.buf[lo:lo+ln]
		} else {
			l.old, l.new = l.buf[0:lo:lo], l.buf[lo:lo+ln:lo+ln]
		}
	case "adjacent-new-old":
		l.buf = cat(new, old, []byte(guard))
		l.new, l.old = l.buf[0:ln], l.buf[ln:ln+lo]
		l.oOff = ln
	case "same-start", "same-start-tight":
		long, short := old, new
		if ln > lo {
			long, short = new, old
		}
		if !bytes.HasPrefix(long, short) {
			return l, false
		}
		l.buf = cat(long, []byte(guard))
		if kind == "same-start" {
			l.old, l.new = l.buf[:lo], l.buf[:ln]
		} else {
			l.old, l.new = l.buf[:lo:lo], l.buf[:ln:ln]
		}
	case "overlap-old-new":
		k := overlapLen(old, new)
		if k == 0 {
			return l, false
		}
		l.buf = cat(old, new[k:], []byte(guard))
		l.old, l.new = l.buf[:lo], l.buf[lo-k:lo-k+ln]
		l.nOff = lo - k
	case "overlap-new-old":
		k := overlapLen(new, old)
		if k == 0 {
			return l, false
		}
		l.buf = cat(new, old[k:], []byte(guard))
		l.new, l.old = l.buf[:ln], l.buf[ln-k:ln-k+lo]
		l.oOff = ln - k
	case "new-inside-old":
		p := insideAt(old, new)
		if p < 0 {
			return l, false
		}
		l.buf = cat(old, []byte(guard))
		l.old, l.new = l.buf[:lo], l.buf[p:p+ln]
		l.nOff = p
	case "old-inside-new":
		p := insideAt(new, old)
		if p < 0 {
			return l, false
		}
		l.buf = cat(new, []byte(guard))
		l.new, l.old = l.buf[:ln], l.buf[p:p+lo]
		l.oOff = p
	case "nil-for-empty":
		if lo > 0 && ln > 0 {
			return l, false
		}
		l.buf = cat(old, []byte(guard), new, []byte(guard))
		l.nOff = lo + g
		l.old, l.new = l.buf[0:lo:lo+g], l.buf[lo+g:lo+g+ln:lo+g+ln+g]
		if lo == 0 {
			l.old = nil
		}
		if ln == 0 {
			l.new = nil
		}
	default:
		return l, false
	}
	return l, true
}

type memRun struct {
	applicable bool
	out        []byte // as returned (alive)
	panicked   bool
	changedAt  int    // first byte of the caller's buffer that differs after the call, -1 if none
	before     []byte // the buffer before the call
	after      []byte // and after it (only when changed)
	unstable   bool   // the result changed when the caller's buffer was overwritten after the call
	lay        layout
}

// runIn calls Diff on the views of the given layout ("private": two exact private allocations).
func runIn(c tcase, kind string) (r memRun) {
	r.changedAt = -1
	if kind == "private" {
		r.applicable = true
		r.out, r.panicked = implRaw(c)
		return r
	}
	lay, ok := buildLayout(kind, c.old, c.new)
	if !ok {
		return r
	}
	r.applicable, r.lay = true, lay
	r.before = append([]byte{}, lay.buf...)
	func() {
		defer func() {
			if e := recover(); e != nil {
				r.out, r.panicked = nil, true
			}
		}()
		r.out = diff.Diff(c.oldName, lay.old, c.newName, lay.new)
	}()
	if !bytes.Equal(lay.buf, r.before) {
		r.after = append([]byte{}, lay.buf...)
		for i := range lay.buf {
			if lay.buf[i] != r.before[i] {
				r.changedAt = i
				break
			}
		}
		return r
	}
	// the buffer is the caller's: what it does with it afterwards must not reach the result
	snap := append([]byte{}, r.out...)
	for i := range lay.buf {
		lay.buf[i] ^= 0x55
	}
	r.unstable = !bytes.Equal(r.out, snap)
	copy(lay.buf, r.before)
	return r
}

type fail struct{ name, detail string }

// memOracles evaluates the property for one case in one layout and returns every failing oracle
// (a call that writes to its inputs usually also returns a wrong diff: both are reported).
func memOracles(c tcase, kind string) (fs []fail, r memRun) {
	r = runIn(c, kind)
	if !r.applicable {
		return nil, r
	}
	if r.panicked {
		return []fail{{"no-panic", "diff.Diff panicked (layout " + kind + ")"}}, r
	}
	if r.changedAt >= 0 {
		fs = append(fs, fail{"inputs-unchanged", fmt.Sprintf("layout %s: byte %d of the caller's buffer was %q and is %q after the call (buffer %q -> %q; old = buf[%d:%d] cap %d, new = buf[%d:%d] cap %d)",
			kind, r.changedAt, r.before[r.changedAt], r.after[r.changedAt], trunc(r.before), trunc(r.after),
			r.lay.oOff, r.lay.oOff+len(r.lay.old), cap(r.lay.old),
			r.lay.nOff, r.lay.nOff+len(r.lay.new), cap(r.lay.new))})
	}
	if r.unstable {
		fs = append(fs, fail{"result-independent-of-input-memory", "layout " + kind + ": the returned diff changed when the caller overwrote its own buffer after the call"})
	}
	// the texts the caller passed are c.old and c.new (the buffer's content before the call)
	if name, detail := oracleOut(c, r.out); name != "" {
		fs = append(fs, fail{name, "layout " + kind + ": " + detail})
	}
	return fs, r
}

func memFails(c tcase, kind, name string) (bool, string) {
	fs, _ := memOracles(c, kind)
	for _, f := range fs {
		if f.name == name {
			return true, f.detail
		}
	}
	return false, ""
}

func shortKey(s string) string {
	h := fnv.New64a()
	h.Write([]byte(s))
	return fmt.Sprintf("%016x", h.Sum64())
}

func (rn *runner) memViolation(c tcase, kind, name, detail string) {
	rn.res.Count("oracle-fails:" + name + "@" + kind)
	if rn.nshr["mo:"+name]++; rn.nshr["mo:"+name] > 3 {
		return
	}
	bad := func(d tcase) bool { b, _ := memFails(d, kind, name); return b }
	if bad(c) {
		c = shrinkCase(c, bad)
	}
	if _, d2 := memFails(c, kind, name); d2 != "" {
		detail = d2
	}
	r := runIn(c, kind)
	in := c.input()
	in["layout"] = kind
	in["impl_text"] = fmt.Sprintf("%q", r.out)
	if r.applicable && kind != "private" {
		in["buffer_text"] = fmt.Sprintf("%q", trunc(r.before))
	}
	rn.res.Violate(common.Violation{Kind: "impl-violation", Oracle: name, Input: in,
		Impl: showImpl(r.out, r.panicked), Key: name + "@" + kind + ":" + c.key(), Detail: detail})
}

// layouts runs the case in every applicable layout; base = the result for private copies.
func (rn *runner) layouts(c tcase, base []byte, basePanicked bool) {
	for _, kind := range layoutKinds {
		fs, r := memOracles(c, kind)
		if !r.applicable {
			continue
		}
		rn.res.Count("layout:" + kind)
		rn.res.Case(shortKey(c.key()+"@"+kind), len(r.out) > 0 || r.panicked)
		rn.stab.after(rn, c, kind, r.out)
		for _, f := range fs {
			rn.memViolation(c, kind, f.name, f.detail)
		}
		if len(fs) > 0 || basePanicked || bytes.Equal(r.out, base) {
			continue
		}
		// a different but correct diff: the result depends on where the texts live
		rn.res.Count("mismatch:layout-dependent")
		if rn.nshr["ld"]++; rn.nshr["ld"] > 3 {
			continue
		}
		in := c.input()
		in["layout"] = kind
		in["impl_text"] = fmt.Sprintf("%q", r.out)
		in["private_text"] = fmt.Sprintf("%q", base)
		rn.res.Violate(common.Violation{Kind: "correspondence", Oracle: "layout-independent", Input: in,
			Impl: showImpl(r.out, false), Model: showImpl(base, false), Key: "layout-independent@" + kind + ":" + c.key(),
			Detail: "diff.Diff returns different bytes for the same two texts in layout " + kind + " than for private copies (the model is a function of the texts alone)"})
	}
}

// ---------------------------------------------------------------- results stay what they were

const stableK = 12

type keptRes struct {
	c    tcase
	kind string
	live []byte // as returned
	snap []byte // copy taken at return time
}

type stability struct {
	ring     []keptRes
	calls    int
	reported int
}

// pairFails: the result for (c1,k1) changes when Diff is called for (c2,k2) afterwards.
func pairFails(c1 tcase, k1 string, c2 tcase, k2 string) bool {
	for try := 0; try < 3; try++ {
		r1 := runIn(c1, k1)
		if !r1.applicable || len(r1.out) == 0 {
			return false
		}
		snap := append([]byte{}, r1.out...)
		runIn(c2, k2)
		if !bytes.Equal(r1.out, snap) {
			return true
		}
	}
	return false
}

func pairInput(c1 tcase, k1 string, c2 tcase, k2 string, where string) map[string]string {
	in := c1.input()
	in["mode"], in["layout"], in["where"] = "stability", k1, where
	for k, v := range c2.input() {
		in[k+"2"] = v
	}
	in["layout2"] = k2
	return in
}

func (st *stability) verify(rn *runner, c2 tcase, k2 string, where string) {
	for i := range st.ring {
		k := &st.ring[i]
		if bytes.Equal(k.live, k.snap) {
			continue
		}
		rn.res.Count("oracle-fails:result-stable-across-calls")
		was, now := k.snap, append([]byte{}, k.live...)
		k.snap = now // report once
		if st.reported++; st.reported > 3 {
			continue
		}
		c1, k1 := k.c, k.kind
		if pairFails(c1, k1, c2, k2) {
			c2 = shrinkCase(c2, func(d tcase) bool { return pairFails(c1, k1, d, k2) })
			c1 = shrinkCase(c1, func(d tcase) bool { return pairFails(d, k1, c2, k2) })
			r := runIn(c1, k1)
			was = append([]byte{}, r.out...)
			runIn(c2, k2)
			now = append([]byte{}, r.out...)
		}
		in := pairInput(c1, k1, c2, k2, where)
		in["result_at_return_text"] = fmt.Sprintf("%q", trunc(was))
		in["result_after_later_call_text"] = fmt.Sprintf("%q", trunc(now))
		rn.res.Violate(common.Violation{Kind: "impl-violation", Oracle: "result-stable-across-calls", Input: in,
			Impl: fmt.Sprintf("at return %q, after the later call %q", trunc(was), trunc(now)),
			Key:  "result-stable-across-calls:" + c1.key() + ":" + c2.key(),
			Detail: "the bytes returned by diff.Diff(old, new) changed when diff.Diff(old2, new2) was called later (" + where +
				"): the result lives in storage the package reuses, so it stops being a diff of old and new"})
	}
}

// after: a call for (c,kind) has just returned out; verify everything kept, then keep it.
func (st *stability) after(rn *runner, c tcase, kind string, out []byte) {
	st.calls++
	st.verify(rn, c, kind, "same goroutine")
	if len(out) == 0 {
		return
	}
	k := keptRes{c: c, kind: kind, live: out, snap: append([]byte{}, out...)}
	if len(st.ring) < stableK {
		st.ring = append(st.ring, k)
	} else {
		st.ring[st.calls%stableK] = k
	}
	if st.calls%257 == 0 { // the same call made by a second goroutine, which has finished when we look
		done := make(chan struct{})
		go func() {
			defer close(done)
			runIn(c, kind)
			runIn(c, "private")
		}()
		<-done
		rn.res.Count("stable:verified-after-second-goroutine")
		st.verify(rn, c, kind, "second goroutine")
	}
}

var concurrentReported int

// concurrentFails runs the cases on `workers` goroutines at the same time (worker w takes the
// cases w, w+workers, ...), each keeping everything it was given until all have finished; it
// returns the index of a case whose result is not (or no longer) what a call on its own returns.
func concurrentFails(cs []tcase, want [][]byte, workers, rounds int) (int, []byte) {
	badAt := make([]int, workers)
	badOut := make([][]byte, workers)
	var wg sync.WaitGroup
	for w := 0; w < workers; w++ {
		badAt[w] = -1
		wg.Add(1)
		go func(w int) {
			defer wg.Done()
			type got struct {
				i   int
				out []byte
			}
			var gs []got
			for r := 0; r < rounds; r++ {
				for i := w; i < len(cs); i += workers {
					out, _ := implRaw(cs[i])
					gs = append(gs, got{i, out})
				}
			}
			for _, g := range gs {
				if !bytes.Equal(g.out, want[g.i]) && badAt[w] < 0 {
					badAt[w], badOut[w] = g.i, append([]byte{}, g.out...)
				}
			}
		}(w)
	}
	wg.Wait()
	for w := range badAt {
		if badAt[w] >= 0 {
			return badAt[w], badOut[w]
		}
	}
	return -1, nil
}

// concurrent: results obtained while other goroutines are calling Diff must be, and stay, the
// diff of their own inputs.
func (rn *runner) concurrent(cs []tcase) {
	const workers = 4
	var keep []tcase
	var want [][]byte
	for _, c := range cs {
		out, p := implRaw(c)
		if p || len(out) == 0 {
			continue
		}
		keep = append(keep, c)
		want = append(want, append([]byte{}, out...))
	}
	if len(keep) < 2*workers {
		return
	}
	rn.res.Count("stable:concurrent-sections")
	i, got := concurrentFails(keep, want, workers, 3)
	if i < 0 {
		return
	}
	rn.res.Count("oracle-fails:result-stable-across-calls")
	if concurrentReported++; concurrentReported > 1 {
		return
	}
	c1 := keep[i]
	c2 := keep[(i+workers)%len(keep)] // the next case of the same worker
	in := pairInput(c1, "private", c2, "private", "concurrent goroutines")
	in["result_alone_text"] = fmt.Sprintf("%q", trunc(want[i]))
	in["result_seen_text"] = fmt.Sprintf("%q", trunc(got))
	rn.res.Violate(common.Violation{Kind: "impl-violation", Oracle: "result-stable-across-calls", Input: in,
		Impl:   fmt.Sprintf("alone %q, among concurrent calls %q", trunc(want[i]), trunc(got)),
		Key:    "result-stable-across-calls:concurrent:" + c1.key(),
		Detail: "a result of diff.Diff obtained while other goroutines were calling diff.Diff is not (or did not remain) the diff of its own inputs"})
}

// replayStability re-executes a recorded (earlier call, later call) pair.
func (rn *runner) replayStability(in map[string]string) {
	get := func(sfx string) (tcase, string) {
		k := in["layout"+sfx]
		if k == "" {
			k = "private"
		}
		return tcase{oldName: string(common.UnHex(in["oldName"+sfx])), newName: string(common.UnHex(in["newName"+sfx])),
			old: common.UnHex(in["old"+sfx]), new: common.UnHex(in["new"+sfx])}, k
	}
	c1, k1 := get("")
	c2, k2 := get("2")
	rn.res.Case(shortKey("stability:"+c1.key()+c2.key()), true)
	fails := pairFails(c1, k1, c2, k2)
	if !fails && in["where"] == "concurrent goroutines" {
		cs := []tcase{c1, c2, c1, c2, c1, c2, c1, c2}
		var want [][]byte
		for _, c := range cs {
			o, _ := implRaw(c)
			want = append(want, append([]byte{}, o...))
		}
		i, _ := concurrentFails(cs, want, 4, 50)
		fails = i >= 0
	}
	if fails {
		rn.res.Violate(common.Violation{Kind: "impl-violation", Oracle: "result-stable-across-calls", Input: in,
			Key: "result-stable-across-calls:" + c1.key() + ":" + c2.key(), Detail: "the result of the first call changed when the second call was made"})
	}
}

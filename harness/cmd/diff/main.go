// Command diff is the correspondence + oracle runner for C08 (diff.Diff is a
// correct, well-formed unified diff).
//
// Correspondence: the bytes returned by diff.Diff(oldName, old, newName, new) are
// compared with `render` of the extracted Coq model (request "diff").
//
// Direct oracles on the implementation's output (no model involved): an
// independent unified-diff parser and patch applier (forward application must
// reproduce new, reverse application must reproduce old, byte for byte, including
// the missing-final-newline convention), header shape, hunks ordered and
// non-overlapping on both sides, counts matching bodies, start lines matching
// positions, empty output iff the texts are identical, no panic.
package main

import (
	"bytes"
	"fmt"
	"os"
	"path/filepath"
	"regexp"
	"sort"
	"strconv"
	"strings"
	"time"

	"github.com/rogpeppe/go-internal/diff"

	"verif/harness/common"
)

const noNewline = "\\ No newline at end of file\n" // as printed by BSD/GNU diff (oracle's own copy)

// ---------------------------------------------------------------- implementation

type tcase struct {
	oldName, newName string
	old, new         []byte
}

func (c tcase) input() map[string]string {
	return map[string]string{
		"oldName": common.Hex([]byte(c.oldName)), "newName": common.Hex([]byte(c.newName)),
		"old": common.Hex(c.old), "new": common.Hex(c.new),
		"old_text": fmt.Sprintf("%q", c.old), "new_text": fmt.Sprintf("%q", c.new),
	}
}

func (c tcase) key() string { return common.Hex(c.old) + "/" + common.Hex(c.new) }

func (c tcase) req() string {
	return "diff " + common.Hex([]byte(c.oldName)) + " " + common.Hex(c.old) + " " +
		common.Hex([]byte(c.newName)) + " " + common.Hex(c.new)
}

// implRaw runs the implementation; panicked reports a panic.
func implRaw(c tcase) (out []byte, panicked bool) {
	defer func() {
		if e := recover(); e != nil {
			out, panicked = nil, true
		}
	}()
	// Diff must not modify or retain its arguments; give it private copies
	return diff.Diff(c.oldName, append([]byte{}, c.old...), c.newName, append([]byte{}, c.new...)), false
}

func showImpl(out []byte, panicked bool) string {
	if panicked {
		return "PANIC"
	}
	return "ok " + common.Hex(out)
}

// ---------------------------------------------------------------- independent unified-diff reader

type bline struct {
	tag  byte
	text []byte // the line as it stands in the file (with its NL unless the marker followed)
}
type uhunk struct {
	sx, cx, sy, cy int
	body           []bline
}

var hunkRE = regexp.MustCompile(`^@@ -(\d+),(\d+) \+(\d+),(\d+) @@$`)

// parseUnified reads the output of Diff. It is written from the description of the
// unified format, not from the implementation: body lines are consumed by the counts
// of the hunk header, a line starting with a backslash removes the newline of the
// body line before it.
func parseUnified(out []byte, oldName, newName string) ([]uhunk, error) {
	hdr := "diff " + oldName + " " + newName + "\n--- " + oldName + "\n+++ " + newName + "\n"
	if !bytes.HasPrefix(out, []byte(hdr)) {
		return nil, fmt.Errorf("header-shape: output does not start with the three header lines")
	}
	rest := out[len(hdr):]
	readLine := func() ([]byte, bool) {
		i := bytes.IndexByte(rest, '\n')
		if i < 0 {
			return nil, false
		}
		l := rest[:i+1]
		rest = rest[i+1:]
		return l, true
	}
	var hs []uhunk
	for len(rest) > 0 {
		l, ok := readLine()
		if !ok {
			return nil, fmt.Errorf("hunk-header: unterminated line %q", rest)
		}
		m := hunkRE.FindSubmatch(l[:len(l)-1])
		if m == nil {
			return nil, fmt.Errorf("hunk-header: expected @@ -a,b +c,d @@, got %q", l)
		}
		var h uhunk
		h.sx, _ = strconv.Atoi(string(m[1]))
		h.cx, _ = strconv.Atoi(string(m[2]))
		h.sy, _ = strconv.Atoi(string(m[3]))
		h.cy, _ = strconv.Atoi(string(m[4]))
		for _, f := range m[1:] { // %d never prints leading zeros
			if len(f) > 1 && f[0] == '0' {
				return nil, fmt.Errorf("hunk-header: leading zero in %q", l)
			}
		}
		nx, ny := 0, 0
		for nx < h.cx || ny < h.cy {
			b, ok := readLine()
			if !ok {
				return nil, fmt.Errorf("counts: body of hunk %q ends early (%d/%d old, %d/%d new lines)", l, nx, h.cx, ny, h.cy)
			}
			switch b[0] {
			case ' ':
				nx++
				ny++
			case '-':
				nx++
			case '+':
				ny++
			default:
				return nil, fmt.Errorf("counts: body line %q of hunk %q has no tag (%d/%d old, %d/%d new)", b, l, nx, h.cx, ny, h.cy)
			}
			text := b[1:]
			if len(rest) > 0 && rest[0] == '\\' {
				mk, _ := readLine()
				if string(mk) != noNewline {
					return nil, fmt.Errorf("no-newline marker: unexpected %q", mk)
				}
				text = text[:len(text)-1]
			}
			h.body = append(h.body, bline{b[0], text})
		}
		if nx != h.cx || ny != h.cy {
			return nil, fmt.Errorf("counts: hunk %q has %d old / %d new body lines", l, nx, ny)
		}
		hs = append(hs, h)
	}
	return hs, nil
}

// fileLines splits a file into its lines as they stand (last one possibly unterminated).
func fileLines(t []byte) [][]byte {
	var ls [][]byte
	for len(t) > 0 {
		i := bytes.IndexByte(t, '\n')
		if i < 0 {
			ls = append(ls, t)
			break
		}
		ls = append(ls, t[:i+1])
		t = t[i+1:]
	}
	return ls
}

// applyPatch applies hs to src; reverse swaps the roles of the two sides.
func applyPatch(src []byte, hs []uhunk, reverse bool) ([]byte, error) {
	in := fileLines(src)
	var out [][]byte
	pos := 0
	for k, h := range hs {
		s, c, s2, c2 := h.sx, h.cx, h.sy, h.cy
		del, add := byte('-'), byte('+')
		if reverse {
			s, c, s2, c2 = h.sy, h.cy, h.sx, h.cx
			del, add = '+', '-'
		}
		p, q := s, s2
		if c > 0 {
			if s == 0 {
				return nil, fmt.Errorf("start-lines: hunk %d: line 0 with a non-empty range", k)
			}
			p = s - 1
		}
		if c2 > 0 {
			if s2 == 0 {
				return nil, fmt.Errorf("start-lines: hunk %d: line 0 with a non-empty range", k)
			}
			q = s2 - 1
		}
		if p < pos {
			return nil, fmt.Errorf("order: hunk %d starts at source line %d, before the end %d of the previous one", k, p, pos)
		}
		if p > len(in) {
			return nil, fmt.Errorf("start-lines: hunk %d starts beyond the end of the source", k)
		}
		out = append(out, in[pos:p]...)
		pos = p
		if len(out) != q {
			return nil, fmt.Errorf("start-lines: hunk %d: target start %d but %d lines produced so far", k, q, len(out))
		}
		used, made := 0, 0
		for _, b := range h.body {
			switch b.tag {
			case ' ', del:
				if pos >= len(in) || !bytes.Equal(in[pos], b.text) {
					return nil, fmt.Errorf("body-match: hunk %d: line %q does not match source line %d", k, b.text, pos)
				}
				pos++
				used++
				if b.tag == ' ' {
					out = append(out, b.text)
					made++
				}
			case add:
				out = append(out, b.text)
				made++
			}
		}
		if used != c || made != c2 {
			return nil, fmt.Errorf("counts: hunk %d: header says %d/%d, body has %d/%d", k, c, c2, used, made)
		}
	}
	out = append(out, in[pos:]...)
	// an unterminated line can only be the last one
	for i, l := range out {
		if i < len(out)-1 && (len(l) == 0 || l[len(l)-1] != '\n') {
			return nil, fmt.Errorf("no-newline: unterminated line %q in the middle of the result", l)
		}
	}
	return bytes.Join(out, nil), nil
}

// oracle evaluates the property on the implementation for one case.
// It returns "" or the name of the failing oracle plus a detail.
func oracle(c tcase) (name, detail string) {
	out, panicked := implRaw(c)
	if panicked {
		return "no-panic", "diff.Diff panicked"
	}
	return oracleOut(c, out)
}

// oracleOut evaluates the property on the bytes out returned for the texts of c
// (however they were laid out in memory when Diff was called).
func oracleOut(c tcase, out []byte) (name, detail string) {
	same := bytes.Equal(c.old, c.new)
	if same != (len(out) == 0) {
		return "empty-iff-identical", fmt.Sprintf("identical=%v but %d bytes of output", same, len(out))
	}
	if same {
		return "", ""
	}
	hs, err := parseUnified(out, c.oldName, c.newName)
	if err != nil {
		return oracleName(err), err.Error()
	}
	if len(hs) == 0 {
		return "empty-iff-identical", "texts differ but the diff has no hunk"
	}
	got, err := applyPatch(c.old, hs, false)
	if err != nil {
		return "forward/" + oracleName(err), err.Error()
	}
	if !bytes.Equal(got, c.new) {
		return "forward/reproduces-new", fmt.Sprintf("patch(old) = %q, new = %q", got, c.new)
	}
	back, err := applyPatch(c.new, hs, true)
	if err != nil {
		return "reverse/" + oracleName(err), err.Error()
	}
	if !bytes.Equal(back, c.old) {
		return "reverse/reproduces-old", fmt.Sprintf("unpatch(new) = %q, old = %q", back, c.old)
	}
	return "", ""
}

func oracleName(err error) string {
	s := err.Error()
	if i := strings.Index(s, ":"); i > 0 {
		return s[:i]
	}
	return "parse"
}

// ---------------------------------------------------------------- generators

func joinLines(ls []string, finalNL bool) []byte {
	s := strings.Join(ls, "\n")
	if finalNL && len(ls) > 0 {
		s += "\n"
	}
	return []byte(s)
}

// all line sequences over sigma of length <= n
func seqs(sigma []string, n int) [][]string {
	res := [][]string{{}}
	level := [][]string{{}}
	for l := 1; l <= n; l++ {
		var next [][]string
		for _, s := range level {
			for _, a := range sigma {
				next = append(next, append(append([]string{}, s...), a))
			}
		}
		res = append(res, next...)
		level = next
	}
	return res
}

func texts(sigma []string, n int) [][]byte {
	var ts [][]byte
	for _, s := range seqs(sigma, n) {
		if len(s) == 0 {
			ts = append(ts, []byte{})
			continue
		}
		ts = append(ts, joinLines(s, true), joinLines(s, false))
	}
	return ts
}

var syntaxLines = []string{"+x", "-x", " x", "@@ -1 +1 @@", "@@ -1,1 +1,1 @@", "\\ No newline at end of file",
	"--- a", "+++ b", "diff a b", "", " ", "\\", "+", "-", "@@", "dup", "dup", "dup2", "}", "\r",
	// printf-verb-ish and escape-ish tokens (a text line must never be read as a format)
	"%", "%d", "100%", "%s %v %%", "%!", "%%", "%!d(MISSING)", "%[1]d", "%-5d|", "%\n", "\\n", "\\", "\t", "a\tb", "a\x00b", "\x00", "%c%c",
	// editor artefacts: byte-order mark, CRLF endings, invalid UTF-8, form feed
	"\xef\xbb\xbf", "\xef\xbb\xbfline1", "crlf\r", "dup\r", "\xff\xfe", "\xc3", "\f"}

// file names are data, never formats or syntax: blanks, diff syntax, printf verbs, a newline
var fileNames = []string{"a b", "", "x/y.txt", "--- q", "é", "b", "+++ z", "new file", "%d", "100%", "%s%s.txt", "%!s(MISSING)",
	"%[2]s", "%v/%%", "@@ -1,1 +1,1 @@", "two\nlines", "\xef\xbb\xbfbom", "tab\there", "\\ No newline at end of file"}

// structured: common runs of 0..9 lines between edits, duplicates, diff-looking lines
func genStructured(r *common.RNG) tcase {
	uniq := 0
	fresh := func() string {
		if r.Chance(1, 4) {
			return common.Pick(r, syntaxLines)
		}
		if r.Chance(1, 5) {
			return "dup"
		}
		uniq++
		return fmt.Sprintf("line%d", uniq)
	}
	var o, n []string
	nedits := 1 + r.Intn(4)
	for e := 0; e <= nedits; e++ {
		run := r.Intn(10)
		if r.Chance(1, 6) {
			run = 10 + r.Intn(8)
		}
		if (e == 0 || e == nedits) && r.Chance(1, 3) {
			run = 0
		}
		for i := 0; i < run; i++ {
			l := fresh()
			o = append(o, l)
			n = append(n, l)
		}
		if e == nedits {
			break
		}
		switch r.Intn(5) {
		case 0: // delete
			for i, k := 0, 1+r.Intn(3); i < k; i++ {
				o = append(o, fresh())
			}
		case 1: // insert
			for i, k := 0, 1+r.Intn(3); i < k; i++ {
				n = append(n, fresh())
			}
		case 2: // replace
			for i, k := 0, 1+r.Intn(3); i < k; i++ {
				o = append(o, fresh())
			}
			for i, k := 0, 1+r.Intn(3); i < k; i++ {
				n = append(n, fresh())
			}
		case 3: // swap two unique lines (crossing anchors)
			a, b := fresh(), fresh()
			o = append(o, a, b)
			n = append(n, b, a)
		case 4: // repeated line inserted next to a copy of itself
			l := fresh()
			o = append(o, l)
			n = append(n, l, l)
		}
	}
	c := tcase{oldName: "old", newName: "new", old: joinLines(o, !r.Chance(1, 3)), new: joinLines(n, !r.Chance(1, 3))}
	if r.Chance(1, 8) {
		c.oldName, c.newName = common.Pick(r, fileNames), common.Pick(r, fileNames)
	}
	return c
}

// random texts over a small line alphabet (many duplicates) or a large one (many anchors)
func genRandom(r *common.RNG, maxLines int) tcase {
	alpha := 2 + r.Intn(6)
	if r.Chance(1, 2) {
		alpha = 50 + r.Intn(2000)
	}
	n := r.Intn(maxLines + 1)
	base := make([]string, n)
	for i := range base {
		base[i] = fmt.Sprintf("w%d", r.Intn(alpha))
		if r.Chance(1, 40) {
			base[i] = common.Pick(r, syntaxLines)
		}
		if r.Chance(1, 12) {
			base[i] = fmt.Sprintf("%d%% of %%%c", r.Intn(alpha), "dsvq%"[r.Intn(5)])
		}
	}
	mutate := func(src []string) []string {
		var out []string
		rate := 2 + r.Intn(30)
		for i := 0; i < len(src); i++ {
			switch {
			case r.Chance(1, rate*3):
				// drop
			case r.Chance(1, rate*3):
				out = append(out, src[i], fmt.Sprintf("w%d", r.Intn(alpha)))
			case r.Chance(1, rate*3):
				out = append(out, fmt.Sprintf("n%d", r.Intn(alpha)))
			case r.Chance(1, rate*6) && i+1 < len(src):
				out = append(out, src[i+1], src[i])
				i++
			default:
				out = append(out, src[i])
			}
		}
		return out
	}
	o, nn := base, mutate(base)
	if r.Chance(1, 3) {
		o = mutate(base)
	}
	if r.Chance(1, 20) { // unrelated texts
		nn = make([]string, r.Intn(maxLines/4+1))
		for i := range nn {
			nn[i] = fmt.Sprintf("w%d", r.Intn(alpha))
		}
	}
	return tcase{oldName: "a", newName: "b", old: joinLines(o, !r.Chance(1, 4)), new: joinLines(nn, !r.Chance(1, 4))}
}

// genViews: old and new are two pieces of one text.
func genViews(r *common.RNG) tcase {
	var b []byte
	switch r.Intn(4) {
	case 0:
		b = genBytes(r).old
		b = append(b, genBytes(r).new...)
	case 1:
		b = genRandom(r, 40).old
	default:
		b = genStructured(r).old
	}
	if r.Chance(1, 3) && len(b) > 0 && b[len(b)-1] == '\n' {
		b = b[:len(b)-1]
	}
	// cut points: mostly at line starts, sometimes anywhere
	var starts []int
	for i := range b {
		if i == 0 || b[i-1] == '\n' {
			starts = append(starts, i)
		}
	}
	starts = append(starts, len(b))
	cut := func() int {
		if r.Chance(1, 4) {
			return r.Intn(len(b) + 1)
		}
		return common.Pick(r, starts)
	}
	ps := []int{cut(), cut(), cut(), cut()}
	sort.Ints(ps)
	c := tcase{oldName: "old", newName: "new"}
	switch r.Intn(6) {
	case 0, 1: // same start, different lengths
		c.old, c.new = b[:ps[1]], b[:ps[3]]
		if r.Chance(1, 2) {
			c.old, c.new = b[ps[0]:ps[1]], b[ps[0]:ps[3]]
		}
	case 2: // overlapping
		c.old, c.new = b[ps[0]:ps[2]], b[ps[1]:ps[3]]
	case 3: // one inside the other
		c.old, c.new = b[ps[0]:ps[3]], b[ps[1]:ps[2]]
	case 4: // adjacent
		c.old, c.new = b[ps[0]:ps[1]], b[ps[1]:ps[3]]
	case 5: // same end
		c.old, c.new = b[ps[0]:ps[3]], b[ps[2]:ps[3]]
	}
	if r.Bool() {
		c.old, c.new = c.new, c.old
	}
	c.old, c.new = append([]byte{}, c.old...), append([]byte{}, c.new...)
	return c
}

// genBig: few lines but very long ones, or very many lines.
func genBig(r *common.RNG, i int) tcase {
	longLine := func(n int) string {
		b := make([]byte, n)
		for j := range b {
			b[j] = "abcdefgh %\t"[r.Intn(11)]
		}
		return string(b)
	}
	var o, n []string
	switch i % 3 {
	case 0, 1: // long lines: one changed in the middle, one common, one only on one side
		size := 65536 + 1 + r.Intn(5000)
		if i%3 == 1 {
			size = 1<<20 + 1 + r.Intn(1000)
		}
		l1, l2 := longLine(size), longLine(size)
		ch := []byte(l1)
		ch[size/2] = 'Z'
		o = []string{"head", l1, "mid", l2, "tail"}
		n = []string{"head", string(ch), "mid", l2, "tail", longLine(70000)}
	case 2: // many lines
		k := 4200 + r.Intn(1500)
		for j := 0; j < k; j++ {
			l := fmt.Sprintf("row %d", j)
			if r.Chance(1, 10) {
				l = "dup"
			}
			o = append(o, l)
			switch {
			case r.Chance(1, 300):
			case r.Chance(1, 300):
				n = append(n, l, fmt.Sprintf("new %d", j))
			default:
				n = append(n, l)
			}
		}
	}
	return tcase{oldName: "big.old", newName: "big.new", old: joinLines(o, !r.Chance(1, 3)), new: joinLines(n, !r.Chance(1, 3))}
}

// raw bytes (not line structured): NUL, CR, invalid UTF-8, runs of newlines
func genBytes(r *common.RNG) tcase {
	mk := func() []byte {
		b := make([]byte, r.Intn(24))
		for i := range b {
			const al = "\n\na\nb\\+- @\r\x00\xff%%ds\t"
			b[i] = al[r.Intn(len(al))]
		}
		return b
	}
	o := mk()
	n := append([]byte{}, o...)
	for k := r.Intn(4); k > 0 && len(n) > 0; k-- {
		i := r.Intn(len(n))
		switch r.Intn(3) {
		case 0:
			n = append(n[:i], n[i+1:]...)
		case 1:
			n[i] = "\nab"[r.Intn(3)]
		case 2:
			n = append(n[:i], append([]byte{"\nab"[r.Intn(3)]}, n[i:]...)...)
		}
	}
	if r.Chance(1, 4) {
		n = mk()
	}
	return tcase{oldName: "o", newName: "n", old: o, new: n}
}

// ---------------------------------------------------------------- the run

var modelMax = 64 << 10 // bytes of old+new up to which a case is also given to the extracted model (thorough: 400 KiB)

var tLast = time.Now()

func lap(what string) {
	if os.Getenv("VERIF_TIMING") != "" {
		fmt.Fprintf(os.Stderr, "%-20s %6.2fs\n", what, time.Since(tLast).Seconds())
	}
	tLast = time.Now()
}

type runner struct {
	f     *common.Flags
	res   *common.Result
	m     *common.Model
	ms    *common.Model // the translated source (srcmodel.go), nil when not built
	batch []tcase
	impl  []string
	tags  []string
	seen  int
	nshr  map[string]int
	stab  stability
}

func (rn *runner) flush() {
	if len(rn.batch) == 0 {
		return
	}
	reqs := make([]string, len(rn.batch))
	for i, c := range rn.batch {
		reqs[i] = c.req()
	}
	rn.flushSrc()
	ans, err := rn.m.Ask(reqs)
	if err != nil {
		rn.res.Notes = append(rn.res.Notes, "model error: "+err.Error())
		rn.res.Violate(common.Violation{Kind: "correspondence", Oracle: "model-process", Key: "model-died", Detail: err.Error(), Input: map[string]string{}})
	} else {
		for i, c := range rn.batch {
			if ans[i] != rn.impl[i] {
				rn.mismatch(c, ans[i])
			}
		}
	}
	rn.batch, rn.impl, rn.tags = rn.batch[:0], rn.impl[:0], rn.tags[:0]
}

// shrink deletes lines (then bytes) on both sides while bad stays true.
func shrinkCase(c tcase, bad func(tcase) bool) tcase {
	for round := 0; round < 4; round++ {
		before := len(c.old) + len(c.new)
		ol := common.ShrinkList(fileLines(c.old), func(ls [][]byte) bool {
			d := c
			d.old = bytes.Join(ls, nil)
			return bad(d)
		})
		c.old = bytes.Join(ol, nil)
		nl := common.ShrinkList(fileLines(c.new), func(ls [][]byte) bool {
			d := c
			d.new = bytes.Join(ls, nil)
			return bad(d)
		})
		c.new = bytes.Join(nl, nil)
		if len(c.old)+len(c.new) == before {
			break
		}
	}
	if len(c.old)+len(c.new) < 400 {
		c.old = common.ShrinkBytes(c.old, func(b []byte) bool { d := c; d.old = b; return bad(d) })
		c.new = common.ShrinkBytes(c.new, func(b []byte) bool { d := c; d.new = b; return bad(d) })
	}
	return c
}

func (rn *runner) mismatch(c tcase, model string) {
	rn.res.Count("mismatch:diff")
	if rn.nshr["m"]++; rn.nshr["m"] > 4 {
		return
	}
	bad := func(d tcase) bool { return rn.m.Ask1(d.req()) != showImpl(implRaw(d)) }
	if bad(c) {
		c = shrinkCase(c, bad)
		model = rn.m.Ask1(c.req())
	}
	out, p := implRaw(c)
	in := c.input()
	in["impl_text"] = fmt.Sprintf("%q", out)
	if strings.HasPrefix(model, "ok ") {
		in["model_text"] = fmt.Sprintf("%q", common.UnHex(model[3:]))
	}
	rn.res.Violate(common.Violation{Kind: "correspondence", Oracle: "diff", Input: in,
		Model: model, Impl: showImpl(out, p), Key: "diff:" + c.key(),
		Detail: "bytes of diff.Diff differ from render of the model's hunks"})
}

func (rn *runner) violation(c tcase, name, detail string) {
	rn.res.Count("oracle-fails:" + name)
	if rn.nshr["o:"+name]++; rn.nshr["o:"+name] > 4 {
		return
	}
	c = shrinkCase(c, func(d tcase) bool { n, _ := oracle(d); return n == name })
	_, detail2 := oracle(c)
	if detail2 != "" {
		detail = detail2
	}
	out, p := implRaw(c)
	in := c.input()
	in["impl_text"] = fmt.Sprintf("%q", out)
	rn.res.Violate(common.Violation{Kind: "impl-violation", Oracle: name, Input: in,
		Impl: showImpl(out, p), Key: name + ":" + c.key(), Detail: detail})
}

func (rn *runner) one(c tcase, tag string) {
	rn.seen++
	res := rn.res
	res.Count("src:" + tag)
	out, panicked := implRaw(c)
	// coverage buckets, read off the implementation's output
	nh := bytes.Count(out, []byte("\n@@ -"))
	switch {
	case panicked:
		res.Count("outcome:panic")
	case len(out) == 0:
		res.Count("outcome:identical")
	case nh == 1:
		res.Count("outcome:1-hunk")
	case nh <= 3:
		res.Count("outcome:2-3-hunks")
	default:
		res.Count("outcome:>3-hunks")
	}
	if bytes.Contains(out, []byte("\n"+noNewline)) {
		res.Count("has:no-newline-marker")
	}
	if bytes.Contains(out, []byte(",0 +")) || bytes.Contains(out, []byte(",0 @@")) {
		res.Count("has:zero-count-side")
	}
	nl := bytes.Count(c.old, []byte("\n")) + bytes.Count(c.new, []byte("\n"))
	switch {
	case nl <= 8:
		res.Count("size:<=8-lines")
	case nl <= 64:
		res.Count("size:9-64-lines")
	default:
		res.Count("size:>64-lines")
	}
	res.Case(c.key(), panicked || len(out) > 0)
	if panicked {
		rn.violation(c, "no-panic", "diff.Diff panicked")
	} else if name, detail := oracleOut(c, out); name != "" {
		rn.violation(c, name, detail)
	}
	// the memory dimension: earlier results must still be what they were, and the same two
	// texts viewed in one shared buffer must give the same, correct result (memory.go)
	rn.stab.after(rn, c, "private", out)
	rn.layouts(c, out, panicked)
	if rn.seen%7919 == 1 {
		res.Sample(map[string]any{"old": fmt.Sprintf("%q", trunc(c.old)), "new": fmt.Sprintf("%q", trunc(c.new)), "impl": fmt.Sprintf("%q", trunc(out)), "source": tag})
	}
	if len(c.old)+len(c.new) > modelMax {
		// the extracted model recurses over byte lists: texts this large are for the direct oracles only
		res.Count("model-skipped:too-large")
		return
	}
	rn.batch = append(rn.batch, c)
	rn.impl = append(rn.impl, showImpl(out, panicked))
	rn.tags = append(rn.tags, tag)
	if len(rn.batch) >= 2000 {
		rn.flush()
	}
}

func trunc(b []byte) []byte {
	if len(b) > 300 {
		return append(append([]byte{}, b[:300]...), "..."...)
	}
	return b
}

// askBool sends one boolean model query per case and reports a false answer as a
// correspondence-kind finding about the model (the executable form of the theorems).
func (rn *runner) modelHolds(cs []tcase) {
	reqs := make([]string, len(cs))
	for i, c := range cs {
		reqs[i] = "holds " + common.Hex(c.old) + " " + common.Hex(c.new)
	}
	ans, err := rn.m.Ask(reqs)
	if err != nil {
		rn.res.Notes = append(rn.res.Notes, "model error: "+err.Error())
		return
	}
	for i, a := range ans {
		rn.res.Count("model-holds:" + a)
		if a != "true" {
			rn.res.Violate(common.Violation{Kind: "correspondence", Oracle: "model-property", Input: cs[i].input(),
				Model: a, Key: "holds:" + cs[i].key(), Detail: "C08_holds_on is false on the model (a theorem's executable form fails)"})
		}
	}
	// the end-to-end theorem evaluated on the IMPLEMENTATION's bytes: the Coq-side reader and patch
	// applier (patch_bytes / unpatch_bytes) must turn lines old into lines new and back
	reqs = reqs[:0]
	var which []int
	for i, c := range cs {
		out, panicked := implRaw(c)
		if panicked {
			continue
		}
		reqs = append(reqs, "patch "+common.Hex([]byte(c.oldName))+" "+common.Hex([]byte(c.newName))+" "+common.Hex(out)+" "+common.Hex(c.old)+" "+common.Hex(c.new))
		which = append(which, i)
	}
	ans, err = rn.m.Ask(reqs)
	if err != nil {
		rn.res.Notes = append(rn.res.Notes, "model error: "+err.Error())
		return
	}
	for k, a := range ans {
		rn.res.Count("coq-reader-patches-impl-bytes:" + a)
		if a != "true" {
			c := cs[which[k]]
			rn.res.Violate(common.Violation{Kind: "correspondence", Oracle: "bytes-patch", Input: c.input(),
				Model: a, Key: "bytes-patch:" + c.key(), Detail: "patch_bytes/unpatch_bytes (Coq reader + applier) on the bytes returned by diff.Diff do not reproduce lines new / lines old"})
		}
	}
}

func main() {
	f := common.ParseFlags()
	res := common.NewResult("C08", f.Tier, f.Seed)
	m, err := common.StartModel(f.Model)
	if err != nil {
		fmt.Fprintln(os.Stderr, "cannot start model:", err)
		os.Exit(2)
	}
	defer m.Close()
	rn := &runner{f: f, res: res, m: m, nshr: map[string]int{}}
	rn.startSrc()
	defer rn.closeSrc()
	if f.Tier == "thorough" {
		modelMax = 400 << 10
	}
	res.Rule = "a case counts as non-trivial when the texts differ (Diff goes through lines, tgs and the hunk loop); " +
		"compared: all bytes returned by diff.Diff vs render of the model (for private copies and for every applicable layout of the two texts in one shared buffer), and the diff logged by failing testscript cmp/cmpenv lines vs render on (a, expanded b); " +
		"also compared: the same bytes vs the TRANSLATION of diff.go (Gen/DiffSrc.v extracted, fuel = len(old)+1) on every case up to srcMax bytes (bucket translated-source:*); " +
		"oracles: independent unified-diff parser + forward and reverse patch application, header, order, counts, start lines, empty-iff-identical, no panic. " +
		"Dimensions (CONVENTIONS addendum 4): [1 state between calls] result-stable-across-calls: a window of the last results kept alive as returned and re-verified after every later call, after calls from a second goroutine, and in sections where 4 goroutines call Diff at once; 4 testscript runs at once in consumer mode. " +
		"[2 caller's memory] every pair also as two views of ONE buffer: apart with/without spare capacity over live guard bytes, adjacent in both orders, and when the values allow it same start with different lengths, overlapping, one inside the other (a generator cuts such pairs out of one text); inputs-unchanged over the whole buffer; result-independent-of-input-memory (buffer overwritten after the call). " +
		"[4 sizes] lines > 64 KiB and > 1 MiB, texts of > 4096 lines (direct oracles; the model only up to modelMax bytes). " +
		"[lines equal only to a cheap comparison] pairs of DIFFERENT lines with the same CRC-32 (IEEE, Castagnoli, Koopman), Adler-32, FNV-1/1a 32, FNV 64 cut or folded to 32, h*31+c / h*33+c / sdbm, byte sum, byte xor, length+first+last byte (found by a birthday search over 360 k generated lines, a function of the seed, cached in the work directory) and pairs equal under case / blank / CR / BOM / NFC folding, a common prefix or suffix of 8..128 bytes or equal length; each planted as the only difference, first/last line, with/without final newline, 0..12 common lines away from other edits, swapped, repeated, two pairs at once. [moved lines] all permutations of <= 7 distinct lines, block moves, rotations, reversals, shuffles of up to 60 mostly unique lines. " +
		"[6 data that looks like syntax] printf verbs, diff syntax, the no-newline message, BOM, CR/CRLF, NUL, invalid UTF-8 in lines; every pair of file names from a list with blanks, verbs, diff syntax, a newline. " +
		"[3 resources, 5 faults, 7 host] do not apply: Diff is a pure function of its arguments (no files, no callbacks, no environment). [8] a source that cannot be tied (REGEN/shape break) still gets every oracle above"

	if f.Replay != "" {
		rp, err := common.LoadReplay(f.Replay)
		if err != nil {
			fmt.Fprintln(os.Stderr, err)
			os.Exit(2)
		}
		in := rp.Violation.Input
		if in["mode"] == "consumer" {
			rn.consumerBatch([]ccase{ccaseFromInput(in)}, "replay")
			res.Write(f.Out)
			return
		}
		if in["mode"] == "stability" {
			rn.replayStability(in)
			res.Write(f.Out)
			return
		}
		c := tcase{oldName: string(common.UnHex(in["oldName"])), newName: string(common.UnHex(in["newName"])),
			old: common.UnHex(in["old"]), new: common.UnHex(in["new"])}
		rn.one(c, "replay")
		rn.flush()
		rn.modelHolds([]tcase{c})
		res.Write(f.Out)
		return
	}

	// the constants the model was built with must be the ones the oracle uses
	if got := m.Ask1("consts"); got != "C 3 "+common.Hex([]byte("\n"+noNewline)) {
		res.Notes = append(res.Notes, "model constants differ from the oracle's (C=3, BSD/GNU message): "+got)
	}

	var held []tcase
	// 1. corpus: files "<hex old>\n<hex new>\n"
	if f.Corpus != "" {
		ents, _ := filepath.Glob(filepath.Join(f.Corpus, "*"))
		sort.Strings(ents)
		for _, e := range ents {
			b, err := os.ReadFile(e)
			if err != nil {
				continue
			}
			fs := strings.Fields(string(b))
			if len(fs) != 2 {
				res.Notes = append(res.Notes, "corpus file ignored (want two hex words): "+e)
				continue
			}
			c := tcase{oldName: "old", newName: "new", old: common.UnHex(fs[0]), new: common.UnHex(fs[1])}
			rn.one(c, "corpus")
			held = append(held, c)
		}
	}

	// 2. exhaustive: line sequences over {a,b,%d}, length <= 4 per side (thorough: 5), final NL yes/no
	n := 4
	if f.Tier == "thorough" {
		n = 5
	}
	ts := texts([]string{"a", "b", "%d"}, n)
	k := 0
	for _, o := range ts {
		for _, nw := range ts {
			c := tcase{oldName: "old", newName: "new", old: o, new: nw}
			rn.one(c, "exhaustive")
			if k%97 == 0 {
				held = append(held, c)
			}
			k++
		}
	}
	// a second small exhaustive sweep over printf / escape tokens
	ts2 := texts([]string{"%", "\\", "%%s"}, 2)
	for _, o := range ts2 {
		for _, nw := range ts2 {
			rn.one(tcase{oldName: "old", newName: "new", old: o, new: nw}, "exhaustive-escapes")
		}
	}
	// every pair of file names, on a few pairs of texts
	for _, on := range fileNames {
		for _, nn := range fileNames {
			for _, tx := range [][2]string{{"a\n", "b\n"}, {"%d\n", "%d"}, {"", "x"}} {
				rn.one(tcase{oldName: on, newName: nn, old: []byte(tx[0]), new: []byte(tx[1])}, "names")
			}
		}
	}
	res.Exhaustive = true

	rn.flush()
	lap("exhaustive")
	// 3. structured
	rng := common.NewRNG(f.Seed)
	rs := rng.Fork()
	ns := 22000
	if f.Tier == "thorough" {
		ns = 150000
	}
	for i := 0; i < ns; i++ {
		c := genStructured(rs)
		rn.one(c, "structured")
		if i%10 == 0 {
			held = append(held, c)
		}
	}
	rn.flush()
	lap("structured")
	// 3b. pairs cut out of ONE text: same start with different lengths (a truncated view, a text
	// grown in place), overlapping, one inside the other, adjacent — so that the aliasing layouts
	// of memory.go that need related values are exercised on every kind of text
	rv := rng.Fork()
	nv := 8000
	if f.Tier == "thorough" {
		nv = 100000
	}
	for i := 0; i < nv; i++ {
		c := genViews(rv)
		rn.one(c, "views")
		if i%40 == 0 {
			held = append(held, c)
		}
	}
	rn.flush()
	lap("views")
	// 3c. different lines that a cheap comparison (checksum, hash, normalised form, prefix) takes for
	// equal, planted as the only difference, next to other edits and around the context width (collide.go)
	perPair := 30
	if f.Tier == "thorough" {
		perPair = 400
	}
	held = append(held, rn.collisions(rng.Fork(), perPair)...)
	rn.flush()
	lap("collide")
	// 3d. lines that keep their content but change their order: every permutation of up to 7
	// (thorough: 8) distinct lines, then block moves / rotations / reversals / shuffles of longer texts
	maxPerm := 7
	if f.Tier == "thorough" {
		maxPerm = 8
	}
	for k := 4; k <= maxPerm; k++ {
		i := 0
		permutations(k, func(p []int) {
			c := permCase(p, i%5 != 0)
			rn.one(c, "permutations")
			if i%211 == 0 {
				held = append(held, c)
			}
			i++
		})
	}
	rp := rng.Fork()
	np := 3000
	if f.Tier == "thorough" {
		np = 60000
	}
	for i := 0; i < np; i++ {
		ml := 14
		if i%4 == 0 {
			ml = 60
		}
		c := genPerm(rp, ml)
		rn.one(c, "moved-lines")
		if i%40 == 0 {
			held = append(held, c)
		}
	}
	rn.flush()
	lap("moved-lines")
	// 4. raw bytes
	rb := rng.Fork()
	nb := 8000
	if f.Tier == "thorough" {
		nb = 100000
	}
	for i := 0; i < nb; i++ {
		rn.one(genBytes(rb), "bytes")
	}
	rn.flush()
	lap("bytes")
	// 5. random long texts
	rl := rng.Fork()
	nr, maxLines := 300, 600
	if f.Tier == "thorough" {
		nr, maxLines = 1500, 1500
	}
	for i := 0; i < nr; i++ {
		c := genRandom(rl, maxLines)
		rn.one(c, "random-long")
		if i%10 == 0 {
			held = append(held, c)
		}
	}
	rn.flush()
	lap("random-long")
	// 5a. sizes past the usual internal limits: lines longer than 64 KiB (bufio.Scanner's token
	// limit) and 1 MiB, texts of several thousand lines, with and without final newline
	rg := rng.Fork()
	nbig := 6
	if f.Tier == "thorough" {
		nbig = 40
	}
	for i := 0; i < nbig; i++ {
		rn.one(genBig(rg, i), "big")
	}
	rn.flush()
	rn.flush()
	lap("big")
	// 5b. several goroutines calling Diff at the same time
	for lo := 0; lo+64 <= len(held) && lo < 64*12; lo += 64 {
		rn.concurrent(held[lo : lo+64])
	}
	rn.flush()
	lap("concurrent")
	// 6. the consumer: diffs logged by failing cmp / cmpenv lines of testscript
	rn.consumerBatch(consumerFixed(), "consumer-fixed")
	rc := rng.Fork()
	nc := 600
	if f.Tier == "thorough" {
		nc = 6000
	}
	for done := 0; done < nc; done += 600 {
		var bs [][]ccase
		for b := 0; b < 4; b++ { // four testscript runs at the same time
			var cs []ccase
			for i := 0; i < 150; i++ {
				cs = append(cs, genConsumer(rc))
			}
			bs = append(bs, cs)
		}
		rn.consumerBatches(bs, "consumer")
	}
	rn.flush()
	lap("consumer")
	// 7. the executable form of the theorems, evaluated on the model
	rn.modelHolds(held)
	lap("model-holds")
	res.Write(f.Out)
}

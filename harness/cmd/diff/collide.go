// Lines that are DIFFERENT but look the same to a cheap comparison, and lines that MOVE.
//
// The property says that every difference between the two texts is in a hunk.  Whether two
// lines are "the same line" must therefore be decided on the line strings themselves; an
// implementation that decides it on a checksum, a hash, a length, a prefix or a normalised
// form of the line treats some pairs of different lines as common.  Random generators never
// produce such pairs for a 32-bit function, so this file finds them on purpose:
//
//	(a) collidingPairs: a deterministic birthday search over a few hundred thousand short
//	    generated lines for every cheap hash an "optimised" comparison would plausibly use
//	    (CRC-32 IEEE / Castagnoli / Koopman, Adler-32, FNV-1 and FNV-1a 32, FNV 64 truncated
//	    or folded to 32, the multiplicative string hashes h*31+c / h*33+c / sdbm, sum and xor
//	    of the bytes, length + first/last byte), plus a fixed list of pairs that are equal
//	    under a normalisation (case, blanks, CR, long common prefix/suffix, same length).
//	    The functions are evaluated on the line with its newline; all the streaming ones return
//	    their whole state, so such a pair also collides without the newline and with the
//	    no-newline message appended.  The pairs found are cached in the run's work directory;
//	(b) genCollide plants such pairs as the only difference of two texts, next to other edits
//	    at every distance around the context width C and 2C, at the first and last line
//	    (terminated or not), swapped, repeated and several at once;
//	(c) genPerm / permutations: texts whose unique lines keep their content but change their
//	    ORDER (every permutation of up to 7 distinct lines, block moves, rotations, reversals
//	    and shuffles of longer texts): the longest-common-subsequence selection of tgs must
//	    return matches that increase on both sides.
//
// Everything goes through runner.one, i.e. through all direct oracles, all memory layouts
// and the model.
package main

import (
	"encoding/json"
	"fmt"
	"hash/adler32"
	"hash/crc32"
	"hash/fnv"
	"os"
	"path/filepath"
	"slices"
	"strings"

	"verif/harness/common"
)

type hashFn struct {
	name string
	f    func([]byte) uint32
}

func fnv64(b []byte, a bool) uint64 {
	h := fnv.New64()
	if a {
		h = fnv.New64a()
	}
	h.Write(b)
	return h.Sum64()
}

func mulHash(mult, init uint32) func([]byte) uint32 {
	return func(b []byte) uint32 {
		h := init
		for _, c := range b {
			h = h*mult + uint32(c)
		}
		return h
	}
}

var (
	castagnoli = crc32.MakeTable(crc32.Castagnoli)
	koopman    = crc32.MakeTable(crc32.Koopman)
)

// cheapHashes: the functions for which colliding lines are looked for.
var cheapHashes = []hashFn{
	{"crc32-ieee", crc32.ChecksumIEEE},
	{"crc32-castagnoli", func(b []byte) uint32 { return crc32.Checksum(b, castagnoli) }},
	{"crc32-koopman", func(b []byte) uint32 { return crc32.Checksum(b, koopman) }},
	{"adler32", adler32.Checksum},
	{"fnv1-32", func(b []byte) uint32 { h := fnv.New32(); h.Write(b); return h.Sum32() }},
	{"fnv1a-32", func(b []byte) uint32 { h := fnv.New32a(); h.Write(b); return h.Sum32() }},
	{"fnv1-64-low32", func(b []byte) uint32 { return uint32(fnv64(b, false)) }},
	{"fnv1a-64-low32", func(b []byte) uint32 { return uint32(fnv64(b, true)) }},
	{"fnv1a-64-fold32", func(b []byte) uint32 { h := fnv64(b, true); return uint32(h) ^ uint32(h>>32) }},
	{"mul31", mulHash(31, 0)},
	{"djb2", mulHash(33, 5381)},
	{"sdbm", mulHash(65599, 0)},
	{"sum-bytes", func(b []byte) uint32 {
		var s uint32
		for _, c := range b {
			s += uint32(c)
		}
		return s
	}},
	{"xor-bytes", func(b []byte) uint32 {
		var s uint32
		for _, c := range b {
			s ^= uint32(c)
		}
		return s
	}},
	{"len-first-last", func(b []byte) uint32 {
		if len(b) == 0 {
			return 0
		}
		return uint32(len(b))<<16 | uint32(b[0])<<8 | uint32(b[len(b)-1])
	}},
}

// cpair is two different lines (without newline) that a cheap comparison takes for equal.
type cpair struct {
	Fn   string
	P, Q string
}

type cpairJSON struct {
	Fn string `json:"fn"`
	P  string `json:"p"` // hex
	Q  string `json:"q"`
}

// normPairs: different lines that are equal under a normalisation, a truncation or a length test.
func normPairs() []cpair {
	long := strings.Repeat("0123456789abcdef", 8) // 128 bytes
	ps := []cpair{
		{"norm-case", "Value := compute()", "value := compute()"},
		{"norm-case-unicode", "K=1", "\u212a=1"}, // Kelvin sign folds to K
		{"norm-trailing-blank", "x = 1", "x = 1 "},
		{"norm-trailing-tab", "x = 1", "x = 1\t"},
		{"norm-trailing-cr", "x = 1", "x = 1\r"},
		{"norm-leading-blank", "x = 1", " x = 1"},
		{"norm-leading-tab", "\tx = 1", "x = 1"},
		{"norm-tab-vs-blanks", "\tx = 1", "    x = 1"},
		{"norm-inner-blanks", "a b", "a  b"},
		{"norm-blank-line", "", " "},
		{"norm-blank-line-tab", " ", "\t"},
		{"norm-nul-tail", "abc", "abc\x00"},
		{"norm-nul-cut", "abc\x00def", "abc\x00xyz"},
		{"norm-bom", "\xef\xbb\xbfpackage p", "package p"},
		{"norm-nfc", "\u00e9", "e\u0301"},
		{"norm-invalid-utf8", "a\xffb", "a\xfeb"}, // both print as a + U+FFFD + b
		{"norm-same-length", "abcdef", "abcdeg"},
		{"norm-same-length-1", "a", "b"},
		{"norm-anagram", "listen", "silent"},
		{"norm-numeric", "1.0", "1.00"},
		{"norm-numeric-lead", "007", "7"},
	}
	for _, n := range []int{8, 16, 32, 64, 128} {
		ps = append(ps,
			cpair{fmt.Sprintf("prefix-%d", n), long[:n] + "A", long[:n] + "B"},
			cpair{fmt.Sprintf("prefix-%d-longer", n), long[:n], long[:n] + "tail"},
			cpair{fmt.Sprintf("suffix-%d", n), "A" + long[:n], "B" + long[:n]},
			cpair{fmt.Sprintf("ends-%d", n), long[:n] + "A" + long[:n], long[:n] + "B" + long[:n]})
	}
	return ps
}

// candidateLines: n short lines of a few everyday shapes, all derived from the seed.
func candidateLines(r *common.RNG, n int) []string {
	ls := make([]string, 0, n)
	const hexd = "0123456789abcdef"
	const low = "abcdefghijklmnopqrstuvwxyz"
	buf := make([]byte, 0, 40)
	rnd := func(al string, k int) {
		v := r.Uint64()
		for i := 0; i < k; i++ {
			if i%8 == 0 && i > 0 {
				v = r.Uint64()
			}
			buf = append(buf, al[int(v&0xff)%len(al)])
			v >>= 8
		}
	}
	for i := 0; i < n; i++ {
		buf = buf[:0]
		switch i % 5 {
		case 0: // id=b6ea sum=f3911ca
			buf = append(buf, "id="...)
			rnd(hexd, 4)
			buf = append(buf, " sum="...)
			rnd(hexd, 7+int(r.Uint64()%2))
		case 1: // a word
			rnd(low, 6+int(r.Uint64()%5))
		case 2: // a code line
			buf = append(buf, '\t')
			rnd(low, 3)
			buf = append(buf, " := f("...)
			rnd(hexd, 5)
			buf = append(buf, ')')
		case 3: // key: value
			rnd(low, 4)
			buf = append(buf, ": "...)
			rnd(low, 5)
		case 4: // short
			rnd(low+hexd+" %-+@\\", 4+int(r.Uint64()%3))
		}
		ls = append(ls, string(buf))
	}
	return ls
}

// collidingPairs returns, for every cheap hash, up to perFn pairs of different lines with the
// same value, and the normalisation pairs.  The search is a function of the seed alone.
func collidingPairs(seed uint64, work string, res *common.Result) []cpair {
	cache := ""
	if work != "" {
		cache = filepath.Join(work, fmt.Sprintf("c08-colliding-lines-seed%d.json", seed))
		if b, err := os.ReadFile(cache); err == nil {
			var js []cpairJSON
			if json.Unmarshal(b, &js) == nil && len(js) > 0 {
				var ps []cpair
				for _, j := range js {
					ps = append(ps, cpair{j.Fn, string(common.UnHex(j.P)), string(common.UnHex(j.Q))})
				}
				res.Count("collide:pairs-from-cache")
				return ps
			}
		}
	}
	const perFn = 10
	r := common.NewRNG(seed ^ 0xC08C0111DE)
	lines := candidateLines(r, 360000)
	slices.Sort(lines)
	lines = slices.Compact(lines) // equal lines are no collision
	var ps []cpair
	// the functions are evaluated on the line WITH its newline, the form in which Diff holds a line
	// (all of them but the folded one return their whole state, so those pairs collide without it too)
	terminated := make([][]byte, len(lines))
	for i, l := range lines {
		terminated[i] = []byte(l + "\n")
	}
	keys := make([]uint64, len(lines))
	for _, h := range cheapHashes {
		for i, l := range terminated {
			keys[i] = uint64(h.f(l))<<32 | uint64(i)
		}
		slices.Sort(keys)
		found := 0
		// weak functions collide everywhere: take pairs spread over the table, not the first ones
		step := 1
		ncoll := 0
		for i := 1; i < len(keys); i++ {
			if keys[i]>>32 == keys[i-1]>>32 {
				ncoll++
			}
		}
		if ncoll > perFn*4 {
			step = ncoll / perFn
		}
		seen := 0
		for i := 1; i < len(keys) && found < perFn; i++ {
			if keys[i]>>32 != keys[i-1]>>32 {
				continue
			}
			seen++
			if seen%step != 0 {
				continue
			}
			p, q := lines[uint32(keys[i-1])], lines[uint32(keys[i])]
			if p == q {
				continue
			}
			ps = append(ps, cpair{h.name, p, q})
			found++
		}
		res.Distribution["collide:pairs:"+h.name] += found
		if found == 0 {
			res.Notes = append(res.Notes, "collision search found no pair of lines for "+h.name)
		}
	}
	ps = append(ps, normPairs()...)
	if cache != "" {
		var js []cpairJSON
		for _, p := range ps {
			js = append(js, cpairJSON{p.Fn, common.Hex([]byte(p.P)), common.Hex([]byte(p.Q))})
		}
		if b, err := json.Marshal(js); err == nil {
			os.WriteFile(cache, b, 0o644)
		}
	}
	return ps
}

// slot is a piece of the two texts: the same lines on both sides, or an edit.
type slot struct{ o, n []string }

func catSlots(ss []slot) (o, n []string) {
	for _, s := range ss {
		o = append(o, s.o...)
		n = append(n, s.n...)
	}
	return
}

// gapLens: lengths of common runs around the context width C = 3 (and 2C), where hunks merge or split
var gapLens = []int{0, 1, 2, 3, 4, 5, 6, 7, 8, 12}

// genCollide plants the pair (and possibly a second one) into two texts.
func genCollide(r *common.RNG, pr, pr2 cpair, shape int) tcase {
	uniq := 0
	fresh := func() string {
		uniq++
		if r.Chance(1, 6) {
			return "dup"
		}
		return fmt.Sprintf("line%d", uniq)
	}
	common_ := func(k int) slot {
		var s slot
		for i := 0; i < k; i++ {
			l := fresh()
			s.o = append(s.o, l)
			s.n = append(s.n, l)
		}
		return s
	}
	gap := func() slot { return common_(common.Pick(r, gapLens)) }
	pair := func(p cpair) slot {
		if r.Bool() {
			return slot{[]string{p.P}, []string{p.Q}}
		}
		return slot{[]string{p.Q}, []string{p.P}}
	}
	edit := func() slot {
		switch r.Intn(4) {
		case 0:
			return slot{o: []string{fresh()}}
		case 1:
			return slot{n: []string{fresh()}}
		case 2:
			return slot{[]string{fresh(), fresh()}, []string{fresh()}}
		default:
			a, b := fresh(), fresh()
			return slot{[]string{a, b}, []string{b, a}}
		}
	}
	var ss []slot
	switch shape % 10 {
	case 0: // the only difference, somewhere in the middle
		ss = []slot{gap(), pair(pr), gap()}
	case 1: // the only difference, first line
		ss = []slot{pair(pr), gap()}
	case 2: // the only difference, last line
		ss = []slot{gap(), pair(pr)}
	case 3: // next to another edit, after it
		ss = []slot{gap(), edit(), gap(), pair(pr), gap()}
	case 4: // next to another edit, before it
		ss = []slot{gap(), pair(pr), gap(), edit(), gap()}
	case 5: // between two edits
		ss = []slot{gap(), edit(), gap(), pair(pr), gap(), edit(), gap()}
	case 6: // two pairs
		ss = []slot{gap(), pair(pr), gap(), pair(pr2), gap()}
	case 7: // both lines in both texts, swapped
		ss = []slot{gap(), {[]string{pr.P}, []string{pr.Q}}, gap(), {[]string{pr.Q}, []string{pr.P}}, gap()}
	case 8: // repeated: a run of one line against a run of the other, of different lengths
		a, b := 1+r.Intn(4), 1+r.Intn(4)
		var s slot
		for i := 0; i < a; i++ {
			s.o = append(s.o, pr.P)
		}
		for i := 0; i < b; i++ {
			s.n = append(s.n, pr.Q)
		}
		ss = []slot{gap(), s, gap()}
	case 9: // one of the two lines is also a common line elsewhere (so it is not unique)
		ss = []slot{gap(), {[]string{pr.P}, []string{pr.P}}, gap(), pair(pr), gap(), edit(), gap()}
	}
	o, n := catSlots(ss)
	return tcase{oldName: "old", newName: "new", old: joinLines(o, !r.Chance(1, 4)), new: joinLines(n, !r.Chance(1, 4))}
}

// collisions runs the colliding-lines dimension.
func (rn *runner) collisions(r *common.RNG, perPair int) (held []tcase) {
	ps := collidingPairs(rn.f.Seed, rn.f.Work, rn.res)
	for i, p := range ps {
		// the bare pair: with and without final newline, between two anchors
		for _, c := range []tcase{
			{old: []byte(p.P + "\n"), new: []byte(p.Q + "\n")},
			{old: []byte(p.P), new: []byte(p.Q)},
			{old: []byte(p.P + "\n"), new: []byte(p.Q)},
			{old: []byte("a\n" + p.P + "\nb\n"), new: []byte("a\n" + p.Q + "\nb\n")},
			{old: []byte("a\n" + p.P), new: []byte("a\n" + p.Q)},
		} {
			c.oldName, c.newName = "old", "new"
			rn.one(c, "collide:"+fnClass(p.Fn))
		}
		for k := 0; k < perPair; k++ {
			c := genCollide(r, p, ps[(i+1+r.Intn(len(ps)-1))%len(ps)], k)
			rn.one(c, "collide:"+fnClass(p.Fn))
			if k == 0 {
				held = append(held, c)
			}
		}
	}
	return held
}

func fnClass(fn string) string {
	switch {
	case strings.HasPrefix(fn, "norm-"), strings.HasPrefix(fn, "prefix-"), strings.HasPrefix(fn, "suffix-"), strings.HasPrefix(fn, "ends-"):
		return "normalised-equal"
	}
	return fn
}

// ---------------------------------------------------------------- moved lines

// permutations calls f with every permutation of 0..n-1 (Heap's algorithm).
func permutations(n int, f func([]int)) {
	p := make([]int, n)
	for i := range p {
		p[i] = i
	}
	c := make([]int, n)
	f(p)
	for i := 0; i < n; {
		if c[i] < i {
			if i%2 == 0 {
				p[0], p[i] = p[i], p[0]
			} else {
				p[c[i]], p[i] = p[i], p[c[i]]
			}
			f(p)
			c[i]++
			i = 0
		} else {
			c[i] = 0
			i++
		}
	}
}

func permCase(p []int, finalNL bool) tcase {
	o := make([]string, len(p))
	n := make([]string, len(p))
	for i := range p {
		o[i] = string(rune('a' + i))
		n[i] = string(rune('a' + p[i]))
	}
	return tcase{oldName: "old", newName: "new", old: joinLines(o, true), new: joinLines(n, finalNL)}
}

// genPerm: a text of mostly unique lines and a rearrangement of it (plus a few edits).
func genPerm(r *common.RNG, maxLines int) tcase {
	k := 6 + r.Intn(maxLines-5)
	o := make([]string, k)
	for i := range o {
		o[i] = fmt.Sprintf("u%d", i)
		if r.Chance(1, 12) {
			o[i] = "dup"
		}
	}
	n := append([]string{}, o...)
	for ops := 1 + r.Intn(4); ops > 0; ops-- {
		switch r.Intn(6) {
		case 0: // shuffle
			for i := len(n) - 1; i > 0; i-- {
				j := r.Intn(i + 1)
				n[i], n[j] = n[j], n[i]
			}
		case 1: // move a block
			a := r.Intn(len(n))
			b := a + 1 + r.Intn(len(n)-a)
			blk := append([]string{}, n[a:b]...)
			rest := append(append([]string{}, n[:a]...), n[b:]...)
			at := r.Intn(len(rest) + 1)
			n = append(append(append([]string{}, rest[:at]...), blk...), rest[at:]...)
		case 2: // rotate
			a := r.Intn(len(n))
			n = append(append([]string{}, n[a:]...), n[:a]...)
		case 3: // reverse a stretch
			a := r.Intn(len(n))
			b := a + r.Intn(len(n)-a+1)
			for i, j := a, b-1; i < j; i, j = i+1, j-1 {
				n[i], n[j] = n[j], n[i]
			}
		case 4: // interleave the two halves
			h := len(n) / 2
			var m []string
			for i := 0; i < h || h+i < len(n); i++ {
				if h+i < len(n) {
					m = append(m, n[h+i])
				}
				if i < h {
					m = append(m, n[i])
				}
			}
			n = m
		case 5: // a few edits on top
			i := r.Intn(len(n))
			switch r.Intn(3) {
			case 0:
				n = append(n[:i:i], n[i+1:]...)
			case 1:
				n = append(append(append([]string{}, n[:i]...), fmt.Sprintf("ins%d", i)), n[i:]...)
			case 2:
				n[i] = fmt.Sprintf("chg%d", i)
			}
			if len(n) == 0 {
				n = []string{"x"}
			}
		}
	}
	if r.Bool() {
		o, n = n, o
	}
	return tcase{oldName: "old", newName: "new", old: joinLines(o, !r.Chance(1, 5)), new: joinLines(n, !r.Chance(1, 5))}
}

// Consumer mode of the C08 runner: the property's anchors name the consumer of diff.Diff,
// testscript's `cmp` / `cmpenv` failure output.  Generated scripts with one failing (or
// passing) `cmp a b` / `cmpenv a b` line are run through testscript.RunT with a recording T;
// the unified diff is cut out of the log of the failing run (between the echoed command line
// and the FAIL line) and checked with the independent parser / patch applier of main.go: it
// must turn the text of file a into the text that was actually compared — for cmpenv the
// environment-EXPANDED text of b — and back.  The cut-out bytes are also compared with the
// model's render (correspondence).
//
// Operand names are a dimension of their own: testscript documents that a FIRST operand named
// stdout, stderr or ttyout denotes the captured output of the last command; every other
// operand is the file of that name.  Cases therefore also use files NAMED stdout, stderr,
// ttyout and stdin, as first and as second operand, after a user builtin (`emit`) whose
// captured output equals or differs from the contents of those files; verdict and logged diff
// must follow (first operand as documented, the real contents of the second FILE).
package main

import (
	"bytes"
	"fmt"
	"os"
	"path/filepath"
	"strings"
	"sync"
	"sync/atomic"

	"github.com/rogpeppe/go-internal/testscript"

	"verif/harness/common"
)

// ---------------------------------------------------------------- a recording testscript.T

type tsSentinel string

const (
	tsFailed tsSentinel = "failed"
	tsSkip   tsSentinel = "skip"
)

type recT struct {
	verdict map[string]string
	logs    map[string]string
	cur     string
	fatal   []string
}

func (t *recT) Skip(...any)    { panic(tsSkip) }
func (t *recT) Fatal(a ...any) { t.fatal = append(t.fatal, fmt.Sprint(a...)); panic(tsFailed) }
func (t *recT) Parallel()      {}
func (t *recT) Log(a ...any)   { t.logs[t.cur] += fmt.Sprint(a...) }
func (t *recT) FailNow()       { panic(tsFailed) }
func (t *recT) Verbose() bool  { return false }
func (t *recT) Run(name string, f func(testscript.T)) {
	v := "PASS"
	prev := t.cur
	t.cur = name
	func() {
		defer func() {
			switch e := recover(); e {
			case nil:
			case tsFailed:
				v = "FAIL"
			case tsSkip:
				v = "SKIP"
			default:
				v = "PANIC"
				t.fatal = append(t.fatal, fmt.Sprint(e))
			}
		}()
		f(t)
	}()
	t.cur = prev
	t.verdict[name] = v
}

// ---------------------------------------------------------------- cases

type ccase struct {
	cmd       string      // "cmp" | "cmpenv"
	envs      [][2]string // env K=V lines, in order
	a, b      []byte      // contents of the files a and b
	inArchive bool        // files come from the txtar archive (else written by Setup)
	// names of the two operands ("" = a / b).  A FIRST operand named stdout, stderr or ttyout
	// denotes the captured output of the last command (documented); a file of that name in
	// the work directory is then not read.  Every other operand -- in particular every
	// SECOND operand, whatever its name -- is the file of that name.
	nameA, nameB string
	emit         bool   // the script first runs the user builtin `emit`, which writes outBuf / errBuf
	outBuf       []byte // to its standard output and
	errBuf       []byte // its standard error
}

func (c ccase) names() (string, string) {
	a, b := c.nameA, c.nameB
	if a == "" {
		a = "a"
	}
	if b == "" {
		b = "b"
	}
	return a, b
}

// text1: the text the first operand denotes
func (c ccase) text1() []byte {
	na, _ := c.names()
	switch na {
	case "stdout":
		if c.emit {
			return c.outBuf
		}
		return nil
	case "stderr":
		if c.emit {
			return c.errBuf
		}
		return nil
	case "ttyout":
		return nil
	}
	return c.a
}

func (c ccase) script() string {
	var sb strings.Builder
	for _, kv := range c.envs {
		fmt.Fprintf(&sb, "env %s=%s\n", kv[0], kv[1])
	}
	na, nb := c.names()
	if c.emit {
		sb.WriteString("emit\n")
	}
	fmt.Fprintf(&sb, "%s %s %s\n", c.cmd, na, nb)
	if c.inArchive {
		sb.WriteString("-- " + na + " --\n")
		sb.Write(c.a)
		sb.WriteString("-- " + nb + " --\n")
		sb.Write(c.b)
	}
	return sb.String()
}

// expected: the text the command compares file a with
func (c ccase) expanded() []byte {
	if c.cmd != "cmpenv" {
		return c.b
	}
	m := map[string]string{}
	for _, kv := range c.envs {
		m[kv[0]] = kv[1]
	}
	return []byte(os.Expand(string(c.b), func(k string) string { return m[k] }))
}

func (c ccase) input() map[string]string {
	var es []string
	for _, kv := range c.envs {
		es = append(es, kv[0]+"="+kv[1])
	}
	na, nb := c.names()
	return map[string]string{"mode": "consumer", "cmd": c.cmd, "name_a": na, "name_b": nb, "emit": fmt.Sprint(c.emit),
		"emit_stdout": common.Hex(c.outBuf), "emit_stderr": common.Hex(c.errBuf),
		"emit_stdout_text": fmt.Sprintf("%q", c.outBuf), "emit_stderr_text": fmt.Sprintf("%q", c.errBuf),
		"first_operand_text": fmt.Sprintf("%q", c.text1()), "envs": common.Hex([]byte(strings.Join(es, "\n"))),
		"a": common.Hex(c.a), "b": common.Hex(c.b), "in_archive": fmt.Sprint(c.inArchive),
		"a_text": fmt.Sprintf("%q", c.a), "b_text": fmt.Sprintf("%q", c.b), "b_expanded_text": fmt.Sprintf("%q", c.expanded()),
		"script_text": fmt.Sprintf("%q", c.script())}
}

func ccaseFromInput(in map[string]string) ccase {
	c := ccase{cmd: in["cmd"], a: common.UnHex(in["a"]), b: common.UnHex(in["b"]), inArchive: in["in_archive"] == "true",
		nameA: in["name_a"], nameB: in["name_b"], emit: in["emit"] == "true",
		outBuf: common.UnHex(in["emit_stdout"]), errBuf: common.UnHex(in["emit_stderr"])}
	for _, e := range strings.Split(string(common.UnHex(in["envs"])), "\n") {
		if i := strings.Index(e, "="); i > 0 {
			c.envs = append(c.envs, [2]string{e[:i], e[i+1:]})
		}
	}
	return c
}

// archiveSafe: the text can be a txtar file body without being changed by Parse
func archiveSafe(t []byte) bool {
	if len(t) > 0 && t[len(t)-1] != '\n' {
		return false
	}
	for _, l := range bytes.SplitAfter(t, []byte("\n")) {
		l = bytes.TrimRight(l, "\r\n")
		if bytes.HasPrefix(l, []byte("-- ")) && bytes.HasSuffix(l, []byte(" --")) {
			return false
		}
	}
	return true
}

var envVals = []string{"x", "100%", "%d", "v1", "", "a+b", "-q", "%s%%"}

func genConsumer(r *common.RNG) ccase {
	c := ccase{cmd: "cmpenv"}
	if r.Chance(1, 3) {
		c.cmd = "cmp"
	}
	names := []string{"V", "W", "LONG_NAME"}
	for _, n := range names {
		if r.Chance(3, 4) {
			c.envs = append(c.envs, [2]string{n, common.Pick(r, envVals)})
		}
	}
	if r.Chance(1, 4) && len(c.envs) > 0 { // a later assignment wins
		c.envs = append(c.envs, [2]string{c.envs[0][0], common.Pick(r, envVals)})
	}
	cur := map[string]string{}
	for _, kv := range c.envs {
		cur[kv[0]] = kv[1]
	}
	refs := []string{"$V", "${V}", "$W", "${W}x", "$LONG_NAME", "${UNSET_Q}", "pre$V-post", "$V$W", "100%", "%d $V"}
	plain := []string{"one", "two", "three", "dup", "dup", "+x", "-x", "%", "\\ No newline at end of file", "@@ -1 +1 @@", "", "tab\there"}
	var al, bl []string
	n := 1 + r.Intn(9)
	for i := 0; i < n; i++ {
		switch r.Intn(6) {
		case 0, 1: // a line with a reference in b; a holds its expansion, the raw text, or something else
			ref := common.Pick(r, refs)
			exp := os.Expand(ref, func(k string) string { return cur[k] })
			bl = append(bl, ref)
			switch r.Intn(4) {
			case 0, 1:
				al = append(al, exp)
			case 2:
				al = append(al, ref)
			case 3:
				al = append(al, "other")
			}
		case 2: // edit
			if r.Bool() {
				al = append(al, common.Pick(r, plain))
			}
			if r.Bool() {
				bl = append(bl, common.Pick(r, plain))
			}
		default: // common line
			l := common.Pick(r, plain)
			if r.Chance(1, 2) {
				l = fmt.Sprintf("line%d", i)
			}
			al = append(al, l)
			bl = append(bl, l)
		}
	}
	c.a = joinLines(al, !r.Chance(1, 5))
	c.b = joinLines(bl, !r.Chance(1, 5))
	c.inArchive = archiveSafe(c.a) && archiveSafe(c.b) && r.Chance(2, 3)
	// operand names: files NAMED like the pseudo-files, in both positions, after a command whose
	// captured output differs from (or equals) the contents of those files
	if r.Chance(2, 5) {
		pool := []string{"stdout", "stderr", "ttyout", "stdin", "a", "b", "stdout.golden", "want"}
		c.nameA = common.Pick(r, pool)
		for {
			if c.nameB = common.Pick(r, pool); r.Chance(3, 4) {
				c.nameB = common.Pick(r, pool[:4])
			}
			if c.nameB != c.nameA {
				break
			}
		}
		c.emit = r.Chance(4, 5)
		buf := func() []byte {
			switch r.Intn(5) {
			case 0:
				return append([]byte{}, c.a...)
			case 1:
				return append([]byte{}, c.expanded()...)
			case 2:
				return append([]byte{}, c.b...)
			case 3:
				return nil
			}
			var ls []string
			for i, n := 0, 1+r.Intn(4); i < n; i++ {
				ls = append(ls, common.Pick(r, plain))
			}
			return joinLines(ls, !r.Chance(1, 5))
		}
		c.outBuf, c.errBuf = buf(), buf()
	}
	return c
}

// ---------------------------------------------------------------- running

type cobs struct {
	verdict string
	log     string
}

var consumerSeq atomic.Int64

func runConsumer(work string, cs []ccase) []cobs {
	dir := filepath.Join(work, fmt.Sprintf("consumer-%d", consumerSeq.Add(1)))
	os.MkdirAll(dir, 0o777)
	defer os.RemoveAll(dir)
	var files []string
	byName := map[string]ccase{}
	names := make([]string, len(cs))
	for i, c := range cs {
		names[i] = fmt.Sprintf("c%06d", i)
		f := filepath.Join(dir, names[i]+".txt")
		os.WriteFile(f, []byte(c.script()), 0o666)
		files = append(files, f)
		byName[names[i]] = c
	}
	t := &recT{verdict: map[string]string{}, logs: map[string]string{}}
	p := testscript.Params{
		Files: files,
		Setup: func(env *testscript.Env) error {
			c, ok := byName[strings.TrimPrefix(filepath.Base(env.WorkDir), "script-")]
			if ok && !c.inArchive {
				na, nb := c.names()
				if err := os.WriteFile(filepath.Join(env.WorkDir, na), c.a, 0o666); err != nil {
					return err
				}
				return os.WriteFile(filepath.Join(env.WorkDir, nb), c.b, 0o666)
			}
			return nil
		},
		Cmds: map[string]func(ts *testscript.TestScript, neg bool, args []string){
			// emit: a user builtin whose captured standard output / error are the case's buffers
			"emit": func(ts *testscript.TestScript, neg bool, args []string) {
				c, ok := byName[strings.TrimPrefix(filepath.Base(ts.Getenv("WORK")), "script-")]
				if !ok {
					ts.Fatalf("emit: unknown case for %s", ts.Getenv("WORK"))
				}
				ts.Stdout().Write(c.outBuf)
				ts.Stderr().Write(c.errBuf)
			},
		},
	}
	func() {
		defer func() {
			if e := recover(); e != nil {
				t.fatal = append(t.fatal, fmt.Sprint("RunT: ", e))
			}
		}()
		testscript.RunT(t, p)
	}()
	obs := make([]cobs, len(cs))
	for i, n := range names {
		obs[i] = cobs{verdict: t.verdict[n], log: t.logs[n]}
		if obs[i].verdict == "" {
			obs[i].verdict = "NOT-RUN " + strings.Join(t.fatal, "; ")
		}
	}
	return obs
}

// cutDiff extracts what doCmdCmp logged between the echoed command and the FAIL line.
func cutDiff(c ccase, log string) ([]byte, error) {
	na, nb := c.names()
	echo := "> " + c.cmd + " " + na + " " + nb + "\n"
	i := strings.LastIndex(log, echo)
	if i < 0 {
		return nil, fmt.Errorf("log-shape: the command line is not echoed in the log")
	}
	rest := log[i+len(echo):]
	j := strings.LastIndex(rest, "\nFAIL: ")
	if j < 0 {
		return nil, fmt.Errorf("log-shape: no FAIL line after the command")
	}
	if !strings.Contains(rest[j:], na+" and "+nb+" differ") {
		return nil, fmt.Errorf("log-shape: the FAIL line is not `%s and %s differ`: %q", na, nb, rest[j:])
	}
	return []byte(rest[:j]), nil
}

// consumerOracle: "" or the failing oracle + detail; d = the diff cut from the log (if any)
func consumerOracle(c ccase, o cobs) (name, detail string, d []byte) {
	want := c.expanded()
	first := c.text1()
	na, nb := c.names()
	same := bytes.Equal(first, want)
	switch {
	case strings.HasPrefix(o.verdict, "NOT-RUN"), o.verdict == "PANIC", o.verdict == "SKIP":
		return "consumer/ran", "script did not run to a verdict: " + o.verdict, nil
	case same && o.verdict != "PASS":
		return "consumer/verdict", fmt.Sprintf("the operands %s and %s are equal (after expansion) but the script failed", na, nb), nil
	case !same && o.verdict != "FAIL":
		return "consumer/verdict", fmt.Sprintf("the operands %s (%q) and %s (file contents %q after expansion) differ but the script passed", na, trunc(first), nb, trunc(want)), nil
	case same:
		return "", "", nil
	}
	d, err := cutDiff(c, o.log)
	if err != nil {
		return "consumer/" + oracleName(err), err.Error(), nil
	}
	hs, err := parseUnified(d, na, nb)
	if err != nil {
		return "consumer/" + oracleName(err), err.Error(), d
	}
	if len(hs) == 0 {
		return "consumer/empty-iff-identical", "the compared texts differ but the logged diff has no hunk", d
	}
	got, err := applyPatch(first, hs, false)
	if err != nil {
		return "consumer/forward/" + oracleName(err), err.Error(), d
	}
	if !bytes.Equal(got, want) {
		return "consumer/forward/reproduces-compared-text", fmt.Sprintf("patch(%s) = %q, text of file %s (after expansion) = %q", na, got, nb, want), d
	}
	back, err := applyPatch(want, hs, true)
	if err != nil {
		return "consumer/reverse/" + oracleName(err), err.Error(), d
	}
	if !bytes.Equal(back, first) {
		return "consumer/reverse/reproduces-a", fmt.Sprintf("unpatch(compared text) = %q, %s = %q", back, na, first), d
	}
	return "", "", d
}

func (rn *runner) consumerViolation(c ccase, name, detail string) {
	rn.res.Count("oracle-fails:" + name)
	if rn.nshr["o:"+name]++; rn.nshr["o:"+name] > 3 {
		return
	}
	bad := func(d ccase) bool {
		d.inArchive = d.inArchive && archiveSafe(d.a) && archiveSafe(d.b)
		n, _, _ := consumerOracle(d, runConsumer(rn.f.Work, []ccase{d})[0])
		return n == name
	}
	if bad(c) {
		c.a = bytes.Join(common.ShrinkList(fileLines(c.a), func(ls [][]byte) bool { d := c; d.a = bytes.Join(ls, nil); return bad(d) }), nil)
		c.b = bytes.Join(common.ShrinkList(fileLines(c.b), func(ls [][]byte) bool { d := c; d.b = bytes.Join(ls, nil); return bad(d) }), nil)
		c.envs = common.ShrinkList(c.envs, func(es [][2]string) bool { d := c; d.envs = es; return bad(d) })
		c.inArchive = c.inArchive && archiveSafe(c.a) && archiveSafe(c.b)
	}
	o := runConsumer(rn.f.Work, []ccase{c})[0]
	if _, d2, _ := consumerOracle(c, o); d2 != "" {
		detail = d2
	}
	in := c.input()
	in["log_text"] = fmt.Sprintf("%q", trunc([]byte(o.log)))
	rn.res.Violate(common.Violation{Kind: "impl-violation", Oracle: name, Input: in, Impl: o.verdict,
		Key: name + ":" + c.cmd + ":" + in["envs"] + ":" + in["name_a"] + "/" + in["name_b"] + ":" + in["a"] + "/" + in["b"], Detail: detail})
}

// consumerBatch runs the cases, applies the oracles and compares the logged diff with the model.
func (rn *runner) consumerBatch(cs []ccase, tag string) {
	rn.consumerObserved(cs, runConsumer(rn.f.Work, cs), tag)
}

// consumerBatches runs several batches at the same time, each through its own testscript.RunT
// on its own goroutine (failing cmp lines then call diff.Diff and log its result concurrently),
// and evaluates them one after the other.
func (rn *runner) consumerBatches(batches [][]ccase, tag string) {
	obs := make([][]cobs, len(batches))
	var wg sync.WaitGroup
	for i := range batches {
		wg.Add(1)
		go func(i int) {
			defer wg.Done()
			obs[i] = runConsumer(rn.f.Work, batches[i])
		}(i)
	}
	wg.Wait()
	rn.res.Count("consumer:concurrent-batches")
	for i := range batches {
		rn.consumerObserved(batches[i], obs[i], tag)
	}
}

func (rn *runner) consumerObserved(cs []ccase, obs []cobs, tag string) {
	var reqs []string
	var idx []int
	var impl []string
	for i, c := range cs {
		rn.res.Count("src:" + tag)
		rn.res.Count("consumer:" + c.cmd + ":" + strings.SplitN(obs[i].verdict, " ", 2)[0])
		name, detail, d := consumerOracle(c, obs[i])
		rn.res.Case("consumer:"+c.script()+common.Hex(c.a)+common.Hex(c.b)+common.Hex(c.text1()), obs[i].verdict == "FAIL")
		na, nb := c.names()
		if c.nameA != "" {
			rn.res.Count("consumer:names:" + pseudoClass(na) + "/" + pseudoClass(nb))
		}
		if name != "" {
			rn.consumerViolation(c, name, detail)
		}
		if d != nil {
			if !bytes.Equal(c.b, c.expanded()) {
				rn.res.Count("consumer:expansion-changes-b")
			}
			reqs = append(reqs, tcase{oldName: na, newName: nb, old: c.text1(), new: c.expanded()}.req())
			idx = append(idx, i)
			impl = append(impl, "ok "+common.Hex(d))
		}
	}
	if len(reqs) == 0 {
		return
	}
	ans, err := rn.m.Ask(reqs)
	if err != nil {
		rn.res.Notes = append(rn.res.Notes, "model error: "+err.Error())
		return
	}
	for k, a := range ans {
		if a != impl[k] {
			c := cs[idx[k]]
			rn.res.Count("mismatch:consumer-diff")
			in := c.input()
			in["logged_text"] = fmt.Sprintf("%q", common.UnHex(impl[k][3:]))
			rn.res.Violate(common.Violation{Kind: "correspondence", Oracle: "consumer-diff", Input: in, Model: a, Impl: impl[k],
				Key: "consumer-diff:" + in["name_a"] + "/" + in["name_b"] + ":" + in["a"] + "/" + in["b"], Detail: "the diff logged by " + c.cmd + " differs from render of the model on (first operand, text of the second file after expansion)"})
		}
	}
}

func pseudoClass(n string) string {
	switch n {
	case "stdout", "stderr", "ttyout", "stdin":
		return n
	}
	return "file"
}

// hand-written consumer cases, always run
func consumerFixed() []ccase {
	return []ccase{
		{cmd: "cmpenv", envs: [][2]string{{"V", "x"}}, a: []byte("x\nsame\n"), b: []byte("$V\nother\n"), inArchive: true},
		{cmd: "cmpenv", envs: [][2]string{{"V", "x"}}, a: []byte("$V\n"), b: []byte("$V\n"), inArchive: true}, // differ only after expansion
		{cmd: "cmpenv", envs: [][2]string{{"V", "x"}}, a: []byte("x\n"), b: []byte("$V\n"), inArchive: true},  // equal after expansion
		{cmd: "cmpenv", envs: [][2]string{{"V", "100%"}}, a: []byte("100%\nq\n"), b: []byte("${V}\nr"), inArchive: false},
		{cmd: "cmp", envs: [][2]string{{"V", "x"}}, a: []byte("x\n"), b: []byte("$V\n"), inArchive: true},
		{cmd: "cmp", a: []byte("a\n%d\nb"), b: []byte("a\n%s\nb\n"), inArchive: false},
		// files named like the pseudo-files: only a FIRST operand stdout/stderr/ttyout is the captured output
		{cmd: "cmp", nameA: "want", nameB: "stdout", emit: true, outBuf: []byte("one\n"), errBuf: []byte("e\n"), a: []byte("one\n"), b: []byte("two\n"), inArchive: true},
		{cmd: "cmp", nameA: "stdout", nameB: "stderr", emit: true, outBuf: []byte("one\ntwo\n"), errBuf: []byte("one\n"), a: []byte("file\n"), b: []byte("one\nthree\n"), inArchive: true},
		{cmd: "cmpenv", envs: [][2]string{{"V", "x"}}, nameA: "stderr", nameB: "ttyout", emit: true, outBuf: []byte("o\n"), errBuf: []byte("x\n"), a: []byte("q\n"), b: []byte("$V\n"), inArchive: false},
		{cmd: "cmp", nameA: "stdin", nameB: "stdout", emit: true, outBuf: []byte("in\n"), a: []byte("in\n"), b: []byte("out\n"), inArchive: true},
	}
}

package main

// C16: UpdateScripts.  Generated scripts with 1-5 golden entries that are compared with
// actual contents coming from the helper's stdout, stderr or files; the script file is
// compared before/after (parsed with txtar.Parse), the verdict of the update run and of a
// second run without UpdateScripts are checked, and everything is compared with the model.

import (
	"bytes"
	"encoding/json"
	"fmt"
	"strings"
	"sync"

	"github.com/rogpeppe/go-internal/txtar"

	"verif/harness/common"
)

// the Result is not concurrent: C16 cases are judged by several workers through these
var resMu sync.Mutex

func (rn *runner) count(b string) {
	resMu.Lock()
	rn.res.Count(b)
	resMu.Unlock()
}
func (rn *runner) violate(v common.Violation) {
	resMu.Lock()
	rn.res.Violate(v)
	resMu.Unlock()
}

// what the generator knows about a C16 case by construction
type c16Expect struct {
	Updates   map[string]string // entry name -> actual text recorded (the last one wins)
	FailLines []int             // lines that fail by construction (cmp outside the archive, cmpenv, negated cmp of equal texts)
	Known     bool              // false: odd paths, the direct oracle does not judge
	Rerun     bool              // every golden entry is compared once: the re-run is a fix-point
}

var c16Contents = []string{
	"alpha\n", "alpha beta\ngamma\n", "", "-- a --\n", "x\n-- marker.txt --\ny\n", "-- not a marker\n", "--  --\n", ">quoted\n",
	"no final newline", "-- a --", "line1\nline2", "\n", "\n\n", "-- g1.txt --\n", " -- a --\n", "$X and ${Y}\n", "tab\there\n",
	"bad\xff\n-- a --\n", // needs quoting, but is not UTF-8: txtar.Quote refuses
	"bad\xff\nplain\n",   // not UTF-8 but needs no quoting: stored as it is
}

var c16LinePool = []string{"alpha", "alpha beta", "", "-- a --", "-- g1.txt --", "--  --", "-- --", " -- a --", "-- a -- ", "--  a  --", "-- a --\r", ">quoted", ">", ">-- a --",
	"-- not a marker", "x --", "$X and ${Y}", "tab\there", "\r", "caf\u00e9", "bad\xff", "-- \xff --", "'quoted'", "#not a comment", "-- sub/deep/want --"}

// c16RandContent: 0-4 lines of the pool, with or without a final newline
func c16RandContent(r *common.RNG) string {
	var b strings.Builder
	n := r.Intn(5)
	for i := 0; i < n; i++ {
		b.WriteString(pick(r, c16LinePool))
		if i < n-1 || r.Chance(3, 4) {
			b.WriteString("\n")
		}
	}
	return b.String()
}

// producer returns the script lines that make `src` (stdout | stderr | a file name) hold text.
func c16Producer(r *common.RNG, text string, i int) (lines []string, src string) {
	h := helperName
	nl := strings.HasSuffix(text, "\n")
	body := strings.TrimSuffix(text, "\n")
	multi := strings.Contains(body, "\n")
	file := fmt.Sprintf("act%d.txt", i)
	if !c16Simple(text) || r.Chance(1, 4) {
		// any content at all, spelled in hexadecimal
		hx := common.Hex([]byte(text))
		if hx == "-" || hx == "" {
			hx = "''"
		}
		switch r.Intn(3) {
		case 0:
			return []string{"exec " + h + " unhex " + hx}, "stdout"
		case 1:
			return []string{"exec " + h + " unhexerr " + hx}, "stderr"
		}
		return []string{"exec " + h + " unhex " + hx, "cp stdout " + file}, file
	}
	if i8 := strings.Index(text, "\xff\n"); i8 >= 0 && nl {
		ws := []string{c16Quote(text[:i8])}
		for _, l := range strings.Split(strings.TrimSuffix(text[i8+2:], "\n"), "\n") {
			ws = append(ws, c16Quote(l))
		}
		return []string{"exec " + h + " lines8 " + strings.Join(ws, " ")}, "stdout"
	}
	switch {
	case text == "":
		switch r.Intn(3) {
		case 0:
			return []string{"exec " + h + " echoerr nothing-on-stdout"}, "stdout"
		case 1:
			return []string{"exec " + h + " echo nothing-on-stderr"}, "stderr"
		}
		return []string{"exec " + h + " writeraw " + file + " ''"}, file
	case nl && !multi && !strings.ContainsAny(body, "\t") && body != "" && !strings.HasPrefix(body, " ") && !strings.Contains(body, "  "):
		// one line: echo / echoerr / write
		ws := c16Words(body)
		switch r.Intn(3) {
		case 0:
			return []string{"exec " + h + " echo " + ws}, "stdout"
		case 1:
			return []string{"exec " + h + " echoerr " + ws}, "stderr"
		}
		return []string{"exec " + h + " write " + file + " " + ws}, file
	case nl && !strings.Contains(body, "\n\n") && body != "" && !strings.HasPrefix(body, "\n") && !strings.HasSuffix(body, "\n"):
		// several lines: lines w1 w2 ...
		var ws []string
		for _, l := range strings.Split(body, "\n") {
			ws = append(ws, c16Quote(l))
		}
		return []string{"exec " + h + " lines " + strings.Join(ws, " ")}, "stdout"
	case !strings.Contains(text, "\n"):
		switch r.Intn(3) {
		case 0:
			return []string{"exec " + h + " print " + c16Quote(text)}, "stdout"
		case 1:
			return []string{"exec " + h + " printerr " + c16Quote(text)}, "stderr"
		}
		return []string{"exec " + h + " writeraw " + file + " " + c16Quote(text)}, file
	default:
		// anything else: build it in a file line by line is not possible in one word (no
		// newline inside a script word), so assemble it with lines + print through cp
		var out []string
		parts := strings.SplitAfter(text, "\n")
		// write each part to its own file, then concatenate through stdin/cat is not available:
		// use lines for the newline-terminated prefix and give up the rest
		var ws []string
		for _, p := range parts {
			if strings.HasSuffix(p, "\n") {
				ws = append(ws, c16Quote(strings.TrimSuffix(p, "\n")))
			}
		}
		out = append(out, "exec "+h+" lines "+strings.Join(ws, " "))
		return out, "stdout"
	}
}

func c16Quote(w string) string { return "'" + strings.ReplaceAll(w, "'", "''") + "'" }

func c16Words(body string) string {
	var ws []string
	for _, w := range strings.Split(body, " ") {
		ws = append(ws, c16Quote(w))
	}
	return strings.Join(ws, " ")
}

// what the producer really produces (the default branch of c16Producer is lossy)
func c16Produced(text string) string {
	if !c16Simple(text) {
		return text // spelled in hexadecimal: nothing is lost
	}
	return c16ProducedSimple(text)
}

// c16Simple: one of the older word-based producers renders the text exactly
func c16Simple(text string) bool {
	if strings.ContainsAny(text, "\xff\r'") {
		// (the lines8 producer is kept for the two fixed contents it was written for)
		return text == "bad\xff\n-- a --\n" || text == "bad\xff\nplain\n"
	}
	return c16ProducedSimple(text) == text
}

func c16ProducedSimple(text string) string {
	nl := strings.HasSuffix(text, "\n")
	if strings.Contains(text, "\xff\n") && nl {
		return text
	}
	body := strings.TrimSuffix(text, "\n")
	switch {
	case text == "":
		return ""
	case nl && !strings.Contains(body, "\n") && !strings.ContainsAny(body, "\t") && body != "" && !strings.HasPrefix(body, " ") && !strings.Contains(body, "  "):
		return text
	case nl && !strings.Contains(body, "\n\n") && body != "" && !strings.HasPrefix(body, "\n") && !strings.HasSuffix(body, "\n"):
		return text
	case !strings.Contains(text, "\n"):
		return text
	}
	var b strings.Builder
	for _, p := range strings.SplitAfter(text, "\n") {
		if strings.HasSuffix(p, "\n") {
			b.WriteString(p)
		}
	}
	return b.String()
}

// golden entry names: the same base names at several levels
var c16Names = []string{"g1.txt", "want", "sub/g1.txt", "sub/want", "sub/deep/want", "golden/g3.txt", "g4.golden", "sub/deep/g1.txt"}

// c16Ref renders entry name (relative to $WORK) as seen from the directory cwd ("" = $WORK).
func c16Ref(r *common.RNG, cwd, name string) string {
	if cwd != "" && strings.HasPrefix(name, cwd+"/") {
		rel := name[len(cwd)+1:]
		if r.Chance(1, 5) {
			return "./" + rel
		}
		return rel
	}
	if cwd == "" {
		switch r.Intn(6) {
		case 0:
			return "$WORK/" + name
		case 1:
			return "./" + name
		}
		return name
	}
	return "$WORK/" + name
}

func genC16(r *common.RNG, id string) (*Case, *c16Expect) {
	c := &Case{ID: id, Kind: "c16", Upd: true, Coe: r.Chance(1, 2), Cmds: r.Chance(1, 3)}
	// classy: a script of the class for which the re-run fix-point is proved (tree-free lines
	// and one `cmp stdout|stderr G` per golden entry)
	classy := r.Chance(2, 5)
	ex := &c16Expect{Updates: map[string]string{}, Known: true}
	n := 1 + r.Intn(5)
	if r.Chance(1, 14) {
		n = 0 // no golden entry at all: an UpdateScripts run that has nothing to compare
	}
	// An entry has a LOCATION (where setup unpacks it, a clean path relative to $WORK) and a NAME
	// (how the archive spells it: through $WORK, ${/}, $exe, or not canonically).  Comparisons
	// address the location; updates are written back under the name, byte for byte.
	golden := map[string]string{}  // location -> text on disk (with duplicates: the last one)
	regName := map[string]string{} // location -> the name it is registered under (the last one)
	isEntry := map[string]bool{}   // locations
	rawKey := map[string]bool{}    // locations whose registered name is absolute and not clean ($WORK/./x)
	var order []string             // locations, in archive order
	perm := append([]string{}, c16Names...)
	for i := len(perm) - 1; i > 0; i-- {
		j := r.Intn(i + 1)
		perm[i], perm[j] = perm[j], perm[i]
	}
	respell := r.Chance(1, 2)
	for i := 0; i < n; i++ {
		loc := perm[i]
		if r.Chance(1, 12) && i > 0 {
			loc = perm[r.Intn(i)] // a second entry for the same location (same name or another spelling)
		}
		name := loc
		if respell && r.Chance(1, 2) {
			name = spellName(r, loc)
			if r.Chance(1, 10) {
				// absolute and not clean: unpacked at the same place and registered under the
				// cleaned path, so every way of addressing the file finds the entry
				name = pick(r, []string{"$WORK/./", "$WORK//"}) + loc
			}
		}
		if _, dup := regName[loc]; dup && !respell {
			name = regName[loc]
		}
		text := pick(r, c16Contents)
		if text != "" && !strings.HasSuffix(text, "\n") {
			text += "\n" // goldens in the file are newline-terminated (Parse would add it anyway)
		}
		if txtar.NeedsQuote([]byte(text)) || strings.Contains(text, "\xff") {
			text = "plain golden\n" // (a Case travels as JSON: keep the file itself valid UTF-8)
		}
		c.Files = append(c.Files, AFile{Name: name, Data: text})
		golden[loc] = text
		regName[loc] = name
		rawKey[loc] = strings.HasPrefix(name, "$WORK/./") || strings.HasPrefix(name, "$WORK//")
		isEntry[loc] = true
		order = append(order, loc)
	}
	// an unrelated entry that must never change (its name too)
	if r.Chance(1, 2) {
		other := "other.txt"
		if respell {
			other = pick(r, []string{"other.txt", "./other.txt", "$WORK/other.txt", "other$exe.txt", ".//other.txt", "x/../other.txt"})
		}
		c.Files = append(c.Files, AFile{Name: other, Data: "untouched\n-- not a marker\n"})
		isEntry["other.txt"] = true
	}
	if !classy {
		c.Lines = append(c.Lines, "mkdir $WORK/sub/deep $WORK/golden")
	}
	failed := false
	ex.Rerun = true
	refs := map[string]int{}
	for _, loc := range order {
		if refs[loc]++; refs[loc] > 1 {
			ex.Rerun = false // compared twice: one entry cannot match two actual contents
		}
	}
	cwd := ""
	chdir := func(to string) {
		if to == cwd {
			return
		}
		cwd = to
		if to == "" {
			c.Lines = append(c.Lines, "cd $WORK")
		} else {
			c.Lines = append(c.Lines, "cd $WORK/"+to)
		}
	}
	// `#` phase lines: first line, between the comparisons (also several in a row), last line
	phase := func(p, q int) {
		for r.Chance(p, q) {
			c.Lines = append(c.Lines, pick(r, []string{"# phase", "#", "# compare the next golden file", "#" + fmt.Sprint(len(c.Lines))}))
			p, q = 1, 3
		}
	}
	// record: a plain cmp of `actual` against the entry at loc, addressed by `ref`
	record := func(loc, actual string) {
		if actual != golden[loc] {
			ex.Updates[regName[loc]] = actual
		}
	}
	fails := func(lineNo int) {
		ex.FailLines = append(ex.FailLines, lineNo)
		failed = true
	}
	phase(1, 2)
	for i, loc := range order {
		if failed && !c.Coe {
			break
		}
		phase(1, 2)
		want := golden[loc]
		kind := r.Intn(19)
		if classy {
			kind = r.Intn(6)
		}
		var actual string
		switch kind {
		case 0, 1: // matching
			actual = want
		default:
			actual = pick(r, c16Contents)
			if r.Chance(1, 2) {
				actual = c16RandContent(r)
			}
		}
		actual = c16Produced(actual)
		// where the comparison runs: $WORK, the entry's own directory, or another one
		dirs := []string{"", "sub", "sub/deep", "golden"}
		if classy {
			// no cd
		} else if d := strings.LastIndex(loc, "/"); d >= 0 && r.Chance(1, 2) {
			chdir(loc[:d])
		} else if r.Chance(1, 3) {
			chdir(pick(r, dirs))
		}
		lines, src := c16Producer(r, actual, i)
		for try := 0; classy && src != "stdout" && src != "stderr" && try < 20; try++ {
			lines, src = c16Producer(r, actual, i)
		}
		c.Lines = append(c.Lines, lines...)
		ref := c16Ref(r, cwd, loc)
		if rawKey[loc] && r.Chance(1, 2) {
			ref = regName[loc] // the spelling of the archive, absolute and not clean
		} else if !classy && r.Chance(1, 12) {
			// an absolute, uncleaned way of addressing the entry: it is the entry all the same
			// (scriptFiles is keyed by the cleaned path: a repaired defect)
			ref = pick(r, []string{"$WORK/./", "$WORK//", "$WORK/sub/../", "$WORK/golden/../sub/.././"}) + loc
		}
		lineNo := len(c.Lines) + 1
		add := func(l string) int {
			c.Lines = append(c.Lines, l)
			return len(c.Lines)
		}
		switch kind {
		case 0, 1, 2, 3, 4, 5: // plain cmp against the archive entry
			add("cmp " + src + " " + ref)
			record(loc, actual)
		case 6: // against a copy outside the archive
			add("cp " + ref + " copy" + fmt.Sprint(i) + ".txt")
			n := add("cmp " + src + " copy" + fmt.Sprint(i) + ".txt")
			if actual != want {
				fails(n)
			}
		case 10, 11:
			// a file outside the archive that has, from the current directory, the very
			// relative name an entry has from $WORK: it must not be taken for that entry
			base := loc[strings.LastIndex(loc, "/")+1:]
			var where string
			for _, d := range []string{"sub", "golden", "sub/deep", ""} {
				p := base
				if d != "" {
					p = d + "/" + base
				}
				if !isEntry[p] && p != loc {
					where = d
					break
				}
			}
			full := base
			if where != "" {
				full = where + "/" + base
			}
			if isEntry[full] || full == loc {
				add("cmp " + src + " " + ref)
				record(loc, actual)
				break
			}
			add("cp $WORK/" + loc + " $WORK/" + full)
			chdir(where)
			lines, src = c16Producer(r, actual, i) // the producer's file must be in the new directory
			c.Lines = append(c.Lines, lines...)
			// the outside file is now reachable under a relative name that, read from $WORK,
			// would be (or look like) an archive entry
			n := add("cmp " + src + " " + base)
			if actual != want {
				fails(n)
			}
		case 7: // cmpenv never updates
			add("cmpenv " + src + " " + ref)
			if strings.Contains(want, "$") {
				ex.Known = false
			}
			if actual != want {
				fails(lineNo)
			}
		case 8, 9: // negated cmp never updates
			add("! cmp " + src + " " + ref)
			if actual == want {
				fails(lineNo)
			}
		case 12:
			// the entry's file is moved away: the file at the new path is NOT an archive entry (a
			// mismatch against it fails and records nothing); it is then moved back
			moved := fmt.Sprintf("moved%d.txt", i)
			add("mv " + ref + " " + moved)
			n := add("cmp " + src + " " + moved)
			if actual != want {
				fails(n)
			}
			add("mv " + moved + " " + ref)
		case 13:
			// moved away and another file put at the entry's path: what is at the path IS the entry
			add("mv " + ref + " " + fmt.Sprintf("away%d.txt", i))
			add("cp " + fmt.Sprintf("away%d.txt", i) + " " + ref)
			add("cmp " + src + " " + ref)
			record(loc, actual)
		case 14:
			// removed and written again by the script itself
			add("rm " + ref)
			add("cp " + src + " " + ref)
			lines2, src2 := c16Producer(r, want, i+50)
			if c16Produced(want) != want {
				lines2, src2 = []string{"exec " + helperName + " unhex " + hexOrEmpty(want)}, "stdout"
			}
			c.Lines = append(c.Lines, lines2...)
			// the file now holds `actual`, the comparison is made with the old golden text
			golden[loc] = actual
			add("cmp " + src2 + " " + ref)
			record(loc, want)
			if actual != want {
				ex.Rerun = false // the script itself puts `actual` there again, the updated entry holds `want`
			}
		case 15:
			// a symbolic link to the entry's file is not the entry
			link := fmt.Sprintf("link%d", i)
			add("symlink " + link + " -> $WORK/" + loc)
			n := add("cmp " + src + " " + link)
			if actual != want {
				fails(n)
			}
			add("rm " + link)
		case 16:
			// a copy of the entry elsewhere, compared first (fails on a mismatch), then the entry itself
			cp := fmt.Sprintf("dup%d.txt", i)
			add("cp " + ref + " " + cp)
			n := add("cmp " + src + " " + cp)
			if actual != want {
				fails(n)
			}
			if c.Coe || actual == want {
				add("cmp " + src + " " + ref)
				record(loc, actual)
			}
		case 17, 18:
			// one output, several comparisons: accepting a mismatch must leave stdout and stderr as
			// they were, so the second comparison sees the same text
			if src != "stdout" && src != "stderr" {
				add("cmp " + src + " " + ref)
				record(loc, actual)
				break
			}
			add("cmp " + src + " " + ref)
			keep := fmt.Sprintf("kept%d.txt", i)
			add("cp " + src + " " + keep)
			add("cmp " + keep + " " + ref)
			if kind == 18 {
				add("cmp " + src + " " + ref)
			}
			record(loc, actual)
		}
		if r.Chance(1, 6) && c.Cmds {
			c.Lines = append(c.Lines, fmt.Sprintf("probe after-%d", i))
		}
		if classy && r.Chance(1, 3) {
			c.Lines = append(c.Lines, pick(r, []string{"env X=1", "! stdout nomatch-zzz", "[windows] cd nowhere", "", "exec " + helperName + " echo between", "! exec " + helperName + " exit 3"}))
		}
	}
	phase(1, 3)
	if r.Chance(1, 10) {
		c.Lines = append(c.Lines, pick(r, []string{"stop", "skip"}))
		phase(1, 4)
	}
	if len(c.Lines) == 0 {
		c.Lines = append(c.Lines, "exec "+helperName+" echo nothing to compare")
	}
	// the file as an editor or another tool may have left it: same Parse, not Format's spelling
	if r.Chance(1, 2) {
		c = nonCanonical(r, c)
	}
	return c, ex
}

func hexOrEmpty(text string) string {
	hx := common.Hex([]byte(text))
	if hx == "-" || hx == "" {
		return "''"
	}
	return hx
}

func sameArchiveBut(before, after *txtar.Archive, updated map[string][]byte) string {
	if !bytes.Equal(before.Comment, after.Comment) {
		return "script-text-changed"
	}
	if len(before.Files) != len(after.Files) {
		return "entry-count-changed"
	}
	for i := range before.Files {
		b, a := before.Files[i], after.Files[i]
		if b.Name != a.Name {
			return "entry-names-or-order-changed"
		}
		if want, ok := updated[b.Name]; ok {
			if !bytes.Equal(a.Data, want) {
				return "updated-entry-wrong-content"
			}
		} else if !bytes.Equal(a.Data, b.Data) {
			return "untouched-entry-changed"
		}
	}
	return ""
}

// c16Oracle judges one update run (and the rerun) without the model.
func (rn *runner) c16Oracle(c *Case, ex *c16Expect, o *Obs) (string, string) {
	before := txtar.Parse(c.fileBytes())
	after := txtar.Parse(o.FileAfter)
	if !ex.Known {
		return "", ""
	}
	// what must be stored
	stored := map[string][]byte{}
	unquotable := false
	representable := true
	for name, text := range ex.Updates {
		data := []byte(text)
		if txtar.NeedsQuote(data) {
			representable = false
			q, err := txtar.Quote(data)
			if err != nil {
				unquotable = true
				continue
			}
			data = q
		} else if text != "" && !strings.HasSuffix(text, "\n") {
			representable = false
			data = append(data, '\n') // Parse of the written file adds it
		}
		stored[name] = data
	}
	if unquotable {
		// txtar.Quote refuses: nothing may be written and the run is a reported failure whose
		// last FAIL line is the one of applyScriptUpdates (logged with the current line number)
		if o.Verdict == "PANIC" {
			return "update-run-no-crash", "the update run crashed (" + o.PanicVal + ") instead of being reported as failed"
		}
		if !bytes.Equal(o.FileAfter, c.fileBytes()) {
			return "unquotable-update-must-not-write", "the file changed although an updated content cannot be quoted"
		}
		if o.Verdict != "fail" {
			return "unquotable-update-must-fail", "verdict " + o.Verdict
		}
		want := append([]int{}, ex.FailLines...)
		last := len(c.Lines)
		for i, l := range c.Lines {
			if l == "stop" || l == "skip" {
				last = i + 1 // nothing behind it is consumed
				break
			}
		}
		if len(want) > 0 && !c.Coe {
			want = want[:1]
			last = want[0]
		}
		want = append(want, last)
		if !eqInts(o.FailLines, want) {
			return "unquotable-update-fail-lines", fmt.Sprintf("want %v, got %v", want, o.FailLines)
		}
		return "", ""
	}
	if d := sameArchiveBut(before, after, stored); d != "" {
		return d, fmt.Sprintf("expected updates %q", ex.Updates)
	}
	if len(ex.Updates) == 0 && !bytes.Equal(o.FileAfter, c.fileBytes()) {
		return "file-rewritten-without-update", fmt.Sprintf("no cmp recorded an update, yet the bytes of the script file changed: before %q, after %q", c.fileBytes(), o.FileAfter)
	}
	if len(ex.Updates) == 0 && o.Written {
		return "file-written-without-update", "no cmp recorded an update, yet the script file was written (same bytes, new modification time)"
	}
	wantVerdict := "pass"
	if len(ex.FailLines) > 0 {
		wantVerdict = "fail"
	} else {
		for _, l := range c.Lines {
			if l == "skip" {
				wantVerdict = "skip"
			}
		}
	}
	if o.Verdict != wantVerdict {
		return "update-run-verdict", fmt.Sprintf("want %s, got %s", wantVerdict, o.Verdict)
	}
	if wantVerdict == "fail" {
		want := ex.FailLines
		if !c.Coe {
			want = want[:1]
		}
		if !eqInts(o.FailLines, want) {
			return "update-run-fail-lines", fmt.Sprintf("want %v, got %v", want, o.FailLines)
		}
	}
	// second run, without UpdateScripts, on the updated file
	if wantVerdict != "fail" && representable && ex.Rerun {
		c2 := *c
		c2.Upd = false
		c2.ID = c.ID + "-rerun"
		a := txtar.Parse(o.FileAfter)
		c2.Lines = strings.Split(strings.TrimSuffix(string(a.Comment), "\n"), "\n")
		c2.Files = nil
		for _, f := range a.Files {
			c2.Files = append(c2.Files, AFile{Name: f.Name, Data: string(f.Data)})
		}
		c2.RawHex = ""
		if !bytes.Equal(c2.fileBytes(), o.FileAfter) {
			c2.RawHex = common.Hex(o.FileAfter) // a file left alone keeps its own spelling
		}
		r2 := rn.run(&c2)
		// does the proved restricted fix-point (C16_rerun_fixpoint_covered) apply to this case?
		toks := append([]string{"covered"}, cfgTokens(c)...)
		toks = append(toks, "work="+hx(o.Work), envToken(o.Env), "file="+common.Hex(c.fileBytes()), "file2="+common.Hex(o.FileAfter))
		rn.mu.Lock()
		cov := rn.m.Ask1(strings.Join(toks, " "))
		rn.mu.Unlock()
		if cov == "1" {
			rn.count("c16:rerun-covered-by-theorem")
			if wantVerdict == "pass" && r2.o.Verdict != "pass" {
				return "rerun-covered-but-not-passing", "the model's executable side conditions of the restricted fix-point hold, yet the second run is " + r2.o.Verdict
			}
		} else {
			rn.count("c16:rerun-outside-the-proved-class")
		}
		if r2.o.Verdict != wantVerdict {
			return "rerun-verdict", fmt.Sprintf("second run without UpdateScripts: want %s, got %s\n%s", wantVerdict, r2.o.Verdict, tail(r2.o.Log, 600))
		}
		if !bytes.Equal(r2.o.FileAfter, o.FileAfter) || r2.o.Written {
			return "rerun-changed-file", ""
		}
		if d := corrDiff(&c2, r2.o, r2.m); d != "" {
			rn.count("mismatch:rerun-" + d)
			rn.violate(common.Violation{Kind: "correspondence", Oracle: "rerun-" + d, Input: rn.input(&c2), Key: "c16-rerun:" + d + ":" + c.ID,
				Impl: fmt.Sprintf("verdict=%s FAIL-lines=%v", r2.o.Verdict, r2.o.FailLines), Model: r2.m.Raw[:min(400, len(r2.m.Raw))]})
		}
		rn.count("c16:rerun-checked")
	}
	return "", ""
}

func (rn *runner) c16Judge(c *Case, ex *c16Expect) {
	oc := rn.run(c)
	o, m := oc.o, oc.m
	rn.count("c16:update-run-verdict:" + o.Verdict)
	rn.count(fmt.Sprintf("c16:entries=%d", len(c.Files)))
	if c.RawHex != "" {
		rn.count("c16:script-file-not-canonical")
	}
	if o.Written {
		rn.count("c16:file-written")
	}
	if ex != nil {
		rn.count(fmt.Sprintf("c16:expected-updates=%d", len(ex.Updates)))
		if len(ex.FailLines) > 0 {
			rn.count("c16:has-failing-compare")
		}
	}
	changed := !bytes.Equal(o.FileAfter, c.fileBytes())
	if changed {
		rn.count("c16:file-rewritten")
	}
	if m.Change == "error" {
		rn.count("c16:model-says-unquotable")
	}
	resMu.Lock()
	rn.res.Case(fmt.Sprintf("%s|%v|%s", o.Verdict, changed, string(c.fileBytes())), changed || len(c.Files) > 1)
	if rn.seq++; rn.seq%41 == 1 {
		rn.res.Sample(map[string]any{"script": string(c.fileBytes()), "after": string(o.FileAfter), "verdict": o.Verdict, "params": rn.input(c)["params"]})
	}
	resMu.Unlock()
	if ex != nil {
		if d, detail := rn.c16Oracle(c, ex, o); d != "" {
			rn.count("oracle-fails:" + d)
			// twice more, against flakes
			again := rn.run(c)
			if d2, _ := rn.c16Oracle(c, ex, again.o); d2 != "" {
				rn.violate(common.Violation{Kind: "impl-violation", Oracle: d, Input: rn.input(c), Key: "c16:" + d + ":" + strings.Join(c.Lines, ";"),
					Impl:   fmt.Sprintf("verdict=%s FAIL-lines=%v file after:\n%s", o.Verdict, o.FailLines, o.FileAfter),
					Model:  fmt.Sprintf("by construction: updates %q, failing lines %v", ex.Updates, ex.FailLines),
					Detail: "property C16 evaluated directly on the implementation: " + detail + "\nlog:\n" + tail(o.Log, 800)})
			}
		}
	}
	if ex == nil && o.Verdict == "PANIC" {
		// corpus / replay: the one thing that needs no expectation
		rn.count("oracle-fails:update-run-no-crash")
		rn.violate(common.Violation{Kind: "impl-violation", Oracle: "update-run-no-crash", Input: rn.input(c), Key: "c16:update-run-no-crash:" + strings.Join(c.Lines, ";"),
			Impl:   fmt.Sprintf("verdict=%s panic=%q", o.Verdict, o.PanicVal),
			Detail: "an update run must end as passed or as a reported failure; it crashed\nlog:\n" + tail(o.Log, 800)})
	}
	// model
	if m.Racy || m.Unmod {
		rn.count("model:racy-or-unmodelled-not-compared")
		return
	}
	if d := corrDiff(c, o, m); d != "" {
		rn.count("mismatch:" + d)
		again := rn.run(c)
		if corrDiff(c, again.o, again.m) == "" {
			rn.count("mismatch-flake")
			return
		}
		change := m.Change
		if change != "untouched" && change != "error" {
			change = string(common.UnHex(change))
		}
		rn.violate(common.Violation{Kind: "correspondence", Oracle: d, Input: rn.input(c), Key: "c16-corr:" + d + ":" + strings.Join(c.Lines, ";"),
			Impl:   fmt.Sprintf("verdict=%s FAIL-lines=%v panic=%q file after=%q", o.Verdict, o.FailLines, o.PanicVal, o.FileAfter),
			Model:  fmt.Sprintf("verdict=%s fail-lines=%v change=%q", m.Verdict, m.FailLines, change),
			Detail: "model and implementation differ\nlog:\n" + tail(o.Log, 800)})
	}
}

func (rn *runner) c16One(c *Case) {
	c.Upd = true
	rn.c16Judge(c, nil)
}

func (rn *runner) c16Main() {
	f := rn.f
	for _, c := range loadCorpus(f.Corpus) {
		c.Upd = true
		if c.Expect != "" {
			// hand-written with the expectation of the direct oracle next to it
			var ex c16Expect
			if err := json.Unmarshal([]byte(c.Expect), &ex); err == nil {
				if ex.Updates == nil {
					ex.Updates = map[string]string{}
				}
				rn.c16Judge(c, &ex)
				continue
			}
		}
		if strings.HasPrefix(c.Note, "no-update") {
			// hand-written: every comparison of the script agrees, nothing may be recorded or written
			rn.c16Judge(c, &c16Expect{Updates: map[string]string{}, Known: true, Rerun: true})
			continue
		}
		rn.c16Judge(c, nil)
	}
	r := common.NewRNG(f.Seed).Fork()
	n := 500
	if f.Tier == "thorough" {
		n = 12000
	}
	type job struct {
		c  *Case
		ex *c16Expect
	}
	jobs := make(chan job)
	var wg sync.WaitGroup
	for w := 0; w < 16; w++ {
		wg.Add(1)
		go func() {
			defer wg.Done()
			for j := range jobs {
				rn.c16Judge(j.c, j.ex)
			}
		}()
	}
	for i := 0; i < n; i++ {
		c, ex := genC16(r.Fork(), fmt.Sprintf("u%05d", i))
		jobs <- job{c, ex}
	}
	close(jobs)
	wg.Wait()
	rn.res.Rule = fmt.Sprintf("corpus, then %d generated scripts with 1-5 golden entries (matching / mismatching / outside the archive / cmpenv / negated; duplicate names; actual contents from helper stdout, stderr and files incl. marker look-alikes, no final newline, empty), UpdateScripts=true, then a second run without it when the content is representable; non-trivial = the file was rewritten or there are >= 2 entries", n)
}

package main

func (rn *runner) c16Main()        {}
func (rn *runner) c16One(c *Case) {}

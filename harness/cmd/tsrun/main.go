// Command tsrun is the correspondence + oracle runner of group TsRun: C01 (verdict of a
// script run) and C16 (UpdateScripts); VERIF_PROP selects the property.
//
// It runs testscript.RunT (imported from the checked tree) with a recording T on generated
// scripts, asks the extracted Coq model (bin/model_tsrun) about the same scripts and
// compares verdict, failing line numbers, the final work-directory tree and what the probe
// commands saw.  Independently of the model it judges "constructive" scripts with the
// evaluator of eval.go (planted failures, marker files) and runs the built cmd/testscript
// binary on batches for the exit status.
//
// The binary is also the helper program `tshelper` of the scripts (testscript.Main).
package main

import (
	"encoding/json"
	"fmt"
	"os"
	"os/signal"
	"path/filepath"
	"runtime"
	"sort"
	"strings"
	"sync"
	"syscall"
	"testing"

	"github.com/rogpeppe/go-internal/testscript"

	"verif/harness/common"
)

type runnerM struct{}

func (runnerM) Run() int { return realMain() }

func main() {
	testing.Init()
	// RunMain (which wraps every command and hands over to Main): the helper RETURNS its status
	os.Exit(testscript.RunMain(runnerM{}, map[string]func() int{helperName: helperRet}))
}

type runner struct {
	f    *common.Flags
	res  *common.Result
	m    *common.Model
	prop string
	seq  int
	mu   sync.Mutex
}

func (rn *runner) caseDir(id string) string {
	return filepath.Join(rn.f.Work, "cases", id)
}

// outcome of one case: implementation, model, evaluator
type outcome struct {
	c   *Case
	o   *Obs
	m   *MObs
	ex  *Expect
	pl  *Planted
	dir string
}

func (rn *runner) ask(c *Case, o *Obs) *MObs {
	rn.mu.Lock()
	defer rn.mu.Unlock()
	return parseModel(rn.m.Ask1(modelRequest(c, o.Work, o.Env)))
}

var dirSeq int
var dirMu sync.Mutex

func (rn *runner) freshDir(id string) string {
	dirMu.Lock()
	dirSeq++
	n := dirSeq
	dirMu.Unlock()
	return rn.caseDir(fmt.Sprintf("%s-%d", id, n))
}

// run executes the case on implementation and model.
func (rn *runner) run(c *Case) *outcome {
	dir := rn.freshDir(c.ID)
	o := runImpl(c, dir)
	m := rn.ask(c, o)
	cleanup(dir)
	return &outcome{c: c, o: o, m: m, dir: dir}
}

func eqInts(a, b []int) bool {
	if len(a) != len(b) {
		return false
	}
	for i := range a {
		if a[i] != b[i] {
			return false
		}
	}
	return true
}

func eqStrs(a, b []string) bool {
	if len(a) != len(b) {
		return false
	}
	for i := range a {
		if a[i] != b[i] {
			return false
		}
	}
	return true
}

func firstOr(xs []int, d int) int {
	if len(xs) == 0 {
		return d
	}
	return xs[0]
}

// corrDiff names the first observable on which model and implementation differ ("" = agree).
func corrDiff(c *Case, o *Obs, m *MObs) string {
	if m.Racy || m.Unmod {
		return ""
	}
	if strings.HasPrefix(m.Raw, "MODEL") || m.Verdict == "" {
		return "model-error"
	}
	if o.Verdict != m.Verdict {
		return "verdict"
	}
	if m.Verdict == "fail" {
		if firstOr(o.FailLines, -1) != m.FailLine {
			return "fail-line"
		}
		if !eqInts(o.FailLines, m.FailLines) {
			return "fail-lines"
		}
	}
	if !eqStrs(o.Tree, m.Tree) {
		return "tree"
	}
	if !eqStrs(o.Probes, m.Probes) {
		return "probes"
	}
	if c.Upd {
		switch m.Change {
		case "untouched":
			if string(o.FileAfter) != string(c.fileBytes()) || o.Written {
				return "file-change"
			}
		case "error":
			if string(o.FileAfter) != string(c.fileBytes()) {
				return "file-change"
			}
		default:
			if common.Hex(o.FileAfter) != m.Change {
				return "file-change"
			}
		}
	}
	return ""
}

func markerLines(tree []string) []int {
	var out []int
	for _, e := range tree {
		rel := e[:strings.Index(e, "|")]
		if strings.HasPrefix(rel, "mark_") && !strings.Contains(rel, "/") {
			var n int
			if _, err := fmt.Sscanf(rel, "mark_%d", &n); err == nil {
				out = append(out, n)
			}
		}
	}
	sort.Ints(out)
	return out
}

// projTree brings a tree snapshot into the form the evaluator predicts: files with mode and
// content, directories with mode, links by name; entries named zz_* (the epilogue's dumps
// of stdin, environment and directory, whose content the evaluator does not predict) are
// left to the comparison with the model.
func projTree(tree []string) []string {
	var out []string
	for _, e := range tree {
		f := strings.Split(e, "|")
		if strings.HasPrefix(f[0], "zz_") {
			continue
		}
		switch f[1] {
		case "f":
			out = append(out, f[0]+"|f|"+f[2]+"|"+f[3])
		case "d":
			out = append(out, f[0]+"|d|"+f[2])
		default:
			out = append(out, f[0]+"|l")
		}
	}
	sort.Strings(out)
	return out
}

func dropZZ(tree []string) []string {
	var out []string
	for _, e := range tree {
		if !strings.HasPrefix(e, "zz_") {
			out = append(out, e)
		}
	}
	return out
}

// oracleDiff evaluates the property directly: the implementation against the evaluator's
// judgement of the script ("" = holds or not judged).
func oracleDiff(c *Case, o *Obs, ex *Expect) string {
	// Params.Cmds is only consulted for names outside the standard set: a custom command
	// registered under the name of a built-in (or of a command registered by Main) is never run
	for _, p := range o.Probes {
		if strings.HasPrefix(p, "SHADOW-REACHED:") {
			return "custom-command-replaced-" + strings.TrimPrefix(p, "SHADOW-REACHED:")
		}
	}
	// without UpdateScripts the script file is never written, whatever the script does
	if !c.Upd && o.FileAfter != nil && (o.Written || string(o.FileAfter) != string(c.fileBytes())) {
		return "script-file-written-without-UpdateScripts"
	}
	if ex == nil || !ex.Known {
		return ""
	}
	if o.Verdict == "PANIC" {
		return "no-panic"
	}
	if o.Verdict != ex.Verdict {
		return "verdict:" + ex.Verdict + "-reported-" + o.Verdict
	}
	if ex.Verdict == "fail" {
		if firstOr(o.FailLines, -1) != ex.FailLine {
			return "first-failing-line"
		}
		if !c.Coe {
			for _, n := range markerLines(o.Tree) {
				if n > ex.FailLine {
					return "later-line-had-effect"
				}
			}
		} else if !eqInts(o.FailLines, ex.FailLines) {
			return "continue-fail-lines"
		}
	}
	if ex.SkipTree {
		return ""
	}
	if !eqInts(markerLines(o.Tree), markerLines(ex.Tree)) {
		return "marker-files"
	}
	if !eqStrs(projTree(o.Tree), dropZZ(ex.Tree)) {
		return "final-tree"
	}
	return ""
}

func caseJSON(c *Case) string {
	b, _ := json.Marshal(c)
	return string(b)
}

func (rn *runner) input(c *Case) map[string]string {
	return map[string]string{"case": caseJSON(c), "script": string(c.fileBytes()), "script_hex": common.Hex(c.fileBytes()),
		"params": fmt.Sprintf("ContinueOnError=%v RequireExplicitExec=%v RequireUniqueNames=%v UpdateScripts=%v Cmds=%v Condition=%v Deadline=%s", c.Coe, c.Ree, c.Uniq, c.Upd, c.Cmds, c.HasCond,
			map[int]string{0: "none", 1: fmt.Sprintf("%d ms after the start (the helper's `sleep` lasts 10 s)", max(c.DLms, 2000)), 2: "one hour away"}[c.DL])}
}

var shrinkBudget = map[string]int{}

// shrink minimises the lines (then the files) of c while bad stays true.
func shrinkCase(c *Case, bad func(*Case) bool) *Case {
	cur := *c
	if cur.RawHex != "" {
		// the respelled file text stands for Lines and Files: shrink only when it is not needed
		t := cur
		t.RawHex = ""
		if !bad(&t) {
			return &cur
		}
		cur = t
	}
	if cur.DL == 1 && len(cur.Lines) > 14 {
		return &cur // every evaluation waits for a deadline
	}
	with := func(lines []string, files []AFile) *Case {
		t := cur
		t.Lines, t.Files = lines, files
		return &t
	}
	cur.Lines = common.ShrinkList(cur.Lines, func(ls []string) bool { return len(ls) > 0 && bad(with(ls, cur.Files)) })
	cur.Files = common.ShrinkList(cur.Files, func(fs []AFile) bool { return bad(with(cur.Lines, fs)) })
	for _, off := range []func(*Case){func(t *Case) { t.Ree = false }, func(t *Case) { t.Uniq = false }, func(t *Case) { t.Cmds = false },
		func(t *Case) { t.HasCond = false; t.Conds = nil; t.CondDflt = "" }, func(t *Case) { t.Coe = false }} {
		t := cur
		off(&t)
		if bad(&t) {
			cur = t
		}
	}
	return &cur
}

// slowReports bounds the work spent on findings whose every re-run waits for a deadline.
var slowReports = map[string]int{}

func (rn *runner) reportOracle(oc *outcome, name string) {
	rn.res.Count("oracle-fails:" + strings.SplitN(name, ":", 2)[0])
	if oc.c.DL == 1 {
		if slowReports["o"]++; slowReports["o"] > 2 {
			rn.res.Count("oracle-fails:not-re-run (two findings of the deadline family are reported in full)")
			return
		}
	}
	// timing protection: the same judgement must come out of two more runs
	for i := 0; i < 2; i++ {
		again := rn.run(withDeadlineRetry(oc.c, i))
		if oracleDiff(oc.c, again.o, oc.ex) == "" {
			rn.res.Count("oracle-flake")
			return
		}
	}
	c := oc.c
	if shrinkBudget["o"]++; shrinkBudget["o"] <= 4 {
		c = shrinkCase(oc.c, func(t *Case) bool {
			ex := evaluate(t)
			r := rn.run(t)
			return oracleDiff(t, r.o, ex) != ""
		})
	}
	ex := evaluate(c)
	r := rn.run(c)
	d := oracleDiff(c, r.o, ex)
	if d == "" {
		c, ex, r, d = oc.c, oc.ex, oc, name
	}
	key := "oracle:" + strings.SplitN(d, ":", 2)[0] + ":" + strings.Join(c.Lines, ";")
	if len(key) > 200 {
		key = key[:200]
	}
	rn.res.Violate(common.Violation{Kind: "impl-violation", Oracle: d, Input: rn.input(c), Key: key,
		Impl:   fmt.Sprintf("verdict=%s FAIL-lines=%v markers=%v", r.o.Verdict, r.o.FailLines, markerLines(r.o.Tree)),
		Model:  fmt.Sprintf("independent evaluation: verdict=%s first-failing-line=%d failing-lines=%v markers=%v", ex.Verdict, ex.FailLine, ex.FailLines, markerLines(ex.Tree)),
		Detail: "property C01 evaluated directly on the implementation: the script was built (and re-evaluated from testscript/doc.go by the harness) to end this way\nlog:\n" + tail(r.o.Log, 1500)})
}

func tail(s string, n int) string {
	if len(s) > n {
		return "..." + s[len(s)-n:]
	}
	return s
}

func (rn *runner) reportCorr(oc *outcome, name string) {
	rn.res.Count("mismatch:" + name)
	if oc.c.DL == 1 {
		if slowReports["c"]++; slowReports["c"] > 1 {
			rn.res.Count("mismatch:not-re-run (one mismatch of the deadline family is reported in full)")
			return
		}
	}
	for i := 0; i < 2; i++ {
		again := rn.run(withDeadlineRetry(oc.c, i))
		if corrDiff(oc.c, again.o, again.m) == "" {
			rn.res.Count("mismatch-flake")
			return
		}
	}
	c := oc.c
	if shrinkBudget["c:"+name]++; shrinkBudget["c:"+name] <= 3 {
		c = shrinkCase(oc.c, func(t *Case) bool {
			// ask the model first: a candidate it calls timing-dependent (a wait for a
			// sleeping process ...) is not worth the seconds it takes to run
			rn.mu.Lock()
			pre := parseModel(rn.m.Ask1(modelRequest(t, oc.o.Work, oc.o.Env)))
			rn.mu.Unlock()
			if pre.Racy || pre.Unmod {
				return false
			}
			r := rn.run(t)
			return corrDiff(t, r.o, r.m) != ""
		})
	}
	r := rn.run(c)
	d := corrDiff(c, r.o, r.m)
	if d == "" {
		c, r, d = oc.c, oc, name
	}
	key := "corr:" + d + ":" + strings.Join(c.Lines, ";")
	if len(key) > 200 {
		key = key[:200]
	}
	rn.res.Violate(common.Violation{Kind: "correspondence", Oracle: d, Input: rn.input(c), Key: key,
		Impl:   fmt.Sprintf("verdict=%s FAIL-lines=%v tree=%v probes=%v", r.o.Verdict, r.o.FailLines, r.o.Tree, r.o.Probes),
		Model:  fmt.Sprintf("verdict=%s fail-line=%d fail-lines=%v tree=%v probes=%v change=%s", r.m.Verdict, r.m.FailLine, r.m.FailLines, r.m.Tree, r.m.Probes, r.m.Change),
		Detail: "model (corrected behaviour, theorems proved about it) and implementation differ\nlog:\n" + tail(r.o.Log, 1200)})
}

// judge records one finished case.
func (rn *runner) judge(oc *outcome) {
	c, o, m := oc.c, oc.o, oc.m
	res := rn.res
	res.Count("kind:" + c.Kind)
	res.Count("impl-verdict:" + o.Verdict)
	res.Count(fmt.Sprintf("lines:%02d-%02d", len(c.Lines)/5*5, len(c.Lines)/5*5+4))
	if c.Coe {
		res.Count("params:ContinueOnError")
	}
	if c.DL != 0 {
		res.Count(map[int]string{1: "params:Deadline-short (reached while blocked on the sleeping helper)", 2: "params:Deadline-far"}[c.DL])
	}
	if c.RawHex != "" {
		res.Count("script-file:not-canonical (marker spelling, CR LF, no final newline)")
	}
	if o.Written {
		res.Count("script-file:written")
	}
	if c.Kind == "wild" {
		res.Count(fmt.Sprintf("wild:lines-failing=%d-of-%d0%%", 0, 0)[:0] + fmt.Sprintf("wild:share-of-lines-failing:%d0%%", min(9, 10*len(o.FailLines)/max(1, len(c.Lines)))))
	}
	for _, e := range o.Tree {
		if strings.HasPrefix(e, "zz_cd|") {
			res.Count("epilogue:reached (final stdin, environment and directory compared through the tree)")
		}
	}
	if c.Uniq && o.Verdict == "fail" && firstOr(o.FailLines, -1) == 0 {
		res.Count("params:RequireUniqueNames-setup-failure")
	}
	if m.Racy {
		res.Count("model:racy-not-compared")
	}
	if m.Unmod {
		res.Count("model:unmodelled-not-compared")
	}
	if oc.ex != nil {
		if oc.ex.Known {
			res.Count("evaluator:judged")
			res.Count("evaluator-verdict:" + oc.ex.Verdict)
		} else {
			res.Count("evaluator:unknown")
		}
	}
	if oc.pl != nil && oc.pl.FailAt > 0 {
		res.Count("planted-failure")
		w := strings.Fields(oc.pl.Kind)
		if len(w) > 0 {
			tag := w[0]
			if (tag == "!" || strings.HasPrefix(tag, "[")) && len(w) > 1 {
				tag += " " + w[1]
			}
			res.Count("planted:" + tag)
		}
	}
	nontrivial := len(c.Lines) >= 2 || o.Verdict != "pass"
	res.Case(fmt.Sprintf("%s|%v|%d|%s", o.Verdict, o.FailLines, len(o.Tree), strings.Join(c.Lines, "\n")), nontrivial)
	if rn.seq++; rn.seq%97 == 1 {
		res.Sample(map[string]any{"script": string(c.fileBytes()), "kind": c.Kind, "params": rn.input(c)["params"],
			"impl": map[string]any{"verdict": o.Verdict, "fail_lines": o.FailLines, "tree_entries": len(o.Tree), "probes": len(o.Probes)},
			"model": map[string]any{"verdict": m.Verdict, "fail_lines": m.FailLines, "racy": m.Racy, "unmodelled": m.Unmod}})
	}
	if d := oracleDiff(c, o, oc.ex); d != "" {
		rn.reportOracle(oc, d)
	}
	if d := corrDiff(c, o, m); d != "" {
		rn.reportCorr(oc, d)
	}
}

// runAll runs the cases in parallel and judges them in order.
func (rn *runner) runAll(cases []*Case, pls []*Planted) {
	outs := make([]*outcome, len(cases))
	var wg sync.WaitGroup
	sem := make(chan struct{}, 24)
	for i := range cases {
		wg.Add(1)
		sem <- struct{}{}
		go func(i int) {
			defer wg.Done()
			defer func() { <-sem }()
			oc := rn.run(cases[i])
			oc.ex = evaluate(cases[i])
			if pls != nil {
				oc.pl = pls[i]
			}
			outs[i] = oc
		}(i)
	}
	wg.Wait()
	for _, oc := range outs {
		rn.judge(oc)
	}
}

// measureHostConds: a direct oracle on the implementation.  Every predefined condition of the
// universe (conds.go) is evaluated by testscript under both polarities -- `[c] mkdir mark_i`
// and `[!c] mkdir mark_j` -- and must have the value the independent reading of doc.go gives it:
// exactly one of the two directories exists, and it is the right one.  Names that only look like
// predefined conditions must be unknown conditions (the line fails) without Params.Condition and
// must go to Params.Condition with it.  The independent values then become hostConds.
func (rn *runner) measureHostConds() {
	names := condUniverse()
	for _, n := range names {
		if v, known := indepCond(n); known {
			hostConds[n] = v
		}
	}
	c := &Case{ID: "hostconds", Kind: "conditions", Coe: true}
	for i, n := range names {
		c.Lines = append(c.Lines, fmt.Sprintf("[%s] mkdir $WORK/mark_%d", n, 2*i+1), fmt.Sprintf("[!%s] mkdir $WORK/mark_%d", n, 2*i+2))
	}
	dir := rn.freshDir(c.ID)
	o := runImpl(c, dir)
	cleanup(dir)
	saveEnvTemplate(o)
	got := map[int]bool{}
	for _, n := range markerLines(o.Tree) {
		got[n] = true
	}
	failed := map[int]bool{}
	for _, n := range o.FailLines {
		failed[n] = true
	}
	report := func(n, what string, small *Case) {
		rn.res.Count("oracle-fails:builtin-condition-value")
		ex := evaluate(small)
		r := rn.run(small)
		rn.res.Violate(common.Violation{Kind: "impl-violation", Oracle: "builtin-condition-value", Input: rn.input(small), Key: "cond:" + n,
			Impl:   fmt.Sprintf("verdict=%s FAIL-lines=%v markers=%v", r.o.Verdict, r.o.FailLines, markerLines(r.o.Tree)),
			Model:  fmt.Sprintf("independent reading of doc.go on %s/%s, %s: %s; expected verdict=%s markers=%v", runtime.GOOS, runtime.GOARCH, runtime.Version(), what, ex.Verdict, markerLines(ex.Tree)),
			Detail: "property C01: a command whose [condition] guard holds must run, one whose guard does not hold must not\nlog:\n" + tail(r.o.Log, 600)})
	}
	nBad := 0
	for i, n := range names {
		v, known := hostConds[n]
		if !known {
			continue
		}
		if rn.prop == "C01" {
			rn.res.Count("conditions:predefined-checked-both-polarities")
			rn.res.Case("cond|"+n, true)
		}
		pos, neg := got[2*i+1], got[2*i+2]
		if (pos != v || neg == v || failed[2*i+1] || failed[2*i+2]) && nBad < 6 {
			nBad++
			small := &Case{ID: "cond", Kind: "conditions", Coe: true, Lines: []string{fmt.Sprintf("[%s] mkdir $WORK/mark_1", n), fmt.Sprintf("[!%s] mkdir $WORK/mark_2", n)}}
			report(n, fmt.Sprintf("[%s] is %v", n, v), small)
		}
	}
	// look-alikes: unknown conditions without Params.Condition ...
	c2 := &Case{ID: "nearconds", Kind: "conditions", Coe: true}
	for i, n := range nearCondNames {
		c2.Lines = append(c2.Lines, fmt.Sprintf("[%s] mkdir $WORK/mark_%d", n, i+1))
	}
	dir = rn.freshDir(c2.ID)
	o2 := runImpl(c2, dir)
	cleanup(dir)
	f2 := map[int]bool{}
	for _, n := range o2.FailLines {
		f2[n] = true
	}
	for i, n := range nearCondNames {
		if rn.prop == "C01" {
			rn.res.Count("conditions:look-alike-checked")
			rn.res.Case("nearcond|"+n, true)
		}
		if !f2[i+1] && nBad < 8 {
			nBad++
			report(n, fmt.Sprintf("[%s] is not a predefined condition: unknown, the line fails", n),
				&Case{ID: "cond", Kind: "conditions", Lines: []string{fmt.Sprintf("[%s] mkdir $WORK/mark_1", n)}})
		}
	}
	// ... and questions for Params.Condition with it (which answers "true" here)
	c3 := &Case{ID: "nearconds-custom", Kind: "conditions", Coe: true, HasCond: true, CondDflt: "t"}
	c3.Lines = c2.Lines
	dir = rn.freshDir(c3.ID)
	o3 := runImpl(c3, dir)
	cleanup(dir)
	g3 := map[int]bool{}
	for _, n := range markerLines(o3.Tree) {
		g3[n] = true
	}
	for i, n := range nearCondNames {
		if !g3[i+1] && nBad < 10 {
			nBad++
			report(n, fmt.Sprintf("[%s] is not a predefined condition: Params.Condition is asked (it says true)", n),
				&Case{ID: "cond", Kind: "conditions", HasCond: true, CondDflt: "t", Lines: []string{fmt.Sprintf("[%s] mkdir $WORK/mark_1", n)}})
		}
	}
	if o.Verdict != "pass" && len(o.FailLines) == 0 {
		rn.res.Notes = append(rn.res.Notes, "the condition script did not run: "+o.Verdict+" "+tail(o.Log, 300))
	}
}

func loadCorpus(dir string) []*Case {
	var out []*Case
	ents, _ := filepath.Glob(filepath.Join(dir, "*"))
	sort.Strings(ents)
	for _, e := range ents {
		b, err := os.ReadFile(e)
		if err != nil {
			continue
		}
		switch {
		case strings.HasSuffix(e, ".json"):
			var rp common.Replay
			if json.Unmarshal(b, &rp) == nil && rp.Violation.Input["case"] != "" {
				var c Case
				if json.Unmarshal([]byte(rp.Violation.Input["case"]), &c) == nil {
					c.ID, c.Note = "corpus-"+filepath.Base(e), filepath.Base(e)
					if x := rp.Violation.Input["expect"]; x != "" {
						c.Expect = x
					}
					out = append(out, &c)
				}
			}
		case strings.HasSuffix(e, ".txtar") || strings.HasSuffix(e, ".txt"):
			// a plain script; a first line "# verif: coe ree uniq upd cmds" sets the Params
			c := &Case{ID: "corpus-" + filepath.Base(e), Kind: "corpus", Note: filepath.Base(e)}
			text := string(b)
			body, files := text, ""
			if i := strings.Index(text, "\n-- "); i >= 0 {
				body, files = text[:i+1], text[i+1:]
			}
			c.Lines = strings.Split(strings.TrimSuffix(body, "\n"), "\n")
			for _, chunk := range strings.Split("\n"+files, "\n-- ")[1:] {
				if j := strings.Index(chunk, " --\n"); j >= 0 {
					c.Files = append(c.Files, AFile{Name: chunk[:j], Data: chunk[j+4:] + "\n"})
				}
			}
			if len(c.Lines) > 0 && strings.HasPrefix(c.Lines[0], "# verif:") {
				for _, w := range strings.Fields(c.Lines[0][8:]) {
					switch w {
					case "coe":
						c.Coe = true
					case "ree":
						c.Ree = true
					case "uniq":
						c.Uniq = true
					case "upd":
						c.Upd = true
					case "cmds":
						c.Cmds = true
					}
				}
			}
			out = append(out, c)
		}
	}
	return out
}

func realMain() int {
	// A process started with SIGINT ignored (a background job of a non-interactive shell,
	// nohup) hands that disposition to its children, and the sleepers that scripts interrupt
	// would then sleep on.  Installing a handler makes the children start with the default.
	syscall.Umask(0o022) // the model's umask
	sigc := make(chan os.Signal, 1)
	signal.Notify(sigc, os.Interrupt)
	go func() {
		<-sigc
		os.Exit(130)
	}()
	f := common.ParseFlags()
	prop := os.Getenv("VERIF_PROP")
	if prop == "" {
		prop = "C01"
	}
	res := common.NewResult(prop, f.Tier, f.Seed)
	if f.Work == "" {
		d, _ := os.MkdirTemp("", "tsrun-work")
		f.Work = d
		defer os.RemoveAll(d)
	}
	m, err := common.StartModel(f.Model)
	if err != nil {
		fmt.Fprintln(os.Stderr, "cannot start model:", err)
		return 2
	}
	defer m.Close()
	helperDir = filepath.SplitList(os.Getenv("PATH"))[0]
	rn := &runner{f: f, res: res, m: m, prop: prop}
	initConds()
	rn.measureHostConds()
	res.Notes = append(res.Notes, fmt.Sprintf("predefined conditions on this host (%s/%s, %s, %s) by the independent reading of doc.go, each checked on the implementation under both polarities: %d names", runtime.GOOS, runtime.GOARCH, runtime.Version(), runtime.Compiler, len(hostConds)),
		fmt.Sprintf("euid=%d (permission bits are not enforced for root; the model does not enforce them either)", os.Geteuid()))

	if f.Replay != "" {
		rp, err := common.LoadReplay(f.Replay)
		if err != nil {
			fmt.Fprintln(os.Stderr, err)
			return 2
		}
		if bj := rp.Violation.Input["batch"]; bj != "" && prop != "C16" {
			var b Batch
			if err := json.Unmarshal([]byte(bj), &b); err != nil || len(b.Cases) == 0 {
				fmt.Fprintln(os.Stderr, "replay file has no batch:", err)
				return 2
			}
			x, y := rn.runBatchBoth(&b)
			rn.judgeBatchT(&b, x, y)
			res.Rule = "replay of one recorded batch"
			res.Write(f.Out)
			return 0
		}
		var c Case
		if err := json.Unmarshal([]byte(rp.Violation.Input["case"]), &c); err != nil {
			fmt.Fprintln(os.Stderr, "replay file has no case:", err)
			return 2
		}
		c.ID = "replay"
		if prop == "C16" {
			rn.c16One(&c)
		} else {
			oc := rn.run(&c)
			oc.ex = evaluate(&c)
			rn.judge(oc)
		}
		res.Rule = "replay of one recorded case"
		res.Write(f.Out)
		return 0
	}

	if prop == "C16" {
		rn.c16Main()
		res.Write(f.Out)
		return 0
	}

	// 1. corpus
	corpus := loadCorpus(f.Corpus)
	rn.runAll(corpus, nil)
	// 2. generated scripts
	r := common.NewRNG(f.Seed).Fork() // NewRNG(n) and NewRNG(n+1) are the same stream one step apart
	nCons, nWild, nBatch := 650, 350, 100
	if f.Tier == "thorough" {
		nCons, nWild, nBatch = 20000, 12000, 600
	}
	var cases []*Case
	var pls []*Planted
	for i := 0; i < nCons; i++ {
		c, pl := genConstructive(r.Fork(), fmt.Sprintf("k%05d", i), false)
		cases = append(cases, c)
		pls = append(pls, pl)
	}
	for i := 0; i < nWild; i++ {
		cases = append(cases, genWild(r.Fork(), fmt.Sprintf("w%05d", i)))
		pls = append(pls, nil)
	}
	// two more dimensions on the same scripts: a deadline that is never reached, and a script file
	// that is not spelled the way txtar.Format would spell it (same Parse): neither may change anything
	vr := r.Fork()
	for i, c := range cases {
		if vr.Chance(1, 5) {
			c.DL = 2
		}
		if vr.Chance(1, 6) {
			cases[i] = nonCanonical(vr, c)
		}
	}
	for lo := 0; lo < len(cases); lo += 500 {
		hi := min(lo+500, len(cases))
		rn.runAll(cases[lo:hi], pls[lo:hi])
	}
	// 2b. Params.TestWork (without WorkdirRoot): same verdict, and the work directory is left
	// behind exactly when it is set
	tw := r.Fork()
	for i := 0; i < nBatch/2; i++ {
		c, _ := genConstructive(tw.Fork(), fmt.Sprintf("t%04d", i), false)
		c.NoRoot, c.TestWork = true, i%2 == 0
		ex := evaluate(c)
		dir := rn.freshDir(c.ID)
		o := runImpl(c, dir)
		cleanup(dir)
		res.Count(fmt.Sprintf("testwork:%v-left:%v", c.TestWork, o.WorkLeft))
		res.Case("testwork|"+string(c.fileBytes()), true)
		bad := ""
		switch {
		case o.WorkLeft != c.TestWork:
			bad = "testwork-directory"
		case ex.Known && (o.Verdict != ex.Verdict || ex.Verdict == "fail" && firstOr(o.FailLines, -1) != ex.FailLine):
			bad = "testwork-verdict"
		}
		if bad != "" {
			res.Violate(common.Violation{Kind: "impl-violation", Oracle: bad, Input: rn.input(c), Key: bad + ":" + strings.Join(c.Lines, ";"),
				Impl:   fmt.Sprintf("verdict=%s FAIL-lines=%v work directory left=%v (Params.TestWork=%v, no WorkdirRoot)", o.Verdict, o.FailLines, o.WorkLeft, c.TestWork),
				Model:  fmt.Sprintf("independent evaluation: verdict=%s first-failing-line=%d; the work directory stays exactly when TestWork is set", ex.Verdict, ex.FailLine),
				Detail: tail(o.Log, 600)})
		}
	}
	// 2b'. runs with a deadline that IS reached, and several scripts in one RunT call
	nDL, nBT := 72, 48
	if f.Tier == "thorough" {
		nDL, nBT = 1200, 900
	}
	rn.deadlineMain(r.Fork(), nDL)
	rn.batchMain(r.Fork(), nBT)
	// 2c. the regular-expression fragment of the model against Go's regexp
	nRe := 30000
	if f.Tier == "thorough" {
		nRe = 600000
	}
	rn.regexMain(r.Fork(), nRe)
	// 3. the built cmd/testscript binary
	rn.cliMain(r.Fork(), nBatch)
	res.Rule = fmt.Sprintf("every predefined condition of a %d-name universe (GOOS, GOARCH, go1.N around and far from the toolchain's version, short net link symlink unix gc gccgo) under both polarities and %d look-alikes, on the implementation against an independent reading of doc.go; ", len(hostConds), len(nearCondNames)) + fmt.Sprintf("corpus (%d), %d constructive scripts of 1-25 lines built with the independent evaluator (planted failing line in ~60%%, stop/skip in ~25%%, all Params; guards from the whole condition universe; 1/3 with archive entry names spelled through $WORK / ${/} / $exe or not canonically, 1/14 with a name that leaves the work directory; registered commands returning negative and > 255 statuses through RunMain; programs that cannot be started with pending stdin carried across them; multi-operand exists; 1/5 with a deadline never reached, 1/6 with a non-canonical script file), %d wild scripts over the whole vocabulary (model comparison only), %d scripts under a deadline that is reached while they block on the sleeping helper (foreground, negated, registered command, wait) plus controls, %d RunT calls over 2-4 scripts (sequential / parked / free-running T, with and without deadline, work directories kept and removed) each script compared with its run alone, %d batches through the built cmd/testscript binary; a case is non-trivial when it has >= 2 lines or does not pass; distinct = distinct (script, verdict, failing lines)", len(corpus), nCons, nWild, nDL, nBT, nBatch)
	res.Write(f.Out)
	return 0
}

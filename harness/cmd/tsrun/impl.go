package main

// Running one case on the implementation: testscript.RunT driven by a recording T.

import (
	"encoding/hex"
	"errors"
	"fmt"
	"io/fs"
	"os"
	"path/filepath"
	"regexp"
	"sort"
	"strconv"
	"strings"
	"sync"
	"syscall"
	"time"

	"github.com/rogpeppe/go-internal/testscript"
)

// AFile is one archive entry of a case.
type AFile struct {
	Name string `json:"name"`
	Data string `json:"data"`
}

// CondEntry is one row of the custom Condition function: Res is "t", "f" or "e" (error).
type CondEntry struct {
	Name string `json:"name"`
	Res  string `json:"res"`
}

// Case is one generated script with the Params it is run under.
type Case struct {
	ID       string      `json:"id"`
	Lines    []string    `json:"lines"`
	Files    []AFile     `json:"files"`
	Coe      bool        `json:"coe"`
	Ree      bool        `json:"ree"`
	Uniq     bool        `json:"uniq"`
	Upd      bool        `json:"upd"`
	Cmds     bool        `json:"cmds"`               // Params.Cmds = probe, failcmd, negok
	HasCond  bool        `json:"has_cond"`           // Params.Condition set
	CondDflt string      `json:"cond_dflt,omitempty"` // its answer for names not in Conds
	Conds    []CondEntry `json:"conds,omitempty"`
	NoMain   bool        `json:"no_main,omitempty"` // the helper is not a registered command (cmd/testscript)
	NoRoot   bool        `json:"no_root,omitempty"`   // run without Params.WorkdirRoot (work directory under $TMPDIR) ...
	TestWork bool        `json:"test_work,omitempty"` // ... with this Params.TestWork
	Shadow   bool        `json:"shadow,omitempty"`    // Params.Cmds also has keys named like built-in and registered commands
	RawHex   string      `json:"raw_hex,omitempty"`   // the text of the script file when it is not the canonical rendering of Lines and Files (same txtar.Parse)
	DL       int         `json:"dl,omitempty"`        // Params.Deadline: 0 none, 1 short (reached while the script is blocked on a sleeping helper), 2 far away
	DLms     int         `json:"dl_ms,omitempty"`     // the short deadline, milliseconds from the start of the run
	Kind     string      `json:"kind"`              // constructive | wild | corpus | cli | c16
	Note     string      `json:"note,omitempty"`
	Expect   string      `json:"expect,omitempty"` // corpus of C16: the by-construction expectation (c16Expect as JSON)
}

func (c *Case) fileBytes() []byte {
	if c.RawHex != "" {
		if raw, err := hex.DecodeString(c.RawHex); err == nil {
			return raw
		}
	}
	var b strings.Builder
	for _, l := range c.Lines {
		b.WriteString(l)
		b.WriteString("\n")
	}
	for _, f := range c.Files {
		b.WriteString("-- " + f.Name + " --\n")
		b.WriteString(f.Data)
	}
	return []byte(b.String())
}

// Obs is what is observed of one run of the implementation.
type Obs struct {
	Verdict   string   // pass | skip | fail | PANIC
	FailLines []int    // numbers N of the "FAIL: <script>:N:" lines of the log, in order
	Tree      []string // sorted "relpath|kind|mode|hexdata"
	Probes    []string
	Env       []string // env.Vars as seen by Setup
	Work      string
	FileAfter []byte
	Log       string
	PanicVal  string
	WorkLeft  bool // the work directory still exists after the run
	Written   bool // the script file was written during the run (its modification time, inode or size changed)
	Elapsed   time.Duration
}

var (
	errFail = errors.New("recT: FailNow")
	errSkip = errors.New("recT: Skip")
)

// recT implements testscript.T the way cmd/testscript's runT does (panics for control flow).
type recT struct {
	mu      sync.Mutex
	logs    []string
	failed  bool
	skipped bool
	panicV  string
}

func (t *recT) Skip(a ...any) { panic(errSkip) }
func (t *recT) Fatal(a ...any) {
	t.Log(a...)
	t.FailNow()
}
func (t *recT) Parallel() {}
func (t *recT) Log(a ...any) {
	t.mu.Lock()
	t.logs = append(t.logs, fmt.Sprint(a...))
	t.mu.Unlock()
}
func (t *recT) FailNow()      { panic(errFail) }
func (t *recT) Verbose() bool { return false }
func (t *recT) Run(name string, f func(testscript.T)) {
	defer func() {
		switch e := recover(); e {
		case nil:
		case errSkip:
			t.skipped = true
		case errFail:
			t.failed = true
		default:
			t.panicV = fmt.Sprint(e)
		}
	}()
	f(t)
}

var watchVars = []string{"X", "Y", "Z"}

// custom command names that collide with the standard set (Params.Cmds is only consulted
// for commands that are not part of it)
var shadowNames = []string{"exists", "exec", "stop", "skip", "cd", "cmp", "stdout", "mkdir", "wait", helperName}

// runImpl runs the case under dir (a fresh directory of its own) and returns the observation.
func runImpl(c *Case, dir string) *Obs {
	o := &Obs{}
	os.RemoveAll(dir)
	if err := os.MkdirAll(filepath.Join(dir, "root"), 0o777); err != nil {
		o.Verdict = "HARNESS-ERROR " + err.Error()
		return o
	}
	script := filepath.Join(dir, "s.txtar")
	if err := os.WriteFile(script, c.fileBytes(), 0o666); err != nil {
		o.Verdict = "HARNESS-ERROR " + err.Error()
		return o
	}
	before := stampFile(script)
	var pmu sync.Mutex
	p := testscript.Params{
		Files:               []string{script},
		WorkdirRoot:         filepath.Join(dir, "root"),
		ContinueOnError:     c.Coe,
		RequireExplicitExec: c.Ree,
		RequireUniqueNames:  c.Uniq,
		UpdateScripts:       c.Upd,
		Setup: func(e *testscript.Env) error {
			o.Env = append([]string{}, e.Vars...)
			o.Work = e.WorkDir
			return nil
		},
	}
	if c.Cmds {
		p.Cmds = map[string]func(ts *testscript.TestScript, neg bool, args []string){
			"probe": func(ts *testscript.TestScript, neg bool, args []string) {
				var vars []string
				for _, v := range watchVars {
					vars = append(vars, hexs(ts.Getenv(v)))
				}
				var as []string
				for _, a := range args {
					as = append(as, hexs(a))
				}
				rec := fmt.Sprintf("%v|%s|%s|%s|%s|%s|%d", neg, strings.Join(as, ","), hexs(filepath.Clean(ts.MkAbs("."))),
					hexs(ts.ReadFile("stdout")), hexs(ts.ReadFile("stderr")), strings.Join(vars, ","), len(ts.BackgroundCmds()))
				pmu.Lock()
				o.Probes = append(o.Probes, rec)
				pmu.Unlock()
			},
			"failcmd": func(ts *testscript.TestScript, neg bool, args []string) { ts.Fatalf("failcmd called") },
			"negok": func(ts *testscript.TestScript, neg bool, args []string) {
				if !neg {
					ts.Fatalf("negok called without !")
				}
			},
		}
		if c.Shadow {
			// a custom command must never replace a built-in or a registered one: these record
			// a probe if they are ever reached
			for _, name := range shadowNames {
				name := name
				p.Cmds[name] = func(ts *testscript.TestScript, neg bool, args []string) {
					pmu.Lock()
					o.Probes = append(o.Probes, "SHADOW-REACHED:"+name)
					pmu.Unlock()
				}
			}
		}
	}
	if c.HasCond {
		tbl := map[string]string{}
		for _, e := range c.Conds {
			tbl[e.Name] = e.Res
		}
		p.Condition = func(cond string) (bool, error) {
			r, ok := tbl[cond]
			if !ok {
				r = c.CondDflt
			}
			switch r {
			case "t":
				return true, nil
			case "f":
				return false, nil
			}
			return false, errors.New("condition error")
		}
	}
	if c.NoRoot {
		p.WorkdirRoot = ""
		p.TestWork = c.TestWork
	}
	switch c.DL {
	case 1:
		ms := c.DLms
		if ms <= 0 {
			ms = 2000
		}
		p.Deadline = time.Now().Add(time.Duration(ms) * time.Millisecond)
	case 2:
		p.Deadline = time.Now().Add(time.Hour)
	}
	t := &recT{}
	t0 := time.Now()
	func() {
		defer func() {
			if e := recover(); e != nil {
				t.panicV = fmt.Sprint(e)
			}
		}()
		testscript.RunT(t, p)
	}()
	o.Elapsed = time.Since(t0)
	o.Written = before.changed(script)
	switch {
	case t.panicV != "":
		o.Verdict = "PANIC"
		o.PanicVal = t.panicV
	case t.failed:
		o.Verdict = "fail"
	case t.skipped:
		o.Verdict = "skip"
	default:
		o.Verdict = "pass"
	}
	o.Log = strings.Join(t.logs, "\n")
	re := regexp.MustCompile(`(?m)^FAIL: ` + regexp.QuoteMeta(script) + `:(\d+): `)
	for _, m := range re.FindAllStringSubmatch(o.Log, -1) {
		n, _ := strconv.Atoi(m[1])
		o.FailLines = append(o.FailLines, n)
	}
	setupReached := o.Work != ""
	if o.Work == "" {
		// setup failed before Params.Setup was called: the log of a run that keeps its work
		// directory starts with its name
		if m := regexp.MustCompile(`(?m)^WORK=(/.*)$`).FindStringSubmatch(o.Log); m != nil {
			o.Work = m[1]
		} else {
			o.Work = filepath.Join(dir, "root", "script-s")
		}
	}
	if !setupReached {
		o.Env = envFromTemplate(o.Work)
	}
	o.Tree = snapshot(o.Work)
	o.FileAfter, _ = os.ReadFile(script)
	if _, err := os.Stat(o.Work); err == nil {
		o.WorkLeft = true
	}
	if c.NoRoot && o.Work != "" {
		// the engine made its own go-test-script* directory under $TMPDIR: ours to remove
		if top := filepath.Dir(o.Work); strings.HasPrefix(filepath.Base(top), "go-test-script") && strings.HasPrefix(top, os.TempDir()) {
			cleanup(top)
		}
	}
	return o
}

func hexs(s string) string {
	if s == "" {
		return "-"
	}
	return hex.EncodeToString([]byte(s))
}

// snapshot lists everything below root (not root itself), sorted.
func snapshot(root string) []string {
	var out []string
	filepath.WalkDir(root, func(path string, d fs.DirEntry, err error) error {
		if err != nil || path == root {
			return nil
		}
		rel, _ := filepath.Rel(root, path)
		info, err := os.Lstat(path)
		if err != nil {
			return nil
		}
		switch {
		case info.Mode()&os.ModeSymlink != 0:
			tg, _ := os.Readlink(path)
			out = append(out, fmt.Sprintf("%s|l|0|%s", rel, hexs(tg)))
		case info.IsDir():
			out = append(out, fmt.Sprintf("%s|d|%d|-", rel, info.Mode().Perm()))
		default:
			data, _ := os.ReadFile(path)
			out = append(out, fmt.Sprintf("%s|f|%d|%s", rel, info.Mode().Perm(), hexs(string(data))))
		}
		return nil
	})
	sort.Strings(out)
	return out
}

// cleanup removes a case directory even when the script made parts of it unwritable.
func cleanup(dir string) {
	filepath.WalkDir(dir, func(path string, d fs.DirEntry, err error) error {
		if err == nil && d.IsDir() {
			os.Chmod(path, 0o777)
		}
		return nil
	})
	os.RemoveAll(dir)
}

// fileStamp notices a write to a file even when the bytes written are the bytes that were there.
type fileStamp struct {
	mtime time.Time
	ino   uint64
	size  int64
	ok    bool
}

var oldTime = time.Unix(1_000_000_000, 0)

func stampFile(path string) fileStamp {
	os.Chtimes(path, oldTime, oldTime)
	fi, err := os.Stat(path)
	if err != nil {
		return fileStamp{}
	}
	st := fileStamp{mtime: fi.ModTime(), size: fi.Size(), ok: true}
	if sys, ok := fi.Sys().(*syscall.Stat_t); ok {
		st.ino = sys.Ino
	}
	return st
}

func (b fileStamp) changed(path string) bool {
	if !b.ok {
		return false // could not be set up: nothing is claimed
	}
	a := stampFile2(path)
	return !a.ok || !a.mtime.Equal(b.mtime) || a.ino != b.ino || a.size != b.size
}

func stampFile2(path string) fileStamp {
	fi, err := os.Stat(path)
	if err != nil {
		return fileStamp{}
	}
	st := fileStamp{mtime: fi.ModTime(), size: fi.Size(), ok: true}
	if sys, ok := fi.Sys().(*syscall.Stat_t); ok {
		st.ino = sys.Ino
	}
	return st
}

// The initial environment of a script is the same list for every script but for the work
// directory.  When setup fails before Params.Setup is called the harness never sees it, although
// the entry names were expanded with it: it is rebuilt from the list one successful run showed.
var envTemplate []string
var envTemplateWork string

func saveEnvTemplate(o *Obs) {
	if len(o.Env) > 0 && o.Work != "" && envTemplate == nil {
		envTemplate, envTemplateWork = append([]string{}, o.Env...), o.Work
	}
}

func envFromTemplate(work string) []string {
	var out []string
	for _, kv := range envTemplate {
		out = append(out, strings.ReplaceAll(kv, envTemplateWork, work))
	}
	return out
}

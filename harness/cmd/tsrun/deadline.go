package main

// Runs WITH Params.Deadline.  The property says a line with a leading "!" is met when the
// command "fails in the way that command defines"; a command that testscript itself stops
// because the deadline of the run is reached has not failed in that way: the line is not met,
// negated or not, the run is reported as failed at that line and nothing behind it has any
// effect.  The scripts of this family block on the sleeping helper (10 s) in the foreground,
// through a command registered by testscript.Main, or in `wait` on background commands, under a
// deadline of a few seconds; control scripts do the same things without ever reaching it.
// They are judged by the independent evaluator (eval.go: endedByDeadline) and compared with
// the model (c_deadline).  Timing: every retry lengthens the deadline.

import (
	"fmt"

	"verif/harness/common"
)

// genDeadline returns the case and the line that must be reported as failing first (0: none).
func genDeadline(r *common.RNG, id string) (*Case, int) {
	c := &Case{ID: id, Kind: "deadline", DL: 1, DLms: 2000}
	c.Coe = r.Chance(1, 3)
	c.Cmds = r.Chance(1, 2)
	c.Ree = r.Chance(1, 6)
	h := helperName
	add := func(l string) int {
		c.Lines = append(c.Lines, l)
		return len(c.Lines)
	}
	mark := func() { add(fmt.Sprintf("mkdir $WORK/mark_%d", len(c.Lines)+1)) }
	quick := func() {
		switch r.Intn(9) {
		case 0:
			mark()
		case 1:
			add("exec " + h + " echo hi " + pick(r, wordsPool))
			add("stdout hi")
		case 2:
			add(fmt.Sprintf("! exec %s exit %d", h, 1+r.Intn(5)))
		case 3:
			add("env X=" + pick(r, wordsPool))
		case 4:
			add("# phase " + fmt.Sprint(len(c.Lines)))
		case 5:
			add("[windows] exec " + h + " sleep") // a false guard: never started
		case 6:
			add("[!linux] ! exec " + h + " sleep")
		case 7:
			if c.Cmds {
				add(fmt.Sprintf("probe p%d", len(c.Lines)))
			} else {
				mark()
			}
		case 8:
			add("exec " + h + " echoerr e" + fmt.Sprint(len(c.Lines)))
			add("stderr ^e")
		}
	}
	for i, n := 0, r.Intn(3); i < n; i++ {
		quick()
	}
	neg := pick(r, []string{"", "! "})
	guard := pick(r, []string{"", "", "", "[linux] ", "[!windows] [unix] "})
	fail := 0
	switch r.Intn(13) {
	case 0, 1, 2:
		// the foreground: plain and negated
		fail = add(guard + neg + "exec " + h + " sleep")
	case 3:
		// through the command registered by testscript.Main
		fail = add(guard + neg + h + " sleep") // under RequireExplicitExec it fails as well (for another reason)
	case 4, 5:
		// `wait` for everything
		add(neg + "exec " + h + " sleep &")
		for i, n := 0, r.Intn(3); i < n; i++ {
			mark()
		}
		fail = add("wait")
	case 6:
		// a named one, with another command that ends by itself in front of or behind it
		add(neg + "exec " + h + " sleep &slow&")
		add("exec " + h + " echo fast &fast&")
		if r.Chance(1, 2) {
			add("wait fast")
			add("stdout fast")
		}
		fail = add("wait slow")
	case 7:
		// several: the one that ends by itself is collected, the sleeper is ended by the deadline
		add("exec " + h + " echo first &")
		add(neg + "exec " + h + " sleep &")
		fail = add("wait")
	case 8:
		// control: the sleeper is killed by the script long before the deadline
		add("! exec " + h + " sleep &")
		add("kill")
		add("wait")
	case 9:
		// control: still running at the end of the script (interrupted by the engine, status ignored)
		add(neg + "exec " + h + " sleep &")
	case 10:
		// control: nothing blocks
		add("! exec " + h + " fail quickly")
		add("stderr quickly")
	case 11:
		// control: `stop` ends the script while the sleeper runs
		add("exec " + h + " sleep &bg1&")
		mark()
		add("stop")
	case 12:
		// two time-outs can only be seen with ContinueOnError; the first one is what is reported
		fail = add(neg + "exec " + h + " sleep")
		mark()
	}
	for i, n := 0, 1+r.Intn(2); i < n; i++ {
		mark()
	}
	return c, fail
}

// withDeadlineRetry: the case as it is run in the i-th repetition after a disagreement
// (every repetition adds 1.5 s to a short deadline, up to 8 s: the helper sleeps for 10 s).
func withDeadlineRetry(c *Case, i int) *Case {
	if c.DL != 1 {
		return c
	}
	t := *c
	ms := c.DLms
	if ms <= 0 {
		ms = 2000
	}
	t.DLms = min(ms+1500*(i+1), 8000)
	return &t
}

func (rn *runner) deadlineMain(r *common.RNG, n int) {
	var cases []*Case
	for i := 0; i < n; i++ {
		c, fail := genDeadline(r.Fork(), fmt.Sprintf("d%04d", i))
		ex := evaluate(c)
		switch {
		case !ex.Known:
			rn.res.Count("deadline:evaluator-unknown")
		case fail == 0 && ex.Verdict == "fail" && !(c.Ree && ex.FailLine > 0):
			rn.res.Notes = append(rn.res.Notes, "harness self-check: a deadline control script is judged failing by the evaluator: "+caseJSON(c))
		case fail != 0 && (ex.Verdict != "fail" || ex.FailLine != fail):
			rn.res.Notes = append(rn.res.Notes, fmt.Sprintf("harness self-check: the evaluator (%s at %d) and the construction (fail at %d) disagree: %s", ex.Verdict, ex.FailLine, fail, caseJSON(c)))
		}
		if fail != 0 {
			rn.res.Count("deadline:built-to-time-out")
		} else {
			rn.res.Count("deadline:control")
		}
		cases = append(cases, c)
	}
	rn.runAll(cases, nil)
}

package main

// Script generators.  "constructive" scripts are built line by line with the independent
// evaluator (eval.go) deciding what each candidate line does, so that the expected verdict,
// the failing line and the final tree are known by construction; "wild" scripts use the whole
// vocabulary (odd paths, symbolic links, directories, quoting) and are only compared with
// the Coq model.

import (
	"fmt"
	"os"
	"regexp"
	"sort"
	"strings"

	"verif/harness/common"
)

var wordsPool = []string{"alpha", "beta", "gamma", "delta", "x1", "hello", "foo_bar", "a-b", "Zed", "42"}
var filePool = []string{"a.txt", "b.txt", "c.txt", "sub/d.txt", "sub/e.txt", "out.txt", "g1", "deep/er/f.txt"}
var dirPool = []string{"sub", "dir1", "dir2", "deep/er", "sub/inner"}
// conditions that hold / do not hold on this host, by class (go1.N, GOOS, GOARCH, the rest): the
// values are the independent reading of doc.go (conds.go), never the implementation's
var trueByClass, falseByClass [4][]string
var trueConds, falseConds []string

func condClass(name string) int {
	n := strings.TrimPrefix(name, "!")
	switch {
	case goVersionName.MatchString(n):
		return 0
	case inList(docGOOS, n):
		return 1
	case inList(docGOARCH, n):
		return 2
	}
	return 3
}

// initConds is called once the flags are parsed (testing.Short needs that)
func initConds() {
	t, f := condPools()
	t = append(t, "exec:"+helperName, "!exec:nosuchprog-verif")
	f = append(f, "exec:nosuchprog-verif", "!exec:"+helperName)
	for _, c := range t {
		trueByClass[condClass(c)] = append(trueByClass[condClass(c)], c)
	}
	for _, c := range f {
		falseByClass[condClass(c)] = append(falseByClass[condClass(c)], c)
	}
	trueConds, falseConds = t, f
}

// sampleConds draws n conditions of the wanted truth value, the classes equally likely
func sampleConds(r *common.RNG, want bool, n int) []string {
	var out []string
	for len(out) < n {
		k := r.Intn(4)
		pool := falseByClass[k]
		if want {
			pool = trueByClass[k]
		}
		if len(pool) > 0 {
			out = append(out, pick(r, pool))
		}
	}
	return out
}

func pick(r *common.RNG, xs []string) string { return xs[r.Intn(len(xs))] }

// pickIdx: mostly the uniform draw (index 0), sometimes the guard and -count templates
func pickIdx(r *common.RNG, n int) int {
	if r.Chance(3, 4) {
		return 0
	}
	return 1 + r.Intn(n-1)
}

func sortedKeys[T any](m map[string]T) []string {
	var ks []string
	for k := range m {
		ks = append(ks, k)
	}
	sort.Strings(ks)
	return ks
}

// rel renders an evaluator path as a script word: relative to cwd when possible, else $WORK/...
func rel(g *gstate, p string, r *common.RNG) string {
	if strings.HasPrefix(p, g.cwd+"/") && r.Chance(2, 3) {
		return p[len(g.cwd)+1:]
	}
	if p == absWork {
		return "$WORK"
	}
	return "$WORK" + p[len(absWork):]
}

// rePat turns a word of a text into a pattern of the model's fragment that still matches it
// (anchors are the exception: they may or may not match, the evaluator decides)
func rePat(r *common.RNG, w string) string {
	if w == "" || strings.ContainsAny(w, `\.+*?()|[]{}^$ `) {
		return w
	}
	n := len(w)
	switch r.Intn(14) {
	case 0:
		return "^" + w
	case 1:
		return w + "$"
	case 2:
		return "^" + w + "$"
	case 3:
		if n >= 2 {
			return w[:1] + "." + w[2:]
		}
	case 4:
		return "[" + w[:1] + "z]" + w[1:]
	case 5:
		return w + "|nomatch"
	case 6:
		return "nomatch|" + w
	case 7:
		return w + "+"
	case 8:
		return w + "?"
	case 9:
		if n >= 2 {
			return w[:1] + ".*" + w[n-1:]
		}
	case 10:
		return "[^z]" + w[1:]
	case 11:
		return w[:n-1] + "[a-z0-9_-]"
	}
	return w
}

// reCount is what -count=N must be for the pattern to be met on text
func reCount(p, text string) int {
	re, err := regexp.Compile("(?m)" + p)
	if err != nil {
		return 0
	}
	return len(re.FindAllString(text, -1))
}

func q(w string) string {
	if w == "" || strings.ContainsAny(w, " '#$\t") {
		return "'" + strings.ReplaceAll(w, "'", "''") + "'"
	}
	return w
}

type genCtx struct {
	r    *common.RNG
	c    *Case
	g    *gstate
	n    int // number of the line being generated
	cond condInfo
}

type condInfo struct{ trueC, falseC, errC []string }

func (x *genCtx) files() []string { return sortedKeys(x.g.files) }
func (x *genCtx) dirs() []string  { return sortedKeys(x.g.dirs) }

func (x *genCtx) someFile() (string, bool) {
	fs := x.files()
	if len(fs) == 0 {
		return "", false
	}
	return rel(x.g, pick(x.r, fs), x.r), true
}

func (x *genCtx) newName() string {
	base := pick(x.r, filePool)
	if x.r.Chance(1, 2) {
		base = fmt.Sprintf("n%d.txt", x.n)
	}
	if x.r.Chance(1, 3) {
		ds := x.dirs()
		return rel(x.g, pick(x.r, ds)+"/"+fmt.Sprintf("f%d", x.n), x.r)
	}
	return base
}

func (x *genCtx) outWord(s string) string {
	fs := strings.Fields(s)
	if len(fs) == 0 {
		return "zzz"
	}
	return fs[x.r.Intn(len(fs))]
}

func (x *genCtx) marker() string {
	switch x.r.Intn(3) {
	case 0:
		return fmt.Sprintf("exec %s write $WORK/mark_%d m", helperName, x.n)
	case 1:
		return fmt.Sprintf("mkdir $WORK/mark_%d", x.n)
	}
	return fmt.Sprintf("cp stdout $WORK/mark_%d", x.n)
}

// guards renders 1-3 condition prefixes.  allTrue: every one holds (the command must run).
// Otherwise one of them is false, the ones in front of it hold and the ones behind it are
// arbitrary (they are never evaluated: true, false, erroring or unknown conditions).
func (x *genCtx) guards(allTrue bool) string {
	r := x.r
	n := 1 + r.Intn(3)
	var gs []string
	if allTrue {
		for i := 0; i < n; i++ {
			gs = append(gs, "["+pick(r, x.cond.trueC)+"]")
		}
		return strings.Join(gs, " ")
	}
	k := r.Intn(n)
	for i := 0; i < n; i++ {
		switch {
		case i < k:
			gs = append(gs, "["+pick(r, x.cond.trueC)+"]")
		case i == k:
			gs = append(gs, "["+pick(r, x.cond.falseC)+"]")
		default:
			any := append(append([]string{}, x.cond.trueC...), x.cond.falseC...)
			any = append(any, x.cond.errC...)
			if !x.c.HasCond {
				any = append(any, "nosuchcond", "!nosuchcond")
			}
			gs = append(gs, "["+pick(r, any)+"]")
		}
	}
	return strings.Join(gs, " ")
}

// okLine proposes a line that is likely to succeed in state g.
func (x *genCtx) okLine() string {
	r, g := x.r, x.g
	h := helperName
	switch []int{r.Intn(34), 27, 28, 4, 35, 36, 37, 38, 39}[pickIdx(r, 9)] {
	case 37:
		// a registered command that RETURNS its status (RunMain): what counts is the status the
		// operating system reports, the returned integer modulo 256
		zero := pick(r, []string{"0", "256", "-256", "512", "1024", "-0"})
		nonzero := pick(r, []string{"-1", "-2", "-255", "-257", "255", "257", "1", "1000", "-1000", "300", "65535", "-128"})
		direct := !x.c.Ree && !x.c.NoMain
		switch k := r.Intn(8); {
		case k == 0:
			return fmt.Sprintf("exec %s ret %s", h, zero)
		case k == 1:
			return fmt.Sprintf("! exec %s ret %s", h, nonzero)
		case k == 2 && direct:
			return fmt.Sprintf("! %s ret %s", h, nonzero)
		case k == 3 && direct:
			return fmt.Sprintf("%s ret %s", h, zero)
		case k == 4:
			return fmt.Sprintf("! exec %s ret %s &\nwait", h, nonzero)
		case k == 5:
			return fmt.Sprintf("! exec %s ret %s &r%d&\nexec %s ret %s &z%d&\nwait r%d\nwait z%d", h, nonzero, x.n, h, zero, x.n, x.n, x.n)
		case k == 6:
			return fmt.Sprintf("[%s] ! exec %s ret %s", pick(r, x.cond.trueC), h, nonzero)
		}
		return fmt.Sprintf("! exec %s ret %s", h, nonzero)
	case 38:
		// a program that cannot be STARTED is still "the next exec command": the input set with
		// stdin is consumed by it and the output of the previous command is gone
		var prep, prog string
		switch r.Intn(6) {
		case 0:
			prep, prog = fmt.Sprintf("exec %s write ne%d.txt not a program", h, x.n), fmt.Sprintf("./ne%d.txt", x.n)
		case 1:
			prep, prog = fmt.Sprintf("mkdir xd%d", x.n), fmt.Sprintf("./xd%d", x.n)
		case 2:
			prep = fmt.Sprintf("exec %s write sb%d.sh '#!/nonexistent-verif/sh'\nchmod 755 sb%d.sh", h, x.n, x.n)
			prog = fmt.Sprintf("./sb%d.sh", x.n)
		case 3:
			prep, prog = "", fmt.Sprintf("./nothere%d", x.n)
		case 4:
			prep = fmt.Sprintf("exec %s write ne%d.txt not a program\nchmod 755 ne%d.txt", h, x.n, x.n)
			prog = "$WORK" + g.cwd[len(absWork):] + fmt.Sprintf("/ne%d.txt", x.n)
		case 5:
			prep, prog = fmt.Sprintf("mkdir xd%d\nexec %s write xd%d/inner.txt text", x.n, h, x.n), fmt.Sprintf("xd%d/inner.txt", x.n)
		}
		src := fmt.Sprintf("exec %s write in%d.txt pending input %d", h, x.n, x.n)
		bg := ""
		if r.Chance(1, 4) {
			bg = " &"
		}
		lines := []string{src}
		if prep != "" {
			lines = append(lines, prep)
		}
		lines = append(lines, fmt.Sprintf("exec %s echo previous output", h), fmt.Sprintf("stdin in%d.txt", x.n), "! exec "+prog+bg)
		if bg == "" && r.Chance(1, 2) {
			lines = append(lines, "! stdout .", "! stderr .")
		}
		lines = append(lines, fmt.Sprintf("exec %s cat", h), "! stdout .", fmt.Sprintf("cp stdout after%d.txt", x.n))
		return strings.Join(lines, "\n")
	case 39:
		// every operand counts
		f1, ok1 := x.someFile()
		f2, ok2 := x.someFile()
		if ok1 && ok2 && r.Chance(1, 2) {
			return "exists " + f1 + " " + f2 + pick(r, []string{"", " $WORK"})
		}
		return "! exists nofile.txt nodir/x nofile2.txt"
	case 0, 1:
		return fmt.Sprintf("exec %s echo %s %s", h, pick(r, wordsPool), pick(r, wordsPool))
	case 2:
		w := pick(r, wordsPool)
		return fmt.Sprintf("exec %s lines %s %s %s %s", h, w, pick(r, wordsPool), w, pick(r, wordsPool))
	case 3:
		if r.Chance(1, 2) {
			return "stdout " + q(rePat(r, x.outWord(g.out)))
		}
		return "! stdout " + pick(r, []string{"nomatch-zzz", "^nomatch", "no.atch$", "zz+y|yy+z"})
	case 4:
		w := x.outWord(g.out)
		if r.Chance(1, 3) {
			// whole-line matches under (?m)
			n := 0
			for _, l := range strings.Split(g.out, "\n") {
				if l == w {
					n++
				}
			}
			if n > 0 {
				return fmt.Sprintf("stdout -count=%d ^%s$", n, w)
			}
		}
		p := rePat(r, w)
		return fmt.Sprintf("stdout -count=%d %s", reCount(p, g.out), q(p))
	case 35:
		// matches that would overlap are counted once: "aa" in "aaaa aaa" is 3, not 5
		switch r.Intn(3) {
		case 0:
			return fmt.Sprintf("exec %s echo aaaa aaa\nstdout -count=3 aa", h)
		case 1:
			return fmt.Sprintf("exec %s lines ab abab ab\nstdout -count=4 ab\nstdout -count=2 ^ab$", h)
		}
		return fmt.Sprintf("exec %s write rep%d.txt xx xxx xx\ngrep -count=3 xx rep%d.txt", h, x.n, x.n)
	case 5:
		if r.Chance(1, 2) {
			return "stderr " + q(rePat(r, x.outWord(g.err)))
		}
		return "! stderr " + pick(r, []string{"nomatch-zzz", "^nomatch$", "nom[a-z]tch"})
	case 6, 7:
		return fmt.Sprintf("exec %s write %s %s %s", h, x.newName(), pick(r, wordsPool), pick(r, wordsPool))
	case 8:
		if f, ok := x.someFile(); ok {
			return "exists " + f
		}
		return "! exists nofile.txt"
	case 9:
		return "! exists nofile.txt " + pick(r, []string{"", "nodir/x"})
	case 10:
		if f, ok := x.someFile(); ok {
			p, _ := g.abs(strings.Replace(f, "$WORK", absWork, 1))
			w := x.outWord(g.files[p])
			pat := rePat(r, w)
			switch r.Intn(3) {
			case 0:
				return "grep " + q(pat) + " " + f
			case 1:
				return "! grep " + pick(r, []string{"nomatch-zzz", "^nomatch", "nom.tch$"}) + " " + f
			}
			return fmt.Sprintf("grep -count=%d %s %s", reCount(pat, g.files[p]), q(pat), f)
		}
	case 11:
		if f, ok := x.someFile(); ok {
			return "cp " + f + " " + x.newName()
		}
	case 12:
		return "cp " + pick(r, []string{"stdout", "stderr"}) + " " + x.newName()
	case 13:
		if f, ok := x.someFile(); ok {
			return "mv " + f + " " + x.newName()
		}
	case 14:
		if f, ok := x.someFile(); ok && r.Chance(1, 2) {
			return "rm " + f
		}
		return "rm nofile.txt"
	case 15:
		return "mkdir " + pick(r, dirPool)
	case 16:
		ds := x.dirs()
		return "cd " + rel(g, pick(r, ds), r)
	case 17:
		if f, ok := x.someFile(); ok {
			f2 := x.newName()
			return "cp " + f + " " + f2 + "\ncmp " + f + " " + f2
		}
	case 18:
		return fmt.Sprintf("env %s=%s", pick(r, watchVars), pick(r, wordsPool))
	case 19:
		v := pick(r, watchVars)
		if _, ok := g.env[v]; ok {
			return fmt.Sprintf("exec %s env %s\nstdout %s", h, v, q(g.env[v]))
		}
		return fmt.Sprintf("env %s=%s", v, pick(r, wordsPool))
	case 20:
		if f, ok := x.someFile(); ok {
			return "stdin " + f + "\nexec " + h + " cat"
		}
	case 21:
		return fmt.Sprintf("! exec %s fail %s\nstderr %s", h, "boom", "boom")
	case 22:
		return fmt.Sprintf("! exec %s exit %d", h, 1+r.Intn(9))
	case 23:
		switch r.Intn(4) {
		case 0:
			return fmt.Sprintf("! exec %s sleep &\nkill\nwait", h)
		case 1:
			return fmt.Sprintf("! exec %s sleep &s%d&\nkill -INT s%d\nwait s%d", h, x.n, x.n, x.n)
		case 2:
			return fmt.Sprintf("exec %s echo bg%d &\nwait\nstdout bg%d", h, x.n, x.n)
		}
		return fmt.Sprintf("exec %s echoerr e%d &b%d&\nwait b%d\nstderr e%d", h, x.n, x.n, x.n, x.n)
	case 24:
		if x.c.Cmds {
			return fmt.Sprintf("probe L%d %s", x.n, pick(r, wordsPool))
		}
	case 25:
		if x.c.Cmds {
			return "! negok"
		}
	case 26:
		if f, ok := x.someFile(); ok {
			perms := []string{"644", "600", "640", "755", "700", "664"}
			if os.Geteuid() == 0 {
				// root is not stopped by the bits, so read-only and unreadable modes can be used freely
				perms = append(perms, "444", "444", "400", "555", "000", "222")
			}
			p := pick(r, perms)
			cp := x.newName()
			switch r.Intn(3) {
			case 0:
				return "chmod " + p + " " + f + "\nexists -readonly " + f
			case 1:
				// cp hands the mode of the source to a new file
				return "chmod " + p + " " + f + "\ncp " + f + " " + cp + "\nexists -readonly " + cp
			}
			return "chmod " + p + " " + f
		}
	case 27:
		// every guard holds: the command must run (a marker makes that visible)
		if r.Chance(1, 2) {
			return x.guards(true) + " " + x.marker()
		}
		return x.guards(true) + " " + x.okLineFlat()
	case 28:
		// a false guard: neither a failing command nor a marker may have any effect
		if r.Chance(1, 2) {
			return x.guards(false) + " " + x.marker()
		}
		return x.guards(false) + " " + x.failLine()
	case 29:
		return pick(r, []string{"# phase " + fmt.Sprint(x.n), "", "   "})
	case 30:
		if !x.c.Ree && !x.c.NoMain {
			return fmt.Sprintf("%s echo direct %s", h, pick(r, wordsPool))
		}
	case 31:
		return fmt.Sprintf("! exec nosuchprog-verif %s", pick(r, wordsPool))
	case 32:
		return fmt.Sprintf("exec %s both %s %s", h, pick(r, wordsPool), pick(r, wordsPool))
	case 33:
		return x.marker()
	case 36:
		// exists looks through symbolic links (Stat, not Lstat)
		f, hasF := x.someFile()
		switch r.Intn(6) {
		case 0:
			if hasF {
				return fmt.Sprintf("symlink lk%d -> %s\nexists lk%d", x.n, f, x.n)
			}
		case 1:
			return fmt.Sprintf("symlink dg%d -> nowhere%d\n! exists dg%d", x.n, x.n, x.n)
		case 2:
			if hasF && os.Geteuid() == 0 {
				return fmt.Sprintf("chmod 444 %s\nsymlink ro%d -> %s\nexists -readonly ro%d", f, x.n, f, x.n)
			}
		case 3:
			ds := x.dirs()
			return fmt.Sprintf("symlink ld%d -> %s\nexists ld%d", x.n, rel(g, pick(r, ds), r), x.n)
		case 4:
			// the target goes away: the link is dangling from then on
			return fmt.Sprintf("exec %s write tg%d.txt x\nsymlink lt%d -> tg%d.txt\nexists lt%d\nrm tg%d.txt\n! exists lt%d", h, x.n, x.n, x.n, x.n, x.n, x.n)
		case 5:
			return fmt.Sprintf("symlink dg%d -> nowhere%d\n[linux] ! exists dg%d nofile.txt", x.n, x.n, x.n)
		}
		return fmt.Sprintf("symlink dg%d -> nowhere%d\n! exists dg%d", x.n, x.n, x.n)
	}
	return fmt.Sprintf("exec %s echo %s", h, pick(r, wordsPool))
}

// okLineFlat: a single ok line (no multi-line groups), for use behind a guard
func (x *genCtx) okLineFlat() string {
	for i := 0; i < 20; i++ {
		l := x.okLine()
		if !strings.Contains(l, "\n") && !strings.HasPrefix(l, "#") && strings.TrimSpace(l) != "" && !strings.HasPrefix(l, "[") {
			return l
		}
	}
	return "exists $WORK"
}

// failLine proposes a line that is likely to fail in state g.
func (x *genCtx) failLine() string {
	r, g := x.r, x.g
	h := helperName
	f, hasF := x.someFile()
	switch []int{r.Intn(30), 9, 15, 30, 31, 31, 32, 33, 34, 24}[pickIdx(r, 10)] {
	case 32:
		// the operand that breaks the demand is not the first one
		if hasF {
			f2, _ := x.someFile()
			switch r.Intn(4) {
			case 0:
				return "! exists nofile.txt " + f
			case 1:
				return "! exists nofile.txt nodir/x " + f + " nofile2.txt"
			case 2:
				return "exists " + f + " nofile.txt"
			}
			return "exists " + f + " " + f2 + " nofile.txt"
		}
		return "exists $WORK nofile.txt"
	case 33:
		// a returned status that is not a multiple of 256 is a failure, negative ones included
		nonzero := pick(r, []string{"-1", "-2", "-255", "-257", "255", "257", "1", "1000", "-1000", "-128"})
		zero := pick(r, []string{"0", "256", "-256", "512"})
		direct := !x.c.Ree && !x.c.NoMain
		switch k := r.Intn(5); {
		case k == 0:
			return fmt.Sprintf("exec %s ret %s", h, nonzero)
		case k == 1 && direct:
			return fmt.Sprintf("%s ret %s", h, nonzero)
		case k == 2:
			return fmt.Sprintf("! exec %s ret %s", h, zero)
		case k == 3 && direct:
			return fmt.Sprintf("! %s ret %s", h, zero)
		}
		return fmt.Sprintf("exec %s ret %s", h, nonzero)
	case 34:
		// a program that cannot be started, without "!"
		return pick(r, []string{"exec ./nothere-verif", "exec $WORK", "exec ./nothere-verif arg &", "exec $WORK/.tmp"})
	case 0:
		return "exists nofile.txt"
	case 1:
		if hasF {
			return "! exists " + f
		}
	case 2:
		return fmt.Sprintf("exec %s exit %d", h, 1+r.Intn(200))
	case 3:
		return fmt.Sprintf("exec %s fail planted", h)
	case 4:
		return fmt.Sprintf("! exec %s echo unexpected", h)
	case 5:
		return "cd nodir"
	case 6:
		return "cp nofile.txt " + x.newName()
	case 7:
		return pick(r, []string{"cp onlyone", "mv onearg", "cd", "cd a b", "mkdir", "rm", "chmod 644", "stdin", "stdout", "grep pat", "exists", "symlink a b c", "kill a b c", "wait a b", "stop a b", "skip a b"})
	case 8:
		return pick(r, []string{"frobnicate x", "nosuchcmd", "exe tshelper", "cdd sub"})
	case 9:
		w := rePat(r, x.outWord(g.out))
		if n := reCount(w, g.out); n >= 2 && r.Chance(1, 2) {
			return fmt.Sprintf("stdout -count=%d %s", 1+r.Intn(n-1), q(w)) // too few
		}
		return fmt.Sprintf("stdout -count=%d %s", reCount(w, g.out)+1+r.Intn(3), q(w))
	case 10:
		return "stdout " + pick(r, []string{"nomatch-zzz", "^nomatch", "n.match$", "no+match|zz"})
	case 11:
		if strings.TrimSpace(g.out) != "" {
			return "! stdout " + q(rePat(r, x.outWord(g.out)))
		}
	case 12:
		if !x.c.HasCond && r.Chance(1, 2) {
			return "[nosuchcond] exists $WORK"
		}
		if len(x.cond.errC) > 0 {
			return "[" + pick(r, x.cond.errC) + "] exists $WORK"
		}
	case 13:
		return pick(r, []string{"! cd $WORK", "! mkdir d9", "! rm nofile.txt", "! env A=b", "! stop", "! skip", "! wait", "! kill", "! cp stdout x9", "! stdin stdout", "! chmod 644 nofile.txt", "! mv a b", "! symlink a -> b"})
	case 14:
		if x.c.Cmds {
			return pick(r, []string{"failcmd", "negok", "! failcmd"})
		}
	case 15:
		if hasF {
			p, _ := g.abs(strings.Replace(f, "$WORK", absWork, 1))
			w := x.outWord(g.files[p])
			n := strings.Count(g.files[p], w)
			if n >= 2 {
				return fmt.Sprintf("grep -count=%d %s %s", n-1, q(w), f)
			}
			return fmt.Sprintf("grep -count=%d %s %s", n+1, q(w), f)
		}
		return "grep word nofile.txt"
	case 16:
		return pick(r, []string{"exec nosuchprog-verif", "exec &bgonly&", "! exec &bgonly&", "exec &", "! exec &", "exec"})
	case 17:
		return pick(r, []string{"exists 'unterminated", "'", "mkdir d1 'x"})
	case 18:
		return pick(r, []string{"[linux]", "!", "[!windows] !", "[linux] [unix]"})
	case 19:
		return pick(r, []string{"wait nosuchbg", "kill nosuchbg", "kill -HUP", "kill -"})
	case 20:
		if hasF && r.Chance(1, 2) {
			return "! grep -count=1 nomatch-zzz " + f
		}
		return pick(r, []string{"stdout -count=0 a", "stdout -count=x a", "! stdout -count=1 a", "stdout -count= a", "grep -count=-1 a b", "! stderr -count=2 a"})
	case 21:
		if hasF {
			return "cmp " + f + " " + f
		}
	case 22:
		if hasF {
			return "cmp " + f + " nofile.txt"
		}
	case 23:
		if hasF {
			return "! cmp " + f + " stdout"
		}
	case 24:
		// a command registered by Main used without exec under RequireExplicitExec (or not
		// registered at all): the line fails whatever prefixes it carries -- a "!" does not excuse
		// it, and a guard that holds does not hide it
		if x.c.Ree || x.c.NoMain {
			switch r.Intn(6) {
			case 0:
				return "! " + h + " exit 1"
			case 1:
				return "! " + h + " echo negated"
			case 2:
				return "[" + pick(r, x.cond.trueC) + "] " + h + " echo guarded"
			case 3:
				return "[" + pick(r, x.cond.trueC) + "] ! " + h + " exit 3"
			case 4:
				return "[" + pick(r, x.cond.trueC) + "] [" + pick(r, x.cond.trueC) + "] " + h + " ret 0"
			}
			return h + " echo needs-exec"
		}
	case 25:
		return "mv nofile.txt " + x.newName()
	case 26:
		return "stdin nofile.txt"
	case 27:
		if hasF {
			return "cd " + f
		}
	case 28:
		return fmt.Sprintf("exec %s write nodir/zz/f.txt x", h)
	case 29:
		return fmt.Sprintf("exec %s badsub", h)
	case 31:
		// links: a dangling one does not exist, a valid one does, a link to a writable file is not read-only
		switch r.Intn(3) {
		case 0:
			return fmt.Sprintf("symlink fd%d -> nowhere%d\nexists fd%d", x.n, x.n, x.n)
		case 1:
			if hasF {
				return fmt.Sprintf("symlink fl%d -> %s\n! exists fl%d", x.n, f, x.n)
			}
		}
		return fmt.Sprintf("exec %s write fw%d.txt x\nsymlink fr%d -> fw%d.txt\nexists -readonly fr%d", h, x.n, x.n, x.n, x.n)
	case 30:
		// too many matches must fail as well as too few
		w := x.outWord(g.out)
		n := 0
		for _, l := range strings.Split(g.out, "\n") {
			if l == w {
				n++
			}
		}
		if n >= 2 {
			return fmt.Sprintf("stdout -count=%d ^%s$", n-1, w)
		}
		ew := x.outWord(g.err)
		if m := strings.Count(g.err, ew); m >= 2 {
			return fmt.Sprintf("stderr -count=%d %s", m-1, q(ew))
		}
		return fmt.Sprintf("stdout -count=%d ^%s$", n+1, w)
	}
	return "exists nofile.txt"
}

// failGroup: a failing line that needs lines in front of it
func (x *genCtx) failGroup() string {
	h := helperName
	switch x.r.Intn(7) {
	case 4:
		return fmt.Sprintf("exec %s ret %s &\nwait", h, pick(x.r, []string{"-1", "-3", "255", "-255", "1"}))
	case 5:
		return fmt.Sprintf("exec %s ret %s &n%d&\nwait n%d", h, pick(x.r, []string{"-1", "-2", "257", "-256000"}), x.n, x.n)
	case 6:
		return fmt.Sprintf("! exec %s ret %s &\nwait", h, pick(x.r, []string{"0", "256", "-256"}))
	case 0:
		return fmt.Sprintf("exec %s sleep &\nskip", h)
	case 1:
		return fmt.Sprintf("exec %s sleep &\nkill\nwait", h)
	case 2:
		return fmt.Sprintf("! exec %s sleep &dup%d&\nexec %s sleep &dup%d&", h, x.n, h, x.n)
	}
	return fmt.Sprintf("! exec %s echo quiet &\nwait", h)
}

// wildLine: anything from the whole vocabulary (model comparison only)
func (x *genCtx) wildLine() string {
	r := x.r
	h := helperName
	paths := []string{"a.txt", "b.txt", "sub", "sub/d.txt", "sub/../a.txt", "./b.txt", ".", "$WORK/sub/../c.txt", "$WORK/./a.txt", "lnk", "lnk/d.txt", "dl", "dl/x",
		"dangling", "sub/", "dir1", "dir1/dir2", "$WORK", "nofile", "sub/inner/z", "$WORK/mark", "'q file'", "$X", "${Y}", "pre$X", "'$X'", "loop", "a.txt/x"}
	p := func() string { return pick(r, paths) }
	switch r.Intn(40) {
	case 0:
		return "symlink " + pick(r, []string{"lnk", "dl", "dangling", "loop", "sub/l2", "lnk2"}) + " -> " + pick(r, []string{"sub", "a.txt", "nowhere", "loop", "../a.txt", "$WORK/sub", "sub/d.txt", "dl"})
	case 1:
		return "mv " + p() + " " + p()
	case 2:
		return "cp " + p() + " " + p()
	case 3:
		return "cp " + p() + " " + p() + " " + p()
	case 4:
		return "rm " + p()
	case 5:
		return "mkdir " + p() + " " + p()
	case 6:
		return "cd " + p()
	case 7:
		return pick(r, []string{"", "! "}) + "exists " + pick(r, []string{"", "-readonly "}) + p() + " " + p()
	case 8:
		return "chmod " + pick(r, []string{"444", "644", "755", "000", "0777", "1777", "9", "", "7777", "-1", "400", "600"}) + " " + p()
	case 9:
		return pick(r, []string{"", "! "}) + pick(r, []string{"cmp ", "cmpenv "}) + pick(r, append(paths, "stdout", "stderr")) + " " + p()
	case 10:
		return "unquote " + p()
	case 11:
		return "unix2dos " + p()
	case 12:
		return pick(r, []string{"", "! "}) + "grep " + pick(r, []string{"alpha", "^alpha", "beta$", "^x1$", "'a b'", "a.b", "a*", "", "^", "$X", "al.ha", "[a-c]lpha", "be+ta", "x1|zz", "'^a.*a$'", "[^a]eta", "alpha?", "(alpha)", "al{2}", `\.`}) + " " + p()
	case 13:
		return pick(r, []string{"", "! "}) + pick(r, []string{"stdout ", "stderr "}) + pick(r, []string{"", "-count=1 ", "-count=2 ", "-count=+1 "}) + pick(r, []string{"alpha", "^alpha", "beta$", "^x1$", "'alpha beta'", "gamma$", "'^hello beta$'", "al.ha", "[a-c]l+pha", "b.*a", "zz|beta", "'^$'", "[^b]eta", "x?1"})
	case 14:
		return fmt.Sprintf("exec %s %s", h, pick(r, []string{"pwd", "env PWD", "env WORK", "env X", "env HOME", "cat", "lines a b", "print 'no newline'", "printerr oops", "exit 0", "exit 256", "exit", "exit x", "both a", "write", "echo", "writeraw raw.txt 'a b'", "write sub/new.txt w", "write ../escape.txt w", "write lnk w", "write dangling w", "sleep extra", "cat x"}))
	case 15:
		return "env " + pick(r, []string{"X=1", "Y=two", "X=", "Z='a b'", "X=$Y", "NOEQ", "X=a=b", "PATH=/nonexistent", "PATH=$PATH", "WORK=$WORK/sub"})
	case 16:
		return "stdin " + pick(r, append(paths, "stdout", "stderr"))
	case 17:
		return fmt.Sprintf("exec %s %s &%s", h, pick(r, []string{"sleep", "echo bgw", "exit 3", "fail bgf", "echoerr bge"}), pick(r, []string{"", "n1&", "n2&"}))
	case 18:
		return pick(r, []string{"wait", "wait n1", "wait n2", "kill", "kill n1", "kill -INT", "kill -KILL n2", "kill -INT n1", "kill n1 n2"})
	case 19:
		return "[" + pick(r, append(append(append([]string{"foo", "!bar", "errc", "baz", " linux ", "! windows", "", "!", "exec:" + h, " go1.9", "!go1.100 "}, sampleConds(r, true, 6)...), sampleConds(r, false, 6)...), nearCondNames...)) + "] " + x.okLineFlat()
	case 20:
		return "! " + x.okLineFlat()
	case 21:
		return x.okLineFlat() + " # trailing comment"
	case 22:
		return "exec\t" + h + "\techo\ttabbed"
	case 23:
		return fmt.Sprintf("exec %s echo 'it''s' 'a  b' x'y'z ''", h)
	case 24:
		return fmt.Sprintf("exec %s echo $X ${Y} $Z$X '$X' $WORK $$ ${} $", h)
	case 25:
		return "[linux] [!windows] [unix] " + x.okLineFlat()
	case 26:
		return "[linux] [windows] " + x.failLine()
	case 27:
		return pick(r, []string{"stop", "stop msg", "skip", "skip msg"})
	case 28:
		return pick(r, []string{"ttyin a.txt", "ttyout x", "! ttyout x"})
	case 29:
		return fmt.Sprintf("%s %s", h, pick(r, []string{"echo direct", "exit 1", "sleep &"}))
	case 30:
		return "! " + h + " exit 1"
	case 31:
		return "exec " + pick(r, []string{"./a.txt", "sub/d.txt", "$WORK/a.txt", "sub", "./nofile"})
	case 32:
		return "cd " + pick(r, []string{"$WORK", ".", "sub/..", "lnk", "dl", "sub/inner/.."})
	case 33:
		return "exec " + h + " pwd"
	case 34:
		return x.failLine()
	}
	return x.okLine()
}

func genParams(r *common.RNG, c *Case, cond *condInfo) {
	c.Coe = r.Chance(2, 5)
	c.Ree = r.Chance(1, 5)
	c.Uniq = r.Chance(1, 5)
	c.Cmds = r.Chance(3, 5)
	c.Shadow = c.Cmds && r.Chance(1, 2)
	cond.trueC = sampleConds(r, true, 14)
	cond.falseC = sampleConds(r, false, 14)
	// names that look like predefined conditions and are not: unknown without Params.Condition
	// (the line fails), a question for Params.Condition with it
	near := []string{pick(r, nearCondNames), pick(r, nearCondNames)}
	if r.Chance(1, 2) {
		c.HasCond = true
		c.CondDflt = pick(r, []string{"t", "f", "e"})
		c.Conds = []CondEntry{{"foo", "t"}, {"bar", "f"}, {"errc", "e"}}
		cond.trueC = append(cond.trueC, "foo", "!bar")
		cond.falseC = append(cond.falseC, "bar", "!foo")
		cond.errC = append(cond.errC, "errc", "!errc")
		switch c.CondDflt {
		case "t":
			cond.trueC = append(cond.trueC, "baz")
			cond.falseC = append(cond.falseC, "!qux")
		case "f":
			cond.falseC = append(cond.falseC, "baz")
			cond.trueC = append(cond.trueC, "!qux")
		default:
			cond.errC = append(cond.errC, "baz")
		}
		for _, n := range near {
			switch c.CondDflt {
			case "t":
				cond.trueC = append(cond.trueC, n)
				cond.falseC = append(cond.falseC, "!"+n)
			case "f":
				cond.falseC = append(cond.falseC, n)
				cond.trueC = append(cond.trueC, "!"+n)
			default:
				cond.errC = append(cond.errC, n, "!"+n)
			}
		}
	} else {
		cond.errC = append(cond.errC, near...) // unknown conditions
		cond.errC = append(cond.errC, "!"+near[0])
	}
}

// spellName: another way of writing the entry name `loc` (a clean path relative to $WORK) that
// setup must unpack at the same place: through the initial variables ($WORK/..., ${/}, $exe) or
// not canonically (./x, a//b, a/./b, a/../a/b)
func spellName(r *common.RNG, loc string) string {
	dir, file := "", loc
	if i := strings.LastIndex(loc, "/"); i >= 0 {
		dir, file = loc[:i], loc[i+1:]
	}
	switch r.Intn(11) {
	case 0:
		return "$WORK/" + loc
	case 1:
		return "${WORK}/" + loc
	case 2:
		return "./" + loc
	case 3:
		return strings.ReplaceAll(loc, "/", "${/}") + "$exe"
	case 4:
		if dir != "" {
			return dir + "//" + file
		}
		return ".//" + file
	case 5:
		if dir != "" {
			return dir + "/./" + file
		}
		return "././" + file
	case 6:
		if dir != "" {
			return dir + "/../" + dir[strings.LastIndex(dir, "/")+1:] + "/" + file
		}
		return "zz/../" + file
	case 7:
		return "$WORK${/}" + loc
	case 8:
		return loc + "${exe}"
	}
	return loc
}

// names that lead out of the work directory: setup must refuse them (the locations are chosen so
// that an implementation that does not would write below the case directory or nowhere)
var escapingNames = []string{"../esc.txt", "sub/../../esc2.txt", "$WORK/../esc3.txt", "..", "../../esc4/x", "$devnull/x", "/dev/null/verif-x", "a/../..", "$WORK/../script-s2/x"}

func genFiles(r *common.RNG, c *Case) {
	n := r.Intn(4)
	used := map[string]bool{}
	respell := r.Chance(1, 3)
	defer func() {
		if len(c.Files) > 0 && r.Chance(1, 14) {
			// one entry whose name leaves the work directory, anywhere in the archive
			i := r.Intn(len(c.Files) + 1)
			esc := AFile{Name: pick(r, escapingNames), Data: "outside\n"}
			c.Files = append(c.Files[:i:i], append([]AFile{esc}, c.Files[i:]...)...)
		} else if r.Chance(1, 40) {
			c.Files = append(c.Files, AFile{Name: pick(r, []string{".", "$WORK", "./", "$WORK/.tmp"}), Data: "a directory is in the way\n"})
		}
	}()
	for i := 0; i < n; i++ {
		name := pick(r, filePool[:6])
		if used[name] && !r.Chance(1, 6) {
			continue
		}
		used[name] = true
		if respell && r.Chance(2, 3) {
			name = spellName(r, name)
		}
		var b strings.Builder
		for j, m := 0, 1+r.Intn(3); j < m; j++ {
			b.WriteString(pick(r, wordsPool) + " " + pick(r, wordsPool) + "\n")
		}
		c.Files = append(c.Files, AFile{Name: name, Data: b.String()})
	}
	if len(c.Files) > 0 && r.Chance(1, 6) {
		// a second entry of the same name: overwrites, or fails setup under RequireUniqueNames
		c.Files = append(c.Files, AFile{Name: c.Files[r.Intn(len(c.Files))].Name, Data: pick(r, wordsPool) + " again\n"})
	}
}

// epilogue: lines that dump what is left of the state into files of the work directory, so
// that the final stdin, environment and current directory take part in the tree comparison
var epilogue = []string{
	"exec " + helperName + " cat", "cp stdout $WORK/zz_stdin",
	"exec " + helperName + " environ", "cp stdout $WORK/zz_env",
	"exec " + helperName + " pwd", "cp stdout $WORK/zz_cd",
}

// Planted describes what a constructive script was built to do.
type Planted struct {
	FailAt int // 0 = none
	Kind   string
}

// genConstructive builds a script whose behaviour is known by construction.
func genConstructive(r *common.RNG, id string, cli bool) (*Case, *Planted) {
	c := &Case{ID: id, Kind: "constructive"}
	var cond condInfo
	genParams(r, c, &cond)
	if cli {
		// what cmd/testscript offers: no Cmds, no Condition, no Main commands
		*c = Case{ID: id, Kind: "cli", Coe: c.Coe, NoMain: true}
		// (the conditions of the whole universe, [short] and [net] included: cmd/testscript must
		// answer them like RunT does; cli.go has hand-written scripts for those two as well)
		cond = condInfo{trueC: sampleConds(r, true, 16), falseC: sampleConds(r, false, 16), errC: []string{pick(r, nearCondNames)}}
	}
	genFiles(r, c)
	target := 1 + r.Intn(25)
	pl := &Planted{}
	plantAt := 0
	if r.Chance(3, 5) {
		plantAt = 1 + r.Intn(target)
	}
	endAt, endKind := 0, ""
	if r.Chance(1, 4) {
		endAt, endKind = 1+r.Intn(target), pick(r, []string{"stop", "skip", "stop done", "skip 'not today'"})
	}
	ex := evaluate(c)
	if !ex.Known {
		c.Files = nil
		ex = evaluate(c)
	}
	for len(c.Lines) < target {
		if ex.Ended {
			// nothing below runs: fill with lines that would be visible if they did
			x := &genCtx{r: r, c: c, g: ex.Final, n: len(c.Lines) + 1, cond: cond}
			c.Lines = append(c.Lines, x.marker())
			continue
		}
		if r.Chance(1, 7) {
			// phase comments anywhere, also right in front of and behind a failing line: the
			// rewinding of the log must not change the verdict or the reported line number
			c.Lines = append(c.Lines, pick(r, []string{"# phase", "#", "# next phase " + fmt.Sprint(len(c.Lines))}))
			ex = evaluate(c)
			continue
		}
		n := len(c.Lines) + 1
		x := &genCtx{r: r, c: c, g: ex.Final, n: n, cond: cond}
		wantFail := plantAt != 0 && n >= plantAt && pl.FailAt == 0
		accepted := false
		for try := 0; try < 40 && !accepted; try++ {
			var cand string
			switch {
			case wantFail && r.Chance(1, 8):
				cand = x.failGroup()
			case wantFail:
				cand = x.failLine()
				if r.Chance(1, 4) {
					cand = x.guards(true) + " " + cand
				}
			case endAt != 0 && n >= endAt:
				cand = endKind
			case pl.FailAt != 0 && r.Chance(2, 3):
				cand = x.marker()
			default:
				cand = x.okLine()
			}
			cl := strings.Split(cand, "\n")
			trial := *c
			trial.Lines = append(append([]string{}, c.Lines...), cl...)
			tex := evaluate(&trial)
			if !tex.Known {
				continue
			}
			// every line of the group but the last must succeed; the last as wanted
			good := len(tex.Results) == len(trial.Lines) || tex.Ended
			if len(tex.Results) != len(trial.Lines) {
				good = false
			}
			for i := len(c.Lines); i < len(trial.Lines)-1 && good; i++ {
				if tex.Results[i] != rOK {
					good = false
				}
			}
			if !good {
				continue
			}
			last := tex.Results[len(trial.Lines)-1]
			if wantFail {
				if last != rFail {
					continue
				}
				pl.FailAt = len(trial.Lines)
				pl.Kind = cl[len(cl)-1]
			} else if last == rFail {
				continue
			}
			if last == rSkip || tex.Final.stopped {
				endAt = 0
			}
			c.Lines = trial.Lines
			ex = tex
			accepted = true
		}
		if !accepted {
			c.Lines = append(c.Lines, "")
			ex = evaluate(c)
		}
	}
	if !ex.Ended && !cli && r.Chance(1, 2) {
		trial := *c
		trial.Lines = append(append([]string{}, c.Lines...), epilogue...)
		if tex := evaluate(&trial); tex.Known && tex.Verdict == ex.Verdict {
			c.Lines = trial.Lines
		}
	}
	return c, pl
}

// genWild builds a script from the whole vocabulary.
func genWild(r *common.RNG, id string) *Case {
	c := &Case{ID: id, Kind: "wild"}
	var cond condInfo
	genParams(r, c, &cond)
	c.Coe = r.Chance(4, 5) // so that most lines are reached
	genFiles(r, c)
	if r.Chance(1, 8) {
		c.Files = append(c.Files, AFile{Name: pick(r, []string{"a.txt", "sub", "a.txt/x", "sub/d.txt", "${X}y", "q/../r.txt", ">.txt", "$WORK/a.txt", "./a.txt", "sub//d.txt",
			"$WORK/sub/../c.txt", "../esc.txt", "$WORK/./w.txt", "sub/", "$X/y", "lnk$exe.txt", "$WORK", "a${/}b", "$TMPDIR/t.txt", "${WORK}x/y", "$WORK/../script-s/in.txt"}), Data: "dup\n"})
	}
	g := newGState()
	for _, f := range c.Files {
		g.files[absWork+"/"+f.Name] = f.Data
	}
	n := 1 + r.Intn(25)
	if r.Chance(7, 10) {
		// a prelude that creates most of the names the wild vocabulary refers to
		c.Files = append(c.Files, AFile{Name: "a.txt", Data: "alpha beta\nx1\n"}, AFile{Name: "sub/d.txt", Data: "hello beta\n"})
		pre := []string{"mkdir dir1 sub/inner", "symlink lnk -> sub", "symlink dl -> $WORK/sub", "symlink dangling -> nowhere", "symlink loop -> loop",
			"env X=a.txt Y=sub", "exec " + helperName + " echo alpha beta", "exec " + helperName + " write b.txt alpha"}
		for _, l := range pre {
			if r.Chance(4, 5) {
				c.Lines = append(c.Lines, l)
			}
		}
		n += len(c.Lines)
	}
	for len(c.Lines) < n {
		x := &genCtx{r: r, c: c, g: g, n: len(c.Lines) + 1, cond: cond}
		var cand string
		if r.Chance(3, 5) {
			cand = x.wildLine()
		} else {
			cand = x.okLine()
		}
		c.Lines = append(c.Lines, strings.Split(cand, "\n")...)
	}
	if r.Chance(1, 2) {
		c.Lines = append(c.Lines, epilogue...)
	}
	return c
}

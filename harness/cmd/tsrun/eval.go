package main

// An independent evaluation of scripts, written from testscript/doc.go for a restricted
// class of lines (simple words, simple paths, the helper program).  It is the direct oracle
// of C01: it never consults the Coq model.  Whatever it is not sure about is "unknown", and
// a script with an unknown line is not judged by it.

import (
	"fmt"
	"regexp"

	"verif/harness/common"
	"sort"
	"strconv"
	"strings"
)

const absWork = "/W" // stands for $WORK inside the evaluator

// unpredicted is the stdout of helper subcommands whose output the evaluator does not
// predict (pwd, environ): any later line that looks at it makes the script unknown
const unpredicted = "\x00unpredicted\x00"

type gproc struct {
	name      string
	neg       bool
	sleeper   bool
	code      int
	out, err  string
	signalled bool
	reaped    bool
}

type gstate struct {
	files   map[string]string
	modes   map[string]int
	dirs    map[string]bool
	opaque  map[string]string // symbolic links (path -> target): only `exists` looks through them, anything else is unknown
	cwd     string
	out     string
	err     string
	stdin   string
	env     map[string]string
	pathSet bool
	bg      []*gproc
	stopped bool
	expired bool // the deadline of the run (Case.DL == 1) has been reached: the context is done
}

type lineRes int

const (
	rOK lineRes = iota
	rFail
	rSkip
	rUnknown
)

type evaluator struct {
	c  *Case
	g  *gstate
	unterminated bool // the last call of words met an unterminated quote
}

func newGState() *gstate {
	return &gstate{files: map[string]string{}, modes: map[string]int{}, dirs: map[string]bool{absWork: true, absWork + "/.tmp": true},
		opaque: map[string]string{}, cwd: absWork, env: map[string]string{}}
}

var simplePath = regexp.MustCompile(`^[a-zA-Z0-9_][a-zA-Z0-9_.\-]*(/[a-zA-Z0-9_][a-zA-Z0-9_.\-]*)*$`)

// abs maps a path word to the evaluator's absolute form; ok=false for anything unusual.
func (g *gstate) abs(p string) (string, bool) {
	switch {
	case p == absWork:
		return p, true
	case strings.HasPrefix(p, absWork+"/"):
		if simplePath.MatchString(p[len(absWork)+1:]) {
			return p, !g.touchesOpaque(p)
		}
		return "", false
	case simplePath.MatchString(p):
		q := g.cwd + "/" + p
		return q, !g.touchesOpaque(q)
	}
	return "", false
}

// absOrLink is abs, but a path that IS a symbolic link (not one that goes through a link) is allowed
func (g *gstate) absOrLink(p string) (string, bool) {
	var q string
	switch {
	case strings.HasPrefix(p, absWork+"/") && simplePath.MatchString(p[len(absWork)+1:]):
		q = p
	case simplePath.MatchString(p):
		q = g.cwd + "/" + p
	default:
		return g.abs(p)
	}
	if _, isLink := g.opaque[q]; isLink {
		return q, true
	}
	return g.abs(p)
}

// linkTarget: the evaluator's path of what the link at p points to (one level, simple targets)
func (g *gstate) linkTarget(p, target string) (string, bool) {
	var q string
	switch {
	case target == absWork || strings.HasPrefix(target, absWork+"/") && simplePath.MatchString(target[len(absWork)+1:]):
		q = target
	case simplePath.MatchString(target):
		q = parentOf(p) + "/" + target
	default:
		return "", false
	}
	if g.touchesOpaque(q) {
		return "", false
	}
	return q, true
}

func (g *gstate) touchesOpaque(p string) bool {
	for o := range g.opaque {
		if p == o || strings.HasPrefix(p, o+"/") {
			return true
		}
	}
	// a path that goes through a regular file (a.txt/x): ENOTDIR rather than ENOENT, and
	// the commands do not all treat the two alike
	for f := range g.files {
		if strings.HasPrefix(p, f+"/") {
			return true
		}
	}
	return false
}

func parentOf(p string) string { return p[:strings.LastIndex(p, "/")] }
func baseOf(p string) string   { return p[strings.LastIndex(p, "/")+1:] }

func (g *gstate) exists(p string) bool { _, f := g.files[p]; return f || g.dirs[p] }

// mkdirAll: false when a prefix is a file
func (g *gstate) mkdirAll(p string) bool {
	parts := strings.Split(strings.TrimPrefix(p, "/"), "/")
	cur := ""
	for _, c := range parts {
		cur += "/" + c
		if _, isFile := g.files[cur]; isFile {
			return false
		}
	}
	cur = ""
	for _, c := range parts {
		cur += "/" + c
		g.dirs[cur] = true
	}
	return true
}

// writeFile: create or overwrite a regular file; false when impossible
func (g *gstate) writeFile(p, data string, mode int) bool {
	if g.dirs[p] || !g.dirs[parentOf(p)] {
		return false
	}
	if _, had := g.files[p]; !had {
		g.modes[p] = mode &^ 0o022
	}
	g.files[p] = data
	return true
}

func (g *gstate) removeTree(p string) {
	for f := range g.files {
		if f == p || strings.HasPrefix(f, p+"/") {
			delete(g.files, f)
			delete(g.modes, f)
		}
	}
	for d := range g.dirs {
		if d == p || strings.HasPrefix(d, p+"/") {
			delete(g.dirs, d)
		}
	}
	for o := range g.opaque {
		if strings.HasPrefix(o, p+"/") {
			delete(g.opaque, o)
		}
	}
}

// ---- words

// words splits a line the way doc.go describes, for the restricted syntax the generator
// uses: blanks, '...' without embedded quotes, $NAME and ${NAME} outside quotes.
func (ev *evaluator) words(line string) ([]string, bool) {
	ev.unterminated = false
	var out []string
	i := 0
	n := len(line)
	for i < n {
		if line[i] == ' ' {
			i++
			continue
		}
		if line[i] == '#' || line[i] == '\t' || line[i] == '\r' {
			return nil, false
		}
		w := ""
		for i < n && line[i] != ' ' {
			switch c := line[i]; {
			case c == '\'':
				j := strings.IndexByte(line[i+1:], '\'')
				if j < 0 {
					if !strings.ContainsAny(line, "#\t\r$") {
						ev.unterminated = true
					}
					return nil, false
				}
				w += line[i+1 : i+1+j]
				i += j + 2
				if i < n && line[i] == '\'' {
					return nil, false // doubled quote: not in the restricted syntax
				}
			case c == '$' && (i+1 >= n || line[i+1] == ' '):
				w += "$" // os.Expand leaves a dollar that no name follows
				i++
			case c == '$':
				j := i + 1
				braces := j < n && line[j] == '{'
				if braces {
					j++
				}
				k := j
				for k < n && (line[k] == '_' || line[k] >= 'a' && line[k] <= 'z' || line[k] >= 'A' && line[k] <= 'Z' || line[k] >= '0' && line[k] <= '9' && k > j) {
					k++
				}
				if k == j {
					return nil, false
				}
				name := line[j:k]
				if braces {
					if k >= n || line[k] != '}' {
						return nil, false
					}
					k++
				}
				if name == "WORK" {
					w += absWork
				} else if v, ok := ev.g.env[name]; ok {
					w += v
				} else {
					return nil, false // initial environment: not ours to know
				}
				i = k
			case c == '#' || c == '\t' || c == '\r':
				return nil, false
			default:
				w += string(c)
				i++
			}
		}
		out = append(out, w)
	}
	return out, true
}

// ---- conditions

func (ev *evaluator) cond(name string) (val bool, known bool, isErr bool) {
	// the predefined conditions, by the independent reading of doc.go (conds.go)
	if v, ok := indepCond(name); ok {
		return v, true, false
	}
	switch {
	case name == "short" || name == "net" || name == "link" || name == "symlink" || goVersionName.MatchString(name):
		return false, false, false // predefined, but this reading cannot tell its value on this host
	}
	if strings.HasPrefix(name, "exec:") {
		if ev.g.pathSet {
			return false, false, false
		}
		switch name[5:] {
		case helperName:
			return true, true, false
		case "nosuchprog-verif":
			return false, true, false
		}
		return false, false, false
	}
	if !customCondNames[name] {
		return false, false, false
	}
	if !ev.c.HasCond {
		return false, true, true // unknown condition: the line fails
	}
	r := ev.c.CondDflt
	for _, e := range ev.c.Conds {
		if e.Name == name {
			r = e.Res
		}
	}
	switch r {
	case "t":
		return true, true, false
	case "f":
		return false, true, false
	}
	return false, true, true
}

// the only condition names the generator uses for Params.Condition (none is a GOOS/GOARCH name)
var customCondNames = func() map[string]bool {
	m := map[string]bool{"foo": true, "bar": true, "baz": true, "errc": true, "qux": true, "nosuchcond": true}
	for _, n := range nearCondNames {
		m[n] = true // they look like predefined conditions and are not
	}
	return m
}()

// commands that doc.go marks with [!]
var negatable = map[string]bool{"cmp": true, "cmpenv": true, "exec": true, "exists": true, "grep": true, "stderr": true, "stdout": true, "ttyout": true}
var builtins = map[string]bool{"cd": true, "chmod": true, "cmp": true, "cmpenv": true, "cp": true, "env": true, "exec": true, "exists": true,
	"grep": true, "kill": true, "mkdir": true, "mv": true, "rm": true, "skip": true, "stderr": true, "stdin": true, "stdout": true, "ttyin": true,
	"ttyout": true, "stop": true, "symlink": true, "unix2dos": true, "unquote": true, "wait": true}

// evalLine evaluates one non-comment line.
func (ev *evaluator) evalLine(line string) lineRes {
	ws, ok := ev.words(line)
	if !ok {
		if ev.unterminated {
			return rFail
		}
		return rUnknown
	}
	if len(ws) == 0 {
		return rOK
	}
	for strings.HasPrefix(ws[0], "[") && strings.HasSuffix(ws[0], "]") {
		cond := ws[0][1 : len(ws[0])-1]
		ws = ws[1:]
		if len(ws) == 0 {
			return rFail
		}
		want := true
		if strings.HasPrefix(cond, "!") {
			want = false
			cond = cond[1:]
		}
		if cond != strings.TrimSpace(cond) || cond == "" {
			return rUnknown
		}
		v, known, isErr := ev.cond(cond)
		if !known {
			return rUnknown
		}
		if isErr {
			return rFail
		}
		if v != want {
			return rOK
		}
	}
	neg := false
	if ws[0] == "!" {
		neg = true
		ws = ws[1:]
		if len(ws) == 0 {
			return rFail
		}
	}
	name, args := ws[0], ws[1:]
	g := ev.g
	if g.expired {
		// only reached under ContinueOnError: what commands and their output look like once the
		// context is done depends on timing; lines that only touch the tree are still judged
		switch name {
		case "mkdir", "exists", "env", "cd", "rm", "chmod", "symlink", "mv", "stop":
		default:
			return rUnknown
		}
	}
	if name == helperName && !ev.c.NoMain {
		if ev.c.Ree {
			return rFail
		}
		return ev.exec(neg, append([]string{name}, args...))
	}
	if !builtins[name] {
		if ev.c.Cmds {
			switch name {
			case "probe":
				return rOK
			case "failcmd":
				return rFail
			case "negok":
				if neg {
					return rOK
				}
				return rFail
			}
		}
		if !regexp.MustCompile(`^[a-z]+$`).MatchString(name) {
			return rUnknown
		}
		return rFail // unknown command
	}
	if neg && !negatable[name] {
		return rFail
	}
	switch name {
	case "exec":
		return ev.exec(neg, args)
	case "stdout":
		if g.out == unpredicted {
			return rUnknown
		}
		return ev.match(neg, args, g.out, false)
	case "stderr":
		return ev.match(neg, args, g.err, false)
	case "grep":
		return ev.match(neg, args, "", true)
	case "exists":
		ro := false
		if len(args) > 0 && args[0] == "-readonly" {
			ro = true
			args = args[1:]
		}
		if len(args) == 0 {
			return rFail
		}
		for _, a := range args {
			p, ok := g.absOrLink(a)
			if !ok {
				return rUnknown
			}
			// exists uses Stat: a symbolic link stands for what it points to
			if tg, isLink := g.opaque[p]; isLink {
				q, ok := g.linkTarget(p, tg)
				if !ok {
					return rUnknown
				}
				p = q
			}
			ex := g.exists(p)
			if ex && neg || !ex && !neg {
				return rFail
			}
			if ex && !neg && ro {
				if g.dirs[p] {
					return rUnknown
				}
				if g.modes[p]&0o222 != 0 {
					return rFail
				}
			}
		}
		return rOK
	case "cd":
		if len(args) != 1 {
			return rFail
		}
		p, ok := g.abs(args[0])
		if !ok {
			return rUnknown
		}
		if !g.dirs[p] {
			return rFail
		}
		g.cwd = p
		return rOK
	case "mkdir":
		if len(args) < 1 {
			return rFail
		}
		for i, a := range args {
			p, ok := g.abs(a)
			if !ok {
				return rUnknown
			}
			if !g.mkdirAll(p) {
				if i > 0 {
					return rUnknown
				}
				return rFail
			}
		}
		return rOK
	case "rm":
		if len(args) < 1 {
			return rFail
		}
		for _, a := range args {
			p, ok := g.abs(a)
			if !ok || p == absWork || strings.HasPrefix(g.cwd+"/", p+"/") {
				return rUnknown
			}
			g.removeTree(p)
		}
		return rOK
	case "mv":
		if len(args) != 2 {
			return rFail
		}
		a, ok1 := g.abs(args[0])
		b, ok2 := g.abs(args[1])
		if !ok1 || !ok2 || g.dirs[a] || g.dirs[b] {
			return rUnknown
		}
		data, isFile := g.files[a]
		if !isFile || !g.dirs[parentOf(b)] {
			return rFail
		}
		if a == b {
			return rOK
		}
		mode := g.modes[a]
		delete(g.files, a)
		delete(g.modes, a)
		g.files[b] = data
		g.modes[b] = mode
		return rOK
	case "cp":
		if len(args) < 2 {
			return rFail
		}
		if len(args) > 2 {
			return rUnknown
		}
		dst, ok := g.abs(args[1])
		if !ok {
			return rUnknown
		}
		var data string
		mode := 0o666
		srcBase := args[0]
		switch args[0] {
		case "stdout":
			data = g.out
		case "stderr":
			data = g.err
		case "ttyout":
			return rUnknown
		default:
			src, ok := g.abs(args[0])
			if !ok {
				return rUnknown
			}
			if g.dirs[src] {
				return rFail
			}
			d, isFile := g.files[src]
			if !isFile {
				return rFail
			}
			data, mode, srcBase = d, g.modes[src], baseOf(src)
		}
		if data == unpredicted && !strings.HasPrefix(baseOf(dst), "zz_") {
			return rUnknown // only the epilogue's dumps may hold output that is not predicted
		}
		if g.dirs[dst] {
			dst = dst + "/" + srcBase
			if g.touchesOpaque(dst) {
				return rUnknown
			}
		}
		if _, had := g.files[dst]; !had {
			if !g.writeFile(dst, data, 0o777) {
				return rFail
			}
			g.modes[dst] = mode &^ 0o022
			return rOK
		}
		g.files[dst] = data
		return rOK
	case "cmp", "cmpenv":
		if len(args) != 2 {
			return rFail
		}
		if args[0] == args[1] {
			return rFail
		}
		var t1 string
		switch args[0] {
		case "stdout":
			t1 = g.out
		case "stderr":
			t1 = g.err
		case "ttyout":
			return rUnknown
		default:
			p, ok := g.abs(args[0])
			if !ok {
				return rUnknown
			}
			d, isFile := g.files[p]
			if !isFile {
				return rFail
			}
			t1 = d
		}
		if t1 == unpredicted {
			return rUnknown
		}
		p2, ok := g.abs(args[1])
		if !ok {
			return rUnknown
		}
		t2, isFile := g.files[p2]
		if !isFile {
			return rFail
		}
		if name == "cmpenv" && strings.Contains(t2, "$") {
			return rUnknown
		}
		if ev.c.Upd {
			return rUnknown
		}
		if (t1 == t2) != neg {
			return rOK
		}
		return rFail
	case "env":
		for _, a := range args {
			if i := strings.Index(a, "="); i >= 0 {
				if i == 0 {
					return rUnknown
				}
				if a[:i] == "WORK" {
					return rUnknown // $WORK no longer names the work directory
				}
				g.env[a[:i]] = a[i+1:]
				if a[:i] == "PATH" {
					g.pathSet = true
				}
			}
		}
		return rOK
	case "stdin":
		if len(args) != 1 {
			return rFail
		}
		if args[0] == "stdout" && g.out == unpredicted {
			return rUnknown
		}
		switch args[0] {
		case "stdout":
			g.stdin = g.out
		case "stderr":
			g.stdin = g.err
		case "ttyout":
			return rUnknown
		default:
			p, ok := g.abs(args[0])
			if !ok {
				return rUnknown
			}
			d, isFile := g.files[p]
			if !isFile {
				return rFail
			}
			g.stdin = d
		}
		return rOK
	case "chmod":
		if len(args) != 2 {
			return rFail
		}
		perm, err := strconv.ParseUint(args[0], 8, 32)
		if err != nil || perm > 0o777 {
			return rFail
		}
		p, ok := g.abs(args[1])
		if !ok || g.dirs[p] {
			return rUnknown
		}
		if _, isFile := g.files[p]; !isFile {
			return rFail
		}
		g.modes[p] = int(perm)
		return rOK
	case "symlink":
		if len(args) != 3 || args[1] != "->" {
			return rFail
		}
		p, ok := g.abs(args[0])
		if !ok {
			return rUnknown
		}
		if g.exists(p) || !g.dirs[parentOf(p)] {
			return rFail
		}
		if args[2] == "" {
			return rUnknown
		}
		g.opaque[p] = args[2]
		return rOK
	case "stop":
		if len(args) > 1 {
			return rFail
		}
		g.stopped = true
		return rOK
	case "skip":
		if len(args) > 1 {
			return rFail
		}
		for _, p := range g.bg {
			if !p.reaped {
				if !p.sleeper {
					return rUnknown // interrupt against a process that is finishing
				}
				p.signalled, p.code = true, 255
			}
		}
		if r := ev.waitAll(); r != rOK {
			return r
		}
		return rSkip
	case "wait":
		if len(args) > 1 {
			return rFail
		}
		if len(args) == 1 {
			return ev.waitOne(args[0])
		}
		return ev.waitAll()
	case "kill":
		return ev.kill(args)
	}
	return rUnknown // ttyin, ttyout, unquote, unix2dos
}

func (ev *evaluator) reap(p *gproc) bool {
	if p.reaped {
		return true
	}
	if p.sleeper && !p.signalled {
		return false // would sleep
	}
	if !p.sleeper && p.signalled {
		return false
	}
	p.reaped = true
	return true
}

// endedByDeadline: with a short deadline (Case.DL == 1) `wait` blocks on a sleeper that nobody
// signalled until the deadline is reached; testscript then stops the command itself, and being
// stopped that way is reported as "test timed out while running command": a failure of the
// line whatever the polarity of the command.
func (ev *evaluator) endedByDeadline(p *gproc) bool {
	if ev.c.DL == 1 && !p.reaped && p.sleeper && !p.signalled {
		ev.g.expired = true
		ev.g.out, ev.g.err = unpredicted, unpredicted
		return true
	}
	return false
}

func wrongStatus(p *gproc) bool { return (p.code == 0) == p.neg }

func (ev *evaluator) waitAll() lineRes {
	g := ev.g
	var o, e string
	for _, p := range g.bg {
		if ev.endedByDeadline(p) {
			return rFail
		}
		if !ev.reap(p) {
			return rUnknown
		}
		if wrongStatus(p) {
			return rFail
		}
		o += p.out
		e += p.err
	}
	g.out, g.err, g.bg = o, e, nil
	return rOK
}

func (ev *evaluator) findBg(name string) (int, *gproc) {
	if name == "" {
		return -1, nil
	}
	for i, p := range ev.g.bg {
		if p.name == name {
			return i, p
		}
	}
	return -1, nil
}

func (ev *evaluator) waitOne(name string) lineRes {
	i, p := ev.findBg(name)
	if p == nil {
		return rFail
	}
	if ev.endedByDeadline(p) {
		return rFail
	}
	if !ev.reap(p) {
		return rUnknown
	}
	ev.g.out, ev.g.err = p.out, p.err
	if wrongStatus(p) {
		return rFail
	}
	ev.g.bg = append(ev.g.bg[:i:i], ev.g.bg[i+1:]...)
	return rOK
}

func (ev *evaluator) kill(args []string) lineRes {
	name := ""
	switch len(args) {
	case 0:
	case 1, 2:
		if sig, ok := strings.CutPrefix(args[0], "-"); ok {
			if sig != "INT" && sig != "KILL" {
				return rFail
			}
			if len(args) == 2 {
				name = args[1]
			}
		} else {
			name = args[0]
		}
	default:
		return rFail
	}
	sig := func(p *gproc) lineRes {
		if p.reaped {
			return rFail
		}
		if !p.sleeper || p.signalled {
			return rUnknown
		}
		p.signalled, p.code = true, 255
		return rOK
	}
	if name != "" {
		_, p := ev.findBg(name)
		if p == nil {
			return rFail
		}
		return sig(p)
	}
	for i, p := range ev.g.bg {
		if r := sig(p); r != rOK {
			if r == rFail && i > 0 {
				return rUnknown
			}
			return r
		}
	}
	return rOK
}

func (ev *evaluator) match(neg bool, args []string, text string, isGrep bool) lineRes {
	n := 0
	if len(args) >= 1 && strings.HasPrefix(args[0], "-count=") {
		if neg {
			return rFail
		}
		v, err := strconv.Atoi(args[0][len("-count="):])
		if err != nil || v < 1 {
			return rFail
		}
		n = v
		args = args[1:]
	}
	want := 1
	if isGrep {
		want = 2
	}
	if len(args) != want {
		return rFail
	}
	re, err := regexp.Compile(`(?m)` + args[0])
	if err != nil {
		return rFail
	}
	if isGrep {
		p, ok := ev.g.abs(args[1])
		if !ok {
			return rUnknown
		}
		d, isFile := ev.g.files[p]
		if !isFile {
			return rFail
		}
		text = d
	}
	if neg {
		if re.MatchString(text) {
			return rFail
		}
		return rOK
	}
	if !re.MatchString(text) {
		return rFail
	}
	if n > 0 && len(re.FindAllString(text, -1)) != n {
		return rFail
	}
	return rOK
}

var bgSpec = regexp.MustCompile(`^&([a-zA-Z_0-9]+&)?$`)

// helper evaluates the helper program: (exit code, stdout, stderr, known)
func (ev *evaluator) helper(a []string, bg bool) (code int, out, errS string, sleeper, known bool) {
	g := ev.g
	usage := func() (int, string, string, bool, bool) { return 2, "", "tshelper: usage\n", false, true }
	if len(a) == 0 {
		return usage()
	}
	r := a[1:]
	switch a[0] {
	case "exit":
		if len(r) != 1 {
			return usage()
		}
		n, err := strconv.Atoi(r[0])
		if err != nil || n < 0 || n > 255 || !regexp.MustCompile(`^[0-9]+$`).MatchString(r[0]) {
			return usage()
		}
		return n, "", "", false, true
	case "ret":
		// the helper's function returns this integer to RunMain, which exits with it: the status
		// the operating system reports is the integer modulo 256 (-1 is 255, 256 is 0)
		if len(r) != 1 || !regexp.MustCompile(`^-?[0-9]+$`).MatchString(r[0]) {
			return usage()
		}
		n, err := strconv.Atoi(r[0])
		if err != nil || n > 1000000 || n < -1000000 {
			return usage()
		}
		return ((n % 256) + 256) % 256, "", "", false, true
	case "echo":
		return 0, strings.Join(r, " ") + "\n", "", false, true
	case "echoerr":
		return 0, "", strings.Join(r, " ") + "\n", false, true
	case "fail":
		return 1, "", strings.Join(r, " ") + "\n", false, true
	case "both":
		if len(r) != 2 {
			return usage()
		}
		return 0, r[0] + "\n", r[1] + "\n", false, true
	case "lines":
		s := ""
		for _, w := range r {
			s += w + "\n"
		}
		return 0, s, "", false, true
	case "lines8":
		if len(r) < 1 {
			return usage()
		}
		s := r[0] + "\xff\n"
		for _, w := range r[1:] {
			s += w + "\n"
		}
		return 0, s, "", false, true
	case "print":
		if len(r) != 1 {
			return usage()
		}
		return 0, r[0], "", false, true
	case "printerr":
		if len(r) != 1 {
			return usage()
		}
		return 0, "", r[0], false, true
	case "unhex", "unhexerr":
		if len(r) != 1 || len(r[0])%2 != 0 || strings.Trim(r[0], "0123456789abcdef") != "" {
			return usage()
		}
		raw := string(common.UnHex(r[0]))
		if a[0] == "unhex" {
			return 0, raw, "", false, true
		}
		return 0, "", raw, false, true
	case "cat":
		if len(r) != 0 {
			return usage()
		}
		return 0, g.stdin, "", false, true
	case "env":
		if len(r) != 1 {
			return usage()
		}
		v, ok := g.env[r[0]]
		if !ok {
			return 0, "", "", false, false
		}
		return 0, v + "\n", "", false, true
	case "write", "writeraw":
		if bg {
			return 0, "", "", false, false
		}
		if a[0] == "write" && len(r) < 1 || a[0] == "writeraw" && len(r) != 2 {
			return usage()
		}
		p, ok := g.abs(r[0])
		if !ok {
			return 0, "", "", false, false
		}
		data := strings.Join(r[1:], " ") + "\n"
		if a[0] == "writeraw" {
			data = r[1]
		}
		if !g.writeFile(p, data, 0o666) {
			return 1, "", "tshelper: write failed\n", false, true
		}
		return 0, "", "", false, true
	case "sleep":
		if len(r) != 0 {
			return usage()
		}
		if !bg {
			return 0, "", "", false, false
		}
		return 0, "", "", true, true
	case "pwd", "environ":
		if len(r) != 0 {
			return usage()
		}
		if bg {
			return 0, "", "", false, false
		}
		return 0, unpredicted, "", false, true
	}
	return usage()
}

func (ev *evaluator) exec(neg bool, args []string) lineRes {
	g := ev.g
	if len(args) < 1 || (len(args) == 1 && bgSpec.MatchString(args[0])) {
		return rFail // usage: exec program [args...] [&]
	}
	if g.pathSet {
		return rUnknown
	}
	last := args[len(args)-1]
	isBg := bgSpec.MatchString(last)
	prog := args[0]
	var found bool
	switch {
	case prog == helperName:
		found = true
	case prog == "nosuchprog-verif":
		found = false
	case strings.Contains(prog, "/"):
		// a path: no lookup.  Nothing the scripts can create with the helper is a program that
		// can be STARTED (a text file with or without execute bits, a directory, a script whose
		// interpreter does not exist, a name that is not there): the command fails before it
		// runs.  doc.go: the input given with `stdin` is for "the next exec command" -- this is
		// that command, so the input is gone afterwards, and so is the output of the previous one.
		if !g.dirs[g.cwd] {
			return rUnknown
		}
		p, ok := g.abs(strings.TrimPrefix(prog, "./"))
		if !ok {
			return rUnknown
		}
		if data, isFile := g.files[p]; isFile && strings.HasPrefix(data, "#!") && !strings.HasPrefix(data, "#!/nonexistent-verif/") {
			return rUnknown // might be a script that runs
		}
		if isBg {
			name := strings.TrimSuffix(strings.TrimPrefix(last, "&"), "&")
			if _, q := ev.findBg(name); q != nil {
				return rFail
			}
		}
		g.out, g.err, g.stdin = "", "", ""
		if neg {
			return rOK
		}
		return rFail
	default:
		return rUnknown
	}
	if !g.dirs[g.cwd] {
		return rUnknown
	}
	if isBg {
		name := strings.TrimSuffix(strings.TrimPrefix(last, "&"), "&")
		if _, p := ev.findBg(name); p != nil {
			return rFail
		}
		if !found {
			g.out, g.err = "", ""
			if neg {
				return rOK
			}
			return rFail
		}
		code, o, e, sleeper, known := ev.helper(args[1:len(args)-1], true)
		if !known {
			return rUnknown
		}
		g.bg = append(g.bg, &gproc{name: name, neg: neg, sleeper: sleeper, code: code, out: o, err: e})
		g.out, g.err, g.stdin = "", "", ""
		return rOK
	}
	if !found {
		g.out, g.err = "", ""
		if neg {
			return rOK
		}
		return rFail
	}
	if ev.c.DL == 1 && len(args) == 2 && args[1] == "sleep" {
		// the helper sleeps past the deadline: testscript stops it, and that is a failure of the
		// line with or without "!" (it is not the command failing)
		g.expired = true
		g.out, g.err, g.stdin = unpredicted, unpredicted, ""
		return rFail
	}
	code, o, e, _, known := ev.helper(args[1:], false)
	if !known {
		return rUnknown
	}
	g.out, g.err, g.stdin = o, e, ""
	if (code != 0) == neg {
		return rOK
	}
	return rFail
}

// Expect is the evaluator's judgement of a whole script.
type Expect struct {
	Results   []lineRes // per line (comments: rOK); only the executed prefix
	Final     *gstate
	Ended     bool // stop, skip or a failure without ContinueOnError ended the script before its last line
	Known     bool
	SkipTree  bool   // the final tree is not predicted (setup failed half way)
	Verdict   string // pass | fail | skip
	FailLine  int    // first failing line
	FailLines []int
	Tree      []string // "relpath|f|mode|hexdata", "relpath|d|mode", "relpath|l" of the final tree
	Why       string
}

// evaluate judges the whole case.
func evaluate(c *Case) *Expect {
	ev := &evaluator{c: c, g: newGState()}
	g := ev.g
	ex := &Expect{Known: true}
	unknown := func(why string) *Expect { return &Expect{Known: false, Why: why, Final: g} }
	seen := map[string]bool{}
	setupFails := func(why string) *Expect {
		return &Expect{Known: true, Verdict: "fail", FailLine: 0, FailLines: []int{0}, Why: why, Final: g, Ended: true, SkipTree: true}
	}
	for _, f := range c.Files {
		p, st := entryLocation(f.Name)
		switch st {
		case locUnknown:
			return unknown("archive entry name " + f.Name)
		case locOutside:
			// doc.go: the files are unpacked below $WORK; a name that leads out of it cannot be
			return setupFails("entry name leaves the work directory: " + f.Name)
		}
		if seen[p] {
			if c.Uniq {
				return setupFails("duplicate entry")
			}
		}
		seen[p] = true
		data := f.Data
		if data != "" && !strings.HasSuffix(data, "\n") {
			data += "\n"
		}
		if p == absWork || g.dirs[p] || !g.mkdirAll(parentOf(p)) {
			// the place is taken by a directory, or a parent is a file: the entry cannot be written
			return setupFails("archive layout")
		}
		g.files[p] = data
		g.modes[p] = 0o644
	}
	failed := false
	end := "pass"
loop:
	for i, l := range c.Lines {
		n := i + 1
		if strings.HasPrefix(l, "#") {
			ex.Results = append(ex.Results, rOK)
			continue
		}
		res := ev.evalLine(l)
		ex.Results = append(ex.Results, res)
		switch res {
		case rUnknown:
			return unknown("line " + strconv.Itoa(n) + ": " + l)
		case rFail:
			ex.FailLines = append(ex.FailLines, n)
			failed = true
			if !c.Coe {
				break loop
			}
		case rSkip:
			end = "skip"
			break loop
		}
		if g.stopped {
			break
		}
	}
	ex.Final = g
	ex.Ended = len(ex.Results) < len(c.Lines) || g.stopped || end == "skip" || (failed && !c.Coe)
	switch {
	case failed:
		ex.Verdict, ex.FailLine = "fail", ex.FailLines[0]
	default:
		ex.Verdict = end
	}
	for p, d := range g.files {
		ex.Tree = append(ex.Tree, fmt.Sprintf("%s|f|%d|%s", strings.TrimPrefix(p, absWork+"/"), g.modes[p], hexs(d)))
	}
	for d := range g.dirs {
		if d != absWork {
			ex.Tree = append(ex.Tree, strings.TrimPrefix(d, absWork+"/")+"|d|493")
		}
	}
	for o := range g.opaque {
		ex.Tree = append(ex.Tree, strings.TrimPrefix(o, absWork+"/")+"|l")
	}
	sort.Strings(ex.Tree)
	return ex
}

// ---- where an archive entry is unpacked

type locStatus int

const (
	locOK locStatus = iota
	locOutside
	locUnknown
)

// the variables doc.go says every script starts with, as far as their values are the same
// everywhere (Unix): $WORK, $HOME=/no-home, $TMPDIR=$WORK/.tmp, $devnull, ${/}, ${:}, ${$}, $exe
var initialVars = map[string]string{"WORK": absWork, "HOME": "/no-home", "TMPDIR": absWork + "/.tmp", "devnull": "/dev/null",
	"/": "/", ":": ":", "$": "$", "exe": "", "GOTRACEBACK": "system"}

// entryLocation: the evaluator's path of the file an archive entry named `name` becomes.  The name
// may use the initial variables ($WORK/golden/out.txt as in doc.go, tool$exe.err, golden${/}x) and
// need not be written canonically (./x, a//b, a/./b, a/../a/x): it is expanded, taken relative to
// $WORK and cleaned; a location that is not $WORK or below it is refused by setup.
func entryLocation(name string) (string, locStatus) {
	var b strings.Builder
	for i := 0; i < len(name); {
		c := name[i]
		if c != '$' {
			b.WriteByte(c)
			i++
			continue
		}
		// $NAME or ${NAME}: only the forms whose meaning is beyond doubt
		j := i + 1
		if j >= len(name) {
			return "", locUnknown
		}
		var key string
		if name[j] == '{' {
			k := strings.IndexByte(name[j:], '}')
			if k < 0 {
				return "", locUnknown
			}
			key = name[j+1 : j+k]
			i = j + k + 1
		} else {
			k := j
			for k < len(name) && (name[k] == '_' || name[k] >= 'a' && name[k] <= 'z' || name[k] >= 'A' && name[k] <= 'Z' || name[k] >= '0' && name[k] <= '9' && k > j) {
				k++
			}
			if k == j {
				return "", locUnknown
			}
			key = name[j:k]
			i = k
		}
		v, ok := initialVars[key]
		if !ok {
			return "", locUnknown
		}
		b.WriteString(v)
	}
	x := b.String()
	if x == "" || strings.HasSuffix(x, "/") || strings.ContainsAny(x, "\x00\\") {
		return "", locUnknown
	}
	if strings.HasPrefix(x, "/") {
		// an absolute name is used as it is: "." and ".." elements in it are resolved by the
		// file system (the directories they go through must exist), which is not modelled here
		for _, el := range strings.Split(x[1:], "/") {
			if el == "" || el == "." || el == ".." {
				return "", locUnknown
			}
		}
	} else {
		x = absWork + "/" + x // relative names are joined to $WORK and cleaned lexically
	}
	// lexical cleaning: ".", "" and ".." elements
	var out []string
	for _, el := range strings.Split(x, "/") {
		switch el {
		case "", ".":
		case "..":
			if len(out) > 0 {
				out = out[:len(out)-1]
			}
		default:
			out = append(out, el)
		}
	}
	p := "/" + strings.Join(out, "/")
	if p == absWork {
		return p, locOK
	}
	if !strings.HasPrefix(p, absWork+"/") {
		return "", locOutside
	}
	if !simplePath.MatchString(p[len(absWork)+1:]) {
		return "", locUnknown
	}
	return p, locOK
}

package main

// The regular-expression fragment of the model against Go's regexp: for generated patterns
// of the fragment (and some just outside it) and generated texts, the model's parser must
// accept only what regexp.Compile accepts, and its matcher must agree with
// MatchString and len(FindAllString(text, -1)) under the "(?m)" prefix the engine adds.

import (
	"fmt"
	"regexp"
	"strings"

	"verif/harness/common"
)

var reAlphabet = []string{"a", "b", "c", "a", "b", " ", "-", "x1", "ab"}

func genAtom(r *common.RNG) string {
	switch r.Intn(12) {
	case 0, 1:
		return "."
	case 2:
		return pick(r, []string{"[ab]", "[a-c]", "[^a]", "[^ab]", "[a-c1]", "[^a-b]", "[ -]"[0:3] + "]", "[x1]", "[0-9]"})
	case 3:
		return pick(r, []string{`\.`, `\$`, `\^`, `\*`, `\+`, `\?`, `\|`, `\[`, `\]`, `\(`, `\)`, `\\`, `\{`, `\}`})
	}
	return pick(r, []string{"a", "b", "c", " ", "-", "1", "x"})
}

func genPattern(r *common.RNG) string {
	var b strings.Builder
	nalt := 1
	if r.Chance(1, 4) {
		nalt = 2 + r.Intn(2)
	}
	for i := 0; i < nalt; i++ {
		if i > 0 {
			b.WriteString("|")
		}
		if r.Chance(1, 5) {
			b.WriteString("^")
		}
		for j, n := 0, r.Intn(4); j < n; j++ {
			b.WriteString(genAtom(r))
			if r.Chance(1, 3) {
				b.WriteString(pick(r, []string{"*", "+", "?"}))
			}
		}
		if r.Chance(1, 5) {
			b.WriteString("$")
		}
	}
	// sometimes step just outside the fragment
	if r.Chance(1, 15) {
		return b.String() + pick(r, []string{"(", ")", "a{2}", "a*?", "a**", `\b`, `\d`, "[", "[]", "[z-a]", "(a)", "é", "a++", "[a-]", `\`})
	}
	return b.String()
}

func genReText(r *common.RNG) string {
	var b strings.Builder
	for i, n := 0, r.Intn(9); i < n; i++ {
		switch r.Intn(8) {
		case 0, 1:
			b.WriteString("\n")
		case 2:
			b.WriteString(pick(r, []string{".", "$", "^", "*", "+", "?", "|", "[", "]", "(", ")", "\\", "{", "}"}))
		default:
			b.WriteString(pick(r, reAlphabet))
		}
	}
	return b.String()
}

func (rn *runner) regexMain(r *common.RNG, n int) {
	type pair struct{ p, t string }
	var pairs []pair
	// the patterns the script generators use, and small hand-picked ones, first
	for _, p := range []string{"", "^", "$", "^$", "a*", "a|", "|a", "a|ab|b", "ab|a", "a?b", "^a", "a$", "[^a]*", ".*", ".+", "a.c", "x*", "b+"} {
		for _, t := range []string{"", "a", "ab", "aab\nab", "\n", "\n\n", "ba\nab\n", "abab", "aaa", "b", "a\nb\nc", "acabc\n"} {
			pairs = append(pairs, pair{p, t})
		}
	}
	for len(pairs) < n {
		p := genPattern(r)
		for k := 0; k < 3; k++ {
			pairs = append(pairs, pair{p, genReText(r)})
		}
	}
	var reqs []string
	for _, x := range pairs {
		reqs = append(reqs, "re "+hx(x.p)+" "+hx(x.t))
	}
	rn.mu.Lock()
	ans, err := rn.m.Ask(reqs)
	rn.mu.Unlock()
	if err != nil {
		rn.res.Notes = append(rn.res.Notes, "regex validation: model error: "+err.Error())
		return
	}
	res := rn.res
	for i, x := range pairs {
		re, cerr := regexp.Compile("(?m)" + x.p)
		a := ans[i]
		res.Case("re|"+x.p+"|"+x.t, true)
		bad := ""
		var want string
		switch {
		case a == "unsupported":
			if cerr == nil {
				res.Count("regex:outside-fragment-but-valid")
			} else {
				res.Count("regex:invalid-and-refused")
			}
			continue
		case cerr != nil:
			bad, want = "accepts-invalid-pattern", "compile error: "+cerr.Error()
		default:
			m := 0
			if re.MatchString(x.t) {
				m = 1
			}
			want = fmt.Sprintf("m=%d n=%d safe=1", m, len(re.FindAllString(x.t, -1)))
			res.Count("regex:compared")
			if m == 1 {
				res.Count("regex:compared-matching")
			}
			if a != want {
				bad = "matcher"
			}
		}
		if bad != "" {
			res.Count("mismatch:regex-" + bad)
			res.Violate(common.Violation{Kind: "correspondence", Oracle: "regex-" + bad, Key: "regex:" + x.p + "|" + x.t,
				Input: map[string]string{"pattern": x.p, "text": fmt.Sprintf("%q", x.t), "pattern_hex": hx(x.p), "text_hex": hx(x.t)},
				Model: a, Impl: want, Detail: "the model's regular-expression fragment and Go's regexp (with the (?m) prefix of scriptMatch) differ"})
		}
	}
}

package main

// Several scripts in ONE testscript.RunT call.  The verdict of a script (and the lines named as
// failing, what its probe commands saw, its final tree when the work directories are kept) must
// be what it is when that script is run alone: "for any script, the run is reported as passed
// exactly when every command ... behaves as its line demands" leaves no room for the other
// files of the call.  RunT shares one context, one reference count and one temporary root among
// the subtests, so the batch is run under every kind of T a caller may bring: one that runs the
// subtests one after the other (cmd/testscript's), one that parks them in Parallel until all
// are registered (testing.T), one that lets them run at once; with and without a deadline, with
// the work directories kept (WorkdirRoot) and removed.

import (
	"encoding/hex"
	"encoding/json"
	"fmt"
	"os"
	"path/filepath"
	"regexp"
	"strconv"
	"strings"
	"sync"
	"time"

	"github.com/rogpeppe/go-internal/testscript"

	"verif/harness/common"
)

// Batch is one RunT call over several scripts; the Params are those of Cases[0].
type Batch struct {
	Cases  []*Case `json:"cases"`
	First  int     `json:"first,omitempty"` // number of the first script in its file name (s<First>.txtar ...)
	Mode   string  `json:"mode"`    // seq | parked | free
	DL     int     `json:"dl"`      // 0 none, 2 far away
	NoRoot bool    `json:"no_root"` // no WorkdirRoot: the work directories are removed, the context is cancelled by the last subtest
}

// batchT implements testscript.T for a whole RunT call.
type batchT struct {
	mode    string
	mu      sync.Mutex
	kids    map[string]*recT
	wg      sync.WaitGroup
	release chan struct{}
	logs    []string
}

type kidT struct {
	*recT
	root *batchT
}

func (k kidT) Parallel() {
	if k.root.mode == "parked" {
		<-k.root.release
	}
}

func (b *batchT) Skip(a ...any)  { panic(errSkip) }
func (b *batchT) Fatal(a ...any) { b.Log(a...); b.FailNow() }
func (b *batchT) Parallel()      {}
func (b *batchT) Log(a ...any) {
	b.mu.Lock()
	b.logs = append(b.logs, fmt.Sprint(a...))
	b.mu.Unlock()
}
func (b *batchT) FailNow()      { panic(errFail) }
func (b *batchT) Verbose() bool { return false }
func (b *batchT) Run(name string, f func(testscript.T)) {
	t := &recT{}
	b.mu.Lock()
	b.kids[name] = t
	b.mu.Unlock()
	body := func() {
		defer func() {
			switch e := recover(); e {
			case nil:
			case errSkip:
				t.skipped = true
			case errFail:
				t.failed = true
			default:
				t.panicV = fmt.Sprint(e)
			}
		}()
		f(kidT{t, b})
	}
	if b.mode == "seq" {
		body()
		return
	}
	b.wg.Add(1)
	go func() {
		defer b.wg.Done()
		body()
	}()
}

// runBatchImpl runs the batch below dir and returns one observation per script.
func runBatchImpl(b *Batch, dir string) []*Obs {
	os.RemoveAll(dir)
	os.MkdirAll(filepath.Join(dir, "root"), 0o777)
	c0 := b.Cases[0]
	obs := make([]*Obs, len(b.Cases))
	byName := map[string]*Obs{}
	var files []string
	var stamps []fileStamp
	for i, c := range b.Cases {
		obs[i] = &Obs{}
		name := fmt.Sprintf("s%d", b.First+i)
		byName[name] = obs[i]
		p := filepath.Join(dir, name+".txtar")
		os.WriteFile(p, c.fileBytes(), 0o666)
		stamps = append(stamps, stampFile(p))
		files = append(files, p)
	}
	var pmu sync.Mutex
	p := testscript.Params{
		Files:               files,
		WorkdirRoot:         filepath.Join(dir, "root"),
		ContinueOnError:     c0.Coe,
		RequireExplicitExec: c0.Ree,
		RequireUniqueNames:  c0.Uniq,
		UpdateScripts:       c0.Upd,
		Setup: func(e *testscript.Env) error {
			pmu.Lock()
			defer pmu.Unlock()
			if o := byName[strings.TrimPrefix(filepath.Base(e.WorkDir), "script-")]; o != nil {
				o.Env = append([]string{}, e.Vars...)
				o.Work = e.WorkDir
			}
			return nil
		},
	}
	if b.NoRoot {
		p.WorkdirRoot = ""
	}
	if c0.Cmds {
		p.Cmds = map[string]func(ts *testscript.TestScript, neg bool, args []string){
			"probe": func(ts *testscript.TestScript, neg bool, args []string) {
				var vars []string
				for _, v := range watchVars {
					vars = append(vars, hexs(ts.Getenv(v)))
				}
				var as []string
				for _, a := range args {
					as = append(as, hexs(a))
				}
				// the directory is reported relative to the work directory: its name differs between runs
				cd, _ := filepath.Rel(ts.MkAbs(ts.Getenv("WORK")), filepath.Clean(ts.MkAbs(".")))
				rec := fmt.Sprintf("%v|%s|%s|%s|%s|%s|%d", neg, strings.Join(as, ","), hexs(cd),
					hexs(ts.ReadFile("stdout")), hexs(ts.ReadFile("stderr")), strings.Join(vars, ","), len(ts.BackgroundCmds()))
				pmu.Lock()
				if o := byName[ts.Name()]; o != nil {
					o.Probes = append(o.Probes, rec)
				}
				pmu.Unlock()
			},
			"failcmd": func(ts *testscript.TestScript, neg bool, args []string) { ts.Fatalf("failcmd called") },
			"negok": func(ts *testscript.TestScript, neg bool, args []string) {
				if !neg {
					ts.Fatalf("negok called without !")
				}
			},
		}
	}
	if c0.HasCond {
		tbl := map[string]string{}
		for _, e := range c0.Conds {
			tbl[e.Name] = e.Res
		}
		p.Condition = func(cond string) (bool, error) {
			r, ok := tbl[cond]
			if !ok {
				r = c0.CondDflt
			}
			switch r {
			case "t":
				return true, nil
			case "f":
				return false, nil
			}
			return false, fmt.Errorf("condition error")
		}
	}
	if b.DL == 2 {
		p.Deadline = time.Now().Add(time.Hour)
	}
	t := &batchT{mode: b.Mode, kids: map[string]*recT{}, release: make(chan struct{})}
	rootPanic := ""
	func() {
		defer func() {
			if e := recover(); e != nil {
				rootPanic = fmt.Sprint(e)
			}
		}()
		testscript.RunT(t, p)
	}()
	close(t.release)
	t.wg.Wait()
	for i := range b.Cases {
		o := obs[i]
		name := fmt.Sprintf("s%d", b.First+i)
		k := t.kids[name]
		switch {
		case rootPanic != "":
			o.Verdict, o.PanicVal = "PANIC", rootPanic
		case k == nil:
			o.Verdict = "NOT-RUN"
		case k.panicV != "":
			o.Verdict, o.PanicVal = "PANIC", k.panicV
		case k.failed:
			o.Verdict = "fail"
		case k.skipped:
			o.Verdict = "skip"
		default:
			o.Verdict = "pass"
		}
		if k != nil {
			o.Log = strings.Join(k.logs, "\n")
		}
		re := regexp.MustCompile(`(?m)^FAIL: ` + regexp.QuoteMeta(files[i]) + `:(\d+): `)
		for _, m := range re.FindAllStringSubmatch(o.Log, -1) {
			n, _ := strconv.Atoi(m[1])
			o.FailLines = append(o.FailLines, n)
		}
		if !b.NoRoot {
			if o.Work == "" {
				o.Work = filepath.Join(dir, "root", "script-"+name)
			}
			o.Tree = snapshot(o.Work)
		}
		o.FileAfter, _ = os.ReadFile(files[i])
		o.Written = stamps[i].changed(files[i])
		normPaths(o)
	}
	if b.NoRoot {
		for _, o := range obs {
			if o.Work != "" {
				if top := filepath.Dir(o.Work); strings.HasPrefix(filepath.Base(top), "go-test-script") && strings.HasPrefix(top, os.TempDir()) {
					cleanup(top)
				}
			}
		}
	}
	return obs
}

// aloneObs runs script i of the batch alone (same Params, same kind of call) for comparison.
func aloneObs(b *Batch, i int, dir string) *Obs {
	one := &Batch{Cases: []*Case{paramsOf(b.Cases[0], b.Cases[i])}, First: b.First + i, Mode: "seq", DL: b.DL, NoRoot: b.NoRoot}
	return runBatchImpl(one, dir)[0]
}

// paramsOf: the script of c under the Params of p
func paramsOf(p, c *Case) *Case {
	t := *c
	t.Coe, t.Ree, t.Uniq, t.Upd, t.Cmds, t.Shadow, t.HasCond, t.CondDflt, t.Conds = p.Coe, p.Ree, p.Uniq, p.Upd, p.Cmds, false, p.HasCond, p.CondDflt, p.Conds
	return &t
}

// batchDiff: the first script whose observation in the batch is not its observation alone.
func batchDiff(inBatch, alone []*Obs) (int, string) {
	for i := range inBatch {
		a, b := inBatch[i], alone[i]
		switch {
		case a.Verdict != b.Verdict:
			return i, fmt.Sprintf("verdict-depends-on-the-batch: %s in the batch, %s alone", a.Verdict, b.Verdict)
		case !eqInts(a.FailLines, b.FailLines):
			return i, fmt.Sprintf("failing-lines-depend-on-the-batch: %v in the batch, %v alone", a.FailLines, b.FailLines)
		case !eqStrs(a.Probes, b.Probes):
			return i, "probe-observations-depend-on-the-batch"
		case a.Tree != nil && b.Tree != nil && !eqStrs(a.Tree, b.Tree):
			return i, "final-tree-depends-on-the-batch"
		case a.Written || string(a.FileAfter) != string(b.FileAfter):
			return i, "script-file-written"
		}
	}
	return -1, ""
}

func (rn *runner) runBatchBoth(b *Batch) (inBatch, alone []*Obs) {
	dir := rn.freshDir("batch")
	inBatch = runBatchImpl(b, dir)
	cleanup(dir)
	for i := range b.Cases {
		d := rn.freshDir("alone")
		alone = append(alone, aloneObs(b, i, d))
		cleanup(d)
	}
	return
}

func batchInput(b *Batch) map[string]string {
	js, _ := json.Marshal(b)
	in := map[string]string{"batch": string(js), "T": b.Mode, "deadline": map[int]string{0: "none", 2: "one hour away"}[b.DL], "workdir_root": fmt.Sprint(!b.NoRoot),
		"params": fmt.Sprintf("ContinueOnError=%v RequireExplicitExec=%v RequireUniqueNames=%v Cmds=%v Condition=%v", b.Cases[0].Coe, b.Cases[0].Ree, b.Cases[0].Uniq, b.Cases[0].Cmds, b.Cases[0].HasCond)}
	for i, c := range b.Cases {
		in[fmt.Sprintf("script%d", i)] = string(c.fileBytes())
	}
	return in
}

// judgeBatchT runs one batch, compares every script with its run alone and with the model.
func (rn *runner) judgeBatchT(b *Batch, inB, alone []*Obs) {
	res := rn.res
	res.Count("batch:T=" + b.Mode)
	res.Count(fmt.Sprintf("batch:deadline=%d", b.DL))
	res.Count(fmt.Sprintf("batch:workdirs-kept=%v", !b.NoRoot))
	res.Count(fmt.Sprintf("batch:scripts=%d", len(b.Cases)))
	var key []string
	for i, c := range b.Cases {
		res.Count("batch:verdict-in-batch:" + inB[i].Verdict)
		key = append(key, string(c.fileBytes()))
	}
	res.Case("batch|"+b.Mode+"|"+strings.Join(key, "\x00"), true)
	if i, d := batchDiff(inB, alone); i >= 0 {
		res.Count("oracle-fails:batch")
		// twice more against flakes
		for k := 0; k < 2; k++ {
			in2, al2 := rn.runBatchBoth(b)
			if j, _ := batchDiff(in2, al2); j < 0 {
				res.Count("oracle-flake")
				return
			}
		}
		// shrink the batch: fewer scripts, then fewer lines in the script that differs
		bad := func(cs []*Case) bool {
			if len(cs) == 0 {
				return false
			}
			t := &Batch{Cases: cs, Mode: b.Mode, DL: b.DL, NoRoot: b.NoRoot}
			t.Cases = append([]*Case{paramsOf(b.Cases[0], cs[0])}, cs[1:]...)
			x, y := rn.runBatchBoth(t)
			j, _ := batchDiff(x, y)
			return j >= 0
		}
		small := common.ShrinkList(b.Cases, bad)
		sb := &Batch{Cases: append([]*Case{paramsOf(b.Cases[0], small[0])}, small[1:]...), Mode: b.Mode, DL: b.DL, NoRoot: b.NoRoot}
		for idx := range sb.Cases {
			orig := sb.Cases[idx]
			lines := common.ShrinkList(orig.Lines, func(ls []string) bool {
				if len(ls) == 0 {
					return false
				}
				t := *orig
				t.Lines, t.RawHex = ls, ""
				cs := append([]*Case{}, sb.Cases...)
				cs[idx] = &t
				return bad(cs)
			})
			t := *orig
			t.Lines, t.RawHex = lines, ""
			if len(lines) < len(orig.Lines) {
				sb.Cases[idx] = &t
			}
		}
		x, y := rn.runBatchBoth(sb)
		j, dd := batchDiff(x, y)
		if j < 0 {
			sb, x, y, j, dd = b, inB, alone, i, d
		}
		res.Violate(common.Violation{Kind: "impl-violation", Oracle: strings.SplitN(dd, ":", 2)[0], Input: batchInput(sb),
			Key:    "batch:" + strings.SplitN(dd, ":", 2)[0] + ":" + b.Mode + ":" + strings.Join(sb.Cases[j].Lines, ";")[:min(120, len(strings.Join(sb.Cases[j].Lines, ";")))],
			Impl:   fmt.Sprintf("script %d of %d in one RunT call (T runs subtests: %s): verdict=%s FAIL-lines=%v", j, len(sb.Cases), b.Mode, x[j].Verdict, x[j].FailLines),
			Model:  fmt.Sprintf("the same script run alone with the same Params: verdict=%s FAIL-lines=%v", y[j].Verdict, y[j].FailLines),
			Detail: "property C01 evaluated directly on the implementation: " + dd + "\nlog of the script inside the batch:\n" + tail(x[j].Log, 1200)})
		return
	}
	// the model: runT_seq over the same files (work directories and environments as observed)
	toks := append([]string{"batch"}, cfgTokens(b.Cases[0])...)
	var jobs []string
	for i, c := range b.Cases {
		if inB[i].Work == "" || len(inB[i].Env) == 0 {
			res.Count("batch:model-not-asked (setup did not run)")
			return
		}
		jobs = append(jobs, hx(inB[i].Work)+"|"+strings.TrimPrefix(envToken(inB[i].Env), "env=")+"|"+common.Hex(c.fileBytes()))
	}
	toks = append(toks, "jobs="+strings.Join(jobs, ";"))
	rn.mu.Lock()
	ans := rn.m.Ask1(strings.Join(toks, " "))
	rn.mu.Unlock()
	if strings.Contains(ans, "racy=1") || strings.Contains(ans, "unmod=1") {
		res.Count("batch:model-racy-or-unmodelled-not-compared")
		return
	}
	var got []string
	for _, o := range inB {
		v := o.Verdict
		if v == "fail" {
			v = fmt.Sprintf("fail:%d", firstOr(o.FailLines, -1))
		}
		got = append(got, v)
	}
	if !strings.HasPrefix(ans, "verdicts="+strings.Join(got, ",")+" ") {
		res.Count("mismatch:batch-verdicts")
		res.Violate(common.Violation{Kind: "correspondence", Oracle: "batch-verdicts", Input: batchInput(b), Key: "batch-corr:" + b.Mode + ":" + strings.Join(key, "|")[:min(150, len(strings.Join(key, "|")))],
			Impl: "verdicts=" + strings.Join(got, ","), Model: "runT_seq: " + ans})
	}
}

func (rn *runner) batchMain(r *common.RNG, n int) {
	modes := []string{"seq", "parked", "free"}
	var bs []*Batch
	for i := 0; i < n; i++ {
		b := &Batch{Mode: modes[i%3], DL: []int{0, 2}[(i/3)%2], NoRoot: (i/6)%2 == 0}
		k := 2 + r.Intn(3)
		var first *Case
		for j := 0; j < k; j++ {
			var c *Case
			for try := 0; try < 20; try++ {
				c, _ = genConstructive(r.Fork(), fmt.Sprintf("B%04d_%d", i, j), false)
				c.Shadow = false
				if first != nil {
					c = paramsOf(first, c)
				}
				if ex := evaluate(c); ex.Known {
					break
				}
			}
			if first == nil {
				first = c
			}
			if r.Chance(1, 6) {
				c = nonCanonical(r, c)
			}
			b.Cases = append(b.Cases, c)
		}
		bs = append(bs, b)
	}
	// run (a few at a time: a batch runs several scripts itself), then judge in order
	type done struct{ inB, alone []*Obs }
	outs := make([]done, len(bs))
	var wg sync.WaitGroup
	sem := make(chan struct{}, 8)
	for i, b := range bs {
		wg.Add(1)
		sem <- struct{}{}
		go func(i int, b *Batch) {
			defer wg.Done()
			defer func() { <-sem }()
			x, y := rn.runBatchBoth(b)
			outs[i] = done{x, y}
		}(i, b)
	}
	wg.Wait()
	for i, b := range bs {
		rn.judgeBatchT(b, outs[i].inB, outs[i].alone)
	}
}

// normPaths replaces the name of the work directory (different in every run) by $WORK in what
// probes saw and in the contents of the final tree.
func normPaths(o *Obs) {
	if o.Work == "" {
		return
	}
	fix := func(tok string) string {
		if tok == "-" || tok == "" {
			return tok
		}
		raw, err := hexDecode(tok)
		if err != nil || !strings.Contains(raw, o.Work) {
			return tok
		}
		return hexs(strings.ReplaceAll(raw, o.Work, "$WORK"))
	}
	fixAll := func(e string, from int) string {
		f := strings.Split(e, "|")
		for i := from; i < len(f); i++ {
			parts := strings.Split(f[i], ",")
			for j := range parts {
				parts[j] = fix(parts[j])
			}
			f[i] = strings.Join(parts, ",")
		}
		return strings.Join(f, "|")
	}
	for i, p := range o.Probes {
		o.Probes[i] = fixAll(p, 1)
	}
	for i, e := range o.Tree {
		o.Tree[i] = fixAll(e, 3)
	}
}

func hexDecode(s string) (string, error) {
	b, err := hex.DecodeString(s)
	return string(b), err
}

package main

// The built cmd/testscript binary on batches of scripts: exit status 0 <-> no script failed.

import (
	"fmt"
	"os"
	"os/exec"
	"path/filepath"
	"strings"
	"sync"

	"verif/harness/common"
)

type batch struct {
	cases []*Case
	cont  bool
	exit  int
	out   string
	tag   string // "short-net": scripts whose guards use [short] / [net] (reported under their own oracle name)
}

func harnessDir() string {
	if r := os.Getenv("VERIF_ROOT"); r != "" {
		return filepath.Join(r, "harness")
	}
	d, _ := os.Getwd()
	return d
}

func (rn *runner) buildCLI() (string, error) {
	bin := filepath.Join(rn.f.Work, "testscript-cli")
	cmd := exec.Command("go", "build", "-o", bin, "github.com/rogpeppe/go-internal/cmd/testscript")
	cmd.Dir = harnessDir()
	out, err := cmd.CombinedOutput()
	if err != nil {
		return "", fmt.Errorf("%v: %s", err, out)
	}
	return bin, nil
}

func (rn *runner) runBatch(bin string, b *batch, dir string) {
	os.MkdirAll(dir, 0o777)
	var args []string
	if b.cont {
		args = append(args, "-continue")
	}
	for i, c := range b.cases {
		p := filepath.Join(dir, fmt.Sprintf("s%d.txtar", i))
		os.WriteFile(p, c.fileBytes(), 0o666)
		args = append(args, p)
	}
	cmd := exec.Command(bin, args...)
	cmd.Dir = dir
	out, err := cmd.CombinedOutput()
	b.out = string(out)
	b.exit = 0
	if err != nil {
		if ee, ok := err.(*exec.ExitError); ok {
			b.exit = ee.ExitCode()
		} else {
			b.exit = -1
		}
	}
	cleanup(dir)
}

func (rn *runner) cliMain(r *common.RNG, nBatch int) {
	bin, err := rn.buildCLI()
	if err != nil {
		rn.res.Notes = append(rn.res.Notes, "cmd/testscript could not be built; the exit-status part did not run: "+err.Error())
		rn.res.Violate(common.Violation{Kind: "correspondence", Oracle: "cli-build", Key: "cli-build", Input: map[string]string{}, Detail: err.Error()})
		return
	}
	var batches []*batch
	// corpus scripts first, one per batch, with and without -continue as recorded
	for _, c := range loadCorpus(rn.f.Corpus) {
		if c.Cmds || c.HasCond || c.Upd || c.Ree || c.Uniq || c.DL != 0 {
			continue
		}
		cc := *c
		cc.NoMain = true
		tag := ""
		if strings.HasPrefix(c.Note, "cli-short-net") {
			tag = "short-net"
		}
		batches = append(batches, &batch{cases: []*Case{&cc}, cont: c.Coe, tag: tag})
	}
	// [short] and [net] ask testing.Short(): the standalone command must answer them like any other
	// predefined condition (scripts in which every line meets its demand: exit status 0)
	for i, lines := range [][]string{
		{"[short] mkdir a", "[!short] mkdir b", "exists b", "! exists a"},
		{"[net] mkdir a", "[!net] mkdir b", "exists a", "! exists b"},
		{"[!short] [net] exec " + helperName + " echo ok", "stdout ok"},
		{"[linux] [short] exists nope"},
	} {
		batches = append(batches, &batch{cases: []*Case{{ID: fmt.Sprintf("shortnet%d", i), Kind: "cli", NoMain: true, Lines: lines}}, tag: "short-net"})
	}
	for i := 0; i < nBatch; i++ {
		b := &batch{cont: r.Chance(1, 2)}
		for j, k := 0, 1+r.Intn(4); j < k; j++ {
			c, _ := genConstructive(r.Fork(), fmt.Sprintf("b%04d_%d", i, j), true)
			c.Coe = b.cont
			b.cases = append(b.cases, c)
		}
		batches = append(batches, b)
	}
	var wg sync.WaitGroup
	sem := make(chan struct{}, 16)
	for i, b := range batches {
		wg.Add(1)
		sem <- struct{}{}
		go func(i int, b *batch) {
			defer wg.Done()
			defer func() { <-sem }()
			rn.runBatch(bin, b, filepath.Join(rn.f.Work, "cli", fmt.Sprintf("b%d", i)))
		}(i, b)
	}
	wg.Wait()
	for _, b := range batches {
		rn.judgeBatch(bin, b)
	}
}

func (rn *runner) cliModel(b *batch) string {
	toks := append([]string{"cli"}, cfgTokens(b.cases[0])...)
	// the initial variables of a script but WORK and TMPDIR, which the driver derives from the job
	env := []string{"PATH=" + os.Getenv("PATH")}
	for _, kv := range envTemplate {
		if !strings.HasPrefix(kv, "WORK=") && !strings.HasPrefix(kv, "TMPDIR=") && !strings.HasPrefix(kv, "PATH=") {
			env = append(env, kv)
		}
	}
	toks = append(toks, envToken(env))
	var jobs []string
	for i, c := range b.cases {
		jobs = append(jobs, hx(fmt.Sprintf("/W/script-s%d", i))+"|"+common.Hex(c.fileBytes()))
	}
	toks = append(toks, "jobs="+strings.Join(jobs, ";"))
	rn.mu.Lock()
	defer rn.mu.Unlock()
	return rn.m.Ask1(strings.Join(toks, " "))
}

// expectedExit: from the independent evaluator; known=false when a script is not judged
func expectedExit(b *batch) (exit int, known bool, verdicts []string) {
	known = true
	for _, c := range b.cases {
		ex := evaluate(c)
		if !ex.Known {
			known = false
			verdicts = append(verdicts, "?")
			continue
		}
		verdicts = append(verdicts, ex.Verdict)
		if ex.Verdict == "fail" {
			exit = 1
		}
	}
	return
}

func (rn *runner) judgeBatch(bin string, b *batch) {
	res := rn.res
	res.Count("cli:batches")
	res.Count(fmt.Sprintf("cli:exit=%d", b.exit))
	if b.cont {
		res.Count("cli:-continue")
	}
	var scripts []string
	for _, c := range b.cases {
		scripts = append(scripts, string(c.fileBytes()))
	}
	res.Case("cli|"+strings.Join(scripts, "\x00"), true)
	in := map[string]string{"continue": fmt.Sprint(b.cont)}
	for i, c := range b.cases {
		in[fmt.Sprintf("script%d", i)] = string(c.fileBytes())
	}
	// the replay of a batch failure is its first failing script as a RunT case
	want, known, verdicts := expectedExit(b)
	if known && want != b.exit {
		// which script is to blame: the one the evaluator says fails (or passes) differently
		var blame *Case
		for _, c := range b.cases {
			one := &batch{cases: []*Case{c}, cont: b.cont}
			rn.runBatch(bin, one, filepath.Join(rn.f.Work, "cli", "blame"))
			w, k, _ := expectedExit(one)
			if k && w != one.exit {
				blame = c
				break
			}
		}
		if blame == nil {
			blame = b.cases[0]
		}
		shr := shrinkCase(blame, func(t *Case) bool {
			one := &batch{cases: []*Case{t}, cont: t.Coe}
			w, k, _ := expectedExit(one)
			if !k {
				return false
			}
			rn.runBatch(bin, one, filepath.Join(rn.f.Work, "cli", "shrink"))
			return w != one.exit
		})
		one := &batch{cases: []*Case{shr}, cont: shr.Coe}
		rn.runBatch(bin, one, filepath.Join(rn.f.Work, "cli", "final"))
		w, _, vs := expectedExit(one)
		inp := rn.input(shr)
		inp["cli"] = fmt.Sprintf("testscript%s s0.txtar", map[bool]string{true: " -continue", false: ""}[shr.Coe])
		key := "cli-exit:" + strings.Join(shr.Lines, ";")
		oracle := "cli-exit-status"
		if b.tag == "short-net" {
			key, oracle = "cli-short-net-crash:"+strings.Join(shr.Lines, ";"), "cli-short-net-crash"
		}
		res.Violate(common.Violation{Kind: "impl-violation", Oracle: oracle, Input: inp, Key: key,
			Impl:   fmt.Sprintf("exit status %d\n%s", one.exit, tail(one.out, 800)),
			Model:  fmt.Sprintf("independent evaluation: verdict %v, so exit status %d", vs, w),
			Detail: fmt.Sprintf("cmd/testscript exits 0 exactly when no script failed; batch verdicts by evaluation %v, exit status %d", verdicts, b.exit)})
	}
	if b.tag == "short-net" {
		res.Count("cli:short-net-scripts")
		if known && want != b.exit {
			return // reported above under its own name; the model describes the repaired behaviour
		}
	}
	ans := rn.cliModel(b)
	if strings.Contains(ans, "racy=1") || strings.Contains(ans, "unmod=1") {
		res.Count("cli:model-racy-or-unmodelled-not-compared")
	} else if !strings.HasPrefix(ans, fmt.Sprintf("exit=%d ", b.exit)) {
		// racy / unmodelled scripts are not generated for batches
		res.Count("mismatch:cli-exit")
		res.Violate(common.Violation{Kind: "correspondence", Oracle: "cli-exit", Input: in, Key: "cli:" + strings.Join(scripts, "|")[:min(150, len(strings.Join(scripts, "|")))],
			Impl: fmt.Sprintf("exit=%d", b.exit), Model: ans, Detail: tail(b.out, 800)})
	}
}

package main

// Script files that are not in the canonical form txtar.Format writes.  Format(Parse(x)) differs
// from x exactly when (a) x is not empty and does not end in a newline (Parse completes the last
// chunk, also a marker line at the very end), or (b) a marker line is not spelled
// "-- " + name + " --\n": blanks or tabs around the name (Parse trims them) or a carriage
// return in front of the newline (Parse drops it).  nonCanonical respells a case in these ways,
// keeping txtar.Parse of the file what it was, so that everything known about the case by
// construction stays true while every byte-level shortcut ("the file can be written back from
// the parsed archive") becomes visible.

import (
	"bytes"
	"encoding/hex"
	"reflect"

	"github.com/rogpeppe/go-internal/txtar"

	"verif/harness/common"
)

func isMarkerLine(l []byte) bool {
	l = bytes.TrimSuffix(l, []byte("\r"))
	return bytes.HasPrefix(l, []byte("-- ")) && bytes.HasSuffix(l, []byte(" --")) && len(l) >= 6 && len(bytes.TrimSpace(l[3:len(l)-3])) > 0
}

// respell returns a non-canonical text with the same parse, or nil when it found none.
func respell(r *common.RNG, text []byte) []byte {
	want := txtar.Parse(text)
	for try := 0; try < 12; try++ {
		var out []byte
		rest := text
		changed := false
		// lines in front of the first marker belong to the comment and are left alone
		for len(rest) > 0 {
			var line []byte
			nl := false
			if i := bytes.IndexByte(rest, '\n'); i >= 0 {
				line, rest, nl = rest[:i], rest[i+1:], true
			} else {
				line, rest = rest, nil
			}
			if isMarkerLine(line) && r.Chance(1, 2) {
				name := bytes.TrimSpace(line[3 : len(bytes.TrimSuffix(line, []byte("\r")))-3])
				l := pick(r, []string{" ", "  ", " \t", "   ", " "}) // "-- " must stay a prefix
				rr := pick(r, []string{" ", "  ", "\t ", "   ", " "}) // " --" must stay a suffix
				line = []byte("--" + l + string(name) + rr + "--")
				if r.Chance(1, 3) && nl {
					line = append(line, '\r')
				}
				changed = true
			}
			out = append(out, line...)
			if nl {
				out = append(out, '\n')
			}
		}
		if r.Chance(1, 2) && len(out) > 0 && out[len(out)-1] == '\n' {
			cut := out[:len(out)-1]
			if r.Chance(1, 4) && isMarkerLine(lastLine(cut)) {
				cut = append(append([]byte{}, cut...), '\r') // "-- name --\r" at the very end is a marker line too
			}
			out, changed = cut, true
		}
		if !changed || bytes.Equal(out, text) {
			continue
		}
		if got := txtar.Parse(out); sameArchive(got, want) && !bytes.Equal(txtar.Format(got), out) {
			return out
		}
	}
	return nil
}

func lastLine(b []byte) []byte {
	if i := bytes.LastIndexByte(b, '\n'); i >= 0 {
		return b[i+1:]
	}
	return b
}

func sameArchive(a, b *txtar.Archive) bool {
	if !bytes.Equal(a.Comment, b.Comment) || len(a.Files) != len(b.Files) {
		return false
	}
	for i := range a.Files {
		if a.Files[i].Name != b.Files[i].Name || !bytes.Equal(a.Files[i].Data, b.Files[i].Data) {
			return false
		}
	}
	return reflect.DeepEqual(len(a.Files), len(b.Files))
}

// nonCanonical: the same case with its file respelled (unchanged when no respelling applies).
func nonCanonical(r *common.RNG, c *Case) *Case {
	t := *c
	t.RawHex = ""
	if raw := respell(r, t.fileBytes()); raw != nil {
		t.RawHex = hex.EncodeToString(raw)
	}
	return &t
}

func isCanonical(text []byte) bool { return bytes.Equal(txtar.Format(txtar.Parse(text)), text) }

package main

// The helper program that scripts run with `exec tshelper ...`.  It is this very binary:
// testscript.Main copies it as "tshelper" into a directory it puts on PATH and dispatches on
// os.Args[0].  Its behaviour is defined a second time in the Coq model (TsState.v,
// helper_run); keep the two in step.

import (
	"encoding/hex"
	"fmt"
	"io"
	"os"
	"sort"
	"strconv"
	"strings"
	"time"
)

const helperName = "tshelper"

func helperUsage() {
	fmt.Fprint(os.Stderr, "tshelper: usage\n")
	os.Exit(2)
}

func helperWrite(file string, data string) {
	if err := os.WriteFile(file, []byte(data), 0o666); err != nil {
		fmt.Fprint(os.Stderr, "tshelper: write failed\n")
		os.Exit(1)
	}
}

// helperRet is what testscript.RunMain registers: a command that RETURNS its status.  `ret N`
// returns N (any integer in [-1000000, 1000000]: negative, above 255); every other subcommand
// is helperMain, which exits by itself or returns 0.
func helperRet() int {
	args := os.Args[1:]
	if len(args) >= 1 && args[0] == "ret" {
		if len(args) != 2 {
			helperUsage()
		}
		w := args[1]
		digits := strings.TrimPrefix(w, "-")
		if digits == "" {
			helperUsage()
		}
		for _, c := range digits {
			if c < '0' || c > '9' {
				helperUsage()
			}
		}
		n, err := strconv.ParseInt(w, 10, 64)
		if err != nil || n > 1000000 || n < -1000000 {
			helperUsage()
		}
		return int(n)
	}
	helperMain()
	return 0
}

func helperMain() {
	args := os.Args[1:]
	if len(args) == 0 {
		helperUsage()
	}
	a := args[1:]
	switch args[0] {
	case "exit":
		if len(a) != 1 || a[0] == "" {
			helperUsage()
		}
		for _, c := range a[0] {
			if c < '0' || c > '9' {
				helperUsage()
			}
		}
		n, err := strconv.ParseUint(a[0], 10, 64)
		if err != nil || n > 255 {
			helperUsage()
		}
		os.Exit(int(n))
	case "echo":
		fmt.Print(strings.Join(a, " ") + "\n")
	case "echoerr":
		fmt.Fprint(os.Stderr, strings.Join(a, " ")+"\n")
	case "fail":
		fmt.Fprint(os.Stderr, strings.Join(a, " ")+"\n")
		os.Exit(1)
	case "both":
		if len(a) != 2 {
			helperUsage()
		}
		fmt.Print(a[0] + "\n")
		fmt.Fprint(os.Stderr, a[1]+"\n")
	case "lines":
		for _, w := range a {
			fmt.Print(w + "\n")
		}
	case "lines8":
		// the first word followed by a byte that is not UTF-8, the other words as lines
		if len(a) < 1 {
			helperUsage()
		}
		fmt.Print(a[0] + "\xff\n")
		for _, w := range a[1:] {
			fmt.Print(w + "\n")
		}
	case "print":
		if len(a) != 1 {
			helperUsage()
		}
		fmt.Print(a[0])
	case "printerr":
		if len(a) != 1 {
			helperUsage()
		}
		fmt.Fprint(os.Stderr, a[0])
	case "unhex", "unhexerr":
		// the bytes spelled by one word of lower-case hexadecimal, to stdout / stderr
		if len(a) != 1 || len(a[0])%2 != 0 {
			helperUsage()
		}
		for _, c := range a[0] {
			if !(c >= '0' && c <= '9' || c >= 'a' && c <= 'f') {
				helperUsage()
			}
		}
		raw, err := hex.DecodeString(a[0])
		if err != nil {
			helperUsage()
		}
		if args[0] == "unhex" {
			os.Stdout.Write(raw)
		} else {
			os.Stderr.Write(raw)
		}
	case "cat":
		if len(a) != 0 {
			helperUsage()
		}
		io.Copy(os.Stdout, os.Stdin)
	case "env":
		if len(a) != 1 {
			helperUsage()
		}
		fmt.Print(os.Getenv(a[0]) + "\n")
	case "environ":
		if len(a) != 0 {
			helperUsage()
		}
		env := os.Environ()
		sort.Strings(env)
		for _, kv := range env {
			fmt.Print(kv + "\n")
		}
	case "pwd":
		if len(a) != 0 {
			helperUsage()
		}
		d, err := os.Getwd()
		if err != nil {
			os.Exit(1)
		}
		fmt.Print(d + "\n")
	case "write":
		if len(a) < 1 {
			helperUsage()
		}
		helperWrite(a[0], strings.Join(a[1:], " ")+"\n")
	case "writeraw":
		if len(a) != 2 {
			helperUsage()
		}
		helperWrite(a[0], a[1])
	case "sleep":
		if len(a) != 0 {
			helperUsage()
		}
		time.Sleep(10 * time.Second)
	default:
		helperUsage()
	}
}

package main

// Talking to the extracted Coq model (bin/model_tsrun).

import (
	"fmt"
	"path/filepath"
	"runtime"
	"sort"
	"strconv"
	"strings"

	"verif/harness/common"
)

// MObs is the model's answer for one case, in the same projection as Obs.
type MObs struct {
	Verdict   string // pass | skip | fail
	FailLine  int
	FailLines []int
	Racy      bool
	Unmod     bool
	Change    string // untouched | error | <hex of the new file>
	Tree      []string
	Probes    []string
	Raw       string
}

// hostConds: the value of every predefined condition of the universe (conds.go) on this host, by
// the independent reading of doc.go; measureHostConds checks the implementation against it.
var hostConds = map[string]bool{}

// the host facts the model takes as a table (GOOS, GOARCH and the toolchain version are separate keys)
var hostFlagNames = []string{"short", "net", "link", "symlink", "gc", "gccgo"}

var helperDir string

func hx(s string) string { return common.Hex([]byte(s)) }

func b01(b bool) string {
	if b {
		return "1"
	}
	return "0"
}

func cfgTokens(c *Case) []string {
	toks := []string{"coe=" + b01(c.Coe), "ree=" + b01(c.Ree), "uniq=" + b01(c.Uniq), "upd=" + b01(c.Upd), "dl=" + b01(c.DL == 1),
		"hdir=" + hx(helperDir), "helper=" + hx(helperName)}
	if c.NoMain {
		toks = append(toks, "main=-")
	} else {
		toks = append(toks, "main="+hx(helperName))
	}
	var hc []string
	for _, n := range hostFlagNames {
		hc = append(hc, hx(n)+":"+b01(hostConds[n]))
	}
	toks = append(toks, "hc="+strings.Join(hc, ","), "goos="+hx(runtime.GOOS), "goarch="+hx(runtime.GOARCH), fmt.Sprintf("gominor=%d", toolMinor))
	if c.HasCond {
		cc := []string{c.CondDflt}
		for _, e := range c.Conds {
			cc = append(cc, hx(e.Name)+":"+e.Res)
		}
		toks = append(toks, "cc="+strings.Join(cc, ","))
	} else {
		toks = append(toks, "cc=none")
	}
	if c.Cmds {
		cmds := hx("probe") + ":p," + hx("failcmd") + ":f," + hx("negok") + ":n"
		if c.Shadow {
			for _, n := range shadowNames {
				cmds += "," + hx(n) + ":p"
			}
		}
		toks = append(toks, "cmds="+cmds)
	} else {
		toks = append(toks, "cmds=-")
	}
	var w []string
	for _, v := range watchVars {
		w = append(w, hx(v))
	}
	toks = append(toks, "watch="+strings.Join(w, ","))
	return toks
}

func envToken(env []string) string {
	if len(env) == 0 {
		return "env=-"
	}
	var e []string
	for _, kv := range env {
		e = append(e, hx(kv))
	}
	return "env=" + strings.Join(e, ",")
}

func modelRequest(c *Case, work string, env []string) string {
	toks := append([]string{"run"}, cfgTokens(c)...)
	toks = append(toks, "work="+hx(work), envToken(env), "file="+common.Hex(c.fileBytes()))
	return strings.Join(toks, " ")
}

func parseModel(ans string) *MObs {
	m := &MObs{Raw: ans}
	kv := map[string]string{}
	for _, t := range strings.Fields(ans) {
		if i := strings.Index(t, "="); i > 0 {
			kv[t[:i]] = t[i+1:]
		}
	}
	v := kv["verdict"]
	if strings.HasPrefix(v, "fail:") {
		m.Verdict = "fail"
		m.FailLine, _ = strconv.Atoi(v[5:])
	} else {
		m.Verdict = v
	}
	if kv["fails"] != "-" && kv["fails"] != "" {
		for _, s := range strings.Split(kv["fails"], ",") {
			n, _ := strconv.Atoi(s)
			m.FailLines = append(m.FailLines, n)
		}
	}
	m.Racy = kv["racy"] == "1"
	m.Unmod = kv["unmod"] == "1"
	m.Change = kv["change"]
	if t := kv["tree"]; t != "-" && t != "" {
		for _, e := range strings.Split(t, ";") {
			f := strings.Split(e, ":")
			if len(f) != 4 {
				continue
			}
			data := f[3]
			m.Tree = append(m.Tree, fmt.Sprintf("%s|%s|%s|%s", string(common.UnHex(f[0])), f[1], f[2], data))
		}
		sort.Strings(m.Tree)
	}
	if p := kv["probes"]; p != "-" && p != "" {
		for _, e := range strings.Split(p, ";") {
			f := strings.Split(e, ":")
			if len(f) != 9 {
				continue
			}
			// line:neg:args:cd:out:err:in:vars:nbg  ->  neg|args|cd|out|err|vars|nbg (cd cleaned by the caller)
			cd := hexs(filepath.Clean(string(common.UnHex(f[3]))))
			m.Probes = append(m.Probes, fmt.Sprintf("%v|%s|%s|%s|%s|%s|%s", f[1] == "1", f[2], cd, f[4], f[5], f[7], f[8]))
		}
	}
	return m
}

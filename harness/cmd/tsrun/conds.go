package main

// An independent reading of the predefined conditions of testscript/doc.go:
//
//	[short] testing.Short()            [net] external network      [link] [symlink] OS support
//	[exec:prog]                        [gc] [gccgo] the compiler   [go1.x] "the Go version is 1.x or later"
//	[unix] "would match the 'unix' build constraint"   any known GOOS / GOARCH value: the target's
//
// written from the documentation and the Go release notes, not from the implementation: the
// lists of operating systems and architectures are the ones `go tool dist list` and go/build
// document, the toolchain version is runtime.Version().  It serves three purposes: (1) a direct
// oracle -- the value the implementation gives every name of the universe below, under both
// polarities, must be this one (measureHostConds); (2) the evaluator of eval.go judges guarded
// lines with it; (3) it supplies the host facts the Coq model takes as data (GOOS, GOARCH, the
// minor version of the toolchain, short / net / link / symlink, the compiler).

import (
	"fmt"
	"regexp"
	"runtime"
	"strconv"
	"strings"
	"testing"
)

var docGOOS = strings.Fields("aix android darwin dragonfly freebsd hurd illumos ios js linux nacl netbsd openbsd plan9 solaris windows zos")
var docUnix = strings.Fields("aix android darwin dragonfly freebsd hurd illumos ios linux netbsd openbsd solaris")
var docGOARCH = strings.Fields("386 amd64 amd64p32 arm armbe arm64 arm64be loong64 mips mipsle mips64 mips64le mips64p32 mips64p32le ppc ppc64 ppc64le riscv riscv64 s390 s390x sparc sparc64 wasm")

var goVersionName = regexp.MustCompile(`^go([1-9][0-9]*)\.([1-9][0-9]*)$`)

// toolMinor: N of the toolchain go1.N that built this binary (0 = cannot tell, e.g. a devel build)
var toolMinor = func() int {
	m := regexp.MustCompile(`^go1\.([0-9]+)`).FindStringSubmatch(runtime.Version())
	if m == nil {
		return 0
	}
	n, _ := strconv.Atoi(m[1])
	return n
}()

func inList(xs []string, x string) bool {
	for _, y := range xs {
		if x == y {
			return true
		}
	}
	return false
}

// indepCond: the value of a predefined condition on this host; known=false for a name that is
// not a predefined condition (or whose value this reading cannot tell)
func indepCond(name string) (val, known bool) {
	switch {
	case name == "short":
		return testing.Short(), true
	case name == "net":
		// the external network may be used unless -short is given
		return !testing.Short(), runtime.GOOS == "linux"
	case name == "link" || name == "symlink":
		return true, runtime.GOOS == "linux"
	case name == "unix":
		return inList(docUnix, runtime.GOOS), true
	case name == "gc" || name == "gccgo":
		return name == runtime.Compiler, true
	case inList(docGOOS, name):
		return name == runtime.GOOS, true
	case inList(docGOARCH, name):
		return name == runtime.GOARCH, true
	}
	if m := goVersionName.FindStringSubmatch(name); m != nil {
		if toolMinor == 0 {
			return false, false
		}
		minor, err := strconv.Atoi(m[2])
		if err != nil {
			return false, true // a number too large for an int: later than any release
		}
		return m[1] == "1" && minor <= toolMinor, true
	}
	return false, false
}

// condUniverse: the predefined condition names the runner exercises
func condUniverse() []string {
	var out []string
	out = append(out, "short", "net", "link", "symlink", "unix", "gc", "gccgo")
	out = append(out, docGOOS...)
	out = append(out, docGOARCH...)
	seen := map[int]bool{}
	add := func(n int) {
		if n >= 1 && !seen[n] {
			seen[n] = true
			out = append(out, fmt.Sprintf("go1.%d", n))
		}
	}
	for n := 1; n <= 40; n++ {
		add(n)
	}
	for d := -3; d <= 3; d++ {
		add(toolMinor + d)
	}
	for _, n := range []int{99, 100, 101, 123, 199, 200, 229, 230, 239, 240, 999, 1000, 1234, 10 * toolMinor, 10*toolMinor + 9, 100 * toolMinor} {
		add(n)
	}
	out = append(out, "go2.1", "go2.23", "go3.1", "go10.1", "go11.23", "go1.99999999999999999999")
	return out
}

// names that look like predefined conditions but are not: they go to Params.Condition, and
// without it they are unknown conditions (the line fails)
var nearCondNames = []string{"go1.0", "go1.05", "go1", "go1.x", "go01.2", "Go1.2", "go1.2.3", "golang", "verbose", "Linux", "amd65", "unixy", "shorter", "go1.", "go.1"}

// condPools: names (with polarity) that hold / do not hold on this host, for the generators
func condPools() (trueC, falseC []string) {
	for _, n := range condUniverse() {
		v, known := indepCond(n)
		if !known {
			continue
		}
		if v {
			trueC = append(trueC, n)
			falseC = append(falseC, "!"+n)
		} else {
			falseC = append(falseC, n)
			trueC = append(trueC, "!"+n)
		}
	}
	return
}

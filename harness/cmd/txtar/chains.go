// Bodies that are ALREADY quoted, and chains of Quote and Unquote (C14).
//
// "For every data that Quote accepts, Unquote(Quote(data)) equals data" quantifies over all
// data, in particular over data every line of which already starts with '>' (a mail-style
// quotation, the output of an earlier Quote, a file taken out of another archive).  A Quote
// that treats such data specially stops being injective.  This file makes sure the generators
// reach that region in bulk rather than by a few short strings of the exhaustive sweep:
//
//	(a) genQuotedBody: texts all of whose lines (or all but one, or all but the first / last)
//	    begin with one to three '>' — built from the marker look-alike lines of main.go, with
//	    LF / CRLF endings, with and without final newline, occasionally not UTF-8;
//	(b) chains: for a body d the derived data Quote(d), Quote(Quote(d)), Quote^3(d),
//	    Unquote(d), Unquote(Unquote(d)) are given to `one` like any other input (all oracles,
//	    both models, the stability checks);
//	(c) the oracle quote/chain-inverse, evaluated on EVERY case of the run: for k = 1..3,
//	    Unquote^k(Quote^k(d)) == d with every intermediate Unquote(Quote^j(d)) == Quote^(j-1)(d),
//	    and every Quote^j(d) clean (NeedsQuote false).  (The converse law Quote(Unquote(x)) == x is
//	    not part of the property and is not asserted; Unquote's results are inputs only.)
package main

import (
	"bytes"

	"github.com/rogpeppe/go-internal/txtar"

	"verif/harness/common"
)

var quotedAtoms = []string{"", " said", " this", "a", ">", ">>", " ", "-- a --", " -- a --", "-- a --\r", "\r", "> nested reply", "é", "%s", "\t", "x>y", "--", "-- --"}

// genQuotedBody: see (a).
func genQuotedBody(r *common.RNG) []byte {
	n := 1 + r.Intn(5)
	odd := -1 // index of a line that does NOT start with '>'
	switch r.Intn(6) {
	case 0:
		odd = r.Intn(n)
	case 1:
		odd = 0
	case 2:
		odd = n - 1
	}
	var b []byte
	for i := 0; i < n; i++ {
		if i != odd {
			for k, d := 0, 1+r.Intn(3); k < d; k++ {
				b = append(b, '>')
			}
		}
		if r.Chance(1, 2) {
			b = append(b, common.Pick(r, quotedAtoms)...)
		} else {
			b = append(b, genLine(r)...)
		}
		if i < n-1 || !r.Chance(1, 8) {
			if r.Chance(1, 8) {
				b = append(b, '\r')
			}
			b = append(b, '\n')
		}
	}
	if r.Chance(1, 30) {
		b = append([]byte{0xff}, b...)
	}
	return b
}

// chainFails is the oracle quote/chain-inverse of (c).
func chainFails(x []byte) bool {
	cur := x
	var levels [][]byte
	for k := 1; k <= 3; k++ {
		q, err := txtar.Quote(cur)
		if err != nil || len(cur) == 0 {
			break
		}
		if txtar.NeedsQuote(q) {
			return true
		}
		levels = append(levels, cur)
		cur = q
		// all the way back down
		back := cur
		for j := len(levels) - 1; j >= 0; j-- {
			u, err := txtar.Unquote(back)
			if err != nil || !bytes.Equal(u, levels[j]) {
				return true
			}
			back = u
		}
	}
	return false
}

// chain gives d and everything derived from it by up to three Quotes / two Unquotes to one.
func chain(d []byte, one func(x []byte, tag string)) {
	one(d, "quoted-body")
	cur := d
	for k := 0; k < 3; k++ {
		q, err := txtar.Quote(cur)
		if err != nil || len(q) == 0 {
			break
		}
		one(q, "quote-chain")
		cur = q
	}
	cur = d
	for k := 0; k < 2; k++ {
		u, err := txtar.Unquote(cur)
		if err != nil || len(u) == 0 {
			break
		}
		one(u, "unquote-chain")
		cur = u
	}
}

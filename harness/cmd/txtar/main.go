// Command txtar is the correspondence + oracle runner for C03 (Parse/Format) and
// C14 (NeedsQuote/Quote/Unquote): it runs /repo's txtar package and the extracted
// Coq model on the same inputs and compares projected observables, and it
// evaluates the property itself on the implementation with oracles that do not
// use the model (round trips, golang.org/x/tools/txtar).
//
// The implementation is compared against BOTH models of the Coq development: the
// line-based one the theorems are stated about (parse, needsquote, ...) and the
// statement-level one that follows archive.go index by index (parseidx,
// needsquoteidx; PANIC / OUTOFFUEL are observable answers).  For every case the
// model is also asked "holds <hex>": the executable form of the property statement,
// evaluated on the model itself; an answer other than "true" is a witness that the
// model (e.g. with a regenerated constant) violates its own theorem.
package main

import (
	"bytes"
	"fmt"
	"os"
	"path/filepath"
	"sort"
	"strconv"
	"strings"
	"time"
	"unicode/utf8"

	"github.com/rogpeppe/go-internal/txtar"
	xtxtar "golang.org/x/tools/txtar"

	"verif/harness/common"
)

var prop string

// skipModel: evaluate the direct oracles only (set by the guided search for most
// candidates that show no new behaviour; the model comparison is the slower part)
var skipModel bool

func showArchive(a *txtar.Archive) string {
	parts := []string{"A", common.Hex(a.Comment), fmt.Sprint(len(a.Files))}
	for _, f := range a.Files {
		parts = append(parts, common.Hex([]byte(f.Name)), common.Hex(f.Data))
	}
	return strings.Join(parts, " ")
}

func archiveReq(a *txtar.Archive) string {
	parts := []string{common.Hex(a.Comment)}
	for _, f := range a.Files {
		parts = append(parts, common.Hex([]byte(f.Name)), common.Hex(f.Data))
	}
	return strings.Join(parts, " ")
}

func implParse(x []byte) string {
	return common.Safely(func() string { return showArchive(txtar.Parse(x)) })
}
func implReparse(x []byte) string {
	return common.Safely(func() string { return showArchive(txtar.Parse(txtar.Format(txtar.Parse(x)))) })
}
func refParse(x []byte) string {
	return common.Safely(func() string { return showArchive(xtxtar.Parse(x)) })
}
func implNeedsQuote(x []byte) string {
	return common.Safely(func() string { return fmt.Sprint(txtar.NeedsQuote(x)) })
}
func showOpt(b []byte, err error) string {
	if err != nil {
		return "err"
	}
	return "ok " + common.Hex(b)
}
func implQuote(x []byte) string {
	return common.Safely(func() string { return showOpt(txtar.Quote(x)) })
}
func implUnquote(x []byte) string {
	return common.Safely(func() string { return showOpt(txtar.Unquote(x)) })
}

// ---- Go-side oracles (no model involved)

// oneFileChanges: storing x as a file body changes how the archive parses.
func oneFileChanges(x []byte) (res bool, panicked bool) {
	defer func() {
		if recover() != nil {
			panicked = true
		}
	}()
	a := &txtar.Archive{Files: []txtar.File{{Name: "n", Data: x}}}
	b := txtar.Parse(txtar.Format(a))
	want := x
	if len(x) > 0 && x[len(x)-1] != '\n' {
		want = append(append([]byte{}, x...), '\n')
	}
	if len(b.Comment) != 0 || len(b.Files) != 1 || b.Files[0].Name != "n" || !bytes.Equal(b.Files[0].Data, want) {
		return true, false
	}
	return false, false
}

// an independent, line-based reading of "contains a file marker line" written
// from the format description (used only as an oracle for NeedsQuote).
func hasMarkerLine(x []byte) bool {
	for _, l := range bytes.SplitAfter(x, []byte("\n")) {
		l = bytes.TrimSuffix(l, []byte("\n"))
		l = bytes.TrimSuffix(l, []byte("\r"))
		if len(l) >= 6 && bytes.HasPrefix(l, []byte("-- ")) && bytes.HasSuffix(l, []byte(" --")) &&
			strings.TrimSpace(string(l[3:len(l)-3])) != "" {
			return true
		}
	}
	return false
}

func wfName(n string) bool {
	return n != "" && strings.TrimSpace(n) == n && !strings.Contains(n, "\n")
}
func wfText(t []byte) bool {
	return (len(t) == 0 || t[len(t)-1] == '\n') && !hasMarkerLine(t)
}
func wfArchive(a *txtar.Archive) bool {
	if !wfText(a.Comment) {
		return false
	}
	for _, f := range a.Files {
		if !wfName(f.Name) || !wfText(f.Data) {
			return false
		}
	}
	return true
}

// ---- generators

var sigma03 = []byte{'-', ' ', 'a', '\n', '\r'}
var sigma14 = []byte{'-', ' ', 'a', '\n', '\r', '>', 0xff}

func enumerate(sigma []byte, maxLen int, f func([]byte)) {
	buf := make([]byte, maxLen)
	var rec func(n, i int)
	rec = func(n, i int) {
		if i == n {
			f(buf[:n])
			return
		}
		for _, c := range sigma {
			buf[i] = c
			rec(n, i+1)
		}
	}
	for n := 0; n <= maxLen; n++ {
		rec(n, 0)
	}
}

var nameAtoms = []string{"a", "b/c.txt", "x y", "-", "--", "é", " ", " ", "　", "\u0085", " ", "\t", "\xff", "\xe2\x80", "a.go", "-- q --", ">",
	"%", "%s", "%d", "%%", "%!", "%20", "100%.txt", "50% done", "%v%", "a%"}
var lineAtoms = []string{"hello", "", "-- 100%.txt --", "-- a%20b --", "-- %s --", "-- %d%% --", "-- 50% done --", "-- a --", "--a --", "-- a--", "-- --", "--  --", "--   --", "--   --", "-- 　x  --",
	"-- a -- ", " -- a --", "--", "-- ", " --", "-- -", "- --", ">", ">-- a --", "x -- a --", "-- a --x", "-- a b --", "-- \t --", "-- a\r --", "\r", "-- a --\r", "-- \xff --"}
var eols = []string{"\n", "\n", "\n", "\r\n", "\r\n", "\r\r\n", "\r"}

func genName(r *common.RNG) string {
	n := r.Intn(3) + 1
	s := ""
	for i := 0; i < n; i++ {
		s += common.Pick(r, nameAtoms)
	}
	return s
}

func genLine(r *common.RNG) string {
	switch r.Intn(10) {
	case 0, 1, 2:
		return "-- " + genName(r) + " --"
	case 3:
		return "--" + strings.Repeat(" ", r.Intn(3)) + genName(r) + strings.Repeat(" ", r.Intn(3)) + "--"
	default:
		return common.Pick(r, lineAtoms)
	}
}

// byte sequences that editors and tools put in front of a text (byte-order marks, a NUL,
// a form feed): data to Parse like any other byte
var prefixes = []string{"\xef\xbb\xbf", "\xef\xbb\xbf", "\xff\xfe", "\xfe\xff", "\x00", "\f", "\ufeff\ufeff", "\xef\xbb"}

func genText(r *common.RNG) []byte {
	n := r.Intn(7)
	var b []byte
	if r.Chance(1, 12) {
		b = append(b, common.Pick(r, prefixes)...)
	}
	for i := 0; i < n; i++ {
		b = append(b, genLine(r)...)
		if i < n-1 || r.Chance(3, 4) {
			b = append(b, common.Pick(r, eols)...)
		}
	}
	return b
}

func genRandom(r *common.RNG) []byte {
	n := r.Intn(40)
	b := make([]byte, n)
	for i := range b {
		switch r.Intn(6) {
		case 0:
			b[i] = byte(r.Intn(256))
		default:
			b[i] = "-- \n\ra>\t"[r.Intn(8)]
		}
	}
	return b
}

// a well-formed archive by construction (checked with wfArchive before use)
func genWF(r *common.RNG) *txtar.Archive {
	wfLines := []string{"hello", "\ufeffhello", "\ufeff", "-- a --\rjunk", "-- a\rb --", "-- a --\r\r", "x\ry", "\r", "-- \xff --x", "--a --", "-- --", "--  --", " -- a --", "-- a -- x", ">", "", "é ", "--"}
	text := func() []byte {
		var b []byte
		for i, n := 0, r.Intn(4); i < n; i++ {
			b = append(b, common.Pick(r, wfLines)...)
			b = append(b, '\n')
		}
		return b
	}
	a := &txtar.Archive{Comment: text()}
	for i, n := 0, r.Intn(4); i < n; i++ {
		name := strings.TrimSpace(genName(r))
		if name == "" {
			name = "f"
		}
		a.Files = append(a.Files, txtar.File{Name: name, Data: text()})
	}
	return a
}

// ---- the run

type runner struct {
	f   *common.Flags
	res *common.Result
	m   *common.Model
}

type pending struct {
	x    []byte
	tag  string
	reqs []string // model requests
	impl []string // implementation answers, same order
	fn   []string // compared function names
}

func (rn *runner) flush(batch []pending) {
	var reqs []string
	for _, p := range batch {
		reqs = append(reqs, p.reqs...)
	}
	ans, err := rn.m.Ask(reqs)
	if err != nil {
		rn.res.Notes = append(rn.res.Notes, "model error: "+err.Error())
		rn.res.Violate(common.Violation{Kind: "correspondence", Oracle: "model-process", Key: "model-died", Detail: err.Error(), Input: map[string]string{}})
		return
	}
	k := 0
	for _, p := range batch {
		for i := range p.reqs {
			if ans[k] != p.impl[i] {
				rn.mismatch(p, i, ans[k])
			}
			k++
		}
	}
}

var shrunk = map[string]int{}

func (rn *runner) mismatch(p pending, i int, model string) {
	fn := p.fn[i]
	rn.res.Count("mismatch:" + fn)
	if shrunk["m:"+fn]++; shrunk["m:"+fn] > 6 {
		return
	}
	x := p.x
	// shrink on "model and implementation disagree on fn"
	if p.tag != "archive" {
		x = common.ShrinkBytes(x, func(c []byte) bool {
			return rn.m.Ask1(fn+" "+common.Hex(c)) != implFn(fn, c)
		})
		model = rn.m.Ask1(fn + " " + common.Hex(x))
	}
	detail := "model (corrected behaviour, theorems proved about it) and implementation differ"
	switch fn {
	case "parseidx", "needsquoteidx", "quoteidx", "unquoteidx":
		detail = "statement-level model (TxtarIndex.v, follows archive.go index by index) and implementation differ"
	case "holds", "holds14":
		detail = "the MODEL violates its own property statement on this input (c03_holds_on / c14_holds_on is not true): the theorems cannot hold for the current constants/definitions; this input is the witness"
	}
	rn.res.Violate(common.Violation{Kind: "correspondence", Oracle: fn,
		Input: map[string]string{"x": common.Hex(x), "x_text": fmt.Sprintf("%q", x), "request": fn + " " + common.Hex(x)},
		Model: model, Impl: implFn(fn, x), Key: fn + ":" + common.Hex(x),
		Detail: detail})
}

func implFn(fn string, x []byte) string {
	switch fn {
	case "parse", "parseidx":
		return implParse(x)
	case "holds", "holds14":
		return "true"
	case "reparse":
		return implReparse(x)
	case "refparse":
		return refParse(x)
	case "needsquote", "needsquoteidx":
		return implNeedsQuote(x)
	case "quote", "quoteidx":
		return implQuote(x)
	case "unquote", "unquoteidx":
		return implUnquote(x)
	}
	return "?"
}

func (rn *runner) oracle(name string, x []byte, detail string) {
	rn.res.Count("oracle-fails:" + name)
	if shrunk["o:"+name]++; shrunk["o:"+name] > 6 {
		return
	}
	// shrink with the same oracle
	bad := func(c []byte) bool { return oracleFails(name, c) }
	if bad(x) {
		x = common.ShrinkBytes(x, bad)
	}
	rn.res.Violate(common.Violation{Kind: "impl-violation", Oracle: name,
		Input: map[string]string{"x": common.Hex(x), "x_text": fmt.Sprintf("%q", x)},
		Impl: implFn(strings.SplitN(name, "/", 2)[0], x), Key: name + ":" + common.Hex(x), Detail: detail})
}

// oracleFails evaluates one named oracle of the property on the implementation.
func oracleFails(name string, x []byte) bool {
	switch name {
	case "parse/no-panic":
		return implParse(x) == "PANIC"
	case "reparse/stable":
		p := implParse(x)
		return p != "PANIC" && implReparse(x) != p
	case "parse/agrees-with-x-tools":
		return !bytes.Contains(x, []byte("\r")) && implParse(x) != "PANIC" && implParse(x) != refParse(x)
	case "parse/data-nl-terminated":
		ok := true
		func() {
			defer func() { recover() }()
			a := txtar.Parse(x)
			for _, t := range append([][]byte{a.Comment}, datas(a)...) {
				if len(t) > 0 && t[len(t)-1] != '\n' {
					ok = false
				}
			}
		}()
		return !ok
	case "parse/crlf-like-lf":
		if !bytes.Contains(x, []byte("\r\n")) {
			return false
		}
		// only the CR of CRLF-terminated *marker* lines is covered by the property:
		// compare names and file count with the input in which marker lines end in LF.
		y := crlfMarkersToLF(x)
		a, b := implParse(x), implParse(y)
		if a == "PANIC" || b == "PANIC" {
			return false
		}
		return names(txtar.Parse(x)) != names(txtar.Parse(y))
	case "needsquote/exact":
		if implNeedsQuote(x) == "PANIC" {
			return true
		}
		ch, pan := oneFileChanges(x)
		if pan {
			return false // reported by parse/no-panic
		}
		return txtar.NeedsQuote(x) != ch || txtar.NeedsQuote(x) != hasMarkerLine(x)
	case "quote/unquote-inverse":
		q, err := txtar.Quote(x)
		if err != nil {
			return false
		}
		u, err := txtar.Unquote(q)
		if len(x) == 0 {
			return err != nil || len(u) != 0
		}
		return err != nil || !bytes.Equal(u, x)
	case "quote/clean":
		q, err := txtar.Quote(x)
		if err != nil || len(x) == 0 {
			return false
		}
		if txtar.NeedsQuote(q) {
			return true
		}
		ch, pan := oneFileChanges(q)
		return !pan && ch
	case "quote/chain-inverse":
		return chainFails(x)
	case "quote/refuses":
		_, err := txtar.Quote(x)
		should := len(x) > 0 && (x[len(x)-1] != '\n' || !utf8.Valid(x))
		return (err != nil) != should
	}
	return false
}

func datas(a *txtar.Archive) [][]byte {
	var r [][]byte
	for _, f := range a.Files {
		r = append(r, f.Data)
	}
	return r
}
func names(a *txtar.Archive) string {
	var r []string
	for _, f := range a.Files {
		r = append(r, fmt.Sprintf("%q", f.Name))
	}
	return strings.Join(r, ",")
}
func crlfMarkersToLF(x []byte) []byte {
	var out []byte
	for _, l := range bytes.SplitAfter(x, []byte("\n")) {
		if bytes.HasSuffix(l, []byte("\r\n")) && bytes.HasPrefix(l, []byte("-- ")) && !bytes.HasSuffix(l, []byte("\r\r\n")) {
			l = append(append([]byte{}, l[:len(l)-2]...), '\n')
		}
		out = append(out, l...)
	}
	return out
}

var oracles03 = []string{"parse/no-panic", "reparse/stable", "parse/agrees-with-x-tools", "parse/data-nl-terminated", "parse/crlf-like-lf"}
var oracles14 = []string{"needsquote/exact", "quote/unquote-inverse", "quote/clean", "quote/refuses", "quote/chain-inverse"}

func main() {
	f := common.ParseFlags()
	// a binary built with -cover writes its counters at exit: give it a place in the scratch directory
	if os.Getenv("GOCOVERDIR") == "" {
		dir := f.Work
		if dir == "" {
			dir = os.TempDir()
		}
		dir = filepath.Join(dir, "txtar-gocoverdir")
		if os.MkdirAll(dir, 0o755) == nil {
			os.Setenv("GOCOVERDIR", dir)
		}
	}
	prop = os.Getenv("VERIF_PROP")
	if prop == "" {
		prop = "C03"
	}
	res := common.NewResult(prop, f.Tier, f.Seed)
	m, err := common.StartModel(f.Model)
	if err != nil {
		fmt.Fprintln(os.Stderr, "cannot start model:", err)
		os.Exit(2)
	}
	defer m.Close()
	rn := &runner{f: f, res: res, m: m}

	var batch []pending
	add := func(p pending) {
		batch = append(batch, p)
		if len(batch) >= 4000 {
			rn.flush(batch)
			batch = batch[:0]
		}
	}
	seen := 0
	st := &stability{}
	var prevX []byte
	one := func(x []byte, tag string) {
		x = append([]byte{}, x...)
		seen++
		res.Count("src:" + tag)
		hx := common.Hex(x)
		var p pending
		p.x, p.tag = x, tag
		if prop == "C03" {
			ip := implParse(x)
			p.fn = []string{"parse", "reparse", "refparse", "parseidx", "holds"}
			p.reqs = []string{"parse " + hx, "reparse " + hx, "refparse " + hx, "parseidx " + hx, "holds " + hx}
			p.impl = []string{ip, implReparse(x), refParse(x), ip, "true"}
			nfiles := strings.Count(ip, " ")
			res.Case(ip, ip == "PANIC" || nfiles > 2 || bytes.Contains(x, []byte("--")))
			if ip == "PANIC" {
				res.Count("outcome:panic")
			} else if nfiles > 2 {
				res.Count("outcome:files>=1")
			} else {
				res.Count("outcome:comment-only")
			}
			if bytes.Contains(x, []byte("\r")) {
				res.Count("has-CR")
			}
			for _, o := range oracles03 {
				if oracleFails(o, x) {
					rn.oracle(o, x, "property C03 evaluated directly on the implementation")
				}
			}
		} else {
			nq := implNeedsQuote(x)
			p.fn = []string{"needsquote", "quote", "unquote", "needsquoteidx", "holds14", "quoteidx", "unquoteidx"}
			p.reqs = []string{"needsquote " + hx, "quote " + hx, "unquote " + hx, "needsquoteidx " + hx, "holds14 " + hx, "quoteidx " + hx, "unquoteidx " + hx}
			iq, iu := implQuote(x), implUnquote(x)
			p.impl = []string{nq, iq, iu, nq, "true", iq, iu}
			res.Case(hx, bytes.Contains(x, []byte("--")) || bytes.Contains(x, []byte(">")))
			res.Count("needsquote:" + nq)
			res.Count("quote:" + strings.SplitN(p.impl[1], " ", 2)[0])
			res.Count("unquote:" + strings.SplitN(p.impl[2], " ", 2)[0])
			for _, o := range oracles14 {
				if oracleFails(o, x) {
					rn.oracle(o, x, "property C14 evaluated directly on the implementation")
				}
			}
		}
		// multi-call stability (stable.go): results of earlier calls must survive later calls
		if prop == "C03" {
			st.track(rn, "Parse", x)
			st.track(rn, "Format", x)
		} else {
			st.track(rn, "Quote", x)
			st.track(rn, "Unquote", x)
			st.track(rn, "Format/1", x)
		}
		if prop == "C03" {
			st.integrity(rn, []string{"Parse", "Format"}, x)
		} else {
			st.integrity(rn, []string{"NeedsQuote", "Quote", "Unquote"}, x)
		}
		if seen%64 == 0 {
			if prop == "C03" {
				st.fromOtherGoroutine(rn, []string{"Parse", "Format"}, prevX)
			} else {
				st.fromOtherGoroutine(rn, []string{"Unquote", "Format/1", "Quote"}, prevX)
			}
		}
		if prop != "C03" && seen%256 == 0 {
			st.concurrentQuote(rn, x, prevX)
		}
		prevX = x
		if seen%9973 == 1 {
			res.Sample(map[string]any{"input": fmt.Sprintf("%q", x), "impl": p.impl, "source": tag})
		}
		if skipModel {
			res.Count("oracles-only")
			return
		}
		add(p)
	}

	if f.Replay != "" {
		rp, err := common.LoadReplay(f.Replay)
		if err != nil {
			fmt.Fprintln(os.Stderr, err)
			os.Exit(2)
		}
		x := common.UnHex(rp.Violation.Input["x"])
		if in := rp.Violation.Input; in["fn2"] != "" {
			// a pair of calls: the result of fn(x) must survive fn2(x2)
			x2 := common.UnHex(in["x2"])
			if in["where"] == "concurrent goroutines" {
				for i := 0; i < 50; i++ {
					st.concurrentQuote(rn, x, x2)
				}
			} else if pairFails(in["fn"], x, in["fn2"], x2) {
				res.Violate(common.Violation{Kind: "impl-violation", Oracle: "result-stable-across-calls", Input: in,
					Key: rp.Violation.Key, Detail: "replayed: the result of " + in["fn"] + "(x) changed when " + in["fn2"] + "(x2) was called"})
			}
			res.Case("replay-pair", true)
			res.Write(f.Out)
			return
		}
		if rp.Violation.Oracle == "caller-memory-unchanged" {
			st.integrity(rn, []string{rp.Violation.Input["fn"]}, x)
			res.Case("replay-integrity", true)
			res.Write(f.Out)
			return
		}
		if strings.HasPrefix(rp.Violation.Input["request"], "u8 ") {
			rn.u8One(x)
		}
		one(x, "replay")
		rn.flush(batch)
		res.Write(f.Out)
		return
	}

	// 1. corpus first
	if f.Corpus != "" {
		ents, _ := filepath.Glob(filepath.Join(f.Corpus, "*"))
		sort.Strings(ents)
		for _, e := range ents {
			if b, err := os.ReadFile(e); err == nil {
				one(b, "corpus")
			}
		}
	}
	// 2. exhaustive small alphabet
	maxLen := 7
	sigma := sigma03
	if prop == "C14" {
		sigma = sigma14
		maxLen = 6
	}
	if f.Tier == "thorough" {
		maxLen += 2
	}
	enumerate(sigma, maxLen, func(x []byte) { one(x, "exhaustive") })
	// marker-shaped exhaustive: "-- " ++ w ++ " --" ++ tail, and two-line forms
	enumerate(sigma, 4, func(w []byte) {
		for _, tail := range []string{"", "\n", "\r", "\r\n", "\nx", "\r\nx\n"} {
			one([]byte("-- "+string(w)+" --"+tail), "marker-shaped")
			one([]byte("x\n-- "+string(w)+" --"+tail), "marker-shaped")
			one([]byte("\xef\xbb\xbf-- "+string(w)+" --"+tail), "marker-shaped")
		}
	})
	// names that a printf-style formatter would misread ('%' is data in a file name)
	enumerate([]byte{'%', 's', 'd', 'a', '!', '2'}, 4, func(w []byte) {
		if !bytes.Contains(w, []byte("%")) {
			return
		}
		one([]byte("-- "+string(w)+" --\n"), "percent-names")
		one([]byte("x\n-- a"+string(w)+" --\nb\n-- "+string(w)+".txt --"), "percent-names")
	})
	// 3. structured
	r := common.NewRNG(f.Seed)
	nStruct, nRand := 20000, 20000
	if f.Tier == "thorough" {
		nStruct, nRand = 400000, 400000
	}
	for i := 0; i < nStruct; i++ {
		one(genText(r), "structured")
	}
	// 3a. C14: bodies whose lines already start with '>' and chains Quote^k / Unquote^k (chains.go)
	if prop == "C14" {
		rq := common.NewRNG(f.Seed ^ 0x51c14)
		for i := 0; i < nStruct/10; i++ {
			d := genQuotedBody(rq)
			if i%4 == 3 {
				d = genText(rq)
				if len(d) > 0 && d[len(d)-1] != '\n' {
					d = append(d, '\n')
				}
			}
			chain(d, one)
		}
	}
	// 4. malformed / random stream
	for i := 0; i < nRand; i++ {
		one(genRandom(r), "random")
	}
	rn.flush(batch)
	batch = batch[:0]

	// 4a. coverage-guided search (thorough tier; VERIF_GUIDED_SECONDS overrides the duration)
	secs := 0
	if f.Tier == "thorough" {
		secs = 180
	}
	if v, err := strconv.Atoi(os.Getenv("VERIF_GUIDED_SECONDS")); err == nil {
		secs = v
	}
	if secs > 0 {
		var seeds [][]byte
		if f.Corpus != "" {
			ents, _ := filepath.Glob(filepath.Join(f.Corpus, "*"))
			sort.Strings(ents)
			for _, e := range ents {
				if b, err := os.ReadFile(e); err == nil {
					seeds = append(seeds, b)
				}
			}
		}
		for _, l := range lineAtoms {
			seeds = append(seeds, []byte(l), []byte(l+"\n"), []byte("x\n"+l+"\r\n"))
		}
		for i := 0; i < 200; i++ {
			seeds = append(seeds, genText(r))
		}
		rn.guided(seeds, time.Duration(secs)*time.Second, one)
		rn.flush(batch)
		batch = batch[:0]
	}

	// 4b. rune level: the decoder, unicode.IsSpace, TrimSpace and utf8.Valid (utf8.go)
	t0 := time.Now()
	rn.utf8Phase()
	res.Count(fmt.Sprintf("u8:phase-seconds<=%d", int(time.Since(t0).Seconds())+1))

	// 5. well-formed archives: Parse(Format(a)) == a  (C03 only)
	if prop == "C03" {
		var reqs, impls []string
		var as []*txtar.Archive
		for i := 0; i < nStruct/4; i++ {
			a := genWF(r)
			if !wfArchive(a) {
				res.Count("wf-gen-rejected")
				continue
			}
			res.Count("src:wf-archive")
			got := common.Safely(func() string { return showArchive(txtar.Parse(txtar.Format(a))) })
			want := showArchive(a)
			res.Case("wf:"+want, len(a.Files) > 0)
			if got != want {
				res.Violate(common.Violation{Kind: "impl-violation", Oracle: "format/parse-wf-roundtrip",
					Input: map[string]string{"archive": archiveReq(a)}, Impl: got, Model: want, Key: "wf:" + archiveReq(a),
					Detail: "Parse(Format(a)) != a for a well-formed archive"})
			}
			as = append(as, a)
			reqs = append(reqs, "format "+archiveReq(a), "formatidx "+archiveReq(a), "wf "+archiveReq(a))
			impls = append(impls, common.Hex(txtar.Format(a)), common.Hex(txtar.Format(a)), "true")
		}
		// arbitrary (mostly not well-formed) archives: Format against the line-level and the
		// statement-level model (fmt.Fprintf with the regenerated format string: '%' in a
		// name is data), and the model's wf_archive against the runner's reading of it
		for i := 0; i < nStruct/8; i++ {
			a := &txtar.Archive{Comment: genText(r)}
			for k, n := 0, r.Intn(4); k < n; k++ {
				name := genName(r)
				if r.Chance(1, 3) {
					name += common.Pick(r, []string{"%s", "%", "%d", "%%", "\n", "%!s(MISSING)", "\r"})
				}
				a.Files = append(a.Files, txtar.File{Name: name, Data: genText(r)})
			}
			res.Count("src:any-archive")
			fm := common.Safely(func() string { return common.Hex(txtar.Format(a)) })
			as = append(as, a)
			reqs = append(reqs, "format "+archiveReq(a), "formatidx "+archiveReq(a), "wf "+archiveReq(a))
			impls = append(impls, fm, fm, fmt.Sprint(wfArchive(a)))
		}
		ans, err := m.Ask(reqs)
		if err == nil {
			for i := range ans {
				if ans[i] != impls[i] {
					a := as[i/3]
					res.Count("mismatch:" + strings.Fields(reqs[i])[0])
					res.Violate(common.Violation{Kind: "correspondence", Oracle: strings.Fields(reqs[i])[0],
						Input: map[string]string{"archive": archiveReq(a)}, Model: ans[i], Impl: impls[i], Key: "fmt:" + strings.Fields(reqs[i])[0] + ":" + archiveReq(a)})
				}
			}
		}
	}
	res.Exhaustive = false
	res.Notes = append(res.Notes, "every case is compared against the line-based model AND the statement-level model (parseidx / needsquoteidx, with PANIC and OUTOFFUEL as observable answers), and the model is asked to evaluate its own property statement (holds / holds14) on it")
	if prop == "C14" {
		res.Notes = append(res.Notes, "already-quoted data: bodies all (or all but one) of whose lines start with one to three '>', and for each body d the derived Quote(d), Quote^2(d), Quote^3(d), Unquote(d), Unquote^2(d) are inputs like any other; oracle quote/chain-inverse on every case: Unquote^k(Quote^k(d)) == d for k <= 3 with every intermediate level equal and clean")
	}
	res.Rule = fmt.Sprintf("corpus, then every string over the alphabet %q up to length %d, marker-shaped strings, %d structured texts built from marker look-alike lines with LF/CRLF/CR endings, %d random byte strings (and well-formed archives for the Format/Parse law); a case is non-trivial when it contains \"--\" (C03: or yields files / panics; C14: or contains '>'); distinct = distinct parse result (C03) or distinct input (C14)", sigma, maxLen, nStruct, nRand)
	res.Write(f.Out)
}

package main

// Rune-level correspondence: the Gallina decoder (utf8.DecodeRune / DecodeLastRune),
// unicode.IsSpace from the regenerated tables, TrimLeftFunc / TrimRightFunc /
// TrimSpace over decoded runes, the rune-by-rune validity check, and next to them the
// byte-level trim_space / utf8_valid the txtar model actually uses (proved equal in
// Lib/Utf8Facts.v) are compared with the Go standard library: every code point for
// IsSpace, every 1- and 2-byte string, 3-byte strings by sweeps over chosen (thorough:
// all) first bytes, 4-byte strings around the range boundaries, and random texts made
// of white-space encodings, truncated encodings and arbitrary bytes.  Sweeps are
// compared by digest (one request answers 256 or 65536 strings); on a mismatch the
// sweep is repeated string by string to find the input.

import (
	"bytes"
	"crypto/md5"
	"encoding/hex"
	"fmt"
	"strconv"
	"strings"
	"unicode"
	"unicode/utf8"

	"verif/harness/common"
)

func showDec(r rune, w int, empty bool) string {
	if empty {
		return "none"
	}
	return fmt.Sprintf("%d %d", r, w)
}

// u8Line is the implementation's side of the model request "u8 <hex>".
func u8Line(x []byte) string {
	r, w := utf8.DecodeRune(x)
	lr, lw := utf8.DecodeLastRune(x)
	tl := bytes.TrimLeftFunc(x, unicode.IsSpace)
	tr := bytes.TrimRightFunc(x, unicode.IsSpace)
	ts := []byte(strings.TrimSpace(string(x)))
	v := utf8.Valid(x)
	return "D " + showDec(r, w, len(x) == 0) + "|DT " + showDec(r, w, len(x) == 0) + "|L " + showDec(lr, lw, len(x) == 0) +
		"|TL " + common.Hex(tl) + "|TR " + common.Hex(tr) + "|T " + common.Hex(ts) + "|TB " + common.Hex(ts) + "|TF " + common.Hex(ts) +
		"|V " + strconv.FormatBool(v) + "|VB " + strconv.FormatBool(v)
}

func sweepStrings(pre []byte, n int, f func([]byte)) {
	buf := append(append([]byte{}, pre...), make([]byte, n)...)
	k := len(pre)
	if n == 1 {
		for i := 0; i < 256; i++ {
			buf[k] = byte(i)
			f(buf)
		}
		return
	}
	for i := 0; i < 256; i++ {
		for j := 0; j < 256; j++ {
			buf[k], buf[k+1] = byte(i), byte(j)
			f(buf)
		}
	}
}

func sweepDigest(pre []byte, n int) string {
	h := md5.New()
	sweepStrings(pre, n, func(x []byte) { h.Write([]byte(u8Line(x))); h.Write([]byte{'\n'}) })
	return hex.EncodeToString(h.Sum(nil))
}

var u8Reported = 0

func (rn *runner) u8Mismatch(x []byte, model, impl string) {
	rn.res.Count("mismatch:u8")
	if u8Reported++; u8Reported > 6 {
		return
	}
	// name the first field that differs
	field := "u8"
	ms, is := strings.Split(model, "|"), strings.Split(impl, "|")
	for i := range is {
		if i >= len(ms) || ms[i] != is[i] {
			field = "u8/" + strings.Fields(is[i])[0]
			break
		}
	}
	rn.res.Violate(common.Violation{Kind: "correspondence", Oracle: field,
		Input: map[string]string{"x": common.Hex(x), "x_text": fmt.Sprintf("%q", x), "request": "u8 " + common.Hex(x)},
		Model: model, Impl: impl, Key: "u8:" + common.Hex(x),
		Detail: "the rune-level / byte-level Gallina functions (D DecodeRune, DT DecodeRune with the library's tables, L DecodeLastRune, TL/TR/T TrimLeftFunc/TrimRightFunc/TrimSpace over runes, TB trim_space, TF TrimFunc as coded in Go, V rune-by-rune validity, VB utf8_valid) and the Go standard library differ"})
}

func (rn *runner) u8One(x []byte) {
	x = append([]byte{}, x...)
	impl := u8Line(x)
	model := rn.m.Ask1("u8 " + common.Hex(x))
	rn.res.Count("u8:single")
	if model != impl {
		rn.u8Mismatch(x, model, impl)
	}
}

func (rn *runner) u8Sweep(pre []byte, n int) {
	want := sweepDigest(pre, n)
	got := rn.m.Ask1(fmt.Sprintf("u8sweep %s %d", common.Hex(pre), n))
	rn.res.Count(fmt.Sprintf("u8:sweep-%d-bytes", len(pre)+n))
	if got == want {
		return
	}
	found := false
	sweepStrings(pre, n, func(x []byte) {
		if found {
			return
		}
		if m, i := rn.m.Ask1("u8 "+common.Hex(x)), u8Line(x); m != i {
			found = true
			rn.u8Mismatch(append([]byte{}, x...), m, i)
		}
	})
	if !found {
		rn.res.Violate(common.Violation{Kind: "correspondence", Oracle: "u8/sweep-digest",
			Input: map[string]string{"prefix": common.Hex(pre), "n": fmt.Sprint(n)}, Model: got, Impl: want,
			Key: "u8sweep:" + common.Hex(pre), Detail: "sweep digests differ but no single string does"})
	}
}

var u8Atoms = []string{" ", "\t", "\n", "\v", "\f", "\r", "\u0085", "\u00a0", "\u1680", "\u2000", "\u2005", "\u200a", "\u200b",
	"\u2028", "\u2029", "\u202f", "\u205f", "\u3000", "\u3001", "\ufffd", "\U0001f600", "\U0010ffff", "a", "\u00e9", "-", "--",
	"\xc2", "\xe2\x80", "\xe2", "\xe3\x80", "\x80", "\x85", "\xa0", "\xed\xa0\x80", "\xf4\x90\x80\x80", "\xc0\x80", "\xe0\x80\x80", "\xf0\x9f", "\xff"}

func (rn *runner) utf8Phase() {
	res, f := rn.res, rn.f
	thorough := f.Tier == "thorough"
	// 1. unicode.IsSpace on every code point (quick: up to U+1FFFF and the top of the range)
	spaces := func(lo, hi int) {
		var want []string
		for r := lo; r < hi; r++ {
			if unicode.IsSpace(rune(r)) {
				want = append(want, strconv.Itoa(r))
			}
		}
		w := strings.Join(want, ",")
		if w == "" {
			w = "-"
		}
		got := rn.m.Ask1(fmt.Sprintf("spaces %d %d", lo, hi))
		res.Count("u8:isspace-ranges")
		if got != w {
			res.Violate(common.Violation{Kind: "correspondence", Oracle: "u8/isspace",
				Input: map[string]string{"lo": fmt.Sprint(lo), "hi": fmt.Sprint(hi)}, Model: got, Impl: w,
				Key: fmt.Sprintf("isspace:%d", lo), Detail: "is_space_rune (regenerated unicode tables) and unicode.IsSpace differ on this range of code points"})
		}
	}
	if thorough {
		for lo := 0; lo < 0x110000; lo += 0x10000 {
			spaces(lo, lo+0x10000)
		}
	} else {
		spaces(0, 0x10000)
		spaces(0x10000, 0x11000)
		spaces(0x10f000, 0x110000)
	}
	// 2. encode_rune / is_scalar against utf8.AppendRune / ValidRune on boundary code points
	for _, r := range []int{0, 0x7f, 0x80, 0x7ff, 0x800, 0xd7ff, 0xd800, 0xdfff, 0xe000, 0xfffd, 0xffff, 0x10000, 0x10ffff, 0x110000, 0x2028, 0x3000} {
		want := "S " + strconv.FormatBool(utf8.ValidRune(rune(r)))
		if utf8.ValidRune(rune(r)) {
			want += " " + common.Hex(utf8.AppendRune(nil, rune(r)))
		}
		got := rn.m.Ask1(fmt.Sprintf("encode %d", r))
		res.Count("u8:encode")
		if !strings.HasPrefix(got, want) {
			res.Violate(common.Violation{Kind: "correspondence", Oracle: "u8/encode", Input: map[string]string{"r": fmt.Sprint(r)},
				Model: got, Impl: want, Key: fmt.Sprintf("encode:%d", r), Detail: "encode_rune / is_scalar and utf8.AppendRune / utf8.ValidRune differ"})
		}
	}
	// 3. the empty string, every 1-byte and 2-byte string
	rn.u8One(nil)
	rn.u8Sweep(nil, 1)
	rn.u8Sweep(nil, 2)
	// 4. 3-byte strings: sweeps over the first byte
	firsts := []byte{0x20, 0xc2, 0xe1, 0xe2, 0xe3}
	if prop == "C14" {
		firsts = []byte{0x7f, 0xc1, 0xe0, 0xed, 0xf4}
	}
	if thorough {
		firsts = firsts[:0]
		for i := 0; i < 256; i++ {
			firsts = append(firsts, byte(i))
		}
	}
	for _, b := range firsts {
		rn.u8Sweep([]byte{b}, 2)
	}
	// 5. 4-byte strings around the acceptRanges boundaries (thorough: every leader, boundary second byte)
	leaders := []byte{0xf0, 0xf4}
	seconds := []byte{0x8f, 0x90}
	if prop != "C14" {
		leaders = []byte{0xf0}
	}
	if thorough {
		leaders = []byte{0xe2, 0xef, 0xf0, 0xf1, 0xf3, 0xf4, 0xf5}
		seconds = []byte{0x7f, 0x80, 0x8f, 0x90, 0xa8, 0xbf, 0xc0}
	}
	for _, l := range leaders {
		for _, s := range seconds {
			rn.u8Sweep([]byte{l, s}, 2)
		}
	}
	// 6. random texts of white-space encodings, truncated encodings and arbitrary bytes
	r := common.NewRNG(f.Seed + 77)
	n := 4000
	if thorough {
		n = 200000
	}
	var reqs []string
	var xs [][]byte
	for i := 0; i < n; i++ {
		var x []byte
		for k, m := 0, r.Intn(6); k < m; k++ {
			if r.Chance(1, 8) {
				x = append(x, byte(r.Intn(256)))
			} else {
				x = append(x, common.Pick(r, u8Atoms)...)
			}
		}
		xs = append(xs, x)
		reqs = append(reqs, "u8 "+common.Hex(x))
	}
	ans, err := rn.m.Ask(reqs)
	if err != nil {
		res.Notes = append(res.Notes, "model error in the utf8 phase: "+err.Error())
		return
	}
	for i, x := range xs {
		res.Count("u8:random")
		if impl := u8Line(x); ans[i] != impl {
			rn.u8Mismatch(x, ans[i], impl)
		}
	}
	res.Notes = append(res.Notes, "rune level: decode_rune / decode_last_rune / is_space_rune / trim_*_runes / runes_ok and the byte-level trim_space / utf8_valid compared with utf8.DecodeRune, DecodeLastRune, unicode.IsSpace, bytes.TrimLeftFunc/TrimRightFunc, strings.TrimSpace, utf8.Valid: all code points (quick: U+0000-U+10FFF and the top), all 1- and 2-byte strings, 3-byte sweeps, 4-byte boundary sweeps, random texts")
}

package main

// Coverage-guided search (thorough tier).  The runner is built with
//   -cover -covermode=atomic -coverpkg=<repo>/txtar,golang.org/x/tools/txtar,<this package>
// (props/C03.json "runner_build_flags"; the main package has to be included or the
// run-time coverage hooks are not linked in), so the implementation's own basic-block
// counters are available through runtime/coverage.  For every candidate input the
// counters are cleared, the implementation is exercised, and the set of
// (function, block, hit-count bucket) triples is the input's signature; an input that
// shows a triple never seen before joins the pool that later candidates are mutated
// from.  Every candidate meets the same direct oracles as all other inputs; those with
// new behaviour and a quarter of the others are also compared with both models.  When the binary was not built with
// coverage the signature falls back to the shape of the results (noted in Notes).

import (
	"bytes"
	"encoding/binary"
	"fmt"
	"os"
	"path/filepath"
	"runtime/coverage"
	"sort"
	"strconv"
	"strings"
	"time"

	"github.com/rogpeppe/go-internal/txtar"
	xtxtar "golang.org/x/tools/txtar"

	"verif/harness/common"
)

// coverTriples decodes a counter-data blob (internal/coverage/encodecounter format:
// 32-byte file header, 16-byte segment header, string table, args, then per live
// function: #counters, package id, function id, counters) into feature ids.
func coverTriples(blob []byte, out []uint64) ([]uint64, bool) {
	if len(blob) < 48 || string(blob[:4]) != "\x00\x63\x77\x6d" {
		return out, false
	}
	flavor := blob[24]
	seg := blob[32:]
	nfn := binary.LittleEndian.Uint64(seg[0:8])
	strLen := binary.LittleEndian.Uint32(seg[8:12])
	argLen := binary.LittleEndian.Uint32(seg[12:16])
	p := 48 + int(strLen) + int(argLen)
	next := func() (uint32, bool) {
		if flavor == 1 { // raw
			if p+4 > len(blob) {
				return 0, false
			}
			v := binary.LittleEndian.Uint32(blob[p:])
			p += 4
			return v, true
		}
		var v uint64
		for shift := uint(0); ; shift += 7 {
			if p >= len(blob) || shift > 35 {
				return 0, false
			}
			b := blob[p]
			p++
			v |= uint64(b&0x7f) << shift
			if b&0x80 == 0 {
				return uint32(v), true
			}
		}
	}
	for i := uint64(0); i < nfn; i++ {
		n, ok1 := next()
		pk, ok2 := next()
		fn, ok3 := next()
		if !ok1 || !ok2 || !ok3 || n > 1<<16 {
			return out, false
		}
		for k := uint32(0); k < n; k++ {
			c, ok := next()
			if !ok {
				return out, false
			}
			if c == 0 {
				continue
			}
			bucket := uint64(0)
			switch {
			case c == 1:
				bucket = 1
			case c == 2:
				bucket = 2
			case c <= 4:
				bucket = 3
			case c <= 8:
				bucket = 4
			default:
				bucket = 5
			}
			out = append(out, uint64(pk)<<48|uint64(fn)<<28|uint64(k)<<4|bucket)
		}
	}
	return out, true
}

// exercise runs the implementation on x (everything the two properties talk about).
func exercise(x []byte) (shape string) {
	return common.Safely(func() string {
		a := txtar.Parse(x)
		b := txtar.Parse(txtar.Format(a))
		r := xtxtar.Parse(x)
		nq := txtar.NeedsQuote(x)
		q, qe := txtar.Quote(x)
		_, ue := txtar.Unquote(x)
		if qe == nil {
			txtar.Unquote(q)
		}
		// shape: used as (part of) the signature
		var sb strings.Builder
		cls := func(t []byte) byte {
			switch {
			case len(t) == 0:
				return 'e'
			case bytes.Contains(t, []byte("\r")):
				return 'r'
			case bytes.Contains(t, []byte("--")):
				return 'm'
			}
			return 't'
		}
		n := len(a.Files)
		if n > 3 {
			n = 3
		}
		fmt.Fprintf(&sb, "%d%c", n, cls(a.Comment))
		for i := 0; i < n; i++ {
			f := a.Files[i]
			nm := byte('a')
			if strings.ContainsAny(f.Name, " \t") {
				nm = 's'
			} else if strings.IndexFunc(f.Name, func(r rune) bool { return r >= 0x80 }) >= 0 {
				nm = 'u'
			}
			sb.WriteByte(nm)
			sb.WriteByte(cls(f.Data))
		}
		fmt.Fprintf(&sb, "|%t%t%t%t%t", len(b.Files) == len(a.Files), len(r.Files) == len(a.Files), nq, qe == nil, ue == nil)
		return sb.String()
	})
}

var dict = []string{"-- ", " --", "\n-- ", "-- a --\n", "-- a --", "\r\n", "\r", "\n", " ", "--", "-", ">", "\n>", "a",
	"\u00a0", "\u3000", "\u2028", "\u0085", "\xc2", "\xe2\x80", "\xff", "\t", "--   --", "-- a --\r", "\n-- b --\r\n"}

const interesting = "-- \n\r>a\t\xc2\xa0\xe2\x80\xff"

func mutate(r *common.RNG, x []byte, other []byte) []byte {
	y := append([]byte{}, x...)
	for k, n := 0, 1+r.Intn(3); k < n; k++ {
		switch r.Intn(8) {
		case 0: // insert a dictionary token
			i := r.Intn(len(y) + 1)
			t := common.Pick(r, dict)
			y = append(y[:i], append([]byte(t), y[i:]...)...)
		case 1: // delete a range
			if len(y) > 0 {
				i := r.Intn(len(y))
				j := i + 1 + r.Intn(min(4, len(y)-i))
				y = append(y[:i], y[j:]...)
			}
		case 2: // replace a byte by an interesting one
			if len(y) > 0 {
				y[r.Intn(len(y))] = interesting[r.Intn(len(interesting))]
			}
		case 3: // random byte
			if len(y) > 0 {
				y[r.Intn(len(y))] = byte(r.Intn(256))
			}
		case 4: // duplicate a range
			if len(y) > 0 {
				i := r.Intn(len(y))
				j := i + 1 + r.Intn(min(8, len(y)-i))
				y = append(y[:j], append(append([]byte{}, y[i:j]...), y[j:]...)...)
			}
		case 5: // splice with another pool member
			if len(other) > 0 {
				i, j := r.Intn(len(y)+1), r.Intn(len(other))
				y = append(append([]byte{}, y[:i]...), other[j:]...)
			}
		case 6: // drop the tail / the final newline
			if len(y) > 0 {
				y = y[:len(y)-1]
			}
		case 7: // overwrite a token
			t := common.Pick(r, dict)
			if len(y) >= len(t) && len(t) > 0 {
				copy(y[r.Intn(len(y)-len(t)+1):], t)
			}
		}
	}
	if len(y) > 160 {
		y = y[:160]
	}
	return y
}

// guided runs the coverage-guided loop for the given duration, feeding every
// candidate to one (model comparison + oracles).
func (rn *runner) guided(seeds [][]byte, d time.Duration, one func(x []byte, tag string)) {
	res := rn.res
	seen := map[uint64]bool{}
	shapes := map[string]bool{}
	var pool [][]byte
	var blob bytes.Buffer
	var feats []uint64
	covOK := coverage.ClearCounters() == nil
	if !covOK {
		res.Notes = append(res.Notes, "guided search: runner not built with -cover -covermode=atomic; using result-shape signatures only")
	}
	// returns true when x shows behaviour not seen before
	novel := func(x []byte) bool {
		isNew := false
		if covOK {
			coverage.ClearCounters()
		}
		shape := exercise(x)
		if covOK {
			blob.Reset()
			if err := coverage.WriteCounters(&blob); err == nil {
				var ok bool
				feats, ok = coverTriples(blob.Bytes(), feats[:0])
				if !ok {
					covOK = false
					res.Notes = append(res.Notes, "guided search: counter data not in the expected format; using result-shape signatures only")
				}
				for _, f := range feats {
					if !seen[f] {
						seen[f] = true
						isNew = true
					}
				}
			} else {
				covOK = false
			}
		}
		if !shapes[shape] {
			shapes[shape] = true
			if !covOK {
				isNew = true
			}
		}
		return isNew
	}
	for _, s := range seeds {
		if novel(s) || len(pool) < 8 {
			pool = append(pool, append([]byte{}, s...))
		}
	}
	r := common.NewRNG(rn.f.Seed + 4242)
	deadline := time.Now().Add(d)
	iters, added := 0, 0
	for time.Now().Before(deadline) {
		for k := 0; k < 512; k++ {
			// favour recently added pool members
			var base []byte
			if r.Chance(1, 2) && len(pool) > 16 {
				base = pool[len(pool)-1-r.Intn(16)]
			} else {
				base = pool[r.Intn(len(pool))]
			}
			x := mutate(r, base, pool[r.Intn(len(pool))])
			iters++
			// every candidate meets the direct oracles; the comparison with the two models
			// (the slower part) is made for the novel ones and for one candidate in four
			if novel(x) {
				pool = append(pool, x)
				added++
				one(x, "guided-new")
			} else {
				skipModel = iters%4 != 0
				one(x, "guided")
				skipModel = false
			}
		}
	}
	res.Count("guided:iterations>=" + strconv.Itoa(iters/100000*100000))
	res.Notes = append(res.Notes, fmt.Sprintf("guided search: %s, %d candidates, %d kept as new behaviour (pool %d), %d coverage features (block x hit-bucket) of %s and golang.org/x/tools/txtar, %d result shapes, coverage feedback %v",
		d, iters, added, len(pool), len(seen), "github.com/rogpeppe/go-internal/txtar", len(shapes), covOK))
	// keep the pool for inspection / as future corpus candidates
	if rn.f.Work != "" {
		dir := filepath.Join(rn.f.Work, "guided-pool")
		if os.MkdirAll(dir, 0o755) == nil {
			sort.Slice(pool, func(i, j int) bool { return bytes.Compare(pool[i], pool[j]) < 0 })
			for i, p := range pool {
				if i >= 2000 {
					break
				}
				os.WriteFile(filepath.Join(dir, fmt.Sprintf("%04d", i)), p, 0o644)
			}
		}
	}
}

package main

// Multi-call stability oracle ("result-stable-across-calls"): what Quote, Unquote,
// Format and Parse return must not change when the package is called again.  The last
// K results are kept alive exactly as returned, next to a copy taken at return time;
// after every later call (on this goroutine, and regularly from a second one) each
// kept result is compared with its copy.  Inputs are private copies that are never
// written to, so the documented aliasing of Parse's results with its INPUT is not what
// is tested: only later CALLS may not change earlier results.  A second check runs two
// goroutines calling Quote at the same time and compares every result with a reference
// implementation written from the description of the quoted form.
//
// A violation carries both inputs (x, fn: the call whose result changed; x2, fn2: the
// later call that changed it); -replay re-executes the pair.

import (
	"bytes"
	"fmt"
	"sync"

	"github.com/rogpeppe/go-internal/txtar"

	"verif/harness/common"
)

const stableK = 8

type kept struct {
	fn   string
	x    []byte   // the input (private copy)
	live [][]byte // the byte slices of the result, as returned
	snap [][]byte // copies taken at return time
}

type stability struct {
	ring     []kept
	reported int
	calls    int
}

// callTracked calls fn on a private copy of x and returns the byte slices of its result.
func callTracked(fn string, x []byte) (res [][]byte) {
	x = append([]byte{}, x...)
	defer func() {
		if recover() != nil {
			res = nil
		}
	}()
	switch fn {
	case "Quote":
		if q, err := txtar.Quote(x); err == nil {
			res = [][]byte{q}
		}
	case "Unquote":
		if u, err := txtar.Unquote(x); err == nil {
			res = [][]byte{u}
		}
	case "Parse":
		a := txtar.Parse(x)
		res = append(res, a.Comment)
		for _, f := range a.Files {
			res = append(res, f.Data)
		}
	case "Format":
		res = [][]byte{txtar.Format(txtar.Parse(x))}
	case "Format/1": // Format of a one-file archive holding x (what txtar-c does with a quoted body)
		res = [][]byte{txtar.Format(&txtar.Archive{Files: []txtar.File{{Name: "n", Data: x}}})}
	}
	return res
}

func snapshot(live [][]byte) [][]byte {
	s := make([][]byte, len(live))
	for i, l := range live {
		s[i] = append([]byte{}, l...)
	}
	return s
}

func changed(k *kept) bool {
	for i := range k.live {
		if !bytes.Equal(k.live[i], k.snap[i]) {
			return true
		}
	}
	return false
}

// pairFails: the result of fn(x) changes when fn2(x2) is called afterwards.
func pairFails(fn string, x []byte, fn2 string, x2 []byte) bool {
	for try := 0; try < 3; try++ {
		live := callTracked(fn, x)
		k := kept{live: live, snap: snapshot(live)}
		callTracked(fn2, x2)
		if changed(&k) {
			return true
		}
	}
	return false
}

func (st *stability) verify(rn *runner, fn2 string, x2 []byte, where string) {
	for i := range st.ring {
		k := &st.ring[i]
		if !changed(k) {
			continue
		}
		rn.res.Count("oracle-fails:result-stable-across-calls")
		now := snapshot(k.live)
		// forget it (report once) by re-snapshotting
		was := k.snap
		k.snap = now
		if st.reported++; st.reported > 4 {
			continue
		}
		x, y := k.x, append([]byte{}, x2...)
		if pairFails(k.fn, x, fn2, y) {
			y = common.ShrinkBytes(y, func(c []byte) bool { return pairFails(k.fn, x, fn2, c) })
			x = common.ShrinkBytes(x, func(c []byte) bool { return pairFails(k.fn, c, fn2, y) })
		}
		rn.res.Violate(common.Violation{Kind: "impl-violation", Oracle: "result-stable-across-calls",
			Input: map[string]string{"x": common.Hex(x), "x_text": fmt.Sprintf("%q", x), "fn": k.fn,
				"x2": common.Hex(y), "x2_text": fmt.Sprintf("%q", y), "fn2": fn2, "where": where},
			Impl:   fmt.Sprintf("result of %s at return %q, after the later call %q", k.fn, bytes.Join(was, []byte("|")), bytes.Join(now, []byte("|"))),
			Key:    "result-stable-across-calls:" + k.fn + ":" + common.Hex(x) + ":" + fn2 + ":" + common.Hex(y),
			Detail: "a []byte returned by " + k.fn + "(x) changed when " + fn2 + "(x2) was called later (" + where + "): the result aliases storage the package reuses"})
	}
}

// track: call fn(x), verify everything kept so far, keep the new result.
func (st *stability) track(rn *runner, fn string, x []byte) {
	live := callTracked(fn, x)
	st.calls++
	st.verify(rn, fn, x, "same goroutine")
	if len(live) == 0 {
		return
	}
	k := kept{fn: fn, x: append([]byte{}, x...), live: live, snap: snapshot(live)}
	if len(st.ring) < stableK {
		st.ring = append(st.ring, k)
	} else {
		st.ring[st.calls%stableK] = k
	}
}

// fromOtherGoroutine: the same calls made by a second goroutine (it has finished when
// the kept results are verified).
func (st *stability) fromOtherGoroutine(rn *runner, fns []string, x []byte) {
	done := make(chan struct{})
	go func() {
		defer close(done)
		for _, fn := range fns {
			callTracked(fn, x)
		}
	}()
	<-done
	st.verify(rn, fns[len(fns)-1], x, "second goroutine")
}

// refQuote is the quoted form written from its description: '>' in front of every line.
func refQuote(x []byte) []byte {
	var out []byte
	start := true
	for _, b := range x {
		if start {
			out = append(out, '>')
		}
		out = append(out, b)
		start = b == '\n'
	}
	return out
}

var concurrentReported = 0

// concurrentQuote: two goroutines quote x and y at the same time, repeatedly; every
// result must be, and remain until both have finished, the quoted form of its input.
func (st *stability) concurrentQuote(rn *runner, x, y []byte) {
	if _, err := txtar.Quote(x); err != nil {
		return
	}
	if _, err := txtar.Quote(y); err != nil {
		return
	}
	bad := make([]string, 2)
	var wg sync.WaitGroup
	for g, in := range [][]byte{x, y} {
		wg.Add(1)
		go func(g int, in []byte) {
			defer wg.Done()
			defer func() { recover() }()
			want := refQuote(in)
			var results [][]byte
			for i := 0; i < 20; i++ {
				q, err := txtar.Quote(append([]byte{}, in...))
				if err != nil || !bytes.Equal(q, want) {
					bad[g] = fmt.Sprintf("%q", q)
				}
				results = append(results, q)
			}
			for _, q := range results {
				if !bytes.Equal(q, want) {
					bad[g] = fmt.Sprintf("%q", q)
				}
			}
		}(g, in)
	}
	wg.Wait()
	rn.res.Count("stable:concurrent-quote")
	if bad[0] == "" && bad[1] == "" {
		return
	}
	rn.res.Count("oracle-fails:result-stable-across-calls")
	if concurrentReported++; concurrentReported > 2 {
		return
	}
	rn.res.Violate(common.Violation{Kind: "impl-violation", Oracle: "result-stable-across-calls",
		Input: map[string]string{"x": common.Hex(x), "x_text": fmt.Sprintf("%q", x), "fn": "Quote", "x2": common.Hex(y), "x2_text": fmt.Sprintf("%q", y), "fn2": "Quote", "where": "concurrent goroutines"},
		Impl:  bad[0] + " / " + bad[1], Key: "result-stable-across-calls:concurrent:" + common.Hex(x) + ":" + common.Hex(y),
		Detail: "Quote called from two goroutines at once returned (or later showed) something other than the quoted form of its input"})
}

// ---- caller's memory ("caller-memory-unchanged"): the package reads its arguments, it
// must not write to them nor to the storage behind them.  The input is placed in the
// middle of a larger buffer (so that it has spare capacity holding other data, as a
// sub-slice of a file image does); after the call the whole buffer must be as before.

var integrityReported = 0

func callOnSlice(fn string, x []byte) {
	defer func() { recover() }()
	switch fn {
	case "Parse":
		txtar.Parse(x)
	case "NeedsQuote":
		txtar.NeedsQuote(x)
	case "Quote":
		txtar.Quote(x)
	case "Unquote":
		txtar.Unquote(x)
	case "Format": // the comment and the file body are sub-slices with data behind them
		txtar.Format(&txtar.Archive{Comment: x, Files: []txtar.File{{Name: "n", Data: x}}})
	}
}

func integrityFails(fn string, x []byte) (bool, string) {
	pre, post := []byte("PRE"), []byte("Z-- z --\nPOST")
	buf := make([]byte, 0, len(pre)+len(x)+len(post)+8)
	buf = append(append(append(buf, pre...), x...), post...)
	want := append([]byte{}, buf...)
	callOnSlice(fn, buf[len(pre):len(pre)+len(x)]) // len(x) bytes, capacity reaching over post
	if bytes.Equal(buf, want) {
		return false, ""
	}
	return true, fmt.Sprintf("buffer %q became %q", want, buf)
}

func (st *stability) integrity(rn *runner, fns []string, x []byte) {
	for _, fn := range fns {
		bad, how := integrityFails(fn, x)
		if !bad {
			continue
		}
		rn.res.Count("oracle-fails:caller-memory-unchanged")
		if integrityReported++; integrityReported > 3 {
			return
		}
		y := common.ShrinkBytes(x, func(c []byte) bool { b, _ := integrityFails(fn, c); return b })
		_, how = integrityFails(fn, y)
		rn.res.Violate(common.Violation{Kind: "impl-violation", Oracle: "caller-memory-unchanged",
			Input: map[string]string{"x": common.Hex(y), "x_text": fmt.Sprintf("%q", y), "fn": fn, "where": "sub-slice of a larger buffer"},
			Impl:  how, Key: "caller-memory-unchanged:" + fn + ":" + common.Hex(y),
			Detail: fn + "(x) wrote to its argument or to the bytes behind it (x was buf[3:3+len(x)] of a larger buffer): data the caller still owns was changed"})
	}
}

package main

// Directories in which the versions of ONE module are not adjacent in directory order.
//
// The server learns what it stores from os.ReadDir, i.e. in byte order of the entry names
// <escaped path with "/" -> "_">_<escaped version>[.txt|.txtar].  Every entry of module P starts
// with "P_v"; the entries of OTHER modules whose escaped names start with "P_v" as well -- P/v2,
// P/v3 (semantic import versioning), P/v1x, P/v1.5, P/v2x/sub, ... -- sort between P's own
// versions ("example.com_a_v1.0.0" < "example.com_a_v2_v2.0.0" < "example.com_a_v3.0.0+incompatible"),
// and so do, for prerelease versions with upper-case letters ("!" escapes sort before digits),
// siblings named like a version prefix.  Modules that merely share a textual prefix with P
// (P-b, Pb, P.x, P/b, the upper-case P/V2 = "P_!v2") come along as distractors: they sort before
// or after all of P's versions.  The list endpoint must return exactly the stored valid
// non-pseudo versions of the requested path however the entries are interleaved; the directories
// are clean, so every direct oracle of evalDir applies (stored-list compares with wantList
// exactly, info/mod/zip of every version are requested as well).

import (
	"fmt"
	"sort"
	"strings"

	"golang.org/x/mod/module"

	"verif/harness/common"
)

var interSiblings = []string{"v2", "v3", "v11", "v2", "v3", "v1x", "v2x", "v1.5", "v2/sub", "v3/x", "v0x", "v1-0", "v1.0.0-9x", "v10", "v2.1"}
var interDistractors = []string{"-b", "b", ".x", "/b", "/V2", "/vx", "/Vendor", "/u", "-v2"}

// interleaved: some module of td has two listable versions with an entry of ANOTHER path between
// them in byte order of the entry names
func (td *TestDir) interleaved() (string, bool) {
	type ent struct{ name, path string }
	var es []ent
	for _, m := range td.Mods {
		if n, ok := m.entryName(); ok {
			es = append(es, ent{n, m.Path})
		}
	}
	sort.Slice(es, func(i, j int) bool { return es[i].name < es[j].name })
	listable := map[string]map[string]bool{}
	for _, m := range td.Mods {
		if module.Check(m.Path, m.Vers) == nil && !module.IsPseudoVersion(m.Vers) {
			if listable[m.Path] == nil {
				listable[m.Path] = map[string]bool{}
			}
			n, _ := m.entryName()
			listable[m.Path][n] = true
		}
	}
	for p, names := range listable {
		if len(names) < 2 {
			continue
		}
		first, last := -1, -1
		for i, e := range es {
			if e.path == p && names[e.name] {
				if first < 0 {
					first = i
				}
				last = i
			}
		}
		for i := first + 1; i < last; i++ {
			if es[i].path != p {
				return p, true
			}
		}
	}
	return "", false
}

func genInterleavedDir(r *common.RNG) *TestDir {
	var td *TestDir
	for attempt := 0; attempt < 40; attempt++ {
		td = &TestDir{Clean: true}
		used := map[string]bool{}
		add := func(p, v string) {
			if module.CheckPath(p) != nil || strings.Contains(p, "_") || strings.Contains(v, "_") {
				return
			}
			m := genMod(r, p, v)
			n, ok := diskName(m)
			if !ok || used[strings.ToLower(n)] {
				return
			}
			used[strings.ToLower(n)] = true
			td.Mods = append(td.Mods, m)
		}
		// the base module: no major suffix, versions on both sides of its siblings
		parts := []string{common.Pick(r, domains[:5])}
		for i, n := 0, r.Intn(3); i < n; i++ {
			if r.Chance(1, 3) {
				parts = append(parts, common.Pick(r, upperElems))
			} else {
				parts = append(parts, common.Pick(r, []string{"a", "x", "mod", "pkg", "go-internal", "a.b.c"}))
			}
		}
		base := strings.Join(parts, "/")
		for i, n := 0, 2+r.Intn(4); i < n; i++ {
			switch r.Intn(7) {
			case 0:
				add(base, fmt.Sprintf("v0.%d.%d", r.Intn(4), r.Intn(10)))
			case 1, 2:
				add(base, fmt.Sprintf("v1.%d.%d", r.Intn(4), r.Intn(10)))
			case 3:
				add(base, fmt.Sprintf("v1.0.0-%s", common.Pick(r, []string{"Alpha", "beta", "RC.1", "pre", "0.x", "zz"})))
			default:
				add(base, fmt.Sprintf("v%d.%d.%d+incompatible", 2+r.Intn(11), r.Intn(3), r.Intn(3)))
			}
		}
		// siblings whose escaped names start with the base module's "P_v"
		for i, n := 0, 1+r.Intn(3); i < n; i++ {
			p := base + "/" + common.Pick(r, interSiblings)
			for j, nv := 0, 1+r.Intn(2); j < nv; j++ {
				v, _ := genVers(r, p)
				add(p, v)
			}
		}
		// distractors: same textual prefix, sorted before or after all versions of the base module
		for i, n := 0, r.Intn(3); i < n; i++ {
			p := base + common.Pick(r, interDistractors)
			v, _ := genVers(r, p)
			add(p, v)
		}
		if r.Chance(1, 2) {
			// generation order is not directory order
			r2 := r.Fork()
			sort.SliceStable(td.Mods, func(i, j int) bool { return r2.Bool() })
		}
		if _, ok := td.interleaved(); ok {
			return td
		}
	}
	return td
}

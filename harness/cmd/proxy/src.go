package main

import (
	"fmt"
	"os"
	"path/filepath"
	"strings"
	"time"

	"golang.org/x/mod/module"

	"verif/harness/common"
)

// The segments of goproxytest/proxy.go that harness/go2coq translates on every run
// (Gen/ProxySrc.v), composed by the glue of Proxy/SrcGlue.v and extracted to a binary of their own
// (bin/model_proxy_src, ocaml/proxy/src_driver.ml).  For every directory and every request of the
// sequential phase the answer of the translated segments is compared with the model's answer,
// which evalDir compares with the implementation's: a test of the translator, of Lib/GoSem*.v and
// of Proxy/SrcLib.v (by Proxy/SrcSegFacts.v the two answers are equal for every input).  The file
// names of readArchive are compared with x/mod and path/filepath directly.
//
// ocaml/build_src.sh removes the binary when the translated text no longer fits its driver (a
// candidate change gave a segment another signature, or the translation failed): everything else
// runs, and a note says that the translated segments were not run.

// startSrc starts the second model binary for one worker; nil when there is none.
func startSrc(f *common.Flags, res *common.Result, first bool) *modelConn {
	srcBin := f.Model + "_src"
	if _, err := os.Stat(srcBin); err != nil {
		if first {
			res.Notes = append(res.Notes, "no "+filepath.Base(srcBin)+" (the translated segments of proxy.go could not be extracted or no longer fit ocaml/proxy/src_driver.ml): they were not run")
		}
		return nil
	}
	m, err := common.StartModel(srcBin)
	if err != nil {
		if first {
			res.Notes = append(res.Notes, "cannot start "+filepath.Base(srcBin)+": "+err.Error())
		}
		return nil
	}
	if probe := m.Ask1("shex 30396166"); probe != "true" {
		if first {
			res.Notes = append(res.Notes, filepath.Base(srcBin)+" does not answer the src requests ("+clip([]byte(probe))+"): the translated segments were not run")
		}
		m.Close()
		return nil
	}
	return &modelConn{m: m}
}

// srcCompare: the translated segments on the directory and the requests the model has just answered.
func (rn *runner) srcCompare(mc *modelConn, td *TestDir, root, dreq string, reqs []request, mans []string, report bool,
	fail func(kind, oracle, u, model, impl, detail string)) {
	if mc.src == nil {
		return
	}
	t0 := time.Now()
	defer func() { addT(&tSrc, time.Since(t0)) }()
	// quick tier: every directory, a stride of its requests (at most about 70, so that every
	// request class is met); thorough: all of them
	stride := 1
	if rn.f.Tier != "thorough" && len(reqs) > 70 {
		stride = (len(reqs) + 69) / 70
	}
	sreqs := []string{dreq, "smodlist"}
	idx := []int{0, 1}
	for i, q := range reqs {
		if (i+td.idx)%stride == 0 {
			sreqs = append(sreqs, "sreq "+hx(q.URL))
			idx = append(idx, i+2)
		}
	}
	sans, err := mc.src.ask(sreqs)
	if err != nil || len(sans) != len(sreqs) {
		rn.note("translated segments: the src model failed on a directory (" + clip([]byte(strings.Join(sans, " "))) + ")")
		return
	}
	for k := 1; k < len(sans); k++ {
		i := idx[k]
		u, what := "", "modlist"
		if i >= 2 {
			u, what = reqs[i-2].URL, "request"
		}
		if report {
			rn.count("src-translated:" + what)
		}
		if sans[k] != mans[i] {
			fail("correspondence", "translated-source/"+what, u, clip([]byte(mans[i])), clip([]byte(sans[k])),
				"the translated segments of proxy.go (Gen/ProxySrc.v composed by Proxy/SrcGlue.v, answer under Impl) and the hand-written model (Model) disagree: Proxy/SrcSegFacts.v proves them equal, so the extraction, the translator's reading or the driver is wrong")
			return
		}
	}
	// readArchive: the three candidate names against x/mod's escaping and filepath.Join
	for k, m := range td.Mods {
		if k >= 3 {
			break
		}
		want := "ret-nil"
		ep, err1 := module.EscapePath(m.Path)
		ev, err2 := module.EscapeVersion(m.Vers)
		if err1 == nil && err2 == nil {
			name := filepath.Join(root, strings.ReplaceAll(ep, "/", "_")+"_"+ev)
			want = hx(name) + " " + hx(name+".txt") + " " + hx(name+".txtar")
		}
		got := mc.src.ask1("snames " + hx(root) + " " + hx(m.Path) + " " + hx(m.Vers))
		if report {
			rn.count("src-translated:archive-names")
		}
		if got != want {
			fail("correspondence", "translated-source/archive-names", m.Path+"@"+m.Vers, want, got,
				"the translated beginning of readArchive (answer under Impl) and module.EscapePath / EscapeVersion / filepath.Join (Model) disagree on the candidate file names")
			return
		}
		if m.Layout == "dir" && err1 == nil && err2 == nil {
			name := filepath.Join(root, strings.ReplaceAll(ep, "/", "_")+"_"+ev)
			for j, f := range m.Files {
				if j >= 3 {
					break
				}
				p := filepath.Join(name, filepath.FromSlash(f.Name))
				want := hx(filepath.ToSlash(strings.TrimPrefix(p, name+string(os.PathSeparator))))
				got := mc.src.ask1("sarpath " + hx(name) + " " + hx(p))
				if report {
					rn.count("src-translated:arpath")
				}
				if got != want {
					fail("correspondence", "translated-source/arpath", p, want, got,
						"the translated arpath computation of the WalkDir callback (Impl) and strings.TrimPrefix / filepath.ToSlash (Model) disagree")
					return
				}
			}
		}
	}
}

var tSrc time.Duration

func srcTimeNote() string {
	return fmt.Sprintf("translated segments of proxy.go (second model binary): %.1fs", tSrc.Seconds())
}

package main

// Cross-checks of the Gallina model of x/mod (coq/theories/Proxy/XMod.v) and of the generated
// pseudo-version expression against the real golang.org/x/mod, regexp and semver:
//   - every decision the model takes while answering requests (driver command "xlog"),
//   - directly, on generated near-valid strings (xmodFuzz),
//   - by re-answering some directories from oracle tables instead (mode tables).

import (
	"fmt"
	"strings"

	"golang.org/x/mod/module"
	"golang.org/x/mod/semver"

	"verif/harness/common"
)

func isASCII(s string) bool {
	for i := 0; i < len(s); i++ {
		if s[i] >= 0x80 {
			return false
		}
	}
	return true
}

// xmodTruth is x/mod's answer for one logged decision.
func (mc *modelConn) xmodTruth(kind string, keys []string) (bool, bool) {
	for _, k := range keys {
		if !isASCII(k) {
			return false, false // outside the ASCII model (never reached through the handler)
		}
	}
	switch kind {
	case "cp":
		return module.CheckPath(keys[0]) == nil, true
	case "ce":
		return checkElemFile(keys[0]), true
	case "sv":
		return semver.IsValid(keys[0]), true
	case "re":
		return mc.pseudoRE.MatchString(keys[0]), true
	case "mc":
		return module.Check(keys[0], keys[1]) == nil, true
	case "lt":
		return semver.Compare(keys[0], keys[1]) < 0, true
	}
	return false, false
}

// checkXlog asks the model for the decisions it took since the last call and compares each with x/mod.
func (rn *runner) checkXlog(mc *modelConn) []failure {
	var fails []failure
	line := mc.ask1("xlog")
	for _, e := range strings.Split(line, " ; ")[1:] {
		f := strings.Fields(e)
		if len(f) < 3 {
			continue
		}
		var keys []string
		for _, h := range f[1 : len(f)-1] {
			keys = append(keys, string(common.UnHex(h)))
		}
		want, ok := mc.xmodTruth(f[0], keys)
		if !ok {
			continue
		}
		rn.count("xmod-decision:" + f[0])
		if want != (f[len(f)-1] == "1") {
			fails = append(fails, failure{"correspondence", "xmod:" + f[0], "", f[len(f)-1], b01(want),
				fmt.Sprintf("the Gallina model of x/mod and x/mod itself disagree on %q", keys)})
		}
	}
	return fails
}

// ---------------------------------------------------------------- direct comparison on generated strings

var pathAtoms = []string{"example.com", "a.b", "gopkg.in", "x", "v2", "v1", "v0", "v10", "v02", "v2.1", "yaml.v2", "yaml.v0", "check.v1-unstable", "yaml.v02", ".v1",
	"Foo", "con", "COM1", "com1.txt", "nul.x", "lpt9", "aux", "x~1", "x~12a", "~1", "a~", ".x", "x.", "..", ".", "", "-x", "x-", "a_b", "a+b", "a b", "a@b", "a!b", "é", "%20", "v", "vv2", "v2x", "UPPER.com", "-dash.com", "nodot"}
var versAtoms = []string{"v", "0", "1", "2", "10", "01", ".", "-", "+", "pre", "rc", "alpha", "beta", "0.x", "00", "incompatible", "20180101000000", "2018010100000", "abcdef123456", "A1b2", "meta", "..", "x", "_", "!", " ", "v1.0.0", "v0.0.0-", "v2.0.0+incompatible", "-0.", "-pre.0."}

func genFrom(r *common.RNG, atoms []string, sep string, maxn int) string {
	n := 1 + r.Intn(maxn)
	var parts []string
	for i := 0; i < n; i++ {
		parts = append(parts, common.Pick(r, atoms))
	}
	return strings.Join(parts, sep)
}

func (rn *runner) xmodFuzz(r *common.RNG, n int) {
	mc := <-rn.models
	defer func() { rn.models <- mc }()
	type q struct{ req, want, what string }
	var qs []q
	add := func(req, want, what string) { qs = append(qs, q{req, want, what}) }
	bs := func(b bool) string { return fmt.Sprint(b) }
	var lastV string
	for i := 0; i < n; i++ {
		p := genFrom(r, pathAtoms, "/", 4)
		if r.Chance(1, 3) {
			p = genPath(r)
			if r.Chance(1, 3) {
				p += common.Pick(r, []string{"/v1", "/v2.0", "/v03", ".", "/", "//x", "~1", "/con"})
			}
		}
		v := genFrom(r, versAtoms, "", 7)
		if r.Chance(1, 2) {
			v, _ = genVers(r, p)
			if r.Chance(1, 4) {
				v += common.Pick(r, []string{"+", "-", ".", "+a..b", "-01", "-a.01", "-a.0", "+meta-x.1", "-x+y", "0"})
			}
		}
		if !isASCII(p) || !isASCII(v) {
			continue
		}
		add("x cp "+hx(p), bs(module.CheckPath(p) == nil), "CheckPath")
		pre, pm, ok := module.SplitPathVersion(p)
		add("x split "+hx(p), hx(pre)+" "+hx(pm)+" "+bs(ok), "SplitPathVersion")
		add("x ce "+hx(v), bs(checkElemFile(v)), "checkElem(filePath)")
		add("x ce "+hx(p), bs(checkElemFile(p)), "checkElem(filePath)")
		add("x sv "+hx(v), bs(semver.IsValid(v)), "semver.IsValid")
		add("x canon "+hx(v), hx(semver.Canonical(v)), "semver.Canonical")
		add("x re "+hx(v), bs(mc.pseudoRE.MatchString(v)), "pseudoVersionRE")
		add("x mc "+hx(p)+" "+hx(v), bs(module.Check(p, v) == nil), "module.Check")
		add("x cmp "+hx(lastV)+" "+hx(v), fmt.Sprint(semver.Compare(lastV, v)), "semver.Compare")
		add("x cmp "+hx(v)+" "+hx(lastV), fmt.Sprint(semver.Compare(v, lastV)), "semver.Compare")
		lastV = v
	}
	var reqs []string
	for _, x := range qs {
		reqs = append(reqs, x.req)
	}
	ans, err := mc.ask(reqs)
	if err != nil {
		rn.note("xmod fuzz: model error " + err.Error())
		return
	}
	for i, x := range qs {
		bucket := "other"
		if x.want == "true" || x.want == "false" || x.want == "-1" || x.want == "0" || x.want == "1" {
			bucket = x.want
		}
		rn.count("xmod-direct:" + x.what + ":" + bucket)
		rn.caseOf("x|"+x.req, true)
		if ans[i] != x.want {
			rn.mu.Lock()
			rn.res.Violate(common.Violation{Kind: "correspondence", Oracle: "xmod-direct:" + x.what,
				Input: map[string]string{"request": x.req, "args_text": fmt.Sprintf("%q", argsText(x.req))}, Model: ans[i], Impl: x.want, Key: x.req,
				Detail: "the Gallina model of x/mod (Proxy/XMod.v) and x/mod v0.21.0 disagree"})
			rn.mu.Unlock()
		}
	}
}

func argsText(req string) []string {
	var out []string
	for _, h := range strings.Fields(req)[2:] {
		out = append(out, string(common.UnHex(h)))
	}
	return out
}

package main

// Concurrent first LIST requests on modules with very many versions (oracle "list-exact/...").
//
// The module list is built once at start-up and read by every handler (list, commit-hash
// resolution) without a lock, which is fine as long as NO handler writes to it.  The property
// speaks of the set of versions ("returns exactly the valid non-pseudo versions") and of "any
// number of concurrent requests", so this phase checks exactly that, on a state that is large
// enough for a concurrent writer to be caught in the act: two or three modules with hundreds to
// thousands of stored versions each (tiny .txt archives; directory order = lexical file-name
// order, which differs from semver order: v1.0.10 < v1.0.9, v1.10.0 < v1.9.0; pseudo-versions,
// prereleases, +incompatible, versions of the wrong major and invalid ones mixed in), a FRESH
// server per round, k concurrent first list requests spread over the modules plus concurrent
// info/mod/zip/commit-hash requests; then
//   - every list response must be 200 and its lines, as a multiset, exactly the listable stored
//     versions of that module (nothing missing, nothing twice, nothing from the other module),
//   - the same requests again, sequentially, on the same server (the state after the batch),
//   - the sampled info/mod/zip responses must be the stored ones and a commit-hash request must
//     resolve as on a quiet server,
//   - the race detector's log is read.
// Expectations are deterministic (computed from the generator's intent with x/mod).

import (
	"bytes"
	"fmt"
	"os"
	"path/filepath"
	"sort"
	"strings"
	"sync"
	"time"

	"github.com/rogpeppe/go-internal/goproxytest"
	"golang.org/x/mod/module"

	"verif/harness/common"
)

// ManySpec describes the directory deterministically (a replay regenerates it from here).
type ManySpec struct {
	NMods   int    `json:"nmods"`
	NVers   int    `json:"nvers"` // stored versions per module
	Clients int    `json:"clients"`
	Rounds  int    `json:"rounds"`
	Seed    uint64 `json:"seed"`
}

var manySpecsQuick = []ManySpec{
	{NMods: 2, NVers: 1500, Clients: 8, Rounds: 3},
	{NMods: 3, NVers: 300, Clients: 16, Rounds: 4},
}

var manySpecsThorough = []ManySpec{
	{NMods: 2, NVers: 1500, Clients: 8, Rounds: 10},
	{NMods: 3, NVers: 300, Clients: 16, Rounds: 20},
	{NMods: 2, NVers: 6000, Clients: 12, Rounds: 6},
	{NMods: 5, NVers: 60, Clients: 32, Rounds: 30},
}

// dir builds the module versions: distinct versions of every kind for each module.
func (sp ManySpec) dir() *TestDir {
	r := common.NewRNG(sp.Seed)
	td := &TestDir{Clean: true}
	paths := []string{"many.example/Versions", "many.example/other/v2", "many.example/third", "a.b/c", "many.example/Versions/sub"}
	for mi := 0; mi < sp.NMods; mi++ {
		path := paths[mi%len(paths)]
		if mi >= len(paths) {
			path += fmt.Sprint("/n", mi)
		}
		maj := pathMajor(path)
		if maj == "" {
			maj = "v1"
		}
		seen := map[string]bool{}
		for len(seen) < sp.NVers {
			var v string
			switch r.Intn(16) {
			case 0:
				v = fmt.Sprintf("%s.%d.%d-rc.%d", maj, r.Intn(30), r.Intn(30), r.Intn(12))
			case 1:
				v = fmt.Sprintf("%s.0.0-2018%02d%02d%02d0000-%s", maj, 1+r.Intn(12), 1+r.Intn(28), r.Intn(24), common.Pick(r, hashes))
			case 2:
				v = fmt.Sprintf("v%d.%d.%d+incompatible", 2+r.Intn(8), r.Intn(12), r.Intn(12))
			case 3:
				v = fmt.Sprintf("v%d.%d.%d", 3+r.Intn(7), r.Intn(12), r.Intn(12)) // wrong major for the path
			case 4:
				v = fmt.Sprintf("%s.%d.x%d", maj, r.Intn(30), r.Intn(100)) // not semver
			default:
				v = fmt.Sprintf("%s.%d.%d", maj, r.Intn(40), r.Intn(120))
			}
			if seen[strings.ToLower(v)] {
				continue
			}
			if _, ok := escVers(v); !ok {
				continue
			}
			seen[strings.ToLower(v)] = true
			short := ""
			if r.Chance(1, 50) {
				short = fmt.Sprintf(",\"Short\":\"%012x\"", r.Uint64()&0xffffffffffff)
			}
			td.Mods = append(td.Mods, Mod{Path: path, Vers: v, Layout: "txt", Files: []File{
				{".info", []byte(fmt.Sprintf("{\"Version\":%q%s}\n", v, short))},
				{".mod", []byte("module " + path + " // " + v + " 100%\n")},
				{"v.go", []byte("package v // " + v + "\n")}}})
		}
	}
	return td
}

// checkListExact: status 200 (404 when nothing is listable) and the lines, as a multiset, are
// exactly want; "" = fine.
func checkListExact(r resp, want []string) string {
	if r.Err != "" {
		return "transport error: " + r.Err
	}
	if len(want) == 0 {
		if r.Status != 404 {
			return fmt.Sprintf("no listable version stored, status %d", r.Status)
		}
		return ""
	}
	if r.Status != 200 {
		return fmt.Sprintf("status %d, want 200 with %d versions", r.Status, len(want))
	}
	got := listLines(r.Body)
	if strings.Join(got, "\n") == strings.Join(want, "\n") && bytes.HasSuffix(r.Body, []byte("\n")) {
		return ""
	}
	// describe the difference compactly
	cnt := map[string]int{}
	for _, v := range got {
		cnt[v]++
	}
	var missing, twice, foreign []string
	ws := map[string]bool{}
	for _, v := range want {
		ws[v] = true
		if cnt[v] == 0 {
			missing = append(missing, v)
		}
	}
	for v, c := range cnt {
		if !ws[v] {
			foreign = append(foreign, v)
		} else if c > 1 {
			twice = append(twice, fmt.Sprintf("%s x%d", v, c))
		}
	}
	sort.Strings(foreign)
	sort.Strings(twice)
	cut := func(l []string) string {
		if len(l) > 5 {
			return fmt.Sprintf("%q and %d more", l[:5], len(l)-5)
		}
		return fmt.Sprintf("%q", l)
	}
	return fmt.Sprintf("list has %d lines, the module has %d listable stored versions: missing %s, more than once %s, not stored for this module %s",
		len(got), len(want), cut(missing), cut(twice), cut(foreign))
}

func (rn *runner) manyOne(sp ManySpec, report bool) []failure {
	var fails []failure
	td := sp.dir()
	root := filepath.Join(rn.f.Work, fmt.Sprintf("many%05d", rn.nextDir()))
	defer os.RemoveAll(root)
	if err := td.materialise(root); err != nil {
		rn.note("many-versions directory could not be written: " + err.Error())
		return nil
	}
	var paths []string
	want := map[string][]string{}
	byPath := map[string][]*Mod{}
	for i := range td.Mods {
		m := &td.Mods[i]
		if _, ok := want[m.Path]; !ok {
			paths = append(paths, m.Path)
			want[m.Path] = td.wantList(m.Path)
		}
		byPath[m.Path] = append(byPath[m.Path], m)
	}
	desc := fmt.Sprintf("%d modules x %d stored versions (directory order is not semver order)", sp.NMods, sp.NVers)
	r := common.NewRNG(sp.Seed ^ 0x6c697374)
	for round := 0; round < sp.Rounds && len(fails) == 0; round++ {
		srv, err := goproxytest.NewServer(root, "127.0.0.1:0")
		if err != nil {
			fails = append(fails, failure{"impl-violation", "list-exact/start", "", "", err.Error(), "server does not start on " + desc})
			break
		}
		host := hostOf(srv)
		type cl struct {
			url   string
			path  string // list request for this module ...
			mod   *Mod   // ... or a file request for this version
			ext   string
			delay time.Duration
		}
		var cls []cl
		for i := 0; i < sp.Clients; i++ {
			p := paths[i%len(paths)]
			u, _ := listURL(p)
			cls = append(cls, cl{url: u, path: p, delay: time.Duration(r.Intn(300)) * time.Microsecond})
		}
		for i := 0; i < sp.Clients/2; i++ {
			ms := byPath[paths[r.Intn(len(paths))]]
			m := ms[r.Intn(len(ms))]
			e := common.Pick(r, []string{"info", "mod", "zip"})
			u, _ := fileURL(m.Path, m.Vers, e)
			cls = append(cls, cl{url: u, mod: m, ext: e, delay: time.Duration(r.Intn(2000)) * time.Microsecond})
		}
		cls[r.Intn(sp.Clients)].delay = 0
		out := make([]resp, len(cls))
		var wg sync.WaitGroup
		start := make(chan struct{})
		for i := range cls {
			wg.Add(1)
			go func(i int) {
				defer wg.Done()
				<-start
				time.Sleep(cls[i].delay)
				out[i] = get(host, cls[i].url)
			}(i)
		}
		t0 := time.Now()
		close(start)
		wg.Wait()
		addT(&tMany, time.Since(t0))
		check := func(phase string, c cl, o resp) bool {
			msg := ""
			if c.mod != nil {
				if o.Err != "" {
					msg = "transport error: " + o.Err
				} else {
					msg = td.checkStored(c.mod, c.ext, o)
				}
			} else {
				msg = checkListExact(o, want[c.path])
			}
			if msg == "" {
				return true
			}
			oracle := "list-exact/" + phase
			if c.mod != nil {
				oracle = "concurrent-correct/" + c.ext
			}
			fails = append(fails, failure{"impl-violation", oracle, c.url, "", clip([]byte(msg)),
				fmt.Sprintf("round %d, %s, fresh server on %s, %d concurrent first list requests and %d file requests: %s", round, phase, desc, sp.Clients, sp.Clients/2, msg)})
			return false
		}
		ok := true
		for i := range cls {
			if report {
				rn.count("many-versions-request:concurrent")
				rn.caseOf(fmt.Sprintf("many|%d|%d|%d|%d", sp.NMods, sp.NVers, round, i), true)
			}
			if ok = check("concurrent-first-requests", cls[i], out[i]); !ok {
				break
			}
		}
		// the state the batch left behind: the same server, asked sequentially
		for _, p := range paths {
			if !ok {
				break
			}
			u, _ := listURL(p)
			if report {
				rn.count("many-versions-request:sequential-afterwards")
				rn.caseOf(fmt.Sprintf("many-after|%d|%d|%d|%s", sp.NMods, sp.NVers, round, p), true)
			}
			ok = check("sequential-after-the-batch", cl{url: u, path: p}, get(host, u))
		}
		// commit-hash resolution reads the module list too
		for k := 0; ok && k < 3; k++ {
			ms := byPath[paths[r.Intn(len(paths))]]
			m := ms[r.Intn(len(ms))]
			if c := commitOf(m); c != "" && module.Check(m.Path, m.Vers) == nil {
				u := "/mod/" + must(escPath(m.Path)) + "/@v/" + c + ".info"
				if msg := td.checkHash(u, get(host, u)); msg != "" {
					fails = append(fails, failure{"impl-violation", "hash-resolution", u, "", "", fmt.Sprintf("round %d, after the concurrent batch on %s: %s", round, desc, msg)})
					ok = false
				}
			}
		}
		srv.Close()
		if g := rn.raceLogGrowth(); strings.Contains(g, "DATA RACE") {
			u, _ := listURL(paths[0])
			fails = append(fails, failure{"impl-violation", "concurrent/race-detector", u, "", "", raceSummary(g)})
		}
	}
	return fails
}

var tMany time.Duration

func (rn *runner) manyPhase(seed uint64, tier string) (report func()) {
	specs := append([]ManySpec{}, manySpecsQuick...)
	if tier == "thorough" {
		specs = append([]ManySpec{}, manySpecsThorough...)
	}
	r := common.NewRNG(seed ^ 0x3a3a3a)
	results := make([][]failure, len(specs))
	took := make([]time.Duration, len(specs))
	for i := range specs {
		specs[i].Seed = r.Uint64()
		rn.count("src:many-versions")
		t0 := time.Now()
		results[i] = rn.manyOne(specs[i], true)
		took[i] = time.Since(t0)
	}
	return func() {
		for i, sp := range specs {
			for _, fl := range results[i] {
				rn.violateMany(sp, fl)
			}
			rn.note(fmt.Sprintf("many-versions directory, %d modules x %d versions: %d rounds of %d concurrent first list requests (+%d file requests) on fresh servers, lists compared as multisets, took %.1fs",
				sp.NMods, sp.NVers, sp.Rounds, sp.Clients, sp.Clients/2, took[i].Seconds()))
		}
	}
}

func (rn *runner) violateMany(sp ManySpec, fl failure) {
	td := &TestDir{Clean: true, Many: &sp}
	rn.count("failure:" + fl.kind + ":" + fl.oracle)
	rn.res.Violate(common.Violation{Kind: fl.kind, Oracle: fl.oracle,
		Input: map[string]string{"dir": tdJSON(td), "url": fl.url, "url_text": fmt.Sprintf("%q", fl.url), "class": "many-versions"},
		Impl:  fl.impl, Detail: fl.detail, Key: fl.oracle + ":many:" + fmt.Sprint(sp.NMods, "x", sp.NVers)})
}

package main

// Generation of module directories for C20 and their materialisation on disk.

import (
	"bytes"
	"encoding/hex"
	"encoding/json"
	"fmt"
	"os"
	"path/filepath"
	"sort"
	"strings"
	"unicode/utf8"

	"golang.org/x/mod/module"
	"golang.org/x/tools/txtar"

	"verif/harness/common"
)

// File is one archive member.
type File struct {
	Name string `json:"name"`
	Data []byte `json:"data"`
}

// MarshalJSON / UnmarshalJSON: a member name that is not valid UTF-8 would be rewritten by
// encoding/json (U+FFFD); it travels as name_hex so that a replay recreates the same bytes.
func (f File) MarshalJSON() ([]byte, error) {
	type plain struct {
		Name    string `json:"name"`
		NameHex string `json:"name_hex,omitempty"`
		Data    []byte `json:"data"`
	}
	p := plain{Name: f.Name, Data: f.Data}
	if !utf8.ValidString(f.Name) {
		p.Name, p.NameHex = fmt.Sprintf("%q", f.Name), hex.EncodeToString([]byte(f.Name))
	}
	return json.Marshal(p)
}

func (f *File) UnmarshalJSON(b []byte) error {
	var p struct {
		Name    string `json:"name"`
		NameHex string `json:"name_hex"`
		Data    []byte `json:"data"`
	}
	if err := json.Unmarshal(b, &p); err != nil {
		return err
	}
	f.Name, f.Data = p.Name, p.Data
	if p.NameHex != "" {
		n, err := hex.DecodeString(p.NameHex)
		if err != nil {
			return err
		}
		f.Name = string(n)
	}
	return nil
}

// Mod is one generated module version and the way it is laid out on disk.
type Mod struct {
	Path   string `json:"path"`
	Vers   string `json:"vers"`
	Layout string `json:"layout"` // "txt" | "txtar" | "dir"
	Files  []File `json:"files"`
	// Realistic: .info/.mod/go.mod are what the go command expects (used for go mod download).
	Realistic bool `json:"realistic,omitempty"`
}

// Extra is a directory entry that is not the canonical archive of a module version
// (a stray file, a directory with an archive suffix, a name that cannot be decoded, ...).
type Extra struct {
	Name  string `json:"name"`
	IsDir bool   `json:"is_dir"`
	Data  []byte `json:"data,omitempty"`
}

// TestDir is a whole served directory.
type TestDir struct {
	Mods   []Mod   `json:"mods"`
	Extras []Extra `json:"extras,omitempty"`
	// Clean: no "_" in any path or version, every version starts with "v", no extras that
	// shadow or alias a module: the direct oracles apply.  Otherwise the directory is only
	// compared with the model.
	Clean bool `json:"clean"`
	// Probes: additional URL paths to request (model comparison only).
	Probes []string `json:"probes,omitempty"`
	// Big: a big module generated from a compact description (see big.go); Mods is empty then.
	Big *BigSpec `json:"big,omitempty"`
	// Many: a directory of modules with very many versions (see many.go); Mods is empty then.
	Many *ManySpec `json:"many,omitempty"`
	idx  int       // position in the run (stable key for the statistics)
}

func escPath(p string) (string, bool) {
	e, err := module.EscapePath(p)
	return e, err == nil
}
func escVers(v string) (string, bool) {
	e, err := module.EscapeVersion(v)
	return e, err == nil
}

// diskName is the on-disk name (without suffix) the package documentation prescribes.
func diskName(m Mod) (string, bool) {
	ep, ok1 := escPath(m.Path)
	ev, ok2 := escVers(m.Vers)
	if !ok1 || !ok2 {
		return "", false
	}
	return strings.ReplaceAll(ep, "/", "_") + "_" + ev, true
}

func (m Mod) entryName() (string, bool) {
	n, ok := diskName(m)
	if !ok {
		return "", false
	}
	switch m.Layout {
	case "txt":
		return n + ".txt", true
	case "txtar":
		return n + ".txtar", true
	}
	return n, true
}

// materialise writes the directory; it returns false when some name cannot be created.
func (td *TestDir) materialise(root string) error {
	if err := os.MkdirAll(root, 0o755); err != nil {
		return err
	}
	for _, m := range td.Mods {
		name, ok := m.entryName()
		if !ok {
			return fmt.Errorf("module %s@%s has no disk name", m.Path, m.Vers)
		}
		full := filepath.Join(root, name)
		if m.Layout == "dir" {
			if err := os.MkdirAll(full, 0o755); err != nil {
				return err
			}
			for _, f := range m.Files {
				p := filepath.Join(full, filepath.FromSlash(f.Name))
				if err := os.MkdirAll(filepath.Dir(p), 0o755); err != nil {
					return err
				}
				if err := os.WriteFile(p, f.Data, 0o644); err != nil {
					return err
				}
			}
			continue
		}
		a := &txtar.Archive{Comment: []byte("module " + m.Path + "@" + m.Vers + "\n\n")}
		for _, f := range m.Files {
			a.Files = append(a.Files, txtar.File{Name: f.Name, Data: f.Data})
		}
		if err := os.WriteFile(full, txtar.Format(a), 0o644); err != nil {
			return err
		}
	}
	for _, e := range td.Extras {
		full := filepath.Join(root, filepath.FromSlash(e.Name))
		if err := os.MkdirAll(filepath.Dir(full), 0o755); err != nil {
			return err
		}
		if e.IsDir {
			if err := os.MkdirAll(full, 0o755); err != nil {
				return err
			}
			if len(e.Data) > 0 {
				if err := os.WriteFile(filepath.Join(full, "x"), e.Data, 0o644); err != nil {
					return err
				}
			}
		} else if err := os.WriteFile(full, e.Data, 0o644); err != nil {
			return err
		}
	}
	return nil
}

// ---------------------------------------------------------------- generators

var domains = []string{"example.com", "rsc.io", "golang.org", "fruit.com", "a.b", "gopkg.in", "x9.io", "my-host.org"}
var lowerElems = []string{"x", "tools", "mod", "pkg", "quote", "sub", "vx", "v", "vendor", "go-internal", "a.b.c", "yaml", "z~y", "v2x"}
var upperElems = []string{"Sirupsen", "BurntSushi", "X", "ABC", "mixedCase", "aB", "Azure", "GoLang", "vX"}
var majors = []string{"v2", "v3", "v11"}

func genPath(r *common.RNG) string {
	for {
		parts := []string{common.Pick(r, domains)}
		n := r.Intn(4)
		for i := 0; i < n; i++ {
			if r.Chance(2, 5) {
				parts = append(parts, common.Pick(r, upperElems))
			} else {
				parts = append(parts, common.Pick(r, lowerElems))
			}
		}
		if parts[0] == "gopkg.in" {
			parts = []string{"gopkg.in", common.Pick(r, []string{"yaml", "Check"}) + "." + common.Pick(r, []string{"v2", "v1", "v0"})}
		} else if r.Chance(1, 4) {
			parts = append(parts, common.Pick(r, majors))
		}
		p := strings.Join(parts, "/")
		if module.CheckPath(p) == nil && !strings.Contains(p, "_") {
			return p
		}
	}
}

var hashes = []string{"abcdef123456", "0123456789ab", "deadbeefcafe", "A1b2C3d4E5f6", "ffffffffffff"}

func pathMajor(p string) string {
	_, pm, _ := module.SplitPathVersion(p)
	return module.PathMajorPrefix(pm) // "", "v2", ...
}

// genVers returns a version for path; kind tells how it was meant.
func genVers(r *common.RNG, path string) (string, string) {
	maj := pathMajor(path)
	if maj == "" {
		maj = common.Pick(r, []string{"v0", "v1", "v1", "v1"})
	}
	switch r.Intn(12) {
	case 0, 1, 2, 3:
		return fmt.Sprintf("%s.%d.%d", maj, r.Intn(4), r.Intn(10)), "semver"
	case 4:
		return fmt.Sprintf("%s.%d.%d-%s", maj, r.Intn(3), r.Intn(3), common.Pick(r, []string{"pre", "rc.1", "beta", "Alpha.2", "0.x"})), "prerelease"
	case 5:
		return fmt.Sprintf("%s.0.0-2018%02d%02d%02d0000-%s", maj, 1+r.Intn(12), 1+r.Intn(28), r.Intn(24), common.Pick(r, hashes)), "pseudo"
	case 6:
		return fmt.Sprintf("%s.%d.%d-0.2019%02d01000000-%s", maj, r.Intn(3), 1+r.Intn(5), 1+r.Intn(12), common.Pick(r, hashes)), "pseudo"
	case 7:
		return fmt.Sprintf("%s.%d.%d-pre.0.2019%02d01000000-%s", maj, r.Intn(3), 1+r.Intn(5), 1+r.Intn(12), common.Pick(r, hashes)), "pseudo"
	case 8:
		return fmt.Sprintf("v%d.%d.%d+incompatible", 2+r.Intn(3), r.Intn(3), r.Intn(3)), "incompatible"
	case 9:
		return fmt.Sprintf("v%d.0.0-20180101000000-%s+incompatible", 2+r.Intn(3), common.Pick(r, hashes)), "pseudo-incompatible"
	case 10:
		// wrong major for the path, or a short form
		return common.Pick(r, []string{"v9.0.0", "v1", "v1.2", maj + ".1", "v0.0.0"}), "mismatch"
	default:
		return common.Pick(r, []string{"vfoo", "v1.0.0.0", "v1.0.x", "v01.0.0", "v1.0.0-", "vX.Y.Z", "v1.0.0+Build", "v1.0.0-Pre"}), "invalid"
	}
}

var fileNames = []string{"go.mod", "x.go", "README", "LICENSE", "sub/y.go", "sub/deep/z.go", "sub/.hidden", "a/b/c/d.txt",
	"Upper.go", "with space.txt", "doc/.keep", "z", "cmd/tool/main.go", "testdata/in.txt", "sub.go", "sub-x/a.go"}
var dotNames = []string{".gitignore", ".hidden", ".github/workflows/ci.yml", ".x/y", "..double",
	".netrc", ".env", ".info2", ".mod~", ".zip2", ".INFO", ".Mod", ".list", ".ziphash", ".info.bak", ".zip", ".txt", ".%s", ".lock"}

// oddNames: archive member names with characters that formatting, quoting, URL or path handling
// could mangle (the zip must carry them unchanged under path@version/).
var oddNames = []string{"100%.txt", "%d.go", "a%20b/c.go", "%s/%v.txt", "back\\slash.txt", "tab\there", "ünï/cödé.go", "\xff\xfe.bin",
	"dir with space/f g.txt", "at@sign.go", "plus+minus-.go", "three...dots", "trailing.dot.", "q?uery&x=1", "semi;colon", "#hash",
	"quote\"s'.txt", "{brace}/[bracket]", "~tilde", "-- dash --", "long/" + strings.Repeat("n", 180) + ".go", "CR\rname", "nul-free\x01ctl"}

func genData(r *common.RNG, tag string) []byte {
	if r.Chance(1, 3) {
		return nastyBytes(r)
	}
	switch r.Intn(8) {
	case 0:
		return []byte{}
	case 1:
		// binary-ish but txtar-safe (ends in newline, no marker line)
		b := []byte(tag + "\x00\x01\xff\xfe bin\n")
		return b
	case 2:
		return []byte(strings.Repeat(tag+" line\n", 1+r.Intn(40)))
	default:
		return []byte(fmt.Sprintf("// %s %d\npackage p\n", tag, r.Intn(1000)))
	}
}

// nastyFragments: contents that a response path using formatting, string conversion, templating,
// line handling or header sniffing would not return byte for byte.
var nastyFragments = []string{
	"%", "%%", "100% done, 50%v left\n", "%20b", "%s %d %v %!", "%!(EXTRA string=x)", "%[1]d %*d %-08.3f", "%!b(MISSING)", "trailing %",
	"https://example.com/a%20b/%s?x=%d\n", "C:\\path\\new\\table\n", "\\n \\x00 \\\\", "\x00", "\x00\x01\x02\x7f", "\xff\xfe", "\xc3\x28", "\x80\xbf", "\xef\xbb\xbf",
	"line one\r\nline two\r\n", "lone\rCR", "\r\n", "\n\n\n", "no final newline", "<html><script>alert(1)</script>", "&amp; &lt;", "{{.}} ${x} $(y)",
	"\t tabs \t", "  leading and trailing  ", "\u00e9\u4e16\u754c\n", "\x1b[31mred\x1b[0m", "GET / HTTP/1.1\r\n\r\n", "PK\x03\x04", "\x1f\x8b\x08",
}

// nastyBytes: 1-4 fragments, sometimes a very long line or random bytes over the whole range.
func nastyBytes(r *common.RNG) []byte {
	var b []byte
	if r.Chance(1, 12) {
		return []byte{}
	}
	for i, n := 0, 1+r.Intn(4); i < n; i++ {
		switch r.Intn(10) {
		case 0:
			b = append(b, bytes.Repeat([]byte(common.Pick(r, []string{"x", "%", "ab%d", "\\", "\xff"})), 1000+r.Intn(70000))...)
		case 1, 2:
			k := r.Intn(200)
			for j := 0; j < k; j++ {
				b = append(b, byte(r.Intn(256)))
			}
		default:
			b = append(b, common.Pick(r, nastyFragments)...)
		}
	}
	if r.Chance(1, 3) {
		b = append(b, '\n')
	}
	return b
}

func genInfo(r *common.RNG, vers string, realistic bool) []byte {
	if realistic {
		return []byte(fmt.Sprintf("{\"Version\":%q,\"Time\":\"2018-02-03T04:05:06Z\"}\n", vers))
	}
	switch r.Intn(9) {
	case 6:
		return nastyBytes(r)
	case 7:
		return []byte(fmt.Sprintf("{\"Version\":%q,\"Origin\":{\"URL\":\"https://example.com/a%%20b/%%s\",\"Ref\":%q}}%s", vers, string(nastyBytes(r)), common.Pick(r, []string{"\n", "", "\r\n"})))
	case 8:
		return append([]byte(fmt.Sprintf("{\"Version\":%q,\"Short\":%q}", vers, strings.ToLower(common.Pick(r, hashes)))), nastyBytes(r)...)
	case 0:
		return []byte(fmt.Sprintf("{\"Version\":%q,\"Short\":%q}\n", vers, strings.ToLower(common.Pick(r, hashes))))
	case 1:
		return []byte(fmt.Sprintf("{\"Version\":%q,\"Short\":%q,\"Time\":\"2018-02-03T04:05:06Z\"}\n", vers, common.Pick(r, []string{"abc", "abcdef1", "0123456789abcdef", "deadbeefcafe00", "a"})))
	case 2:
		return []byte("not json at all\n")
	case 3:
		return []byte{}
	default:
		return []byte(fmt.Sprintf("{\"Version\":%q}\n", vers))
	}
}

func genMod(r *common.RNG, path, vers string) Mod {
	m := Mod{Path: path, Vers: vers, Layout: common.Pick(r, []string{"txt", "txtar", "dir", "txt"})}
	m.Realistic = r.Chance(1, 3)
	tag := path + "@" + vers
	if m.Realistic || r.Chance(9, 10) {
		m.Files = append(m.Files, File{".info", genInfo(r, vers, m.Realistic)})
	}
	if m.Realistic || r.Chance(9, 10) {
		mod := []byte("module " + path + "\n")
		if !m.Realistic {
			switch r.Intn(4) {
			case 0: // any bytes at all
				mod = nastyBytes(r)
			case 1: // a go.mod with comments and replace paths that carry formatting verbs, CRLF, no final newline
				mod = append(mod, []byte("\n// coverage: 100% done, 50%v left\nreplace example.com/x => ../a%20b/%s\r\n")...)
				mod = append(mod, nastyBytes(r)...)
			}
		}
		m.Files = append(m.Files, File{".mod", mod})
	}
	if m.Realistic {
		m.Files = append(m.Files, File{"go.mod", []byte("module " + path + "\n")})
	}
	seen := map[string]bool{"go.mod": m.Realistic, ".info": true, ".mod": true}
	n := r.Intn(6)
	if !m.Realistic && r.Chance(1, 2) {
		n += 1 + r.Intn(3)
	}
	for i := 0; i < n; i++ {
		fn := common.Pick(r, fileNames)
		if !m.Realistic && r.Chance(1, 4) {
			fn = common.Pick(r, dotNames)
		} else if !m.Realistic && r.Chance(1, 5) {
			fn = common.Pick(r, oddNames)
		}
		if m.Realistic && (strings.Contains(fn, "/.") || strings.HasPrefix(fn, ".")) {
			continue
		}
		// a name may not be both a file and a directory
		clash := false
		for s := range seen {
			if strings.HasPrefix(s, fn+"/") || strings.HasPrefix(fn, s+"/") {
				clash = true
			}
		}
		if seen[fn] || clash {
			continue
		}
		seen[fn] = true
		m.Files = append(m.Files, File{fn, genData(r, tag+" "+fn)})
	}
	if m.Layout == "dir" {
		// a directory is walked in lexical order; keep the intent in the same order so that
		// samples read naturally (oracles compare as sets anyway)
		sort.SliceStable(m.Files, func(i, j int) bool { return m.Files[i].Name < m.Files[j].Name })
	} else if r.Chance(1, 3) {
		r2 := r.Fork()
		sort.SliceStable(m.Files, func(i, j int) bool { return r2.Bool() })
	}
	m.settle()
	return m
}

// settle makes the intent of an archive-layout module what the archive file really stores: a
// txtar member cannot hold every byte string (a line that looks like a marker would start a new
// member, data without final newline gets one).  The member list is formatted and read back
// with x/tools' txtar (the format's reference implementation); data that does not survive as ONE
// member under the same name is defused first (marker-like lines are broken up), and the intent
// becomes what the reference parser reads.  Directory layouts store any bytes as they are.
func (m *Mod) settle() {
	if m.Layout == "dir" {
		return
	}
	for attempt := 0; attempt < 3; attempt++ {
		a := &txtar.Archive{Comment: []byte("module " + m.Path + "@" + m.Vers + "\n\n")}
		for _, f := range m.Files {
			a.Files = append(a.Files, txtar.File{Name: f.Name, Data: f.Data})
		}
		p := txtar.Parse(txtar.Format(a))
		ok := len(p.Files) == len(m.Files)
		for i := 0; ok && i < len(p.Files); i++ {
			ok = p.Files[i].Name == m.Files[i].Name
		}
		if ok {
			for i := range p.Files {
				m.Files[i].Data = p.Files[i].Data
			}
			return
		}
		for i := range m.Files {
			d := bytes.ReplaceAll(m.Files[i].Data, []byte("-- "), []byte("-+ "))
			d = bytes.ReplaceAll(d, []byte(" --"), []byte(" +-"))
			m.Files[i].Data = d
			m.Files[i].Name = strings.TrimSpace(strings.NewReplacer("\n", "N", "\r", "R").Replace(m.Files[i].Name))
		}
	}
	// still not representable: fall back to a directory, which stores anything
	m.Layout = "dir"
	sort.SliceStable(m.Files, func(i, j int) bool { return m.Files[i].Name < m.Files[j].Name })
}

// genDir builds one clean directory with 1..4 modules, 1..4 versions each.
func genDir(r *common.RNG) *TestDir {
	td := &TestDir{Clean: true}
	used := map[string]bool{}
	nm := 1 + r.Intn(3)
	for i := 0; i < nm; i++ {
		p := genPath(r)
		nv := 1 + r.Intn(4)
		for j := 0; j < nv; j++ {
			v, _ := genVers(r, p)
			m := genMod(r, p, v)
			n, ok := diskName(m)
			if !ok || used[strings.ToLower(n)] || strings.Contains(v, "_") {
				continue
			}
			used[strings.ToLower(n)] = true
			td.Mods = append(td.Mods, m)
		}
	}
	// harmless extras: entries readModList skips
	if r.Chance(1, 3) {
		td.Extras = append(td.Extras, Extra{Name: common.Pick(r, []string{"README", "notes.md", "list.txt", "x.txtar", "plain"}), Data: []byte("stray\n")})
	}
	if r.Chance(1, 6) {
		td.Extras = append(td.Extras, Extra{Name: common.Pick(r, []string{"emptydir", "tmp"}), IsDir: true})
	}
	return td
}

// genOddDir builds a directory outside the documented naming discipline: only compared with the model.
func genOddDir(r *common.RNG) *TestDir {
	td := genDir(r)
	td.Clean = false
	switch r.Intn(8) {
	case 0: // a module stored in two layouts at once (.txtar shadows .txt shadows directory)
		if len(td.Mods) > 0 {
			m := td.Mods[0]
			m2 := genMod(r, m.Path, m.Vers)
			for _, l := range []string{"txtar", "txt", "dir"} {
				if l != m.Layout {
					m2.Layout = l
					break
				}
			}
			td.Mods = append(td.Mods, m2)
		}
	case 1: // a version that does not start with "v"
		p := genPath(r)
		td.Mods = append(td.Mods, genMod(r, p, common.Pick(r, []string{"1.0.0", "master", "abcdef", "deadbeef", "0123"})))
	case 2: // path with "_" (aliases the path with "/")
		td.Mods = append(td.Mods, genMod(r, "example.com/a_b", "v1.0.0"))
		if r.Bool() {
			td.Mods = append(td.Mods, genMod(r, "example.com/a/b", "v1.1.0"))
		}
	case 3: // version with "_"
		td.Mods = append(td.Mods, genMod(r, genPath(r), common.Pick(r, []string{"v1.0.0-a_b", "v1_v2.0.0", "v1.0.0_vx"})))
	case 4: // names readModList cannot decode: the server must refuse to start
		td.Extras = append(td.Extras, Extra{Name: common.Pick(r, []string{"Example.com_v1.0.0.txt", "example.com_x!_v1.0.0.txt", "nodot_v1.0.0.txt",
			"example.com_v1_vv_v1.0.0", "example.com_v1.0.0!.txtar", "example.com_v..txt", "_v1.0.0.txt", "a.b_v.txt"}), IsDir: false, Data: []byte("-- .info --\n{}\n")})
		if strings.HasSuffix(td.Extras[len(td.Extras)-1].Name, "v1.0.0") {
			td.Extras[len(td.Extras)-1].IsDir = true
		}
	case 5: // a directory that carries an archive suffix, a regular file without suffix
		td.Extras = append(td.Extras, Extra{Name: "example.com_odd_v1.0.0.txtar", IsDir: true, Data: []byte("x")})
		td.Extras = append(td.Extras, Extra{Name: "example.com_odd2_v1.0.0", IsDir: false, Data: []byte("-- .info --\n{}\n")})
		td.Extras = append(td.Extras, Extra{Name: "example.com_odd3_v1.0.0.txt", IsDir: true})
	case 6: // hand-written archives: CRLF, no trailing newline, duplicate names, empty names, directory-like names
		td.Extras = append(td.Extras, Extra{Name: "example.com_raw_v1.0.0.txt", Data: []byte("comment\n-- .info --\r\n{\"Version\":\"v1.0.0\"}\n-- .mod --\nmodule example.com/raw\n-- a.go --\npackage a\n-- a.go --\npackage b\n-- d/ --\n-- e/ --\nnot empty\n-- last --\nno newline")})
		td.Extras = append(td.Extras, Extra{Name: "example.com_raw_v1.1.0.txtar", Data: []byte("-- .mod --\n-- .mod --\nsecond\n-- .info --\n")})
	case 7: // ghost versions: the last "_v" is inside the path
		td.Mods = append(td.Mods, genMod(r, "example.com/vx/c", "1.0.0"))
		td.Mods = append(td.Mods, genMod(r, "example.com/v2", "2.0.0"))
	}
	return td
}

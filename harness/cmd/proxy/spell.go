package main

// Two scenarios around the server's directory (direct oracles, no model involved):
//
//   dir-spelling: the same directory served under other spellings of its name (trailing slash,
//     "./rel", relative, doubled separator, "/./" inside, "x/../x") must give the same, correct
//     responses for every stored module version, in all three layouts (readArchive joins the
//     directory with the archive name and trims that prefix from walked paths).
//   two-servers: two Servers alive in one process, serving the SAME module@version with different
//     contents from different directories (plus a module only the second one has): each must serve
//     its own directory, whichever is asked first (the caches belong to a Server).

import (
	"fmt"
	"os"
	"path/filepath"
	"strings"

	"github.com/rogpeppe/go-internal/goproxytest"

	"verif/harness/common"
)

func spellings(root string) []string {
	parent, base := filepath.Dir(root), filepath.Base(root)
	sp := []string{
		root + "/",
		parent + "//" + base,
		parent + "/./" + base,
		parent + "/" + base + "/../" + base,
		root + "/.",
	}
	if cwd, err := os.Getwd(); err == nil {
		if rel, err := filepath.Rel(cwd, root); err == nil {
			sp = append(sp, rel, "./"+rel, "./"+rel+"/", rel+"//")
		}
	}
	return sp
}

func hostOf(srv *goproxytest.Server) string {
	return strings.TrimSuffix(strings.TrimPrefix(srv.URL, "http://"), "/mod")
}

// storedRequests are the list/info/mod/zip requests of the stored module versions.
func storedRequests(reqs []request) []request {
	var out []request
	for _, q := range reqs {
		if q.Mod != nil && sendable(q.URL) {
			out = append(out, q)
		}
	}
	return out
}

func (rn *runner) spellingPhase(td *TestDir, root string, reqs []request, canon map[string]string, report bool) []failure {
	var fails []failure
	stored := storedRequests(reqs)
	for _, sp := range spellings(root) {
		srv, err := goproxytest.NewServer(sp, "127.0.0.1:0")
		if err != nil {
			fails = append(fails, failure{"impl-violation", "dir-spelling/start", "", "", err.Error(),
				fmt.Sprintf("the directory cannot be served when it is spelled %q", sp)})
			continue
		}
		host := hostOf(srv)
		for _, q := range stored {
			r := get(host, q.URL)
			if report {
				rn.count("dir-spelling-request")
				rn.caseOf(fmt.Sprintf("sp|%d|%s|%s", td.idx, sp, q.URL), true)
			}
			msg := ""
			if r.Err != "" {
				msg = "transport error: " + r.Err
			} else if m := td.checkStored(q.Mod, q.Ext, r); m != "" {
				msg = m
			} else if c, ok := canon[q.URL]; ok && c != r.obs() {
				msg = "response differs from the one under the canonical spelling: " + clip([]byte(c))
			}
			if msg != "" {
				fails = append(fails, failure{"impl-violation", "dir-spelling/" + q.Ext, q.URL, "", clip([]byte(r.obs())),
					fmt.Sprintf("server directory spelled %q (layout %s): %s", sp, q.Mod.Layout, msg)})
				break
			}
		}
		srv.Close()
		if len(fails) > 0 {
			break
		}
	}
	return fails
}

// variant builds a directory with the same module versions and different contents.
func variant(td *TestDir, r *common.RNG) *TestDir {
	v := &TestDir{Clean: true, idx: td.idx}
	layouts := []string{"txt", "txtar", "dir"}
	for i, m := range td.Mods {
		n := Mod{Path: m.Path, Vers: m.Vers, Layout: layouts[(i+r.Intn(3))%3]}
		for j, f := range m.Files {
			if j > 2 && r.Chance(1, 4) {
				continue // the variant lacks this file
			}
			data := append(append([]byte{}, f.Data...), []byte("// second directory\n")...)
			n.Files = append(n.Files, File{f.Name, data})
		}
		n.Files = append(n.Files, File{"only-in-second.txt", []byte("B\n")})
		n.settle()
		v.Mods = append(v.Mods, n)
	}
	v.Mods = append(v.Mods, Mod{Path: "twosrv.example/only-b", Vers: "v1.0.0", Layout: "txt",
		Files: []File{{".info", []byte("{\"Version\":\"v1.0.0\"}\n")}, {".mod", []byte("module twosrv.example/only-b\n")}, {"b.go", []byte("package b\n")}}})
	return v
}

func (rn *runner) twoServersPhase(td *TestDir, rootA string, seed uint64, report bool) []failure {
	var fails []failure
	r := common.NewRNG(seed ^ 0x2b2b)
	tdB := variant(td, r)
	rootB := rootA + "-second"
	defer os.RemoveAll(rootB)
	if tdB.materialise(rootB) != nil {
		return nil
	}
	reqsA := storedRequests(td.requests(common.NewRNG(seed), "quick"))
	reqsB := storedRequests(tdB.requests(common.NewRNG(seed), "quick"))
	for round := 0; round < 2; round++ { // round 0 asks A first, round 1 asks B first
		srvA, errA := goproxytest.NewServer(rootA, "127.0.0.1:0")
		srvB, errB := goproxytest.NewServer(rootB, "127.0.0.1:0")
		if errA != nil || errB != nil {
			if errA == nil {
				srvA.Close()
			}
			if errB == nil {
				srvB.Close()
			}
			fails = append(fails, failure{"impl-violation", "two-servers/start", "", "", fmt.Sprint(errA, errB), "two servers cannot be started in one process"})
			return fails
		}
		type side struct {
			name string
			td   *TestDir
			host string
			reqs []request
		}
		sides := []side{{"first", td, hostOf(srvA), reqsA}, {"second", tdB, hostOf(srvB), reqsB}}
		if round == 1 {
			sides[0], sides[1] = sides[1], sides[0]
		}
		check := func(s side, q request) {
			resp := get(s.host, q.URL)
			if report {
				rn.count("two-servers-request")
				rn.caseOf(fmt.Sprintf("2s|%d|%d|%s|%s", td.idx, round, s.name, q.URL), true)
			}
			msg := ""
			if resp.Err != "" {
				msg = "transport error: " + resp.Err
			} else {
				msg = s.td.checkStored(q.Mod, q.Ext, resp)
			}
			if msg != "" && len(fails) < 3 {
				fails = append(fails, failure{"impl-violation", "two-servers/" + q.Ext, q.URL, "", clip([]byte(resp.obs())),
					fmt.Sprintf("two servers in one process on different directories with the same module versions; the %s server (asked %s in this round) does not serve its own directory: %s",
						s.name, map[bool]string{true: "first", false: "second"}[s.name == sides[0].name], msg)})
			}
		}
		// the same request goes to one server, then to the other
		for i := 0; i < len(sides[0].reqs) || i < len(sides[1].reqs); i++ {
			for _, s := range sides {
				if i < len(s.reqs) {
					check(s, s.reqs[i])
				}
			}
		}
		// the module only the second directory has must be unknown to the first server
		for _, s := range sides {
			if s.name == "first" {
				resp := get(s.host, "/mod/twosrv.example/only-b/@v/v1.0.0.zip")
				if resp.Err == "" && resp.Status != 404 && len(fails) < 3 {
					fails = append(fails, failure{"impl-violation", "two-servers/zip", "/mod/twosrv.example/only-b/@v/v1.0.0.zip", "", clip([]byte(resp.obs())),
						"the first server serves a module that only the second server's directory contains"})
				}
			}
		}
		srvA.Close()
		srvB.Close()
		if len(fails) > 0 {
			break
		}
	}
	return fails
}
